import WindVerif.Proofs.PoolLifeAux
/-! Worker lifecycle in the pool model (C04): the global invariant; worker, feeder and replace-thread steps. -/
namespace WindVerif.Pool

/-- consumer pcs inside an `imap` call, after the replace thread may have been started -/
def inCall : CPc → Bool
  | .fInitSet | .wrSending | .wrDataCnt | .fStart | .rdSending | .rdDataCnt | .qsize1 | .lockAcq | .qsize2 | .getNowait
  | .lockRel | .getBlock | .flowClear | .flowIsSet | .flowSet | .fStopSet | .fJoin | .rPutNone | .rStopSet | .rJoin
  | .midReady _ _ => true
  | _ => false

/-- workers with a smaller wid have been waited for by `until_all_ready` -/
def readyUpto (s : St) : Nat :=
  match s.cpc with
  | .enterStart _ => 0
  | .readyWait j => j
  | _ => s.cfg.nWorkers

/-- retired workers the replace thread has still to replace -/
def pending (s : St) : List Nat := (match s.rpc with | .join wid => [wid] | _ => []) ++ s.replQ.filterMap id

/-- the worker(s) with this wid have left their loop for good (exited, or only `end()` left: `.ending`) -/
def ExitedAll (l : List Worker) (wid : Nat) : Prop := ∀ w ∈ l, w.wid = wid → gone w.pc = true

/-- the worker(s) with this wid have exited (`end()` has run, the process has an exit code) -/
def ExitedStrict (l : List Worker) (wid : Nat) : Prop := ∀ w ∈ l, w.wid = wid → w.pc = .exited

structure LInv (s : St) : Prop where
  nodup : (s.workers.map (·.wid)).Nodup
  widLt : ∀ w ∈ s.workers, w.wid < s.widCounter
  procsLt : ∀ wid ∈ s.procs, wid < s.widCounter
  nwLe : s.cfg.nWorkers ≤ s.widCounter
  wk : ∀ w ∈ s.workers, WInv s.cfg w
  rAliveIn : s.rAlive = true → inCall s.cpc = true ∧ s.cfg.factory = true
  rFactory : (s.cpc = .rInitSet ∨ s.cpc = .rStart) → s.cfg.factory = true
  rIdle : s.rAlive = false → s.rpc = .idle
  pre : (match s.cpc with | .enterStart _ | .readyWait _ => True | _ => False) →
    s.procs = List.range s.cfg.nWorkers ∧ s.widCounter = s.cfg.nWorkers
  starting : ∀ i, s.cpc = .enterStart i → ∀ w ∈ s.workers, i ≤ w.wid → w.pc = .notStarted
  notStarted : ∀ w ∈ s.workers, w.pc = .notStarted → (∃ i, s.cpc = .enterStart i ∧ i ≤ w.wid) ∨ s.rpc = .start w.wid
  rStarting : ∀ nw, s.rpc = .start nw → ∀ w ∈ s.workers, w.wid = nw → w.pc = .notStarted
  ready : s.cfg.waitReady = true → ∀ w ∈ s.workers, w.wid < readyUpto s → w.bf = true
  listed : ∀ w ∈ s.workers, gone w.pc = false → w.wid ∈ s.procs
  pendNodup : (pending s).Nodup
  pend : ∀ wid ∈ pending s, wid ∈ s.procs ∧ ExitedAll s.workers wid
  -- the joins of `__exit__` wait for the exit only without a join timeout
  joined : ∀ i, s.cpc = .exitJoin i → ∀ j < i, ∀ wid, s.procs[j]? = some wid → s.cfg.joinTimeout = false →
    ExitedStrict s.workers wid
  done : s.cpc = .done → ∀ wid ∈ s.procs, s.cfg.joinTimeout = false → ExitedStrict s.workers wid

theorem ExitedAll_upd {l : List Worker} {wid : Nat} {w w' : Worker} (h : ExitedAll l wid) (hw : w ∈ l)
    (hne : gone w.pc = true → gone w'.pc = true) (hwid : w'.wid = w.wid) : ExitedAll (upd w.wid w' l) wid := by
  intro x hx hxw
  rcases mem_upd.1 hx with ⟨rfl, _⟩ | ⟨hx', _⟩
  · exact hne (h w hw (by rw [← hwid, hxw]))
  · exact h x hx' hxw

theorem ExitedStrict_upd {l : List Worker} {wid : Nat} {w w' : Worker} (h : ExitedStrict l wid) (hw : w ∈ l)
    (hne : w.pc ≠ .exited) (hwid : w'.wid = w.wid) : ExitedStrict (upd w.wid w' l) wid := by
  intro x hx hxw
  rcases mem_upd.1 hx with ⟨rfl, _⟩ | ⟨hx', _⟩
  · exact absurd (h w hw (by rw [← hwid, hxw])) hne
  · exact h x hx' hxw

theorem not_gone_imp {w w' : Worker} (h : gone w.pc = false) : gone w.pc = true → gone w'.pc = true := by
  intro h'; rw [h] at h'; cases h'

theorem readyUpto_congr {s s' : St} (h1 : s'.cpc = s.cpc) (h2 : s'.cfg = s.cfg) : readyUpto s' = readyUpto s := by
  unfold readyUpto; rw [h1, h2]

theorem LInv_stepW {s s' : St} {wid : Nat} (hI : LInv s) (h : stepW s wid = some s') : LInv s' := by
  obtain ⟨w, w', hg, hn1, hn2, hwid, hn3, hinv, hf⟩ := stepW_summary h
  obtain ⟨hwm, hwid0⟩ := getWorker_some hg
  obtain ⟨hW', hbf⟩ := hinv (hI.wk w hwm)
  have hmem : ∀ x, x ∈ s'.workers → x = w' ∨ (x ∈ s.workers ∧ x.wid ≠ w.wid) := by
    intro x hx; rw [hf.workers] at hx
    rcases mem_upd.1 hx with ⟨rfl, _⟩ | hx
    · exact Or.inl rfl
    · exact Or.inr hx
  have hex : ∀ k, ExitedAll s.workers k → ExitedAll s'.workers k := by
    intro k hk; rw [hf.workers]; exact ExitedAll_upd hk hwm hf.gone hwid
  constructor
  · rw [hf.workers, upd_wids _ hwid]; exact hI.nodup
  · intro x hx; rw [hf.widCounter]
    rcases hmem x hx with rfl | ⟨hx, _⟩
    · rw [hwid]; exact hI.widLt w hwm
    · exact hI.widLt x hx
  · rw [hf.procs, hf.widCounter]; exact hI.procsLt
  · rw [hf.cfg, hf.widCounter]; exact hI.nwLe
  · intro x hx; rw [hf.cfg]
    rcases hmem x hx with rfl | ⟨hx, _⟩
    · exact hW'
    · exact hI.wk x hx
  · rw [hf.rAlive, hf.cpc, hf.cfg]; exact hI.rAliveIn
  · rw [hf.cpc, hf.cfg]; exact hI.rFactory
  · rw [hf.rAlive, hf.rpc]; exact hI.rIdle
  · rw [hf.cpc, hf.procs, hf.cfg, hf.widCounter]; exact hI.pre
  · intro i hi x hx hix; rw [hf.cpc] at hi
    rcases hmem x hx with rfl | ⟨hx, _⟩
    · exact absurd (hI.starting i hi w hwm (by omega)) hn1
    · exact hI.starting i hi x hx hix
  · intro x hx hpc; rw [hf.cpc, hf.rpc]
    rcases hmem x hx with rfl | ⟨hx, _⟩
    · exact absurd hpc hn3
    · exact hI.notStarted x hx hpc
  · intro nw hnw x hx hxw; rw [hf.rpc] at hnw
    rcases hmem x hx with rfl | ⟨hx, _⟩
    · exact absurd (hI.rStarting nw hnw w hwm (by omega)) hn1
    · exact hI.rStarting nw hnw x hx hxw
  · intro hr x hx hlt; rw [hf.cfg] at hr; rw [readyUpto_congr hf.cpc hf.cfg] at hlt
    rcases hmem x hx with rfl | ⟨hx, _⟩
    · exact hbf (hI.ready hr w hwm (by omega))
    · exact hI.ready hr x hx hlt
  · intro x hx hne; rw [hf.procs]
    rcases hmem x hx with rfl | ⟨hx, _⟩
    · rw [hwid]; refine hI.listed w hwm ?_
      cases hgw : gone w.pc
      · rfl
      · rw [hf.gone hgw] at hne; cases hne
    · exact hI.listed x hx hne
  · unfold pending; rw [hf.rpc]
    rcases hf.replQ with hq | ⟨hq, hgg⟩
    · rw [hq]; exact hI.pendNodup
    · skip
      rw [hq, List.filterMap_append, ← List.append_assoc]
      simp only [List.filterMap_cons, List.filterMap_nil, id]
      rw [List.nodup_append]
      refine ⟨hI.pendNodup, by simp, ?_⟩
      intro a ha b hb; simp at hb; subst hb
      intro hab; subst hab
      have := (hI.pend _ ha).2 w hwm rfl
      rw [hgg.2] at this; cases this
  · intro k hk; rw [hf.procs]
    have : k ∈ pending s ∨ (k = w.wid ∧ gone w'.pc = true ∧ gone w.pc = false) := by
      unfold pending at hk ⊢; rw [hf.rpc] at hk
      rcases hf.replQ with hq | ⟨hq, he⟩
      · rw [hq] at hk; exact Or.inl hk
      · rw [hq, List.filterMap_append, ← List.append_assoc] at hk
        rcases List.mem_append.1 hk with hk | hk
        · exact Or.inl hk
        · simp at hk; exact Or.inr ⟨hk, he⟩
    rcases this with hk | ⟨rfl, he, hgw⟩
    · exact ⟨(hI.pend k hk).1, hex k (hI.pend k hk).2⟩
    · refine ⟨hI.listed w hwm hgw, ?_⟩
      intro x hx hxw
      rcases hmem x hx with rfl | ⟨_, hne⟩
      · exact he
      · exact absurd hxw hne
  · intro i hi j hj k hk hjt; rw [hf.cpc] at hi; rw [hf.procs] at hk; rw [hf.cfg] at hjt
    rw [hf.workers]; exact ExitedStrict_upd (hI.joined i hi j hj k hk hjt) hwm hn2 hwid
  · intro hd k hk hjt; rw [hf.cpc] at hd; rw [hf.procs] at hk; rw [hf.cfg] at hjt
    rw [hf.workers]; exact ExitedStrict_upd (hI.done hd k hk hjt) hwm hn2 hwid


/-- consumer pcs after `__enter__` / `until_all_ready` -/
def post : CPc → Bool
  | .enterStart _ | .readyWait _ => false
  | _ => true

theorem post_of_inCall {c : CPc} (h : inCall c = true) : post c = true := by
  cases c <;> simp [inCall, post] at h ⊢

theorem readyUpto_post {s : St} (h : post s.cpc = true) : readyUpto s = s.cfg.nWorkers := by
  unfold readyUpto; cases hc : s.cpc <;> simp [hc, post] at h ⊢

theorem pending_congr {s s' : St} (h1 : s'.rpc = s.rpc) (h2 : s'.replQ.filterMap id = s.replQ.filterMap id) :
    pending s' = pending s := by
  unfold pending; rw [h1, h2]

/-- steps that leave workers, procs and the replace thread alone -/
theorem LInv_frame {s s' : St} (hI : LInv s) (h1 : s'.cfg = s.cfg) (h2 : s'.workers = s.workers) (h3 : s'.procs = s.procs)
    (h4 : s'.widCounter = s.widCounter) (h5 : s'.rpc = s.rpc) (h6 : s'.rAlive = s.rAlive)
    (h7 : s'.replQ.filterMap id = s.replQ.filterMap id)
    (hc : s'.cpc = s.cpc ∨ (post s.cpc = true ∧ post s'.cpc = true ∧ (s.rAlive = true → inCall s'.cpc = true) ∧
      ((s'.cpc = .rInitSet ∨ s'.cpc = .rStart) → s.cfg.factory = true) ∧
      (∀ i, s'.cpc = .exitJoin i → ∀ j < i, ∀ wid, s.procs[j]? = some wid → s.cfg.joinTimeout = false →
        ExitedStrict s.workers wid) ∧
      (s'.cpc = .done → ∀ wid ∈ s.procs, s.cfg.joinTimeout = false → ExitedStrict s.workers wid))) : LInv s' := by
  have hp := pending_congr h5 h7
  rcases hc with hc | ⟨p1, p2, c1, c2, c3, c4⟩
  · have hr := readyUpto_congr hc h1
    constructor
    · rw [h2]; exact hI.nodup
    · rw [h2, h4]; exact hI.widLt
    · rw [h3, h4]; exact hI.procsLt
    · rw [h1, h4]; exact hI.nwLe
    · rw [h1, h2]; exact hI.wk
    · rw [h6, hc, h1]; exact hI.rAliveIn
    · rw [hc, h1]; exact hI.rFactory
    · rw [h6, h5]; exact hI.rIdle
    · rw [hc, h3, h1, h4]; exact hI.pre
    · rw [hc, h2]; exact hI.starting
    · rw [hc, h2, h5]; exact hI.notStarted
    · rw [h5, h2]; exact hI.rStarting
    · rw [h1, h2, hr]; exact hI.ready
    · rw [h2, h3]; exact hI.listed
    · rw [hp]; exact hI.pendNodup
    · rw [hp, h3, h2]; exact hI.pend
    · rw [hc, h3, h2, h1]; exact hI.joined
    · rw [hc, h3, h2, h1]; exact hI.done
  · constructor
    · rw [h2]; exact hI.nodup
    · rw [h2, h4]; exact hI.widLt
    · rw [h3, h4]; exact hI.procsLt
    · rw [h1, h4]; exact hI.nwLe
    · rw [h1, h2]; exact hI.wk
    · rw [h6, h1]; intro hr; exact ⟨c1 hr, (hI.rAliveIn hr).2⟩
    · rw [h1]; exact c2
    · rw [h6, h5]; exact hI.rIdle
    · intro hh; cases hcpc : s'.cpc <;> simp [hcpc, post] at hh p2
    · intro i hi; rw [hi] at p2; cases p2
    · rw [h2, h5]; intro w hw hpc
      rcases hI.notStarted w hw hpc with ⟨i, hi, _⟩ | hh
      · rw [hi] at p1; cases p1
      · exact Or.inr hh
    · rw [h5, h2]; exact hI.rStarting
    · rw [h1, h2, readyUpto_post p2, h1, ← readyUpto_post p1]; exact hI.ready
    · rw [h2, h3]; exact hI.listed
    · rw [hp]; exact hI.pendNodup
    · rw [hp, h3, h2]; exact hI.pend
    · rw [h3, h2, h1]; exact c3
    · rw [h3, h2, h1]; exact c4

theorem LInv_stepF {s s' : St} (hI : LInv s) (h : stepF s = some s') : LInv s' := by
  unfold stepF at h
  split at h
  · cases h
  · split at h
    · cases h
    · split at h
      · cases h
      · simp only [Option.some.injEq] at h; subst h; exact LInv_frame hI rfl rfl rfl rfl rfl rfl rfl (Or.inl rfl)
    · simp only [Option.some.injEq] at h; subst h; exact LInv_frame hI rfl rfl rfl rfl rfl rfl rfl (Or.inl rfl)
    · simp only [Option.some.injEq] at h; subst h; exact LInv_frame hI rfl rfl rfl rfl rfl rfl rfl (Or.inl rfl)
    · split at h <;> simp only [Option.some.injEq] at h <;> subst h <;>
        exact LInv_frame hI rfl rfl rfl rfl rfl rfl rfl (Or.inl rfl)
    · split at h
      · split at h <;> simp only [Option.some.injEq] at h <;> subst h <;>
          exact LInv_frame hI rfl rfl rfl rfl rfl rfl rfl (Or.inl rfl)
      · cases h
    · simp only [Option.some.injEq] at h; subst h; exact LInv_frame hI rfl rfl rfl rfl rfl rfl rfl (Or.inl rfl)
    · simp only [Option.some.injEq] at h; subst h
      split <;> exact LInv_frame hI rfl rfl rfl rfl rfl rfl rfl (Or.inl rfl)

/-! ### the replace thread -/

theorem not_post_contra {c : CPc} (h : post c = true) :
    ¬ (match (generalizing := false) c with | .enterStart _ | .readyWait _ => True | _ => False) := by
  cases c <;> simp [post] at h ⊢

theorem WInv_start {cfg : Cfg} {w : Worker} (h : WInv cfg w) (hpc : w.pc = .notStarted) : WInv cfg { w with pc := .bfClear } := by
  obtain ⟨h1, h2, h3, h4, h5, h6⟩ := h
  simp only [hpc] at h1 h2
  refine ⟨?_, ?_, ?_, ?_, ?_, ?_⟩ <;> dsimp only
  · exact h1
  · exact h2
  · exact h3
  · intro q hq; exact ⟨(h4 q hq).1, trivial⟩
  · exact h5
  · intro _; exact h6 (Or.inl hpc)

theorem LInv_stepR {s s' : St} (hI : LInv s) (h : stepR s = some s') : LInv s' := by
  unfold stepR at h
  split at h
  · cases h
  · rename_i hal
    have hal' : s.rAlive = true := by simpa using hal
    obtain ⟨hin, hfac⟩ := hI.rAliveIn hal'
    have hpost := post_of_inCall hin
    split at h
    · cases h
    · -- get
      rename_i hrpc
      split at h
      · cases h
      · rename_i r hq
        simp only [Option.some.injEq] at h; subst h
        have hp : pending { s with replQ := r, rpc := .idle, rAlive := false } = pending s := by
          unfold pending; simp [hrpc, hq]
        constructor
        · exact hI.nodup
        · exact hI.widLt
        · exact hI.procsLt
        · exact hI.nwLe
        · exact hI.wk
        · intro hh; cases hh
        · exact hI.rFactory
        · intro _; rfl
        · exact hI.pre
        · exact hI.starting
        · intro w hw hpc
          rcases hI.notStarted w hw hpc with hh | hh
          · exact Or.inl hh
          · rw [hrpc] at hh; cases hh
        · intro nw hh; cases hh
        · exact hI.ready
        · exact hI.listed
        · rw [hp]; exact hI.pendNodup
        · rw [hp]; exact hI.pend
        · exact hI.joined
        · exact hI.done
      · rename_i wid r hq
        simp only [Option.some.injEq] at h; subst h
        have hp : pending { s with replQ := r, rpc := .join wid } = pending s := by
          unfold pending; simp [hrpc, hq]
        constructor
        · exact hI.nodup
        · exact hI.widLt
        · exact hI.procsLt
        · exact hI.nwLe
        · exact hI.wk
        · exact hI.rAliveIn
        · exact hI.rFactory
        · intro hh; rw [hal'] at hh; cases hh
        · exact hI.pre
        · exact hI.starting
        · intro w hw hpc
          rcases hI.notStarted w hw hpc with hh | hh
          · exact Or.inl hh
          · rw [hrpc] at hh; cases hh
        · intro nw hh; cases hh
        · exact hI.ready
        · exact hI.listed
        · rw [hp]; exact hI.pendNodup
        · rw [hp]; exact hI.pend
        · exact hI.joined
        · exact hI.done
    · -- join wid
      rename_i wid hrpc
      split at h
      · simp only [Option.some.injEq] at h; subst h
        have hpend : pending s = wid :: s.replQ.filterMap id := by unfold pending; simp [hrpc]
        have hnd := hI.pendNodup
        rw [hpend, List.nodup_cons] at hnd
        have hwid := hI.pend wid (by rw [hpend]; simp)
        have hnone : ∀ w ∈ s.workers, w.pc ≠ .notStarted := by
          intro w hw hpc
          rcases hI.notStarted w hw hpc with ⟨i, hi, _⟩ | hh
          · rw [hi] at hpost; cases hpost
          · rw [hrpc] at hh; cases hh
        constructor <;> try dsimp only
        · rw [List.map_append, List.nodup_append]
          refine ⟨hI.nodup, by simp, ?_⟩
          intro a ha b hb
          simp [mkWorker] at hb; subst hb
          obtain ⟨w, hw, rfl⟩ := List.mem_map.1 ha
          have := hI.widLt w hw; omega
        · intro w hw
          rcases List.mem_append.1 hw with hw | hw
          · have := hI.widLt w hw; omega
          · simp [mkWorker] at hw; subst hw; simp
        · intro k hk
          obtain ⟨x, hx, rfl⟩ := List.mem_map.1 hk
          have := hI.procsLt x hx
          split <;> omega
        · have := hI.nwLe; omega
        · intro w hw
          rcases List.mem_append.1 hw with hw | hw
          · exact hI.wk w hw
          · simp at hw; subst hw; exact WInv_mk _ _
        · exact hI.rAliveIn
        · exact hI.rFactory
        · intro hh; rw [hal'] at hh; cases hh
        · intro hh; exact (not_post_contra hpost hh).elim
        · intro i hi; rw [hi] at hpost; cases hpost
        · intro w hw hpc
          rcases List.mem_append.1 hw with hw | hw
          · exact absurd hpc (hnone w hw)
          · simp at hw; subst hw; exact Or.inr rfl
        · intro nw hh w hw hwn
          simp only [RPc.start.injEq] at hh; subst hh
          rcases List.mem_append.1 hw with hw | hw
          · have := hI.widLt w hw; omega
          · simp at hw; subst hw; rfl
        · intro hr w hw hlt
          change w.wid < readyUpto s at hlt
          rcases List.mem_append.1 hw with hw | hw
          · exact hI.ready hr w hw hlt
          · simp at hw; subst hw
            rw [readyUpto_post hpost] at hlt
            have := hI.nwLe; simp [mkWorker] at hlt; omega
        · intro w hw hne
          rcases List.mem_append.1 hw with hw | hw
          · have h1 := hI.listed w hw hne
            have h2 : w.wid ≠ wid := fun e => by have := hwid.2 w hw e; rw [hne] at this; cases this
            exact List.mem_map.2 ⟨w.wid, h1, by simp [h2]⟩
          · simp at hw; subst hw
            exact List.mem_map.2 ⟨wid, hwid.1, by simp [mkWorker]⟩
        · unfold pending; simpa using hnd.2
        · intro k hk
          have hk' : k ∈ s.replQ.filterMap id := by unfold pending at hk; simpa using hk
          have hkp := hI.pend k (by rw [hpend]; exact List.mem_cons_of_mem _ hk')
          have hne : k ≠ wid := fun e => hnd.1 (e ▸ hk')
          refine ⟨List.mem_map.2 ⟨k, hkp.1, by simp [hne]⟩, ?_⟩
          intro w hw hwk
          rcases List.mem_append.1 hw with hw | hw
          · exact hkp.2 w hw hwk
          · simp at hw; subst hw
            have := hI.procsLt k hkp.1; simp [mkWorker] at hwk; omega
        · intro i hi; rw [hi] at hin; cases hin
        · intro hi; rw [hi] at hin; cases hin
      · cases h
    · -- start nw
      rename_i nw hrpc
      split at h
      · cases h
      · rename_i w hg
        simp only [Option.some.injEq] at h; subst h
        obtain ⟨hwm, hwid⟩ := getWorker_some hg
        have hpc : w.pc = .notStarted := hI.rStarting nw hrpc w hwm hwid
        have hne : gone w.pc = false := by rw [hpc]; rfl
        have hmem : ∀ x, x ∈ upd w.wid { w with pc := .bfClear } s.workers →
            x = { w with pc := .bfClear } ∨ (x ∈ s.workers ∧ x.wid ≠ w.wid) := by
          intro x hx
          rcases mem_upd.1 hx with ⟨rfl, _⟩ | hx
          · exact Or.inl rfl
          · exact Or.inr hx
        have hex : ∀ k, ExitedAll s.workers k → ExitedAll (upd w.wid { w with pc := .bfClear } s.workers) k :=
          fun k hk => ExitedAll_upd hk hwm (not_gone_imp hne) rfl
        have hp : pending { (setWorker s { w with pc := .bfClear }) with rpc := .get } = pending s := by
          unfold pending; simp [hrpc, setWorker]
        constructor <;> dsimp only [setWorker_workers]
        · show ((upd w.wid { w with pc := .bfClear } s.workers).map (·.wid)).Nodup
          rw [upd_wids (k := w.wid) (w' := { w with pc := .bfClear }) _ rfl]; exact hI.nodup
        · intro x hx
          rcases hmem x hx with rfl | ⟨hx, _⟩
          · exact hI.widLt w hwm
          · exact hI.widLt x hx
        · exact hI.procsLt
        · exact hI.nwLe
        · intro x hx
          rcases hmem x hx with rfl | ⟨hx, _⟩
          · exact WInv_start (hI.wk w hwm) hpc
          · exact hI.wk x hx
        · exact hI.rAliveIn
        · exact hI.rFactory
        · intro hh; have : s.rAlive = false := hh; rw [hal'] at this; cases this
        · intro hh; exact (not_post_contra hpost hh).elim
        · intro i hi; have : s.cpc = .enterStart i := hi; rw [this] at hpost; cases hpost
        · intro x hx hxpc
          rcases hmem x hx with rfl | ⟨hx, hxw⟩
          · cases hxpc
          · rcases hI.notStarted x hx hxpc with ⟨i, hi, _⟩ | hh
            · rw [hi] at hpost; cases hpost
            · rw [hrpc] at hh; simp only [RPc.start.injEq] at hh; omega
        · intro k hh; cases hh
        · intro hr x hx hlt
          rcases hmem x hx with rfl | ⟨hx, _⟩
          · exact hI.ready hr w hwm hlt
          · exact hI.ready hr x hx hlt
        · intro x hx hxne
          rcases hmem x hx with rfl | ⟨hx, _⟩
          · exact hI.listed w hwm hne
          · exact hI.listed x hx hxne
        · show (pending { (setWorker s { w with pc := .bfClear }) with rpc := .get }).Nodup
          rw [hp]; exact hI.pendNodup
        · show ∀ wid ∈ pending { (setWorker s { w with pc := .bfClear }) with rpc := .get }, _
          rw [hp]; intro k hk; exact ⟨(hI.pend k hk).1, hex k (hI.pend k hk).2⟩
        · intro i hi; have : s.cpc = .exitJoin i := hi; rw [this] at hin; cases hin
        · intro hi; have : s.cpc = .done := hi; rw [this] at hin; cases hin

end WindVerif.Pool
