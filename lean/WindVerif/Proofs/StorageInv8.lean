import WindVerif.Proofs.StorageInv7
/-! Auxiliary development for `Storage.lean`, part 8: counting the stored identifiers (list lemmas, pigeonhole) and the
definition of the counter layer `InvD`. -/
namespace WindVerif.Storage
set_option linter.unusedSimpArgs false

/-- identifier `g` is stored (on the index list) -/
def stL (l : List (Option (Nat × Nat))) (g : Nat) : Bool :=
  match l[g]? with
  | some (some _) => true
  | _ => false

/-- number of stored identifiers -/
def nSt (l : List (Option (Nat × Nat))) : Nat := l.countP (fun e => e.isSome)

theorem stored'_eq (s : St) (g : Nat) : stored' s g = stL s.index g := rfl

@[simp] theorem stL_nil (g : Nat) : stL [] g = false := by simp [stL]
@[simp] theorem stL_cons_zero (a : Option (Nat × Nat)) (l : List (Option (Nat × Nat))) : stL (a :: l) 0 = a.isSome := by
  cases a <;> simp [stL]
@[simp] theorem stL_cons_succ (a : Option (Nat × Nat)) (l : List (Option (Nat × Nat))) (g : Nat) :
    stL (a :: l) (g + 1) = stL l g := by simp [stL]

theorem stL_iff {l : List (Option (Nat × Nat))} {g : Nat} : stL l g = true ↔ ∃ e, l[g]? = some (some e) := by
  unfold stL
  split
  · rename_i e h; simp [h]
  · rename_i h
    simp only [Bool.false_eq_true, false_iff, not_exists]
    intro e he; exact h e he

theorem stL_lt {l : List (Option (Nat × Nat))} {g : Nat} (h : stL l g = true) : g < l.length := by
  obtain ⟨e, he⟩ := stL_iff.1 h
  rcases Nat.lt_or_ge g l.length with h' | h'
  · exact h'
  · simp [List.getElem?_eq_none h'] at he

/-- the number of stored identifiers, as in the statement of `counters_quiescent` -/
theorem nSt_eq_filter (l : List (Option (Nat × Nat))) : ((List.range l.length).filter (stL l)).length = nSt l := by
  induction l with
  | nil => rfl
  | cons a l ih =>
    rw [List.length_cons, List.range_succ_eq_map, List.filter_cons, List.filter_map, nSt, List.countP_cons]
    have : (stL (a :: l) ∘ Nat.succ) = stL l := by funext g; simp
    rw [this]
    cases a <;> simp [ih, nSt]

theorem nSt_extend (l : List (Option (Nat × Nat))) (n : Nat) : nSt (l ++ List.replicate n none) = nSt l := by
  simp [nSt, List.countP_append, List.countP_replicate]

theorem stL_extend (l : List (Option (Nat × Nat))) (n g : Nat) : stL (l ++ List.replicate n none) g = stL l g := by
  unfold stL
  rcases Nat.lt_or_ge g l.length with h | h
  · rw [List.getElem?_append_left h]
  · rw [List.getElem?_append_right h, List.getElem?_eq_none h]
    simp [List.getElem?_replicate]

theorem nSt_set (l : List (Option (Nat × Nat))) (g : Nat) (e : Nat × Nat) (h : l[g]? = some none) :
    nSt (l.set g (some e)) = nSt l + 1 := by
  induction l generalizing g with
  | nil => simp at h
  | cons a l ih =>
    cases g with
    | zero =>
      simp at h; subst h
      simp [nSt, List.countP_cons]
    | succ g =>
      simp at h
      have := ih g h
      simp only [nSt, List.set_cons_succ, List.countP_cons] at this ⊢
      omega

theorem stL_set (l : List (Option (Nat × Nat))) (g g' : Nat) (e : Nat × Nat) (hg : g < l.length) :
    stL (l.set g (some e)) g' = (if g' = g then true else stL l g') := by
  unfold stL
  by_cases h : g' = g
  · subst h; simp [List.getElem?_set_self hg]
  · have : g ≠ g' := fun h' => h h'.symm
    rw [List.getElem?_set_ne this, if_neg h]

/-- pigeonhole: if all identifiers below `wf` are stored then `wf` is at most the number of stored ones, and when it equals
that number nothing else is stored -/
theorem pigeon (l : List (Option (Nat × Nat))) (wf : Nat) (h : ∀ g, g < wf → stL l g = true) :
    wf ≤ nSt l ∧ (nSt l ≤ wf → ∀ g, stL l g = true → g < wf) := by
  induction l generalizing wf with
  | nil =>
    cases wf with
    | zero => simp [nSt]
    | succ n => have := h 0 (by omega); simp at this
  | cons a l ih =>
    cases wf with
    | zero =>
      refine ⟨Nat.zero_le _, ?_⟩
      intro hc g hg
      simp only [nSt, Nat.le_zero_eq, List.countP_eq_zero] at hc
      obtain ⟨e, he⟩ := stL_iff.1 hg
      have := hc _ (List.mem_of_getElem? he)
      simp at this
    | succ n =>
      have h0 := h 0 (by omega)
      simp at h0
      have hn : ∀ g, g < n → stL l g = true := by
        intro g hg; have := h (g + 1) (by omega); simpa using this
      obtain ⟨ih1, ih2⟩ := ih n hn
      have hc : nSt (a :: l) = nSt l + 1 := by simp [nSt, List.countP_cons, h0]
      refine ⟨by omega, ?_⟩
      intro hle g hg
      cases g with
      | zero => omega
      | succ g =>
        have := ih2 (by omega) g (by simpa using hg)
        omega

/-! ## the counter layer -/

def midCnt : Pc → Bool
  | .sCntRead | .sCntWrite | .sWfRead1 | .sWfRead2 | .sWfWrite1 | .sLoopWf | .sLoopCnt | .sLoopWf2 | .sLoopIdx
  | .sLoopWfR | .sLoopWfW => true
  | _ => false

/-- the counters agree with the index -/
def FullV (idx : List (Option (Nat × Nat))) (cnt wf : Nat) : Prop :=
  cnt = nSt idx ∧ (∀ g, g < wf → stL idx g = true) ∧ stL idx wf = false

structure LocD (s : St) (i : Nat) (p : Proc) : Prop where
  full : s.lock = some i → midCnt p.pc = false → FullV s.index s.cnt s.wf
  cnt1 : p.pc = .sCntRead ∨ p.pc = .sCntWrite → s.cnt + 1 = nSt s.index
  cnt0 : midCnt p.pc = true → p.pc ≠ .sCntRead → p.pc ≠ .sCntWrite → s.cnt = nSt s.index
  wfLow : midCnt p.pc = true → ∀ g, g < s.wf → stL s.index g = true
  wfGid : p.pc = .sCntRead ∨ p.pc = .sCntWrite ∨ p.pc = .sWfRead1 → stL s.index s.wf = true → s.wf = p.gid
  wfSt : p.pc = .sWfRead2 ∨ p.pc = .sWfWrite1 ∨ p.pc = .sLoopWfR ∨ p.pc = .sLoopWfW → stL s.index s.wf = true
  tmpCnt : p.pc = .sCntWrite → p.tmp = s.cnt
  tmpWf : p.pc = .sWfWrite1 ∨ p.pc = .sLoopCnt ∨ p.pc = .sLoopIdx ∨ p.pc = .sLoopWfW → p.tmp = s.wf

structure InvD (s : St) : Prop where
  loc : ∀ (i : Nat) (p : Proc), s.procs[i]? = some p → LocD s i p
  free : s.lock = none → FullV s.index s.cnt s.wf

theorem LocD.of_notmid {s : St} {i : Nat} {p : Proc} (hm : midCnt p.pc = false)
    (hfull : s.lock = some i → FullV s.index s.cnt s.wf) : LocD s i p := by
  constructor
  · intro h _; exact hfull h
  all_goals (intro h; cases hpc : p.pc <;> simp_all [midCnt])

theorem LocA.lock_of_mid {scripts : List (List Op)} {s : St} {j : Nat} {q : Proc} (h : LocA scripts s j q)
    (hq : midCnt q.pc = true) : s.lock = some j :=
  h.lock.1 (by unfold dep; cases hpc : q.pc <;> simp_all [midCnt])

theorem LocD.frame {scripts : List (List Op)} {s s' : St} {j : Nat} {q : Proc} (hD : LocD s j q)
    (hAq : LocA scripts s j q) (hl : s'.lock = some j ↔ s.lock = some j)
    (hsame : s.lock = some j → s'.index = s.index ∧ s'.cnt = s.cnt ∧ s'.wf = s.wf) : LocD s' j q := by
  by_cases hlk : s.lock = some j
  · obtain ⟨e1, e2, e3⟩ := hsame hlk
    obtain ⟨d1, d2, d3, d4, d5, d6, d7, d8⟩ := hD
    constructor <;> simp only [e1, e2, e3] <;> try assumption
    rw [hl]; exact d1
  · have hm : midCnt q.pc = false := by
      cases h : midCnt q.pc
      · rfl
      · exact absurd (hAq.lock_of_mid h) hlk
    exact LocD.of_notmid hm (fun h => absurd (hl.1 h) hlk)

end WindVerif.Storage
