import WindVerif.Model.ForkFile
/-! Theorems about the fork model of line / map files (C18). -/
namespace WindVerif.ForkFile

def Reach (s : St) : Prop := ∃ acts rs, run init acts = some (s, rs)

/-- the process at index `i` is the legitimate user of the description its handle refers to -/
def Owns (s : St) (i : Nat) : Prop :=
  ∃ p, s.procs[i]? = some p ∧ p.openedPid = some p.pid

/-- an action of another process -/
def NotBy (i : Nat) : Act → Prop
  | .fork _ => True            -- anybody may fork, also process `i` itself
  | .seek j _ => j ≠ i
  | .read j => j ≠ i

structure Inv (s : St) : Prop where
  pidlt : ∀ (i : Nat) (p : Proc), s.procs[i]? = some p → p.pid < s.nextPid
  piddist : ∀ (i j : Nat) (p q : Proc), s.procs[i]? = some p → s.procs[j]? = some q → i ≠ j → p.pid ≠ q.pid
  hdl : ∀ (i : Nat) (p : Proc), s.procs[i]? = some p →
    ∃ d op, p.desc = some d ∧ d < s.offsets.length ∧ p.openedPid = some op ∧ op < s.nextPid
  own : ∀ (i j : Nat) (p q : Proc), s.procs[i]? = some p → s.procs[j]? = some q → i ≠ j →
    p.openedPid = some p.pid → q.openedPid = some q.pid → p.desc ≠ q.desc

theorem inv_init : Inv init := by
  constructor <;> simp [init] <;> grind

theorem inv_setOff (s : St) (hI : Inv s) (d v : Nat) : Inv { s with offsets := s.offsets.set d v } := by
  obtain ⟨h1, h2, h3, h4⟩ := hI
  exact ⟨h1, h2, by simpa using h3, h4⟩

theorem reopen_spec (s : St) (hI : Inv s) (i : Nat) (p : Proc) (hp : s.procs[i]? = some p) (s' : St) (p' : Proc)
    (hr : reopen s i p = (s', p')) :
    Inv s' ∧ s'.procs[i]? = some p' ∧ p'.openedPid = some p'.pid ∧ s'.nextPid = s.nextPid ∧
    s'.procs.length = s.procs.length ∧ (∀ j, j ≠ i → s'.procs[j]? = s.procs[j]?) ∧
    (∀ d, d < s.offsets.length → s'.offsets[d]? = s.offsets[d]?) ∧
    (∃ d, p'.desc = some d ∧ d < s'.offsets.length) ∧
    (p.openedPid = some p.pid → s' = s ∧ p' = p) ∧ s.offsets.length ≤ s'.offsets.length := by
  obtain ⟨h1, h2, h3, h4⟩ := hI
  obtain ⟨d, op, hd, hdl, hop, hopl⟩ := h3 i p hp
  unfold reopen at hr
  rw [hop] at hr
  simp only at hr
  split at hr
  · simp only [Prod.mk.injEq] at hr
    obtain ⟨rfl, rfl⟩ := hr
    refine ⟨⟨h1, h2, h3, h4⟩, hp, by grind, rfl, rfl, by simp, by simp, ⟨d, hd, hdl⟩, by simp, by simp⟩
  · simp only [Prod.mk.injEq] at hr
    obtain ⟨rfl, rfl⟩ := hr
    have hil : i < s.procs.length := by
      have := List.getElem?_eq_some_iff.1 hp; grind
    refine ⟨⟨?_, ?_, ?_, ?_⟩, ?_, rfl, rfl, by simp, ?_, ?_, ?_, ?_, by simp⟩
    · intro j q hq
      simp only [List.getElem?_set] at hq
      grind
    · intro j k q r hq hr
      simp only [List.getElem?_set] at hq hr
      grind
    · intro j q hq
      simp only [List.getElem?_set] at hq
      simp only [List.length_append, List.length_singleton]
      by_cases hij : i = j
      · subst hij
        simp only [if_true, hil] at hq
        obtain rfl := Option.some.inj hq
        exact ⟨_, _, rfl, by omega, rfl, h1 i p hp⟩
      · simp only [if_neg hij] at hq
        obtain ⟨d', op', e1, e2, e3, e4⟩ := h3 j q hq
        exact ⟨d', op', e1, by omega, e3, e4⟩
    · intro j k q r hq hr
      simp only [List.getElem?_set] at hq hr
      grind
    · simp [hil]
    · intro j hj
      simp [Ne.symm hj]
    · intro d hd
      simp [List.getElem?_append, hd]
    · simp
    · intro h; rw [hop] at h; simp_all


theorem fork_inv (s : St) (hI : Inv s) (i : Nat) (p : Proc) (hp : s.procs[i]? = some p) :
    Inv { s with procs := s.procs ++ [{ p with pid := s.nextPid }], nextPid := s.nextPid + 1 } := by
  obtain ⟨h1, h2, h3, h4⟩ := hI
  obtain ⟨d, op, hd, hdl, hop, hopl⟩ := h3 i p hp
  have key : ∀ (j : Nat) (q : Proc), (s.procs ++ [{ p with pid := s.nextPid }])[j]? = some q →
      (j < s.procs.length ∧ s.procs[j]? = some q) ∨ (j = s.procs.length ∧ q = { p with pid := s.nextPid }) := by
    intro j q hq
    rw [List.getElem?_append] at hq
    split at hq
    · left; exact ⟨by assumption, hq⟩
    · right
      rename_i hlt
      have : j - s.procs.length = 0 := by
        rcases Nat.eq_zero_or_pos (j - s.procs.length) with h | h
        · exact h
        · rw [List.getElem?_eq_none (by simp; omega)] at hq; cases hq
      rw [this] at hq
      simp at hq
      exact ⟨by omega, hq.symm⟩
  refine ⟨?_, ?_, ?_, ?_⟩
  · intro j q hq
    rcases key j q hq with ⟨_, h⟩ | ⟨_, rfl⟩
    · have := h1 j q h; simp only; omega
    · simp
  · intro j k q r hq hr hjk
    rcases key j q hq with ⟨hj, h⟩ | ⟨hj, rfl⟩ <;> rcases key k r hr with ⟨hk, h'⟩ | ⟨hk, rfl⟩
    · exact h2 j k q r h h' hjk
    · have := h1 j q h; simp only; omega
    · have := h1 k r h'; simp only; omega
    · omega
  · intro j q hq
    rcases key j q hq with ⟨_, h⟩ | ⟨_, rfl⟩
    · obtain ⟨d', op', e1, e2, e3, e4⟩ := h3 j q h
      exact ⟨d', op', e1, e2, e3, by simp only; omega⟩
    · exact ⟨d, op, hd, hdl, hop, by simp only; omega⟩
  · intro j k q r hq hr hjk
    rcases key j q hq with ⟨hj, h⟩ | ⟨hj, rfl⟩ <;> rcases key k r hr with ⟨hk, h'⟩ | ⟨hk, rfl⟩
    · exact h4 j k q r h h' hjk
    · intro _ hc; simp only [hop] at hc; injection hc; omega
    · intro hc; simp only [hop] at hc; injection hc; omega
    · omega

theorem step_inv (s : St) (hI : Inv s) (a : Act) (s' : St) (r : Option Nat) (h : step s a = some (s', r)) :
    Inv s' := by
  cases a with
  | fork i =>
    simp only [step] at h
    split at h
    · cases h
    · rename_i p hp
      simp only [Option.some.injEq, Prod.mk.injEq] at h
      obtain ⟨rfl, _⟩ := h
      exact fork_inv s hI i p hp
  | seek i line =>
    simp only [step] at h
    split at h
    · cases h
    · rename_i p hp
      rcases hr : reopen s i p with ⟨t, p'⟩
      rw [hr] at h
      simp only at h
      obtain ⟨hI', -⟩ := reopen_spec s hI i p hp t p' hr
      split at h
      · cases h
      · simp only [Option.some.injEq, Prod.mk.injEq] at h
        obtain ⟨rfl, _⟩ := h
        exact inv_setOff t hI' _ _
  | read i =>
    simp only [step] at h
    split at h
    · cases h
    · rename_i p hp
      rcases hr : reopen s i p with ⟨t, p'⟩
      rw [hr] at h
      simp only at h
      obtain ⟨hI', -⟩ := reopen_spec s hI i p hp t p' hr
      split at h
      · cases h
      · split at h
        · cases h
        · simp only [Option.some.injEq, Prod.mk.injEq] at h
          obtain ⟨rfl, _⟩ := h
          exact inv_setOff t hI' _ _


theorem run_inv (acts : List Act) : ∀ (s : St), Inv s → ∀ (s' : St) (rs : List (Nat × Nat)),
    run s acts = some (s', rs) → Inv s' := by
  induction acts with
  | nil => intro s hI s' rs h; simp only [run, Option.some.injEq, Prod.mk.injEq] at h; exact h.1 ▸ hI
  | cons a as ih =>
    intro s hI s' rs h
    simp only [run] at h
    split at h
    · cases h
    · rename_i t r hst
      split at h
      · cases h
      · rename_i t' rs' hrun
        simp only [Option.some.injEq, Prod.mk.injEq] at h
        obtain ⟨rfl, _⟩ := h
        exact ih t (step_inv s hI a t r hst) _ _ hrun

theorem reach_inv (s : St) (h : Reach s) : Inv s := by
  obtain ⟨acts, rs, h⟩ := h
  exact run_inv acts init inv_init s rs h

/-- what process `i` sees of the state: its own object, and the offset of the description it owns -/
structure View (s : St) (i : Nat) (p : Proc) (d v : Nat) : Prop where
  hp : s.procs[i]? = some p
  hown : p.openedPid = some p.pid
  hd : p.desc = some d
  hv : s.offsets[d]? = some v

theorem step_frame (s : St) (hI : Inv s) (i : Nat) (p : Proc) (d v : Nat) (hV : View s i p d v)
    (a : Act) (ha : NotBy i a) (s' : St) (r : Option Nat) (h : step s a = some (s', r)) : View s' i p d v := by
  obtain ⟨hp, hown, hd, hv⟩ := hV
  have hil : i < s.procs.length := by
    have := List.getElem?_eq_some_iff.1 hp; grind
  have hdl : d < s.offsets.length := by
    have := List.getElem?_eq_some_iff.1 hv; grind
  have other : ∀ (j : Nat) (q : Proc), j ≠ i → s.procs[j]? = some q → ∀ (t : St) (q' : Proc), reopen s j q = (t, q') →
      ∀ (d' x : Nat), q'.desc = some d' → View { t with offsets := t.offsets.set d' x } i p d v := by
    intro j q hji hq t q' hr d' x hd'
    obtain ⟨hI', e1, e2, e3, e4, e5, e6, e7, e8, e9⟩ := reopen_spec s hI j q hq t q' hr
    have hp' : t.procs[i]? = some p := by rw [e5 i (Ne.symm hji)]; exact hp
    have hne : d' ≠ d := by
      have := hI'.own j i q' p e1 hp' hji e2 hown
      rw [hd', hd] at this
      exact fun h => this (by rw [h])
    refine ⟨hp', hown, hd, ?_⟩
    simp only [List.getElem?_set, if_neg hne]
    rw [e6 d hdl]; exact hv
  cases a with
  | fork j =>
    simp only [step] at h
    split at h
    · cases h
    · simp only [Option.some.injEq, Prod.mk.injEq] at h
      obtain ⟨rfl, _⟩ := h
      exact ⟨by simp only [List.getElem?_append, hil, if_true]; exact hp, hown, hd, hv⟩
  | seek j line =>
    simp only [step] at h
    split at h
    · cases h
    · rename_i q hq
      rcases hr : reopen s j q with ⟨t, q'⟩
      rw [hr] at h
      simp only at h
      split at h
      · cases h
      · rename_i d' hd'
        simp only [Option.some.injEq, Prod.mk.injEq] at h
        obtain ⟨rfl, _⟩ := h
        exact other j q ha hq t q' hr d' _ hd'
  | read j =>
    simp only [step] at h
    split at h
    · cases h
    · rename_i q hq
      rcases hr : reopen s j q with ⟨t, q'⟩
      rw [hr] at h
      simp only at h
      split at h
      · cases h
      · rename_i d' hd'
        split at h
        · cases h
        · simp only [Option.some.injEq, Prod.mk.injEq] at h
          obtain ⟨rfl, _⟩ := h
          exact other j q ha hq t q' hr d' _ hd'

theorem run_frame (i : Nat) (p : Proc) (d v : Nat) (others : List Act) : ∀ (s : St), Inv s → View s i p d v →
    (∀ a ∈ others, NotBy i a) → ∀ (s' : St) (rs : List (Nat × Nat)), run s others = some (s', rs) →
    View s' i p d v := by
  induction others with
  | nil => intro s hI hV _ s' rs h; simp only [run, Option.some.injEq, Prod.mk.injEq] at h; exact h.1 ▸ hV
  | cons a as ih =>
    intro s hI hV ho s' rs h
    simp only [run] at h
    split at h
    · cases h
    · rename_i t r hst
      split at h
      · cases h
      · rename_i t' rs' hrun
        simp only [Option.some.injEq, Prod.mk.injEq] at h
        obtain ⟨rfl, _⟩ := h
        exact ih t (step_inv s hI a t r hst) (step_frame s hI i p d v hV a (ho a (by simp)) t r hst)
          (fun b hb => ho b (by simp [hb])) _ _ hrun

/-- the owner reads the line at the offset of its own description -/
theorem read_view (s : St) (i : Nat) (p : Proc) (d v : Nat) (hV : View s i p d v) :
    ∃ s3, step s (.read i) = some (s3, some v) := by
  obtain ⟨hp, hown, hd, hv⟩ := hV
  have hr : reopen s i p = (s, p) := by simp [reopen, hown]
  simp only [step, hp, hr, hd, hv]
  exact ⟨_, rfl⟩

/-- after its own `seek` process `i` owns a description positioned at `line` -/
theorem seek_view (s : St) (hI : Inv s) (i line : Nat) (s1 : St) (r : Option Nat)
    (hs : step s (.seek i line) = some (s1, r)) : ∃ p d, View s1 i p d line := by
  simp only [step] at hs
  split at hs
  · cases hs
  · rename_i q hq
    rcases hr : reopen s i q with ⟨t, q'⟩
    rw [hr] at hs
    simp only at hs
    obtain ⟨hI', e1, e2, e3, e4, e5, e6, ⟨d, e7, e7'⟩, e8, e9⟩ := reopen_spec s hI i q hq t q' hr
    rw [e7] at hs
    simp only [Option.some.injEq, Prod.mk.injEq] at hs
    obtain ⟨rfl, _⟩ := hs
    exact ⟨q', d, e1, e2, e7, by simp [e7']⟩

/-- after its own `read` of line `l` process `i` owns a description positioned at `l + 1` -/
theorem read_step_view (s : St) (hI : Inv s) (i l : Nat) (s1 : St)
    (hs : step s (.read i) = some (s1, some l)) : ∃ p d, View s1 i p d (l + 1) := by
  simp only [step] at hs
  split at hs
  · cases hs
  · rename_i q hq
    rcases hr : reopen s i q with ⟨t, q'⟩
    rw [hr] at hs
    simp only at hs
    obtain ⟨hI', e1, e2, e3, e4, e5, e6, ⟨d, e7, e7'⟩, e8, e9⟩ := reopen_spec s hI i q hq t q' hr
    rw [e7] at hs
    simp only at hs
    split at hs
    · cases hs
    · simp only [Option.some.injEq, Prod.mk.injEq] at hs
      obtain ⟨rfl, hl⟩ := hs
      exact ⟨q', d, e1, e2, e7, by simp [e7', hl]⟩

/-- single user: two different processes that both legitimately use their handle never share a description; process ids
are unique -/
theorem single_user (s : St) (h : Reach s) (i j : Nat) (p q : Proc) (hi : s.procs[i]? = some p) (hj : s.procs[j]? = some q)
    (hne : i ≠ j) : p.pid ≠ q.pid ∧ (p.openedPid = some p.pid → q.openedPid = some q.pid → p.desc ≠ q.desc) :=
  have hI := reach_inv s h
  ⟨hI.piddist i j p q hi hj hne, hI.own i j p q hi hj hne⟩

/-- every process always has a handle (the file was opened before the first fork) -/
theorem has_handle (s : St) (h : Reach s) (i : Nat) (p : Proc) (hi : s.procs[i]? = some p) :
    ∃ d, p.desc = some d ∧ d < s.offsets.length ∧ p.openedPid.isSome := by
  obtain ⟨d, op, h1, h2, h3, _⟩ := (reach_inv s h).hdl i p hi
  exact ⟨d, h1, h2, by simp [h3]⟩

/-- Processes never disturb each other's read position: after process `i` has positioned itself at `line`, whatever the
other processes do in between — seeks, reads, forks (also forks by `i` itself and by its children), in any number and any
interleaving — its next read returns exactly that line, the same it would get alone. -/
theorem read_own_line (s : St) (h : Reach s) (i line : Nat) (s1 : St) (hs : step s (.seek i line) = some (s1, none))
    (others : List Act) (ho : ∀ a ∈ others, NotBy i a) (s2 : St) (rs : List (Nat × Nat))
    (hrun : run s1 others = some (s2, rs)) :
    ∃ s3, step s2 (.read i) = some (s3, some line) := by
  have hI := reach_inv s h
  obtain ⟨p, d, hV⟩ := seek_view s hI i line s1 none hs
  exact read_view s2 i p d line (run_frame i p d line others s1 (step_inv s hI _ s1 none hs) hV ho s2 rs hrun)

/-- and sequential reads of one process continue line by line (iteration), undisturbed by the others -/
theorem read_next_line (s : St) (h : Reach s) (i : Nat) (s1 : St) (l : Nat) (hs : step s (.read i) = some (s1, some l))
    (others : List Act) (ho : ∀ a ∈ others, NotBy i a) (s2 : St) (rs : List (Nat × Nat))
    (hrun : run s1 others = some (s2, rs)) :
    ∃ s3, step s2 (.read i) = some (s3, some (l + 1)) := by
  have hI := reach_inv s h
  obtain ⟨p, d, hV⟩ := read_step_view s hI i l s1 hs
  exact read_view s2 i p d (l + 1) (run_frame i p d (l + 1) others s1 (step_inv s hI _ s1 _ hs) hV ho s2 rs hrun)

/-- every action of an existing process is possible (no operation fails because of what others did) -/
theorem total (s : St) (h : Reach s) (a : Act)
    (hex : match a with | .fork i => i < s.procs.length | .seek i _ => i < s.procs.length | .read i => i < s.procs.length) :
    (step s a).isSome := by
  have hI := reach_inv s h
  cases a with
  | fork i =>
    simp only at hex
    simp [step, List.getElem?_eq_getElem hex]
  | seek i line =>
    simp only at hex
    have hq := List.getElem?_eq_getElem hex
    rcases hr : reopen s i s.procs[i] with ⟨t, q'⟩
    obtain ⟨hI', e1, e2, e3, e4, e5, e6, ⟨d, e7, e7'⟩, e8, e9⟩ := reopen_spec s hI i _ hq t q' hr
    simp [step, hq, hr, e7]
  | read i =>
    simp only at hex
    have hq := List.getElem?_eq_getElem hex
    rcases hr : reopen s i s.procs[i] with ⟨t, q'⟩
    obtain ⟨hI', e1, e2, e3, e4, e5, e6, ⟨d, e7, e7'⟩, e8, e9⟩ := reopen_spec s hI i _ hq t q' hr
    simp [step, hq, hr, e7, List.getElem?_eq_getElem e7']

end WindVerif.ForkFile
