import WindVerif.Proofs.PoolSafeAux7
/-! Safety of the pool model: the conservation invariant is inductive; the result theorems of C01 / C03 follow.

The development is in `PoolSafeAux1` … `PoolSafeAux7`: `SafeInv` over plain values (`SafeV` = control part `CtlV`, data part
`DataV`, emitted call numbers `OutLe`, worker part `WrkV`), its preservation by the steps of the workers, the replace thread,
the feeder (`Aux4`) and the consumer (`Aux5`, `Aux6`), and the history invariant `HistInv` about the calls that are over
(`Aux7`). -/
namespace WindVerif.Pool
open List

/-! ## the configuration never changes -/

theorem afterEnter_cfg (s : St) : (afterEnter s).cfg = s.cfg := by
  unfold afterEnter
  split
  · rfl
  · rw [toNextCall_cfg]

theorem safe_stepC_cfg {s s' : St} (h : stepC s = some s') : s'.cfg = s.cfg := by
  unfold stepC at h
  split at h
  all_goals (repeat' (first | (split at h) | (simp only [] at h; split at h)))
  all_goals (first
    | (simp at h; done)
    | (simp only [Option.some.injEq] at h; subst h
       first | rfl | simp [toNextCall_cfg, afterResults_cfg, afterEnter_cfg, afterBatch_cfg, setWorker]))

theorem safe_step_cfg {s s' : St} {t : Tid} (h : step s t = some s') : s'.cfg = s.cfg := by
  cases t with
  | c => exact safe_stepC_cfg h
  | f => have := stepF_hview h; simp only [hview, Prod.mk.injEq] at this; exact this.1
  | r => have := stepR_hview h; simp only [hview, Prod.mk.injEq] at this; exact this.1
  | w wid => have := stepW_hview h; simp only [hview, Prod.mk.injEq] at this; exact this.1

theorem run_cfg : ∀ (sched : List Tid) (s s' : St), run s sched = some s' → s'.cfg = s.cfg
  | [], s, s', hr => by
    simp only [run, Option.some.injEq] at hr
    rw [hr]
  | t :: ts, s, s', hr => by
    unfold run at hr
    split at hr
    · simp at hr
    · rename_i s1 hst
      exact (run_cfg ts s1 s' hr).trans (safe_step_cfg hst)

theorem cfg_const (cfg : Cfg) (s : St) (h : Reach cfg s) : s.cfg = cfg := by
  obtain ⟨sched, hr⟩ := h
  exact run_cfg sched _ _ hr

/-! ## the invariants hold initially -/

theorem init_cpc (cfg : Cfg) :
    (init cfg).cpc = .readyWait 0 ∨ (init cfg).cpc = .nextCall ∨ (init cfg).cpc = .enterStart 0 := by
  have e : (init cfg).cpc =
      (if cfg.nWorkers = 0 then (if cfg.waitReady then CPc.readyWait 0 else CPc.nextCall) else CPc.enterStart 0) := rfl
  rw [e]
  split
  · split
    · left; rfl
    · right; left; rfl
  · right; right; rfl

theorem safe_init (cfg : Cfg) : SafeInv (init cfg) := by
  rw [safe_iff]
  show SafeV (init cfg).cpc none .idle false 0 0 0 0 false false 0 [] ((List.range cfg.nWorkers).map (mkWorker cfg)) [] []
    [] 0 [] 0 .idle cfg.nWorkers
  have hfl : flightL [] ((List.range cfg.nWorkers).map (mkWorker cfg)) [] = [] := by
    simp only [flightL, chunksOf_nil, nil_append, append_nil, heldL, filterMap_map]
    rw [filterMap_eq_nil_iff]
    intro a _
    rfl
  have hw : ∀ en, WrkV en .idle ((List.range cfg.nWorkers).map (mkWorker cfg)) cfg.nWorkers := by
    intro en
    refine ⟨?_, ?_, ?_, ?_, fun _ => rfl⟩
    · rw [map_map]
      have : ((fun x : Worker => x.wid) ∘ mkWorker cfg) = id := rfl
      rw [this, map_id]
      exact nodup_range
    · intro w hw
      rw [mem_map] at hw
      obtain ⟨i, hi, rfl⟩ := hw
      exact mem_range.1 hi
    · intro w hw
      rw [mem_map] at hw
      obtain ⟨i, hi, rfl⟩ := hw
      intro hh
      simp [mkWorker] at hh
    · intro nw hr
      simp at hr
  have hc : ∀ pc, pc = CPc.readyWait 0 ∨ pc = CPc.nextCall ∨ pc = CPc.enterStart 0 →
      CtlV (csig pc) none .idle false 0 0 0 0 false false 0 := by
    intro pc hpc
    rcases hpc with rfl | rfl | rfl <;>
    · refine ⟨sigOk_csig _, ?_, ?_, ?_, ?_, ?_, ?_, ?_, ?_, ?_, ?_, ?_, ?_, ?_, ?_, ?_, ?_, ?_⟩ <;>
        simp [csig, preStartPc, postLoopPc, exitPc, rjPc, rdPc, wsPc, wdPc, fsPc]
  exact ⟨hc _ (init_cpc cfg), data_next_none hfl, fun p hp => by simp at hp, hw _⟩

theorem hist_init (cfg : Cfg) : HistInv (init cfg) := by
  refine ⟨⟨[], ?_, rfl, fun k hk => by simp at hk⟩, fun p hp => ?_, fun _ => rfl, fun he => ?_⟩
  · show cfg.calls = [] ++ [] ++ cfg.calls
    simp
  · have : (init cfg).out = [] := rfl
    rw [this] at hp
    simp at hp
  · rcases init_cpc cfg with h | h | h <;> rw [h] at he <;> simp [exitPc] at he

/-! ## every step preserves them -/

/-- the invariant is preserved by every step of every thread -/
theorem safe_step (s s' : St) (t : Tid) (hf : NoFaults s.cfg) (h : SafeInv s) (hs : step s t = some s') : SafeInv s' := by
  cases t with
  | c => exact safe_stepC s s' h hs
  | f => exact safe_stepF s s' h hs
  | r => exact safe_stepR s s' h hs
  | w wid => exact safe_stepW s s' wid hf h hs

theorem hist_step (s s' : St) (t : Tid) (h : SafeInv s) (hh : HistInv s) (hs : step s t = some s') : HistInv s' := by
  cases t with
  | c => exact hist_stepC s s' h hh hs
  | f => exact hist_of_hview hh (stepF_hview hs)
  | r => exact hist_of_hview hh (stepR_hview hs)
  | w wid => exact hist_of_hview hh (stepW_hview hs)

theorem inv_run : ∀ (sched : List Tid) (s s' : St), NoFaults s.cfg → SafeInv s → HistInv s → run s sched = some s' →
    SafeInv s' ∧ HistInv s' ∧ s'.cfg = s.cfg
  | [], s, s', _, h1, h2, hr => by
    simp only [run, Option.some.injEq] at hr
    subst hr
    exact ⟨h1, h2, rfl⟩
  | t :: ts, s, s', hf, h1, h2, hr => by
    unfold run at hr
    split at hr
    · simp at hr
    · rename_i s1 hst
      have hcfg := safe_step_cfg hst
      have := inv_run ts s1 s' (by rw [hcfg]; exact hf) (safe_step s s1 t hf h1 hst) (hist_step s s1 t h1 h2 hst) hr
      exact ⟨this.1, this.2.1, this.2.2.trans hcfg⟩

theorem safe_reach (cfg : Cfg) (hf : NoFaults cfg) (s : St) (h : Reach cfg s) : SafeInv s := by
  obtain ⟨sched, hr⟩ := h
  exact (inv_run sched (init cfg) s hf (safe_init cfg) (hist_init cfg) hr).1

theorem hist_reach (cfg : Cfg) (hf : NoFaults cfg) (s : St) (h : Reach cfg s) : HistInv s := by
  obtain ⟨sched, hr⟩ := h
  exact (inv_run sched (init cfg) s hf (safe_init cfg) (hist_init cfg) hr).2.1

/-! ## consequences for the current call -/

theorem sentV_le {g : CSig} {c : Call} {fpc : FPc} {sending : Bool} {dataCnt fNext fTotal fRead : Nat}
    {fAlive fStop : Bool} {finished : Nat}
    (hc : CtlV g (some c) fpc sending dataCnt fNext fTotal fRead fAlive fStop finished) :
    sentV g.pre (some c) fpc fNext fTotal ≤ c.chunks := by
  cases hp : g.pre
  · have ht := hc.total c rfl hp
    have h3 := hc.cntPut hp rfl
    have h4 := hc.cntWr hp rfl
    have h5 := hc.cntAfter hp rfl
    cases fpc <;> simp_all [sentV] <;> omega
  · simp [sentV]

/-- the chunks emitted in the current call are pairwise different indices below the number of chunks sent -/
theorem curOut_facts (s : St) (h : SafeInv s) (c : Call) (hcur : s.cur = some c) :
    (curOut s).Nodup ∧ (∀ i ∈ curOut s, i < c.chunks) ∧ (curOut s).length ≤ c.chunks := by
  obtain ⟨hc, hd, -, -⟩ := (safe_iff s).1 h
  rw [hcur] at hc hd
  have hle := sentV_le hc
  have hp := hd.conserve rfl
  have hnd : (flightL s.workQ s.workers s.resQ ++ s.batch ++ s.buffer ++ curOutL s.out s.callNo).Nodup :=
    hp.nodup_iff.2 nodup_range
  rw [curOut_eq]
  refine ⟨(sublist_append_right _ _).nodup hnd, ?_, ?_⟩
  · intro i hi
    have : i ∈ List.range (sentV (csig s.cpc).pre (some c) s.fpc s.fNext s.fTotal) :=
      hp.mem_iff.1 (mem_append_right _ hi)
    have := mem_range.1 this
    omega
  · have := data_fin_le hd rfl
    rw [hd.fin rfl] at this
    omega

/-- ordered `imap`: at every moment, under every interleaving, the chunks emitted so far are `0, 1, …, m-1` in this order:
nothing lost, duplicated, reordered or invented -/
theorem imap_prefix (cfg : Cfg) (hf : NoFaults cfg) (s : St) (h : Reach cfg s) (c : Call) (hc : s.cur = some c)
    (ho : c.ordered = true) : curOut s = List.range (curOut s).length ∧ (curOut s).length ≤ c.chunks := by
  have hs := safe_reach cfg hf s h
  refine ⟨?_, (curOut_facts s hs c hc).2.2⟩
  have e := hs.ordered c hc ho
  rw [e, length_range]

/-- `imap_unordered`: every emitted chunk is a chunk of the input and no chunk is emitted twice -/
theorem imap_unordered_nodup (cfg : Cfg) (hf : NoFaults cfg) (s : St) (h : Reach cfg s) (c : Call) (hc : s.cur = some c) :
    (curOut s).Nodup ∧ ∀ i ∈ curOut s, i < c.chunks := by
  have hs := safe_reach cfg hf s h
  exact ⟨(curOut_facts s hs c hc).1, (curOut_facts s hs c hc).2.1⟩

/-- when the consumer has left the result loop of a call, every chunk has been emitted exactly once (ordered: in input
order) and no result chunk, work item or held chunk is left anywhere (wake-up tokens may remain) -/
theorem imap_result (cfg : Cfg) (hf : NoFaults cfg) (s : St) (h : Reach cfg s) (c : Call) (hc : s.cur = some c)
    (hp : postLoop s = true) :
    (curOut s).Perm (List.range c.chunks) ∧ (c.ordered = true → curOut s = List.range c.chunks) ∧
    chunksOf s.resQ = [] ∧ chunksOf s.workQ = [] ∧ heldChunks s = [] ∧ s.buffer = [] := by
  have hs := safe_reach cfg hf s h
  rw [postLoop_eq] at hp
  obtain ⟨r1, r2, r3, -, r5⟩ := safe_result s hs c hc hp
  obtain ⟨q1, q2, q3⟩ := (flight_nil_iff _ _ _).1 r3
  exact ⟨r1, r2, q3, q1, q2, r5⟩

/-! ## consequences for the calls that are over -/

/-- consecutive calls: when the caller's whole program has finished, every call `k` of the history (different lengths,
chunk sizes, ordered or not, empty ones in between, with or without worker replacement) has emitted exactly its own chunks,
ordered calls in input order — nothing leaked from one call into another -/
theorem calls_independent (cfg : Cfg) (hf : NoFaults cfg) (s : St) (h : Reach cfg s) (hd : s.cpc = .done)
    (k : Nat) (c : Call) (hk : cfg.calls[k]? = some c) :
    (outOf s (k + 1)).Perm (List.range c.chunks) ∧ (c.ordered = true → outOf s (k + 1) = List.range c.chunks) := by
  have hh := hist_reach cfg hf s h
  have hcfg := cfg_const cfg s h
  obtain ⟨⟨done, h1, h2, h3⟩, -, -, hfin⟩ := hh
  obtain ⟨hcur, hleft⟩ := hfin (by rw [hd]; rfl)
  rw [hcur, hleft, hcfg] at h1
  simp only [Option.toList_none, append_nil] at h1
  rw [h1] at hk
  obtain ⟨hlt, heq⟩ := List.getElem?_eq_some_iff.1 hk
  have := h3 k hlt
  rw [heq] at this
  exact this

/-- the same for every call that is already over while the program is still running -/
theorem past_calls (cfg : Cfg) (hf : NoFaults cfg) (s : St) (h : Reach cfg s) (k : Nat) (c : Call)
    (hk : cfg.calls[k]? = some c) (hpast : k + 1 < s.callNo) :
    (outOf s (k + 1)).Perm (List.range c.chunks) ∧ (c.ordered = true → outOf s (k + 1) = List.range c.chunks) := by
  have hh := hist_reach cfg hf s h
  have hcfg := cfg_const cfg s h
  obtain ⟨⟨done, h1, h2, h3⟩, -, -, -⟩ := hh
  have hlt : k < done.length := by
    have : s.cur.toList.length ≤ 1 := by cases s.cur <;> simp
    omega
  rw [hcfg] at h1
  rw [h1, append_assoc, getElem?_append_left hlt] at hk
  obtain ⟨_, heq⟩ := List.getElem?_eq_some_iff.1 hk
  have := h3 k hlt
  rw [heq] at this
  exact this

end WindVerif.Pool
