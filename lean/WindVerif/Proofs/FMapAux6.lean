import WindVerif.Proofs.FMapAux5
/-! The invariant is inductive. -/
namespace WindVerif.FMap

theorem inv_p_start {cfg : Cfg} (hw : 1 ≤ cfg.nWorkers) {s s' : St} {i : Nat} (h : Inv cfg s) (hp : s.ppc = .start i)
    (hs : stepP s = some s') : Inv cfg s' := by
  have hm := h.toMain
  have hN : s.cfg.nWorkers = cfg.nWorkers := by rw [hm.cfg_eq]
  have hM : s.cfg.mulP = cfg.mulP := by rw [hm.cfg_eq]
  have hph := hm.phase; unfold PhaseOK at hph; simp only [hp] at hph
  obtain ⟨hi, hdc, hfi, hnx, hcn, htot, _⟩ := hph
  unfold stepP at hs
  simp only [hp] at hs
  cases hg : getWorker s (s.base + i) with
  | none => simp [hg] at hs
  | some w =>
    simp only [hg] at hs
    obtain ⟨l1, l2, hws, hst, hwpc, hwh, hwid, F1, F2⟩ := start_facts hm hp hg
    rw [hst] at hs
    simp only [hN, hM] at hs
    have hwids' : (l1 ++ { w with pc := .get } :: l2).map (·.wid) = List.range (l1 ++ { w with pc := .get } :: l2).length := by
      have := hm.wids; rw [hws] at this; simpa using this
    have hlen' : (l1 ++ { w with pc := .get } :: l2).length = s.base + cfg.nWorkers := by
      have := hm.len; rw [hws, hp] at this; simpa using this
    by_cases h1 : i + 1 < cfg.nWorkers
    · simp only [h1, if_true, Option.some.injEq] at hs; subst hs
      refine ⟨main_p_start hm hp hws hwpc hwh hwid (.start (i + 1)) rfl rfl ?_ ?_ ?_, by simp⟩
      · simp [cur]
      · intro x hx hxp; exact ⟨i + 1, rfl, F1 x hx hxp⟩
      · show PhaseOK cfg _
        unfold PhaseOK; simp only
        exact ⟨h1, hdc, hfi, hnx, hcn, htot, F2⟩
    · have hnone : ∀ x ∈ l1 ++ { w with pc := .get } :: l2, x.pc ≠ .notStarted := by
        intro x hx hxp
        have := F1 x hx hxp
        have := wid_lt_of_mem hwids' hx
        omega
      simp only [h1, if_false] at hs
      cases hmm : cfg.mulP
      · -- FunctorMap: all workers started, the first call begins
        simp only [hmm, Bool.false_eq_true, if_false, Option.some.injEq] at hs; subst hs
        unfold startCall
        apply inv_startCallGo hw
        have hf : s.finished = s.dataCnt := by omega
        obtain ⟨q1, q2, q3, q4, q5⟩ := main_quiet hm hf
        have hheld : ∀ x ∈ s.workers, x.held = none := heldL_nil_iff.1 q2
        have hpost : posted cfg s.ppc = 0 := by simp [hp, posted]
        have hwq : s.workQ = [] := queue_nil_of _ q1 (nonesQ_eq_zero (hm.nonone hpost))
        have hlive : live (l1 ++ { w with pc := .get } :: l2) = live s.workers := by
          rw [hws]; simp [live_cons, hwpc]
        have hheld' : ∀ x ∈ l1 ++ { w with pc := .get } :: l2, x.held = none :=
          repl_forall (hws ▸ hheld) hwh
        have hhp' : ∀ x ∈ l1 ++ { w with pc := .get } :: l2, (x.pc = .put ↔ x.held ≠ none) :=
          repl_forall (hws ▸ hm.held_put) (by simp [hwh])
        exact {
          cfg_eq := hm.cfg_eq
          wids := hwids'
          held := fun x hx => ⟨hheld' x hx, fun hpp => (hhp' x hx).1 hpp (hheld' x hx), hnone x hx⟩
          workQ := hwq
          resQ := q3
          buffer := q4
          cc := ⟨hf, by show s.dataCnt = s.total; have := htot hmm; omega⟩
          fin := hm.fin
          gotp := q5
          modeP := by simp [hmm]
          modeF := fun _ => by
            refine ⟨hm.modeF hmm, ?_, by simp⟩
            show live (l1 ++ _ :: l2) = _
            rw [hlive]; have := hm.count; rw [hpost, hwq] at this; simpa using this
          len := Or.inl hlen'
          old := by
            have := hm.joinedEx; rw [hp, hws] at this
            exact repl_forall this (fun hlt => by have : w.wid < s.base + 0 := hlt; omega)
          histDrop := hm.histDrop
          histLe := hm.histLe
          histTot := hm.histTot
          outs := fun k => by
            show outK s.out k = _
            rw [hm.outs k, expOut_complete _ _ _ hm.histTot]
            have hwf : s.wf = 0 := by have := hm.fin; omega
            simp [cur, hmm, hwf, htot hmm] }
      · simp only [hmm, if_true] at hs
        by_cases ht : s.total = 0
        · -- mul_p_map with no item: straight to the stop orders
          have hn0 : ¬ s.cfg.nWorkers = 0 := by omega
          rw [if_pos ht] at hs
          simp only [afterFeeding, hM, hmm, hn0, if_true, if_false, Option.some.injEq] at hs; subst hs
          refine ⟨main_p_start hm hp hws hwpc hwh hwid (.stopPut 0) rfl rfl ?_ ?_ ?_, by simp⟩
          · simp [cur]
          · intro x hx hxp; exact absurd hxp (hnone x hx)
          · show PhaseOK cfg _
            unfold PhaseOK; simp only
            exact ⟨by omega, by omega, hcn, by simp [hmm]⟩
        · rw [if_neg ht] at hs
          simp only [Option.some.injEq] at hs; subst hs
          refine ⟨main_p_start hm hp hws hwpc hwh hwid .put rfl rfl ?_ ?_ ?_, by simp⟩
          · simp [cur]
          · intro x hx hxp; exact absurd hxp (hnone x hx)
          · show PhaseOK cfg _
            unfold PhaseOK; simp only
            exact ⟨by omega, by omega, hcn hmm⟩

theorem stepP_nowait_cons {s : St} {i : Nat} {r : List Nat} (hp : s.ppc = .nowait) (hq : s.resQ = i :: r) :
    stepP s = if s.cfg.exact ∧ ¬ s.cfg.mulP ∧
        (receive { s with resQ := r } i).finished = (receive { s with resQ := r } i).total
      then some (startCall (receive { s with resQ := r } i)) else some (receive { s with resQ := r } i) := by
  unfold stepP; simp only [hp, hq]

theorem stepP_nowait_nil {s : St} (hp : s.ppc = .nowait) (hq : s.resQ = []) :
    stepP s = if s.next + 1 < s.total then some { s with next := s.next + 1, ppc := .put }
      else some (afterFeeding { s with next := s.next + 1 }) := by
  unfold stepP; simp only [hp, hq]

theorem stepP_finalGet_cons {s : St} {i : Nat} {r : List Nat} (hp : s.ppc = .finalGet) (hq : s.resQ = i :: r) :
    stepP s = some (finalOrNext (receive { s with resQ := r } i)) := by
  unfold stepP; simp only [hp, hq]

theorem stepP_stopPut {s : St} {i : Nat} (hp : s.ppc = .stopPut i) :
    stepP s = if s.workQ.length ≥ s.cfg.workCap then none
      else if i + 1 < s.cfg.nWorkers then some { s with workQ := s.workQ ++ [none], ppc := .stopPut (i + 1) }
      else if s.cfg.mulP then some (finalOrNext { s with workQ := s.workQ ++ [none] })
      else some { s with workQ := s.workQ ++ [none], ppc := .join 0 } := by
  unfold stepP; simp only [hp]

theorem inv_p_nowait {cfg : Cfg} (hw : 1 ≤ cfg.nWorkers) {s s' : St} (h : Inv cfg s) (hp : s.ppc = .nowait)
    (hs : stepP s = some s') : Inv cfg s' := by
  have hm := h.toMain
  have hN : s.cfg.nWorkers = cfg.nWorkers := by rw [hm.cfg_eq]
  have hM : s.cfg.mulP = cfg.mulP := by rw [hm.cfg_eq]
  have hph := hm.phase; unfold PhaseOK at hph; simp only [hp] at hph
  obtain ⟨hdc, hnt, hcn⟩ := hph
  cases hq : s.resQ with
  | cons i r =>
    rw [stepP_nowait_cons hp hq] at hs
    have hrm := main_receive hm hq (Or.inl hp)
    split at hs
    · -- `exact`: the caller closes the generator at the last item; the next call starts right away
      rename_i hex
      obtain ⟨_, hnm, hft⟩ := hex
      simp only [Option.some.injEq] at hs; subst hs
      have hmm : cfg.mulP = false := by
        cases hc : cfg.mulP
        · rfl
        · rw [hM, hc] at hnm; exact absurd rfl hnm
      have hle := finished_le hrm
      simp only [receive_total, receive_dataCnt] at hft hle
      unfold startCall
      rw [receive_callsLeft]
      have hb := bnd_of_quiet hw hrm (by simp only [receive_dataCnt]; omega)
        (by simp only [receive_dataCnt, receive_total]; omega)
        (no_notStarted hrm (by simp [hp])) (by intro _; simp [posted, hp])
        (by intro hc; rw [hmm] at hc; cases hc) (Or.inl (by simp [joined, hp]))
      rw [receive_callsLeft] at hb
      exact inv_startCallGo hw _ _ hb
    · simp only [Option.some.injEq] at hs; subst hs
      exact ⟨hrm, by simp [hp]⟩
  | nil =>
    rw [stepP_nowait_nil hp hq] at hs
    by_cases h1 : s.next + 1 < s.total
    · rw [if_pos h1] at hs
      simp only [Option.some.injEq] at hs; subst hs
      refine ⟨main_ctrl hm .put (s.next + 1) (by simp [posted, hp]) (by simp [joined, hp]) (by simp [cur, hp])
        (by simp [hp]) (by simp [hp]) ?_, by simp⟩
      show PhaseOK cfg _
      unfold PhaseOK; simp only
      exact ⟨hdc, h1, hcn⟩
    · rw [if_neg h1] at hs
      simp only [Option.some.injEq] at hs; subst hs
      unfold afterFeeding
      cases hmm : cfg.mulP
      · simp only [hM, hmm, Bool.false_eq_true, if_false]
        rw [← finalOrNext_ppc _ .finalGet]
        refine inv_finalOrNext hw (main_ctrl hm .finalGet (s.next + 1) (by simp [posted, hp, hmm])
          (by simp [joined, hp]) (by simp [cur, hmm]) (by simp [hp]) (by simp [hp]) ?_) rfl
        show PhaseOK cfg _
        unfold PhaseOK; simp only
        exact ⟨by omega, hcn⟩
      · have hn0 : ¬ s.cfg.nWorkers = 0 := by omega
        simp only [hM, hmm, hn0, if_true, if_false]
        refine ⟨main_ctrl hm (.stopPut 0) (s.next + 1) (by simp [posted, hp]) (by simp [joined, hp])
          (by simp [cur, hp]) (by simp [hp]) (by simp [hp]) ?_, by simp⟩
        show PhaseOK cfg _
        unfold PhaseOK; simp only
        exact ⟨by omega, by omega, fun _ => hcn, by simp [hmm]⟩

theorem inv_p_stopPut {cfg : Cfg} (hw : 1 ≤ cfg.nWorkers) {s s' : St} {i : Nat} (h : Inv cfg s) (hp : s.ppc = .stopPut i)
    (hs : stepP s = some s') : Inv cfg s' := by
  have hm := h.toMain
  have hN : s.cfg.nWorkers = cfg.nWorkers := by rw [hm.cfg_eq]
  have hM : s.cfg.mulP = cfg.mulP := by rw [hm.cfg_eq]
  have hph := hm.phase; unfold PhaseOK at hph; simp only [hp] at hph
  obtain ⟨hi, hdt, hcn, hF⟩ := hph
  rw [stepP_stopPut hp] at hs
  split at hs
  · cases hs
  · simp only [hN, hM] at hs
    by_cases h1 : i + 1 < cfg.nWorkers
    · rw [if_pos h1] at hs
      simp only [Option.some.injEq] at hs; subst hs
      refine ⟨main_p_stop hm hp (.stopPut (i + 1)) rfl rfl (by simp [cur]) ?_, by simp⟩
      show PhaseOK cfg _
      unfold PhaseOK; simp only
      exact ⟨h1, hdt, hcn, hF⟩
    · rw [if_neg h1] at hs
      cases hmm : cfg.mulP
      · simp only [hmm, Bool.false_eq_true, if_false, Option.some.injEq] at hs; subst hs
        refine ⟨main_p_stop hm hp (.join 0) (by simp [posted]; omega) rfl (by simp [cur, hmm]) ?_, by simp⟩
        show PhaseOK cfg _
        unfold PhaseOK; simp only
        exact ⟨by omega, (hF hmm).1, hdt, fun _ => (hF hmm).2⟩
      · simp only [hmm, if_true, Option.some.injEq] at hs; subst hs
        rw [← finalOrNext_ppc _ .finalGet]
        refine inv_finalOrNext hw (main_p_stop hm hp .finalGet (by simp [posted, hmm]; omega) rfl
          (by simp [cur, hmm]) ?_) rfl
        show PhaseOK cfg _
        unfold PhaseOK; simp only
        exact ⟨hdt, hcn hmm⟩

theorem inv_p_join {cfg : Cfg} (hw : 1 ≤ cfg.nWorkers) {s s' : St} {i : Nat} (h : Inv cfg s) (hp : s.ppc = .join i)
    (hs : stepP s = some s') : Inv cfg s' := by
  have hm := h.toMain
  have hN : s.cfg.nWorkers = cfg.nWorkers := by rw [hm.cfg_eq]
  have hM : s.cfg.mulP = cfg.mulP := by rw [hm.cfg_eq]
  have hph := hm.phase; unfold PhaseOK at hph; simp only [hp] at hph
  obtain ⟨hi, hfd, hdt, hF⟩ := hph
  unfold stepP at hs
  simp only [hp] at hs
  by_cases hex : exitedW s (s.base + i) = true
  · rw [if_pos hex] at hs
    simp only [hN, hM] at hs
    by_cases h1 : i + 1 < cfg.nWorkers
    · rw [if_pos h1] at hs
      simp only [Option.some.injEq] at hs; subst hs
      refine ⟨main_p_join hm hp hex (.join (i + 1)) rfl rfl (by simp [cur]) Or.inl ?_, by simp⟩
      show PhaseOK cfg _
      unfold PhaseOK; simp only
      exact ⟨h1, hfd, hdt, hF⟩
    · rw [if_neg h1] at hs
      cases hmm : cfg.mulP
      · simp only [hmm, Bool.false_eq_true, if_false, Option.some.injEq] at hs; subst hs
        refine ⟨main_p_join hm hp hex .done rfl (by simp [joined]; omega) (by simp [cur]) Or.inl ?_, by simp⟩
        show PhaseOK cfg _
        unfold PhaseOK; simp only
        exact ⟨hfd, hdt, hF hmm⟩
      · simp only [hmm, if_true, Option.some.injEq] at hs; subst hs
        unfold startCall
        apply inv_startCallGo hw
        have hlen : s.workers.length = s.base + cfg.nWorkers := by
          rcases hm.len with h' | h'
          · exact h'
          · rw [hp] at h'; cases h'.2
        apply bnd_of_quiet hw hm hfd hdt (no_notStarted hm (by simp [hp]))
        · intro hc; rw [hmm] at hc; cases hc
        · intro _
          refine ⟨by simp [posted, hp], ?_, by simp [cur, hp, hmm]⟩
          intro x hx
          apply joined_succ hm hp hex x hx
          have := wid_lt_of_mem hm.wids hx
          omega
        · exact Or.inr hmm
  · rw [if_neg hex] at hs; cases hs

/-- the caller's steps preserve the invariant -/
theorem inv_stepP {cfg : Cfg} (hw : 1 ≤ cfg.nWorkers) {s s' : St} (h : Inv cfg s) (hs : stepP s = some s') :
    Inv cfg s' := by
  cases hp : s.ppc with
  | start i => exact inv_p_start hw h hp hs
  | put =>
    unfold stepP at hs
    simp only [hp] at hs
    split at hs
    · cases hs
    · simp only [Option.some.injEq] at hs; subst hs
      exact ⟨main_p_put h.toMain hp, by simp⟩
  | nowait => exact inv_p_nowait hw h hp hs
  | stopPut i => exact inv_p_stopPut hw h hp hs
  | finalGet =>
    cases hq : s.resQ with
    | nil => unfold stepP at hs; simp [hp, hq] at hs
    | cons i r =>
      rw [stepP_finalGet_cons hp hq] at hs
      simp only [Option.some.injEq] at hs; subst hs
      exact inv_finalOrNext hw (main_receive h.toMain hq (Or.inr hp)) (by simp [hp])
  | join i => exact inv_p_join hw h hp hs
  | done => unfold stepP at hs; simp [hp] at hs

theorem inv_step {cfg : Cfg} (hw : 1 ≤ cfg.nWorkers) {s s' : St} {t : Tid} (h : Inv cfg s) (hs : step s t = some s') :
    Inv cfg s' := by
  cases t with
  | p => exact inv_stepP hw h hs
  | w wid => exact inv_stepW h hs

theorem inv_run {cfg : Cfg} (hw : 1 ≤ cfg.nWorkers) (sched : List Tid) :
    ∀ {s s' : St}, Inv cfg s → run s sched = some s' → Inv cfg s' := by
  induction sched with
  | nil => intro s s' h hr; simp only [run, Option.some.injEq] at hr; subst hr; exact h
  | cons t ts ih =>
    intro s s' h hr
    simp only [run] at hr
    cases hst : step s t with
    | none => simp [hst] at hr
    | some s1 => simp only [hst] at hr; exact ih (inv_step hw h hst) hr

end WindVerif.FMap
