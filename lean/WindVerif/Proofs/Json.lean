import WindVerif.Model.Json
/-! Theorems about the JSON model (C13): single-line output and `decode (encode v) = some v`. -/
namespace WindVerif.Json

/-! ### characters -/

theorem printable_iff (c : Char) : (' ' ≤ c ∧ c ≤ '~') ↔ (32 ≤ c.toNat ∧ c.toNat ≤ 126) := by
  simp only [Char.le_def, UInt32.le_iff_toNat_le, Char.toNat_val]
  exact Iff.rfl

theorem digitChar_toNat : ∀ d, d < 10 → (digitChar d).toNat = 48 + d := by decide

theorem isDigit_digitChar : ∀ d, d < 10 → isDigit (digitChar d) = true := by decide

theorem digitChar_eq_zero : ∀ d, d < 10 → (digitChar d = '0' ↔ d = 0) := by decide

theorem hexVal_hexDigit : ∀ d, d < 16 → hexVal (hexDigit d) = some d := by decide

theorem hexDigit_printable : ∀ d, d < 16 → 32 ≤ (hexDigit d).toNat ∧ (hexDigit d).toNat ≤ 126 := by decide

theorem isDigit_printable {c : Char} (h : isDigit c = true) : 32 ≤ c.toNat ∧ c.toNat ≤ 126 := by
  simp [isDigit] at h; omega

/-! ### decimal integers -/

theorem showNatF_digits : ∀ f n, ∀ c ∈ showNatF f n, isDigit c = true := by
  intro f
  induction f with
  | zero => intro n c h; simp [showNatF] at h
  | succ f ih =>
    intro n c h
    unfold showNatF at h
    split at h
    · simp at h; subst h; exact isDigit_digitChar n (by omega)
    · simp at h
      rcases h with h | h
      · exact ih _ c h
      · subst h; exact isDigit_digitChar _ (by omega)

theorem readNat_snoc (l : List Char) (c : Char) : readNat (l ++ [c]) = readNat l * 10 + (c.toNat - 48) := by
  simp [readNat, List.foldl_append]

theorem readNat_showNatF : ∀ f n, n < f → readNat (showNatF f n) = n := by
  intro f
  induction f with
  | zero => intro n h; omega
  | succ f ih =>
    intro n h
    unfold showNatF
    split
    · rename_i h10
      simp [readNat, digitChar_toNat n h10]
    · rw [readNat_snoc, ih _ (by omega), digitChar_toNat _ (by omega)]
      omega

theorem readNat_showNat (n : Nat) : readNat (showNat n) = n := readNat_showNatF _ _ (by omega)


/-! ### the number token -/

def numStop : List Char → Bool
  | [] => true
  | c :: _ => !isDigit c && c != '.' && c != 'e' && c != 'E'

theorem nstep_stop {s : NState} (hs : s.accepting = true) {c : Char} {r : List Char} (h : numStop (c :: r) = true) :
    nstep s c = none := by
  simp [numStop] at h
  obtain ⟨⟨⟨h1, h2⟩, h3⟩, h4⟩ := h
  cases s <;> simp [NState.accepting] at hs <;> simp [nstep, h1, h2, h3, h4]

theorem scan_stop {s : NState} (hs : s.accepting = true) {rest : List Char} (h : numStop rest = true) :
    scan s rest = ([], s, rest) := by
  cases rest with
  | nil => rfl
  | cons c r => simp [scan, nstep_stop hs h]

/-- a fully consumed prefix: the scan of `l1 ++ l2` continues on `l2` from the state reached -/
theorem scan_append : ∀ (l1 : List Char) (s : NState) (t1 : List Char) (s1 : NState) (l2 : List Char),
    scan s l1 = (t1, s1, []) →
    scan s (l1 ++ l2) = (l1 ++ (scan s1 l2).1, (scan s1 l2).2.1, (scan s1 l2).2.2) := by
  intro l1
  induction l1 with
  | nil => intro s t1 s1 l2 h; simp [scan] at h; obtain ⟨_, rfl⟩ := h; simp
  | cons c r ih =>
    intro s t1 s1 l2 h
    simp only [scan, List.cons_append] at h ⊢
    cases hn : nstep s c with
    | none => simp [hn] at h
    | some s' =>
      simp only [hn] at h ⊢
      rcases hsc : scan s' r with ⟨t, sf, rest⟩
      simp only [hsc, Prod.mk.injEq] at h
      obtain ⟨_, rfl, rfl⟩ := h
      rw [ih s' t sf l2 hsc]

theorem scan_tok : ∀ (l : List Char) (s : NState) (t : List Char) (s1 : NState), scan s l = (t, s1, []) → t = l := by
  intro l
  induction l with
  | nil => intro s t s1 h; simp [scan] at h; exact h.1
  | cons c r ih =>
    intro s t s1 h
    simp only [scan] at h
    cases hn : nstep s c with
    | none => simp [hn] at h
    | some s' =>
      simp only [hn] at h
      rcases hsc : scan s' r with ⟨t', sf, rest⟩
      simp only [hsc, Prod.mk.injEq] at h
      obtain ⟨rfl, rfl, rfl⟩ := h
      rw [ih s' t' sf hsc]

/-- a whole text that is a token, followed by something that cannot extend a number -/
theorem scan_whole_append {l : List Char} {s s1 : NState} {t : List Char} (h : scan s l = (t, s1, []))
    (hs : s1.accepting = true) {rest : List Char} (hr : numStop rest = true) :
    scan s (l ++ rest) = (l, s1, rest) := by
  rw [scan_append l s t s1 rest h, scan_stop hs hr]; simp

theorem scanNumber_append {l tok : List Char} {b : Bool} (h : scanNumber l = some (tok, b, []))
    {rest : List Char} (hr : numStop rest = true) : tok = l ∧ scanNumber (l ++ rest) = some (l, b, rest) := by
  cases l with
  | nil => simp [scanNumber] at h
  | cons c r =>
    simp only [scanNumber] at h
    simp only [scanNumber, List.cons_append]
    split at h
    · rename_i hc
      rcases hsc : scan .start r with ⟨t, sf, rs⟩
      simp only [hsc] at h
      split at h
      · rename_i hacc
        simp only [Option.some.injEq, Prod.mk.injEq] at h
        obtain ⟨rfl, rfl, rfl⟩ := h
        have ht := scan_tok _ _ _ _ hsc
        subst ht
        simp [hc, scan_whole_append hsc hacc hr, hacc]
      · simp at h
    · rename_i hc
      rcases hsc : scan .start (c :: r) with ⟨t, sf, rs⟩
      simp only [hsc] at h
      split at h
      · rename_i hacc
        simp only [Option.some.injEq, Prod.mk.injEq] at h
        obtain ⟨rfl, rfl, rfl⟩ := h
        have ht := scan_tok _ _ _ _ hsc
        subst ht
        have := scan_whole_append hsc hacc hr
        simp only [List.cons_append] at this
        simp [hc, this, hacc]
      · simp at h

theorem scanNumber_float {l : List Char} (h : floatLexeme l = true) : scanNumber l = some (l, true, []) := by
  unfold floatLexeme at h
  split at h
  · rename_i tok isF heq
    subst h
    have := (scanNumber_append heq (rest := []) rfl).1
    subst this; exact heq
  · simp at h


theorem nstep_int_digit {c : Char} (h : isDigit c = true) : nstep .int c = some .int := by simp [nstep, h]

theorem scan_showNatF : ∀ f n, n < f →
    scan .start (showNatF f n) = (showNatF f n, if n = 0 then NState.zero else NState.int, []) := by
  intro f
  induction f with
  | zero => intro n h; omega
  | succ f ih =>
    intro n h
    unfold showNatF
    split
    · rename_i h10
      by_cases h0 : n = 0
      · subst h0; rfl
      · have hd := isDigit_digitChar n h10
        have hz : digitChar n ≠ '0' := fun hh => h0 ((digitChar_eq_zero n h10).1 hh)
        simp [scan, nstep, hd, hz, h0]
    · rename_i h10
      have h1 := ih (n / 10) (by omega)
      have hn : n / 10 ≠ 0 := by omega
      have hn' : n ≠ 0 := by omega
      simp only [hn, if_false] at h1
      rw [scan_append _ _ _ _ [digitChar (n % 10)] h1]
      have hd := isDigit_digitChar (n % 10) (by omega)
      simp [scan, nstep_int_digit hd, hn']

theorem showNat_head (n : Nat) : ∃ c r, showNat n = c :: r ∧ isDigit c = true := by
  have hd := showNatF_digits (n + 1) n
  unfold showNat
  cases hl : showNatF (n + 1) n with
  | nil => unfold showNatF at hl; split at hl <;> simp at hl
  | cons c r => exact ⟨c, r, rfl, hd c (by simp [hl])⟩

theorem scanNumber_showNat (n : Nat) : scanNumber (showNat n) = some (showNat n, false, []) := by
  have h := scan_showNatF (n + 1) n (by omega)
  obtain ⟨c, r, hcr, hc⟩ := showNat_head n
  have hm : c ≠ '-' := by rintro rfl; simp [isDigit] at hc
  unfold showNat at hcr ⊢
  rw [hcr] at h ⊢
  simp only [scanNumber, hm, if_false, h]
  by_cases h0 : n = 0 <;> simp [h0, NState.accepting, NState.isFloat]

theorem scanNumber_showInt (i : Int) : scanNumber (showInt i) = some (showInt i, false, []) := by
  cases i with
  | ofNat n => exact scanNumber_showNat n
  | negSucc n =>
    have h := scan_showNatF (n + 1 + 1) (n + 1) (by omega)
    simp only [showInt, scanNumber, if_true]
    unfold showNat
    simp [h, NState.accepting, NState.isFloat]

theorem readInt_showInt (i : Int) : readInt (showInt i) = i := by
  cases i with
  | ofNat n =>
    obtain ⟨c, r, hcr, hc⟩ := showNat_head n
    have hm : c ≠ '-' := by rintro rfl; simp [isDigit] at hc
    simp only [showInt]
    rw [hcr]
    simp only [readInt, hm, if_false]
    rw [← hcr, readNat_showNat]
  | negSucc n =>
    simp only [showInt, readInt, if_true, readNat_showNat]
    rfl

theorem showInt_printable (i : Int) : ∀ c ∈ showInt i, 32 ≤ c.toNat ∧ c.toNat ≤ 126 := by
  intro c hc
  cases i with
  | ofNat n => exact isDigit_printable (showNatF_digits _ _ c hc)
  | negSucc n =>
    simp only [showInt, List.mem_cons] at hc
    rcases hc with rfl | hc
    · decide
    · exact isDigit_printable (showNatF_digits _ _ c hc)


/-! ### strings -/

theorem toNat_ofNat_valid (n : Nat) (h : n.isValidChar) : (Char.ofNat n).toNat = n := by
  unfold Char.ofNat; rw [dif_pos h]; rfl

theorem char_valid (c : Char) : c.toNat < 0xD800 ∨ (0xDFFF < c.toNat ∧ c.toNat < 0x110000) := c.valid

theorem hex4_digits (n : Nat) (h : n < 65536) :
    hex4 (hexDigit (n / 4096 % 16)) (hexDigit (n / 256 % 16)) (hexDigit (n / 16 % 16)) (hexDigit (n % 16)) = some n := by
  simp only [hex4, hexVal_hexDigit _ (Nat.mod_lt _ (by decide : 0 < 16)), Option.some.injEq]
  omega

theorem readEscape_u4 (n : Nat) (h : n < 0xD800 ∨ (0xE000 ≤ n ∧ n < 0x10000)) (tl : List Char) :
    readEscape ((u4 n).tail ++ tl) = some (Char.ofNat n, tl) := by
  have hn : n < 65536 := by omega
  have h1 : ¬ (0xD800 ≤ n ∧ n < 0xDC00) := by omega
  have h2 : ¬ (0xDC00 ≤ n ∧ n < 0xE000) := by omega
  simp [u4, readEscape, hex4_digits n hn, h1, h2]

theorem readEscape_pair' (hi lo : Nat) (hhi : 0xD800 ≤ hi ∧ hi < 0xDC00) (hlo : 0xDC00 ≤ lo ∧ lo < 0xE000) (tl : List Char) :
    readEscape ((u4 hi).tail ++ (u4 lo ++ tl)) = some (Char.ofNat (0x10000 + (hi - 0xD800) * 1024 + (lo - 0xDC00)), tl) := by
  have a1 : hi < 65536 := by omega
  have a2 : lo < 65536 := by omega
  simp only [u4, readEscape, List.tail_cons, List.cons_append, List.nil_append]
  simp [hex4_digits _ a1, hex4_digits _ a2, hhi, hlo]

theorem pair_arith (n : Nat) (h : 0x10000 ≤ n ∧ n < 0x110000) :
    0x10000 + (0xD800 + (n - 0x10000) / 1024 - 0xD800) * 1024 + (0xDC00 + (n - 0x10000) % 1024 - 0xDC00) = n := by
  omega

/-- the surrogate pair of a code point above 0xFFFF decodes to it -/
theorem readEscape_pair (n : Nat) (h : 0x10000 ≤ n ∧ n < 0x110000) (tl : List Char) :
    readEscape ((u4 (0xD800 + (n - 0x10000) / 1024)).tail ++ (u4 (0xDC00 + (n - 0x10000) % 1024) ++ tl)) =
      some (Char.ofNat n, tl) := by
  rw [readEscape_pair' _ _ (by omega) (by omega), pair_arith n h]


theorem u4_eq (n : Nat) : u4 n = '\\' :: (u4 n).tail := rfl

theorem parseStrBody_u4 (f n : Nat) (h : n < 0xD800 ∨ (0xE000 ≤ n ∧ n < 0x10000)) (tl : List Char) :
    parseStrBody (f + 1) (u4 n ++ tl) = consFst (Char.ofNat n) (parseStrBody f tl) := by
  rw [u4_eq, List.cons_append]
  simp only [parseStrBody, if_true, show ('\\' : Char) ≠ '"' by decide, if_false]
  rw [readEscape_u4 _ h]

theorem parseStrBody_pair (f hi lo : Nat) (hhi : 0xD800 ≤ hi ∧ hi < 0xDC00) (hlo : 0xDC00 ≤ lo ∧ lo < 0xE000)
    (tl : List Char) :
    parseStrBody (f + 1) (u4 hi ++ u4 lo ++ tl) =
      consFst (Char.ofNat (0x10000 + (hi - 0xD800) * 1024 + (lo - 0xDC00))) (parseStrBody f tl) := by
  rw [List.append_assoc, u4_eq, List.cons_append]
  simp only [parseStrBody, if_true, show ('\\' : Char) ≠ '"' by decide, if_false]
  rw [readEscape_pair' _ _ hhi hlo]

/-- one escaped character is read back as that character -/
theorem parseStrBody_encodeChar (f : Nat) (c : Char) (tl : List Char) :
    parseStrBody (f + 1) (encodeChar c ++ tl) = consFst c (parseStrBody f tl) := by
  unfold encodeChar
  split
  · rename_i h; subst h; simp [parseStrBody, readEscape]
  split
  · rename_i h; subst h; simp [parseStrBody, readEscape]
  split
  · rename_i h; subst h; simp [parseStrBody, readEscape]
  split
  · rename_i h; subst h; simp [parseStrBody, readEscape]
  split
  · rename_i h; subst h; simp [parseStrBody, readEscape]
  split
  · rename_i h; subst h; simp [parseStrBody, readEscape]
  split
  · rename_i h; subst h; simp [parseStrBody, readEscape]
  rename_i hq hb _ _ _ _ _
  split
  · rename_i hp
    have : ¬ c.toNat < 32 := by omega
    simp [parseStrBody, hq, hb, this]
  split
  · rename_i hp hlt
    have hv := char_valid c
    rw [parseStrBody_u4 _ _ (by omega), Char.ofNat_toNat]
  · rename_i hp hlt
    have hv := char_valid c
    rw [parseStrBody_pair _ _ _ (by omega) (by omega), pair_arith _ (by omega), Char.ofNat_toNat]

theorem encodeStrBody_length (s : List Char) : s.length ≤ (encodeStrBody s).length := by
  induction s with
  | nil => simp [encodeStrBody]
  | cons c r ih =>
    have : 1 ≤ (encodeChar c).length := by
      unfold encodeChar u4
      repeat' split
      all_goals simp
    simp only [encodeStrBody, List.length_append, List.length_cons]
    omega

/-- (b) the string round trip: the escaped body up to the closing quote is read back, whatever follows -/
theorem parseStrBody_encodeStrBody (s : List Char) : ∀ (f : Nat) (rest : List Char), s.length < f →
    parseStrBody f (encodeStrBody s ++ '"' :: rest) = some (s, rest) := by
  induction s with
  | nil =>
    intro f rest h
    obtain ⟨f, rfl⟩ : ∃ g, f = g + 1 := ⟨f - 1, by simp at h; omega⟩
    simp [encodeStrBody, parseStrBody]
  | cons c r ih =>
    intro f rest h
    obtain ⟨f, rfl⟩ : ∃ g, f = g + 1 := ⟨f - 1, by simp at h; omega⟩
    simp only [encodeStrBody, List.append_assoc]
    rw [parseStrBody_encodeChar, ih f rest (by simpa using h)]
    rfl

/-- `decodeString (encodeString s ++ rest) = some (s, rest)` with the fuel `parseValue` uses -/
theorem parseStr_encodeStr (s rest : List Char) :
    parseStrBody (encodeStrBody s ++ '"' :: rest).length (encodeStrBody s ++ '"' :: rest) = some (s, rest) := by
  apply parseStrBody_encodeStrBody
  have := encodeStrBody_length s
  simp only [List.length_append, List.length_cons]
  omega

/-- (b) the string round trip at token level -/
theorem decodeString_encodeStr (s rest : List Char) : decodeString (encodeStr s ++ rest) = some (s, rest) := by
  simp only [encodeStr, List.cons_append, List.append_assoc, List.nil_append, decodeString, if_true]
  exact parseStr_encodeStr s rest

theorem u4_printable (n : Nat) : ∀ x ∈ u4 n, 32 ≤ x.toNat ∧ x.toNat ≤ 126 := by
  intro x hx
  have hd : ∀ n, 32 ≤ (hexDigit (n % 16)).toNat ∧ (hexDigit (n % 16)).toNat ≤ 126 :=
    fun n => hexDigit_printable _ (Nat.mod_lt _ (by decide))
  simp only [u4, List.mem_cons, List.not_mem_nil, or_false] at hx
  rcases hx with rfl | rfl | rfl | rfl | rfl | rfl <;> first | decide | exact hd _

theorem encodeChar_printable (c : Char) : ∀ x ∈ encodeChar c, 32 ≤ x.toNat ∧ x.toNat ≤ 126 := by
  intro x hx
  unfold encodeChar at hx
  repeat' split at hx
  all_goals (try simp only [List.mem_cons, List.mem_append, List.not_mem_nil, or_false] at hx)
  all_goals (try (rcases hx with rfl | rfl <;> decide))
  · subst hx; assumption
  · exact u4_printable _ x hx
  · rcases hx with hx | hx <;> exact u4_printable _ x hx

theorem encodeStr_printable (s : List Char) : ∀ x ∈ encodeStr s, 32 ≤ x.toNat ∧ x.toNat ≤ 126 := by
  intro x hx
  simp only [encodeStr, List.mem_cons, List.mem_append, List.not_mem_nil, or_false] at hx
  rcases hx with rfl | hx | rfl
  · decide
  · induction s with
    | nil => simp [encodeStrBody] at hx
    | cons c r ih =>
      simp only [encodeStrBody, List.mem_append] at hx
      rcases hx with hx | hx
      · exact encodeChar_printable c x hx
      · exact ih hx
  · decide


/-! ### induction over values -/

theorem JVal.induction {P : JVal → Prop} (null : P .null) (bool : ∀ b, P (.bool b)) (int : ∀ i, P (.int i))
    (float : ∀ l, P (.float l)) (str : ∀ s, P (.str s))
    (arr : ∀ l, (∀ v ∈ l, P v) → P (.arr l))
    (obj : ∀ l : List (List Char × JVal), (∀ kv ∈ l, P kv.2) → P (.obj l)) : ∀ v, P v := by
  intro v
  refine JVal.rec (motive_1 := P) (motive_2 := fun l => ∀ v ∈ l, P v) (motive_3 := fun l => ∀ kv ∈ l, P kv.2)
    (motive_4 := fun kv => P kv.2) null bool int float str arr obj ?_ ?_ ?_ ?_ ?_ v
  · intro v h; simp at h
  · intro a l ha hl v hv
    simp only [List.mem_cons] at hv
    rcases hv with rfl | hv
    · exact ha
    · exact hl v hv
  · intro v h; simp at h
  · intro a l ha hl v hv
    simp only [List.mem_cons] at hv
    rcases hv with rfl | hv
    · exact ha
    · exact hl v hv
  · intro k v h; exact h

/-! ### whitespace, literals -/

theorem skipWs_cons {c : Char} (h : isWs c = false) (r : List Char) : skipWs (c :: r) = c :: r := by
  simp [skipWs, h]

theorem skipWs_of_scanNumber {l : List Char} {x : List Char × Bool × List Char} (h : scanNumber l = some x) :
    skipWs l = l := by
  cases l with
  | nil => rfl
  | cons c r =>
    by_cases hw : isWs c = true
    · exfalso
      simp only [isWs, Bool.or_eq_true, decide_eq_true_eq] at hw
      rcases hw with ((rfl | rfl) | rfl) | rfl <;> simp [scanNumber, scan, nstep, isDigit, NState.accepting] at h
    · exact skipWs_cons (by simpa using hw) r

theorem stripPrefix_append (p r : List Char) : stripPrefix p (p ++ r) = some r := by
  induction p with
  | nil => rfl
  | cons c p ih => simp [stripPrefix, ih]

/-! ### `dict` construction -/

theorem setKey_new (k : List Char) (v : JVal) : ∀ (acc : List (List Char × JVal)), k ∉ acc.map (·.1) →
    setKey k v acc = acc ++ [(k, v)] := by
  intro acc
  induction acc with
  | nil => intro _; rfl
  | cons a acc ih =>
    intro h
    obtain ⟨k', v'⟩ := a
    simp only [List.map_cons, List.mem_cons, not_or] at h
    simp only [setKey, if_neg (Ne.symm h.1), List.cons_append, ih h.2]

theorem dictOf_aux (l : List (List Char × JVal)) : ∀ (acc : List (List Char × JVal)),
    ((acc ++ l).map (·.1)).Nodup → l.foldl (fun acc kv => setKey kv.1 kv.2 acc) acc = acc ++ l := by
  induction l with
  | nil => intro acc _; simp
  | cons a l ih =>
    intro acc h
    have hk : a.1 ∉ acc.map (·.1) := by
      simp only [List.map_append, List.map_cons, List.nodup_append, List.nodup_cons] at h
      intro hmem
      exact h.2.2 _ hmem _ (by simp) rfl
    simp only [List.foldl_cons, setKey_new _ _ _ hk]
    rw [ih _ (by simpa using h)]
    simp

theorem dictOf_nodup (l : List (List Char × JVal)) (h : (l.map (·.1)).Nodup) : dictOf l = l := by
  simpa [dictOf] using dictOf_aux l [] (by simpa using h)


/-! ### first characters -/

theorem head_of_scanNumber {l : List Char} {x : List Char × Bool × List Char} (h : scanNumber l = some x) :
    ∃ c tl, l = c :: tl ∧ (c = '-' ∨ isDigit c = true) := by
  cases l with
  | nil => simp [scanNumber] at h
  | cons c r =>
    refine ⟨c, r, rfl, ?_⟩
    by_cases hm : c = '-'
    · exact Or.inl hm
    · right
      by_cases hd : isDigit c = true
      · exact hd
      · exfalso
        have h0 : c ≠ '0' := by rintro rfl; simp [isDigit] at hd
        simp [scanNumber, hm, scan, nstep, hd, h0, NState.accepting] at h

/-- a character a value can start with that is neither whitespace nor `]` -/
def startOk (c : Char) : Prop := isWs c = false ∧ c ≠ ']'

theorem startOk_of_num {c : Char} (h : c = '-' ∨ isDigit c = true) : startOk c := by
  rcases h with rfl | h
  · exact ⟨by decide, by decide⟩
  · refine ⟨?_, ?_⟩
    · cases hw : isWs c with
      | false => rfl
      | true =>
        simp only [isWs, Bool.or_eq_true, decide_eq_true_eq] at hw
        rcases hw with ((rfl | rfl) | rfl) | rfl <;> simp [isDigit] at h
    · rintro rfl; simp [isDigit] at h

theorem encode_head (v : JVal) (h : WF v) : ∃ c tl, encode v = c :: tl ∧ startOk c := by
  cases h with
  | null => exact ⟨'n', _, rfl, by decide, by decide⟩
  | bool b => cases b
              · exact ⟨'f', _, rfl, by decide, by decide⟩
              · exact ⟨'t', _, rfl, by decide, by decide⟩
  | int i =>
    obtain ⟨c, tl, h1, h2⟩ := head_of_scanNumber (scanNumber_showInt i)
    exact ⟨c, tl, by simpa [encode] using h1, startOk_of_num h2⟩
  | float l hl =>
    obtain ⟨c, tl, h1, h2⟩ := head_of_scanNumber (scanNumber_float hl)
    exact ⟨c, tl, by simpa [encode] using h1, startOk_of_num h2⟩
  | str s => exact ⟨'"', _, rfl, by decide, by decide⟩
  | arr l _ =>
    cases l with
    | nil => exact ⟨'[', _, rfl, by decide, by decide⟩
    | cons v l => exact ⟨'[', _, by rw [encode], by decide, by decide⟩
  | obj l _ _ =>
    cases l with
    | nil => exact ⟨'{', _, rfl, by decide, by decide⟩
    | cons kv l => obtain ⟨k, v⟩ := kv; exact ⟨'{', _, by rw [encode], by decide, by decide⟩

theorem skipWs_encode (v : JVal) (h : WF v) (rest : List Char) : skipWs (encode v ++ rest) = encode v ++ rest := by
  obtain ⟨c, tl, h1, h2, _⟩ := encode_head v h
  rw [h1, List.cons_append, skipWs_cons h2]

/-! ### lengths (fuel) -/

theorem encodeTail_length (l : List JVal) : l.length ≤ (encodeTail l).length := by
  induction l with
  | nil => simp
  | cons v l ih => simp only [encodeTail, List.length_cons, List.length_append]; omega

theorem encodeMTail_length (l : List (List Char × JVal)) : l.length ≤ (encodeMTail l).length := by
  induction l with
  | nil => simp
  | cons kv l ih =>
    obtain ⟨k, v⟩ := kv
    simp only [encodeMTail, List.length_cons, List.length_append]; omega

theorem encodeTail_length_mem (l : List JVal) : ∀ w ∈ l, (encode w).length < (encodeTail l).length := by
  induction l with
  | nil => intro w h; simp at h
  | cons v l ih =>
    intro w h
    simp only [encodeTail, List.length_cons, List.length_append]
    simp only [List.mem_cons] at h
    rcases h with rfl | h
    · omega
    · have := ih w h; omega

theorem encodeMTail_length_mem (l : List (List Char × JVal)) : ∀ kv ∈ l, (encode kv.2).length < (encodeMTail l).length := by
  induction l with
  | nil => intro w h; simp at h
  | cons kv l ih =>
    obtain ⟨k, v⟩ := kv
    intro w h
    simp only [encodeMTail, List.length_cons, List.length_append]
    simp only [List.mem_cons] at h
    rcases h with rfl | h
    · simp only; omega
    · have := ih w h; omega


/-! ### element and member loops -/

/-- `pv` reads the encoding of `v` back, whatever follows (as long as it cannot extend a number) -/
def Good (pv : List Char → Option (JVal × List Char)) (v : JVal) : Prop :=
  ∀ rest, numStop rest = true → pv (encode v ++ rest) = some (v, rest)

theorem parseElems_encode (pv : List Char → Option (JVal × List Char)) (l : List JVal) :
    ∀ (v : JVal) (n : Nat) (rest : List Char), l.length < n → Good pv v → (∀ w ∈ l, Good pv w) → (∀ w ∈ l, WF w) →
      parseElems pv n (encode v ++ (encodeTail l ++ ']' :: rest)) = some (v :: l, rest) := by
  induction l with
  | nil =>
    intro v n rest hn hv _ _
    obtain ⟨n, rfl⟩ : ∃ m, n = m + 1 := ⟨n - 1, by omega⟩
    simp only [encodeTail, List.nil_append, parseElems]
    rw [hv _ (by rfl)]
    simp [skipWs, isWs]
  | cons w l ih =>
    intro v n rest hn hv hl hwf
    obtain ⟨n, rfl⟩ : ∃ m, n = m + 1 := ⟨n - 1, by omega⟩
    simp only [encodeTail, List.cons_append, List.append_assoc, parseElems]
    rw [hv _ (by rfl)]
    have hs : skipWs (',' :: (encode w ++ (encodeTail l ++ ']' :: rest))) = ',' :: (encode w ++ (encodeTail l ++ ']' :: rest)) :=
      skipWs_cons (by decide) _
    simp only [hs, if_true]
    rw [skipWs_encode w (hwf w (by simp)),
      ih w n rest (by simp at hn; omega) (hl w (by simp)) (fun x hx => hl x (by simp [hx])) (fun x hx => hwf x (by simp [hx]))]

theorem encodeStr_append (k rest : List Char) : encodeStr k ++ rest = '"' :: (encodeStrBody k ++ '"' :: rest) := by
  simp [encodeStr]

theorem parseMembers_encode (pv : List Char → Option (JVal × List Char)) (l : List (List Char × JVal)) :
    ∀ (k : List Char) (v : JVal) (n : Nat) (rest : List Char), l.length < n → Good pv v → (∀ kv ∈ l, Good pv kv.2) →
      WF v → (∀ kv ∈ l, WF kv.2) →
      parseMembers pv n (encodeStr k ++ ':' :: (encode v ++ (encodeMTail l ++ '}' :: rest))) = some ((k, v) :: l, rest) := by
  induction l with
  | nil =>
    intro k v n rest hn hv _ hwv _
    obtain ⟨n, rfl⟩ : ∃ m, n = m + 1 := ⟨n - 1, by omega⟩
    rw [encodeStr_append]
    simp only [encodeMTail, List.nil_append, parseMembers, if_true]
    rw [parseStr_encodeStr]
    have hs : ∀ x, skipWs (':' :: x) = ':' :: x := fun x => skipWs_cons (by decide) _
    simp only [hs, if_true]
    rw [skipWs_encode v hwv, hv _ (by rfl)]
    simp [skipWs, isWs]
  | cons kw l ih =>
    obtain ⟨k', w⟩ := kw
    intro k v n rest hn hv hl hwv hwf
    obtain ⟨n, rfl⟩ : ∃ m, n = m + 1 := ⟨n - 1, by omega⟩
    rw [encodeStr_append]
    simp only [encodeMTail, List.cons_append, List.append_assoc, parseMembers, if_true]
    rw [parseStr_encodeStr]
    have hs : ∀ x, skipWs (':' :: x) = ':' :: x := fun x => skipWs_cons (by decide) _
    have hs2 : ∀ x, skipWs (',' :: x) = ',' :: x := fun x => skipWs_cons (by decide) _
    simp only [hs, if_true]
    rw [skipWs_encode v hwv, hv _ (by rfl)]
    simp only [hs2, if_true]
    have hs3 : ∀ x, skipWs (encodeStr k' ++ x) = encodeStr k' ++ x := by
      intro x; rw [encodeStr_append]; exact skipWs_cons (by decide) _
    rw [hs3, ih k' w n rest (by simp at hn; omega) (hl (k', w) (by simp)) (fun x hx => hl x (by simp [hx]))
      (hwf (k', w) (by simp)) (fun x hx => hwf x (by simp [hx]))]


/-! ### the value parser reads an encoding back -/

theorem scanNumber_none_of_head {c : Char} (hm : c ≠ '-') (hd : isDigit c = false) (r : List Char) :
    scanNumber (c :: r) = none := by
  have h0 : c ≠ '0' := by rintro rfl; simp [isDigit] at hd
  simp [scanNumber, hm, scan, nstep, hd, h0, NState.accepting]

theorem parseValue_num {l : List Char} {b : Bool} (h : scanNumber l = some (l, b, [])) (f : Nat) {rest : List Char}
    (hr : numStop rest = true) :
    parseValue (f + 1) (l ++ rest) = some (if b then .float l else .int (readInt l), rest) := by
  simp only [parseValue, (scanNumber_append h hr).2]

theorem parseValue_encode : ∀ (v : JVal), WF v → ∀ (fuel : Nat) (rest : List Char), (encode v).length ≤ fuel →
    numStop rest = true → parseValue fuel (encode v ++ rest) = some (v, rest) := by
  intro v
  induction v using JVal.induction with
  | null =>
    intro _ fuel rest hf hr
    obtain ⟨f, rfl⟩ : ∃ m, fuel = m + 1 := ⟨fuel - 1, by simp [encode] at hf; omega⟩
    simp only [encode, List.cons_append, List.nil_append, parseValue, scanNumber_none_of_head (c := 'n') (by decide) (by decide)]
    simp [parseLit, stripPrefix]
  | bool b =>
    intro _ fuel rest hf hr
    cases b
    · obtain ⟨f, rfl⟩ : ∃ m, fuel = m + 1 := ⟨fuel - 1, by simp [encode] at hf; omega⟩
      simp only [encode, List.cons_append, List.nil_append, parseValue, scanNumber_none_of_head (c := 'f') (by decide) (by decide)]
      simp [parseLit, stripPrefix]
    · obtain ⟨f, rfl⟩ : ∃ m, fuel = m + 1 := ⟨fuel - 1, by simp [encode] at hf; omega⟩
      simp only [encode, List.cons_append, List.nil_append, parseValue, scanNumber_none_of_head (c := 't') (by decide) (by decide)]
      simp [parseLit, stripPrefix]
  | int i =>
    intro _ fuel rest hf hr
    obtain ⟨c, tl, h1, _⟩ := head_of_scanNumber (scanNumber_showInt i)
    obtain ⟨f, rfl⟩ : ∃ m, fuel = m + 1 := ⟨fuel - 1, by simp [encode, h1] at hf; omega⟩
    simp only [encode]
    rw [parseValue_num (scanNumber_showInt i) f hr, readInt_showInt]
    rfl
  | float l =>
    intro hwf fuel rest hf hr
    cases hwf with
    | float _ hl =>
      obtain ⟨c, tl, h1, _⟩ := head_of_scanNumber (scanNumber_float hl)
      obtain ⟨f, rfl⟩ : ∃ m, fuel = m + 1 := ⟨fuel - 1, by simp [encode, h1] at hf; omega⟩
      simp only [encode]
      rw [parseValue_num (scanNumber_float hl) f hr]
      rfl
  | str s =>
    intro _ fuel rest hf hr
    obtain ⟨f, rfl⟩ : ∃ m, fuel = m + 1 := ⟨fuel - 1, by simp [encode, encodeStr] at hf; omega⟩
    simp only [encode, encodeStr_append, parseValue, scanNumber_none_of_head (c := '"') (by decide) (by decide),
      if_true, parseStr_encodeStr]
  | arr l ih =>
    intro hwf fuel rest hf hr
    cases hwf with
    | arr _ hwl =>
      cases l with
      | nil =>
        obtain ⟨f, rfl⟩ : ∃ m, fuel = m + 1 := ⟨fuel - 1, by simp [encode] at hf; omega⟩
        simp only [encode, List.cons_append, List.nil_append, parseValue,
          scanNumber_none_of_head (c := '[') (by decide) (by decide)]
        simp [parseArr, skipWs, isWs]
      | cons v l =>
        rw [encode] at hf ⊢
        simp only [List.length_cons, List.length_append, List.length_nil] at hf
        obtain ⟨f, rfl⟩ : ∃ m, fuel = m + 1 := ⟨fuel - 1, by omega⟩
        simp only [List.cons_append, List.append_assoc, List.nil_append, parseValue,
          scanNumber_none_of_head (c := '[') (by decide) (by decide)]
        simp only [show ('[' : Char) ≠ '"' by decide, if_false, if_true, parseArr]
        rw [skipWs_encode v (hwl v (by simp))]
        obtain ⟨c, tl, h1, _, h3⟩ := encode_head v (hwl v (by simp))
        have hgood : ∀ w ∈ v :: l, Good (parseValue f) w := by
          intro w hw rest' hr'
          apply ih w hw (hwl w hw) f rest' _ hr'
          simp only [List.mem_cons] at hw
          rcases hw with rfl | hw
          · omega
          · have := encodeTail_length_mem l w hw; omega
        have hlen : l.length < (encode v ++ (encodeTail l ++ ']' :: rest)).length := by
          have := encodeTail_length l
          simp only [List.length_append, List.length_cons]; omega
        have key := parseElems_encode (parseValue f) l v _ rest hlen (hgood v (by simp))
          (fun w hw => hgood w (by simp [hw])) (fun w hw => hwl w (by simp [hw]))
        have hX : encode v ++ (encodeTail l ++ ']' :: rest) = c :: (tl ++ (encodeTail l ++ ']' :: rest)) := by
          rw [h1]; rfl
        rw [hX] at key ⊢
        simp only [h3, if_false, key]
  | obj l ih =>
    intro hwf fuel rest hf hr
    cases hwf with
    | obj _ hnd hwl =>
      cases l with
      | nil =>
        obtain ⟨f, rfl⟩ : ∃ m, fuel = m + 1 := ⟨fuel - 1, by simp [encode] at hf; omega⟩
        simp only [encode, List.cons_append, List.nil_append, parseValue,
          scanNumber_none_of_head (c := '{') (by decide) (by decide)]
        simp [parseObj, skipWs, isWs]
      | cons kv l =>
        obtain ⟨k, v⟩ := kv
        rw [encode] at hf ⊢
        simp only [List.length_cons, List.length_append, List.length_nil] at hf
        obtain ⟨f, rfl⟩ : ∃ m, fuel = m + 1 := ⟨fuel - 1, by omega⟩
        simp only [List.cons_append, List.append_assoc, List.nil_append, parseValue,
          scanNumber_none_of_head (c := '{') (by decide) (by decide)]
        simp only [show ('{' : Char) ≠ '"' by decide, show ('{' : Char) ≠ '[' by decide, if_false, if_true, parseObj]
        have hgood : ∀ kw ∈ (k, v) :: l, Good (parseValue f) kw.2 := by
          intro kw hw rest' hr'
          apply ih kw hw (hwl kw hw) f rest' _ hr'
          simp only [List.mem_cons] at hw
          rcases hw with rfl | hw
          · simp only; omega
          · have := encodeMTail_length_mem l kw hw; omega
        have hlen : l.length < (encodeStr k ++ ':' :: (encode v ++ (encodeMTail l ++ '}' :: rest))).length := by
          have := encodeMTail_length l
          simp only [List.length_append, List.length_cons]; omega
        have key := parseMembers_encode (parseValue f) l k v _ rest hlen (hgood (k, v) (by simp))
          (fun w hw => hgood w (by simp [hw])) (hwl (k, v) (by simp)) (fun w hw => hwl w (by simp [hw]))
        have hsk : skipWs (encodeStr k ++ ':' :: (encode v ++ (encodeMTail l ++ '}' :: rest))) =
            encodeStr k ++ ':' :: (encode v ++ (encodeMTail l ++ '}' :: rest)) := by
          rw [encodeStr_append]; exact skipWs_cons (by decide) _
        rw [hsk]
        have h1 : ∃ tl, encodeStr k ++ ':' :: (encode v ++ (encodeMTail l ++ '}' :: rest)) = '"' :: tl :=
          ⟨_, encodeStr_append _ _⟩
        obtain ⟨tl, h1⟩ := h1
        generalize encodeStr k ++ ':' :: (encode v ++ (encodeMTail l ++ '}' :: rest)) = X at key h1 ⊢
        subst h1
        simp only [show ('"' : Char) ≠ '}' by decide, if_false, key, dictOf_nodup _ hnd]

/-- (d) the round trip -/
theorem decode_encode (v : JVal) (h : WF v) : decode (encode v) = some v := by
  unfold decode
  have := parseValue_encode v h (encode v).length [] (Nat.le_refl _) rfl
  rw [List.append_nil] at this
  have hs := skipWs_encode v h []
  rw [List.append_nil] at hs
  rw [hs, this]
  rfl


/-! ### the output is printable ASCII, hence a single line -/

theorem nstep_printable {s s' : NState} {c : Char} (h : nstep s c = some s') : 32 ≤ c.toNat ∧ c.toNat ≤ 126 := by
  have hd : isDigit c = true → 32 ≤ c.toNat ∧ c.toNat ≤ 126 := isDigit_printable
  cases s <;> simp only [nstep] at h <;> (repeat' split at h) <;> simp at h <;>
    first
    | exact hd (by assumption)
    | (rename_i hc; subst hc; decide)
    | (rename_i hc; rcases hc with rfl | rfl <;> decide)

theorem scan_printable : ∀ (l : List Char) (s : NState), ∀ c ∈ (scan s l).1, 32 ≤ c.toNat ∧ c.toNat ≤ 126 := by
  intro l
  induction l with
  | nil => intro s c h; simp [scan] at h
  | cons a r ih =>
    intro s c h
    simp only [scan] at h
    cases hn : nstep s a with
    | none => simp [hn] at h
    | some s' =>
      simp only [hn, List.mem_cons] at h
      rcases h with rfl | h
      · exact nstep_printable hn
      · exact ih s' c h

theorem floatLexeme_printable {l : List Char} (h : floatLexeme l = true) : ∀ c ∈ l, 32 ≤ c.toNat ∧ c.toNat ≤ 126 := by
  have hs := scanNumber_float h
  cases l with
  | nil => intro c hc; simp at hc
  | cons a r =>
    simp only [scanNumber] at hs
    split at hs
    · rename_i ha
      split at hs
      · simp only [Option.some.injEq, Prod.mk.injEq, List.cons.injEq] at hs
        intro c hc
        simp only [List.mem_cons] at hc
        rcases hc with rfl | hc
        · subst ha; decide
        · rw [← hs.1.2] at hc; exact scan_printable _ _ c hc
      · simp at hs
    · split at hs
      · simp only [Option.some.injEq, Prod.mk.injEq] at hs
        intro c hc
        rw [← hs.1] at hc; exact scan_printable _ _ c hc
      · simp at hs

theorem encode_printable_nat : ∀ (v : JVal), WF v → ∀ c ∈ encode v, 32 ≤ c.toNat ∧ c.toNat ≤ 126 := by
  intro v
  induction v using JVal.induction with
  | null => intro _ c hc; simp only [encode, List.mem_cons, List.not_mem_nil, or_false] at hc; rcases hc with rfl | rfl | rfl | rfl <;> decide
  | bool b =>
    intro _ c hc
    cases b <;> simp only [encode, List.mem_cons, List.not_mem_nil, or_false] at hc
    · rcases hc with rfl | rfl | rfl | rfl | rfl <;> decide
    · rcases hc with rfl | rfl | rfl | rfl <;> decide
  | int i => intro _ c hc; exact showInt_printable i c (by simpa [encode] using hc)
  | float l => intro h c hc; cases h with | float _ hl => exact floatLexeme_printable hl c (by simpa [encode] using hc)
  | str s => intro _ c hc; exact encodeStr_printable s c (by simpa [encode] using hc)
  | arr l ih =>
    intro h c hc
    cases h with
    | arr _ hwl =>
      have htail : ∀ (l' : List JVal), (∀ w ∈ l', w ∈ l) → ∀ c ∈ encodeTail l', 32 ≤ c.toNat ∧ c.toNat ≤ 126 := by
        intro l'
        induction l' with
        | nil => intro _ c hc; simp [encodeTail] at hc
        | cons w l' ih' =>
          intro hsub c hc
          simp only [encodeTail, List.mem_cons, List.mem_append] at hc
          rcases hc with rfl | hc | hc
          · decide
          · exact ih w (hsub w (by simp)) (hwl w (hsub w (by simp))) c hc
          · exact ih' (fun x hx => hsub x (by simp [hx])) c hc
      cases l with
      | nil => simp only [encode, List.mem_cons, List.not_mem_nil, or_false] at hc; rcases hc with rfl | rfl <;> decide
      | cons v l =>
        rw [encode] at hc
        simp only [List.mem_cons, List.mem_append, List.not_mem_nil, or_false] at hc
        rcases hc with rfl | hc | hc | rfl
        · decide
        · exact ih v (by simp) (hwl v (by simp)) c hc
        · exact htail l (fun x hx => by simp [hx]) c hc
        · decide
  | obj l ih =>
    intro h c hc
    cases h with
    | obj _ _ hwl =>
      have htail : ∀ (l' : List (List Char × JVal)), (∀ w ∈ l', w ∈ l) → ∀ c ∈ encodeMTail l', 32 ≤ c.toNat ∧ c.toNat ≤ 126 := by
        intro l'
        induction l' with
        | nil => intro _ c hc; simp [encodeMTail] at hc
        | cons w l' ih' =>
          obtain ⟨k, w⟩ := w
          intro hsub c hc
          simp only [encodeMTail, List.mem_cons, List.mem_append] at hc
          rcases hc with rfl | hc | rfl | hc | hc
          · decide
          · exact encodeStr_printable k c hc
          · decide
          · exact ih (k, w) (hsub _ (by simp)) (hwl _ (hsub _ (by simp))) c hc
          · exact ih' (fun x hx => hsub x (by simp [hx])) c hc
      cases l with
      | nil => simp only [encode, List.mem_cons, List.not_mem_nil, or_false] at hc; rcases hc with rfl | rfl <;> decide
      | cons kv l =>
        obtain ⟨k, v⟩ := kv
        rw [encode] at hc
        simp only [List.mem_cons, List.mem_append, List.not_mem_nil, or_false] at hc
        rcases hc with rfl | hc | rfl | hc | hc | rfl
        · decide
        · exact encodeStr_printable k c hc
        · decide
        · exact ih (k, v) (by simp) (hwl _ (by simp)) c hc
        · exact htail l (fun x hx => by simp [hx]) c hc
        · decide

/-- (a) `json.dumps` (`ensure_ascii=True`, compact separators) emits printable ASCII only -/
theorem encode_printable (v : JVal) (h : WF v) : ∀ c ∈ encode v, ' ' ≤ c ∧ c ≤ '~' :=
  fun c hc => (printable_iff c).2 (encode_printable_nat v h c hc)

theorem encode_single_line (v : JVal) (h : WF v) : '\n' ∉ encode v ∧ '\r' ∉ encode v :=
  ⟨fun hc => absurd (encode_printable_nat v h _ hc) (by decide), fun hc => absurd (encode_printable_nat v h _ hc) (by decide)⟩


/-! ### the Bool twin of `WF` -/

theorem nodupKeys_iff (ks : List (List Char)) : nodupKeys ks = true ↔ ks.Nodup := by
  induction ks with
  | nil => simp [nodupKeys]
  | cons k ks ih => simp [nodupKeys, ih]

theorem wfList_iff (l : List JVal) : wfList l = true ↔ ∀ v ∈ l, wf v = true := by
  induction l with
  | nil => simp [wfList]
  | cons v l ih => simp [wfList, ih]

theorem wfMembers_iff (l : List (List Char × JVal)) : wfMembers l = true ↔ ∀ kv ∈ l, wf kv.2 = true := by
  induction l with
  | nil => simp [wfMembers]
  | cons kv l ih => obtain ⟨k, v⟩ := kv; simp [wfMembers, ih]

theorem wf_iff : ∀ (v : JVal), wf v = true ↔ WF v := by
  intro v
  induction v using JVal.induction with
  | null => exact ⟨fun _ => .null, fun _ => rfl⟩
  | bool b => exact ⟨fun _ => .bool b, fun _ => rfl⟩
  | int i => exact ⟨fun _ => .int i, fun _ => rfl⟩
  | str s => exact ⟨fun _ => .str s, fun _ => rfl⟩
  | float l =>
    constructor
    · intro h; exact .float l (by simpa [wf] using h)
    · intro h; cases h with | float _ hl => simpa [wf] using hl
  | arr l ih =>
    rw [wf, wfList_iff]
    constructor
    · intro h; exact .arr l (fun v hv => (ih v hv).1 (h v hv))
    · intro h; cases h with | arr _ hl => exact fun v hv => (ih v hv).2 (hl v hv)
  | obj l ih =>
    rw [wf, Bool.and_eq_true, nodupKeys_iff, wfMembers_iff]
    constructor
    · intro h; exact .obj l h.1 (fun v hv => (ih v hv).1 (h.2 v hv))
    · intro h; cases h with | obj _ hn hl => exact ⟨hn, fun v hv => (ih v hv).2 (hl v hv)⟩

instance (v : JVal) : Decidable (WF v) := decidable_of_iff _ (wf_iff v)

/-! ### non-vacuity -/

/-- `[{"k\"é":[-12,2.5e-07,"a\n\u0001😀\\",null,true],"":{}},[],0]` (as a Python value) -/
def sample : JVal :=
  .arr [.obj [(['k', '"', 'é'], .arr [.int (-12), .float "2.5e-07".toList, .str ['a', '\n', '\x01', '😀', '\\', '\x7f'], .null,
      .bool true]), ([], .obj [])], .arr [], .int 0]

example : WF sample := by decide
example : encode sample =
    "[{\"k\\\"\\u00e9\":[-12,2.5e-07,\"a\\n\\u0001\\ud83d\\ude00\\\\\\u007f\",null,true],\"\":{}},[],0]".toList := by decide
example : decode (encode sample) = some sample := by rfl
example : (decode " { \"a\" : 1 , \"b\" : [ 1.0 ] , \"a\" : \"\\u00E9\\/\" } ".toList).map encode =
    some "{\"a\":\"\\u00e9/\",\"b\":[1.0]}".toList := by decide
example : decode "[1,]".toList = none ∧ decode "01".toList = none ∧ decode "1.".toList = none ∧ decode "-".toList = none ∧
    decode "\"\\ud83d\"".toList = none ∧ decode "[1] x".toList = none := by
  refine ⟨?_, ?_, ?_, ?_, ?_, ?_⟩ <;> rfl
example : floatLexeme "1.5".toList = true ∧ floatLexeme "-0.0".toList = true ∧ floatLexeme "1e+16".toList = true ∧
    floatLexeme "1.2345e+20".toList = true ∧ floatLexeme "15".toList = false ∧ floatLexeme "01.5".toList = false ∧
    floatLexeme "1.".toList = false ∧ floatLexeme ".5".toList = false ∧ floatLexeme "1e".toList = false ∧
    floatLexeme "1.5 ".toList = false ∧ floatLexeme "nan".toList = false := by decide

end WindVerif.Json
