import WindVerif.Spec.CacheOps
/-! Theorems about the abstract LFU cache (list of `(key, value, count)` in non-decreasing count order). -/
namespace WindVerif.Cache.LfuSpec
open WindVerif.Cache

/-- the content as a multiset-like view: the entry of a key -/
theorem wf_get (cap : Nat) (l l' : St) (k : Key) (v : Val) (h : Wf cap l) (hg : get l k = .ok (l', v)) : Wf cap l' := sorry
theorem wf_set (cap : Nat) (hc : 1 ≤ cap) (l : St) (k : Key) (v : Val) (h : Wf cap l) :
    ∃ l', set cap l k v = .ok l' ∧ Wf cap l' := sorry
theorem wf_del (cap : Nat) (l l' : St) (k : Key) (h : Wf cap l) (hd : del l k = .ok l') : Wf cap l' := sorry

/-- a successful lookup returns the stored value, adds one to the key's count and changes nothing else;
an absent key raises `KeyError` -/
theorem get_spec (cap : Nat) (l : St) (k : Key) (h : Wf cap l) :
    (∀ v c, lookup l k = some (v, c) → ∃ l', get l k = .ok (l', v) ∧ lookup l' k = some (v, c + 1) ∧
        ∀ k', k' ≠ k → lookup l' k' = lookup l k') ∧
    (lookup l k = none → get l k = .error .keyError) := sorry

/-- `c[k] = v` on a present key: the latest value is kept, the count grows by one, nothing else changes -/
theorem set_present (cap : Nat) (l : St) (k : Key) (v : Val) (h : Wf cap l) (c : Nat) (w : Val)
    (hin : lookup l k = some (w, c)) :
    ∃ l', set cap l k v = .ok l' ∧ lookup l' k = some (v, c + 1) ∧ ∀ k', k' ≠ k → lookup l' k' = lookup l k' := sorry

/-- a new key with room left: inserted with count 1, nothing removed -/
theorem set_room (cap : Nat) (l : St) (k : Key) (v : Val) (h : Wf cap l) (hnew : lookup l k = none)
    (hroom : l.length < cap) :
    ∃ l', set cap l k v = .ok l' ∧ lookup l' k = some (v, 1) ∧ ∀ k', k' ≠ k → lookup l' k' = lookup l k' := sorry

/-- a new key into a full cache: exactly one key is removed, its count is the smallest among the keys present, the
new key enters with count 1 and every other entry is untouched -/
theorem set_evicts_min (cap : Nat) (hc : 1 ≤ cap) (l : St) (k : Key) (v : Val) (h : Wf cap l)
    (hnew : lookup l k = none) (hfull : l.length = cap) :
    ∃ l' victim, set cap l k v = .ok l' ∧ victim ∈ l ∧ (∀ e ∈ l, victim.2.2 ≤ e.2.2) ∧
      lookup l' k = some (v, 1) ∧ lookup l' victim.1 = none ∧
      ∀ k', k' ≠ k → k' ≠ victim.1 → lookup l' k' = lookup l k' := sorry

theorem del_spec (cap : Nat) (l : St) (k : Key) (h : Wf cap l) :
    ((lookup l k).isSome → ∃ l', del l k = .ok l' ∧ lookup l' k = none ∧ ∀ k', k' ≠ k → lookup l' k' = lookup l k') ∧
    (lookup l k = none → del l k = .error .keyError) := sorry

/-! ### the mixins on the abstract cache: total, and agreeing with the content -/

/-- same keys with the same values; counts may only have grown -/
def SameContent (l l' : St) : Prop :=
  ∀ k, match lookup l k, lookup l' k with
    | some (v, c), some (v', c') => v = v' ∧ c ≤ c'
    | none, none => True
    | _, _ => False

theorem items_spec (cap : Nat) (l : St) (h : Wf cap l) :
    ∃ l', items (prim cap) l = .ok (l', l.map (fun e => (e.1, e.2.1))) ∧ SameContent l l' ∧ Wf cap l' := sorry

theorem contains_spec (cap : Nat) (l : St) (k : Key) (h : Wf cap l) :
    ∃ l', contains (prim cap) l k = .ok (l', (lookup l k).isSome) ∧ SameContent l l' := sorry

theorem getD_spec (cap : Nat) (l : St) (k : Key) (h : Wf cap l) :
    ∃ l', getD (prim cap) l k = .ok (l', (lookup l k).map (·.1)) ∧ SameContent l l' := sorry

theorem pop_spec (cap : Nat) (l : St) (k : Key) (h : Wf cap l) :
    (∀ v c, lookup l k = some (v, c) → pop (prim cap) l k = .ok (without l k, v)) ∧
    (lookup l k = none → pop (prim cap) l k = .error .keyError) := sorry

theorem popitem_spec (cap : Nat) (l : St) (h : Wf cap l) :
    match l with
    | [] => popitem (prim cap) l = .error .keyError
    | (k, v, _) :: r => popitem (prim cap) l = .ok (r, k, v) := sorry

theorem clear_spec (cap : Nat) (l : St) (h : Wf cap l) : clear (prim cap) l = .ok [] := sorry

theorem update_total (cap : Nat) (hc : 1 ≤ cap) (l : St) (ps : List (Key × Val)) (h : Wf cap l) :
    ∃ l', update (prim cap) l ps = .ok l' ∧ Wf cap l' := sorry

theorem setdefault_spec (cap : Nat) (hc : 1 ≤ cap) (l : St) (k : Key) (v : Val) (h : Wf cap l) :
    (∀ w c, lookup l k = some (w, c) → ∃ l', setdefault (prim cap) l k v = .ok (l', w) ∧ SameContent l l') ∧
    (lookup l k = none → ∃ l', setdefault (prim cap) l k v = .ok (l', v) ∧ set cap l k v = .ok l') := sorry

theorem eq_spec (cap : Nat) (l : St) (other : List (Key × Val)) (h : Wf cap l)
    (ho : (other.map (·.1)).Nodup) :
    ∃ l' b, eqDict (prim cap) l other = .ok (l', b) ∧ SameContent l l' ∧
      (b = true ↔ ∀ k, (lookup l k).map (·.1) = other.lookup k) := sorry

end WindVerif.Cache.LfuSpec
