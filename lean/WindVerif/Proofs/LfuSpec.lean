import WindVerif.Spec.CacheOps
/-! Theorems about the abstract LFU cache (list of `(key, value, count)` in non-decreasing count order). -/
namespace WindVerif.Cache.LfuSpec
open WindVerif.Cache

@[simp] theorem lookup_nil (k : Key) : lookup [] k = none := rfl

theorem lookup_cons (x : Key × Val × Nat) (xs : St) (k : Key) :
    lookup (x :: xs) k = if x.1 = k then some (x.2.1, x.2.2) else lookup xs k := by
  simp only [lookup, List.map_cons, List.lookup_cons]
  by_cases h : x.1 = k
  · simp [h]
  · have : (k == x.1) = false := by simp; exact fun h' => h h'.symm
    simp [h, this]

theorem lookup_eq_none_iff (l : St) (k : Key) : lookup l k = none ↔ k ∉ l.map (·.1) := by
  induction l with
  | nil => simp
  | cons x xs ih =>
    rw [lookup_cons]
    by_cases h : x.1 = k
    · simp [h]
    · have h' : ¬ k = x.1 := fun h' => h h'.symm
      simp only [h, if_false, ih, List.map_cons, List.mem_cons, h', false_or]

theorem lookup_of_mem (l : St) (hn : (l.map (·.1)).Nodup) (e : Key × Val × Nat) (he : e ∈ l) :
    lookup l e.1 = some (e.2.1, e.2.2) := by
  induction l with
  | nil => simp at he
  | cons x xs ih =>
    rw [lookup_cons]
    simp only [List.map_cons, List.nodup_cons] at hn
    rcases List.mem_cons.1 he with rfl | he
    · simp
    · have : x.1 ≠ e.1 := fun h => hn.1 (h ▸ List.mem_map_of_mem he)
      simp [this, ih hn.2 he]

theorem mem_of_lookup (l : St) (k : Key) (v : Val) (c : Nat) (h : lookup l k = some (v, c)) : (k, v, c) ∈ l := by
  induction l with
  | nil => simp at h
  | cons x xs ih =>
    rw [lookup_cons] at h
    by_cases hx : x.1 = k
    · simp [hx] at h
      obtain ⟨a, b, c'⟩ := x
      simp_all
    · simp [hx] at h
      exact List.mem_cons_of_mem _ (ih h)


/-! ### `insertBump` / `bump` -/

theorem mem_insertBump (e a : Key × Val × Nat) (l : St) : a ∈ insertBump e l ↔ a = e ∨ a ∈ l := by
  induction l with
  | nil => simp [insertBump]
  | cons x xs ih =>
    simp only [insertBump]
    split
    · simp only [List.mem_cons, ih]
      constructor
      · rintro (h | h | h)
        · exact Or.inr (Or.inl h)
        · exact Or.inl h
        · exact Or.inr (Or.inr h)
      · rintro (h | h | h)
        · exact Or.inr (Or.inl h)
        · exact Or.inl h
        · exact Or.inr (Or.inr h)
    · simp only [List.mem_cons]

theorem insertBump_keys_perm (e : Key × Val × Nat) (l : St) :
    ((insertBump e l).map (·.1)).Perm (e.1 :: l.map (·.1)) := by
  induction l with
  | nil => simp [insertBump]
  | cons x xs ih =>
    simp only [insertBump]
    split
    · simp only [List.map_cons]
      exact (List.Perm.cons _ ih).trans (List.Perm.swap _ _ _)
    · simp

theorem bump_keys_perm (k : Key) (nv : Option Val) (l : St) :
    ((bump k nv l).map (·.1)).Perm (l.map (·.1)) := by
  induction l with
  | nil => simp [bump]
  | cons x xs ih =>
    simp only [bump]
    split
    · rename_i h
      refine (insertBump_keys_perm _ xs).trans ?_
      simp [h]
    · simp only [List.map_cons]
      exact List.Perm.cons _ ih

theorem lookup_insertBump_ne (e : Key × Val × Nat) (l : St) (k' : Key) (h : e.1 ≠ k') :
    lookup (insertBump e l) k' = lookup l k' := by
  induction l with
  | nil => simp [insertBump, lookup_cons, h]
  | cons x xs ih =>
    simp only [insertBump]
    split
    · simp only [lookup_cons, ih]
    · simp only [lookup_cons, h, if_false]

theorem lookup_insertBump_self (e : Key × Val × Nat) (l : St) (h : e.1 ∉ l.map (·.1)) :
    lookup (insertBump e l) e.1 = some (e.2.1, e.2.2) := by
  induction l with
  | nil => simp [insertBump, lookup_cons]
  | cons x xs ih =>
    simp only [List.map_cons, List.mem_cons, not_or] at h
    simp only [insertBump]
    split
    · have : x.1 ≠ e.1 := fun h' => h.1 h'.symm
      simp only [lookup_cons, this, if_false, ih h.2]
    · simp [lookup_cons]

theorem lookup_bump_ne (k : Key) (nv : Option Val) (l : St) (k' : Key) (h : k' ≠ k) :
    lookup (bump k nv l) k' = lookup l k' := by
  induction l with
  | nil => simp [bump]
  | cons x xs ih =>
    simp only [bump]
    split
    · rename_i hx
      have : x.1 ≠ k' := fun h' => h (h'.symm.trans hx)
      rw [lookup_insertBump_ne _ _ _ (by simpa using h.symm), lookup_cons]
      simp [this]
    · simp only [lookup_cons, ih]

theorem lookup_bump_self (k : Key) (nv : Option Val) (l : St) (hn : (l.map (·.1)).Nodup) (v : Val) (c : Nat)
    (hl : lookup l k = some (v, c)) : lookup (bump k nv l) k = some (nv.getD v, c + 1) := by
  induction l with
  | nil => simp at hl
  | cons x xs ih =>
    simp only [List.map_cons, List.nodup_cons] at hn
    rw [lookup_cons] at hl
    simp only [bump]
    split
    · rename_i hx
      simp only [hx, if_true, Option.some.injEq, Prod.mk.injEq] at hl
      have := lookup_insertBump_self (k, nv.getD x.2.1, x.2.2 + 1) xs (by simpa [hx] using hn.1)
      simpa [hl.1, hl.2] using this
    · rename_i hx
      simp only [hx, if_false] at hl
      simp only [lookup_cons, hx, if_false]
      exact ih hn.2 hl

theorem mem_bump_count (k : Key) (nv : Option Val) (l : St) (a : Key × Val × Nat) (h : a ∈ bump k nv l) :
    ∃ a' ∈ l, a'.2.2 ≤ a.2.2 := by
  induction l with
  | nil => simp [bump] at h
  | cons x xs ih =>
    simp only [bump] at h
    split at h
    · rcases (mem_insertBump _ _ _).1 h with rfl | h
      · exact ⟨x, by simp, by simp⟩
      · exact ⟨a, by simp [h], Nat.le_refl _⟩
    · rcases List.mem_cons.1 h with rfl | h
      · exact ⟨a, by simp, Nat.le_refl _⟩
      · obtain ⟨a', h1, h2⟩ := ih h
        exact ⟨a', by simp [h1], h2⟩

abbrev Sorted (l : St) : Prop := l.Pairwise (fun a b => a.2.2 ≤ b.2.2)

theorem sorted_insertBump (e : Key × Val × Nat) (l : St) (h : Sorted l) : Sorted (insertBump e l) := by
  induction l with
  | nil => simp [insertBump, Sorted]
  | cons x xs ih =>
    simp only [Sorted, List.pairwise_cons] at h
    simp only [insertBump]
    split
    · rename_i hx
      simp only [Sorted, List.pairwise_cons]
      refine ⟨?_, ih h.2⟩
      intro a ha
      rcases (mem_insertBump _ _ _).1 ha with rfl | ha
      · omega
      · exact h.1 a ha
    · rename_i hx
      simp only [Sorted, List.pairwise_cons]
      refine ⟨?_, h⟩
      intro a ha
      rcases List.mem_cons.1 ha with rfl | ha
      · omega
      · have := h.1 a ha; omega

theorem sorted_bump (k : Key) (nv : Option Val) (l : St) (h : Sorted l) : Sorted (bump k nv l) := by
  induction l with
  | nil => simp [bump, Sorted]
  | cons x xs ih =>
    simp only [Sorted, List.pairwise_cons] at h
    simp only [bump]
    split
    · exact sorted_insertBump _ _ h.2
    · simp only [Sorted, List.pairwise_cons]
      refine ⟨?_, ih h.2⟩
      intro a ha
      obtain ⟨a', h1, h2⟩ := mem_bump_count _ _ _ _ ha
      have := h.1 a' h1; omega

theorem wf_iff (cap : Nat) (l : St) :
    Wf cap l ↔ (l.map (·.1)).Nodup ∧ l.length ≤ cap ∧ Sorted l ∧ ∀ e ∈ l, 1 ≤ e.2.2 := by
  simp only [Wf, Sorted, List.pairwise_map]

theorem wf_bump (cap : Nat) (k : Key) (nv : Option Val) (l : St) (h : Wf cap l) : Wf cap (bump k nv l) := by
  rw [wf_iff] at h ⊢
  obtain ⟨h1, h2, h3, h4⟩ := h
  have hp := bump_keys_perm k nv l
  refine ⟨hp.nodup_iff.2 h1, ?_, sorted_bump _ _ _ h3, ?_⟩
  · have := hp.length_eq; simp only [List.length_map] at this; omega
  · intro e he
    obtain ⟨a', ha1, ha2⟩ := mem_bump_count _ _ _ _ he
    have := h4 a' ha1; omega

theorem without_insertBump (e : Key × Val × Nat) (l : St) : without (insertBump e l) e.1 = without l e.1 := by
  induction l with
  | nil => simp [insertBump, without]
  | cons x xs ih =>
    simp only [insertBump]
    split
    · simp only [without, List.filter_cons] at ih ⊢
      rw [ih]
    · simp [without, List.filter_cons]

theorem without_bump (k : Key) (nv : Option Val) (l : St) : without (bump k nv l) k = without l k := by
  induction l with
  | nil => simp [bump]
  | cons x xs ih =>
    simp only [bump]
    split
    · rename_i hx
      have := without_insertBump (k, nv.getD x.2.1, x.2.2 + 1) xs
      simp only at this
      rw [this]; simp [without, hx]
    · simp only [without, List.filter_cons] at ih ⊢
      rw [ih]

theorem lookup_without (l : St) (k k' : Key) : lookup (without l k) k' = if k' = k then none else lookup l k' := by
  induction l with
  | nil => simp [without]
  | cons x xs ih =>
    simp only [without, List.filter_cons] at ih ⊢
    by_cases hx : x.1 = k
    · simp only [hx, ne_eq, not_true_eq_false, decide_false, Bool.false_eq_true, if_false, ih, lookup_cons]
      by_cases hk : k' = k
      · simp [hk]
      · have : ¬ k = k' := fun h => hk h.symm
        simp [hk, this]
    · simp only [ne_eq, hx, not_false_eq_true, decide_true, if_true, lookup_cons, ih]
      by_cases hk : k' = k
      · have : ¬ x.1 = k' := fun h => hx (h.trans hk)
        simp [hk, hx]
      · simp [hk]


/-! ### the primitives -/

/-- the content as a multiset-like view: the entry of a key -/
theorem wf_get (cap : Nat) (l l' : St) (k : Key) (v : Val) (h : Wf cap l) (hg : get l k = .ok (l', v)) : Wf cap l' := by
  unfold get at hg
  split at hg
  · simp only [Except.ok.injEq, Prod.mk.injEq] at hg
    rw [← hg.1]; exact wf_bump cap k none l h
  · simp at hg

theorem wf_tail (cap : Nat) (x : Key × Val × Nat) (xs : St) (h : Wf cap (x :: xs)) : Wf cap xs := by
  rw [wf_iff] at h ⊢
  obtain ⟨h1, h2, h3, h4⟩ := h
  simp only [List.map_cons, List.nodup_cons] at h1
  simp only [Sorted, List.pairwise_cons] at h3
  simp only [List.length_cons] at h2
  exact ⟨h1.2, by omega, h3.2, fun e he => h4 e (List.mem_cons_of_mem _ he)⟩

theorem wf_cons_one (cap : Nat) (k : Key) (v : Val) (l : St) (h : Wf cap l) (hk : lookup l k = none)
    (hlen : l.length + 1 ≤ cap) : Wf cap ((k, v, 1) :: l) := by
  rw [wf_iff] at h ⊢
  obtain ⟨h1, h2, h3, h4⟩ := h
  rw [lookup_eq_none_iff] at hk
  refine ⟨?_, by simpa using hlen, ?_, ?_⟩
  · simp only [List.map_cons, List.nodup_cons]; exact ⟨hk, h1⟩
  · simp only [Sorted, List.pairwise_cons]; exact ⟨fun a ha => h4 a ha, h3⟩
  · intro e he
    rcases List.mem_cons.1 he with rfl | he
    · exact Nat.le_refl _
    · exact h4 e he

theorem wf_set (cap : Nat) (hc : 1 ≤ cap) (l : St) (k : Key) (v : Val) (h : Wf cap l) :
    ∃ l', set cap l k v = .ok l' ∧ Wf cap l' := by
  unfold set
  split
  · exact ⟨_, rfl, wf_bump cap k (some v) l h⟩
  · rename_i hk
    have hk : lookup l k = none := by simpa using hk
    split
    · rename_i hlen
      match l, h, hk, hlen with
      | [], _, _, hlen => simp at hlen; omega
      | x :: xs, h, hk, hlen =>
        refine ⟨_, rfl, ?_⟩
        have hxs := wf_tail cap x xs h
        have hk' : lookup xs k = none := by
          rw [lookup_eq_none_iff] at hk ⊢
          intro hm; exact hk (by simp only [List.map_cons]; exact List.mem_cons_of_mem _ hm)
        have hl := h.2.1
        simp only [List.length_cons] at hl
        exact wf_cons_one cap k v xs hxs hk' hl
    · rename_i hlen
      exact ⟨_, rfl, wf_cons_one cap k v l h hk (by omega)⟩

theorem wf_without (cap : Nat) (l : St) (k : Key) (h : Wf cap l) : Wf cap (without l k) := by
  rw [wf_iff] at h ⊢
  obtain ⟨h1, h2, h3, h4⟩ := h
  have hs : (without l k).Sublist l := List.filter_sublist
  refine ⟨h1.sublist (hs.map _), ?_, h3.sublist hs, fun e he => h4 e (hs.subset he)⟩
  have := hs.length_le; omega

theorem wf_del (cap : Nat) (l l' : St) (k : Key) (h : Wf cap l) (hd : del l k = .ok l') : Wf cap l' := by
  unfold del at hd
  split at hd
  · simp only [Except.ok.injEq] at hd
    rw [← hd]; exact wf_without cap l k h
  · simp at hd

/-- a successful lookup returns the stored value, adds one to the key's count and changes nothing else;
an absent key raises `KeyError` -/
theorem get_spec (cap : Nat) (l : St) (k : Key) (h : Wf cap l) :
    (∀ v c, lookup l k = some (v, c) → ∃ l', get l k = .ok (l', v) ∧ lookup l' k = some (v, c + 1) ∧
        ∀ k', k' ≠ k → lookup l' k' = lookup l k') ∧
    (lookup l k = none → get l k = .error .keyError) := by
  constructor
  · intro v c hl
    refine ⟨bump k none l, by simp [get, hl], ?_, fun k' hk' => lookup_bump_ne k none l k' hk'⟩
    simpa using lookup_bump_self k none l h.1 v c hl
  · intro hl; simp [get, hl]

/-- `c[k] = v` on a present key: the latest value is kept, the count grows by one, nothing else changes -/
theorem set_present (cap : Nat) (l : St) (k : Key) (v : Val) (h : Wf cap l) (c : Nat) (w : Val)
    (hin : lookup l k = some (w, c)) :
    ∃ l', set cap l k v = .ok l' ∧ lookup l' k = some (v, c + 1) ∧ ∀ k', k' ≠ k → lookup l' k' = lookup l k' := by
  refine ⟨bump k (some v) l, by simp [set, hin], ?_, fun k' hk' => lookup_bump_ne k (some v) l k' hk'⟩
  simpa using lookup_bump_self k (some v) l h.1 w c hin

/-- a new key with room left: inserted with count 1, nothing removed -/
theorem set_room (cap : Nat) (l : St) (k : Key) (v : Val) (h : Wf cap l) (hnew : lookup l k = none)
    (hroom : l.length < cap) :
    ∃ l', set cap l k v = .ok l' ∧ lookup l' k = some (v, 1) ∧ ∀ k', k' ≠ k → lookup l' k' = lookup l k' := by
  have _ := h
  have : ¬ l.length ≥ cap := by omega
  refine ⟨(k, v, 1) :: l, by simp [set, hnew, this], by simp [lookup_cons], ?_⟩
  intro k' hk'
  have : ¬ k = k' := fun h => hk' h.symm
  simp [lookup_cons, this]

/-- a new key into a full cache: exactly one key is removed, its count is the smallest among the keys present, the
new key enters with count 1 and every other entry is untouched -/
theorem set_evicts_min (cap : Nat) (hc : 1 ≤ cap) (l : St) (k : Key) (v : Val) (h : Wf cap l)
    (hnew : lookup l k = none) (hfull : l.length = cap) :
    ∃ l' victim, set cap l k v = .ok l' ∧ victim ∈ l ∧ (∀ e ∈ l, victim.2.2 ≤ e.2.2) ∧
      lookup l' k = some (v, 1) ∧ lookup l' victim.1 = none ∧
      ∀ k', k' ≠ k → k' ≠ victim.1 → lookup l' k' = lookup l k' := by
  match l, h, hnew, hfull with
  | [], _, _, hfull => simp at hfull; omega
  | x :: xs, h, hnew, hfull =>
    rw [wf_iff] at h
    obtain ⟨h1, h2, h3, h4⟩ := h
    simp only [List.map_cons, List.nodup_cons] at h1
    simp only [Sorted, List.pairwise_cons] at h3
    have hge : cap ≤ xs.length + 1 := by simp only [List.length_cons] at hfull; omega
    have hxk : ¬ x.1 = k := by
      intro hx; rw [lookup_cons] at hnew; simp [hx] at hnew
    have hxk' : ¬ k = x.1 := fun h => hxk h.symm
    refine ⟨(k, v, 1) :: xs, x, by simp [set, hnew, hge], by simp, ?_, by simp [lookup_cons], ?_, ?_⟩
    · intro e he
      rcases List.mem_cons.1 he with rfl | he
      · exact Nat.le_refl _
      · exact h3.1 e he
    · rw [lookup_cons]; simp only [hxk', if_false]
      exact (lookup_eq_none_iff _ _).2 h1.1
    · intro k' hk1 hk2
      have e1 : ¬ k = k' := fun h => hk1 h.symm
      have e2 : ¬ x.1 = k' := fun h => hk2 h.symm
      simp [lookup_cons, e1, e2]

theorem del_spec (cap : Nat) (l : St) (k : Key) (h : Wf cap l) :
    ((lookup l k).isSome → ∃ l', del l k = .ok l' ∧ lookup l' k = none ∧ ∀ k', k' ≠ k → lookup l' k' = lookup l k') ∧
    (lookup l k = none → del l k = .error .keyError) := by
  have _ := h
  constructor
  · intro hs
    refine ⟨without l k, by simp [del, hs], by simp [lookup_without], ?_⟩
    intro k' hk'; simp [lookup_without, hk']
  · intro hl; simp [del, hl]


/-! ### the mixins on the abstract cache: total, and agreeing with the content -/

/-- same keys with the same values; counts may only have grown -/
def SameContent (l l' : St) : Prop :=
  ∀ k, match lookup l k, lookup l' k with
    | some (v, c), some (v', c') => v = v' ∧ c ≤ c'
    | none, none => True
    | _, _ => False

theorem sameContent_iff (l l' : St) : SameContent l l' ↔
    ∀ k, (lookup l k = none → lookup l' k = none) ∧
      (∀ v c, lookup l k = some (v, c) → ∃ c', lookup l' k = some (v, c') ∧ c ≤ c') := by
  constructor
  · intro h k
    have hk := h k
    split at hk
    · rename_i v c v' c' h1 h2
      refine ⟨fun hn => by simp [hn] at h1, fun w d hw => ?_⟩
      rw [h1] at hw
      simp only [Option.some.injEq, Prod.mk.injEq] at hw
      exact ⟨c', by rw [h2, ← hw.1, hk.1], by omega⟩
    · rename_i h1 h2
      exact ⟨fun _ => h2, fun w d hw => by simp [h1] at hw⟩
    · exact hk.elim
  · intro h k
    obtain ⟨h1, h2⟩ := h k
    cases hl : lookup l k with
    | none => rw [h1 hl]; trivial
    | some p =>
      obtain ⟨v, c⟩ := p
      obtain ⟨c', h3, h4⟩ := h2 v c hl
      rw [h3]; exact ⟨rfl, h4⟩

theorem SameContent.refl (l : St) : SameContent l l := by
  rw [sameContent_iff]
  exact fun k => ⟨id, fun v c h => ⟨c, h, Nat.le_refl _⟩⟩

theorem SameContent.trans {l₁ l₂ l₃ : St} (h₁ : SameContent l₁ l₂) (h₂ : SameContent l₂ l₃) : SameContent l₁ l₃ := by
  rw [sameContent_iff] at *
  intro k
  refine ⟨fun h => (h₂ k).1 ((h₁ k).1 h), fun v c h => ?_⟩
  obtain ⟨c', h3, h4⟩ := (h₁ k).2 v c h
  obtain ⟨c'', h5, h6⟩ := (h₂ k).2 v c' h3
  exact ⟨c'', h5, by omega⟩

theorem sameContent_bump (l : St) (k : Key) (hn : (l.map (·.1)).Nodup) : SameContent l (bump k none l) := by
  rw [sameContent_iff]
  intro k'
  by_cases hk : k' = k
  · subst hk
    constructor
    · intro hl
      rw [lookup_eq_none_iff] at hl ⊢
      intro hm; exact hl ((bump_keys_perm k' none l).mem_iff.1 hm)
    · intro v c hl
      exact ⟨c + 1, by simpa using lookup_bump_self k' none l hn v c hl, by omega⟩
  · rw [lookup_bump_ne k none l k' hk]
    exact ⟨id, fun v c h => ⟨c, h, Nat.le_refl _⟩⟩

theorem sameContent_get (cap : Nat) (l l' : St) (k : Key) (v : Val) (h : Wf cap l) (hg : get l k = .ok (l', v)) :
    SameContent l l' := by
  unfold get at hg
  split at hg
  · simp only [Except.ok.injEq, Prod.mk.injEq] at hg
    rw [← hg.1]; exact sameContent_bump l k h.1
  · simp at hg

/-- the value stored under a key (0 when absent) -/
def valOf (l : St) (k : Key) : Val := ((lookup l k).map (·.1)).getD 0

theorem valOf_sameContent {l l' : St} (h : SameContent l l') (k : Key) : valOf l' k = valOf l k := by
  rw [sameContent_iff] at h
  obtain ⟨h1, h2⟩ := h k
  unfold valOf
  cases hl : lookup l k with
  | none => rw [h1 hl]
  | some p =>
    obtain ⟨v, c⟩ := p
    obtain ⟨c', h3, _⟩ := h2 v c hl
    rw [h3]; rfl

theorem isSome_sameContent {l l' : St} (h : SameContent l l') (k : Key) (hk : (lookup l k).isSome) :
    (lookup l' k).isSome := by
  rw [sameContent_iff] at h
  obtain ⟨h1, h2⟩ := h k
  cases hl : lookup l k with
  | none => simp [hl] at hk
  | some p =>
    obtain ⟨v, c⟩ := p
    obtain ⟨c', h3, _⟩ := h2 v c hl
    simp [h3]

theorem itemsFrom_spec (cap : Nat) (ks : List Key) (l : St) (h : Wf cap l) (hks : ∀ k ∈ ks, (lookup l k).isSome) :
    ∃ l', itemsFrom (prim cap) l ks = .ok (l', ks.map (fun k => (k, valOf l k))) ∧ SameContent l l' ∧ Wf cap l' := by
  induction ks generalizing l with
  | nil => exact ⟨l, rfl, SameContent.refl l, h⟩
  | cons k ks ih =>
    have hk := hks k (by simp)
    cases hl : lookup l k with
    | none => simp [hl] at hk
    | some p =>
      obtain ⟨v, c⟩ := p
      obtain ⟨l1, hg, _, _⟩ := (get_spec cap l k h).1 v c hl
      have hw1 := wf_get cap l l1 k v h hg
      have hs1 := sameContent_get cap l l1 k v h hg
      obtain ⟨l2, hi, hs2, hw2⟩ := ih l1 hw1 (fun k' hk' => isSome_sameContent hs1 k' (hks k' (by simp [hk'])))
      refine ⟨l2, ?_, hs1.trans hs2, hw2⟩
      have hg' : (prim cap).get l k = .ok (l1, v) := hg
      simp only [itemsFrom, hg', hi, List.map_cons]
      have : valOf l k = v := by simp [valOf, hl]
      rw [this]
      congr 3
      apply List.map_congr_left
      intro a _
      rw [valOf_sameContent hs1]

theorem items_spec (cap : Nat) (l : St) (h : Wf cap l) :
    ∃ l', items (prim cap) l = .ok (l', l.map (fun e => (e.1, e.2.1))) ∧ SameContent l l' ∧ Wf cap l' := by
  have hks : ∀ k ∈ l.map (·.1), (lookup l k).isSome := by
    intro k hk
    cases hl : lookup l k with
    | none => exact ((lookup_eq_none_iff l k).1 hl hk).elim
    | some p => rfl
  obtain ⟨l', hi, hs, hw⟩ := itemsFrom_spec cap (l.map (·.1)) l h hks
  refine ⟨l', ?_, hs, hw⟩
  have : (prim cap).keys l = l.map (·.1) := rfl
  rw [items, this, hi, List.map_map]
  congr 2
  apply List.map_congr_left
  intro e he
  simp [valOf, lookup_of_mem l h.1 e he]

theorem contains_spec (cap : Nat) (l : St) (k : Key) (h : Wf cap l) :
    ∃ l', contains (prim cap) l k = .ok (l', (lookup l k).isSome) ∧ SameContent l l' := by
  cases hl : lookup l k with
  | none =>
    have hg : (prim cap).get l k = .error .keyError := (get_spec cap l k h).2 hl
    exact ⟨l, by simp [contains, hg], SameContent.refl l⟩
  | some p =>
    obtain ⟨v, c⟩ := p
    obtain ⟨l1, hg, _, _⟩ := (get_spec cap l k h).1 v c hl
    have hg' : (prim cap).get l k = .ok (l1, v) := hg
    exact ⟨l1, by simp [contains, hg'], sameContent_get cap l l1 k v h hg⟩

theorem getD_spec (cap : Nat) (l : St) (k : Key) (h : Wf cap l) :
    ∃ l', getD (prim cap) l k = .ok (l', (lookup l k).map (·.1)) ∧ SameContent l l' := by
  cases hl : lookup l k with
  | none =>
    have hg : (prim cap).get l k = .error .keyError := (get_spec cap l k h).2 hl
    exact ⟨l, by simp [getD, hg], SameContent.refl l⟩
  | some p =>
    obtain ⟨v, c⟩ := p
    obtain ⟨l1, hg, _, _⟩ := (get_spec cap l k h).1 v c hl
    have hg' : (prim cap).get l k = .ok (l1, v) := hg
    exact ⟨l1, by simp [getD, hg'], sameContent_get cap l l1 k v h hg⟩

theorem pop_spec (cap : Nat) (l : St) (k : Key) (h : Wf cap l) :
    (∀ v c, lookup l k = some (v, c) → pop (prim cap) l k = .ok (without l k, v)) ∧
    (lookup l k = none → pop (prim cap) l k = .error .keyError) := by
  constructor
  · intro v c hl
    have hg : (prim cap).get l k = .ok (bump k none l, v) := by simp [prim, get, hl]
    have hb := lookup_bump_self k none l h.1 v c hl
    have hd : (prim cap).del (bump k none l) k = .ok (without l k) := by
      simp [prim, del, hb, without_bump]
    simp [pop, hg, hd]
  · intro hl
    have hg : (prim cap).get l k = .error .keyError := (get_spec cap l k h).2 hl
    simp [pop, hg]

theorem without_head (x : Key × Val × Nat) (r : St) (hn : ((x :: r).map (·.1)).Nodup) :
    without (x :: r) x.1 = r := by
  simp only [List.map_cons, List.nodup_cons] at hn
  simp only [without, ne_eq, not_true_eq_false, decide_false, Bool.false_eq_true, not_false_eq_true,
    List.filter_cons_of_neg]
  rw [List.filter_eq_self]
  intro a ha
  have : a.1 ≠ x.1 := fun h' => hn.1 (h' ▸ List.mem_map_of_mem ha)
  simpa using this

theorem popitem_spec (cap : Nat) (l : St) (h : Wf cap l) :
    match l with
    | [] => popitem (prim cap) l = .error .keyError
    | (k, v, _) :: r => popitem (prim cap) l = .ok (r, k, v) := by
  match l, h with
  | [], _ => simp [popitem, prim]
  | (k, v, c) :: r, h =>
    have hk : (prim cap).keys ((k, v, c) :: r) = k :: r.map (·.1) := rfl
    have hp := (pop_spec cap ((k, v, c) :: r) k h).1 v c (by simp [lookup_cons])
    have hw := without_head (k, v, c) r h.1
    simp only at hw
    simp [popitem, hk, hp, hw]

theorem clearLoop_spec (cap : Nat) (fuel : Nat) (l : St) (h : Wf cap l) (hf : l.length < fuel) :
    clearLoop (prim cap) l fuel = .ok [] := by
  induction fuel generalizing l with
  | zero => omega
  | succ n ih =>
    match l, h, hf with
    | [], _, _ => simp [clearLoop, prim]
    | (k, v, c) :: r, h, hf =>
      have hk : (prim cap).keys ((k, v, c) :: r) = k :: r.map (·.1) := rfl
      have hp := popitem_spec cap ((k, v, c) :: r) h
      simp only at hp
      simp only [clearLoop, hk, hp]
      exact ih r (wf_tail cap _ r h) (by simp only [List.length_cons] at hf; omega)

theorem clear_spec (cap : Nat) (l : St) (h : Wf cap l) : clear (prim cap) l = .ok [] :=
  clearLoop_spec cap _ l h (by simp [prim])

theorem update_total (cap : Nat) (hc : 1 ≤ cap) (l : St) (ps : List (Key × Val)) (h : Wf cap l) :
    ∃ l', update (prim cap) l ps = .ok l' ∧ Wf cap l' := by
  induction ps generalizing l with
  | nil => exact ⟨l, rfl, h⟩
  | cons p ps ih =>
    obtain ⟨k, v⟩ := p
    obtain ⟨l1, hs, hw⟩ := wf_set cap hc l k v h
    have hs' : (prim cap).set l k v = .ok l1 := hs
    obtain ⟨l2, hu, hw2⟩ := ih l1 hw
    exact ⟨l2, by simp [update, hs', hu], hw2⟩

theorem setdefault_spec (cap : Nat) (hc : 1 ≤ cap) (l : St) (k : Key) (v : Val) (h : Wf cap l) :
    (∀ w c, lookup l k = some (w, c) → ∃ l', setdefault (prim cap) l k v = .ok (l', w) ∧ SameContent l l') ∧
    (lookup l k = none → ∃ l', setdefault (prim cap) l k v = .ok (l', v) ∧ set cap l k v = .ok l') := by
  constructor
  · intro w c hl
    obtain ⟨l1, hg, _, _⟩ := (get_spec cap l k h).1 w c hl
    have hg' : (prim cap).get l k = .ok (l1, w) := hg
    exact ⟨l1, by simp [setdefault, hg'], sameContent_get cap l l1 k w h hg⟩
  · intro hl
    have hg : (prim cap).get l k = .error .keyError := (get_spec cap l k h).2 hl
    obtain ⟨l1, hs, _⟩ := wf_set cap hc l k v h
    have hs' : (prim cap).set l k v = .ok l1 := hs
    exact ⟨l1, by simp [setdefault, hg, hs'], hs⟩


/-! ### comparison with a plain dict -/

theorem length_le_of_nodup_subset {α : Type} [DecidableEq α] (l₁ l₂ : List α) (hn : l₁.Nodup) (hs : l₁ ⊆ l₂) :
    l₁.length ≤ l₂.length := by
  induction l₁ generalizing l₂ with
  | nil => simp
  | cons a l₁ ih =>
    simp only [List.nodup_cons] at hn
    have ha : a ∈ l₂ := hs (by simp)
    have hs' : l₁ ⊆ l₂.erase a := by
      intro b hb
      have hne : b ≠ a := fun h => hn.1 (h ▸ hb)
      exact (List.mem_erase_of_ne hne).2 (hs (List.mem_cons_of_mem _ hb))
    have := ih (l₂.erase a) hn.2 hs'
    rw [List.length_erase_of_mem ha] at this
    have hpos : 0 < l₂.length := List.length_pos_of_mem ha
    simp only [List.length_cons]; omega

theorem subset_of_nodup_subset_length {α : Type} [DecidableEq α] (l₁ l₂ : List α) (hn : l₁.Nodup) (hs : l₁ ⊆ l₂)
    (hl : l₂.length ≤ l₁.length) : l₂ ⊆ l₁ := by
  intro b hb
  apply Classical.byContradiction
  intro hnb
  have hs' : l₁ ⊆ l₂.erase b := by
    intro a ha
    have hne : a ≠ b := fun h => hnb (h ▸ ha)
    exact (List.mem_erase_of_ne hne).2 (hs ha)
  have := length_le_of_nodup_subset l₁ (l₂.erase b) hn hs'
  rw [List.length_erase_of_mem hb] at this
  have hpos : 0 < l₂.length := List.length_pos_of_mem hb
  omega

theorem dlookup_eq_none_iff (o : List (Key × Val)) (k : Key) : o.lookup k = none ↔ k ∉ o.map (·.1) := by
  induction o with
  | nil => simp
  | cons x xs ih =>
    obtain ⟨a, b⟩ := x
    simp only [List.lookup_cons, List.map_cons, List.mem_cons, not_or]
    by_cases h : k = a
    · simp [h]
    · have : (k == a) = false := by simpa using h
      simp only [this, ih]
      exact ⟨fun h' => ⟨h, h'⟩, fun h' => h'.2⟩

theorem eq_spec (cap : Nat) (l : St) (other : List (Key × Val)) (h : Wf cap l)
    (ho : (other.map (·.1)).Nodup) :
    ∃ l' b, eqDict (prim cap) l other = .ok (l', b) ∧ SameContent l l' ∧
      (b = true ↔ ∀ k, (lookup l k).map (·.1) = other.lookup k) := by
  obtain ⟨l', hi, hs, _⟩ := items_spec cap l h
  refine ⟨l', ((l.map (fun e => (e.1, e.2.1))).length == other.length &&
    (l.map (fun e => (e.1, e.2.1))).all (fun p => other.lookup p.1 == some p.2)), by simp only [eqDict, hi], hs, ?_⟩
  simp only [Bool.and_eq_true, beq_iff_eq, List.length_map, List.all_eq_true, List.mem_map,
    forall_exists_index, and_imp]
  constructor
  · rintro ⟨hlen, hall⟩
    have hall' : ∀ e ∈ l, other.lookup e.1 = some e.2.1 := fun e he => hall _ e he rfl
    have hsub : l.map (·.1) ⊆ other.map (·.1) := by
      intro k hk
      obtain ⟨e, he, rfl⟩ := List.mem_map.1 hk
      apply Classical.byContradiction
      intro hn
      have := (dlookup_eq_none_iff other e.1).2 hn
      rw [hall' e he] at this; simp at this
    have hsub' := subset_of_nodup_subset_length _ _ h.1 hsub (by simp [hlen])
    intro k
    cases hl : lookup l k with
    | none =>
      have hk := (lookup_eq_none_iff l k).1 hl
      have : k ∉ other.map (·.1) := fun hm => hk (hsub' hm)
      simp [(dlookup_eq_none_iff other k).2 this]
    | some p =>
      obtain ⟨v, c⟩ := p
      have := hall' _ (mem_of_lookup l k v c hl)
      simp [this]
  · intro hk
    have hmem : ∀ k, k ∈ l.map (·.1) ↔ k ∈ other.map (·.1) := by
      intro k
      have h1 := lookup_eq_none_iff l k
      have h2 := dlookup_eq_none_iff other k
      have h3 := hk k
      constructor
      · intro hm
        apply Classical.byContradiction
        intro hn
        rw [h2.2 hn] at h3
        simp only [Option.map_eq_none_iff] at h3
        exact h1.1 h3 hm
      · intro hm
        apply Classical.byContradiction
        intro hn
        rw [h1.2 hn] at h3
        simp only [Option.map_none] at h3
        exact h2.1 h3.symm hm
    constructor
    · have := ((List.perm_ext_iff_of_nodup h.1 ho).2 hmem).length_eq
      simpa using this
    · intro p e he hp
      subst hp
      have := hk e.1
      rw [lookup_of_mem l h.1 e he] at this
      simp [← this]

end WindVerif.Cache.LfuSpec
