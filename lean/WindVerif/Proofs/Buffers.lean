import WindVerif.Model.Buffers
/-! Theorems about the models of `Buffer`, `PrintBuffer` and `CircularBuffer` (C15). -/
namespace WindVerif.Buffers

/-! ### Auxiliary: association-list stores and the reorder-buffer invariant -/

def keys (s : Store) : List Nat := s.map (·.1)

theorem sGet_some_mem {s : Store} {i x : Nat} (h : sGet s i = some x) : (i, x) ∈ s := by
  unfold sGet at h
  induction s with
  | nil => simp at h
  | cons p s ih =>
    obtain ⟨k, v⟩ := p
    simp only [List.lookup_cons] at h
    split at h
    · rename_i hk
      simp at hk h
      subst hk; subst h; simp
    · exact List.mem_cons_of_mem _ (ih h)

theorem sGet_none_iff {s : Store} {i : Nat} : sGet s i = none ↔ i ∉ keys s := by
  unfold sGet keys
  simp only [List.lookup_eq_none_iff, List.mem_map, not_exists, not_and]
  constructor
  · intro h p hp he; have := h p hp; simp [he] at this
  · intro h p hp; have := h p hp; simp; intro e; exact this e.symm

theorem mem_sDel {s : Store} {i j y : Nat} : (j, y) ∈ sDel s i ↔ (j, y) ∈ s ∧ j ≠ i := by
  simp [sDel]

theorem keys_sDel (s : Store) (i : Nat) : keys (sDel s i) = (keys s).filter (fun k => k ≠ i) := by
  simp [keys, sDel, List.filter_map]; rfl

theorem perm_cons_filter_ne {l : List Nat} {a : Nat} (hnd : l.Nodup) (ha : a ∈ l) :
    l.Perm (a :: l.filter (fun k => k ≠ a)) := by
  induction l with
  | nil => simp at ha
  | cons b l ih =>
    rw [List.nodup_cons] at hnd
    by_cases hb : b = a
    · subst hb
      have : l.filter (fun k => k ≠ b) = l := by
        rw [List.filter_eq_self]; intro c hc; simp; rintro rfl; exact hnd.1 hc
      rw [List.filter_cons]; simp only [ne_eq, not_true_eq_false, decide_false]; rw [this]; simp
    · have ha' : a ∈ l := by
        rcases List.mem_cons.1 ha with h | h
        · exact absurd h.symm hb
        · exact h
      have := ih hnd.2 ha'
      simp only [List.filter_cons, hb, ne_eq, not_false_eq_true, decide_true, if_true]
      exact (List.Perm.cons b this).trans (List.Perm.swap _ _ _)

theorem keys_perm_sDel {s : Store} {i : Nat} (hnd : (keys s).Nodup) (hi : i ∈ keys s) :
    (keys s).Perm (i :: keys (sDel s i)) := by
  rw [keys_sDel]; exact perm_cons_filter_ne hnd hi

theorem sDel_eq_self {s : Store} {i : Nat} (hi : i ∉ keys s) : sDel s i = s := by
  unfold sDel; rw [List.filter_eq_self]
  intro p hp; simp; rintro rfl; exact hi (List.mem_map.2 ⟨p, hp, rfl⟩)


structure BufInv (f : Nat → Nat) (fed : List Nat) (b : Buf) (out : List Nat) : Prop where
  nd : fed.Nodup
  out_eq : out = (List.range b.wf).map f
  perm : fed.Perm (List.range b.wf ++ keys b.storage)
  val : ∀ i x, (i, x) ∈ b.storage → x = f i

namespace BufInv
variable {f : Nat → Nat} {fed : List Nat} {b : Buf} {out : List Nat}

theorem nd' (h : BufInv f fed b out) : (List.range b.wf ++ keys b.storage).Nodup := h.perm.nodup h.nd

theorem keys_nd (h : BufInv f fed b out) : (keys b.storage).Nodup := (List.nodup_append.1 h.nd').2.1

theorem key_ge (h : BufInv f fed b out) {i : Nat} (hi : i ∈ keys b.storage) : b.wf ≤ i := by
  have := (List.nodup_append.1 h.nd').2.2
  exact Nat.le_of_not_lt fun hlt => this i (List.mem_range.2 hlt) i hi rfl

theorem mem_fed (h : BufInv f fed b out) {i : Nat} : i ∈ fed ↔ i < b.wf ∨ i ∈ keys b.storage := by
  rw [h.perm.mem_iff, List.mem_append, List.mem_range]

theorem below (h : BufInv f fed b out) {j : Nat} (hj : j < b.wf) : j ∈ fed := h.mem_fed.2 (.inl hj)

theorem mem_keys_iff {s : Store} {i : Nat} : (∃ x, (i, x) ∈ s) ↔ i ∈ keys s := by
  simp [keys]

theorem stored_iff (h : BufInv f fed b out) (i : Nat) :
    (∃ x, (i, x) ∈ b.storage) ↔ (i ∈ fed ∧ b.wf ≤ i) := by
  rw [mem_keys_iff, h.mem_fed]
  constructor
  · intro hi; exact ⟨.inr hi, h.key_ge hi⟩
  · rintro ⟨h1 | h1, h2⟩
    · omega
    · exact h1

theorem len_eq (h : BufInv f fed b out) : b.storage.length = fed.length - b.wf := by
  have := h.perm.length_eq
  simp [keys] at this
  omega

theorem empty (f : Nat → Nat) : BufInv f [] Buf.empty [] := by
  refine ⟨by simp, by simp [Buf.empty], by simp [Buf.empty, keys], ?_⟩
  intro i x hx; simp [Buf.empty] at hx

/-- feeding a fresh serial -/
theorem put (h : BufInv f fed b out) {i : Nat} (hi : i ∉ fed) :
    ∃ b', b.put i (f i) = .ok b' ∧ BufInv f (fed ++ [i]) b' out := by
  have hge : ¬ i < b.wf := fun hlt => hi (h.below hlt)
  have hk : i ∉ keys b.storage := fun hk => hi (h.mem_fed.2 (.inr hk))
  refine ⟨_, by simp [Buf.put, hge]; rfl, ?_⟩
  refine ⟨?_, h.out_eq, ?_, ?_⟩
  · rw [List.nodup_append]; refine ⟨h.nd, by simp, ?_⟩
    intro a ha b hb; simp at hb; subst hb; rintro rfl; exact hi ha
  · show (fed ++ [i]).Perm (List.range b.wf ++ keys (sSet b.storage i (f i)))
    simp only [sSet, sDel_eq_self hk, keys, List.map_cons]
    refine List.Perm.trans ?_ List.perm_middle.symm
    refine List.Perm.trans List.perm_append_comm ?_
    exact List.Perm.cons _ h.perm
  · intro j y hy
    simp only [sSet, sDel_eq_self hk, List.mem_cons] at hy
    rcases hy with hy | hy
    · cases hy; rfl
    · exact h.val j y hy

/-- one step of the drain loop -/
theorem step (h : BufInv f fed b out) {x : Nat} (hx : sGet b.storage b.wf = some x) :
    BufInv f fed ⟨sDel b.storage b.wf, b.wf + 1⟩ (out ++ [x]) ∧
    (sDel b.storage b.wf).length + 1 = b.storage.length := by
  have hm := sGet_some_mem hx
  have hxf := h.val _ _ hm
  have hk : b.wf ∈ keys b.storage := mem_keys_iff.1 ⟨x, hm⟩
  have hp := keys_perm_sDel h.keys_nd hk
  refine ⟨⟨h.nd, ?_, ?_, ?_⟩, ?_⟩
  · simp [List.range_succ, h.out_eq, hxf]
  · simp only [List.range_succ, List.append_assoc, List.singleton_append]
    exact h.perm.trans (List.Perm.append_left _ hp)
  · intro j y hy; exact h.val j y (mem_sDel.1 hy).1
  · have := hp.length_eq; simp [keys] at this; omega

end BufInv

theorem drainLoop_inv {f : Nat → Nat} {fed : List Nat} (fuel : Nat) (b : Buf) (out : List Nat)
    (h : BufInv f fed b out) (hf : b.storage.length < fuel) :
    BufInv f fed (Buf.drainLoop fuel b out).1 (Buf.drainLoop fuel b out).2 ∧
    sGet (Buf.drainLoop fuel b out).1.storage (Buf.drainLoop fuel b out).1.wf = none := by
  induction fuel generalizing b out with
  | zero => omega
  | succ fuel ih =>
    unfold Buf.drainLoop
    split
    · rename_i x hx
      obtain ⟨h', hl⟩ := h.step hx
      exact ih _ _ h' (by simp only; omega)
    · rename_i hx
      exact ⟨h, hx⟩

theorem drainLoop_out (fuel : Nat) (b : Buf) (out : List Nat) :
    Buf.drainLoop fuel b out = ((Buf.drainLoop fuel b []).1, out ++ (Buf.drainLoop fuel b []).2) := by
  induction fuel generalizing b out with
  | zero => simp [Buf.drainLoop]
  | succ fuel ih =>
    unfold Buf.drainLoop
    split
    · rw [ih, ih _ ([] ++ _)]; simp
    · simp

theorem drain_inv {f : Nat → Nat} {fed : List Nat} {b : Buf} {out : List Nat} (h : BufInv f fed b out) :
    BufInv f fed b.drain.1 (out ++ b.drain.2) ∧ sGet b.drain.1.storage b.drain.1.wf = none := by
  have := drainLoop_inv (b.storage.length + 1) b out h (by omega)
  rw [drainLoop_out] at this
  exact this


/-! ### Buffer: feeding serial numbers in any order with full drains at any points -/

inductive Ev
  | feed (i : Nat)
  | drain

def serials : List Ev → List Nat
  | [] => []
  | .feed i :: r => i :: serials r
  | .drain :: r => serials r

/-- run a history from state `b` with the output emitted so far; item of serial `i` is `f i` -/
def runBuf (f : Nat → Nat) : Buf → List Nat → List Ev → Buf × List Nat
  | b, out, [] => (b, out)
  | b, out, .feed i :: r =>
    match b.put i (f i) with
    | .ok b' => runBuf f b' out r
    | .error _ => runBuf f b out r
  | b, out, .drain :: r =>
    let (b', o) := b.drain
    runBuf f b' (out ++ o) r


theorem runBuf_append (f : Nat → Nat) (b : Buf) (out : List Nat) (e1 e2 : List Ev) :
    runBuf f b out (e1 ++ e2) = runBuf f (runBuf f b out e1).1 (runBuf f b out e1).2 e2 := by
  induction e1 generalizing b out with
  | nil => rfl
  | cons e r ih =>
    cases e with
    | feed i =>
      simp only [List.cons_append, runBuf]
      split <;> exact ih _ _
    | drain =>
      simp only [List.cons_append, runBuf]
      exact ih _ _

theorem runBuf_inv (f : Nat → Nat) (evs : List Ev) (fed : List Nat) (b : Buf) (out : List Nat)
    (h : BufInv f fed b out) (hnd : (fed ++ serials evs).Nodup) :
    BufInv f (fed ++ serials evs) (runBuf f b out evs).1 (runBuf f b out evs).2 := by
  induction evs generalizing fed b out with
  | nil => simpa [serials, runBuf] using h
  | cons e r ih =>
    cases e with
    | feed i =>
      have hi : i ∉ fed := by
        intro hi
        exact (List.nodup_append.1 hnd).2.2 i hi i (by simp [serials]) rfl
      obtain ⟨b', hb', h'⟩ := h.put hi
      simp only [runBuf, hb', serials]
      have := ih (fed ++ [i]) b' out h' (by simpa [serials] using hnd)
      simpa using this
    | drain =>
      simp only [runBuf, serials]
      exact ih fed _ _ (drain_inv h).1 (by simpa [serials] using hnd)

theorem runBuf_empty_inv (f : Nat → Nat) (evs : List Ev) (hnd : (serials evs).Nodup) :
    BufInv f (serials evs) (runBuf f Buf.empty [] evs).1 (runBuf f Buf.empty [] evs).2 := by
  simpa using runBuf_inv f evs [] Buf.empty [] (BufInv.empty f) (by simpa using hnd)

theorem serials_append_drain (evs : List Ev) : serials (evs ++ [.drain]) = serials evs := by
  induction evs with
  | nil => rfl
  | cons e r ih => cases e <;> simp [serials, ih]

/-- Every serial fed at most once, drains at arbitrary points: at every moment the concatenated output is exactly the
items of serials `0 … waiting_for-1` in ascending order (so: each once, in order, nothing before all its predecessors,
`waiting_for` = number emitted), everything below `waiting_for` has been fed, the buffer holds exactly the fed serials
that are not yet emitted, and `len` is their number. -/
theorem buffer_emits_in_order (f : Nat → Nat) (evs : List Ev) (hnd : (serials evs).Nodup) :
    let r := runBuf f Buf.empty [] evs
    r.2 = (List.range r.1.wf).map f ∧
    (∀ j, j < r.1.wf → j ∈ serials evs) ∧
    (∀ i, (∃ x, (i, x) ∈ r.1.storage) ↔ (i ∈ serials evs ∧ r.1.wf ≤ i)) ∧
    (∀ i x, (i, x) ∈ r.1.storage → x = f i) ∧
    r.1.len = (serials evs).length - r.1.wf := by
  have h := runBuf_empty_inv f evs hnd
  exact ⟨h.out_eq, fun j hj => h.below hj, h.stored_iff, h.val, h.len_eq⟩

/-- right after a drain `waiting_for` is the least serial that has not been fed -/
theorem buffer_wf_after_drain (f : Nat → Nat) (evs : List Ev) (hnd : (serials evs).Nodup) :
    (runBuf f Buf.empty [] (evs ++ [.drain])).1.wf ∉ serials evs := by
  have h := runBuf_empty_inv f evs hnd
  obtain ⟨h', hn⟩ := drain_inv h
  rw [runBuf_append]
  simp only [runBuf]
  intro hmem
  rw [sGet_none_iff] at hn
  exact hn (BufInv.mem_keys_iff.1 ((h'.stored_iff _).2 ⟨hmem, Nat.le_refl _⟩))

/-- feeding a permutation of `0..n-1` and draining at the end emits everything exactly once, in order -/
theorem buffer_complete (f : Nat → Nat) (evs : List Ev) (n : Nat) (hperm : (serials evs).Perm (List.range n)) :
    let r := runBuf f Buf.empty [] (evs ++ [.drain])
    r.2 = (List.range n).map f ∧ r.1.wf = n ∧ r.1.len = 0 := by
  have hnd : (serials evs).Nodup := hperm.symm.nodup List.nodup_range
  have hwf := buffer_wf_after_drain f evs hnd
  have h := runBuf_empty_inv f (evs ++ [.drain]) (by rw [serials_append_drain]; exact hnd)
  rw [serials_append_drain] at h
  intro r
  have hwn : r.1.wf = n := by
    have h1 : ¬ r.1.wf < n := fun hlt => hwf (hperm.mem_iff.2 (List.mem_range.2 hlt))
    have h2 : ¬ n < r.1.wf := fun hlt => by
      have := hperm.mem_iff.1 (h.below hlt)
      simp at this
    omega
  refine ⟨by rw [h.out_eq, hwn], hwn, ?_⟩
  have hl : r.1.storage.length = (serials evs).length - r.1.wf := h.len_eq
  rw [hperm.length_eq, List.length_range, hwn] at hl
  show r.1.storage.length = 0
  omega

/-- an already emitted position is rejected with `AttributeError` and changes nothing -/
theorem buffer_put_emitted (b : Buf) (i x : Nat) (h : i < b.wf) : b.put i x = .error .attributeError := by
  simp [Buf.put, h]

theorem buffer_flush (b : Buf) : b.flush = Buf.empty := rfl

/-! ### PrintBuffer -/

def runP (f : Nat → Nat) : PBuf → List Nat → PBuf
  | b, [] => b
  | b, sn :: r => runP f (b.print sn (f sn)).1 r


theorem chase_eq (fuel : Nat) (b : PBuf) :
    PBuf.chase fuel b =
      ⟨(Buf.drainLoop fuel ⟨b.buffer, b.wf⟩ b.out).1.storage, (Buf.drainLoop fuel ⟨b.buffer, b.wf⟩ b.out).1.wf,
       (Buf.drainLoop fuel ⟨b.buffer, b.wf⟩ b.out).2⟩ := by
  induction fuel generalizing b with
  | zero => rfl
  | succ fuel ih =>
    unfold PBuf.chase Buf.drainLoop
    simp only
    split
    · rename_i x hx; rw [ih]
    · rfl

/-- invariant of the print buffer: the reorder-buffer invariant plus "the awaited serial has not been given" -/
def PInv (f : Nat → Nat) (fed : List Nat) (b : PBuf) : Prop :=
  BufInv f fed ⟨b.buffer, b.wf⟩ b.out ∧ b.wf ∉ fed

theorem PInv.print {f : Nat → Nat} {fed : List Nat} {b : PBuf} (h : PInv f fed b) {sn : Nat} (hsn : sn ∉ fed) :
    PInv f (fed ++ [sn]) (b.print sn (f sn)).1 := by
  obtain ⟨hb, hw⟩ := h
  have hk : sn ∉ keys b.buffer := fun hk => hsn (hb.mem_fed.2 (.inr hk))
  have hnd : (fed ++ [sn]).Nodup := by
    rw [List.nodup_append]; refine ⟨hb.nd, by simp, ?_⟩
    intro a ha c hc; simp at hc; subst hc; rintro rfl; exact hsn ha
  unfold PBuf.print
  split
  · rename_i heq
    subst heq
    have h1 : BufInv f (fed ++ [b.wf]) ⟨b.buffer, b.wf + 1⟩ (b.out ++ [f b.wf]) := by
      refine ⟨hnd, ?_, ?_, hb.val⟩
      · simp [List.range_succ, hb.out_eq]
      · simp only [List.range_succ, List.append_assoc, List.singleton_append]
        refine List.Perm.trans ?_ List.perm_middle.symm
        exact List.Perm.trans List.perm_append_comm (List.Perm.cons _ hb.perm)
    have h2 := drainLoop_inv (b.buffer.length + 1) ⟨b.buffer, b.wf + 1⟩ (b.out ++ [f b.wf]) h1
      (by simp only; omega)
    simp only [chase_eq]
    refine ⟨h2.1, ?_⟩
    intro hmem
    have := h2.2
    rw [sGet_none_iff] at this
    exact this (BufInv.mem_keys_iff.1 ((h2.1.stored_iff _).2 ⟨hmem, Nat.le_refl _⟩))
  · rename_i hne
    refine ⟨⟨hnd, hb.out_eq, ?_, ?_⟩, ?_⟩
    · show (fed ++ [sn]).Perm (List.range b.wf ++ keys (sSet b.buffer sn (f sn)))
      simp only [sSet, sDel_eq_self hk, keys, List.map_cons]
      refine List.Perm.trans ?_ List.perm_middle.symm
      exact List.Perm.trans List.perm_append_comm (List.Perm.cons _ hb.perm)
    · intro j y hy
      simp only [sSet, sDel_eq_self hk, List.mem_cons] at hy
      rcases hy with hy | hy
      · cases hy; rfl
      · exact hb.val j y hy
    · simp only [List.mem_append, List.mem_singleton, not_or]
      exact ⟨hw, fun e => hne e.symm⟩

theorem runP_inv (f : Nat → Nat) (sns : List Nat) (fed : List Nat) (b : PBuf)
    (h : PInv f fed b) (hnd : (fed ++ sns).Nodup) : PInv f (fed ++ sns) (runP f b sns) := by
  induction sns generalizing fed b with
  | nil => simpa [runP] using h
  | cons sn r ih =>
    have hi : sn ∉ fed := by
      intro hi
      exact (List.nodup_append.1 hnd).2.2 sn hi sn (by simp) rfl
    have := ih (fed ++ [sn]) _ (h.print hi) (by simpa using hnd)
    simpa [runP] using this

/-- Every serial printed at most once (any order): the printed output is always exactly the items of serials
`0 … waiting_for-1` in order, `waiting_for` is the least serial not yet given, and the buffer holds exactly the given
serials above it. -/
theorem printbuffer_in_order (f : Nat → Nat) (sns : List Nat) (hnd : sns.Nodup) :
    let b := runP f PBuf.empty sns
    b.out = (List.range b.wf).map f ∧
    b.wf ∉ sns ∧ (∀ j, j < b.wf → j ∈ sns) ∧
    (∀ i, (∃ x, (i, x) ∈ b.buffer) ↔ (i ∈ sns ∧ b.wf < i)) ∧
    (∀ i x, (i, x) ∈ b.buffer → x = f i) ∧
    b.len = sns.length - b.wf := by
  have h0 : PInv f [] PBuf.empty :=
    ⟨⟨by simp, by simp [PBuf.empty], by simp [PBuf.empty, keys], by intro i x hx; simp [PBuf.empty] at hx⟩, by simp⟩
  have h := runP_inv f sns [] PBuf.empty h0 (by simpa using hnd)
  simp only [List.nil_append] at h
  obtain ⟨hb, hw⟩ := h
  refine ⟨hb.out_eq, hw, fun j hj => hb.below hj, ?_, hb.val, hb.len_eq⟩
  intro i
  rw [hb.stored_iff i]
  constructor
  · rintro ⟨h1, h2⟩
    refine ⟨h1, Nat.lt_of_le_of_ne h2 ?_⟩
    rintro rfl; exact hw h1
  · rintro ⟨h1, h2⟩; exact ⟨h1, Nat.le_of_lt h2⟩

/-- `print` reports whether it printed: exactly when the serial is the awaited one -/
theorem printbuffer_print_result (b : PBuf) (sn x : Nat) : (b.print sn x).2 = decide (sn = b.wf) := by
  unfold PBuf.print; split <;> simp [*]

/-- `flush()` prints everything stored in ascending serial order, empties the buffer and moves `waiting_for` behind the
biggest stored serial; on an empty buffer it does nothing -/
theorem printbuffer_flush (b : PBuf) (hk : (b.buffer.map (·.1)).Nodup) :
    (b.buffer = [] → b.flush = b) ∧
    (b.buffer ≠ [] →
      ∃ sorted : List (Nat × Nat), sorted.Perm b.buffer ∧ (sorted.map (·.1)).Pairwise (· < ·) ∧
        b.flush.out = b.out ++ sorted.map (·.2) ∧ b.flush.buffer = [] ∧
        (∀ p ∈ b.buffer, p.1 < b.flush.wf) ∧ (∃ p ∈ b.buffer, b.flush.wf = p.1 + 1)) := by
  constructor
  · intro h; simp [PBuf.flush, h]
  · intro hne
    have hperm := List.mergeSort_perm b.buffer (fun p q => decide (p.1 ≤ q.1))
    have hsorted : (b.buffer.mergeSort (fun p q => decide (p.1 ≤ q.1))).Pairwise (fun p q => p.1 ≤ q.1) := by
      have := List.pairwise_mergeSort (le := fun (p q : Nat × Nat) => decide (p.1 ≤ q.1))
        (by intro a b c; simp only [decide_eq_true_eq]; omega)
        (by intro a b; simp only [Bool.or_eq_true, decide_eq_true_eq]; omega) b.buffer
      exact this.imp (by simp)
    have hnd : ((b.buffer.mergeSort (fun p q => decide (p.1 ≤ q.1))).map (·.1)).Nodup :=
      (hperm.map _).symm.nodup hk
    have hfl : b.flush = match (b.buffer.mergeSort (fun p q => decide (p.1 ≤ q.1))).getLast? with
      | none => b
      | some last => ⟨[], last.1 + 1, b.out ++ (b.buffer.mergeSort (fun p q => decide (p.1 ≤ q.1))).map (·.2)⟩ := rfl
    generalize b.buffer.mergeSort (fun p q => decide (p.1 ≤ q.1)) = sorted at *
    have hlt : (sorted.map (·.1)).Pairwise (· < ·) := by
      have h1 : (sorted.map (·.1)).Pairwise (· ≤ ·) := by rw [List.pairwise_map]; exact hsorted
      exact (h1.and hnd).imp (by intro a b; omega)
    have hsne : sorted ≠ [] := by
      intro h; subst h; exact hne hperm.symm.eq_nil
    rcases hgl : sorted.getLast? with _ | last
    · exact absurd (List.getLast?_eq_none_iff.1 hgl) hsne
    · rw [hgl] at hfl
      obtain ⟨ys, hys⟩ := List.getLast?_eq_some_iff.1 hgl
      refine ⟨sorted, hperm, hlt, by rw [hfl], by rw [hfl], ?_, ?_⟩
      · intro p hp
        rw [hfl]
        show p.1 < last.1 + 1
        have hp' : p ∈ sorted := hperm.mem_iff.2 hp
        rw [hys] at hsorted hp'
        rw [List.pairwise_append] at hsorted
        rcases List.mem_append.1 hp' with h | h
        · have := hsorted.2.2 p h last (by simp); omega
        · simp at h; subst h; omega
      · refine ⟨last, hperm.mem_iff.1 (List.mem_of_getLast? hgl), by rw [hfl]⟩

theorem printbuffer_clear (b : PBuf) : b.clear.buffer = [] ∧ b.clear.wf = 0 ∧ b.clear.out = b.out :=
  ⟨rfl, rfl, rfl⟩

/-! ### CircularBuffer -/

/-- a history of `put x` (`some x`) and `clear` (`none`); returns the ring and the items put since the last clear -/
def runRing : Ring → List Nat → List (Option Nat) → Ring × List Nat
  | r, hist, [] => (r, hist)
  | r, hist, some x :: evs => runRing (r.put x) (hist ++ [x]) evs
  | r, _, none :: evs => runRing r.clear [] evs


theorem mod_ne_of_lt {c k n : Nat} (hkn : k < n) (hnc : n < k + c) : k % c ≠ n % c := by
  intro h
  have h0 := Nat.sub_mod_eq_zero_of_mod_eq h.symm
  have := Nat.eq_zero_of_dvd_of_lt (Nat.dvd_of_mod_eq_zero h0) (by omega)
  omega

structure RInv (c : Nat) (r : Ring) (hist : List Nat) : Prop where
  len : r.buffer.length = c
  size : r.size = min hist.length c
  off : r.offset = hist.length % c
  get : ∀ k, k < hist.length → hist.length ≤ k + c → r.buffer[k % c]? = hist[k]?

theorem RInv.new (c : Nat) : RInv c (Ring.new c) [] :=
  ⟨by simp [Ring.new], by simp [Ring.new], by simp [Ring.new], by intro k hk; simp at hk⟩

theorem RInv.clear {c : Nat} {r : Ring} {hist : List Nat} (h : RInv c r hist) : RInv c r.clear [] :=
  ⟨h.len, by simp [Ring.clear], by simp [Ring.clear], by intro k hk; simp at hk⟩

theorem RInv.put {c : Nat} (hc : 0 < c) {r : Ring} {hist : List Nat} (h : RInv c r hist) (x : Nat) :
    RInv c (r.put x) (hist ++ [x]) := by
  have hlen := h.len
  have hsize := h.size
  have hoff := h.off
  refine ⟨by simp [Ring.put, hlen], ?_, ?_, ?_⟩
  · simp only [Ring.put, Ring.maxSize, hlen, hsize, List.length_append, List.length_singleton]
    split <;> omega
  · simp [Ring.put, Ring.maxSize, hlen, hoff]
  · intro k hk hkc
    simp only [List.length_append, List.length_singleton] at hk hkc
    simp only [Ring.put, hoff]
    by_cases hkl : k = hist.length
    · subst hkl
      rw [List.getElem?_set_self (by rw [hlen]; exact Nat.mod_lt _ hc)]
      simp
    · have hk' : k < hist.length := by omega
      rw [List.getElem?_set_ne (mod_ne_of_lt hk' (by omega)).symm, h.get k hk' (by omega),
        List.getElem?_append_left hk']


theorem RInv.get_ok {c : Nat} {r : Ring} {hist : List Nat} (h : RInv c r hist) (n : Nat)
    (hn : n < r.size) : ∃ x, hist[hist.length - c + n]? = some x ∧ r.get (n : Int) = .ok x := by
  have hsize := h.size
  have hk : hist.length - c + n < hist.length := by omega
  have hidx : (((r.offset : Int) - (r.size : Int) + (n : Int)) % (r.maxSize : Int)).toNat
      = (hist.length - c + n) % c := by
    have e : ((r.offset : Int) - (r.size : Int) + (n : Int))
        = ((hist.length - c + n : Nat) : Int) - (c : Int) * ((hist.length : Int) / (c : Int)) := by
      have h1 : ((hist.length % c : Nat) : Int) = (hist.length : Int) - (c : Int) * ((hist.length : Int) / (c : Int)) := by
        rw [Int.natCast_emod, Int.emod_def]
      rw [h.off, h1]
      generalize (c : Int) * ((hist.length : Int) / (c : Int)) = m
      omega
    rw [e, Ring.maxSize, h.len, Int.sub_mul_emod_self_left, ← Int.natCast_emod, Int.toNat_natCast]
  refine ⟨hist[hist.length - c + n], by simp, ?_⟩
  have hget := h.get (hist.length - c + n) hk (by omega)
  unfold Ring.get
  rw [if_neg (by omega)]
  simp only [hidx, hget]
  rw [List.getElem?_eq_getElem hk]


theorem filterMap_eq_map_of {α β : Type} {f : α → Option β} {g : α → β} {l : List α}
    (h : ∀ a ∈ l, f a = some (g a)) : l.filterMap f = l.map g := by
  induction l with
  | nil => rfl
  | cons a l ih =>
    rw [List.filterMap_cons, h a (by simp), List.map_cons, ih (fun b hb => h b (List.mem_cons_of_mem _ hb))]

theorem RInv.toList_eq {c : Nat} {r : Ring} {hist : List Nat} (h : RInv c r hist) :
    r.toList = hist.drop (hist.length - c) := by
  have hsize := h.size
  have h1 : r.toList = (List.range r.size).map (fun i => hist.getD (hist.length - c + i) 0) := by
    unfold Ring.toList
    apply filterMap_eq_map_of
    intro i hi
    obtain ⟨x, hx, hg⟩ := h.get_ok i (List.mem_range.1 hi)
    simp [hg, List.getD, hx]
  rw [h1]
  apply List.ext_getElem
  · simp; omega
  · intro i h1 h2
    simp only [List.length_map, List.length_range] at h1
    have : hist.length - c + i < hist.length := by omega
    simp [List.getD, this]


theorem runRing_inv {c : Nat} (hc : 0 < c) (evs : List (Option Nat)) (r : Ring) (hist : List Nat)
    (h : RInv c r hist) : RInv c (runRing r hist evs).1 (runRing r hist evs).2 := by
  induction evs generalizing r hist with
  | nil => exact h
  | cons e evs ih =>
    cases e with
    | none => exact ih _ _ h.clear
    | some x => exact ih _ _ (h.put hc x)

/-- after any sequence of put/clear the ring presents exactly the last `min(k, c)` items put since the last clear,
oldest first -/
theorem ring_spec (c : Nat) (hc : 0 < c) (evs : List (Option Nat)) :
    let r := runRing (Ring.new c) [] evs
    r.1.toList = r.2.drop (r.2.length - c) ∧ r.1.size = min r.2.length c ∧ r.1.maxSize = c := by
  have h := runRing_inv hc evs (Ring.new c) [] (RInv.new c)
  exact ⟨h.toList_eq, h.size, h.len⟩

/-- indexing agrees with the presented list and rejects every index outside `0 .. len-1` -/
theorem ring_get_spec (c : Nat) (hc : 0 < c) (evs : List (Option Nat)) (i : Int) :
    let r := (runRing (Ring.new c) [] evs).1
    (0 ≤ i ∧ i < r.size → ∃ x, r.get i = .ok x ∧ r.toList[i.toNat]? = some x) ∧
    (¬ (0 ≤ i ∧ i < r.size) → r.get i = .error .indexError) := by
  have h := runRing_inv hc evs (Ring.new c) [] (RInv.new c)
  intro r
  constructor
  · rintro ⟨h0, h1⟩
    obtain ⟨n, rfl⟩ := Int.eq_ofNat_of_zero_le h0
    have hn : n < r.size := by omega
    obtain ⟨x, hx, hg⟩ := h.get_ok n hn
    refine ⟨x, hg, ?_⟩
    show (runRing (Ring.new c) [] evs).1.toList[(n : Int).toNat]? = some x
    rw [h.toList_eq, Int.toNat_natCast, List.getElem?_drop]
    exact hx
  · intro hneg
    unfold Ring.get
    rw [if_pos (by omega)]

end WindVerif.Buffers
