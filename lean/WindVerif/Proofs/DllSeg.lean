import WindVerif.Spec.Dll
/-!
Segment lemmas for the doubly linked list model (frame / append / retarget), list lemmas for the reference
operations, and the traversal lemmas.
-/
namespace WindVerif.Dll

/-! ### `Seg` basics -/

@[simp] theorem seg_nil (d : Dll) (p q : Option Node) : Seg d p [] q ↔ True := by simp [Seg]

theorem seg_cons {d : Dll} {p q : Option Node} {x : Node} {xs : List Node} :
    Seg d p (x :: xs) q ↔ d.prev x = p ∧ d.next x = xs.head?.or q ∧ Seg d (some x) xs q := by
  cases xs <;> simp [Seg]

theorem seg_append {d : Dll} {l1 l2 : List Node} : ∀ {p q : Option Node},
    Seg d p (l1 ++ l2) q ↔ Seg d p l1 (l2.head?.or q) ∧ Seg d (l1.getLast?.or p) l2 q := by
  induction l1 with
  | nil => intro p q; simp
  | cons x xs ih =>
    intro p q
    rw [List.cons_append, seg_cons, seg_cons, ih, List.head?_append, Option.or_assoc, List.getLast?_cons]
    have : (xs.getLast?.or (some x)) = (some (xs.getLast?.getD x)).or p := by
      cases xs.getLast? <;> simp
    rw [this]
    simp [and_assoc]

theorem seg_head_prev {d : Dll} {p q : Option Node} {l : List Node} {x : Node}
    (h : Seg d p l q) (hx : l.head? = some x) : d.prev x = p := by
  cases l with
  | nil => simp at hx
  | cons y ys => simp at hx; subst hx; exact (seg_cons.1 h).1

theorem seg_last_next {d : Dll} {l : List Node} : ∀ {p q : Option Node} {x : Node},
    Seg d p l q → l.getLast? = some x → d.next x = q := by
  induction l with
  | nil => intro p q x _ hx; simp at hx
  | cons y ys ih =>
    intro p q x h hx
    rw [seg_cons] at h
    cases ys with
    | nil => simp at hx; subst hx; simpa using h.2.1
    | cons z zs =>
      rw [List.getLast?_cons_cons] at hx
      exact ih h.2.2 hx

/-- Frame + retargeting of both ends: if `d'` agrees with `d` on all inner links of `l` and has the required
outer links, a segment of `d` is a segment of `d'`. -/
theorem seg_ends {d d' : Dll} {l : List Node} : ∀ {p0 q0 p q : Option Node}, l.Nodup → Seg d p0 l q0 →
    (∀ x ∈ l, some x ≠ l.head? → d'.prev x = d.prev x) →
    (∀ x ∈ l, some x ≠ l.getLast? → d'.next x = d.next x) →
    (∀ x, l.head? = some x → d'.prev x = p) →
    (∀ x, l.getLast? = some x → d'.next x = q) → Seg d' p l q := by
  induction l with
  | nil => intros; simp
  | cons x xs ih =>
    intro p0 q0 p q hn h hprev hnext hp hq
    rw [seg_cons] at h ⊢
    rw [List.nodup_cons] at hn
    refine ⟨hp x (by simp), ?_, ?_⟩
    · cases xs with
      | nil => simpa using hq x (by simp)
      | cons y ys =>
        have : some x ≠ (x :: y :: ys).getLast? := by
          intro he
          have := List.mem_of_getLast? he.symm
          rw [List.getLast?_cons_cons] at he
          exact hn.1 (List.mem_of_getLast? he.symm)
        rw [hnext x (by simp) this, h.2.1]; simp
    · refine ih hn.2 h.2.2 ?_ ?_ ?_ ?_
      · intro y hy _
        exact hprev y (List.mem_cons_of_mem _ hy) (by simp; rintro rfl; exact hn.1 hy)
      · intro y hy hne
        refine hnext y (List.mem_cons_of_mem _ hy) ?_
        cases xs with
        | nil => simp at hy
        | cons z zs => rwa [List.getLast?_cons_cons]
      · intro y hy
        have hyx : y ∈ xs := List.mem_of_head? hy
        rw [hprev y (List.mem_cons_of_mem _ hyx) (by simp; rintro rfl; exact hn.1 hyx)]
        exact seg_head_prev h.2.2 hy
      · intro y hy
        refine hq y ?_
        cases xs with
        | nil => simp at hy
        | cons z zs => rwa [List.getLast?_cons_cons]

/-- Pure frame rule. -/
theorem seg_frame {d d' : Dll} {l : List Node} {p q : Option Node} (hn : l.Nodup) (h : Seg d p l q)
    (hprev : ∀ x ∈ l, d'.prev x = d.prev x) (hnext : ∀ x ∈ l, d'.next x = d.next x) : Seg d' p l q :=
  seg_ends hn h (fun x hx _ => hprev x hx) (fun x hx _ => hnext x hx)
    (fun x hx => by rw [hprev x (List.mem_of_head? hx)]; exact seg_head_prev h hx)
    (fun x hx => by rw [hnext x (List.mem_of_getLast? hx)]; exact seg_last_next h hx)

/-! ### traversals -/

theorem walkF_none (d : Dll) (k : Nat) : walkF d k none = [] := by cases k <;> rfl
theorem walkB_none (d : Dll) (k : Nat) : walkB d k none = [] := by cases k <;> rfl

theorem walkF_seg {d : Dll} {l : List Node} (k : Nat) : ∀ {p : Option Node}, Seg d p l none →
    walkF d (l.length + k) l.head? = l := by
  induction l with
  | nil => intro p _; simp [walkF_none]
  | cons x xs ih =>
    intro p h
    rw [seg_cons] at h
    have : (x :: xs).length + k = (xs.length + k) + 1 := by simp; omega
    rw [this]
    simp only [List.head?_cons, walkF]
    rw [h.2.1, Option.or_none, ih h.2.2]

theorem walkB_seg_rev {d : Dll} (k : Nat) (r : List Node) : ∀ {q : Option Node}, Seg d none r.reverse q →
    walkB d (r.length + k) r.head? = r := by
  induction r with
  | nil => intro q _; simp [walkB_none]
  | cons x xs ih =>
    intro q h
    rw [List.reverse_cons, seg_append, seg_cons] at h
    have : (x :: xs).length + k = (xs.length + k) + 1 := by simp; omega
    rw [this]
    simp only [List.head?_cons, walkB]
    rw [h.2.1, Option.or_none, List.getLast?_reverse, ih h.1]

theorem walkB_seg {d : Dll} {l : List Node} (k : Nat) {q : Option Node} (h : Seg d none l q) :
    walkB d (l.length + k) l.getLast? = l.reverse := by
  have := walkB_seg_rev (d := d) k l.reverse (q := q) (by simpa using h)
  simpa using this

/-! ### reference-list lemmas -/

theorem erase_split {l1 l2 : List Node} {n : Node} (h : n ∉ l1) : (l1 ++ n :: l2).erase n = l1 ++ l2 := by
  rw [List.erase_append_right _ h, List.erase_cons_head]

theorem insertAfter_split {l1 l2 : List Node} {n a : Node} (h : a ∉ l1) :
    insertAfter n a (l1 ++ a :: l2) = l1 ++ a :: n :: l2 := by
  induction l1 with
  | nil => simp [insertAfter]
  | cons x xs ih =>
    have hx : x ≠ a := by intro he; exact h (by simp [he])
    have hxs : a ∉ xs := by intro he; exact h (by simp [he])
    simp [insertAfter, hx, ih hxs]

/-- everything one knows about a consistent list split around a member -/
structure Split (d : Dll) (l1 : List Node) (n : Node) (l2 : List Node) : Prop where
  nd1 : l1.Nodup
  nd2 : l2.Nodup
  n1 : n ∉ l1
  n2 : n ∉ l2
  disj : ∀ x ∈ l1, x ∉ l2
  seg1 : Seg d none l1 (some n)
  seg2 : Seg d (some n) l2 none
  prev : d.prev n = l1.getLast?
  next : d.next n = l2.head?
  head : d.head = l1.head?.or (some n)
  tail : d.tail = l2.getLast?.or (some n)
  size : d.size = (l1.length : Int) + 1 + l2.length
  fresh1 : ∀ x ∈ l1, x < d.fresh
  freshn : n < d.fresh
  fresh2 : ∀ x ∈ l2, x < d.fresh

theorem Rep.split {d : Dll} {l1 l2 : List Node} {n : Node} (h : Rep d (l1 ++ n :: l2)) : Split d l1 n l2 := by
  have hn := h.nodup
  have hs := h.seg
  rw [seg_append, seg_cons] at hs
  simp only [List.nodup_append, List.nodup_cons, List.mem_cons] at hn
  refine ⟨hn.1, hn.2.1.2, ?_, hn.2.1.1, ?_, by simpa using hs.1, hs.2.2.2, by simpa using hs.2.1,
    by simpa using hs.2.2.1, ?_, ?_, ?_, ?_, ?_, ?_⟩
  · intro hx; exact hn.2.2 n hx n (Or.inl rfl) rfl
  · intro x hx hx2; exact hn.2.2 x hx x (Or.inr hx2) rfl
  · rw [h.head, List.head?_append]; simp
  · rw [h.tail, List.getLast?_append, List.getLast?_cons]; cases l2.getLast? <;> simp
  · rw [h.size]; simp; omega
  · intro x hx; exact h.fresh x (by simp [hx])
  · exact h.fresh n (by simp)
  · intro x hx; exact h.fresh x (by simp [hx])

theorem Rep.exists_split {d : Dll} {l : List Node} {n : Node} (h : Rep d l) (hn : n ∈ l) :
    ∃ l1 l2, l = l1 ++ n :: l2 ∧ Split d l1 n l2 := by
  obtain ⟨l1, l2, rfl⟩ := List.append_of_mem hn
  exact ⟨l1, l2, rfl, h.split⟩

end WindVerif.Dll
