import WindVerif.Spec.Pool
import WindVerif.Proofs.PoolMidAux
/-! Worker lifecycle in the pool model (C04): per-worker invariant and the summary of a worker step. -/
namespace WindVerif.Pool

/-! ### basics about `getWorker` / `setWorker` -/

theorem getWorker_some {s : St} {wid : Nat} {w : Worker} (h : getWorker s wid = some w) : w ∈ s.workers ∧ w.wid = wid := by
  unfold getWorker at h
  exact ⟨List.mem_of_find?_eq_some h, by simpa using List.find?_some h⟩

theorem wid_inj {l : List Worker} (h : (l.map (·.wid)).Nodup) {a b : Worker} (ha : a ∈ l) (hb : b ∈ l)
    (e : a.wid = b.wid) : a = b := by
  induction l with
  | nil => cases ha
  | cons x r ih =>
    simp only [List.map_cons, List.nodup_cons, List.mem_map, not_exists, not_and] at h
    rcases List.mem_cons.1 ha with rfl | ha' <;> rcases List.mem_cons.1 hb with rfl | hb'
    · rfl
    · exact absurd e.symm (h.1 b hb')
    · exact absurd e (h.1 a ha')
    · exact ih h.2 ha' hb'

/-- the worker list after one worker (all entries with its wid) has been replaced -/
def upd (k : Nat) (w' : Worker) (l : List Worker) : List Worker := l.map (fun x => if x.wid = k then w' else x)

theorem setWorker_workers (s : St) (w : Worker) : (setWorker s w).workers = upd w.wid w s.workers := rfl

theorem mem_upd {k : Nat} {w' x' : Worker} {l : List Worker} :
    x' ∈ upd k w' l ↔ (x' = w' ∧ ∃ x ∈ l, x.wid = k) ∨ (x' ∈ l ∧ x'.wid ≠ k) := by
  unfold upd
  simp only [List.mem_map]
  constructor
  · rintro ⟨x, hx, rfl⟩
    by_cases h : x.wid = k
    · rw [if_pos h]; exact Or.inl ⟨rfl, x, hx, h⟩
    · rw [if_neg h]; exact Or.inr ⟨hx, h⟩
  · rintro (⟨rfl, x, hx, h⟩ | ⟨hx, h⟩)
    · exact ⟨x, hx, by simp [h]⟩
    · exact ⟨x', hx, by simp [h]⟩

theorem upd_wids {k : Nat} {w' : Worker} (l : List Worker) (h : w'.wid = k) : (upd k w' l).map (·.wid) = l.map (·.wid) := by
  unfold upd
  rw [List.map_map]
  apply List.map_congr_left
  intro x _
  by_cases hx : x.wid = k <;> simp [hx, h]

/-! ### the per-worker invariant -/

theorem gone_of_exited {p : WPc} (h : p = .exited) : gone p = true := by subst h; rfl
theorem not_exited_of_not_gone {p : WPc} (h : gone p = false) : p ≠ .exited := by
  intro e; subst e; cases h

structure WInv (cfg : Cfg) (w : Worker) : Prop where
  shape : match w.pc with
    | .notStarted | .bfClear => w.log = []
    | .exited => ∃ items, (∀ e ∈ items, isItem e = true) ∧ w.log = .begin :: items ++ [.end_]
    | _ => ∃ items, (∀ e ∈ items, isItem e = true) ∧ w.log = .begin :: items
  cnt : match w.pc with
    | .notStarted | .bfClear | .bfSet => w.done = 0 ∧ itemCount w = 0
    | .get => itemCount w = w.done
    | .lockAcq | .putNowait | .lockRel | .putBlock => itemCount w = w.done + 1
    | _ => True
  quota : w.quota = cfg.quota.map (· - w.done)
  bound : ∀ q, cfg.quota = some q → itemCount w ≤ q ∧
    (match w.pc with | .get | .lockAcq | .putNowait | .lockRel | .putBlock => w.done < q | _ => True)
  bfLog : w.bf = true → WEv.begin ∈ w.log
  bfPre : (w.pc = .notStarted ∨ w.pc = .bfClear) → w.bf = false

theorem WInv.lifeOk {cfg : Cfg} {w : Worker} (h : WInv cfg w) : LifeOk cfg w := by
  refine ⟨?_, fun q hq => (h.bound q hq).1⟩
  have := h.shape
  cases hpc : w.pc <;> simp only [hpc] at this ⊢ <;> exact this

theorem WInv_mk (cfg : Cfg) (wid : Nat) : WInv cfg (mkWorker cfg wid) := by
  constructor <;> simp [mkWorker, itemCount]

/-! ### the per-worker invariant along the worker's transitions -/

theorem itemCount_item (l : List WEv) (i : Nat) : ((l ++ [WEv.item i]).filter isItem).length = (l.filter isItem).length + 1 := by
  have : isItem (WEv.item i) = true := rfl
  simp [List.filter_append, this]

theorem itemCount_end (l : List WEv) : ((l ++ [WEv.end_]).filter isItem).length = (l.filter isItem).length := by
  have : isItem WEv.end_ = false := rfl
  simp [List.filter_append, this]

theorem WInv_begin_crash {cfg : Cfg} {w : Worker} (h : WInv cfg w) (hpc : w.pc = .bfClear) :
    WInv cfg (workerEnding { w with bf := false, log := w.log ++ [.begin] } true) := by
  obtain ⟨h1, h2, h3, h4, h5, h6⟩ := h
  simp only [hpc] at h1 h2
  refine ⟨?_, ?_, ?_, ?_, ?_, ?_⟩ <;> dsimp only [workerEnding]
  · exact ⟨[], by simp, by simp [h1]⟩
  · exact h3
  · intro q hq; refine ⟨?_, trivial⟩; simp [itemCount, h1, isItem]
  · simp
  · simp

theorem WInv_begin_ok {cfg : Cfg} {w : Worker} (h : WInv cfg w) (hpc : w.pc = .bfClear) :
    WInv cfg { w with bf := false, log := w.log ++ [.begin], pc := .bfSet } := by
  obtain ⟨h1, h2, h3, h4, h5, h6⟩ := h
  simp only [hpc] at h1 h2
  refine ⟨?_, ?_, ?_, ?_, ?_, ?_⟩ <;> dsimp only
  · exact ⟨[], by simp, by simp [h1]⟩
  · exact ⟨h2.1, by simp [itemCount, h1, isItem]⟩
  · exact h3
  · intro q hq; refine ⟨?_, trivial⟩; simp [itemCount, h1, isItem]
  · simp
  · simp

/-- the `.ending` step: `end()` is logged, the process exits -/
theorem WInv_get_none {cfg : Cfg} {w : Worker} (c : Bool) (h : WInv cfg w) (hpc : w.pc = .ending) :
    WInv cfg (workerExit w c) := by
  obtain ⟨h1, h2, h3, h4, h5, h6⟩ := h
  have e1 : ∃ items, (∀ e ∈ items, isItem e = true) ∧ w.log = .begin :: items := by
    simp only [hpc] at h1; exact h1
  obtain ⟨items, hi, hl⟩ := e1
  refine ⟨?_, ?_, ?_, ?_, ?_, ?_⟩ <;> dsimp only [workerExit]
  · exact ⟨items, hi, by rw [hl]⟩
  · exact h3
  · intro q hq; refine ⟨?_, trivial⟩
    have := (h4 q hq).1
    unfold itemCount at *; dsimp only; rw [itemCount_end]; exact this
  · intro _; simp [hl]
  · simp

/-- the stop order has been taken / the wid has been posted: `end()` is still to run -/
theorem WInv_retire_ending {cfg : Cfg} {w : Worker} (h : WInv cfg w) (hpc : w.pc = .get ∨ w.pc = .retire) :
    WInv cfg (workerEnding w false) := by
  obtain ⟨h1, h2, h3, h4, h5, h6⟩ := h
  have e1 : ∃ items, (∀ e ∈ items, isItem e = true) ∧ w.log = .begin :: items := by
    rcases hpc with hpc | hpc <;> simp only [hpc] at h1 <;> exact h1
  refine ⟨?_, ?_, ?_, ?_, ?_, ?_⟩ <;> dsimp only [workerEnding]
  · exact e1
  · exact h3
  · intro q hq; exact ⟨(h4 q hq).1, trivial⟩
  · exact h5
  · intro hh; rcases hh with hh | hh <;> cases hh

theorem WInv_item_crash {cfg : Cfg} {w : Worker} (i : Nat) (h : WInv cfg w) (hpc : w.pc = .get) :
    WInv cfg (workerEnding { w with log := w.log ++ [.item i] } true) := by
  obtain ⟨h1, h2, h3, h4, h5, h6⟩ := h
  simp only [hpc] at h1 h2
  obtain ⟨items, hi, hl⟩ := h1
  refine ⟨?_, ?_, ?_, ?_, ?_, ?_⟩ <;> dsimp only [workerEnding]
  · refine ⟨items ++ [.item i], ?_, by rw [hl]; simp⟩
    intro e he; rcases List.mem_append.1 he with he | he
    · exact hi e he
    · simp at he; subst he; rfl
  · exact h3
  · intro q hq; refine ⟨?_, trivial⟩
    have := h4 q hq; simp only [hpc] at this
    unfold itemCount at *; dsimp only; rw [itemCount_item]; omega
  · intro _; simp [hl]
  · simp

theorem WInv_item_ok {cfg : Cfg} {w : Worker} (i : Nat) (h : WInv cfg w) (hpc : w.pc = .get) :
    WInv cfg { w with log := w.log ++ [.item i], held := some i, pc := .lockAcq } := by
  obtain ⟨h1, h2, h3, h4, h5, h6⟩ := h
  simp only [hpc] at h1 h2
  obtain ⟨items, hi, hl⟩ := h1
  refine ⟨?_, ?_, ?_, ?_, ?_, ?_⟩ <;> dsimp only
  · refine ⟨items ++ [.item i], ?_, by rw [hl]; simp⟩
    intro e he; rcases List.mem_append.1 he with he | he
    · exact hi e he
    · simp at he; subst he; rfl
  · unfold itemCount at *; dsimp only; rw [itemCount_item]; omega
  · exact h3
  · intro q hq
    have := h4 q hq; simp only [hpc] at this
    unfold itemCount at *; dsimp only; rw [itemCount_item]; omega
  · intro hb; have := h5 hb; simp [this]
  · simp

def midPc : WPc → Bool
  | .lockAcq | .putNowait | .lockRel | .putBlock => true
  | _ => false

theorem WInv_mid {cfg : Cfg} {w w' : Worker} (h : WInv cfg w) (hm : midPc w.pc = true) (hm' : midPc w'.pc = true)
    (hl : w'.log = w.log) (hd : w'.done = w.done) (hq : w'.quota = w.quota) (hb : w'.bf = w.bf) : WInv cfg w' := by
  have hic : itemCount w' = itemCount w := by unfold itemCount; rw [hl]
  obtain ⟨h1, h2, h3, h4, h5, h6⟩ := h
  have e1 : ∃ items, (∀ e ∈ items, isItem e = true) ∧ w.log = .begin :: items := by
    cases hpc : w.pc <;> simp only [hpc, midPc] at hm h1 <;> first | exact h1 | cases hm
  have e2 : itemCount w = w.done + 1 := by
    cases hpc : w.pc <;> simp only [hpc, midPc] at hm h2 <;> first | exact h2 | cases hm
  have e4 : ∀ q, cfg.quota = some q → itemCount w ≤ q ∧ w.done < q := by
    intro q hq'; have := h4 q hq'
    cases hpc : w.pc <;> simp only [hpc, midPc] at hm this <;> first | exact this | cases hm
  refine ⟨?_, ?_, ?_, ?_, ?_, ?_⟩
  · cases hpc : w'.pc <;> simp only [hpc, midPc] at hm' ⊢ <;> first | (rw [hl]; exact e1) | cases hm'
  · cases hpc : w'.pc <;> simp only [hpc, midPc] at hm' ⊢ <;> first | (rw [hic, hd]; exact e2) | cases hm'
  · rw [hq, hd]; exact h3
  · intro q hq'
    cases hpc : w'.pc <;> simp only [hpc, midPc] at hm' ⊢ <;> first | (rw [hic, hd]; exact e4 q hq') | cases hm'
  · rw [hb, hl]; exact h5
  · intro hh; rcases hh with hh | hh <;> rw [hh] at hm' <;> cases hm'

theorem WInv_loopTop {cfg : Cfg} (f : Bool) (w : Worker)
    (hs : ∃ items, (∀ e ∈ items, isItem e = true) ∧ w.log = .begin :: items)
    (hq : w.quota = cfg.quota.map (· - w.done)) (hc : itemCount w = w.done)
    (hb : ∀ q, cfg.quota = some q → w.done ≤ q) : WInv cfg (workerLoopTop f w) := by
  obtain ⟨items, hi, hl⟩ := hs
  unfold workerLoopTop
  split
  · rename_i h0
    split
    · refine ⟨?_, ?_, ?_, ?_, ?_, ?_⟩ <;> dsimp only
      · exact ⟨items, hi, hl⟩
      · exact hq
      · intro q hq'; have := hb q hq'; exact ⟨by unfold itemCount at *; dsimp only; omega, trivial⟩
      · intro _; simp [hl]
      · simp
    · refine ⟨?_, ?_, ?_, ?_, ?_, ?_⟩ <;> dsimp only [workerEnding]
      · exact ⟨items, hi, hl⟩
      · exact hq
      · intro q hq'; have := hb q hq'
        refine ⟨?_, trivial⟩
        unfold itemCount at *; dsimp only
        omega
      · intro _; simp [hl]
      · simp
  · rename_i h0
    refine ⟨?_, ?_, ?_, ?_, ?_, ?_⟩ <;> dsimp only
    · exact ⟨items, hi, hl⟩
    · exact hc
    · exact hq
    · intro q hq'; have := hb q hq'
      refine ⟨by unfold itemCount at *; dsimp only; omega, ?_⟩
      rcases Nat.lt_or_ge w.done q with h | h
      · exact h
      · exfalso; apply h0; rw [hq, hq']; simp; omega
    · intro _; simp [hl]
    · simp

/-! ### summary of a worker step -/

theorem workerLoopTop_facts (f : Bool) (w : Worker) :
    (workerLoopTop f w).wid = w.wid ∧ (workerLoopTop f w).bf = w.bf ∧ (workerLoopTop f w).pc ≠ .notStarted := by
  unfold workerLoopTop workerEnding
  split
  · split <;> simp
  · simp

/-- what a worker step leaves alone -/
structure WFrame (s s' : St) (w w' : Worker) : Prop where
  workers : s'.workers = upd w.wid w' s.workers
  cfg : s'.cfg = s.cfg
  cpc : s'.cpc = s.cpc
  procs : s'.procs = s.procs
  rpc : s'.rpc = s.rpc
  rAlive : s'.rAlive = s.rAlive
  widCounter : s'.widCounter = s.widCounter
  replQ : s'.replQ = s.replQ ∨ (s'.replQ = s.replQ ++ [some w.wid] ∧ gone w'.pc = true ∧ gone w.pc = false)
  /-- a worker that has left its loop stays so (the only step it has left is `end()`) -/
  gone : gone w.pc = true → gone w'.pc = true

theorem WFrame_set {s s0 : St} {w w' : Worker} (hwid : w'.wid = w.wid) (h1 : s0.workers = s.workers) (h2 : s0.cfg = s.cfg)
    (h3 : s0.cpc = s.cpc) (h4 : s0.procs = s.procs) (h5 : s0.rpc = s.rpc) (h6 : s0.rAlive = s.rAlive)
    (h7 : s0.widCounter = s.widCounter)
    (h8 : s0.replQ = s.replQ ∨ (s0.replQ = s.replQ ++ [some w.wid] ∧ gone w'.pc = true ∧ gone w.pc = false))
    (h9 : gone w.pc = true → gone w'.pc = true) :
    WFrame s (setWorker s0 w') w w' :=
  ⟨by rw [setWorker_workers, hwid, h1], h2, h3, h4, h5, h6, h7, h8, h9⟩

theorem summary_mk {s s0 : St} {wid : Nat} {w w' : Worker} (hg : getWorker s wid = some w) (hn1 : w.pc ≠ .notStarted)
    (hn2 : w.pc ≠ .exited) (hwid : w'.wid = w.wid) (hn3 : w'.pc ≠ .notStarted)
    (hinv : WInv s.cfg w → WInv s.cfg w' ∧ (w.bf = true → w'.bf = true))
    (h1 : s0.workers = s.workers) (h2 : s0.cfg = s.cfg)
    (h3 : s0.cpc = s.cpc) (h4 : s0.procs = s.procs) (h5 : s0.rpc = s.rpc) (h6 : s0.rAlive = s.rAlive)
    (h7 : s0.widCounter = s.widCounter)
    (h8 : s0.replQ = s.replQ ∨ (s0.replQ = s.replQ ++ [some w.wid] ∧ gone w'.pc = true ∧ gone w.pc = false))
    (h9 : gone w.pc = true → gone w'.pc = true) :
    ∃ v v', getWorker s wid = some v ∧ v.pc ≠ .notStarted ∧ v.pc ≠ .exited ∧ v'.wid = v.wid ∧ v'.pc ≠ .notStarted ∧
      (WInv s.cfg v → WInv s.cfg v' ∧ (v.bf = true → v'.bf = true)) ∧ WFrame s (setWorker s0 w') v v' :=
  ⟨w, w', hg, hn1, hn2, hwid, hn3, hinv, WFrame_set hwid h1 h2 h3 h4 h5 h6 h7 h8 h9⟩

theorem stepW_summary {s s' : St} {wid : Nat} (h : stepW s wid = some s') :
    ∃ w w', getWorker s wid = some w ∧ w.pc ≠ .notStarted ∧ w.pc ≠ .exited ∧ w'.wid = w.wid ∧ w'.pc ≠ .notStarted ∧
      (WInv s.cfg w → WInv s.cfg w' ∧ (w.bf = true → w'.bf = true)) ∧ WFrame s s' w w' := by
  have : ∃ w, getWorker s wid = some w := by
    cases hg : getWorker s wid with
    | none => simp [stepW, hg] at h
    | some w => exact ⟨w, rfl⟩
  obtain ⟨w, hg⟩ := this
  simp only [stepW, hg] at h
  ·
    have hwid := (getWorker_some hg).2
    cases hpc : w.pc <;> simp only [hpc] at h
    · cases h
    · -- bfClear
      split at h <;> simp only [Option.some.injEq] at h <;> subst h
      · refine summary_mk hg (by simp [hpc]) (by simp [hpc]) rfl (by simp [workerEnding]) ?_ rfl rfl rfl rfl rfl rfl rfl (Or.inl rfl) (by simp [hpc, gone])
        intro hw; refine ⟨WInv_begin_crash hw hpc, ?_⟩
        intro hb; rw [hw.bfPre (Or.inr hpc)] at hb; cases hb
      · refine summary_mk hg (by simp [hpc]) (by simp [hpc]) rfl (by simp) ?_ rfl rfl rfl rfl rfl rfl rfl (Or.inl rfl) (by simp [hpc, gone])
        intro hw; refine ⟨WInv_begin_ok hw hpc, ?_⟩
        intro hb; rw [hw.bfPre (Or.inr hpc)] at hb; cases hb
    · -- bfSet
      simp only [Option.some.injEq] at h; subst h
      refine summary_mk hg (by simp [hpc]) (by simp [hpc]) (workerLoopTop_facts _ _).1
            (workerLoopTop_facts _ _).2.2 ?_ rfl rfl rfl rfl rfl rfl rfl (Or.inl rfl) (by simp [hpc, gone])
      intro hw
      refine ⟨?_, fun _ => by rw [(workerLoopTop_facts _ _).2.1]⟩
      obtain ⟨h1, h2, h3, h4, h5, h6⟩ := hw
      simp only [hpc] at h1 h2
      apply WInv_loopTop
      · exact h1
      · exact h3
      · show itemCount w = w.done
        omega
      · intro q hq; show w.done ≤ q; omega
    · -- get
      split at h
      · cases h
      · simp only [Option.some.injEq] at h; subst h
        refine summary_mk hg (by simp [hpc]) (by simp [hpc]) rfl (by simp [workerEnding]) ?_ rfl rfl rfl rfl rfl rfl rfl (Or.inl rfl) (by simp [hpc, gone])
        intro hw; exact ⟨WInv_retire_ending hw (Or.inl hpc), fun hb => hb⟩
      · rename_i i r _
        split at h <;> simp only [Option.some.injEq] at h <;> subst h
        · refine summary_mk hg (by simp [hpc]) (by simp [hpc]) rfl (by simp [workerEnding]) ?_ rfl rfl rfl rfl rfl rfl rfl (Or.inl rfl) (by simp [hpc, gone])
          intro hw; exact ⟨WInv_item_crash i hw hpc, fun hb => hb⟩
        · refine summary_mk hg (by simp [hpc]) (by simp [hpc]) rfl (by simp) ?_ rfl rfl rfl rfl rfl rfl rfl (Or.inl rfl) (by simp [hpc, gone])
          intro hw; exact ⟨WInv_item_ok i hw hpc, fun hb => hb⟩
    · -- lockAcq
      split at h
      · simp only [Option.some.injEq] at h; subst h
        refine summary_mk hg (by simp [hpc]) (by simp [hpc]) rfl (by simp) ?_ rfl rfl rfl rfl rfl rfl rfl (Or.inl rfl) (by simp [hpc, gone])
        intro hw; exact ⟨WInv_mid hw (by rw [hpc]; rfl) rfl rfl rfl rfl rfl, fun hb => hb⟩
      · cases h
    · -- putNowait
      split at h
      · cases h
      · split at h <;> simp only [Option.some.injEq] at h <;> subst h
        · refine summary_mk hg (by simp [hpc]) (by simp [hpc]) rfl (by simp) ?_ rfl rfl rfl rfl rfl rfl rfl (Or.inl rfl) (by simp [hpc, gone])
          intro hw; exact ⟨WInv_mid hw (by rw [hpc]; rfl) rfl rfl rfl rfl rfl, fun hb => hb⟩
        · refine summary_mk hg (by simp [hpc]) (by simp [hpc]) rfl (by simp) ?_ rfl rfl rfl rfl rfl rfl rfl (Or.inl rfl) (by simp [hpc, gone])
          intro hw; exact ⟨WInv_mid hw (by rw [hpc]; rfl) rfl rfl rfl rfl rfl, fun hb => hb⟩
    · -- lockRel
      split at h <;> simp only [Option.some.injEq] at h <;> subst h
      · refine summary_mk hg (by simp [hpc]) (by simp [hpc]) rfl (by simp) ?_ rfl rfl rfl rfl rfl rfl rfl (Or.inl rfl) (by simp [hpc, gone])
        intro hw; exact ⟨WInv_mid hw (by rw [hpc]; rfl) rfl rfl rfl rfl rfl, fun hb => hb⟩
      · refine summary_mk hg (by simp [hpc]) (by simp [hpc]) (workerLoopTop_facts _ _).1
            (workerLoopTop_facts _ _).2.2 ?_ rfl rfl rfl rfl rfl rfl rfl (Or.inl rfl) (by simp [hpc, gone])
        intro hw
        refine ⟨?_, fun hb => by rw [(workerLoopTop_facts _ _).2.1]; exact hb⟩
        obtain ⟨h1, h2, h3, h4, h5, h6⟩ := hw
        simp only [hpc] at h1 h2 h4
        apply WInv_loopTop
        · exact h1
        · show w.quota.map (· - 1) = s.cfg.quota.map (· - (w.done + 1))
          rw [h3]; cases s.cfg.quota <;> simp; omega
        · exact h2
        · intro q hq; have := h4 q hq; show w.done + 1 ≤ q; omega
    · -- putBlock
      split at h
      · cases h
      · split at h
        · cases h
        · simp only [Option.some.injEq] at h; subst h
          refine summary_mk hg (by simp [hpc]) (by simp [hpc]) (workerLoopTop_facts _ _).1
            (workerLoopTop_facts _ _).2.2 ?_ rfl rfl rfl rfl rfl rfl rfl (Or.inl rfl) (by simp [hpc, gone])
          intro hw
          refine ⟨?_, fun hb => by rw [(workerLoopTop_facts _ _).2.1]; exact hb⟩
          obtain ⟨h1, h2, h3, h4, h5, h6⟩ := hw
          simp only [hpc] at h1 h2 h4
          apply WInv_loopTop
          · exact h1
          · show w.quota.map (· - 1) = s.cfg.quota.map (· - (w.done + 1))
            rw [h3]; cases s.cfg.quota <;> simp; omega
          · exact h2
          · intro q hq; have := h4 q hq; show w.done + 1 ≤ q; omega
    · -- retire
      simp only [Option.some.injEq] at h; subst h
      refine summary_mk hg (by simp [hpc]) (by simp [hpc]) rfl (by simp [workerEnding]) ?_ rfl rfl rfl rfl rfl rfl rfl
        (Or.inr ⟨by rw [hwid], rfl, by simp [hpc, gone]⟩) (by simp [hpc, gone])
      intro hw; exact ⟨WInv_retire_ending hw (Or.inr hpc), fun hb => hb⟩
    · -- ending
      simp only [Option.some.injEq] at h; subst h
      refine summary_mk hg (by simp [hpc]) (by simp [hpc]) rfl (by simp [workerExit]) ?_ rfl rfl rfl rfl rfl rfl rfl
        (Or.inl rfl) (fun _ => rfl)
      intro hw; exact ⟨WInv_get_none _ hw hpc, fun hb => hb⟩
    · cases h

end WindVerif.Pool
