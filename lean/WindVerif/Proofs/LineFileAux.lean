import WindVerif.Model.LineFile
/-! Auxiliary lemmas for `Proofs/LineFile.lean` that only concern the model's pure functions
(`takeLine`, `rstripNL`, `byteLen`, `dropBytes`, `indexGo`, `Py.index`, `Py.sliceIndices`). -/
namespace WindVerif.LineFile
open WindVerif

theorem decomp (s : Str) : (∃ body rest, s = body ++ '\n' :: rest ∧ '\n' ∉ body) ∨ '\n' ∉ s := by
  induction s with
  | nil => right; simp
  | cons c r ih =>
    by_cases hc : c = '\n'
    · left; exact ⟨[], r, by simp [hc], by simp⟩
    · rcases ih with ⟨body, rest, h1, h2⟩ | h
      · left
        refine ⟨c :: body, rest, by simp [h1], ?_⟩
        intro hm
        rcases List.mem_cons.mp hm with h | h
        · exact hc h.symm
        · exact h2 h
      · right
        intro hm
        rcases List.mem_cons.mp hm with h' | h'
        · exact hc h'.symm
        · exact h h'

theorem takeLine_append {body : Str} (hb : '\n' ∉ body) (rest : Str) :
    takeLine (body ++ '\n' :: rest) = body ++ ['\n'] := by
  induction body with
  | nil => simp [takeLine]
  | cons c b ih =>
    have hc : c ≠ '\n' := fun h => hb (by simp [h])
    have hb' : '\n' ∉ b := fun h => hb (by simp [h])
    rw [List.cons_append, takeLine, if_neg hc, ih hb']; rfl

theorem takeLine_nonl {s : Str} (hs : '\n' ∉ s) : takeLine s = s := by
  induction s with
  | nil => rfl
  | cons c b ih =>
    have hc : c ≠ '\n' := fun h => hs (by simp [h])
    have hb' : '\n' ∉ b := fun h => hs (by simp [h])
    rw [takeLine, if_neg hc, ih hb']

theorem rstripNL_nonl {s : Str} (hs : '\n' ∉ s) : rstripNL s = s := by
  unfold rstripNL
  cases hr : s.reverse with
  | nil =>
    have : s = [] := by simpa using hr
    subst this; rfl
  | cons x t =>
    have hx : x ∈ s := by
      have : x ∈ s.reverse := by rw [hr]; simp
      simpa using this
    have hne : x ≠ '\n' := fun h => hs (h ▸ hx)
    rw [List.dropWhile_cons]
    simp only [hne, decide_false]
    rw [← hr]; simp

theorem rstripNL_append {body : Str} (hb : '\n' ∉ body) : rstripNL (body ++ ['\n']) = body := by
  have := rstripNL_nonl hb
  unfold rstripNL at *
  simpa [List.dropWhile_cons] using this

theorem takeLine_append_drop (s : Str) : takeLine s ++ s.drop (takeLine s).length = s := by
  induction s with
  | nil => rfl
  | cons c r ih =>
    unfold takeLine
    split
    · simp
    · simpa using ih

theorem takeLine_length_pos (c : Char) (r : Str) : 0 < (takeLine (c :: r)).length := by
  unfold takeLine; split <;> simp

theorem byteLen_append (a b : Str) : byteLen (a ++ b) = byteLen a + byteLen b := by
  simp [byteLen]

theorem dropBytes_zero (s : Str) : dropBytes s 0 = some s := by
  cases s <;> rfl

theorem dropBytes_append (pre s : Str) : dropBytes (pre ++ s) (byteLen pre) = some s := by
  induction pre with
  | nil => simp [byteLen, dropBytes_zero]
  | cons c p ih =>
    have hpos : 0 < c.utf8Size := Char.utf8Size_pos c
    have hb : byteLen (c :: p) = c.utf8Size + byteLen p := by simp [byteLen]
    obtain ⟨k, hk⟩ : ∃ k, byteLen (c :: p) = k + 1 := ⟨byteLen (c :: p) - 1, by omega⟩
    rw [hk, List.cons_append, dropBytes]
    have : c.utf8Size ≤ k + 1 := by omega
    rw [if_pos this]
    have : k + 1 - c.utf8Size = byteLen p := by omega
    rw [this, ih]

theorem indexGo_nil (off : Nat) : indexGo off [] = [] := by
  rw [indexGo]

theorem indexGo_cons (off : Nat) (c : Char) (r : Str) :
    indexGo off (c :: r) = off :: indexGo (off + byteLen (takeLine (c :: r))) ((c :: r).drop (takeLine (c :: r)).length) := by
  rw [indexGo]

theorem enumFrom_mem {a step : Int} {k : Nat} {x : Int} (h : x ∈ Py.enumFrom a step k) :
    ∃ m : Nat, m < k ∧ x = a + step * m := by
  induction k generalizing a with
  | zero => simp [Py.enumFrom] at h
  | succ n ih =>
    simp only [Py.enumFrom, List.mem_cons] at h
    rcases h with h | h
    · exact ⟨0, by omega, by simp [h]⟩
    · obtain ⟨m, hm, hx⟩ := ih h
      refine ⟨m + 1, by omega, ?_⟩
      rw [hx]; push_cast; rw [Int.mul_add]; omega

theorem clampBound_bounds (len : Nat) (lower upper v : Int) (h : lower ≤ upper) :
    lower ≤ Py.clampBound len lower upper v ∧ Py.clampBound len lower upper v ≤ upper := by
  unfold Py.clampBound
  simp only
  split <;> split <;> omega

theorem pos_slice_aux (len : Nat) (start stop step : Int) (h0 : 0 ≤ start) (h1 : stop ≤ len) (hs : 0 < step)
    (p : Nat) (hp : p ∈ (Py.enumFrom start step
      (if start < stop then ((stop - start + step - 1) / step).toNat else 0)).map Int.toNat) : p < len := by
  simp only [List.mem_map] at hp
  obtain ⟨x, hx, hxp⟩ := hp
  obtain ⟨m, hm, hxm⟩ := enumFrom_mem hx
  split at hm
  · have h2 : ((m : Int) + 1) ≤ (stop - start + step - 1) / step := by omega
    rw [Int.le_ediv_iff_mul_le hs, Int.add_mul] at h2
    have h3 : 0 ≤ (m : Int) * step := Int.mul_nonneg (by omega) (by omega)
    rw [Int.mul_comm] at hxm
    generalize (m : Int) * step = t at *
    omega
  · omega

theorem neg_slice_aux (len : Nat) (start stop step : Int) (h0 : -1 ≤ stop) (h1 : start ≤ (len : Int) - 1)
    (hs : step < 0)
    (p : Nat) (hp : p ∈ (Py.enumFrom start step
      (if stop < start then ((start - stop + (-step) - 1) / (-step)).toNat else 0)).map Int.toNat) : p < len := by
  simp only [List.mem_map] at hp
  obtain ⟨x, hx, hxp⟩ := hp
  obtain ⟨m, hm, hxm⟩ := enumFrom_mem hx
  split at hm
  · have h2 : ((m : Int) + 1) ≤ (start - stop + (-step) - 1) / (-step) := by omega
    rw [Int.le_ediv_iff_mul_le (by omega), Int.add_mul] at h2
    have h3 : 0 ≤ (m : Int) * (-step) := Int.mul_nonneg (by omega) (by omega)
    rw [Int.mul_comm] at hxm
    rw [Int.mul_neg] at h2 h3
    generalize (m : Int) * step = t at *
    omega
  · omega

theorem sliceIndices_lt_aux (len : Nat) (s : Py.Slice) (idx : List Nat) (h : Py.sliceIndices len s = some idx) :
    ∀ p ∈ idx, p < len := by
  intro p hp
  unfold Py.sliceIndices at h
  simp only at h
  split at h
  · simp at h
  · split at h
    · next hs =>
      simp only [Option.some.injEq] at h
      subst h
      refine pos_slice_aux len _ _ _ ?_ ?_ hs p hp
      · split
        · exact (clampBound_bounds len 0 len _ (by omega)).1
        · omega
      · split
        · exact (clampBound_bounds len 0 len _ (by omega)).2
        · omega
    · next hs0 hs =>
      simp only [Option.some.injEq] at h
      subst h
      refine neg_slice_aux len _ _ _ ?_ ?_ (by omega) p hp
      · split
        · exact (clampBound_bounds len (-1) (len - 1) _ (by omega)).1
        · omega
      · split
        · exact (clampBound_bounds len (-1) (len - 1) _ (by omega)).2
        · omega

theorem index_lt {len : Nat} {i : Int} {p : Nat} (h : Py.index len i = some p) : p < len := by
  unfold Py.index at h
  split at h <;> split at h <;> simp at h <;> omega

theorem index_nat {len a : Nat} (ha : a < len) : Py.index len (a : Int) = some a := by
  unfold Py.index; simp; omega

theorem mapM_index_nat (len : Nat) (idx : List Nat) (h : ∀ p ∈ idx, p < len) :
    (idx.map (fun (n : Nat) => (n : Int))).mapM (Py.index len) = some idx := by
  induction idx with
  | nil => rfl
  | cons a r ih =>
    have ha : a < len := h a (by simp)
    have hr := ih (fun p hp => h p (by simp [hp]))
    rw [List.map_cons, List.mapM_cons, hr]
    have : Py.index len (a : Int) = some a := by
      unfold Py.index; simp; omega
    simp [this]

theorem rev_step {α} (cur : List α) (n i j : Nat) (hn : cur.length = n) (hi : i < n / 2) (a b : α)
    (ha : cur[n - i - 1]? = some a) (hb : cur[i]? = some b) :
    (if i + 1 ≤ j ∧ j < n - (i + 1) then ((cur.set i a).set (n - i - 1) b)[n - 1 - j]?
      else ((cur.set i a).set (n - i - 1) b)[j]?) = if i ≤ j ∧ j < n - i then cur[n - 1 - j]? else cur[j]? := by
  simp only [List.getElem?_set, List.length_set, hn]
  have hlt1 : n - i - 1 < n := by omega
  have hlt2 : i < n := by omega
  by_cases h1 : j < i
  · have c1 : ¬ (i + 1 ≤ j ∧ j < n - (i + 1)) := by omega
    have c2 : ¬ (i ≤ j ∧ j < n - i) := by omega
    have c3 : ¬ (n - i - 1 = j) := by omega
    have c4 : ¬ (i = j) := by omega
    simp only [c1, c2, c3, c4, if_false]
  · by_cases h2 : j = i
    · subst h2
      have c1 : ¬ (j + 1 ≤ j ∧ j < n - (j + 1)) := by omega
      have c2 : (j ≤ j ∧ j < n - j) := by omega
      have c3 : ¬ (n - j - 1 = j) := by omega
      have c5 : n - 1 - j = n - j - 1 := by omega
      simp only [c1, c2, c3, c5, hlt2, if_false, if_true, and_self, ha]
    · by_cases h3 : j < n - i - 1
      · have c1 : (i + 1 ≤ j ∧ j < n - (i + 1)) := by omega
        have c2 : (i ≤ j ∧ j < n - i) := by omega
        have c3 : ¬ (n - i - 1 = n - 1 - j) := by omega
        have c4 : ¬ (i = n - 1 - j) := by omega
        simp only [c1, c2, c3, c4, if_false, if_true, and_self]
      · by_cases h4 : j = n - i - 1
        · subst h4
          have c1 : ¬ (i + 1 ≤ n - i - 1 ∧ n - i - 1 < n - (i + 1)) := by omega
          have c2 : (i ≤ n - i - 1 ∧ n - i - 1 < n - i) := by omega
          have c5 : n - 1 - (n - i - 1) = i := by omega
          simp only [c1, c2, c5, hlt1, if_false, if_true, and_self, hb]
        · have c1 : ¬ (i + 1 ≤ j ∧ j < n - (i + 1)) := by omega
          have c2 : ¬ (i ≤ j ∧ j < n - i) := by omega
          have c3 : ¬ (n - i - 1 = j) := by omega
          have c4 : ¬ (i = j) := by omega
          simp only [c1, c2, c3, c4, if_false]

end WindVerif.LineFile
