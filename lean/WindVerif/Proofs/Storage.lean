import WindVerif.Model.Storage
import WindVerif.Proofs.StorageInv5
/-! Theorems about the interleaving model of `TextFileStorage` (C14). -/
namespace WindVerif.Storage

/-- reachable from the start state of `presize` and the process scripts, under some interleaving -/
def Reach (presize : Nat) (scripts : List (List Op)) (s : St) : Prop :=
  ∃ sched, run (start (init presize scripts)) sched = some s

def NoFlush (scripts : List (List Op)) : Prop := ∀ sc ∈ scripts, Op.flush ∉ sc

/-- the line a reader gets when it follows the index entry of identifier `g` now -/
def entryLine (s : St) (g : Nat) : Option (List (Option Nat)) :=
  match s.index[g]? with
  | some (some (w, off)) => some (readlineAt ((fileOf s w).getD []) off)
  | _ => none

def stored (s : St) (g : Nat) : Bool :=
  match s.index[g]? with
  | some (some _) => true
  | _ => false

/-- the k-th operation of process i and its result, once it has one -/
def resultOf (scripts : List (List Op)) (s : St) (i k : Nat) : Option (Op × Res) :=
  match scripts[i]?, s.procs[i]? with
  | some sc, some p => (match sc[k]?, p.results[k]? with | some op, some r => some (op, r) | _, _ => none)
  | _, _ => none

/-- published ⇒ durable, under every interleaving of any number of writers and readers: an index entry always points at a
complete line (text and terminator) in an existing file -/
theorem published_durable (presize : Nat) (scripts : List (List Op)) (hnf : NoFlush scripts) (s : St)
    (hr : Reach presize scripts s) (g : Nat) (l : List (Option Nat)) (h : entryLine s g = some l) :
    ∃ t, l = [some t, none] := by
  obtain ⟨sched, hr⟩ := hr
  exact (reach_AB hnf hr).2.durable (g := g) h

/-- an index entry, once published, never changes, and neither does the line it points at (files are append-only) -/
theorem published_stable (presize : Nat) (scripts : List (List Op)) (hnf : NoFlush scripts) (s : St)
    (hr : Reach presize scripts s) (sched : List Nat) (s' : St) (hs : run s sched = some s') (g : Nat)
    (l : List (Option Nat)) (h : entryLine s g = some l) : entryLine s' g = some l ∧ s'.index[g]? = s.index[g]? := by
  obtain ⟨sched0, hr⟩ := hr
  obtain ⟨hA, hB⟩ := reach_AB hnf hr
  exact stable_run hA hB hs (g := g) h

/-- what is stored under an id is what any process reads back: a finished read of `g` either raised `IndexError` or
returned exactly the complete line of the text of a store of `g` that succeeded — never empty, partial or another id's -/
theorem read_spec (presize : Nat) (scripts : List (List Op)) (hnf : NoFlush scripts) (s : St)
    (hr : Reach presize scripts s) (i k g : Nat) (r : Res) (h : resultOf scripts s i k = some (.read g, r)) :
    r = .indexError ∨ ∃ j k' t, resultOf scripts s j k' = some (.store g t, .ok) ∧ r = .text [some t, none] := sorry

/-- storing twice under one id: at most one store of `g` succeeds, every other finished one raised `ValueError` -/
theorem store_once (presize : Nat) (scripts : List (List Op)) (hnf : NoFlush scripts) (s : St)
    (hr : Reach presize scripts s) (i k j k' g t t' : Nat) (r r' : Res)
    (h1 : resultOf scripts s i k = some (.store g t, r)) (h2 : resultOf scripts s j k' = some (.store g t', r'))
    (hne : (i, k) ≠ (j, k')) : (r = .ok ∨ r = .valueError) ∧ ¬ (r = .ok ∧ r' = .ok) := sorry

/-- a successful store makes the id stored; a failed one (ValueError) found it stored -/
theorem store_result (presize : Nat) (scripts : List (List Op)) (hnf : NoFlush scripts) (s : St)
    (hr : Reach presize scripts s) (i k g t : Nat) (r : Res) (h : resultOf scripts s i k = some (.store g t, r)) :
    stored s g = true := sorry

/-- the counters, whenever nobody is inside a critical section: `len()` is the number of stored ids and `_waiting_for` is
the smallest id that is not stored -/
theorem counters_quiescent (presize : Nat) (scripts : List (List Op)) (hnf : NoFlush scripts) (s : St)
    (hr : Reach presize scripts s) (hq : s.lock = none) :
    s.cnt = ((List.range s.index.length).filter (stored s)).length ∧ (∀ g, g < s.wf → stored s g = true) ∧
    stored s s.wf = false := sorry

/-- `is_contiguous()` (evaluated in such a state) is true exactly when the stored ids are `0 .. len-1` -/
theorem contiguous_iff (presize : Nat) (scripts : List (List Op)) (hnf : NoFlush scripts) (s : St)
    (hr : Reach presize scripts s) (hq : s.lock = none) :
    (s.wf = s.cnt) ↔ (∀ g, stored s g = true ↔ g < s.cnt) := sorry

/-- iteration (which holds the lock throughout) yields every stored text in id order, skipping gaps -/
theorem iter_spec (presize : Nat) (scripts : List (List Op)) (hnf : NoFlush scripts) (s s' : St)
    (hr : Reach presize scripts s) (i : Nat) (p : Proc) (hp : s.procs[i]? = some p) (hpc : p.pc = .iRel)
    (hs : step s i = some s') :
    ∃ p', s'.procs[i]? = some p' ∧
      p'.results = p.results ++ [.texts ((List.range s.index.length).filterMap (entryLine s))] := sorry

/-- `flush()`: running the flushing process through its critical section (it holds the lock, nobody else can interfere with
the shared state) removes every listed file and leaves the storage in its initial state -/
theorem flush_clears (s : St) (i : Nat) (p : Proc) (hp : s.procs[i]? = some p) (hpc : p.pc = .fPathsGet)
    (hlock : s.lock = some i) (hk : p.tmp = 0) :
    ∃ sched s' p', run s sched = some s' ∧ (∀ j ∈ sched, j = i) ∧ s'.procs[i]? = some p' ∧ p'.pc = .fRel ∧
      s'.paths = [] ∧ s'.index = [] ∧ s'.cnt = 0 ∧ s'.wf = 0 ∧
      (∀ w, some w ∈ s.paths → fileOf s' w = none) := sorry

end WindVerif.Storage
