import WindVerif.Model.LineFileSeq
import WindVerif.Core.PyListSeq
import WindVerif.Proofs.LineFile
/-!
The inherited `Sequence` / `MutableSequence` methods of the line files (`Model/LineFileSeq.lean`) agree with the Python
`list` operations on the presented list (C11 read side: `index`, `count`, `in`, `reversed`; C12: `remove`, `clear`).
-/
namespace WindVerif.LineFile
open WindVerif

/-! ### what a successful read leaves (no hypothesis on the file) -/

theorem getPos_same {f f' : LF} {p : Nat} {s : Str} (h : f.getPos p = .ok (f', s)) : SameButCursor f f' := by
  unfold LF.getPos at h
  split at h
  · cases h
  · simp only [Except.ok.injEq, Prod.mk.injEq] at h
    rw [← h.1]; exact same_refl f
  · unfold LF.readAt at h
    split at h
    · cases h
    · simp only [Except.ok.injEq, Prod.mk.injEq] at h
      rw [← h.1]; exact ⟨rfl, rfl, rfl, rfl⟩

theorem getInt_ok {f f' : LF} {i : Int} {s : Str} (h : f.getInt i = .ok (f', s)) :
    SameButCursor f f' ∧ f.closed = false ∧ ∃ p, Py.index f.lines.length i = some p := by
  unfold LF.getInt at h
  split at h
  · cases h
  · rename_i hc
    split at h
    · cases h
    · rename_i p hp
      exact ⟨getPos_same h, by simpa using hc, p, hp⟩

theorem index_nat_none {len a : Nat} (ha : len ≤ a) : Py.index len (a : Int) = none := by
  unfold Py.index; simp; omega

theorem getInt_closed {f : LF} (hc : f.closed = true) (i : Int) : f.getInt i = .error .runtimeError := by
  simp [LF.getInt, hc]

theorem getInt_beyond {f : LF} (hc : f.closed = false) {p : Nat} (hp : f.lines.length ≤ p) :
    f.getInt (p : Int) = .error .indexError := by
  simp [LF.getInt, hc, index_nat_none hp]

/-! ### `Sequence.index` -/

theorem seqBelow_mono {stop : Option Int} {j k : Nat} (hjk : j ≤ k) (h : seqBelow stop k = true) :
    seqBelow stop j = true := by
  unfold seqBelow at *
  split
  · rfl
  · simp only [decide_eq_true_eq] at h ⊢; omega

/-- the loop of `Sequence.index` from position `p`: it returns the first position `≥ p` and below `stop` that holds `v`,
and raises `ValueError` when there is none -/
theorem lfIndexGo_spec (v : Str) (stop : Option Int) (fuel : Nat) : ∀ (f : LF) (ls : List Str) (p : Nat), Good f ls →
    f.closed = false → ls.length - p < fuel →
    (∀ k, p ≤ k → seqBelow stop k = true → ls[k]? = some v → (∀ j, p ≤ j → j < k → ls[j]? ≠ some v) →
      ∃ f', lfIndexGo f v stop fuel p = .ok (f', k) ∧ SameButCursor f f') ∧
    ((∀ j, p ≤ j → seqBelow stop j = true → ls[j]? ≠ some v) → lfIndexGo f v stop fuel p = .error .valueError) := by
  induction fuel with
  | zero => intro f ls p h hc hf; omega
  | succ n ih =>
    intro f ls p h hc hf
    unfold lfIndexGo
    by_cases hb : seqBelow stop p = true
    · simp only [hb, if_true]
      by_cases hp : ls.length ≤ p
      · have hg : f.getInt (p : Int) = .error .indexError := getInt_beyond hc (by rw [h.1]; exact hp)
        simp only [hg]
        constructor
        · intro k hk _ hkv _
          have := (List.getElem?_eq_some_iff.mp hkv).1
          omega
        · intro _; trivial
      · have hlt : p < ls.length := by omega
        obtain ⟨f1, e1, e2⟩ := getInt_nat h hc (List.getElem?_eq_getElem hlt)
        have hg1 := good_same_aux h e2
        have hc1 : f1.closed = false := e2.2.2.2.trans hc
        obtain ⟨ihA, ihB⟩ := ih f1 ls (p + 1) hg1 hc1 (by omega)
        simp only [e1]
        by_cases hv : ls[p] = v
        · simp only [hv, if_true]
          constructor
          · intro k hk _ hkv hmin
            have : k = p := by
              by_cases hkp : k = p
              · exact hkp
              · exfalso
                exact hmin p (Nat.le_refl _) (by omega) (by rw [List.getElem?_eq_getElem hlt, hv])
            subst this
            exact ⟨f1, rfl, e2⟩
          · intro hall
            exact absurd (by rw [List.getElem?_eq_getElem hlt, hv]) (hall p (Nat.le_refl _) hb)
        · simp only [hv, if_false]
          constructor
          · intro k hk hkb hkv hmin
            have hkp : k ≠ p := by
              intro hkp; subst hkp
              rw [List.getElem?_eq_getElem hlt] at hkv
              exact hv (Option.some.inj hkv)
            obtain ⟨f2, d1, d2⟩ := ihA k (by omega) hkb hkv (fun j hj hjk => hmin j (by omega) hjk)
            exact ⟨f2, d1, same_trans e2 d2⟩
          · intro hall
            exact ihB (fun j hj hjb => hall j (by omega) hjb)
    · simp only [hb]
      constructor
      · intro k hk hkb _ _
        exact absurd (seqBelow_mono hk hkb) hb
      · intro _; rfl

theorem seqStart_eq (len : Nat) (start : Option Int) : seqStart len start = Py.idxLo len start := by
  cases start with
  | none => rfl
  | some s =>
    simp only [seqStart, Py.idxLo, Py.clampIdx]
    split <;> omega

theorem seqBelow_of_lt_idxHi {len : Nat} {stop : Option Int} {k : Nat} (h : k < Py.idxHi len stop) :
    seqBelow (seqStop len stop) k = true := by
  unfold Py.idxHi Py.clampIdx at h
  unfold seqBelow seqStop
  cases stop with
  | none => rfl
  | some s =>
    simp only [Option.map_some, decide_eq_true_eq]
    simp only at h
    split at h <;> split <;> omega

theorem lt_idxHi_of_seqBelow {len : Nat} {stop : Option Int} {k : Nat} (hk : k < len)
    (h : seqBelow (seqStop len stop) k = true) : k < Py.idxHi len stop := by
  unfold seqBelow seqStop at h
  unfold Py.idxHi Py.clampIdx
  cases stop with
  | none => exact hk
  | some s =>
    simp only [Option.map_some, decide_eq_true_eq] at h
    simp only
    split at h <;> split <;> omega

/-- `f.index(v, start, stop)` on an opened file is `ls.index(v, start, stop)` of the presented list — the same position,
and `ValueError` exactly when the list raises it — for every `start` / `stop`, negative and out of range included -/
theorem lfIndex_spec (f : LF) (ls : List Str) (h : Good f ls) (hc : f.closed = false) (v : Str)
    (start stop : Option Int) :
    match Py.pyListIndex ls v start stop with
    | some k => ∃ f', lfIndex f v start stop = .ok (f', k) ∧ SameButCursor f f'
    | none => lfIndex f v start stop = .error .valueError := by
  obtain ⟨hA, hB⟩ := lfIndexGo_spec v (seqStop ls.length stop) (ls.length + 1) f ls (seqStart ls.length start) h hc
    (by omega)
  unfold lfIndex
  rw [h.1]
  cases hr : Py.pyListIndex ls v start stop with
  | some k =>
    obtain ⟨h1, h2, h3, h4⟩ := (Py.pyListIndex_eq_some_iff ls v start stop k).mp hr
    exact hA k (by rw [seqStart_eq]; exact h1) (seqBelow_of_lt_idxHi h2) h3
      (fun j hj hjk => h4 j (by rw [← seqStart_eq]; exact hj) hjk)
  | none =>
    have hn := (Py.pyListIndex_eq_none_iff ls v start stop).mp hr
    apply hB
    intro j hj hjb hjv
    have hjl : j < ls.length := (List.getElem?_eq_some_iff.mp hjv).1
    exact hn j (by rw [← seqStart_eq]; exact hj) (lt_idxHi_of_seqBelow hjl hjb) hjv

/-- on a closed file `index` raises `RuntimeError` as soon as it reads an item — not when the normalised bounds are
empty (`stop` given and `start' ≥ stop'`): then the loop is not entered and it is `ValueError` -/
theorem lfIndex_closed (f : LF) (hc : f.closed = true) (v : Str) (start stop : Option Int) :
    lfIndex f v start stop =
      if seqBelow (seqStop f.lines.length stop) (seqStart f.lines.length start) then .error .runtimeError
      else .error .valueError := by
  unfold lfIndex lfIndexGo
  rw [getInt_closed hc]

/-- the fuel of `lfIndex` suffices on every file: more changes nothing -/
theorem lfIndexGo_fuel (v : Str) (stop : Option Int) (fuel : Nat) : ∀ (f : LF) (p : Nat), f.lines.length - p < fuel →
    lfIndexGo f v stop fuel p = lfIndexGo f v stop (f.lines.length - p + 1) p := by
  induction fuel with
  | zero => intro f p h; omega
  | succ n ih =>
    intro f p hf
    unfold lfIndexGo
    split
    · cases hg : f.getInt (p : Int) with
      | error e => cases e <;> rfl
      | ok r =>
        obtain ⟨f', s⟩ := r
        obtain ⟨hs, _, q, hq⟩ := getInt_ok hg
        have hq' := index_lt hq
        have hqp : q = p := by
          unfold Py.index at hq; simp at hq; omega
        subst hqp
        simp only
        split
        · rfl
        · rw [ih f' (q + 1) (by rw [hs.2.1]; omega), hs.2.1]
          have : f.lines.length - q = f.lines.length - (q + 1) + 1 := by omega
          rw [this]
    · rfl

/-! ### `in`, `count` -/

theorem lfContainsGo_spec (v : Str) (k : Nat) : ∀ (f : LF) (ls : List Str) (p : Nat), Good f ls → p + k = ls.length →
    ∃ f', lfContainsGo f v p k = .ok (f', decide (v ∈ ls.drop p)) ∧ SameButCursor f f' := by
  induction k with
  | zero =>
    intro f ls p h hp
    have : ls.drop p = [] := List.drop_eq_nil_of_le (by omega)
    exact ⟨f, by simp [lfContainsGo, this], same_refl f⟩
  | succ k ih =>
    intro f ls p h hp
    have hlt : p < ls.length := by omega
    obtain ⟨f1, e1, e2⟩ := getPos_spec f ls h p ls[p] (List.getElem?_eq_getElem hlt)
    unfold lfContainsGo
    rw [List.drop_eq_getElem_cons hlt]
    simp only [e1]
    by_cases hv : ls[p] = v
    · exact ⟨f1, by simp [hv], e2⟩
    · obtain ⟨f2, d1, d2⟩ := ih f1 ls (p + 1) (good_same_aux h e2) (by omega)
      refine ⟨f2, ?_, same_trans e2 d2⟩
      have hv' : ¬ v = ls[p] := fun e => hv e.symm
      simp only [hv, if_false, d1, List.mem_cons, hv', false_or]

/-- `v in f` on an opened file: `v in ls` -/
theorem lfContains_iff (f : LF) (ls : List Str) (h : Good f ls) (hc : f.closed = false) (v : Str) :
    ∃ f' b, lfContains f v = .ok (f', b) ∧ (b = true ↔ v ∈ ls) ∧ SameButCursor f f' := by
  obtain ⟨f', e1, e2⟩ := lfContainsGo_spec v ls.length f ls 0 h (by omega)
  refine ⟨f', decide (v ∈ ls), ?_, by simp, e2⟩
  simpa [lfContains, hc, h.1] using e1

theorem lfContains_closed (f : LF) (hc : f.closed = true) (v : Str) : lfContains f v = .error .runtimeError := by
  simp [lfContains, hc]

theorem lfCountGo_spec (v : Str) (k : Nat) : ∀ (f : LF) (ls : List Str) (p acc : Nat), Good f ls →
    p + k = ls.length →
    ∃ f', lfCountGo f v p k acc = .ok (f', acc + (ls.drop p).count v) ∧ SameButCursor f f' := by
  induction k with
  | zero =>
    intro f ls p acc h hp
    have : ls.drop p = [] := List.drop_eq_nil_of_le (by omega)
    exact ⟨f, by simp [lfCountGo, this], same_refl f⟩
  | succ k ih =>
    intro f ls p acc h hp
    have hlt : p < ls.length := by omega
    obtain ⟨f1, e1, e2⟩ := getPos_spec f ls h p ls[p] (List.getElem?_eq_getElem hlt)
    obtain ⟨f2, d1, d2⟩ := ih f1 ls (p + 1) (if ls[p] = v then acc + 1 else acc) (good_same_aux h e2) (by omega)
    refine ⟨f2, ?_, same_trans e2 d2⟩
    unfold lfCountGo
    rw [List.drop_eq_getElem_cons hlt]
    simp only [e1, d1, List.count_cons]
    by_cases hv : ls[p] = v
    · simp [hv]; omega
    · have hv' : (ls[p] == v) = false := by simpa using hv
      simp [hv, hv']

/-- `f.count(v)` on an opened file: `ls.count(v)` -/
theorem lfCount_spec (f : LF) (ls : List Str) (h : Good f ls) (hc : f.closed = false) (v : Str) :
    ∃ f', lfCount f v = .ok (f', ls.count v) ∧ SameButCursor f f' := by
  obtain ⟨f', e1, e2⟩ := lfCountGo_spec v ls.length f ls 0 0 h (by omega)
  refine ⟨f', ?_, e2⟩
  simpa [lfCount, hc, h.1] using e1

theorem lfCount_closed (f : LF) (hc : f.closed = true) (v : Str) : lfCount f v = .error .runtimeError := by
  simp [lfCount, hc]

/-! ### `reversed` -/

theorem lfReversedGo_spec (k : Nat) : ∀ (f : LF) (ls : List Str), Good f ls → f.closed = false → k ≤ ls.length →
    ∃ f', lfReversedGo f k = .ok (f', (ls.take k).reverse) ∧ SameButCursor f f' := by
  induction k with
  | zero => intro f ls h hc hk; exact ⟨f, by simp [lfReversedGo], same_refl f⟩
  | succ k ih =>
    intro f ls h hc hk
    have hlt : k < ls.length := by omega
    obtain ⟨f1, e1, e2⟩ := getInt_nat h hc (List.getElem?_eq_getElem hlt)
    obtain ⟨f2, d1, d2⟩ := ih f1 ls (good_same_aux h e2) (e2.2.2.2.trans hc) (by omega)
    refine ⟨f2, ?_, same_trans e2 d2⟩
    unfold lfReversedGo
    simp only [e1, d1]
    rw [List.take_succ_eq_append_getElem hlt, List.reverse_append]
    rfl

/-- `list(reversed(f))` on an opened file: the presented list reversed -/
theorem lfReversed_spec (f : LF) (ls : List Str) (h : Good f ls) (hc : f.closed = false) :
    ∃ f', lfReversed f = .ok (f', ls.reverse) ∧ SameButCursor f f' := by
  obtain ⟨f', e1, e2⟩ := lfReversedGo_spec ls.length f ls h hc (Nat.le_refl _)
  refine ⟨f', ?_, e2⟩
  unfold lfReversed
  rw [h.1, e1, List.take_length]

/-- on a closed file `reversed` raises `RuntimeError` at its first item; without lines there is no first item:
`list(reversed(f)) == []` -/
theorem lfReversed_closed (f : LF) (hc : f.closed = true) :
    (f.lines ≠ [] → lfReversed f = .error .runtimeError) ∧ (f.lines = [] → lfReversed f = .ok (f, [])) := by
  constructor
  · intro hne
    unfold lfReversed
    cases hl : f.lines.length with
    | zero => exact absurd (List.eq_nil_of_length_eq_zero hl) hne
    | succ n => simp [lfReversedGo, getInt_closed hc]
  · intro he
    simp [lfReversed, he, lfReversedGo]

/-! ### `MutableSequence.remove`: the model of `Model/LineFile.lean` is `del self[self.index(value)]` -/

theorem indexOf_eq_lfIndexGo (v : Str) (fuel : Nat) : ∀ (f : LF) (p : Nat), f.closed = false →
    f.indexOf v fuel p = lfIndexGo f v none fuel p := by
  induction fuel with
  | zero => intro f p hc; rfl
  | succ n ih =>
    intro f p hc
    unfold LF.indexOf lfIndexGo
    simp only [seqBelow, if_true]
    by_cases hp : p ≥ f.lines.length
    · simp only [hp, if_true, getInt_beyond hc hp]
    · simp only [hp, if_false]
      cases hg : f.getInt (p : Int) with
      | error e =>
        have : e ≠ .indexError := by
          intro he; subst he
          have hlt : p < f.lines.length := by omega
          unfold LF.getInt at hg
          simp only [hc, Bool.false_eq_true, if_false, index_nat hlt] at hg
          unfold LF.getPos at hg
          rw [List.getElem?_eq_getElem hlt] at hg
          cases hq : f.lines[p] with
          | str s => rw [hq] at hg; cases hg
          | off o => rw [hq] at hg; simp only [LF.readAt] at hg; split at hg <;> cases hg
        cases e <;> first | rfl | exact absurd rfl this
      | ok r =>
        obtain ⟨f', s⟩ := r
        simp only
        split
        · rfl
        · exact ih f' (p + 1) ((getInt_ok hg).1.2.2.2.trans hc)

/-- `f.remove(v)` is `del f[f.index(v)]` with the inherited `index` -/
theorem remove_eq_del_index (f : LF) (v : Str) :
    f.remove v = match lfIndex f v none none with
      | .error e => .error e
      | .ok (f', p) => f'.delItem (p : Int) := by
  unfold LF.remove lfIndex
  cases hc : f.closed with
  | true =>
    have : lfIndexGo f v (seqStop f.lines.length none) (f.lines.length + 1) (seqStart f.lines.length none) =
        .error .runtimeError := by
      unfold lfIndexGo
      simp [seqStop, seqBelow, getInt_closed hc]
    simp [this]
  | false =>
    simp only [Bool.false_eq_true, if_false, indexOf_eq_lfIndexGo v _ f 0 hc]
    rfl

theorem remove_closed (f : LF) (hc : f.closed = true) (v : Str) : f.remove v = .error .runtimeError := by
  simp [LF.remove, hc]

/-! ### `MutableSequence.clear` -/

theorem pop_ok {f f' : LF} {i : Int} {s : Str} (h : f.pop i = .ok (f', s)) :
    ∃ p, Py.index f.lines.length i = some p ∧ f'.lines = f.lines.eraseIdx p ∧ f'.closed = false ∧
      f'.content = f.content := by
  unfold LF.pop at h
  split at h
  · cases h
  · rename_i f1 v hg
    obtain ⟨hs, hc, p, hp⟩ := getInt_ok hg
    unfold LF.delItem at h
    rw [hs.2.1, hp] at h
    simp only [Except.ok.injEq, Prod.mk.injEq] at h
    rw [← h.1]
    exact ⟨p, hp, rfl, by simp [hs.2.2.2, hc], by simp [hs.1]⟩

/-- the fuel of `clear` suffices on every file: more changes nothing -/
theorem clearGo_fuel (fuel : Nat) : ∀ (f : LF), f.lines.length < fuel →
    f.clearGo fuel = f.clearGo (f.lines.length + 1) := by
  induction fuel with
  | zero => intro f h; omega
  | succ n ih =>
    intro f hf
    unfold LF.clearGo
    cases hp : f.pop (-1) with
    | error e => cases e <;> rfl
    | ok r =>
      obtain ⟨f', s⟩ := r
      obtain ⟨p, hi, hl, _, _⟩ := pop_ok hp
      have hlt := index_lt hi
      have hlen : f'.lines.length + 1 = f.lines.length := by
        rw [hl, List.length_eraseIdx]; simp [hlt]; omega
      simp only
      rw [ih f' (by omega), hlen]

theorem clearGo_spec (fuel : Nat) : ∀ (f : LF) (ls : List Str), Good f ls → f.closed = false → ls.length < fuel →
    ∃ f', f.clearGo fuel = .ok f' ∧ Good f' [] ∧ f'.content = f.content ∧ f'.closed = false ∧
      (ls ≠ [] → f'.dirty = true) ∧ (ls = [] → f' = f) := by
  induction fuel with
  | zero => intro f ls h hc hf; omega
  | succ n ih =>
    intro f ls h hc hf
    have hp := pop_spec f ls h hc (-1)
    unfold LF.clearGo
    cases ls with
    | nil =>
      have hi : Py.index ([] : List Str).length (-1) = none := by decide
      rw [hi] at hp
      simp only at hp
      exact ⟨f, by simp [hp], h, rfl, hc, fun hne => absurd rfl hne, fun _ => rfl⟩
    | cons a t =>
      have hi : Py.index (a :: t).length (-1) = some t.length := by
        unfold Py.index; simp; omega
      rw [hi] at hp
      obtain ⟨f1, l, _, e1, g1, d1, k1⟩ := hp
      have c1 : f1.closed = false := (pop_ok e1).choose_spec.2.2.1
      obtain ⟨f2, e2, g2, k2, c2, d2, z2⟩ := ih f1 _ g1 c1 (by
        rw [List.length_eraseIdx]; simp at hf ⊢; omega)
      refine ⟨f2, by simp only [e1, e2], g2, k2.trans k1, c2, ?_, fun hn => by cases hn⟩
      intro _
      by_cases ht : (a :: t).eraseIdx t.length = []
      · rw [z2 ht]; exact d1
      · exact d2 ht

/-- `f.clear()` on an opened file: the file presents the empty list (and is dirty unless it was empty already, in which
case nothing changes); the source content is untouched -/
theorem clear_spec (f : LF) (ls : List Str) (h : Good f ls) (hc : f.closed = false) :
    ∃ f', f.clear = .ok f' ∧ Good f' [] ∧ f'.content = f.content ∧ f'.closed = false ∧
      (ls ≠ [] → f'.dirty = true) ∧ (ls = [] → f' = f) := by
  unfold LF.clear
  rw [h.1]
  exact clearGo_spec (ls.length + 1) f ls h hc (by omega)

/-- a closed file: the first `self.pop()` raises `RuntimeError` (before it could raise `IndexError`, even without lines) -/
theorem clear_closed (f : LF) (hc : f.closed = true) : f.clear = .error .runtimeError := by
  unfold LF.clear LF.clearGo
  simp [LF.pop, getInt_closed hc]

end WindVerif.LineFile
