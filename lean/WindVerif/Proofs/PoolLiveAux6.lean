import WindVerif.Proofs.PoolLiveAux5
/-! Liveness of the pool model (C02): the thread-local continuations of the consumer (`toNextCall`, `afterResults`,
`exitJoinFrom`) in a form the preservation proofs can use. -/
namespace WindVerif.Pool

/-! ### the reorder buffer never keeps the chunk it waits for -/

theorem drainBuffer_wf (fuel : Nat) : ∀ (buf : List Nat) (wf : Nat) (acc : List Nat), buf.length < fuel →
    (drainBuffer fuel buf wf acc).2.1 ∉ (drainBuffer fuel buf wf acc).1 := by
  induction fuel with
  | zero => intro buf wf acc h; omega
  | succ n ih =>
    intro buf wf acc h
    unfold drainBuffer
    split
    · rename_i hc
      apply ih
      have hm : wf ∈ buf := by simpa using hc
      rw [List.length_erase_of_mem hm]
      have : 0 < buf.length := List.length_pos_of_mem hm
      omega
    · rename_i hc
      simpa using hc

theorem go_wf (s : St) : ∀ (b buf : List Nat) (wf fin : Nat) (out : List (Nat × Nat)), wf ∉ buf →
    (consumeBatch.go s b buf wf fin out).2.1 ∉ (consumeBatch.go s b buf wf fin out).1 := by
  intro b
  induction b with
  | nil => intro buf wf fin out h; simpa [consumeBatch.go] using h
  | cons i r ih =>
    intro buf wf fin out _
    unfold consumeBatch.go
    have h1 := drainBuffer_wf (buf.length + 2) (i :: buf) wf [] (by simp)
    generalize drainBuffer (buf.length + 2) (i :: buf) wf [] = d at h1
    obtain ⟨buf1, wf1, em⟩ := d
    exact ih buf1 wf1 _ _ h1

theorem go_fin (s : St) : ∀ (b buf : List Nat) (wf fin : Nat) (out : List (Nat × Nat)),
    fin ≤ (consumeBatch.go s b buf wf fin out).2.2.1 := by
  intro b
  induction b with
  | nil => intro buf wf fin out; simp [consumeBatch.go]
  | cons i r ih =>
    intro buf wf fin out
    unfold consumeBatch.go
    generalize drainBuffer (buf.length + 2) (i :: buf) wf [] = d
    obtain ⟨buf1, wf1, em⟩ := d
    exact Nat.le_trans (Nat.le_add_right _ _) (ih buf1 wf1 _ _)

/-- what `consumeBatch` does inside a call, as an update of the state -/
theorem consumeBatch_view (s : St) (call : Call) (hc : s.cur = some call) (hwf : s.wf ∉ s.buffer) :
    ∃ buf' wf' fin' out',
      consumeBatch s = { s with buffer := buf', wf := wf', finished := fin', out := out', batch := [], woken := false } ∧
      wf' ∉ buf' ∧ (call.ordered = false → buf' = s.buffer) ∧ s.finished ≤ fin' := by
  cases ho : call.ordered
  · refine ⟨s.buffer, s.wf, s.finished + s.batch.length, s.out ++ s.batch.map (fun j => (s.callNo, j)), ?_, hwf,
      fun _ => rfl, Nat.le_add_right _ _⟩
    unfold consumeBatch
    simp [hc, ho]
  · have hg := go_wf s s.batch s.buffer s.wf s.finished s.out hwf
    have hcb : consumeBatch s =
        { s with buffer := (consumeBatch.go s s.batch s.buffer s.wf s.finished s.out).1,
                 wf := (consumeBatch.go s s.batch s.buffer s.wf s.finished s.out).2.1,
                 finished := (consumeBatch.go s s.batch s.buffer s.wf s.finished s.out).2.2.1,
                 out := (consumeBatch.go s s.batch s.buffer s.wf s.finished s.out).2.2.2, batch := [], woken := false } := by
      unfold consumeBatch
      simp [hc, ho]
    have hfin : s.finished ≤ (consumeBatch.go s s.batch s.buffer s.wf s.finished s.out).2.2.1 := go_fin s _ _ _ _ _
    generalize consumeBatch.go s s.batch s.buffer s.wf s.finished s.out = g at hg hcb hfin
    obtain ⟨buf, wf, fin, out⟩ := g
    dsimp only at hg hcb hfin
    exact ⟨buf, wf, fin, out, hcb, hg, fun h => Bool.noConfusion h, hfin⟩

/-- the same without the reorder-buffer hypothesis -/
theorem consumeBatch_view0 (s : St) (call : Call) (hc : s.cur = some call) :
    ∃ buf' wf' fin' out',
      consumeBatch s = { s with buffer := buf', wf := wf', finished := fin', out := out', batch := [], woken := false } ∧
      s.finished ≤ fin' := by
  cases ho : call.ordered
  · refine ⟨s.buffer, s.wf, s.finished + s.batch.length, s.out ++ s.batch.map (fun j => (s.callNo, j)), ?_,
      Nat.le_add_right _ _⟩
    unfold consumeBatch
    simp [hc, ho]
  · have hcb : consumeBatch s =
        { s with buffer := (consumeBatch.go s s.batch s.buffer s.wf s.finished s.out).1,
                 wf := (consumeBatch.go s s.batch s.buffer s.wf s.finished s.out).2.1,
                 finished := (consumeBatch.go s s.batch s.buffer s.wf s.finished s.out).2.2.1,
                 out := (consumeBatch.go s s.batch s.buffer s.wf s.finished s.out).2.2.2, batch := [], woken := false } := by
      unfold consumeBatch
      simp [hc, ho]
    have hfin : s.finished ≤ (consumeBatch.go s s.batch s.buffer s.wf s.finished s.out).2.2.1 := go_fin s _ _ _ _ _
    generalize consumeBatch.go s s.batch s.buffer s.wf s.finished s.out = g at hcb hfin
    obtain ⟨buf, wf, fin, out⟩ := g
    dsimp only at hcb hfin
    exact ⟨buf, wf, fin, out, hcb, hfin⟩

/-- what `afterResults` does inside a call -/
theorem afterResults_spec (s : St) (call : Call) (hc : s.cur = some call) (hwf : s.wf ∉ s.buffer) :
    ∃ buf' wf' fin' out' c',
      afterResults s = { s with buffer := buf', wf := wf', finished := fin', out := out', batch := [], woken := false,
                                cpc := c' } ∧
      wf' ∉ buf' ∧
      ((call.ordered = true ∧ ((c' = .flowClear ∧ bufferFull (afterResults s) = true) ∨
          (c' = .flowIsSet ∧ bufferFull (afterResults s) = false))) ∨
       (call.ordered = false ∧ c' = .rdSending ∧ buf' = s.buffer) ∨
       (∃ wid, c' = .midReady 0 wid ∧ s.procs[0]? = some wid ∧ (call.ordered = false → buf' = s.buffer))) := by
  obtain ⟨buf, wf, fin, out, hcb, hg, hun, _⟩ := consumeBatch_view s call hc hwf
  have hcur : (consumeBatch s).cur = some call := by rw [hcb]; exact hc
  obtain ⟨c', heq, hcl⟩ := afterResults_eq s
  rcases hcl with ⟨_, hab⟩ | ⟨wid, h, hp, _⟩
  · rcases afterBatch_cases (consumeBatch s) with ⟨c1, h1, h2, h3, h4⟩ | ⟨c1, h1, h2, h3, h4⟩ | ⟨h1, h4⟩
    · rw [hcur] at h1; cases h1
      refine ⟨buf, wf, fin, out, .flowClear, by rw [hab, h4, hcb], hg, Or.inl ⟨h2, Or.inl ⟨rfl, ?_⟩⟩⟩
      rw [hab, h4]; exact h3
    · rw [hcur] at h1; cases h1
      refine ⟨buf, wf, fin, out, .flowIsSet, by rw [hab, h4, hcb], hg, Or.inl ⟨h2, Or.inr ⟨rfl, ?_⟩⟩⟩
      rw [hab, h4]; exact h3
    · have ho := h1 call hcur
      exact ⟨buf, wf, fin, out, .rdSending, by rw [hab, h4, hcb], hg, Or.inr (Or.inl ⟨ho, rfl, hun ho⟩)⟩
  · subst h
    refine ⟨buf, wf, fin, out, _, by rw [heq, hcb], hg, Or.inr (Or.inr ⟨wid, rfl, ?_, hun⟩)⟩
    rw [hcb] at hp; exact hp

/-! ### the next call, or `__exit__` -/

theorem toNextCall_cases (s : St) :
    (∃ call rest, s.callsLeft = call :: rest ∧
      toNextCall s = { s with callsLeft := rest, cur := some call, callNo := s.callNo + 1, finished := 0, batch := [],
                              woken := false, buffer := [], wf := 0,
                              cpc := if s.cfg.factory then .rInitSet else .fInitSet }) ∨
    (s.callsLeft = [] ∧
      toNextCall s = { s with cur := none, cpc := if s.procs.length = 0 then .done else .exitPut 0 }) := by
  unfold toNextCall
  split
  · rename_i call rest hcl
    refine Or.inl ⟨call, rest, hcl, ?_⟩
    dsimp only
    split <;> simp
  · rename_i hcl
    refine Or.inr ⟨hcl, ?_⟩
    dsimp only
    split <;> simp

theorem toNextCall_setCpc (s : St) (pc : CPc) : toNextCall { s with cpc := pc } = toNextCall s := by
  unfold toNextCall
  cases s.callsLeft <;> rfl

/-! ### the join loop of `__exit__` -/

theorem exitJoinFrom_idx (s : St) (fuel : Nat) : ∀ i, i ≤ s.procs.length → s.procs.length < fuel + i →
    exitJoinFrom s fuel i = .done ∨ ∃ k, exitJoinFrom s fuel i = .exitJoin k ∧ k < s.procs.length := by
  induction fuel with
  | zero => intro i h1 h2; omega
  | succ n ih =>
    intro i h1 h2
    unfold exitJoinFrom
    split
    · exact Or.inl rfl
    · rename_i wid hw
      have hi : i < s.procs.length := by
        rcases Nat.lt_or_ge i s.procs.length with h | h
        · exact h
        · rw [List.getElem?_eq_none h] at hw; cases hw
      split
      · exact ih (i + 1) (by omega) (by omega)
      · exact Or.inr ⟨i, rfl, hi⟩

theorem exitJoinFrom_congr (s s' : St) (h1 : s'.procs = s.procs) (h2 : s'.workers = s.workers) (fuel i : Nat) :
    exitJoinFrom s' fuel i = exitJoinFrom s fuel i := by
  induction fuel generalizing i with
  | zero => rfl
  | succ n ih =>
    unfold exitJoinFrom
    rw [h1]
    have : ∀ wid, workerExited s' wid = workerExited s wid := by
      intro wid; unfold workerExited getWorker; rw [h2]
    simp only [this, ih]

end WindVerif.Pool
