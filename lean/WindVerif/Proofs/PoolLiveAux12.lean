import WindVerif.Proofs.PoolLiveAux11
/-! Termination of the pool model (C02): the steps of the consumer decrease the measure. -/
namespace WindVerif.Pool

variable {s s' t : St}

/-- `afterResults` touches only the consumer's local data and its pc; it goes on in the result loop (`finished` does not
decrease) or — on the first emission of a call only — into the mid-call `until_all_ready()` -/
theorem afterResults_view (s0 : St) : ∃ c' b' w' buf' wf' fin' out',
    afterResults s0 = { s0 with buffer := buf', wf := wf', finished := fin', out := out', batch := b', woken := w',
                                cpc := c' } ∧
    (((c' = .flowClear ∨ c' = .flowIsSet ∨ c' = .rdSending) ∧ s0.finished ≤ fin') ∨
     (∃ wid, c' = .midReady 0 wid ∧ s0.cur.isSome = true ∧ s0.finished = 0 ∧ 0 < fin')) := by
  obtain ⟨c', heq, hcl⟩ := afterResults_eq s0
  rcases Option.eq_none_or_eq_some s0.cur with hc | ⟨call, hc⟩
  · have hcb : consumeBatch s0 = s0 := by unfold consumeBatch; rw [hc]
    rw [hcb] at heq hcl
    refine ⟨c', s0.batch, s0.woken, s0.buffer, s0.wf, s0.finished, s0.out, heq, ?_⟩
    rcases hcl with ⟨h, _⟩ | ⟨wid, _, _, _, h0, hpos⟩
    · exact Or.inl ⟨h, Nat.le_refl _⟩
    · omega
  · obtain ⟨buf, wf, fin, out, hcb, hfin⟩ := consumeBatch_view0 s0 call hc
    refine ⟨c', [], false, buf, wf, fin, out, by rw [heq, hcb], ?_⟩
    rcases hcl with ⟨h, _⟩ | ⟨wid, h, _, _, h0, hpos⟩
    · exact Or.inl ⟨h, hfin⟩
    · rw [hcb] at hpos
      exact Or.inr ⟨wid, h, by rw [hc]; rfl, h0, hpos⟩

/-! ### the room for the mid-call `until_all_ready()` -/

theorem midB_le_of (h1 : t.procs.length = s.procs.length)
    (h2 : t.callsLeft.length + (if t.cur.isSome ∧ t.finished = 0 then 1 else 0) ≤
      s.callsLeft.length + (if s.cur.isSome ∧ s.finished = 0 then 1 else 0)) : midB t ≤ midB s := by
  unfold midB; rw [h1]; exact Nat.mul_le_mul_left _ h2

/-- `finished` does not decrease: the room does not grow -/
theorem midB_mono_fin (h1 : t.procs.length = s.procs.length) (h2 : t.callsLeft = s.callsLeft) (h3 : t.cur = s.cur)
    (h4 : s.finished ≤ t.finished) : midB t ≤ midB s := by
  apply midB_le_of h1
  rw [h2, h3]
  apply Nat.add_le_add_left
  by_cases hc : s.cur.isSome ∧ t.finished = 0
  · have : s.cur.isSome ∧ s.finished = 0 := ⟨hc.1, by have := hc.2; omega⟩
    rw [if_pos hc, if_pos this]; exact Nat.le_refl _
  · rw [if_neg hc]; exact Nat.zero_le _

/-- the first emission of a call releases the room of that call -/
theorem midB_release (h1 : t.procs.length = s.procs.length) (h2 : t.callsLeft = s.callsLeft) (h3 : t.cur = s.cur)
    (hc : s.cur.isSome = true) (h0 : s.finished = 0) (h4 : 0 < t.finished) : midB t + (s.procs.length + 1) = midB s := by
  unfold midB
  rw [h1, h2, h3]
  have e1 : (if s.cur.isSome ∧ t.finished = 0 then 1 else 0) = 0 := if_neg (fun h => by have := h.2; omega)
  have e2 : (if s.cur.isSome ∧ s.finished = 0 then 1 else 0) = 1 := if_pos ⟨hc, h0⟩
  rw [e1, e2]
  simp only [Nat.add_zero, Nat.mul_add, Nat.mul_one]

/-- a consumer step inside a phase: the calls to come are the same -/
theorem meas_lt_CM (e1 : t.cur = s.cur) (e2 : t.callsLeft = s.callsLeft) (e3 : t.procs.length = s.procs.length)
    (e4 : preStart t = preStart s) (e5 : mF t = mF s) (e6 : mW t = mW s)
    (h : pos t.cpc (fresh t) s.procs.length + midB t + mR t + mQ t <
      pos s.cpc (fresh s) s.procs.length + midB s + mR s + mQ s) :
    meas t < meas s := by
  unfold meas mC futW pendCall
  rw [e1, e2, e3, e4, e5, e6]
  omega

theorem meas_lt_C (e1 : t.cur = s.cur) (e2 : t.callsLeft = s.callsLeft) (e3 : t.procs.length = s.procs.length)
    (e4 : preStart t = preStart s) (e5 : mF t = mF s) (e6 : mW t = mW s)
    (h : pos t.cpc (fresh t) s.procs.length + mR t + mQ t < pos s.cpc (fresh s) s.procs.length + mR s + mQ s)
    (e9 : midB t ≤ midB s := by exact Nat.le_refl _) :
    meas t < meas s :=
  meas_lt_CM e1 e2 e3 e4 e5 e6 (by omega)

theorem pos_after {c' : CPc} (h : c' = .flowClear ∨ c' = .flowIsSet ∨ c' = .rdSending) (b : Bool) (n : Nat) :
    pos c' b n ≤ 2 * n + 2 + 27 := by
  rcases h with h | h | h <;> subst h <;> simp [pos]

/-! ### leaving a call / `__enter__` -/

theorem futW_callsLeft (s : St) : (s.callsLeft.map (fun c => callW c.chunks)).sum ≤ futW s := by
  unfold futW; omega

theorem meas_newCall_lt {call : Call} {rest : List Call} (hcl : s.callsLeft = call :: rest) (e1 : t.callsLeft = rest)
    (e2 : t.cur = some call) (e3 : t.cpc = .rInitSet ∨ t.cpc = .fInitSet) (e4 : t.procs = s.procs)
    (e5 : mF t = mF s) (e6 : mW t = mW s) (e7 : mR t = mR s) (e8 : mQ t = mQ s)
    (hp : 2 * s.procs.length + 2 + 12 ≤ pos s.cpc (fresh s) s.procs.length) : meas t < meas s := by
  have hfw := futW_callsLeft s
  have hmid : midB t ≤ midB s := by
    apply midB_le_of (by rw [e4])
    rw [e1, hcl]
    simp only [List.length_cons]
    split <;> omega
  unfold meas
  rw [e5, e6, e7, e8]
  have hps : pos t.cpc (fresh t) s.procs.length ≤ 2 * s.procs.length + 2 + 39 := by
    rcases e3 with h | h <;> rw [h] <;> simp [pos]
  have hpr : preStart t = true := by
    unfold preStart; rcases e3 with h | h <;> rw [h]
  have hm' : mC t = callW call.chunks + (rest.map (fun c => callW c.chunks)).sum + 40 * rest.length +
      pos t.cpc (fresh t) s.procs.length + midB t := by
    unfold mC futW pendCall
    rw [hpr, e1, e2, e4]; rfl
  rw [hm']
  have hm : mC s = futW s + 40 * s.callsLeft.length + pos s.cpc (fresh s) s.procs.length + midB s := rfl
  rw [hm]
  rw [hcl] at hfw ⊢
  simp only [List.map_cons, List.sum_cons, List.length_cons] at hfw ⊢
  omega

theorem meas_exit_lt (hcl : s.callsLeft = []) (e1 : t.callsLeft = s.callsLeft)
    (e3 : t.cpc = .done ∨ t.cpc = .exitPut 0) (e4 : t.procs = s.procs)
    (e5 : mF t = mF s) (e6 : mW t = mW s) (e7 : mR t = mR s) (e8 : mQ t = mQ s) (e9 : t.cur = none)
    (hp : 2 * s.procs.length + 2 + 12 ≤ pos s.cpc (fresh s) s.procs.length) : meas t < meas s := by
  have hmid : midB t ≤ midB s := by
    apply midB_le_of (by rw [e4])
    rw [e1, e9]
    simp
  unfold meas
  rw [e5, e6, e7, e8]
  have hps : pos t.cpc (fresh t) s.procs.length ≤ 2 * s.procs.length + 1 := by
    rcases e3 with h | h <;> rw [h] <;> simp [pos]; omega
  have hpr : preStart t = false := by
    unfold preStart; rcases e3 with h | h <;> rw [h]
  have hm' : mC t = pos t.cpc (fresh t) s.procs.length + midB t := by
    unfold mC futW pendCall
    rw [hpr, e1, e4, hcl]; simp
  rw [hm']
  have hm : mC s = futW s + 40 * s.callsLeft.length + pos s.cpc (fresh s) s.procs.length + midB s := rfl
  rw [hm]
  omega

theorem meas_toNextCall (hp : 2 * s.procs.length + 2 + 12 ≤ pos s.cpc (fresh s) s.procs.length) :
    meas (toNextCall s) < meas s := by
  rcases toNextCall_cases s with ⟨call, rest, hcl, heq⟩ | ⟨hcl, heq⟩
  · rw [heq]
    refine meas_newCall_lt hcl rfl rfl ?_ rfl (mF_congr rfl rfl rfl rfl) (mW_congr rfl) (mR_congr rfl rfl)
      (mQ_congr rfl rfl) hp
    show (if s.cfg.factory = true then CPc.rInitSet else CPc.fInitSet) = CPc.rInitSet ∨ _ = CPc.fInitSet
    cases s.cfg.factory <;> simp
  · rw [heq]
    refine meas_exit_lt hcl rfl ?_ rfl (mF_congr rfl rfl rfl rfl) (mW_congr rfl) (mR_congr rfl rfl)
      (mQ_congr rfl rfl) rfl hp
    show (if s.procs.length = 0 then CPc.done else CPc.exitPut 0) = CPc.done ∨ _ = CPc.exitPut 0
    by_cases hf : s.procs.length = 0 <;> simp [hf]

/-- `p.start()` -/
theorem meas_startWorker {k : Nat} {w : Worker} (hL : LInv s) (hg : getWorker s k = some w) (hpc : w.pc = .notStarted) :
    meas (setWorker s { w with pc := .bfClear }) + 1 = meas s := by
  obtain ⟨hwm, _⟩ := getWorker_some hg
  have hmw := mW_upd (s' := setWorker s { w with pc := .bfClear }) (w' := { w with pc := .bfClear }) hL hwm rfl
  unfold wWeight at hmw
  simp only [hpc, wOff] at hmw
  unfold meas
  have e1 : mC (setWorker s { w with pc := .bfClear }) = mC s := mC_congr rfl rfl rfl rfl rfl rfl rfl
  have e2 : mF (setWorker s { w with pc := .bfClear }) = mF s := mF_congr rfl rfl rfl rfl
  have e3 : mR (setWorker s { w with pc := .bfClear }) = mR s := mR_congr rfl rfl
  have e4 : mQ (setWorker s { w with pc := .bfClear }) = mQ s := mQ_congr rfl rfl
  rw [e1, e2, e3, e4]
  omega

end WindVerif.Pool
