import WindVerif.Proofs.PoolLiveAux11
/-! Termination of the pool model (C02): the steps of the consumer decrease the measure. -/
namespace WindVerif.Pool

variable {s s' t : St}

/-- `afterResults` touches only the consumer's local data and its pc -/
theorem afterResults_view (s0 : St) : ∃ c' b' w' buf' wf' fin' out',
    afterResults s0 = { s0 with buffer := buf', wf := wf', finished := fin', out := out', batch := b', woken := w',
                                cpc := c' } ∧
    (c' = .flowClear ∨ c' = .flowIsSet ∨ c' = .rdSending) := by
  cases hc : s0.cur with
  | none =>
    refine ⟨.rdSending, s0.batch, s0.woken, s0.buffer, s0.wf, s0.finished, s0.out, ?_, Or.inr (Or.inr rfl)⟩
    unfold afterResults consumeBatch
    simp [hc]
  | some call =>
    cases ho : call.ordered
    · refine ⟨.rdSending, [], false, s0.buffer, s0.wf, s0.finished + s0.batch.length,
        s0.out ++ s0.batch.map (fun j => (s0.callNo, j)), ?_, Or.inr (Or.inr rfl)⟩
      unfold afterResults consumeBatch
      simp [hc, ho]
    · have hcb : consumeBatch s0 =
          { s0 with buffer := (consumeBatch.go s0 s0.batch s0.buffer s0.wf s0.finished s0.out).1,
                    wf := (consumeBatch.go s0 s0.batch s0.buffer s0.wf s0.finished s0.out).2.1,
                    finished := (consumeBatch.go s0 s0.batch s0.buffer s0.wf s0.finished s0.out).2.2.1,
                    out := (consumeBatch.go s0 s0.batch s0.buffer s0.wf s0.finished s0.out).2.2.2, batch := [],
                    woken := false } := by
        unfold consumeBatch
        simp [hc, ho]
      generalize consumeBatch.go s0 s0.batch s0.buffer s0.wf s0.finished s0.out = g at hcb
      obtain ⟨buf, wf, fin, out⟩ := g
      dsimp only at hcb
      have hcur : (consumeBatch s0).cur = some call := by rw [hcb]; exact hc
      cases hbf : bufferFull (consumeBatch s0)
      · refine ⟨.flowIsSet, [], false, buf, wf, fin, out, ?_, Or.inr (Or.inl rfl)⟩
        have har : afterResults s0 = { consumeBatch s0 with cpc := .flowIsSet } := by
          unfold afterResults; simp [hcur, ho, hbf]
        rw [har, hcb]; simp [hc]
      · refine ⟨.flowClear, [], false, buf, wf, fin, out, ?_, Or.inl rfl⟩
        have har : afterResults s0 = { consumeBatch s0 with cpc := .flowClear } := by
          unfold afterResults; simp [hcur, ho, hbf]
        rw [har, hcb]; simp [hc]

/-- a consumer step inside a phase: the calls to come are the same -/
theorem meas_lt_C (e1 : t.cur = s.cur) (e2 : t.callsLeft = s.callsLeft) (e3 : t.procs.length = s.procs.length)
    (e4 : preStart t = preStart s) (e5 : mF t = mF s) (e6 : mW t = mW s)
    (h : pos t.cpc (fresh t) s.procs.length + mR t + mQ t < pos s.cpc (fresh s) s.procs.length + mR s + mQ s) :
    meas t < meas s := by
  unfold meas mC futW pendCall
  rw [e1, e2, e3, e4, e5, e6]
  omega

theorem pos_after {c' : CPc} (h : c' = .flowClear ∨ c' = .flowIsSet ∨ c' = .rdSending) (b : Bool) (n : Nat) :
    pos c' b n ≤ 2 * n + 2 + 27 := by
  rcases h with h | h | h <;> subst h <;> simp [pos]

/-! ### leaving a call / `__enter__` -/

theorem futW_callsLeft (s : St) : (s.callsLeft.map (fun c => callW c.chunks)).sum ≤ futW s := by
  unfold futW; omega

theorem meas_newCall_lt {call : Call} {rest : List Call} (hcl : s.callsLeft = call :: rest) (e1 : t.callsLeft = rest)
    (e2 : t.cur = some call) (e3 : t.cpc = .rInitSet ∨ t.cpc = .fInitSet) (e4 : t.procs = s.procs)
    (e5 : mF t = mF s) (e6 : mW t = mW s) (e7 : mR t = mR s) (e8 : mQ t = mQ s)
    (hp : 2 * s.procs.length + 2 + 12 ≤ pos s.cpc (fresh s) s.procs.length) : meas t < meas s := by
  have hfw := futW_callsLeft s
  unfold meas
  rw [e5, e6, e7, e8]
  have hps : pos t.cpc (fresh t) s.procs.length ≤ 2 * s.procs.length + 2 + 39 := by
    rcases e3 with h | h <;> rw [h] <;> simp [pos]
  have hpr : preStart t = true := by
    unfold preStart; rcases e3 with h | h <;> rw [h]
  have hm' : mC t = callW call.chunks + (rest.map (fun c => callW c.chunks)).sum + 40 * rest.length +
      pos t.cpc (fresh t) s.procs.length := by
    unfold mC futW pendCall
    rw [hpr, e1, e2, e4]; rfl
  rw [hm']
  have hm : mC s = futW s + 40 * s.callsLeft.length + pos s.cpc (fresh s) s.procs.length := rfl
  rw [hm]
  rw [hcl] at hfw ⊢
  simp only [List.map_cons, List.sum_cons, List.length_cons] at hfw ⊢
  omega

theorem meas_exit_lt (hcl : s.callsLeft = []) (e1 : t.callsLeft = s.callsLeft)
    (e3 : t.cpc = .done ∨ t.cpc = .exitPut 0) (e4 : t.procs = s.procs)
    (e5 : mF t = mF s) (e6 : mW t = mW s) (e7 : mR t = mR s) (e8 : mQ t = mQ s)
    (hp : 2 * s.procs.length + 2 + 12 ≤ pos s.cpc (fresh s) s.procs.length) : meas t < meas s := by
  unfold meas
  rw [e5, e6, e7, e8]
  have hps : pos t.cpc (fresh t) s.procs.length ≤ 2 * s.procs.length + 1 := by
    rcases e3 with h | h <;> rw [h] <;> simp [pos]; omega
  have hpr : preStart t = false := by
    unfold preStart; rcases e3 with h | h <;> rw [h]
  have hm' : mC t = pos t.cpc (fresh t) s.procs.length := by
    unfold mC futW pendCall
    rw [hpr, e1, e4, hcl]; simp
  rw [hm']
  have hm : mC s = futW s + 40 * s.callsLeft.length + pos s.cpc (fresh s) s.procs.length := rfl
  rw [hm]
  omega

theorem meas_toNextCall (hp : 2 * s.procs.length + 2 + 12 ≤ pos s.cpc (fresh s) s.procs.length) :
    meas (toNextCall s) < meas s := by
  rcases toNextCall_cases s with ⟨call, rest, hcl, heq⟩ | ⟨hcl, heq⟩
  · rw [heq]
    refine meas_newCall_lt hcl rfl rfl ?_ rfl (mF_congr rfl rfl rfl rfl) (mW_congr rfl) (mR_congr rfl rfl)
      (mQ_congr rfl rfl) hp
    show (if s.cfg.factory = true then CPc.rInitSet else CPc.fInitSet) = CPc.rInitSet ∨ _ = CPc.fInitSet
    cases s.cfg.factory <;> simp
  · rw [heq]
    refine meas_exit_lt hcl rfl ?_ rfl (mF_congr rfl rfl rfl rfl) (mW_congr rfl) (mR_congr rfl rfl)
      (mQ_congr rfl rfl) hp
    show (if s.procs.length = 0 then CPc.done else CPc.exitPut 0) = CPc.done ∨ _ = CPc.exitPut 0
    by_cases hf : s.procs.length = 0 <;> simp [hf]

/-- `p.start()` -/
theorem meas_startWorker {k : Nat} {w : Worker} (hL : LInv s) (hg : getWorker s k = some w) (hpc : w.pc = .notStarted) :
    meas (setWorker s { w with pc := .bfClear }) + 1 = meas s := by
  obtain ⟨hwm, _⟩ := getWorker_some hg
  have hmw := mW_upd (s' := setWorker s { w with pc := .bfClear }) (w' := { w with pc := .bfClear }) hL hwm rfl
  unfold wWeight at hmw
  simp only [hpc, wOff] at hmw
  unfold meas
  have e1 : mC (setWorker s { w with pc := .bfClear }) = mC s := mC_congr rfl rfl rfl rfl rfl rfl
  have e2 : mF (setWorker s { w with pc := .bfClear }) = mF s := mF_congr rfl rfl rfl rfl
  have e3 : mR (setWorker s { w with pc := .bfClear }) = mR s := mR_congr rfl rfl
  have e4 : mQ (setWorker s { w with pc := .bfClear }) = mQ s := mQ_congr rfl rfl
  rw [e1, e2, e3, e4]
  omega

end WindVerif.Pool
