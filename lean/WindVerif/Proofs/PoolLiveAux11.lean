import WindVerif.Proofs.PoolLiveAux10
/-! Termination of the pool model (C02): the steps of the workers, the feeder and the replace thread decrease the measure. -/
namespace WindVerif.Pool

variable {s s' : St}

theorem preStart_congr (h : s'.cpc = s.cpc) : preStart s' = preStart s := by unfold preStart; rw [h]

theorem mC_congr (h1 : s'.cpc = s.cpc) (h2 : s'.cur = s.cur) (h3 : s'.callsLeft = s.callsLeft) (h4 : s'.batch = s.batch)
    (h5 : s'.woken = s.woken) (h6 : s'.procs.length = s.procs.length) (h7 : s'.finished = s.finished) : mC s' = mC s := by
  unfold mC futW pendCall fresh midB
  rw [preStart_congr h1, h1, h2, h3, h4, h5, h6, h7]

theorem mF_congr (h1 : s'.fpc = s.fpc) (h2 : s'.fTotal = s.fTotal) (h3 : s'.fNext = s.fNext) (h4 : s'.fAlive = s.fAlive) :
    mF s' = mF s := by
  unfold mF unsentF tokPend fA
  rw [h1, h2, h3, h4]

theorem mR_congr (h1 : s'.replQ = s.replQ) (h2 : s'.rpc = s.rpc) : mR s' = mR s := by
  unfold mR; rw [h1, h2]

theorem mQ_congr (h1 : s'.resQ = s.resQ) (h2 : s'.workQ = s.workQ) : mQ s' = mQ s := by
  unfold mQ; rw [h1, h2]

theorem mW_congr (h1 : s'.workers = s.workers) : mW s' = mW s := by
  unfold mW; rw [h1]

/-! ### the workers -/

theorem meas_stepW {wid : Nat} (hf : NoFaults s.cfg) (hwc : WellCfg s.cfg) (hL : LInv s) (h : stepW s wid = some s') :
    meas s' < meas s := by
  obtain ⟨w, w', hst⟩ := stepW_cases hf hwc hL h
  have hs := hst.same
  have hmc := mC_congr hs.cpc hs.cur hs.callsLeft hs.batch hs.woken (by rw [hs.procs]) hs.finished
  have hmf := mF_congr hs.fpc hs.fTotal hs.fNext hs.fAlive
  have hmw := mW_upd hL hst.mem hst.workers
  unfold meas
  rw [hmc, hmf]
  have hk := hst.kind
  unfold wWeight at hmw
  generalize hT : (if w.held.isSome = true then 20 else 0) = T at hmw
  generalize hT' : (if w'.held.isSome = true then 20 else 0) = T' at hmw
  have hmr : ∀ q, s'.replQ = q → mR s' = 8 * someCount q + noneCount q + rOff s.rpc := by
    intro q hq; unfold mR; rw [hq, hs.rpc]
  have hmq : ∀ q1 q2, s'.resQ = q1 → s'.workQ = q2 → mQ s' = 20 * q1.length + 33 * someCount q2 := by
    intro q1 q2 h1 h2; unfold mQ; rw [h1, h2]
  have hmr0 : mR s = 8 * someCount s.replQ + noneCount s.replQ + rOff s.rpc := rfl
  have hmq0 : mQ s = 20 * s.resQ.length + 33 * someCount s.workQ := rfl
  have hsame : w'.held = w.held → T' = T := by intro e; rw [← hT, ← hT', e]
  have hnone : w'.held = none → T' = 0 := by intro e; rw [← hT', e]; rfl
  have hsome : ∀ i, w'.held = some i → T' = 20 := by intro i e; rw [← hT', e]; rfl
  have hsome0 : ∀ i, w.held = some i → T = 20 := by intro i e; rw [← hT, e]; rfl
  wkcases hk
  · -- bfClear
    rw [hpc, hpc'] at hmw; simp only [wOff] at hmw
    rw [hmr _ hpq, hmq _ _ hrq hwq, ← hmr0, ← hmq0]; have := hsame hh; omega
  · -- bfSet
    rw [hpc, hpc'] at hmw; simp only [wOff] at hmw
    rw [hmr _ hpq, hmq _ _ hrq hwq, ← hmr0, ← hmq0]; have := hsame hh; omega
  · -- getNone
    rw [hpc, hpc'] at hmw; simp only [wOff] at hmw
    have hq2 : someCount s.workQ = someCount s'.workQ := by rw [hwq, someCount_cons_none]
    rw [hmr _ hpq, hmq _ _ hrq rfl, ← hmr0, hmq0, hq2]; have := hnone hh; omega
  · -- getSome
    rw [hpc, hpc'] at hmw; simp only [wOff] at hmw
    have hq2 : someCount s.workQ = someCount s'.workQ + 1 := by rw [hwq, someCount_cons_some]
    rw [hmr _ hpq, hmq _ _ hrq rfl, ← hmr0, hmq0, hq2]; have := hsome i hh; omega
  · -- lockAcq
    rw [hpc, hpc'] at hmw; simp only [wOff] at hmw
    rw [hmr _ hpq, hmq _ _ hrq hwq, ← hmr0, ← hmq0]; have := hsame hh; omega
  · -- putFull
    rw [hpc, hpc'] at hmw; simp only [wOff] at hmw
    rw [hmr _ hpq, hmq _ _ hrq hwq, ← hmr0, ← hmq0]; have := hsame hh; omega
  · -- putOk
    rw [hpc, hpc'] at hmw; simp only [wOff] at hmw
    rw [hmr _ hpq, hmq _ _ hrq hwq, ← hmr0, hmq0]
    have := hnone hh; have := hsome0 i hheld
    simp only [List.length_append, List.length_singleton]; omega
  · -- relFull
    rw [hpc, hpc'] at hmw; simp only [wOff] at hmw
    rw [hmr _ hpq, hmq _ _ hrq hwq, ← hmr0, ← hmq0]; have := hsame hh; omega
  · -- relOk
    rw [hmr _ hpq, hmq _ _ hrq hwq, ← hmr0, ← hmq0]; have := hsame hh
    rcases hpc' with hp | ⟨hp, _⟩ <;> rw [hpc, hp] at hmw <;> simp only [wOff] at hmw <;> omega
  · -- putBlock
    rw [hmr _ hpq, hmq _ _ hrq hwq, ← hmr0, hmq0]
    have := hnone hh; have := hsome0 i hheld
    simp only [List.length_append, List.length_singleton]
    rcases hpc' with hp | ⟨hp, _⟩ <;> rw [hpc, hp] at hmw <;> simp only [wOff] at hmw <;> omega
  · -- retire: the wid is posted, `end()` still to run
    rw [hpc, hpc'] at hmw; simp only [wOff] at hmw
    rw [hmr _ hpq, hmq _ _ hrq hwq, hmr0, ← hmq0, someCount_append_some, noneCount_append_some]
    have := hnone hh; omega
  · -- `end()` of a retired worker
    rw [hpc, hpc'] at hmw; simp only [wOff] at hmw
    rw [hmr _ hpq, hmq _ _ hrq hwq, ← hmr0, ← hmq0]; have := hnone hh; omega


/-! ### the feeder -/

theorem meas_lt_FQ (h1 : mC s' = mC s) (h2 : mW s' = mW s) (h3 : mR s' = mR s) (h : mF s' + mQ s' < mF s + mQ s) :
    meas s' < meas s := by
  unfold meas; omega

/-- closes the frame part of a feeder step -/
macro "fstep" : tactic => `(tactic|
  (refine meas_lt_FQ ?_ ?_ ?_ ?_
   · exact mC_congr rfl rfl rfl rfl rfl rfl rfl
   · exact mW_congr rfl
   · exact mR_congr rfl rfl))

theorem meas_stepF (hS : SafeInv s) (h : stepF s = some s') : meas s' < meas s := by
  unfold stepF at h
  split at h
  · cases h
  · rename_i hal
    have hal' : s.fAlive = true := by simpa using hal
    cases hf : s.fpc <;> simp only [hf] at h
    case idle => cases h
    case put =>
      split at h
      · cases h
      · simp only [Option.some.injEq] at h; subst h
        have hpre : preStart s = false := by
          cases hp : preStart s
          · rfl
          · have := hS.preIdle hp; rw [hf] at this; cases this
        have hcur : s.cur.isSome = true := by
          cases hc : s.cur with
          | none => have := hS.noCallF hc; rw [hf] at this; cases this
          | some c => rfl
        have hlt := (hS.cntPut hpre hcur (Or.inl hf)).2
        fstep
        unfold mF unsentF tokPend fA mQ
        simp only [hf, hal', someCount_append_some, fOff, if_true]
        simp
        omega
    case rdCnt =>
      simp only [Option.some.injEq] at h; subst h
      fstep
      unfold mF unsentF tokPend fA mQ
      simp only [hf, hal', fOff, if_true]
      simp
    case wrCnt =>
      simp only [Option.some.injEq] at h; subst h
      fstep
      unfold mF unsentF tokPend fA mQ
      simp only [hf, hal', fOff, if_true]
      simp
    case stopIsSet =>
      split at h <;> simp only [Option.some.injEq] at h <;> subst h
      · fstep
        unfold mF unsentF tokPend fA mQ
        simp only [hf, hal', fOff, if_true]
        simp
        omega
      · fstep
        unfold mF unsentF tokPend fA mQ
        simp only [hf, hal', fOff, if_true]
        simp
    case runWait =>
      split at h
      · split at h <;> simp only [Option.some.injEq] at h <;> subst h
        · rename_i hlt
          fstep
          unfold mF unsentF tokPend fA mQ
          simp only [hf, hal', fOff, if_true]
          simp
          omega
        · fstep
          unfold mF unsentF tokPend fA mQ
          simp only [hf, hal', fOff, if_true]
          simp
          omega
      · cases h
    case wrSending =>
      simp only [Option.some.injEq] at h; subst h
      fstep
      unfold mF unsentF tokPend fA mQ
      simp only [hf, hal', fOff, if_true]
      simp
    case token =>
      simp only [Option.some.injEq] at h; subst h
      split
      · fstep
        unfold mF unsentF tokPend fA mQ
        simp only [hf, hal', fOff, if_true]
        simp
        omega
      · fstep
        unfold mF unsentF tokPend fA mQ
        simp only [hf, hal', fOff, if_true]
        simp
        omega


/-! ### the replace thread -/

theorem meas_lt_WR (h1 : mC s' = mC s) (h2 : mF s' = mF s) (h3 : mQ s' = mQ s) (h : mW s' + mR s' < mW s + mR s) :
    meas s' < meas s := by
  unfold meas; omega

theorem mWR_lt {t : St} (e1 : t.workers = s.workers) (h : mR t < mR s) : mW t + mR t < mW s + mR s := by
  rw [mW_congr e1]; omega

theorem mWR_start_lt {t : St} {nw : Nat} {w : Worker} (hL : LInv s) (hwm : w ∈ s.workers) (hpc : w.pc = .notStarted)
    (hr : s.rpc = .start nw) (e1 : t.workers = upd w.wid { w with pc := .bfClear } s.workers) (e2 : t.replQ = s.replQ)
    (e3 : t.rpc = .get) : mW t + mR t < mW s + mR s := by
  have hmw := mW_upd (w' := { w with pc := .bfClear }) hL hwm e1
  unfold wWeight at hmw
  simp only [hpc, wOff] at hmw
  unfold mR
  rw [e2, e3, hr]
  simp only [rOff]
  omega

theorem mWR_join_lt {t : St} {wid : Nat} (hr : s.rpc = .join wid) (e1 : t.workers = s.workers ++ [mkWorker s.cfg s.widCounter])
    (e2 : t.replQ = s.replQ) (e3 : t.rpc = .start s.widCounter) : mW t + mR t < mW s + mR s := by
  unfold mR mW
  rw [e1, e2, e3, hr]
  simp only [rOff, List.map_append, List.sum_append, List.map_cons, List.map_nil, List.sum_cons, List.sum_nil]
  simp [wWeight, mkWorker, wOff]
  omega

theorem meas_stepR (hL : LInv s) (h : stepR s = some s') : meas s' < meas s := by
  unfold stepR at h
  split at h
  · cases h
  · cases hr : s.rpc <;> simp only [hr] at h
    case idle => cases h
    case get =>
      split at h
      · cases h
      · rename_i r hq
        simp only [Option.some.injEq] at h; subst h
        refine meas_lt_WR (mC_congr rfl rfl rfl rfl rfl rfl rfl) (mF_congr rfl rfl rfl rfl) (mQ_congr rfl rfl) (mWR_lt rfl ?_)
        unfold mR
        simp only [hr, hq, rOff, someCount_cons_none, noneCount_cons_none]
        omega
      · rename_i wid r hq
        simp only [Option.some.injEq] at h; subst h
        refine meas_lt_WR (mC_congr rfl rfl rfl rfl rfl rfl rfl) (mF_congr rfl rfl rfl rfl) (mQ_congr rfl rfl) (mWR_lt rfl ?_)
        unfold mR
        simp only [hr, hq, rOff, someCount_cons_some, noneCount_cons_some]
        omega
    case join wid =>
      split at h
      · simp only [Option.some.injEq] at h; subst h
        exact meas_lt_WR (mC_congr rfl rfl rfl rfl rfl (by simp) rfl) (mF_congr rfl rfl rfl rfl) (mQ_congr rfl rfl)
          (mWR_join_lt hr rfl rfl rfl)
      · cases h
    case start nw =>
      split at h
      · cases h
      · rename_i w hg
        simp only [Option.some.injEq] at h; subst h
        obtain ⟨hwm, hwid⟩ := getWorker_some hg
        have hpc : w.pc = .notStarted := hL.rStarting nw hr w hwm hwid
        exact meas_lt_WR (mC_congr rfl rfl rfl rfl rfl rfl rfl) (mF_congr rfl rfl rfl rfl) (mQ_congr rfl rfl)
          (mWR_start_lt hL hwm hpc hr rfl rfl rfl)

end WindVerif.Pool
