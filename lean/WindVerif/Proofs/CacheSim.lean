import WindVerif.Spec.CacheOps
/-! Generic lemmas: a simulation of the three primitives transports every mixin and every history. -/
namespace WindVerif.Cache

variable {σ τ : Type} {P : Prim σ} {Q : Prim τ} {R : σ → τ → Prop}

/-! ### inversion / introduction lemmas for `RelRes` and `RelSt` -/

theorem RelRes.inv {α : Type} {s : σ} {t : τ} {a : Except Err (σ × α)} {b : Except Err (τ × α)}
    (h : RelRes R s t a b) :
    (∃ s' t' v, a = .ok (s', v) ∧ b = .ok (t', v) ∧ R s' t') ∨ (∃ e, a = .error e ∧ b = .error e ∧ R s t) := by
  cases a with
  | ok x =>
    cases b with
    | ok y =>
      obtain ⟨s', x⟩ := x
      obtain ⟨t', y⟩ := y
      simp only [RelRes] at h
      obtain ⟨h1, h2⟩ := h
      subst h2
      exact .inl ⟨s', t', x, rfl, rfl, h1⟩
    | error e => simp [RelRes] at h
  | error e =>
    cases b with
    | ok y => simp [RelRes] at h
    | error e' =>
      simp only [RelRes] at h
      obtain ⟨h1, h2⟩ := h
      subst h1
      exact .inr ⟨e, rfl, rfl, h2⟩

theorem RelSt.inv {s : σ} {t : τ} {a : Except Err σ} {b : Except Err τ}
    (h : RelSt R s t a b) :
    (∃ s' t', a = .ok s' ∧ b = .ok t' ∧ R s' t') ∨ (∃ e, a = .error e ∧ b = .error e ∧ R s t) := by
  cases a with
  | ok s' =>
    cases b with
    | ok t' => exact .inl ⟨s', t', rfl, rfl, h⟩
    | error e => simp [RelSt] at h
  | error e =>
    cases b with
    | ok y => simp [RelSt] at h
    | error e' =>
      simp only [RelSt] at h
      obtain ⟨h1, h2⟩ := h
      subst h1
      exact .inr ⟨e, rfl, rfl, h2⟩

theorem RelRes.ok {α : Type} {s : σ} {t : τ} {s' : σ} {t' : τ} (v : α) (h : R s' t') :
    RelRes R s t (.ok (s', v)) (.ok (t', v)) := ⟨h, rfl⟩

theorem RelRes.err {α : Type} {s : σ} {t : τ} (e : Err) (h : R s t) :
    RelRes (α := α) R s t (.error e) (.error e) := ⟨rfl, h⟩

theorem RelSt.err {s : σ} {t : τ} (e : Err) (h : R s t) :
    RelSt R s t (.error e) (.error e) := ⟨rfl, h⟩

/-! ### the mixins one by one -/

theorem contains_refine (h : Sim P Q R) (s : σ) (t : τ) (k : Key) (hr : R s t) :
    RelRes R s t (contains P s k) (contains Q t k) := by
  rcases (h.get s t k hr).inv with ⟨s', t', v, hp, hq, hr'⟩ | ⟨e, hp, hq, _⟩
  · simp only [contains, hp, hq]
    exact RelRes.ok _ hr'
  · cases e
    · simp only [contains, hp, hq]
      exact RelRes.ok _ hr
    · simp only [contains, hp, hq]
      exact RelRes.err _ hr
    · simp only [contains, hp, hq]
      exact RelRes.err _ hr

theorem getD_refine (h : Sim P Q R) (s : σ) (t : τ) (k : Key) (hr : R s t) :
    RelRes R s t (getD P s k) (getD Q t k) := by
  rcases (h.get s t k hr).inv with ⟨s', t', v, hp, hq, hr'⟩ | ⟨e, hp, hq, _⟩
  · simp only [getD, hp, hq]
    exact RelRes.ok _ hr'
  · cases e
    · simp only [getD, hp, hq]
      exact RelRes.ok _ hr
    · simp only [getD, hp, hq]
      exact RelRes.err _ hr
    · simp only [getD, hp, hq]
      exact RelRes.err _ hr

theorem itemsFrom_refine (h : Sim P Q R) (ks : List Key) (s : σ) (t : τ) (hr : R s t) :
    RelRes R s t (itemsFrom P s ks) (itemsFrom Q t ks) := by
  induction ks generalizing s t with
  | nil => exact RelRes.ok _ hr
  | cons k ks ih =>
    rcases (h.get s t k hr).inv with ⟨s', t', v, hp, hq, hr'⟩ | ⟨e, hp, hq, _⟩
    · rcases (ih s' t' hr').inv with ⟨s'', t'', r, hp', hq', hr''⟩ | ⟨e, hp', hq', _⟩
      · simp only [itemsFrom, hp, hq, hp', hq']
        exact RelRes.ok _ hr''
      · simp only [itemsFrom, hp, hq, hp', hq']
        exact RelRes.err _ hr
    · simp only [itemsFrom, hp, hq]
      exact RelRes.err _ hr

theorem items_refine (h : Sim P Q R) (s : σ) (t : τ) (hr : R s t) :
    RelRes R s t (items P s) (items Q t) := by
  unfold items
  rw [h.keys s t hr]
  exact itemsFrom_refine h _ s t hr

theorem pop_refine (h : Sim P Q R) (s : σ) (t : τ) (k : Key) (hr : R s t) :
    RelRes R s t (pop P s k) (pop Q t k) := by
  rcases (h.get s t k hr).inv with ⟨s', t', v, hp, hq, hr'⟩ | ⟨e, hp, hq, _⟩
  · rcases (h.del s' t' k hr').inv with ⟨s'', t'', hp', hq', hr''⟩ | ⟨e, hp', hq', _⟩
    · simp only [pop, hp, hq, hp', hq']
      exact RelRes.ok _ hr''
    · simp only [pop, hp, hq, hp', hq']
      exact RelRes.err _ hr
  · simp only [pop, hp, hq]
    exact RelRes.err _ hr

theorem popitem_refine (h : Sim P Q R) (s : σ) (t : τ) (hr : R s t) :
    RelRes R s t (popitem P s) (popitem Q t) := by
  unfold popitem
  rw [h.keys s t hr]
  cases Q.keys t with
  | nil => exact RelRes.err _ hr
  | cons k ks =>
    rcases (pop_refine h s t k hr).inv with ⟨s', t', v, hp, hq, hr'⟩ | ⟨e, hp, hq, _⟩
    · simp only [hp, hq]
      exact RelRes.ok _ hr'
    · simp only [hp, hq]
      exact RelRes.err _ hr

theorem clearLoop_refine (h : Sim P Q R) (fuel : Nat) (s : σ) (t : τ) (hr : R s t) :
    RelSt R s t (clearLoop P s fuel) (clearLoop Q t fuel) := by
  induction fuel generalizing s t with
  | zero => exact hr
  | succ fuel ih =>
    unfold clearLoop
    rw [h.keys s t hr]
    cases Q.keys t with
    | nil => exact hr
    | cons k ks =>
      rcases (popitem_refine h s t hr).inv with ⟨s', t', v, hp, hq, hr'⟩ | ⟨e, hp, hq, _⟩
      · simp only [hp, hq]
        rcases (ih s' t' hr').inv with ⟨s'', t'', hp', hq', hr''⟩ | ⟨e, hp', hq', _⟩
        · rw [hp', hq']
          exact hr''
        · rw [hp', hq']
          exact RelSt.err _ hr
      · simp only [hp, hq]
        exact RelSt.err _ hr

theorem clear_refine (h : Sim P Q R) (s : σ) (t : τ) (hr : R s t) :
    RelSt R s t (clear P s) (clear Q t) := by
  unfold clear
  rw [h.len s t hr]
  exact clearLoop_refine h _ s t hr

theorem update_refine (h : Sim P Q R) (ps : List (Key × Val)) (s : σ) (t : τ) (hr : R s t) :
    RelSt R s t (update P s ps) (update Q t ps) := by
  induction ps generalizing s t with
  | nil => exact hr
  | cons p ps ih =>
    obtain ⟨k, v⟩ := p
    rcases (h.set s t k v hr).inv with ⟨s', t', hp, hq, hr'⟩ | ⟨e, hp, hq, _⟩
    · simp only [update, hp, hq]
      rcases (ih s' t' hr').inv with ⟨s'', t'', hp', hq', hr''⟩ | ⟨e, hp', hq', _⟩
      · rw [hp', hq']
        exact hr''
      · rw [hp', hq']
        exact RelSt.err _ hr
    · simp only [update, hp, hq]
      exact RelSt.err _ hr

theorem setdefault_refine (h : Sim P Q R) (s : σ) (t : τ) (k : Key) (v : Val) (hr : R s t) :
    RelRes R s t (setdefault P s k v) (setdefault Q t k v) := by
  rcases (h.get s t k hr).inv with ⟨s', t', w, hp, hq, hr'⟩ | ⟨e, hp, hq, _⟩
  · simp only [setdefault, hp, hq]
    exact RelRes.ok _ hr'
  · cases e
    · rcases (h.set s t k v hr).inv with ⟨s', t', hp', hq', hr'⟩ | ⟨e, hp', hq', _⟩
      · simp only [setdefault, hp, hq, hp', hq']
        exact RelRes.ok _ hr'
      · simp only [setdefault, hp, hq, hp', hq']
        exact RelRes.err _ hr
    · simp only [setdefault, hp, hq]
      exact RelRes.err _ hr
    · simp only [setdefault, hp, hq]
      exact RelRes.err _ hr

theorem eqDict_refine (h : Sim P Q R) (s : σ) (t : τ) (o : List (Key × Val)) (hr : R s t) :
    RelRes R s t (eqDict P s o) (eqDict Q t o) := by
  rcases (items_refine h s t hr).inv with ⟨s', t', its, hp, hq, hr'⟩ | ⟨e, hp, hq, _⟩
  · simp only [eqDict, hp, hq]
    exact RelRes.ok _ hr'
  · simp only [eqDict, hp, hq]
    exact RelRes.err _ hr

theorem mixins_refine (h : Sim P Q R) : MixinSim P Q R where
  contains := fun s t k hr => contains_refine h s t k hr
  getD := fun s t k hr => getD_refine h s t k hr
  items := fun s t hr => items_refine h s t hr
  pop := fun s t k hr => pop_refine h s t k hr
  popitem := fun s t hr => popitem_refine h s t hr
  clear := fun s t hr => clear_refine h s t hr
  update := fun s t ps hr => update_refine h ps s t hr
  setdefault := fun s t k v hr => setdefault_refine h s t k v hr
  eqDict := fun s t o hr => eqDict_refine h s t o hr

/-- one step: same observation, relation re-established -/
theorem stepOp_refines (h : Sim P Q R) (s : σ) (t : τ) (hr : R s t) (op : COp) :
    (stepOp P s op).2 = (stepOp Q t op).2 ∧ R (stepOp P s op).1 (stepOp Q t op).1 := by
  have m := mixins_refine h
  cases op with
  | set k v =>
    rcases (h.set s t k v hr).inv with ⟨s', t', hp, hq, hr'⟩ | ⟨e, hp, hq, _⟩ <;>
      simp only [stepOp, hp, hq] <;> exact ⟨by first | trivial | rfl, by assumption⟩
  | get k =>
    rcases (h.get s t k hr).inv with ⟨s', t', v, hp, hq, hr'⟩ | ⟨e, hp, hq, _⟩ <;>
      simp only [stepOp, hp, hq] <;> exact ⟨by first | trivial | rfl, by assumption⟩
  | del k =>
    rcases (h.del s t k hr).inv with ⟨s', t', hp, hq, hr'⟩ | ⟨e, hp, hq, _⟩ <;>
      simp only [stepOp, hp, hq] <;> exact ⟨by first | trivial | rfl, by assumption⟩
  | has k =>
    rcases (m.contains s t k hr).inv with ⟨s', t', v, hp, hq, hr'⟩ | ⟨e, hp, hq, _⟩ <;>
      simp only [stepOp, hp, hq] <;> exact ⟨by first | trivial | rfl, by assumption⟩
  | len => exact ⟨by simp only [stepOp, h.len s t hr], hr⟩
  | keys => exact ⟨by simp only [stepOp, h.keys s t hr], hr⟩
  | values =>
    rcases (m.items s t hr).inv with ⟨s', t', v, hp, hq, hr'⟩ | ⟨e, hp, hq, _⟩ <;>
      simp only [stepOp, hp, hq] <;> exact ⟨by first | trivial | rfl, by assumption⟩
  | items =>
    rcases (m.items s t hr).inv with ⟨s', t', v, hp, hq, hr'⟩ | ⟨e, hp, hq, _⟩ <;>
      simp only [stepOp, hp, hq] <;> exact ⟨by first | trivial | rfl, by assumption⟩
  | getd k =>
    rcases (m.getD s t k hr).inv with ⟨s', t', v, hp, hq, hr'⟩ | ⟨e, hp, hq, _⟩
    · cases v <;> simp only [stepOp, hp, hq] <;> exact ⟨by first | trivial | rfl, by assumption⟩
    · simp only [stepOp, hp, hq]; exact ⟨by first | trivial | rfl, hr⟩
  | pop k =>
    rcases (m.pop s t k hr).inv with ⟨s', t', v, hp, hq, hr'⟩ | ⟨e, hp, hq, _⟩ <;>
      simp only [stepOp, hp, hq] <;> exact ⟨by first | trivial | rfl, by assumption⟩
  | popitem =>
    rcases (m.popitem s t hr).inv with ⟨s', t', ⟨k, v⟩, hp, hq, hr'⟩ | ⟨e, hp, hq, _⟩ <;>
      simp only [stepOp, hp, hq] <;> exact ⟨by first | trivial | rfl, by assumption⟩
  | clear =>
    rcases (m.clear s t hr).inv with ⟨s', t', hp, hq, hr'⟩ | ⟨e, hp, hq, _⟩ <;>
      simp only [stepOp, hp, hq] <;> exact ⟨by first | trivial | rfl, by assumption⟩
  | update ps =>
    rcases (m.update s t ps hr).inv with ⟨s', t', hp, hq, hr'⟩ | ⟨e, hp, hq, _⟩ <;>
      simp only [stepOp, hp, hq] <;> exact ⟨by first | trivial | rfl, by assumption⟩
  | setdefault k v =>
    rcases (m.setdefault s t k v hr).inv with ⟨s', t', w, hp, hq, hr'⟩ | ⟨e, hp, hq, _⟩ <;>
      simp only [stepOp, hp, hq] <;> exact ⟨by first | trivial | rfl, by assumption⟩
  | eq other =>
    rcases (m.eqDict s t other hr).inv with ⟨s', t', w, hp, hq, hr'⟩ | ⟨e, hp, hq, _⟩ <;>
      simp only [stepOp, hp, hq] <;> exact ⟨by first | trivial | rfl, by assumption⟩

/-- every history: same observations on both sides, and the relation holds at the end -/
theorem run_refines (h : Sim P Q R) (s : σ) (t : τ) (hr : R s t) (ops : List COp) :
    (runOps P s ops).2 = (runOps Q t ops).2 ∧ R (runOps P s ops).1 (runOps Q t ops).1 := by
  induction ops generalizing s t with
  | nil => exact ⟨rfl, hr⟩
  | cons op ops ih =>
    obtain ⟨ho, hr'⟩ := stepOp_refines h s t hr op
    obtain ⟨hos, hr''⟩ := ih _ _ hr'
    simp only [runOps]
    exact ⟨by rw [ho, hos], hr''⟩

end WindVerif.Cache
