import WindVerif.Proofs.StorageInv1
/-! Auxiliary development for `Storage.lean`, part 2: the control layer `InvA` is inductive. -/
namespace WindVerif.Storage
set_option linter.unusedSimpArgs false

theorem acquire_some {s s' : St} {i : Nat} {p : Proc} {next : Pc} (h : acquire s i p next = some s') :
    (s.lock = none ∧ s' = setProc { s with lock := some i } i { p with depth := 1, pc := next }) ∨
    (s.lock = some i ∧ s' = setProc s i { p with depth := p.depth + 1, pc := next }) := by
  unfold acquire at h
  split at h
  · left; simp_all
  · rename_i h' hl
    split at h
    · subst_vars; right; simp_all
    · simp at h

/-- the part of `LocA` of another process survives a step that does not concern it -/
theorem LocA.frame {scripts : List (List Op)} {s s' : St} {j : Nat} {q : Proc} (h : LocA scripts s j q)
    (hl : s'.lock = some j ↔ s.lock = some j) (hp : s.paths.length ≤ s'.paths.length)
    (hp2 : s.lock = some j → s'.paths = s.paths) : LocA scripts s' j q := by
  obtain ⟨h1, h2, h3, h4, h5, h6, h7, h8, h9, h10, h11, h12, h13⟩ := h
  refine ⟨h1, h2, h3, h4, ?_, ?_, h7, h8, h9, h10, h11, h12, ?_⟩
  · rw [hl]; exact h5
  · intro w hw; have := h6 w hw; omega
  · intro hpc
    have : 0 < dep q := by simp [dep, hpc]
    rw [hp2 (h5.1 this)]; exact h13 hpc

/-- steps that change neither the paths nor the identifier of the stepping process -/
theorem InvA.step_lock {scripts : List (List Op)} {s s' : St} {i : Nat} {p p' : Proc} (hA : InvA scripts s)
    (hp : s.procs[i]? = some p) (hprocs : s'.procs = s.procs.set i p')
    (hlock : ∀ j, j ≠ i → (s'.lock = some j ↔ s.lock = some j))
    (hpaths : s'.paths = s.paths) (hid : p'.ident = p.ident) (hloc : LocA scripts s' i p') : InvA scripts s' := by
  constructor
  · intro j q hq
    rw [hprocs, getElem?_set_proc _ _ _ _ _ _ hp] at hq
    rcases hq with ⟨rfl, rfl⟩ | ⟨hji, hq⟩
    · exact hloc
    · exact (hA.loc j q hq).frame (hlock j hji) (by rw [hpaths]; exact Nat.le_refl _) (fun _ => hpaths)
  · intro j k q r w hq hr hqw hrw
    rw [hprocs, getElem?_set_proc _ _ _ _ _ _ hp] at hq hr
    rcases hq with ⟨rfl, rfl⟩ | ⟨hji, hq⟩ <;> rcases hr with ⟨rfl, rfl⟩ | ⟨hki, hr⟩
    · rfl
    · exact hA.uniq _ _ _ _ w hp hr (hid ▸ hqw) hrw
    · exact hA.uniq _ _ _ _ w hq hp hqw (hid ▸ hrw)
    · exact hA.uniq _ _ _ _ w hq hr hqw hrw

/-- steps that change neither the lock nor the paths nor the identifier of the stepping process -/
theorem InvA.step_local {scripts : List (List Op)} {s s' : St} {i : Nat} {p p' : Proc} (hA : InvA scripts s)
    (hp : s.procs[i]? = some p) (hprocs : s'.procs = s.procs.set i p') (hlock : s'.lock = s.lock)
    (hpaths : s'.paths = s.paths) (hid : p'.ident = p.ident) (hloc : LocA scripts s' i p') : InvA scripts s' :=
  hA.step_lock hp hprocs (fun _ _ => by rw [hlock]) hpaths hid hloc

theorem fetch_LocA {scripts : List (List Op)} {s : St} {i : Nat} {p : Proc} {sc : List Op}
    (hsc : scripts[i]? = some sc) (hd : sc.drop p.results.length = p.script) (hnf : Op.flush ∉ p.script)
    (hpc : p.pc = .idle) (hdep : p.depth = 0) (hlock : s.lock ≠ some i) (hid : ∀ w, p.ident = some w → w < s.paths.length)
    (hopen : p.wOpen = true → p.ident.isSome = true) : LocA scripts s i (fetch p) := by
  unfold fetch
  split
  · rename_i hs
    constructor <;> simp_all [curOp, dep, isF, isO, isS]
  · rename_i op rest hs
    cases op with
    | store g t =>
      simp only
      split
      · constructor <;> simp_all [curOp, dep, isF, isO, isS]
      · split
        · constructor <;> simp_all [curOp, dep, isF, isO, isS]
        · constructor <;> simp_all [curOp, dep, isF, isO, isS]
    | read g => constructor <;> simp_all [curOp, dep, isF, isO, isS]
    | len => constructor <;> simp_all [curOp, dep, isF, isO, isS]
    | contig => constructor <;> simp_all [curOp, dep, isF, isO, isS]
    | iter => constructor <;> simp_all [curOp, dep, isF, isO, isS]
    | flush => simp_all
    | close => constructor <;> simp_all [curOp, dep, isF, isO, isS]

set_option linter.unusedSimpArgs false

theorem release_le {s : St} {i : Nat} {p : Proc} (h : p.depth ≤ 1) :
    release s i p = ({ s with lock := none }, { p with depth := 0 }) := by simp [release, h]

theorem release_gt {s : St} {i : Nat} {p : Proc} (h : ¬ p.depth ≤ 1) :
    release s i p = (s, { p with depth := p.depth - 1 }) := by simp [release, h]

theorem drop_succ_of_drop_cons {α : Type} {l r : List α} {a : α} {n : Nat} (h : l.drop n = a :: r) : l.drop (n + 1) = r := by
  rw [← List.drop_drop, h]; rfl

theorem finish_LocA {scripts : List (List Op)} {s s' : St} {i : Nat} {p p0 : Proc} (r : Res)
    (hL : LocA scripts s i p) (h1 : p.pc ≠ .idle) (_h2 : p.pc ≠ .oRel) (_h3 : p.pc ≠ .oOpenW)
    (e1 : p0.script = p.script) (e2 : p0.results = p.results) (e3 : p0.ident = p.ident)
    (e4 : p0.wOpen = true → p.wOpen = true)
    (e5 : p0.depth = 0) (hl : s'.lock ≠ some i) (hpaths : s'.paths = s.paths) : LocA scripts s' i (finish p0 r) := by
  obtain ⟨sc, hsc, hd⟩ := hL.hist
  have hcur : ∃ op, curOp p = some op := by
    unfold curOp; cases hpc : p.pc <;> simp_all <;> split <;> simp
  obtain ⟨op, hop⟩ := hcur
  rw [hop] at hd
  unfold finish
  refine fetch_LocA hsc ?_ ?_ rfl ?_ hl ?_ ?_
  · simp only [List.length_append, List.length_cons, List.length_nil, e2, e1]
    exact drop_succ_of_drop_cons hd
  · simpa [e1] using hL.noFs
  · simpa using e5
  · intro w hw; rw [hpaths]; exact hL.identLt w (by simpa [e3] using hw)
  · intro hw; rw [e3]; exact hL.openId (e4 hw)

set_option hygiene false in
/-- `stepA name pc => tac`: the step case for `pc` of the preservation of `InvA` -/
macro "stepA " name:ident pc:term " => " tac:tacticSeq : command =>
  `(theorem $name {scripts : List (List Op)} {s s' : St} {i : Nat} {p : Proc} (hA : InvA scripts s)
      (hp : s.procs[i]? = some p) (hpc : p.pc = $pc) (hs : step s i = some s') : InvA scripts s' := by
    have hL := hA.loc i p hp
    simp only [step, getProc_eq, hp, hpc] at hs
    ($tac))

set_option hygiene false in
macro "localA" : tactic =>
  `(tactic| (
      simp only [Option.some.injEq] at hs; subst hs
      obtain ⟨h1, h2, h3, h4, h5, h6, h7, h8, h9, h10, h11, h12, h13⟩ := hL
      refine InvA.step_local hA hp (p' := _) rfl rfl rfl rfl ?_
      constructor <;> simp_all [curOp, dep, isF, isO, isS]))

set_option hygiene false in
macro "flushA" : tactic => `(tactic| (have := hL.noF; simp [hpc, isF] at this))

set_option hygiene false in
macro "acqA" : tactic =>
  `(tactic| (
      obtain ⟨h1, h2, h3, h4, h5, h6, h7, h8, h9, h10, h11, h12, h13⟩ := hL
      rcases acquire_some hs with ⟨hl, rfl⟩ | ⟨hl, rfl⟩
      · refine InvA.step_lock hA hp (p' := _) rfl (fun j hj => ?_) rfl rfl ?_
        · simp only [setProc_lock, hl, Option.some.injEq]; constructor <;> intro h <;> simp_all
        · constructor <;> simp_all [curOp, dep, isF, isO, isS]
      · refine InvA.step_local hA hp (p' := _) rfl rfl rfl rfl ?_
        constructor <;> simp_all [curOp, dep, isF, isO, isS]))

stepA InvA.s_oPathsLen .oPathsLen => localA
stepA InvA.s_oPathsGet .oPathsGet => localA
stepA InvA.s_oOpenA .oOpenA => localA
stepA InvA.s_oOpenW .oOpenW => localA
stepA InvA.s_sIdxLen2 .sIdxLen2 => localA
stepA InvA.s_sIdxExtend .sIdxExtend => localA
stepA InvA.s_sTell .sTell => localA
stepA InvA.s_sWriteText .sWriteText => localA
stepA InvA.s_sWriteNl .sWriteNl => localA
stepA InvA.s_sFlush .sFlush => localA
stepA InvA.s_sIdxSet .sIdxSet => localA
stepA InvA.s_sCntRead .sCntRead => localA
stepA InvA.s_sCntWrite .sCntWrite => localA
stepA InvA.s_sWfRead2 .sWfRead2 => localA
stepA InvA.s_sWfWrite1 .sWfWrite1 => localA
stepA InvA.s_sLoopWf .sLoopWf => localA
stepA InvA.s_sLoopWf2 .sLoopWf2 => localA
stepA InvA.s_sLoopWfR .sLoopWfR => localA
stepA InvA.s_sLoopWfW .sLoopWfW => localA
stepA InvA.s_gPathsGet .gPathsGet => localA
stepA InvA.s_gOpenR .gOpenR => localA
stepA InvA.s_gSeek .gSeek => localA
stepA InvA.s_cWf .cWf => localA
stepA InvA.s_fPathsClear .fPathsClear => flushA
stepA InvA.s_fIdxClear .fIdxClear => flushA
stepA InvA.s_fCntZero .fCntZero => flushA
stepA InvA.s_fWfZero .fWfZero => flushA
stepA InvA.s_fRemove .fRemove => flushA
stepA InvA.s_fPathsGet .fPathsGet => flushA
stepA InvA.s_fAcq .fAcq => flushA
stepA InvA.s_fRel .fRel => flushA
stepA InvA.s_sIdxLen1 .sIdxLen1 => split at hs <;> localA
stepA InvA.s_sIdxGet .sIdxGet => split at hs <;> localA
stepA InvA.s_sWfRead1 .sWfRead1 => split at hs <;> localA
stepA InvA.s_sLoopCnt .sLoopCnt => split at hs <;> localA
stepA InvA.s_sLoopIdx .sLoopIdx => split at hs <;> localA
stepA InvA.s_gIdxLen .gIdxLen => split at hs <;> localA
stepA InvA.s_gIdxGet .gIdxGet => split at hs <;> localA
stepA InvA.s_iIdxLen .iIdxLen => split at hs <;> localA
stepA InvA.s_oAcq .oAcq => acqA
stepA InvA.s_sAcq .sAcq => acqA
stepA InvA.s_gAcq .gAcq => cases hin : p.inIter <;> acqA
stepA InvA.s_iAcq .iAcq => acqA

set_option hygiene false in
macro "relA" : tactic =>
  `(tactic| (
      have hd : p.depth ≤ 1 := by simp [hL.depth, dep, hpc]
      have hlk : s.lock = some i := hL.lock.1 (by simp [dep, hpc])
      simp only [release_le hd, Option.some.injEq] at hs; subst hs
      refine InvA.step_lock hA hp (p' := _) rfl (fun j hj => ?_) rfl ?_ ?_
      · simp only [setProc_lock, hlk, Option.some.injEq]; constructor <;> intro h <;> simp_all))

stepA InvA.s_oRel .oRel =>
  relA
  · rfl
  · obtain ⟨h1, h2, h3, h4, h5, h6, h7, h8, h9, h10, h11, h12, h13⟩ := hL
    constructor <;> simp_all [curOp, dep, isF, isO, isS]
stepA InvA.s_sRel .sRel =>
  relA
  · simp
  · refine finish_LocA _ hL ?_ ?_ ?_ rfl rfl rfl id rfl ?_ rfl <;> simp [hpc]
stepA InvA.s_sRelErr .sRelErr =>
  relA
  · simp
  · refine finish_LocA _ hL ?_ ?_ ?_ rfl rfl rfl id rfl ?_ rfl <;> simp [hpc]
stepA InvA.s_iRel .iRel =>
  relA
  · simp
  · refine finish_LocA _ hL ?_ ?_ ?_ rfl rfl rfl id rfl ?_ rfl <;> simp [hpc]
stepA InvA.s_lCnt .lCnt =>
  simp only [Option.some.injEq] at hs; subst hs
  have hlk : s.lock ≠ some i := fun h => by have := hL.lock.2 h; simp [dep, hpc] at this
  have hd : p.depth = 0 := by simp [hL.depth, dep, hpc]
  refine InvA.step_local hA hp (p' := _) rfl rfl rfl (by simp) ?_
  refine finish_LocA _ hL ?_ ?_ ?_ rfl rfl rfl id hd hlk rfl <;> simp [hpc]
stepA InvA.s_cCnt .cCnt =>
  simp only [Option.some.injEq] at hs; subst hs
  have hlk : s.lock ≠ some i := fun h => by have := hL.lock.2 h; simp [dep, hpc] at this
  have hd : p.depth = 0 := by simp [hL.depth, dep, hpc]
  refine InvA.step_local hA hp (p' := _) rfl rfl rfl (by simp) ?_
  refine finish_LocA _ hL ?_ ?_ ?_ rfl rfl rfl id hd hlk rfl <;> simp [hpc]
stepA InvA.s_xClose .xClose =>
  simp only [Option.some.injEq] at hs; subst hs
  have hlk : s.lock ≠ some i := fun h => by have := hL.lock.2 h; simp [dep, hpc] at this
  have hd : p.depth = 0 := by simp [hL.depth, dep, hpc]
  refine InvA.step_local hA hp (p' := _) rfl rfl rfl (by simp) ?_
  refine finish_LocA _ hL ?_ ?_ ?_ rfl rfl rfl (by simp) hd hlk rfl <;> simp [hpc]

theorem iterAdvance_LocA {scripts : List (List Op)} {s s' : St} {i : Nat} {p p0 : Proc}
    (hL : LocA scripts s i p) (hin : p.inIter = true) (hpc : p.pc = .gRelErr ∨ p.pc = .gReadline)
    (e1 : p0.script = p.script) (e2 : p0.results = p.results) (e3 : p0.ident = p.ident) (e4 : p0.wOpen = p.wOpen)
    (e5 : p0.depth = 1) (_e6 : p0.inIter = true) (hl : s'.lock = some i) (hpaths : s'.paths = s.paths) :
    LocA scripts s' i (iterAdvance p0) := by
  obtain ⟨h1, h2, h3, h4, h5, h6, h7, h8, h9, h10, h11, h12, h13⟩ := hL
  unfold iterAdvance
  rcases hpc with hpc | hpc <;> dsimp only <;> split <;>
    constructor <;> simp_all [curOp, dep, isF, isO, isS]

stepA InvA.s_gReadline .gReadline =>
  cases hin : p.inIter
  · simp only [hin, Bool.false_eq_true, if_false, Option.some.injEq] at hs; subst hs
    have hlk : s.lock ≠ some i := fun h => by have := hL.lock.2 h; simp [dep, hpc, hin] at this
    have hd : p.depth = 0 := by simp [hL.depth, dep, hpc, hin]
    refine InvA.step_local hA hp (p' := _) rfl rfl rfl (by simp) ?_
    refine finish_LocA _ hL ?_ ?_ ?_ rfl rfl rfl id hd hlk rfl <;> simp [hpc]
  · simp only [hin, if_true, Option.some.injEq] at hs; subst hs
    have hlk : s.lock = some i := hL.lock.1 (by simp [dep, hpc, hin])
    have hd : p.depth = 1 := by simp [hL.depth, dep, hpc, hin]
    refine InvA.step_local hA hp (p' := _) rfl rfl rfl ?_ ?_
    · simp [iterAdvance]; split <;> rfl
    · exact iterAdvance_LocA hL hin (Or.inr hpc) rfl rfl rfl rfl hd rfl hlk rfl

stepA InvA.s_gRelErr .gRelErr =>
  cases hin : p.inIter
  · have hd : p.depth ≤ 1 := by simp [hL.depth, dep, hpc, hin]
    have hlk : s.lock = some i := hL.lock.1 (by simp [dep, hpc, hin])
    simp only [release_le hd, hin, Bool.false_eq_true, if_false, Option.some.injEq] at hs; subst hs
    refine InvA.step_lock hA hp (p' := _) rfl (fun j hj => ?_) rfl (by simp) ?_
    · simp only [setProc_lock, hlk, Option.some.injEq]; constructor <;> intro h <;> simp_all
    · refine finish_LocA _ hL ?_ ?_ ?_ rfl rfl rfl id rfl ?_ rfl <;> simp [hpc]
  · have hd : ¬ p.depth ≤ 1 := by simp [hL.depth, dep, hpc, hin]
    have hd2 : p.depth - 1 = 1 := by simp [hL.depth, dep, hpc, hin]
    have hlk : s.lock = some i := hL.lock.1 (by simp [dep, hpc, hin])
    simp only [release_gt hd, hin, if_true, Option.some.injEq] at hs; subst hs
    refine InvA.step_local hA hp (p' := _) rfl rfl rfl ?_ ?_
    · simp [iterAdvance]; split <;> rfl
    · exact iterAdvance_LocA hL hin (Or.inl hpc) rfl rfl rfl rfl hd2 rfl hlk rfl

stepA InvA.s_gRel .gRel =>
  obtain ⟨h1, h2, h3, h4, h5, h6, h7, h8, h9, h10, h11, h12, h13⟩ := hL
  cases hin : p.inIter
  · have hd : p.depth ≤ 1 := by simp [h4, dep, hpc, hin]
    have hlk : s.lock = some i := h5.1 (by simp [dep, hpc, hin])
    simp only [release_le hd] at hs
    split at hs <;> (
      simp only [Option.some.injEq] at hs; subst hs
      refine InvA.step_lock hA hp (p' := _) rfl (fun j hj => ?_) rfl rfl ?_
      · simp only [setProc_lock, hlk, Option.some.injEq]; constructor <;> intro h <;> simp_all
      · constructor <;> simp_all [curOp, dep, isF, isO, isS])
  · have hd : ¬ p.depth ≤ 1 := by simp [h4, dep, hpc, hin]
    have hlk : s.lock = some i := h5.1 (by simp [dep, hpc, hin])
    simp only [release_gt hd] at hs
    split at hs <;> (
      simp only [Option.some.injEq] at hs; subst hs
      refine InvA.step_local hA hp (p' := _) rfl rfl rfl rfl ?_
      constructor <;> simp_all [curOp, dep, isF, isO, isS])

stepA InvA.s_oPathsAppend .oPathsAppend =>
  simp only [Option.some.injEq] at hs; subst hs
  obtain ⟨h1, h2, h3, h4, h5, h6, h7, h8, h9, h10, h11, h12, h13⟩ := hL
  have hlk : s.lock = some i := h5.1 (by simp [dep, hpc])
  have htmp := h13 hpc
  constructor
  · intro j q hq
    simp only [setProc_procs] at hq
    rw [getElem?_set_proc _ _ _ _ _ _ hp] at hq
    rcases hq with ⟨rfl, rfl⟩ | ⟨hji, hq⟩
    · constructor <;> simp_all [curOp, dep, isF, isO, isS]
    · refine (hA.loc j q hq).frame (by simp) (by simp) (fun h => ?_)
      rw [hlk] at h; simp at h; exact absurd h.symm hji
  · intro j k q r w hq hr hqw hrw
    simp only [setProc_procs] at hq hr
    rw [getElem?_set_proc _ _ _ _ _ _ hp] at hq hr
    rcases hq with ⟨rfl, rfl⟩ | ⟨hji, hq⟩ <;> rcases hr with ⟨rfl, rfl⟩ | ⟨hki, hr⟩
    · rfl
    · have := (hA.loc _ _ hr).identLt w hrw
      simp at hqw; omega
    · have := (hA.loc _ _ hq).identLt w hqw
      simp at hrw; omega
    · exact hA.uniq _ _ _ _ w hq hr hqw hrw

/-- the control layer is preserved by every step -/
theorem InvA.step {scripts : List (List Op)} {s s' : St} {i : Nat} (hA : InvA scripts s) (hs : step s i = some s') :
    InvA scripts s' := by
  cases hp : s.procs[i]? with
  | none => simp [Storage.step, hp] at hs
  | some p =>
    cases hpc : p.pc with
    | idle => simp [Storage.step, hp, hpc] at hs
    | oAcq => exact InvA.s_oAcq hA hp hpc hs
    | oPathsLen => exact InvA.s_oPathsLen hA hp hpc hs
    | oPathsAppend => exact InvA.s_oPathsAppend hA hp hpc hs
    | oRel => exact InvA.s_oRel hA hp hpc hs
    | oOpenW => exact InvA.s_oOpenW hA hp hpc hs
    | oPathsGet => exact InvA.s_oPathsGet hA hp hpc hs
    | oOpenA => exact InvA.s_oOpenA hA hp hpc hs
    | sAcq => exact InvA.s_sAcq hA hp hpc hs
    | sIdxLen1 => exact InvA.s_sIdxLen1 hA hp hpc hs
    | sIdxLen2 => exact InvA.s_sIdxLen2 hA hp hpc hs
    | sIdxExtend => exact InvA.s_sIdxExtend hA hp hpc hs
    | sIdxGet => exact InvA.s_sIdxGet hA hp hpc hs
    | sTell => exact InvA.s_sTell hA hp hpc hs
    | sWriteText => exact InvA.s_sWriteText hA hp hpc hs
    | sWriteNl => exact InvA.s_sWriteNl hA hp hpc hs
    | sFlush => exact InvA.s_sFlush hA hp hpc hs
    | sIdxSet => exact InvA.s_sIdxSet hA hp hpc hs
    | sCntRead => exact InvA.s_sCntRead hA hp hpc hs
    | sCntWrite => exact InvA.s_sCntWrite hA hp hpc hs
    | sWfRead1 => exact InvA.s_sWfRead1 hA hp hpc hs
    | sWfRead2 => exact InvA.s_sWfRead2 hA hp hpc hs
    | sWfWrite1 => exact InvA.s_sWfWrite1 hA hp hpc hs
    | sLoopWf => exact InvA.s_sLoopWf hA hp hpc hs
    | sLoopCnt => exact InvA.s_sLoopCnt hA hp hpc hs
    | sLoopWf2 => exact InvA.s_sLoopWf2 hA hp hpc hs
    | sLoopIdx => exact InvA.s_sLoopIdx hA hp hpc hs
    | sLoopWfR => exact InvA.s_sLoopWfR hA hp hpc hs
    | sLoopWfW => exact InvA.s_sLoopWfW hA hp hpc hs
    | sRelErr => exact InvA.s_sRelErr hA hp hpc hs
    | sRel => exact InvA.s_sRel hA hp hpc hs
    | gAcq => exact InvA.s_gAcq hA hp hpc hs
    | gIdxLen => exact InvA.s_gIdxLen hA hp hpc hs
    | gIdxGet => exact InvA.s_gIdxGet hA hp hpc hs
    | gRelErr => exact InvA.s_gRelErr hA hp hpc hs
    | gRel => exact InvA.s_gRel hA hp hpc hs
    | gPathsGet => exact InvA.s_gPathsGet hA hp hpc hs
    | gOpenR => exact InvA.s_gOpenR hA hp hpc hs
    | gSeek => exact InvA.s_gSeek hA hp hpc hs
    | gReadline => exact InvA.s_gReadline hA hp hpc hs
    | lCnt => exact InvA.s_lCnt hA hp hpc hs
    | cWf => exact InvA.s_cWf hA hp hpc hs
    | cCnt => exact InvA.s_cCnt hA hp hpc hs
    | iAcq => exact InvA.s_iAcq hA hp hpc hs
    | iIdxLen => exact InvA.s_iIdxLen hA hp hpc hs
    | iRel => exact InvA.s_iRel hA hp hpc hs
    | fAcq => exact InvA.s_fAcq hA hp hpc hs
    | fPathsGet => exact InvA.s_fPathsGet hA hp hpc hs
    | fRemove => exact InvA.s_fRemove hA hp hpc hs
    | fPathsClear => exact InvA.s_fPathsClear hA hp hpc hs
    | fIdxClear => exact InvA.s_fIdxClear hA hp hpc hs
    | fCntZero => exact InvA.s_fCntZero hA hp hpc hs
    | fWfZero => exact InvA.s_fWfZero hA hp hpc hs
    | fRel => exact InvA.s_fRel hA hp hpc hs
    | xClose => exact InvA.s_xClose hA hp hpc hs

theorem InvA.init {scripts : List (List Op)} (hnf : ∀ sc ∈ scripts, Op.flush ∉ sc) (presize : Nat) :
    InvA scripts (start (init presize scripts)) := by
  constructor
  · intro i p hp
    simp only [start, Storage.init, List.map_map, List.getElem?_map, Option.map_eq_some_iff] at hp
    obtain ⟨sc, hsc, rfl⟩ := hp
    exact fetch_LocA (p := mkProc sc) hsc rfl (hnf sc (List.mem_of_getElem? hsc)) rfl rfl (by simp [start, Storage.init]) (by simp [mkProc])
      (by simp [mkProc])
  · intro i j p q w hp hq hpw
    simp only [start, Storage.init, List.map_map, List.getElem?_map, Option.map_eq_some_iff] at hp
    obtain ⟨sc, hsc, rfl⟩ := hp
    simp [mkProc] at hpw

end WindVerif.Storage
