import WindVerif.Proofs.PoolLiveAux12
/-! Termination of the pool model (C02): every step of the consumer decreases the measure; hence every step does. -/
namespace WindVerif.Pool

variable {s s' t : St}

theorem meas_lt_C0 (e1 : t.cur = s.cur) (e2 : t.callsLeft = s.callsLeft) (e3 : t.procs.length = s.procs.length)
    (e4 : preStart t = preStart s) (e5 : mF t = mF s) (e6 : mW t = mW s) (e7 : mR t = mR s) (e8 : mQ t = mQ s)
    (h : pos t.cpc (fresh t) s.procs.length < pos s.cpc (fresh s) s.procs.length)
    (e9 : midB t ≤ midB s := by exact Nat.le_refl _) : meas t < meas s :=
  meas_lt_C e1 e2 e3 e4 e5 e6 (by rw [e7, e8]; omega) e9

/-- the same, the room for the mid-call `until_all_ready()` counted with the position -/
theorem meas_lt_CM0 (e1 : t.cur = s.cur) (e2 : t.callsLeft = s.callsLeft) (e3 : t.procs.length = s.procs.length)
    (e4 : preStart t = preStart s) (e5 : mF t = mF s) (e6 : mW t = mW s) (e7 : mR t = mR s) (e8 : mQ t = mQ s)
    (h : pos t.cpc (fresh t) s.procs.length + midB t < pos s.cpc (fresh s) s.procs.length + midB s) : meas t < meas s :=
  meas_lt_CM e1 e2 e3 e4 e5 e6 (by rw [e7, e8]; omega)

/-- a consumer step that moves the pc only (as far as the measure can see) -/
macro "cstep " h:ident : tactic => `(tactic|
  (refine meas_lt_C0 rfl rfl rfl ?_ (mF_congr rfl rfl rfl rfl) (mW_congr rfl) (mR_congr rfl rfl) (mQ_congr rfl rfl) ?_
   · simp [preStart, $h:ident]
   · simp only [$h:ident]; simp [pos]))

theorem fresh_of (h1 : s.batch = []) (h2 : s.woken = false) : fresh s = true := by
  unfold fresh; rw [h1, h2]; rfl

theorem meas_fStart_lt {call : Call} (hpc : s.cpc = .fStart) (hcur : s.cur = some call) (e1 : t.cur = s.cur)
    (e2 : t.callsLeft = s.callsLeft) (e3 : t.procs = s.procs) (e4 : t.cpc = .rdSending)
    (e5 : t.fpc = if call.chunks = 0 then .wrSending else .put) (e6 : t.fNext = 0) (e7 : t.fTotal = call.chunks)
    (e8 : t.fAlive = true) (e9 : mW t = mW s) (e10 : mR t = mR s) (e11 : mQ t = mQ s)
    (e12 : midB t = midB s := by rfl) : meas t < meas s := by
  unfold meas
  rw [e9, e10, e11]
  have hp1 : preStart s = true := by simp [preStart, hpc]
  have hp2 : preStart t = false := by simp [preStart, e4]
  unfold mC futW pendCall mF unsentF tokPend fA
  rw [e12, hp1, hp2, e1, e2, e3, e4, e5, e6, e7, e8, hpc, hcur]
  generalize midB s = MB
  simp only [Option.map_some, callW, pos, if_true]
  by_cases hk : call.chunks = 0
  · simp [hk, fOff]; omega
  · obtain ⟨m, hm⟩ := Nat.exists_eq_succ_of_ne_zero hk
    simp only [hm, fOff, Nat.succ_eq_add_one]
    simp
    generalize (33 * (match s.fpc with
            | FPc.put => s.fTotal - s.fNext
            | FPc.rdCnt => s.fTotal - (s.fNext + 1)
            | FPc.wrCnt => s.fTotal - (s.fNext + 1)
            | FPc.stopIsSet => s.fTotal - (s.fNext + 1)
            | FPc.runWait => s.fTotal - (s.fNext + 1)
            | _ => 0)) = X1
    generalize h38 : 38 * (m + 1) + 23 = Y
    omega

theorem meas_stepC_a (hL : LInv s) (h : stepC s = some s')
    (hc : match s.cpc with
      | .enterStart _ | .readyWait _ | .nextCall | .rInitSet | .rStart | .fInitSet | .wrSending | .wrDataCnt | .fStart => True
      | _ => False) : meas s' < meas s := by
  cases hpc : s.cpc <;> simp only [hpc] at hc <;> simp only [stepC, hpc] at h
  case enterStart i =>
    have hpre := hL.pre (by rw [hpc]; trivial)
    split at h
    · cases h
    · rename_i wid hwd
      have hwd' := hwd
      rw [hpre.1] at hwd'
      obtain ⟨rfl, hin⟩ := range_getElem?_some hwd'
      have hlen : s.procs.length = s.cfg.nWorkers := by rw [hpre.1]; simp
      split at h
      · cases h
      · rename_i w hg
        obtain ⟨hwm, hwid⟩ := getWorker_some hg
        have hwpc : w.pc = .notStarted := hL.starting wid hpc w hwm (by omega)
        have hm1 := meas_startWorker hL hg hwpc
        have hcpc1 : (setWorker s { w with pc := .bfClear }).cpc = .enterStart wid := hpc
        have hpl1 : (setWorker s { w with pc := .bfClear }).procs.length = s.cfg.nWorkers := hlen
        have hlt1 : meas (setWorker s { w with pc := .bfClear }) < meas s := by omega
        split at h
        · simp only [Option.some.injEq] at h; subst h
          refine Nat.lt_trans ?_ hlt1
          refine meas_lt_C0 rfl rfl rfl ?_ (mF_congr rfl rfl rfl rfl) (mW_congr rfl) (mR_congr rfl rfl) (mQ_congr rfl rfl) ?_
          · simp [preStart, hcpc1]
          · simp only [hcpc1, hpl1]; simp [pos]; omega
        · simp only [Option.some.injEq] at h; subst h
          unfold afterEnter
          split
          · refine Nat.lt_trans ?_ hlt1
            refine meas_lt_C0 rfl rfl rfl ?_ (mF_congr rfl rfl rfl rfl) (mW_congr rfl) (mR_congr rfl rfl) (mQ_congr rfl rfl) ?_
            · simp [preStart, hcpc1]
            · simp only [hcpc1, hpl1]; simp [pos]; omega
          · rw [toNextCall_setCpc]
            refine Nat.lt_trans ?_ hlt1
            exact meas_toNextCall (by rw [hcpc1]; simp [pos]; omega)
  case readyWait i =>
    split at h
    · cases h
    · rename_i wid hwd
      have hi : i < s.procs.length := by
        rcases Nat.lt_or_ge i s.procs.length with hh | hh
        · exact hh
        · rw [List.getElem?_eq_none hh] at hwd; cases hwd
      split at h
      · cases h
      · split at h
        · split at h
          · simp only [Option.some.injEq] at h; subst h
            refine meas_lt_C0 rfl rfl rfl ?_ (mF_congr rfl rfl rfl rfl) (mW_congr rfl) (mR_congr rfl rfl) (mQ_congr rfl rfl) ?_
            · simp [preStart, hpc]
            · simp only [hpc]; simp [pos]; omega
          · simp only [Option.some.injEq] at h; subst h
            rw [toNextCall_setCpc]
            exact meas_toNextCall (by rw [hpc]; simp [pos]; omega)
        · cases h
  case nextCall =>
    simp only [Option.some.injEq] at h; subst h
    exact meas_toNextCall (by rw [hpc]; simp [pos])
  case rInitSet =>
    simp only [Option.some.injEq] at h; subst h
    cstep hpc
  case rStart =>
    simp only [Option.some.injEq] at h; subst h
    refine meas_lt_C rfl rfl rfl ?_ (mF_congr rfl rfl rfl rfl) (mW_congr rfl) ?_
    · simp [preStart, hpc]
    · rw [mQ_congr (s := s) (s' := { s with rAlive := true, rpc := .get, cpc := .fInitSet }) rfl rfl]
      simp only [hpc]; simp [pos, mR, rOff]; omega
  case fInitSet =>
    simp only [Option.some.injEq] at h; subst h
    cstep hpc
  case wrSending =>
    simp only [Option.some.injEq] at h; subst h
    cstep hpc
  case wrDataCnt =>
    simp only [Option.some.injEq] at h; subst h
    cstep hpc
  case fStart =>
    split at h
    · cases h
    · rename_i call hcur
      simp only [Option.some.injEq] at h; subst h
      exact meas_fStart_lt hpc hcur rfl rfl rfl rfl rfl rfl rfl rfl (mW_congr rfl) (mR_congr rfl rfl) (mQ_congr rfl rfl)


/-- taking an item from the result queue pays for the consumer's next round -/
theorem meas_take_lt {a : Option Nat} {r : List (Option Nat)} (hq : s.resQ = a :: r) (e0 : t.resQ = r)
    (e1 : t.cur = s.cur) (e2 : t.callsLeft = s.callsLeft) (e3 : t.procs.length = s.procs.length)
    (e4 : preStart t = preStart s) (e5 : mF t = mF s) (e6 : mW t = mW s) (e7 : mR t = mR s) (e8 : t.workQ = s.workQ)
    (h : pos t.cpc (fresh t) s.procs.length < pos s.cpc (fresh s) s.procs.length + 20)
    (e9 : midB t ≤ midB s := by exact Nat.le_refl _) : meas t < meas s := by
  refine meas_lt_C e1 e2 e3 e4 e5 e6 ?_ e9
  unfold mQ
  rw [e7, e8, e0, hq]
  simp only [List.length_cons]
  omega

theorem meas_take_ltM {a : Option Nat} {r : List (Option Nat)} (hq : s.resQ = a :: r) (e0 : t.resQ = r)
    (e1 : t.cur = s.cur) (e2 : t.callsLeft = s.callsLeft) (e3 : t.procs.length = s.procs.length)
    (e4 : preStart t = preStart s) (e5 : mF t = mF s) (e6 : mW t = mW s) (e7 : mR t = mR s) (e8 : t.workQ = s.workQ)
    (h : pos t.cpc (fresh t) s.procs.length + midB t < pos s.cpc (fresh s) s.procs.length + midB s + 20) :
    meas t < meas s := by
  refine meas_lt_CM e1 e2 e3 e4 e5 e6 ?_
  unfold mQ
  rw [e7, e8, e0, hq]
  simp only [List.length_cons]
  omega

theorem preStart_after {c' : CPc} (h : c' = .flowClear ∨ c' = .flowIsSet ∨ c' = .rdSending) {t : St} (ht : t.cpc = c') :
    preStart t = false := by
  unfold preStart; rw [ht]; rcases h with h | h | h <;> rw [h]

theorem preStart_mid {i wid : Nat} {t : St} (ht : t.cpc = .midReady i wid) : preStart t = false := by
  unfold preStart; rw [ht]

theorem meas_stepC_b (hS : SafeInv s) (hV : LiveInv s) (h : stepC s = some s') (hc : loopPc s.cpc = true) :
    meas s' < meas s := by
  cases hpc : s.cpc <;> simp only [hpc, loopPc] at hc <;> simp only [stepC, hpc] at h <;> try cases hc
  case rdSending =>
    split at h <;> simp only [Option.some.injEq] at h <;> subst h <;> cstep hpc
  case rdDataCnt =>
    split at h <;> simp only [Option.some.injEq] at h <;> subst h <;> cstep hpc
  case qsize1 =>
    split at h <;> simp only [Option.some.injEq] at h <;> subst h <;> cstep hpc
  case lockAcq =>
    split at h
    · simp only [Option.some.injEq] at h; subst h
      have hb : s.batch = [] := hS.batchEmpty (by rw [hpc]; trivial)
      have hwk := woken_false_of hV (by rw [hpc]; rfl)
      have hfr : fresh { s with lock := some .c, cpc := .qsize2 } = true := fresh_of hb hwk
      refine meas_lt_C0 rfl rfl rfl ?_ (mF_congr rfl rfl rfl rfl) (mW_congr rfl) (mR_congr rfl rfl) (mQ_congr rfl rfl) ?_
      · simp [preStart, hpc]
      · rw [hfr]; simp only [hpc]; simp [pos]
    · cases h
  case qsize2 =>
    split at h <;> simp only [Option.some.injEq] at h <;> subst h
    · refine meas_lt_C0 rfl rfl rfl ?_ (mF_congr rfl rfl rfl rfl) (mW_congr rfl) (mR_congr rfl rfl) (mQ_congr rfl rfl) ?_
      · simp [preStart, hpc]
      · have : fresh { s with cpc := .getNowait } = fresh s := rfl
        rw [this]; simp only [hpc]; cases fresh s <;> simp [pos]
    · refine meas_lt_C0 rfl rfl rfl ?_ (mF_congr rfl rfl rfl rfl) (mW_congr rfl) (mR_congr rfl rfl) (mQ_congr rfl rfl) ?_
      · simp [preStart, hpc]
      · have : fresh { s with cpc := .lockRel } = fresh s := rfl
        rw [this]; simp only [hpc]; cases fresh s <;> simp [pos]
  case getNowait =>
    split at h <;> simp only [Option.some.injEq] at h <;> subst h
    · refine meas_lt_C0 rfl rfl rfl ?_ (mF_congr rfl rfl rfl rfl) (mW_congr rfl) (mR_congr rfl rfl) (mQ_congr rfl rfl) ?_
      · simp [preStart, hpc]
      · have : fresh { s with cpc := .lockRel } = fresh s := rfl
        rw [this]; simp only [hpc]; cases fresh s <;> simp [pos]
    · rename_i r hq
      refine meas_take_lt hq rfl rfl rfl rfl ?_ (mF_congr rfl rfl rfl rfl) (mW_congr rfl) (mR_congr rfl rfl) rfl ?_
      · simp [preStart, hpc]
      · simp only [hpc]; cases fresh s <;> simp [pos, fresh]
    · rename_i i r hq
      refine meas_take_lt hq rfl rfl rfl rfl ?_ (mF_congr rfl rfl rfl rfl) (mW_congr rfl) (mR_congr rfl rfl) rfl ?_
      · simp [preStart, hpc]
      · simp only [hpc]; cases fresh s <;> simp [pos, fresh]
  case lockRel =>
    split at h <;> simp only [Option.some.injEq] at h <;> subst h
    · rename_i hcons
      have hfr : fresh s = false := by
        unfold fresh
        rcases hcons with hh | hh
        · have : s.batch ≠ [] := by intro e; rw [e] at hh; simp at hh
          cases hb : s.batch with
          | nil => exact absurd hb this
          | cons a r => rfl
        · have : s.woken = true := hh
          rw [this]; simp
      obtain ⟨c', b', w', buf', wf', fin', out', heq, hcl⟩ := afterResults_view { s with lock := none, cpc := .lockRel }
      rw [heq]
      rcases hcl with ⟨hcl, hfin⟩ | ⟨wid, hc', hcur, h0, hpos⟩
      · refine meas_lt_C0 rfl rfl rfl ?_ (mF_congr rfl rfl rfl rfl) (mW_congr rfl) (mR_congr rfl rfl) (mQ_congr rfl rfl) ?_
          (midB_mono_fin rfl rfl rfl hfin)
        · rw [preStart_after hcl rfl]; simp [preStart, hpc]
        · refine Nat.lt_of_le_of_lt (pos_after hcl _ _) ?_
          rw [hfr]; simp only [hpc]; simp [pos]
      · subst hc'
        refine meas_lt_CM0 rfl rfl rfl ?_ (mF_congr rfl rfl rfl rfl) (mW_congr rfl) (mR_congr rfl rfl) (mQ_congr rfl rfl) ?_
        · rw [preStart_mid rfl]; simp [preStart, hpc]
        · have hrel := midB_release (s := s) (t := { s with lock := none, buffer := buf', wf := wf', finished := fin', out := out', batch := b', woken := w', cpc := .midReady 0 wid }) rfl rfl rfl hcur h0 hpos
          rw [hfr]; simp only [hpc]; simp only [pos, Nat.sub_zero, Bool.false_eq_true, if_false]
          omega
    · rename_i hcons
      have hfr : fresh s = true := by
        unfold fresh
        cases hb : s.batch with
        | nil =>
          cases hw : s.woken
          · rfl
          · exfalso; apply hcons; right; exact hw
        | cons a r => exfalso; apply hcons; left; show s.batch.length > 0; rw [hb]; simp
      refine meas_lt_C0 rfl rfl rfl ?_ (mF_congr rfl rfl rfl rfl) (mW_congr rfl) (mR_congr rfl rfl) (mQ_congr rfl rfl) ?_
      · simp [preStart, hpc]
      · rw [hfr]; simp only [hpc]; simp [pos]
  case getBlock =>
    split at h
    · cases h
    · rename_i r hq
      simp only [Option.some.injEq] at h; subst h
      obtain ⟨c', b', w', buf', wf', fin', out', heq, hcl⟩ :=
        afterResults_view { s with resQ := r, batch := [], cpc := .getBlock }
      rw [heq]
      rcases hcl with ⟨hcl, hfin⟩ | ⟨wid, hc', hcur, h0, hpos⟩
      · refine meas_take_lt hq rfl rfl rfl rfl ?_ (mF_congr rfl rfl rfl rfl) (mW_congr rfl) (mR_congr rfl rfl) rfl ?_
          (midB_mono_fin rfl rfl rfl hfin)
        · rw [preStart_after hcl rfl]; simp [preStart, hpc]
        · refine Nat.lt_of_le_of_lt (pos_after hcl _ _) ?_
          simp only [hpc]; simp [pos]
      · subst hc'
        refine meas_take_ltM hq rfl rfl rfl rfl ?_ (mF_congr rfl rfl rfl rfl) (mW_congr rfl) (mR_congr rfl rfl) rfl ?_
        · rw [preStart_mid rfl]; simp [preStart, hpc]
        · have hrel := midB_release (s := s) (t := { s with resQ := r, buffer := buf', wf := wf', finished := fin', out := out', batch := b', woken := w', cpc := .midReady 0 wid }) rfl rfl rfl hcur h0 hpos
          simp only [hpc]; simp only [pos]
          omega
    · rename_i i r hq
      simp only [Option.some.injEq] at h; subst h
      obtain ⟨c', b', w', buf', wf', fin', out', heq, hcl⟩ :=
        afterResults_view { s with resQ := r, batch := [i], cpc := .getBlock }
      rw [heq]
      rcases hcl with ⟨hcl, hfin⟩ | ⟨wid, hc', hcur, h0, hpos⟩
      · refine meas_take_lt hq rfl rfl rfl rfl ?_ (mF_congr rfl rfl rfl rfl) (mW_congr rfl) (mR_congr rfl rfl) rfl ?_
          (midB_mono_fin rfl rfl rfl hfin)
        · rw [preStart_after hcl rfl]; simp [preStart, hpc]
        · refine Nat.lt_of_le_of_lt (pos_after hcl _ _) ?_
          simp only [hpc]; simp [pos]
      · subst hc'
        refine meas_take_ltM hq rfl rfl rfl rfl ?_ (mF_congr rfl rfl rfl rfl) (mW_congr rfl) (mR_congr rfl rfl) rfl ?_
        · rw [preStart_mid rfl]; simp [preStart, hpc]
        · have hrel := midB_release (s := s) (t := { s with resQ := r, buffer := buf', wf := wf', finished := fin', out := out', batch := b', woken := w', cpc := .midReady 0 wid }) rfl rfl rfl hcur h0 hpos
          simp only [hpc]; simp only [pos]
          omega
  case flowClear =>
    simp only [Option.some.injEq] at h; subst h
    cstep hpc
  case flowIsSet =>
    split at h <;> simp only [Option.some.injEq] at h <;> subst h <;> cstep hpc
  case flowSet =>
    simp only [Option.some.injEq] at h; subst h
    cstep hpc


theorem preStart_of_exit {t : St} (s0 : St) (fuel i : Nat) (h : t.cpc = exitJoinFrom s0 fuel i) : preStart t = false := by
  unfold preStart; rw [h]
  rcases exitJoinFrom_spec s0 fuel i with ⟨h1, _⟩ | ⟨k, h1, _⟩ <;> rw [h1]

theorem pos_exitJoinFrom_lt (s0 : St) (i : Nat) (n : Nat) (_hn : s0.procs.length = n) (hi : i ≤ n) (b _b' : Bool) :
    pos (exitJoinFrom s0 (n + 1) i) b n < (n - i) + 1 := by
  rcases exitJoinFrom_spec s0 (n + 1) i with ⟨h, _⟩ | ⟨k, h, hk, _⟩
  · rw [h]; simp [pos]
  · rw [h]; simp only [pos]; omega

theorem meas_stepC_c (h : stepC s = some s')
    (hc : match s.cpc with
      | .fStopSet | .fJoin | .rPutNone | .rStopSet | .rJoin | .exitPut _ | .exitJoin _ | .done => True
      | _ => False) : meas s' < meas s := by
  cases hpc : s.cpc <;> simp only [hpc] at hc <;> simp only [stepC, hpc] at h
  case fStopSet =>
    simp only [Option.some.injEq] at h; subst h
    cstep hpc
  case fJoin =>
    split at h
    · cases h
    · split at h
      · simp only [Option.some.injEq] at h; subst h
        cstep hpc
      · simp only [Option.some.injEq] at h; subst h
        rw [toNextCall_setCpc]
        exact meas_toNextCall (by rw [hpc]; simp [pos])
  case rPutNone =>
    simp only [Option.some.injEq] at h; subst h
    refine meas_lt_C rfl rfl rfl ?_ (mF_congr rfl rfl rfl rfl) (mW_congr rfl) ?_
    · simp [preStart, hpc]
    · rw [mQ_congr (s := s) (s' := { s with replQ := s.replQ ++ [none], cpc := .rStopSet }) rfl rfl]
      simp only [hpc]; simp [pos, mR, someCount_append_none, noneCount_append_none]; omega
  case rStopSet =>
    simp only [Option.some.injEq] at h; subst h
    cstep hpc
  case rJoin =>
    split at h
    · cases h
    · simp only [Option.some.injEq] at h; subst h
      rw [toNextCall_setCpc]
      exact meas_toNextCall (by rw [hpc]; simp [pos])
  case exitPut i =>
    split at h
    · -- full queue, everybody listed has exited: straight to `done`
      split at h
      · simp only [Option.some.injEq] at h; subst h
        refine meas_lt_C0 rfl rfl rfl ?_ (mF_congr rfl rfl rfl rfl) (mW_congr rfl) (mR_congr rfl rfl) (mQ_congr rfl rfl) ?_
        · simp [preStart, hpc]
        · simp only [hpc]; simp [pos]
      · cases h
    · split at h
      · rename_i hlt
        simp only [Option.some.injEq] at h; subst h
        refine meas_lt_C0 rfl rfl rfl ?_ (mF_congr rfl rfl rfl rfl) (mW_congr rfl) (mR_congr rfl rfl) ?_ ?_
        · simp [preStart, hpc]
        · unfold mQ; simp [someCount_append_none]
        · have hlt' : i + 1 < s.procs.length := hlt
          simp only [hpc]; simp [pos]; omega
      · simp only [Option.some.injEq] at h; subst h
        refine meas_lt_C0 rfl rfl rfl ?_ (mF_congr rfl rfl rfl rfl) (mW_congr rfl) (mR_congr rfl rfl) ?_ ?_
        · rw [preStart_of_exit _ _ _ rfl]; simp [preStart, hpc]
        · unfold mQ; simp [someCount_append_none]
        · refine Nat.lt_of_lt_of_le (pos_exitJoinFrom_lt { s with workQ := s.workQ ++ [none], cpc := .exitPut i } 0
            s.procs.length rfl (Nat.zero_le _) _ true) ?_
          simp only [hpc]; simp [pos]
  case exitJoin i =>
    split at h
    · cases h
    · rename_i wid hwd
      have hi : i < s.procs.length := by
        rcases Nat.lt_or_ge i s.procs.length with hh | hh
        · exact hh
        · rw [List.getElem?_eq_none hh] at hwd; cases hwd
      split at h
      · simp only [Option.some.injEq] at h; subst h
        refine meas_lt_C0 rfl rfl rfl ?_ (mF_congr rfl rfl rfl rfl) (mW_congr rfl) (mR_congr rfl rfl) (mQ_congr rfl rfl) ?_
        · rw [preStart_of_exit _ _ _ rfl]; simp [preStart, hpc]
        · refine Nat.lt_of_lt_of_le (pos_exitJoinFrom_lt s (i + 1) s.procs.length rfl hi _ true) ?_
          simp only [hpc]; simp [pos]; omega
      · cases h
  case done => cases h

/-- the mid-call `until_all_ready()`: one wait per slot, then back into the result loop -/
theorem meas_stepC_d (h : stepC s = some s') {i wid : Nat} (hpc : s.cpc = .midReady i wid) : meas s' < meas s := by
  simp only [stepC, hpc] at h
  split at h
  · cases h
  · split at h
    · split at h
      · rename_i wid' hw'
        have hi : i + 1 < s.procs.length := by
          rcases Nat.lt_or_ge (i + 1) s.procs.length with hh | hh
          · exact hh
          · rw [List.getElem?_eq_none hh] at hw'; cases hw'
        simp only [Option.some.injEq] at h; subst h
        refine meas_lt_C0 rfl rfl rfl ?_ (mF_congr rfl rfl rfl rfl) (mW_congr rfl) (mR_congr rfl rfl) (mQ_congr rfl rfl) ?_
        · simp [preStart, hpc]
        · simp only [hpc]; simp only [pos]; omega
      · simp only [Option.some.injEq] at h; subst h
        obtain ⟨c', heq, hcl⟩ := afterBatch_eq s
        rw [heq]
        refine meas_lt_C0 rfl rfl rfl ?_ (mF_congr rfl rfl rfl rfl) (mW_congr rfl) (mR_congr rfl rfl) (mQ_congr rfl rfl) ?_
        · rw [preStart_after hcl rfl]; simp [preStart, hpc]
        · refine Nat.lt_of_le_of_lt (pos_after hcl _ _) ?_
          simp only [hpc]; simp only [pos]; omega
    · cases h

/-- every step of every thread decreases the measure -/
theorem meas_step {tid : Tid} (hf : NoFaults s.cfg) (hw : WellCfg s.cfg) (hS : SafeInv s) (hL : LInv s) (hV : LiveInv s)
    (h : step s tid = some s') : meas s' < meas s := by
  cases tid with
  | c =>
    have h : stepC s = some s' := h
    cases hpc : s.cpc
    case midReady i wid => exact meas_stepC_d h hpc
    case rdSending | rdDataCnt | qsize1 | lockAcq | qsize2 | getNowait | lockRel | getBlock | flowClear | flowIsSet | flowSet =>
      exact meas_stepC_b hS hV h (by rw [hpc]; rfl)
    case fStopSet | fJoin | rPutNone | rStopSet | rJoin | exitPut | exitJoin | done =>
      exact meas_stepC_c h (by rw [hpc]; trivial)
    all_goals exact meas_stepC_a hL h (by rw [hpc]; trivial)
  | f => exact meas_stepF hS h
  | r => exact meas_stepR hL h
  | w wid => exact meas_stepW hf hw hL h

end WindVerif.Pool
