import WindVerif.Proofs.PoolLiveAux4
/-! Liveness of the pool model (C02): congruence lemmas for the parts of the invariant; the steps of the feeder and of
the replace thread. -/
namespace WindVerif.Pool

variable {s s' : St}

/-! ### congruence: each part reads only some fields -/

theorem LockI_congr (h : LockI s) (h1 : s'.lock = s.lock) (h2 : cIn s'.cpc = cIn s.cpc) (h3 : s'.workers = s.workers) :
    LockI s' := by
  obtain ⟨l1, l2, l3, l4⟩ := h
  constructor
  · rw [h1, h2, h3]; exact l1
  · rw [h1, h2]; exact l2
  · rw [h1, h3]; exact l3
  · rw [h3]; exact l4

theorem ProcI_congr (h : ProcI s) (h1 : s'.procs = s.procs) (h2 : s'.workers = s.workers) (h3 : s'.cfg = s.cfg)
    (h4 : ∀ nw, s'.rpc = .start nw → s.rpc = .start nw) (h5 : idxV s'.cpc s.procs.length) : ProcI s' := by
  obtain ⟨p1, p2, p3, p4, p5, p6⟩ := h
  constructor
  · rw [h1, h2]; exact p1
  · rw [h1, h3]; exact p2
  · rw [h1]; exact h5
  · rw [h1]; intro nw hnw; exact p4 nw (h4 nw hnw)
  · rw [h2]; exact p5
  · rw [h2, h3]; exact p6

theorem idxV_of_true {c : CPc} {n : Nat}
    (h : match c with | .enterStart _ | .readyWait _ | .exitPut _ | .exitJoin _ => False | _ => True) : idxV c n := by
  unfold idxV; cases c <;> simp at h ⊢

theorem ReplI_congr' (h : ReplI s) (h1 : s'.cfg = s.cfg) (h2 : s'.rAlive = s.rAlive) (h3 : s'.rAlive = true → s'.rpc ≠ .idle)
    (h4 : noneCount s'.replQ = noneCount s.replQ) (hp : ∀ k, k ∈ pending s → k ∈ pending s')
    (h5 : s'.workers = s.workers) (h6 : s'.procs = s.procs)
    (h7 : exitPhasePc s'.cpc = false → none ∈ s'.workQ → none ∈ s.workQ)
    (c1 : rCall s'.cpc = true → s.cfg.factory = true → rCall s.cpc = true ∨ s.rAlive = true)
    (c2 : rStopping s'.cpc = rStopping s.cpc)
    (c3 : exitPhasePc s'.cpc = exitPhasePc s.cpc)
    (c4 : (s'.cpc = .rPutNone ∨ s'.cpc = .rStopSet ∨ s'.cpc = .rJoin) →
      (s.cpc = .rPutNone ∨ s.cpc = .rStopSet ∨ s.cpc = .rJoin) ∨ s.cfg.factory = true) :
    ReplI s' := by
  obtain ⟨r1, r2, r3, r4, r5, r6⟩ := h
  constructor
  · rw [h1, h2]; intro a b
    rcases c1 b a with hh | hh
    · exact r1 a hh
    · exact hh
  · exact h3
  · rw [h4, c2, h2]; exact r3
  · rw [h5, h6, c3, h1]
    intro x hx hpc hin
    rcases r4 x hx hpc hin with hh | ⟨hf, hq⟩
    · exact Or.inl hh
    · exact Or.inr ⟨hf, hp _ hq⟩
  · intro a b; rw [c3] at a; exact r5 a (h7 (by rw [c3]; exact a) b)
  · rw [h1]; intro a
    rcases c4 a with hh | hh
    · exact r6 hh
    · exact hh

theorem ReplI_congr (h : ReplI s) (h1 : s'.cfg = s.cfg) (h2 : s'.rAlive = s.rAlive) (h3 : s'.rpc = s.rpc)
    (h4 : s'.replQ = s.replQ) (h5 : s'.workers = s.workers) (h6 : s'.procs = s.procs)
    (h7 : exitPhasePc s'.cpc = false → none ∈ s'.workQ → none ∈ s.workQ)
    (c1 : rCall s'.cpc = true → s.cfg.factory = true → rCall s.cpc = true ∨ s.rAlive = true)
    (c2 : rStopping s'.cpc = rStopping s.cpc)
    (c3 : exitPhasePc s'.cpc = exitPhasePc s.cpc)
    (c4 : (s'.cpc = .rPutNone ∨ s'.cpc = .rStopSet ∨ s'.cpc = .rJoin) →
      (s.cpc = .rPutNone ∨ s.cpc = .rStopSet ∨ s.cpc = .rJoin) ∨ s.cfg.factory = true) :
    ReplI s' :=
  ReplI_congr' h h1 h2 (by rw [h2, h3]; exact h.rNotIdle) (by rw [h4])
    (by rw [pending_congr h3 (by rw [h4])]; exact fun _ hk => hk) h5 h6 h7 c1 c2 c3 c4

theorem ConsI_congr' (h : ConsI s) (h1 : s'.cpc = s.cpc) (h2 : s'.cur = s.cur) (h3 : s'.woken = s.woken)
    (h4 : s'.batch = s.batch) (h6 : s'.finished = s.finished) (h7 : s'.fTotal = s.fTotal)
    (h8 : getPathPc s.cpc = true → s.batch = [] → s.woken = false → s'.fpc = .idle → s.finished = s.fTotal → none ∈ s'.resQ)
    (h9 : s'.buffer = s.buffer) (h10 : s'.wf = s.wf) (h11 : s'.fRun = s.fRun)
    (h12 : s'.cfg = s.cfg) : ConsI s' := by
  obtain ⟨c1, c2, c3, c4, c5, c6, c7⟩ := h
  constructor
  · rw [h1, h2]; exact c1
  · rw [h1, h2]; exact c2
  · rw [h1, h3]; exact c3
  · rw [h1, h4, h3, h6, h7]; exact h8
  · rw [h10, h9]; exact c5
  · rw [h1, h11, bufferFull_congr h12 h9]; exact c6
  · rw [h1, h11]; exact c7

theorem ConsI_congr (h : ConsI s) (h1 : s'.cpc = s.cpc) (h2 : s'.cur = s.cur) (h3 : s'.woken = s.woken)
    (h4 : s'.batch = s.batch) (h5 : s'.fpc = s.fpc) (h6 : s'.finished = s.finished) (h7 : s'.fTotal = s.fTotal)
    (h8 : none ∈ s.resQ → none ∈ s'.resQ) (h9 : s'.buffer = s.buffer) (h10 : s'.wf = s.wf) (h11 : s'.fRun = s.fRun)
    (h12 : s'.cfg = s.cfg) : ConsI s' :=
  ConsI_congr' h h1 h2 h3 h4 h6 h7 (by rw [h5]; intro a b c d e; exact h8 (h.token a b c d e)) h9 h10 h11 h12

theorem liveCnt_congr (h : s'.workers = s.workers) : liveCnt s' = liveCnt s := by unfold liveCnt; rw [h]

theorem CntI_congr' (h : CntI s) (h1 : liveCnt s' = liveCnt s) (hp : (pending s').length = (pending s).length)
    (h4 : s'.procs.length = s.procs.length) (h5 : s'.cfg = s.cfg) (h6 : noneCount s'.workQ = noneCount s.workQ)
    (h7 : exitPhasePc s'.cpc = exitPhasePc s.cpc) (h8 : stopsSent s' = stopsSent s) : CntI s' := by
  obtain ⟨k1, k2, k3, k4⟩ := h
  constructor
  · rw [h1, hp, h4]; exact k1
  · rw [h7, h1, h8, h6, h4]; exact k2
  · rw [h7, h8, h6]; exact k3
  · rw [h5, h1, h8, h6, h4]; exact k4

theorem CntI_congr (h : CntI s) (h1 : s'.workers = s.workers) (h2 : s'.rpc = s.rpc) (h3 : s'.replQ = s.replQ)
    (h4 : s'.procs = s.procs) (h5 : s'.cfg = s.cfg) (h6 : noneCount s'.workQ = noneCount s.workQ)
    (h7 : s'.cpc = s.cpc) : CntI s' :=
  CntI_congr' h (liveCnt_congr h1) (by rw [pending_congr h2 (by rw [h3])]) (by rw [h4]) h5 h6 (by rw [h7])
    (stopsSent_congr h7 h4)

/-! ### the feeder -/

theorem mem_append_some {q : List (Option Nat)} {k : Nat} (h : none ∈ q ++ [some k]) : none ∈ q := by
  rcases List.mem_append.1 h with h | h
  · exact h
  · simp at h

/-- the token step when the result queue is full: everything is emitted, so the queue holds tokens only -/
theorem token_in_full_queue (hS : SafeInv s) (hcp : getPathPc s.cpc = true) (hf : s.fpc = .token)
    (hfin : s.finished = s.fTotal) (hfull : capFull s.cfg.resCap s.resQ = true) : none ∈ s.resQ := by
  have hpre : preStart s = false := by
    unfold preStart; cases hc : s.cpc <;> simp [hc, getPathPc] at hcp ⊢
  have hcur : s.cur.isSome := by
    cases hc : s.cur with
    | none =>
      have := hS.noCall hc
      rw [hpre] at this
      cases hcc : s.cpc <;> simp [hcc, getPathPc] at hcp this
    | some c => rfl
  have hcn : s.cur.isNone = false := by
    obtain ⟨c, hc⟩ := Option.isSome_iff_exists.1 hcur; rw [hc]; rfl
  have hsent : sent s = s.fTotal := by unfold sent; simp [hpre, hcn, hf]
  have hlen := (hS.conserve hcur).length_eq
  have hfn := hS.fin hcur
  unfold places at hlen
  simp only [List.length_append, List.length_range] at hlen
  have h0 : (chunksOf s.resQ).length = 0 := by omega
  have hne := ne_nil_of_capFull hfull
  cases hq : s.resQ with
  | nil => exact absurd hq hne
  | cons a r =>
    cases a with
    | none => simp
    | some i => rw [hq] at h0; simp [chunksOf] at h0

theorem LiveInv_stepF (hS : SafeInv s) (hV : LiveInv s) (h : stepF s = some s') : LiveInv s' := by
  obtain ⟨lk, pr, rp, cs, ct⟩ := hV
  have hidx := pr.idx
  unfold stepF at h
  split at h
  · cases h
  · cases hf : s.fpc <;> simp only [hf] at h
    case idle => cases h
    case put =>
      split at h
      · cases h
      · simp only [Option.some.injEq] at h; subst h
        exact ⟨LockI_congr lk rfl rfl rfl, ProcI_congr pr rfl rfl rfl (fun _ h => h) hidx,
          ReplI_congr rp rfl rfl rfl rfl rfl rfl (fun _ => mem_append_some) (fun a _ => Or.inl a) rfl rfl Or.inl,
          ConsI_congr' cs rfl rfl rfl rfl rfl rfl (by intro _ _ _ hh; cases hh) rfl rfl rfl rfl,
          CntI_congr ct rfl rfl rfl rfl rfl (noneCount_append_some _ _) rfl⟩
    case rdCnt =>
      simp only [Option.some.injEq] at h; subst h
      exact ⟨LockI_congr lk rfl rfl rfl, ProcI_congr pr rfl rfl rfl (fun _ h => h) hidx,
        ReplI_congr rp rfl rfl rfl rfl rfl rfl (fun _ => id) (fun a _ => Or.inl a) rfl rfl Or.inl,
        ConsI_congr' cs rfl rfl rfl rfl rfl rfl (by intro _ _ _ hh; cases hh) rfl rfl rfl rfl,
        CntI_congr ct rfl rfl rfl rfl rfl rfl rfl⟩
    case wrCnt =>
      simp only [Option.some.injEq] at h; subst h
      exact ⟨LockI_congr lk rfl rfl rfl, ProcI_congr pr rfl rfl rfl (fun _ h => h) hidx,
        ReplI_congr rp rfl rfl rfl rfl rfl rfl (fun _ => id) (fun a _ => Or.inl a) rfl rfl Or.inl,
        ConsI_congr' cs rfl rfl rfl rfl rfl rfl (by intro _ _ _ hh; cases hh) rfl rfl rfl rfl,
        CntI_congr ct rfl rfl rfl rfl rfl rfl rfl⟩
    case stopIsSet =>
      split at h <;> simp only [Option.some.injEq] at h <;> subst h <;>
      exact ⟨LockI_congr lk rfl rfl rfl, ProcI_congr pr rfl rfl rfl (fun _ h => h) hidx,
        ReplI_congr rp rfl rfl rfl rfl rfl rfl (fun _ => id) (fun a _ => Or.inl a) rfl rfl Or.inl,
        ConsI_congr' cs rfl rfl rfl rfl rfl rfl (by intro _ _ _ hh; cases hh) rfl rfl rfl rfl,
        CntI_congr ct rfl rfl rfl rfl rfl rfl rfl⟩
    case runWait =>
      split at h
      · split at h <;> simp only [Option.some.injEq] at h <;> subst h <;>
        exact ⟨LockI_congr lk rfl rfl rfl, ProcI_congr pr rfl rfl rfl (fun _ h => h) hidx,
          ReplI_congr rp rfl rfl rfl rfl rfl rfl (fun _ => id) (fun a _ => Or.inl a) rfl rfl Or.inl,
          ConsI_congr' cs rfl rfl rfl rfl rfl rfl (by intro _ _ _ hh; cases hh) rfl rfl rfl rfl,
          CntI_congr ct rfl rfl rfl rfl rfl rfl rfl⟩
      · cases h
    case wrSending =>
      simp only [Option.some.injEq] at h; subst h
      exact ⟨LockI_congr lk rfl rfl rfl, ProcI_congr pr rfl rfl rfl (fun _ h => h) hidx,
        ReplI_congr rp rfl rfl rfl rfl rfl rfl (fun _ => id) (fun a _ => Or.inl a) rfl rfl Or.inl,
        ConsI_congr' cs rfl rfl rfl rfl rfl rfl (by intro _ _ _ hh; cases hh) rfl rfl rfl rfl,
        CntI_congr ct rfl rfl rfl rfl rfl rfl rfl⟩
    case token =>
      simp only [Option.some.injEq] at h; subst h
      have htok : getPathPc s.cpc = true → s.batch = [] → s.woken = false → s.finished = s.fTotal →
          none ∈ (if capFull s.cfg.resCap s.resQ = true then s else { s with resQ := s.resQ ++ [none] }).resQ := by
        intro a _ _ d
        split
        · rename_i hfull; exact token_in_full_queue hS a hf d hfull
        · simp
      split <;> rename_i hfull <;> simp only [hfull, if_true, if_false, Bool.false_eq_true] at htok <;>
      exact ⟨LockI_congr lk rfl rfl rfl, ProcI_congr pr rfl rfl rfl (fun _ h => h) hidx,
        ReplI_congr rp rfl rfl rfl rfl rfl rfl (fun _ => id) (fun a _ => Or.inl a) rfl rfl Or.inl,
        ConsI_congr' cs rfl rfl rfl rfl rfl rfl (by intro a b c _ e; exact htok a b c e) rfl rfl rfl rfl,
        CntI_congr ct rfl rfl rfl rfl rfl rfl rfl⟩


/-! ### starting a worker (`p.start()` by the consumer or by the replace thread) -/

theorem LiveInv_startWorker {k : Nat} {w : Worker} (hL : LInv s) (hV : LiveInv s) (hg : getWorker s k = some w)
    (hpc : w.pc = .notStarted) : LiveInv (setWorker s { w with pc := .bfClear }) := by
  obtain ⟨hwm, hwid⟩ := getWorker_some hg
  obtain ⟨lk, pr, rp, cs, ct⟩ := hV
  have hws : (setWorker s { w with pc := .bfClear }).workers = upd w.wid { w with pc := .bfClear } s.workers := rfl
  have hmem : ∀ x, x ∈ (setWorker s { w with pc := .bfClear }).workers →
      x = { w with pc := .bfClear } ∨ (x ∈ s.workers ∧ x.wid ≠ w.wid) := by
    intro x hx; rw [hws] at hx
    rcases mem_upd.1 hx with ⟨rfl, _⟩ | hx
    · exact Or.inl rfl
    · exact Or.inr hx
  have hnew : ({ w with pc := .bfClear } : Worker) ∈ (setWorker s { w with pc := .bfClear }).workers := by
    rw [hws]; exact mem_upd.2 (Or.inl ⟨rfl, w, hwm, rfl⟩)
  have hold : ∀ x ∈ s.workers, x.wid ≠ w.wid → x ∈ (setWorker s { w with pc := .bfClear }).workers := by
    intro x hx hne; rw [hws]; exact mem_upd.2 (Or.inr ⟨hx, hne⟩)
  have hlive : liveCnt (setWorker s { w with pc := .bfClear }) = liveCnt s := by
    have := liveCnt_upd (s' := setWorker s { w with pc := .bfClear }) (w' := { w with pc := .bfClear }) hL hwm hws
    simp [hpc, gone] at this; exact this
  refine ⟨?_, ?_, ?_, ?_, ?_⟩
  · obtain ⟨l1, l2, l3, l4⟩ := lk
    constructor
    · intro t ht
      rcases l1 t ht with hc | ⟨x, hx, rfl, hin⟩
      · exact Or.inl hc
      · right
        by_cases he : x.wid = w.wid
        · have := wid_inj hL.nodup hx hwm he; subst this
          rw [hpc] at hin; cases hin
        · exact ⟨x, hold x hx he, rfl, hin⟩
    · exact l2
    · intro x hx hin
      rcases hmem x hx with rfl | ⟨hx0, _⟩
      · cases hin
      · exact l3 x hx0 hin
    · intro x hx hp
      rcases hmem x hx with rfl | ⟨hx0, _⟩
      · simp at hp
      · exact l4 x hx0 hp
  · obtain ⟨p1, p2, p3, p4, p5, p6⟩ := pr
    constructor
    · intro j hj
      obtain ⟨x, hx, rfl⟩ := p1 j hj
      by_cases he : x.wid = w.wid
      · exact ⟨_, hnew, he.symm⟩
      · exact ⟨x, hold x hx he, rfl⟩
    · exact p2
    · exact p3
    · exact p4
    · intro x hx hb
      rcases hmem x hx with rfl | ⟨hx0, _⟩
      · exact Or.inr (Or.inl rfl)
      · exact p5 x hx0 hb
    · intro x hx hr
      rcases hmem x hx with rfl | ⟨hx0, _⟩
      · cases hr
      · exact p6 x hx0 hr
  · obtain ⟨r1, r2, r3, r4, r5, r6⟩ := rp
    constructor
    · exact r1
    · exact r2
    · exact r3
    · intro x hx hxpc hin
      rcases hmem x hx with rfl | ⟨hx0, _⟩
      · cases hxpc
      · exact r4 x hx0 hxpc hin
    · exact r5
    · exact r6
  · exact ConsI_congr cs rfl rfl rfl rfl rfl rfl rfl id rfl rfl rfl rfl
  · exact CntI_congr' ct hlive rfl rfl rfl rfl rfl rfl

/-! ### the replace thread -/

theorem rCall_of_rStopping {c : CPc} (h : rStopping c = true) : rCall c = false := by
  cases c <;> simp [rStopping, rCall] at h ⊢

theorem exitPhasePc_of_inCall {c : CPc} (h : inCall c = true) : exitPhasePc c = false := by
  cases c <;> simp [inCall, exitPhasePc] at h ⊢

theorem CntI_join {t : St} {wid : Nat} (hL : LInv s) (ct : CntI s) (hr : s.rpc = .join wid)
    (h1 : t.workers = s.workers ++ [mkWorker s.cfg s.widCounter]) (h2 : t.rpc = .start s.widCounter)
    (h3 : t.replQ = s.replQ) (h4 : t.procs = s.procs.map (fun x => if x = wid then s.widCounter else x))
    (h5 : t.cpc = s.cpc) (h6 : t.cfg = s.cfg) : CntI t := by
  have hal : s.rAlive = true := by
    cases hh : s.rAlive
    · have := hL.rIdle hh; rw [hr] at this; cases this
    · rfl
  obtain ⟨hin, hfac⟩ := hL.rAliveIn hal
  have hnx := exitPhasePc_of_inCall hin
  have hpend : pending s = wid :: s.replQ.filterMap id := by unfold pending; simp [hr]
  obtain ⟨k1, k2, k3, k4⟩ := ct
  have hl : liveCnt t = liveCnt s + 1 := by
    unfold liveCnt; rw [h1]; simp [List.countP_append, mkWorker, gone]
  have hpl : (pending t).length + 1 = (pending s).length := by
    rw [hpend]; unfold pending; rw [h2, h3]; simp
  have hlen : t.procs.length = s.procs.length := by rw [h4, List.length_map]
  constructor
  · rw [hl, hlen]; omega
  · rw [h5, hnx]; intro hc; cases hc
  · rw [h5, hnx]; intro hc; cases hc
  · rw [h6, hfac]; intro hc; cases hc

theorem LiveInv_stepR (hL : LInv s) (hV : LiveInv s) (h : stepR s = some s') : LiveInv s' := by
  unfold stepR at h
  split at h
  · cases h
  · rename_i hal
    have hal' : s.rAlive = true := by simpa using hal
    obtain ⟨hin, hfac⟩ := hL.rAliveIn hal'
    have hnx := exitPhasePc_of_inCall hin
    cases hr : s.rpc <;> simp only [hr] at h
    case idle => cases h
    case get =>
      obtain ⟨lk, pr, rp, cs, ct⟩ := hV
      have hidx := pr.idx
      split at h
      · cases h
      · rename_i r hq
        simp only [Option.some.injEq] at h; subst h
        have hp : pending { s with replQ := r, rpc := .idle, rAlive := false } = pending s := by
          unfold pending; simp [hr, hq]
        have htok := rp.tokR
        rw [hq, noneCount_cons_none, hal'] at htok
        have hstop : rStopping s.cpc = true := by
          cases hc : rStopping s.cpc
          · rw [hc] at htok; simp at htok
          · rfl
        have hn0 : noneCount r = 0 := by rw [hstop] at htok; simp at htok; exact htok
        refine ⟨LockI_congr lk rfl rfl rfl, ProcI_congr pr rfl rfl rfl (fun _ h => by cases h) hidx, ?_,
          ConsI_congr cs rfl rfl rfl rfl rfl rfl rfl id rfl rfl rfl rfl,
          CntI_congr' ct rfl (by rw [hp]) rfl rfl rfl rfl rfl⟩
        constructor
        · intro _ hc; rw [rCall_of_rStopping hstop] at hc; cases hc
        · intro hh; cases hh
        · show noneCount r = _; rw [hn0]; simp
        · intro x hx hxpc hxin
          rcases rp.exitedL x hx hxpc hxin with hh | ⟨hf, hq'⟩
          · exact Or.inl hh
          · exact Or.inr ⟨hf, by rw [hp]; exact hq'⟩
        · exact rp.noStop
        · exact rp.rFac
      · rename_i wid r hq
        simp only [Option.some.injEq] at h; subst h
        have hp : pending { s with replQ := r, rpc := .join wid } = pending s := by
          unfold pending; simp [hr, hq]
        exact ⟨LockI_congr lk rfl rfl rfl, ProcI_congr pr rfl rfl rfl (fun _ h => by cases h) hidx,
          ReplI_congr' rp rfl rfl (fun _ hh => by cases hh) (by show noneCount r = _; rw [hq, noneCount_cons_some])
            (by rw [hp]; exact fun _ hk => hk) rfl rfl (fun _ => id) (fun a _ => Or.inl a) rfl rfl Or.inl,
          ConsI_congr cs rfl rfl rfl rfl rfl rfl rfl id rfl rfl rfl rfl,
          CntI_congr' ct rfl (by rw [hp]) rfl rfl rfl rfl rfl⟩
    case join wid =>
      obtain ⟨lk, pr, rp, cs, ct⟩ := hV
      split at h
      · simp only [Option.some.injEq] at h; subst h
        have hpend : pending s = wid :: s.replQ.filterMap id := by unfold pending; simp [hr]
        have hwid := hL.pend wid (by rw [hpend]; simp)
        refine ⟨?_, ?_, ?_, ConsI_congr cs rfl rfl rfl rfl rfl rfl rfl id rfl rfl rfl rfl, ?_⟩
        · obtain ⟨l1, l2, l3, l4⟩ := lk
          constructor
          · intro t ht
            rcases l1 t ht with hc | ⟨x, hx, e, hxin⟩
            · exact Or.inl hc
            · exact Or.inr ⟨x, List.mem_append_left _ hx, e, hxin⟩
          · exact l2
          · intro x hx hxin
            rcases List.mem_append.1 hx with hx | hx
            · exact l3 x hx hxin
            · simp at hx; subst hx; cases hxin
          · intro x hx hp
            rcases List.mem_append.1 hx with hx | hx
            · exact l4 x hx hp
            · simp at hx; subst hx; simp [mkWorker] at hp
        · obtain ⟨p1, p2, p3, p4, p5, p6⟩ := pr
          constructor
          · intro j hj
            obtain ⟨y, hy, rfl⟩ := List.mem_map.1 hj
            by_cases he : y = wid
            · exact ⟨mkWorker s.cfg s.widCounter, by simp, by simp [he, mkWorker]⟩
            · obtain ⟨x, hx, hxw⟩ := p1 y hy
              exact ⟨x, List.mem_append_left _ hx, by simp [he, hxw]⟩
          · show (s.procs.map _).length = _; rw [List.length_map]; exact p2
          · show idxV s.cpc (s.procs.map _).length; rw [List.length_map]; exact p3
          · intro nw hnw
            simp only [RPc.start.injEq] at hnw; subst hnw
            exact List.mem_map.2 ⟨wid, hwid.1, by simp⟩
          · intro x hx hb
            rcases List.mem_append.1 hx with hx | hx
            · exact p5 x hx hb
            · simp at hx; subst hx; exact Or.inl rfl
          · intro x hx hp
            rcases List.mem_append.1 hx with hx | hx
            · exact p6 x hx hp
            · simp at hx; subst hx; cases hp
        · obtain ⟨r1, r2, r3, r4, r5, r6⟩ := rp
          constructor
          · exact r1
          · intro _ hh; cases hh
          · exact r3
          · intro x hx hxpc hxin
            rcases List.mem_append.1 hx with hx | hx
            · obtain ⟨y, hy, hyx⟩ := List.mem_map.1 hxin
              have hlt := hL.widLt x hx
              by_cases he : y = wid
              · simp [he] at hyx; omega
              · simp only [he, if_false] at hyx; subst hyx
                rcases r4 x hx hxpc hy with hh | ⟨hf, hq⟩
                · exact Or.inl hh
                · right; refine ⟨hf, ?_⟩
                  rw [hpend] at hq
                  rcases List.mem_cons.1 hq with hq | hq
                  · exact absurd hq he
                  · unfold pending; simpa using hq
            · simp at hx; subst hx; cases hxpc
          · exact r5
          · exact r6
        · exact CntI_join hL ct hr rfl rfl rfl rfl rfl rfl
      · cases h
    case start nw =>
      split at h
      · cases h
      · rename_i w hg
        simp only [Option.some.injEq] at h; subst h
        obtain ⟨hwm, hwid⟩ := getWorker_some hg
        have hpc : w.pc = .notStarted := hL.rStarting nw hr w hwm hwid
        obtain ⟨lk, pr, rp, cs, ct⟩ := LiveInv_startWorker hL hV hg hpc
        have hp : pending { (setWorker s { w with pc := .bfClear }) with rpc := .get } =
            pending (setWorker s { w with pc := .bfClear }) := by
          unfold pending; simp [setWorker, hr]
        exact ⟨LockI_congr lk rfl rfl rfl, ProcI_congr pr rfl rfl rfl (fun _ h => by cases h) pr.idx,
          ReplI_congr' rp rfl rfl (fun _ hh => by cases hh) rfl (by rw [hp]; exact fun _ hk => hk) rfl rfl (fun _ => id) (fun a _ => Or.inl a) rfl rfl Or.inl,
          ConsI_congr cs rfl rfl rfl rfl rfl rfl rfl id rfl rfl rfl rfl,
          CntI_congr' ct rfl (by rw [hp]) rfl rfl rfl rfl rfl⟩

end WindVerif.Pool
