import WindVerif.Model.TmpPoolCtx
import WindVerif.Proofs.TmpPool
/-! Theorems about `TmpPool` histories that enter and leave the context (`Model/TmpPoolCtx.lean`, C20 / D21). -/
namespace WindVerif.TmpPoolCtx
open WindVerif.TmpPool

/-! ### `enter` changes neither the listing nor the disk -/

theorem rebindOwner_listOf_zero {s : Pool} (h : 0 < s.refs.length) (l : List Path) :
    (rebindOwner s l).listOf 0 = some l := by
  simp [rebindOwner, Pool.listOf, List.getElem?_set_self h]

theorem refs_pos_of_listOf {s : Pool} {l : List Path} (h : s.listOf 0 = some l) : 0 < s.refs.length := by
  unfold Pool.listOf at h
  cases hr : s.refs with
  | nil => simp [hr] at h
  | cons a t => simp

/-- entering the context changes neither what the pool lists nor the disk -/
theorem enter_listing (mp : Bool) (s : Pool) (l : List Path) (h : s.listOf 0 = some l) :
    (enter mp s).listOf 0 = some l ∧ (enter mp s).fs = s.fs := by
  cases mp with
  | false => exact ⟨h, rfl⟩
  | true =>
    simp only [enter, if_true, h]
    exact ⟨rebindOwner_listOf_zero (refs_pos_of_listOf h) l, rfl⟩

/-- the code before the repair: the new list is empty whatever was listed; the disk is as it was -/
theorem enterFresh_listing (s : Pool) (l : List Path) (h : s.listOf 0 = some l) :
    (enterFresh true s).listOf 0 = some [] ∧ (enterFresh true s).fs = s.fs := by
  simp only [enterFresh, if_true, h]
  exact ⟨rebindOwner_listOf_zero (refs_pos_of_listOf h) [], rfl⟩

/-- the defect D21 in general: files created before `__enter__` are forgotten by the pre-repair `__enter__` (they stay on
disk, and no later `flush` / `__exit__` of the owner looks at them) -/
theorem enterFresh_forgets_general (s : Pool) (l : List Path) (h : s.listOf 0 = some l) (hne : l ≠ []) :
    (enterFresh true s).listOf 0 = some [] ∧ (enterFresh true s).listOf 0 ≠ s.listOf 0 ∧
      (enterFresh true s).fs = s.fs := by
  obtain ⟨h1, h2⟩ := enterFresh_listing s l h
  refine ⟨h1, ?_, h2⟩
  rw [h1, h]
  intro hc
  injection hc with hc
  exact hne hc.symm

/-! ### the invariant: "object 0" of `Inv` replaced by "the owner's object" -/

/-- consistency: every process references the list object the owner references, no path listed twice, listed paths were
created by this pool, and every existing file is listed -/
structure InvC (s : Pool) : Prop where
  owner  : ∃ r, s.refs[0]? = some r
  refs   : ∀ r, s.refs[0]? = some r → ∀ r' ∈ s.refs, r' = r
  alloc  : ∀ r, s.refs[0]? = some r → r < s.heap.length
  nodup  : ∀ l, s.listOf 0 = some l → l.Nodup
  below  : ∀ l, s.listOf 0 = some l → ∀ p ∈ l, p < s.fresh
  fsLt   : ∀ p ∈ s.fs, p < s.fresh
  fsNodup : s.fs.Nodup
  listedOfExisting : ∀ l, s.listOf 0 = some l → ∀ p ∈ s.fs, p ∈ l

/-- `InvC` strengthened by "every listed path exists": preserved by everything except `unlink` -/
structure InvC2 (s : Pool) : Prop extends InvC s where
  existingOfListed : ∀ l, s.listOf 0 = some l → ∀ p ∈ l, p ∈ s.fs

/-- the invariant with its witnesses (the owner's reference `r`, the list `l` it denotes); `strict` adds "every listed path
exists" -/
structure Shape (strict : Bool) (s : Pool) (r : Nat) (l : List Path) : Prop where
  r0     : s.refs[0]? = some r
  hl     : s.heap[r]? = some l
  all    : ∀ r' ∈ s.refs, r' = r
  nodup  : l.Nodup
  below  : ∀ p ∈ l, p < s.fresh
  fsLt   : ∀ p ∈ s.fs, p < s.fresh
  fsNodup : s.fs.Nodup
  listed : ∀ p ∈ s.fs, p ∈ l
  existing : strict = true → ∀ p ∈ l, p ∈ s.fs

def InvG (strict : Bool) (s : Pool) : Prop := ∃ r l, Shape strict s r l

namespace Shape
variable {strict : Bool} {s : Pool} {r : Nat} {l : List Path}

theorem rlt (h : Shape strict s r l) : r < s.heap.length := by
  have := h.hl
  exact (List.getElem?_eq_some_iff.mp this).1

theorem pos (h : Shape strict s r l) : 0 < s.refs.length := by
  have := h.r0
  exact (List.getElem?_eq_some_iff.mp this).1

theorem listOf_zero (h : Shape strict s r l) : s.listOf 0 = some l := by
  simp [Pool.listOf, h.r0, h.hl]

theorem refs_get (h : Shape strict s r l) {pid : Nat} (hp : pid < s.refs.length) : s.refs[pid]? = some r := by
  have := h.all s.refs[pid] (List.getElem_mem hp)
  simp [List.getElem?_eq_getElem hp, this]

theorem listOf (h : Shape strict s r l) {pid : Nat} (hp : pid < s.refs.length) : s.listOf pid = some l := by
  simp [Pool.listOf, h.refs_get hp, h.hl]

theorem setList (h : Shape strict s r l) {pid : Nat} (hp : pid < s.refs.length) (l' : List Path) :
    s.setList pid l' = { s with heap := s.heap.set r l' } := by
  simp [Pool.setList, h.refs_get hp]

theorem set_get (h : Shape strict s r l) (l' : List Path) : (s.heap.set r l')[r]? = some l' :=
  List.getElem?_set_self h.rlt

theorem weaken (h : Shape strict s r l) : Shape false s r l :=
  { h with existing := by intro hc; cases hc }

end Shape

theorem invC_of_shape {strict : Bool} {s : Pool} {r : Nat} {l : List Path} (h : Shape strict s r l) : InvC s where
  owner := ⟨r, h.r0⟩
  refs := by intro r1 hr1; rw [h.r0] at hr1; injection hr1 with hr1; exact hr1 ▸ h.all
  alloc := by intro r1 hr1; rw [h.r0] at hr1; injection hr1 with hr1; exact hr1 ▸ h.rlt
  nodup := by intro l1 hl1; rw [h.listOf_zero] at hl1; injection hl1 with hl1; exact hl1 ▸ h.nodup
  below := by intro l1 hl1; rw [h.listOf_zero] at hl1; injection hl1 with hl1; exact hl1 ▸ h.below
  fsLt := h.fsLt
  fsNodup := h.fsNodup
  listedOfExisting := by intro l1 hl1; rw [h.listOf_zero] at hl1; injection hl1 with hl1; exact hl1 ▸ h.listed

theorem shape_of_invC {s : Pool} (h : InvC s) : InvG false s := by
  obtain ⟨r, hr⟩ := h.owner
  have hlt := h.alloc r hr
  have hl : s.heap[r]? = some s.heap[r] := List.getElem?_eq_getElem hlt
  have h0 : s.listOf 0 = some s.heap[r] := by simp [Pool.listOf, hr, hl]
  exact ⟨r, s.heap[r], ⟨hr, hl, h.refs r hr, h.nodup _ h0, h.below _ h0, h.fsLt, h.fsNodup, h.listedOfExisting _ h0,
    by intro hc; cases hc⟩⟩

theorem invC_iff (s : Pool) : InvC s ↔ InvG false s :=
  ⟨shape_of_invC, fun ⟨_, _, h⟩ => invC_of_shape h⟩

theorem invC2_iff (s : Pool) : InvC2 s ↔ InvG true s := by
  constructor
  · intro h
    obtain ⟨r, l, hs⟩ := shape_of_invC h.toInvC
    exact ⟨r, l, { hs with existing := fun _ => h.existingOfListed l hs.listOf_zero }⟩
  · rintro ⟨r, l, hs⟩
    refine ⟨invC_of_shape hs, ?_⟩
    intro l1 hl1
    rw [hs.listOf_zero] at hl1
    injection hl1 with hl1
    exact hl1 ▸ hs.existing rfl

/-- the old invariant (one list object, every reference is 0) is the special case -/
theorem invC_of_inv {s : Pool} (h : Inv s) : InvC s := by
  obtain ⟨l, hh⟩ := heap_eq h
  refine invC_of_shape (strict := false) (r := 0) (l := l) ⟨refs_get h (zero_lt_refs h), by simp [hh], h.refs,
    h.nodup' hh, h.below' hh, h.fsLt, h.fsNodup, h.listed' hh, by intro hc; cases hc⟩

theorem shape_new (strict : Bool) : Shape strict Pool.new 0 [] := by
  constructor <;> simp [Pool.new]

/-! ### the operations under `Shape` -/

section ops
variable {strict : Bool} {s : Pool} {r : Nat} {l : List Path}

theorem applyC_create (mp : Bool) (h : Shape strict s r l) {pid : Nat} (hp : pid < s.refs.length) :
    applyC mp s (.create pid) =
      { s with heap := s.heap.set r (l ++ [s.fresh]), fs := s.fs ++ [s.fresh], fresh := s.fresh + 1 } := by
  simp [applyC, Pool.create, h.listOf hp, h.setList hp]

theorem applyC_create_bad (mp : Bool) {pid : Nat} (hp : ¬ pid < s.refs.length) : applyC mp s (.create pid) = s := by
  simp [applyC, Pool.create, listOf_none hp]

theorem remove_eqC (h : Shape strict s r l) {pid : Nat} (hp : pid < s.refs.length) (p : Path) :
    s.remove pid p =
      if l.contains p then .ok { s with fs := s.fs.filter (· ≠ p), heap := s.heap.set r (l.erase p) }
      else .error .valueError := by
  simp [Pool.remove, h.listOf hp, Pool.setList, h.refs_get hp]

theorem applyC_remove (mp : Bool) (h : Shape strict s r l) {pid : Nat} (hp : pid < s.refs.length) (p : Path) :
    applyC mp s (.remove pid p) =
      if l.contains p then { s with fs := s.fs.filter (· ≠ p), heap := s.heap.set r (l.erase p) } else s.unlink p := by
  by_cases hc : l.contains p = true
  · simp only [applyC, remove_eqC h hp, hc, if_true]
  · simp only [applyC, remove_eqC h hp, hc, Bool.false_eq_true, if_false]

theorem applyC_remove_bad (mp : Bool) {pid : Nat} (hp : ¬ pid < s.refs.length) (p : Path) :
    applyC mp s (.remove pid p) = s := by
  simp [applyC, Pool.remove, listOf_none hp]

theorem flush_eqC (h : Shape strict s r l) {pid : Nat} (hp : pid < s.refs.length) :
    s.flush pid = .ok { s with fs := s.fs.filter (fun p => !l.contains p), heap := s.heap.set r [] } := by
  simp [Pool.flush, h.listOf hp, Pool.setList, h.refs_get hp]

theorem applyC_flush_bad (mp : Bool) {pid : Nat} (hp : ¬ pid < s.refs.length) : applyC mp s (.flush pid) = s := by
  simp [applyC, Pool.flush, listOf_none hp]

theorem applyC_fork (mp : Bool) (h : Shape strict s r l) {pid : Nat} (hp : pid < s.refs.length) :
    applyC mp s (.fork pid) = { s with refs := s.refs ++ [r] } := by
  simp [applyC, Pool.fork, h.refs_get hp]

theorem applyC_fork_bad (mp : Bool) {pid : Nat} (hp : ¬ pid < s.refs.length) : applyC mp s (.fork pid) = s := by
  simp [applyC, Pool.fork, refs_none hp]

theorem shape_unlink (h : Shape strict s r l) (p : Path) (hs : strict = true → p ∉ l) :
    Shape strict (s.unlink p) r l where
  r0 := h.r0
  hl := h.hl
  all := h.all
  nodup := h.nodup
  below := h.below
  fsLt := by
    intro q hq
    simp only [Pool.unlink, List.mem_filter] at hq
    exact h.fsLt q hq.1
  fsNodup := h.fsNodup.filter _
  listed := by
    intro q hq
    simp only [Pool.unlink, List.mem_filter] at hq
    exact h.listed q hq.1
  existing := by
    intro hst q hq
    simp only [Pool.unlink, List.mem_filter, decide_eq_true_eq]
    refine ⟨h.existing hst q hq, ?_⟩
    rintro rfl
    exact hs hst hq

/-- the state after `flush` by an existing process -/
theorem shape_flush (h : Shape strict s r l) :
    Shape strict { s with fs := s.fs.filter (fun p => !l.contains p), heap := s.heap.set r [] } r [] where
  r0 := h.r0
  hl := h.set_get []
  all := h.all
  nodup := List.nodup_nil
  below := by simp
  fsLt := by
    intro q hq
    simp only [List.mem_filter] at hq
    exact h.fsLt q hq.1
  fsNodup := h.fsNodup.filter _
  listed := by
    intro q hq
    simp only [List.mem_filter, List.contains_eq_mem, Bool.not_eq_eq_eq_not, Bool.not_true,
      decide_eq_false_iff_not] at hq
    exact absurd (h.listed q hq.1) hq.2
  existing := by simp

theorem flush_fs_nil (h : Shape strict s r l) : s.fs.filter (fun p => !l.contains p) = [] := by
  refine List.filter_eq_nil_iff.mpr ?_
  intro q hq
  simpa using h.listed q hq

/-- the owner, being the only process, rebinds its list to a new object with the same or with no content -/
theorem shape_rebind (h : Shape strict s r l) (h1 : s.refs.length = 1) (l' : List Path) (hl' : l' = l ∨ (l' = [] ∧ l = [])) :
    Shape strict (rebindOwner s l') s.heap.length l' := by
  have hl : l' = l := by rcases hl' with h | ⟨h, h'⟩ <;> simp [*]
  subst hl
  have hrefs : s.refs = [r] := by
    match hr : s.refs with
    | [a] =>
      have := h.r0
      simp [hr] at this
      simp [this]
    | [] => simp [hr] at h1
    | _ :: _ :: _ => simp [hr] at h1
  exact {
    r0 := by simp [rebindOwner, hrefs]
    hl := by simp [rebindOwner]
    all := by simp [rebindOwner, hrefs]
    nodup := h.nodup
    below := h.below
    fsLt := h.fsLt
    fsNodup := h.fsNodup
    listed := h.listed
    existing := h.existing }

theorem exitCtx_eq (mp : Bool) (h : Shape strict s r l) :
    exitCtx mp s =
      let s1 : Pool := { s with fs := s.fs.filter (fun p => !l.contains p), heap := s.heap.set r [] }
      .ok (if mp then rebindOwner s1 [] else s1) := by
  cases mp <;> simp [exitCtx, flush_eqC h h.pos]

end ops

/-! ### one step, histories -/

theorem shape_step (mp : Bool) {strict : Bool} {s : Pool} (op : COp) (h : InvG strict s)
    (hc : op = .enter ∨ op = .exit → s.refs.length = 1) (hu : strict = true → ∀ p, op ≠ .unlink p) :
    InvG strict (applyC mp s op) := by
  obtain ⟨r, l, h⟩ := h
  cases op with
  | create pid =>
    by_cases hp : pid < s.refs.length
    · rw [applyC_create mp h hp]
      refine ⟨r, l ++ [s.fresh], ?_⟩
      exact {
        r0 := h.r0
        hl := h.set_get _
        all := h.all
        nodup := by
          refine List.nodup_append.mpr ⟨h.nodup, by simp, ?_⟩
          intro a ha b hb
          simp only [List.mem_singleton] at hb
          exact hb ▸ Nat.ne_of_lt (h.below a ha)
        below := by
          intro q hq
          simp only [List.mem_append, List.mem_singleton] at hq
          rcases hq with hq | hq
          · exact Nat.lt_succ_of_lt (h.below q hq)
          · exact hq ▸ Nat.lt_succ_self _
        fsLt := by
          intro q hq
          simp only [List.mem_append, List.mem_singleton] at hq
          rcases hq with hq | hq
          · exact Nat.lt_succ_of_lt (h.fsLt q hq)
          · exact hq ▸ Nat.lt_succ_self _
        fsNodup := by
          refine List.nodup_append.mpr ⟨h.fsNodup, by simp, ?_⟩
          intro a ha b hb
          simp only [List.mem_singleton] at hb
          exact hb ▸ Nat.ne_of_lt (h.fsLt a ha)
        listed := by
          intro q hq
          simp only [List.mem_append, List.mem_singleton] at hq ⊢
          exact hq.imp (h.listed q) id
        existing := by
          intro hst q hq
          simp only [List.mem_append, List.mem_singleton] at hq ⊢
          exact hq.imp (h.existing hst q) id }
    · rw [applyC_create_bad mp hp]; exact ⟨r, l, h⟩
  | remove pid p =>
    by_cases hp : pid < s.refs.length
    · rw [applyC_remove mp h hp]
      by_cases hcp : l.contains p = true
      · simp only [hcp, if_true]
        refine ⟨r, l.erase p, ?_⟩
        exact {
          r0 := h.r0
          hl := h.set_get _
          all := h.all
          nodup := h.nodup.erase p
          below := fun q hq => h.below q (List.mem_of_mem_erase hq)
          fsLt := by
            intro q hq
            simp only [List.mem_filter] at hq
            exact h.fsLt q hq.1
          fsNodup := h.fsNodup.filter _
          listed := by
            intro q hq
            simp only [List.mem_filter, decide_eq_true_eq] at hq
            exact (List.mem_erase_of_ne hq.2).mpr (h.listed q hq.1)
          existing := by
            intro hst q hq
            have := (h.nodup.mem_erase_iff).mp hq
            simp only [List.mem_filter, decide_eq_true_eq]
            exact ⟨h.existing hst q this.2, this.1⟩ }
      · simp only [hcp, Bool.false_eq_true, if_false]
        exact ⟨r, l, shape_unlink h p (fun _ => by simpa using hcp)⟩
    · rw [applyC_remove_bad mp hp]; exact ⟨r, l, h⟩
  | flush pid =>
    by_cases hp : pid < s.refs.length
    · simp only [applyC, flush_eqC h hp]
      exact ⟨r, [], shape_flush h⟩
    · rw [applyC_flush_bad mp hp]; exact ⟨r, l, h⟩
  | fork pid =>
    by_cases hp : pid < s.refs.length
    · rw [applyC_fork mp h hp]
      refine ⟨r, l, ?_⟩
      exact {
        r0 := by
          rw [List.getElem?_append_left h.pos]
          exact h.r0
        hl := h.hl
        all := by
          intro r' hr'
          simp only [List.mem_append, List.mem_singleton] at hr'
          exact hr'.elim (h.all r') id
        nodup := h.nodup
        below := h.below
        fsLt := h.fsLt
        fsNodup := h.fsNodup
        listed := h.listed
        existing := h.existing }
    · rw [applyC_fork_bad mp hp]; exact ⟨r, l, h⟩
  | unlink p =>
    refine ⟨r, l, shape_unlink h p ?_⟩
    intro hst
    exact absurd rfl (hu hst p)
  | enter =>
    cases mp with
    | false => exact ⟨r, l, h⟩
    | true =>
      simp only [applyC, enter, if_true, h.listOf_zero]
      exact ⟨_, _, shape_rebind h (hc (Or.inl rfl)) l (Or.inl rfl)⟩
  | exit =>
    simp only [applyC, exitCtx_eq mp h]
    cases mp with
    | false => exact ⟨r, [], shape_flush h⟩
    | true =>
      simp only [if_true]
      exact ⟨_, _, shape_rebind (shape_flush h) (hc (Or.inr rfl)) [] (Or.inl rfl)⟩

theorem setList_refs (s : Pool) (pid : Nat) (l : List Path) : (s.setList pid l).refs = s.refs := by
  unfold Pool.setList
  split <;> rfl

theorem create_refs {s s' : Pool} {pid : Nat} {p : Path} (h : s.create pid = .ok (s', p)) : s'.refs = s.refs := by
  unfold Pool.create at h
  cases hl : s.listOf pid with
  | none => simp [hl] at h
  | some l =>
    simp only [hl, Except.ok.injEq, Prod.mk.injEq] at h
    rw [← h.1]
    exact setList_refs ..

theorem remove_refs {s s' : Pool} {pid : Nat} {p : Path} (h : s.remove pid p = .ok s') : s'.refs = s.refs := by
  unfold Pool.remove at h
  cases hl : s.listOf pid with
  | none => simp [hl] at h
  | some l =>
    simp only [hl] at h
    split at h
    · injection h with h
      rw [← h]
      exact setList_refs ..
    · cases h

theorem flush_refs {s s' : Pool} {pid : Nat} (h : s.flush pid = .ok s') : s'.refs = s.refs := by
  unfold Pool.flush at h
  cases hl : s.listOf pid with
  | none => simp [hl] at h
  | some l =>
    simp only [hl, Except.ok.injEq] at h
    rw [← h]
    exact setList_refs ..

theorem rebindOwner_refs_length (s : Pool) (l : List Path) : (rebindOwner s l).refs.length = s.refs.length := by
  simp [rebindOwner]

theorem exitCtx_refs_length {mp : Bool} {s s' : Pool} (h : exitCtx mp s = .ok s') : s'.refs.length = s.refs.length := by
  unfold exitCtx at h
  cases hf : s.flush 0 with
  | error e => simp [hf] at h
  | ok s1 =>
    have := flush_refs hf
    cases mp
    · simp [hf] at h
      rw [← h, this]
    · simp [hf] at h
      rw [← h, rebindOwner_refs_length, this]

/-- only `fork` changes the number of processes -/
theorem applyC_refs_length (mp : Bool) (s : Pool) (op : COp) (hop : ∀ pid, op ≠ .fork pid) :
    (applyC mp s op).refs.length = s.refs.length := by
  cases op with
  | create pid =>
    simp only [applyC]
    split
    · next h => rw [create_refs h]
    · rfl
  | remove pid p =>
    simp only [applyC]
    split
    · next h => rw [remove_refs h]
    · rfl
    · rfl
  | flush pid =>
    simp only [applyC]
    split
    · next h => rw [flush_refs h]
    · rfl
  | fork pid => exact absurd rfl (hop pid)
  | unlink p => rfl
  | enter =>
    simp only [applyC, enter]
    split
    · split
      · rfl
      · exact rebindOwner_refs_length ..
    · rfl
  | exit =>
    simp only [applyC]
    split
    · next h => exact exitCtx_refs_length h
    · rfl

theorem run_noCtx (mp : Bool) {strict : Bool} (ops : List COp) (s : Pool) (h : InvG strict s)
    (hn : noCtx ops = true) (hu : strict = true → noUnlink ops = true) : InvG strict (runC mp s ops) := by
  induction ops generalizing s with
  | nil => exact h
  | cons op ops ih =>
    have hok : (¬ (op = .enter ∨ op = .exit)) ∧ noCtx ops = true := by
      cases op <;> simp_all [noCtx]
    have hok2 : strict = true → (∀ p, op ≠ .unlink p) ∧ noUnlink ops = true := by
      intro hst
      have := hu hst
      cases op <;> simp_all [noUnlink]
    exact ih _ (shape_step mp op h (fun hc => absurd hc hok.1) (fun hst => (hok2 hst).1)) hok.2
      (fun hst => (hok2 hst).2)

theorem run_alone (mp : Bool) {strict : Bool} (ops : List COp) (s : Pool) (h : InvG strict s)
    (h1 : s.refs.length = 1) (ha : enterAlone ops = true) (hu : strict = true → noUnlink ops = true) :
    InvG strict (runC mp s ops) := by
  induction ops generalizing s with
  | nil => exact h
  | cons op ops ih =>
    have hok2 : strict = true → (∀ p, op ≠ .unlink p) ∧ noUnlink ops = true := by
      intro hst
      have := hu hst
      cases op <;> simp_all [noUnlink]
    have hstep := shape_step mp op h (fun _ => h1) (fun hst => (hok2 hst).1)
    by_cases hf : ∃ pid, op = .fork pid
    · obtain ⟨pid, rfl⟩ := hf
      exact run_noCtx mp ops _ hstep (by simpa [enterAlone] using ha) (fun hst => (hok2 hst).2)
    · have hnf : ∀ pid, op ≠ .fork pid := fun pid hc => hf ⟨pid, hc⟩
      have ha' : enterAlone ops = true := by
        cases op <;> simp_all [enterAlone]
      exact ih _ hstep ((applyC_refs_length mp s op hnf).trans h1) ha' (fun hst => (hok2 hst).2)

/-! ### the theorems of C20 -/

theorem invC_new : InvC Pool.new := invC_of_shape (shape_new false)

theorem invC2_new : InvC2 Pool.new := (invC2_iff _).mpr ⟨_, _, shape_new true⟩

/-- every operation keeps the invariant, `enter` / `exit` when the owner is the only process -/
theorem invC_step (mp : Bool) (s : Pool) (op : COp) (h : InvC s)
    (hc : op = .enter ∨ op = .exit → s.refs.length = 1) : InvC (applyC mp s op) :=
  (invC_iff _).mpr (shape_step mp op ((invC_iff _).mp h) hc (by intro hst; cases hst))

theorem invC2_step (mp : Bool) (s : Pool) (op : COp) (h : InvC2 s)
    (hc : op = .enter ∨ op = .exit → s.refs.length = 1) (hu : ∀ p, op ≠ .unlink p) : InvC2 (applyC mp s op) :=
  (invC2_iff _).mpr (shape_step mp op ((invC2_iff _).mp h) hc (fun _ => hu))

theorem invC_run (mp : Bool) (ops : List COp) (ha : EnterAlone ops) : InvC (runC mp Pool.new ops) :=
  (invC_iff _).mpr (run_alone mp ops _ ⟨_, _, shape_new false⟩ rfl ha (by intro hst; cases hst))

theorem invC2_run (mp : Bool) (ops : List COp) (ha : EnterAlone ops) (hn : NoUnlinkC ops) :
    InvC2 (runC mp Pool.new ops) :=
  (invC2_iff _).mpr (run_alone mp ops _ ⟨_, _, shape_new true⟩ rfl ha (fun _ => hn))

/-- after any history without outside interference in which the context is entered / left only by a lone owner, the pool
lists exactly the existing files -/
theorem listed_eq_existing_ctx (mp : Bool) (ops : List COp) (ha : EnterAlone ops) (hn : NoUnlinkC ops) :
    ∃ l, (runC mp Pool.new ops).listOf 0 = some l ∧ ∀ p, p ∈ l ↔ p ∈ (runC mp Pool.new ops).fs := by
  obtain ⟨r, l, h⟩ := run_alone mp ops _ ⟨_, _, shape_new true⟩ rfl ha (fun _ => hn)
  exact ⟨l, h.listOf_zero, fun p => ⟨h.existing rfl p, h.listed p⟩⟩

/-- leaving the context in a consistent state: nothing is left on disk; the owner, and every other process, lists nothing -/
theorem exitCtx_nothing_left (mp : Bool) {s : Pool} (h : InvC s) :
    ∃ s', exitCtx mp s = .ok s' ∧ s'.fs = [] ∧ s'.listOf 0 = some [] ∧
      s'.refs.length = s.refs.length ∧ ∀ pid, pid < s.refs.length → s'.listOf pid = some [] := by
  obtain ⟨r, l, h⟩ := shape_of_invC h
  have hf := shape_flush h
  refine ⟨_, exitCtx_eq mp h, ?_⟩
  cases mp with
  | false =>
    refine ⟨flush_fs_nil h, hf.listOf_zero, rfl, ?_⟩
    intro pid hp
    exact hf.listOf hp
  | true =>
    refine ⟨flush_fs_nil h, rebindOwner_listOf_zero hf.pos [], by simp [rebindOwner], ?_⟩
    intro pid hp
    cases pid with
    | zero => exact rebindOwner_listOf_zero hf.pos []
    | succ k =>
      have hk : (s.refs.set 0 (s.heap.set r []).length)[k + 1]? = some r := by
        rw [List.getElem?_set_ne (by omega)]
        exact h.refs_get hp
      have hr : r < (s.heap.set r []).length := by simpa using h.rlt
      simp only [if_true, rebindOwner, Pool.listOf, hk]
      rw [List.getElem?_append_left hr]
      exact h.set_get []

/-- after any history in which the context is entered / left only by a lone owner: `__exit__` succeeds, no file of the pool
exists and nothing is listed -/
theorem nothing_left_exit_ctx (mp : Bool) (ops : List COp) (ha : EnterAlone ops) :
    ∃ s', exitCtx mp (runC mp Pool.new ops) = .ok s' ∧ s'.fs = [] ∧ s'.listOf 0 = some [] := by
  obtain ⟨s', h1, h2, h3, _⟩ := exitCtx_nothing_left mp (invC_run mp ops ha)
  exact ⟨s', h1, h2, h3⟩

theorem enterAlone_creates (n : Nat) (rest : List COp) :
    enterAlone (List.replicate n (COp.create 0) ++ rest) = enterAlone rest := by
  induction n with
  | zero => rfl
  | succ n ih => simpa [List.replicate_succ, enterAlone] using ih

/-- D21: files created before the context is entered are removed when it is left (`n` files before, `m` after) -/
theorem created_before_enter_removed (mp : Bool) (n m : Nat) :
    ∃ s', exitCtx mp (runC mp Pool.new
        (List.replicate n (.create 0) ++ [.enter] ++ List.replicate m (.create 0))) = .ok s' ∧
      s'.fs = [] ∧ s'.listOf 0 = some [] := by
  apply nothing_left_exit_ctx
  show enterAlone _ = true
  rw [List.append_assoc, enterAlone_creates]
  have := enterAlone_creates m []
  simp only [List.append_nil] at this
  simp [enterAlone, this]

/-- the `n + m` files of `created_before_enter_removed` do exist and are listed before the context is left -/
theorem created_before_enter_listed (mp : Bool) (n m : Nat) :
    ∃ l, (runC mp Pool.new (List.replicate n (.create 0) ++ [.enter] ++ List.replicate m (.create 0))).listOf 0 = some l ∧
      ∀ p, p ∈ l ↔ p ∈ (runC mp Pool.new
        (List.replicate n (.create 0) ++ [.enter] ++ List.replicate m (.create 0))).fs := by
  apply listed_eq_existing_ctx
  · show enterAlone _ = true
    rw [List.append_assoc, enterAlone_creates]
    have := enterAlone_creates m []
    simp only [List.append_nil] at this
    simp [enterAlone, this]
  · show noUnlink _ = true
    have hrep : ∀ k (rest : List COp), noUnlink (List.replicate k (COp.create 0) ++ rest) = noUnlink rest := by
      intro k rest
      induction k with
      | zero => rfl
      | succ k ih => simpa [List.replicate_succ, noUnlink] using ih
    rw [List.append_assoc, hrep]
    have := hrep m []
    simp only [List.append_nil] at this
    simp [noUnlink, this]

/-- the defect D21 on the concrete history: `multi_proc` pool, a file is created, the pre-repair `__enter__`, then the
owner's flush (what `__exit__` does): the file is not listed after `enterFresh` and still exists at the end -/
theorem enterFresh_forgets :
    let s1 := enterFresh true (runC true Pool.new [.create 0])
    s1.listOf 0 = some [] ∧ s1.fs = [0] ∧
      ∃ s', s1.flush 0 = .ok s' ∧ s'.fs = [0] ∧ s'.listOf 0 = some [] := by
  refine ⟨by decide, by decide, _, rfl, by decide, by decide⟩

/-- a documented limit: the context entered while a child exists.  The child keeps the old list object, the file it creates
is not seen by the owner's `__exit__` and stays on disk -/
theorem enter_with_child_splits :
    let s := runC true Pool.new [.fork 0, .enter, .create 1]
    s.listOf 0 = some [] ∧ s.listOf 1 = some [0] ∧ ∃ s', exitCtx true s = .ok s' ∧ s'.fs = [0] := by
  refine ⟨by decide, by decide, _, rfl, by decide⟩

/-! ### histories without `enter` / `exit` are the old histories -/

def COp.ofOp : Op → COp
  | .create pid => .create pid
  | .remove pid p => .remove pid p
  | .flush pid => .flush pid
  | .fork pid => .fork pid
  | .unlink p => .unlink p

theorem applyC_ofOp (mp : Bool) (s : Pool) (op : Op) : applyC mp s (COp.ofOp op) = applyOp s op := by
  cases op <;> rfl

theorem runC_ofOp (mp : Bool) (s : Pool) (ops : List Op) : runC mp s (ops.map COp.ofOp) = run s ops := by
  induction ops generalizing s with
  | nil => rfl
  | cons op ops ih => simp only [List.map_cons, runC, List.foldl_cons, applyC_ofOp, run] at ih ⊢; exact ih _

theorem enterAlone_ofOp (ops : List Op) : EnterAlone (ops.map COp.ofOp) := by
  have hno : ∀ ops : List Op, noCtx (ops.map COp.ofOp) = true := by
    intro ops
    induction ops with
    | nil => rfl
    | cons op ops ih => cases op <;> simpa [COp.ofOp, noCtx] using ih
  show enterAlone _ = true
  induction ops with
  | nil => rfl
  | cons op ops ih =>
    cases op <;> simp [COp.ofOp, enterAlone, ih]
    exact hno ops

end WindVerif.TmpPoolCtx
