import WindVerif.Proofs.Storage
/-!
Sessions of `TextFileStorage` (C14): `close()` / leaving the `with storage:` block (`Op.close`, one step at `Pc.xClose`) and
the store that follows it, which re-opens the process's own file in append mode (`oPathsGet`, `oOpenA`).
-/
namespace WindVerif.Storage

/-! ## `fetch` never opens a handle -/

theorem fetch_wOpen_false (p0 : Proc) (h : p0.wOpen = false) : (fetch p0).wOpen = false := by
  cases hs : Proc.script p0 with
  | nil => simp [fetch, hs, h]
  | cons op rest => cases op <;> simp only [fetch, hs] <;> (try split) <;> (try split) <;> simp_all

theorem fetch_rOpen_nil (p0 : Proc) (h : p0.rOpen = []) : (fetch p0).rOpen = [] := by
  cases hs : Proc.script p0 with
  | nil => simp [fetch, hs, h]
  | cons op rest => cases op <;> simp only [fetch, hs] <;> (try split) <;> (try split) <;> simp_all

/-- the process table after a step of process `i`, seen from another process -/
theorem getElem?_set_other (l : List Proc) (i j : Nat) (p' : Proc) (h : j ≠ i) : (l.set i p')[j]? = l[j]? :=
  List.getElem?_set_ne (fun h' => h h'.symm)

/-- `close()` is local: a `close` step changes nothing but the closing process's handles and results — the index, the paths,
the counters, the lock, the files and every other process are as before; the closing process keeps its identifier, has no
handle left and has recorded `ok` -/
theorem close_local {s s' : St} {i : Nat} {p : Proc} (hp : s.procs[i]? = some p) (hpc : p.pc = .xClose)
    (hs : step s i = some s') :
    s'.index = s.index ∧ s'.paths = s.paths ∧ s'.cnt = s.cnt ∧ s'.wf = s.wf ∧ s'.lock = s.lock ∧ s'.files = s.files ∧
    (∀ j, j ≠ i → s'.procs[j]? = s.procs[j]?) ∧
    ∃ p', s'.procs[i]? = some p' ∧ p'.results = p.results ++ [.ok] ∧ p'.ident = p.ident ∧ p'.wOpen = false ∧
      p'.rOpen = [] := by
  have hi : i < s.procs.length := by
    rcases Nat.lt_or_ge i s.procs.length with h' | h'
    · exact h'
    · simp [List.getElem?_eq_none h'] at hp
  simp only [step, getProc_eq, hp, hpc, Option.some.injEq] at hs
  subst hs
  refine ⟨rfl, rfl, rfl, rfl, rfl, rfl, ?_, ?w, ?h1, ?h2, ?h3, ?h4, ?h5⟩
  case h1 => simp only [setProc_procs]; exact List.getElem?_set_self hi
  · intro j hj; simp only [setProc_procs]; exact getElem?_set_other _ _ _ _ hj
  · simp
  · simp
  · exact fetch_wOpen_false _ rfl
  · exact fetch_rOpen_nil _ rfl

/-- the session goes on: when the operation after a `close` is a store and the process already has a file, that store
starts with the append branch of `open()` (`self._file = open(self._file_paths[self._process_identifier], "a")`) -/
theorem close_then_store_reopens {s s' : St} {i : Nat} {p : Proc} (hp : s.procs[i]? = some p) (hpc : p.pc = .xClose)
    (hs : step s i = some s') {g t : Nat} {rest : List Op} (hsc : p.script = .store g t :: rest)
    (hid : p.ident.isSome = true) :
    ∃ p', s'.procs[i]? = some p' ∧ p'.pc = .oPathsGet ∧ p'.gid = g ∧ p'.text = t ∧ p'.script = rest := by
  have hi : i < s.procs.length := by
    rcases Nat.lt_or_ge i s.procs.length with h' | h'
    · exact h'
    · simp [List.getElem?_eq_none h'] at hp
  simp only [step, getProc_eq, hp, hpc, Option.some.injEq] at hs
  subst hs
  refine ⟨?w, ?h1, ?h2⟩
  case h1 => simp only [setProc_procs]; exact List.getElem?_set_self hi
  cases hident : p.ident with
  | none => simp [hident] at hid
  | some w => simp [finish, fetch, hsc]

/-! ## files are append-only -/

/-- whatever is in a file stays there, under every schedule: files only grow at the end -/
theorem files_run {scripts : List (List Op)} {s s' : St} (hA : InvA scripts s) (hB : InvB s) {sched : List Nat}
    (hs : run s sched = some s') {w : Nat} {c : List (Option Nat)} (h : fileOf s w = some c) :
    ∃ d, fileOf s' w = some (c ++ d) := by
  induction sched generalizing s c with
  | nil => simp only [run, Option.some.injEq] at hs; subst hs; exact ⟨[], by simpa using h⟩
  | cons i r ih =>
    simp only [run] at hs
    split at hs
    · cases hs
    · rename_i s1 hs1
      obtain ⟨d1, h1⟩ := (StepB.of_step hA hB hs1).fileMono w c h
      obtain ⟨d2, h2⟩ := ih (hA.step hs1) (hB.step hA hs1) hs h1
      exact ⟨d1 ++ d2, by rw [h2, List.append_assoc]⟩

theorem files_append_only (presize : Nat) (scripts : List (List Op)) (hnf : NoFlush scripts) (s : St)
    (hr : Reach presize scripts s) (sched : List Nat) (s' : St) (hs : run s sched = some s') (w : Nat)
    (c : List (Option Nat)) (h : fileOf s w = some c) : ∃ d, fileOf s' w = some (c ++ d) := by
  obtain ⟨sched0, hr⟩ := hr
  obtain ⟨hA, hB⟩ := reach_AB hnf hr
  exact files_run hA hB hs h

/-! ## a store writes at the end of the process's own file -/

theorem eq_take_append_two {α : Type} {l : List α} {n : Nat} {a b : α} (hl : l.length = n + 2) (ha : l[n]? = some a)
    (hb : l[n + 1]? = some b) : l = l.take n ++ [a, b] := by
  apply List.ext_getElem?
  intro k
  rcases Nat.lt_or_ge k n with h | h
  · rw [List.getElem?_append_left (by rw [List.length_take]; omega), List.getElem?_take_of_lt h]
  · rw [List.getElem?_append_right (by rw [List.length_take]; omega), List.length_take,
      Nat.min_eq_left (by omega)]
    rcases Nat.lt_or_ge k (n + 2) with h2 | h2
    · rcases Nat.eq_or_lt_of_le h with h3 | h3
      · subst h3; simpa using ha
      · have : k = n + 1 := by omega
        subst this
        have : n + 1 - n = 1 := by omega
        rw [this]; simpa using hb
    · rw [List.getElem?_eq_none (by omega), List.getElem?_eq_none (by simp; omega)]

/-- a store — the first one of a session and every later one, in particular the one that re-opened the file in append mode
after a `close` — writes at the end of the process's own file: at the moment the entry is published (`index.setitem`), the
file is what was there when `tell()` was evaluated (`c`, of length `off`) followed by exactly the line of the text; the new
entry is (own file, length of `c`), and what it denotes is that line -/
theorem reopen_appends (presize : Nat) (scripts : List (List Op)) (hnf : NoFlush scripts) (s s' : St)
    (hr : Reach presize scripts s) (i : Nat) (p : Proc) (hp : s.procs[i]? = some p) (hpc : p.pc = .sIdxSet)
    (hs : step s i = some s') :
    ∃ w c, p.ident = some w ∧ fileOf s w = some (c ++ [some p.text, none]) ∧ c.length = p.off ∧
      s'.index[p.gid]? = some (some (w, c.length)) ∧ fileOf s' w = fileOf s w ∧
      entryLine s' p.gid = some [some p.text, none] := by
  obtain ⟨sched0, hr⟩ := hr
  obtain ⟨hA, hB⟩ := reach_AB hnf hr
  have hB' := hB.step hA hs
  have hL := hA.loc i p hp
  have hLB := hB.loc i p hp
  have hid := hL.ident_of_isS (by simp [hpc, isS])
  have hlt := hLB.gidLt (Or.inr (Or.inr (Or.inr (Or.inr (Or.inr hpc)))))
  obtain ⟨c0, hc1, hc2, hc3, hc4⟩ := hLB.wrDone (Or.inr hpc)
  have hc0 := eq_take_append_two hc4 hc2 hc3
  have hlen : (c0.take p.off).length = p.off := by rw [List.length_take]; omega
  simp only [step, getProc_eq, hp, hpc, Option.some.injEq] at hs
  subst hs
  have hidx : (setProc { s with index := s.index.set p.gid (some (p.ident.getD 0, p.off)) } i
      { p with pc := .sCntRead }).index[p.gid]? = some (some (p.ident.getD 0, p.off)) := by
    simp only [setProc_index]; exact List.getElem?_set_self hlt
  refine ⟨p.ident.getD 0, c0.take p.off, hid, by rw [hc1, ← hc0], hlen, by rw [hlen]; exact hidx, rfl, ?_⟩
  obtain ⟨c', t', e1, e2, e3, e4⟩ := hB'.entry_line hidx
  have e1' : fileOf s (p.ident.getD 0) = some c' := e1
  rw [hc1] at e1'; cases e1'
  rw [hc2] at e2; cases e2
  exact e4

end WindVerif.Storage
