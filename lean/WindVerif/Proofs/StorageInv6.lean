import WindVerif.Proofs.StorageInv5
/-! Auxiliary development for `Storage.lean`, part 6: the history layer `InvC` of the invariant (what the results of finished
operations say) — definitions and general lemmas. -/
namespace WindVerif.Storage
set_option linter.unusedSimpArgs false

/-- same as `stored` of `Storage.lean` -/
def stored' (s : St) (g : Nat) : Bool :=
  match s.index[g]? with
  | some (some _) => true
  | _ => false

/-- same as `resultOf` of `Storage.lean` -/
def resultOf' (scripts : List (List Op)) (s : St) (i k : Nat) : Option (Op × Res) :=
  match scripts[i]?, s.procs[i]? with
  | some sc, some p => (match sc[k]?, p.results[k]? with | some op, some r => some (op, r) | _, _ => none)
  | _, _ => none

@[simp] theorem stored'_setProc (s : St) (i : Nat) (p : Proc) (g : Nat) : stored' (setProc s i p) g = stored' s g := rfl
@[simp] theorem stored'_setFile (s : St) (w : Nat) (c : List (Option Nat)) (g : Nat) :
    stored' (setFile s w c) g = stored' s g := rfl
@[simp] theorem stored'_release (s : St) (i : Nat) (p : Proc) (g : Nat) : stored' (release s i p).1 g = stored' s g := by
  unfold stored'; simp
@[simp] theorem stored'_mk_index (s : St) (a : List Proc) (b : List (Option Nat)) (d e : Nat) (f : Option Nat)
    (h : List (Nat × List (Option Nat))) (g : Nat) :
    stored' { procs := a, paths := b, index := s.index, cnt := d, wf := e, lock := f, files := h } g = stored' s g := rfl

theorem stored'_iff {s : St} {g : Nat} : stored' s g = true ↔ ∃ e, s.index[g]? = some (some e) := by
  unfold stored'
  split
  · rename_i e h; simp [h]
  · rename_i h
    simp only [Bool.false_eq_true, false_iff, not_exists]
    intro e he; exact h e he

theorem stored'_mono {s s' : St} (hS : StepB s s') {g : Nat} (h : stored' s g = true) : stored' s' g = true := by
  rw [stored'_iff] at h ⊢
  obtain ⟨e, he⟩ := h
  exact ⟨e, hS.idxMono g e he⟩

theorem resultOf'_some {scripts : List (List Op)} {s : St} {i k : Nat} {op : Op} {r : Res} :
    resultOf' scripts s i k = some (op, r) ↔
      ∃ sc p, scripts[i]? = some sc ∧ s.procs[i]? = some p ∧ sc[k]? = some op ∧ p.results[k]? = some r := by
  unfold resultOf'
  constructor
  · intro h
    split at h
    · rename_i sc p h1 h2
      split at h
      · rename_i op' r' h3 h4
        simp only [Option.some.injEq, Prod.mk.injEq] at h
        obtain ⟨rfl, rfl⟩ := h
        exact ⟨sc, p, h1, h2, h3, h4⟩
      · cases h
    · cases h
  · rintro ⟨sc, p, h1, h2, h3, h4⟩
    simp [h1, h2, h3, h4]

/-- a store of `g` with text `t` has finished successfully -/
def Fin (scripts : List (List Op)) (s : St) (g t : Nat) : Prop :=
  ∃ j k, resultOf' scripts s j k = some (.store g t, .ok)

theorem getElem?_append_some {α : Type} {l d : List α} {k : Nat} {x : α} (h : (l ++ d)[k]? = some x) :
    l[k]? = some x ∨ (l.length ≤ k ∧ d[k - l.length]? = some x) := by
  rcases Nat.lt_or_ge k l.length with h' | h'
  · rw [List.getElem?_append_left h'] at h; exact Or.inl h
  · rw [List.getElem?_append_right h'] at h; exact Or.inr ⟨h', h⟩

theorem resultOf'_mono {scripts : List (List Op)} {s s' : St} {i : Nat} {p p' : Proc} (hp : s.procs[i]? = some p)
    (hF : StepA s s' i p p') {j k : Nat} {x : Op × Res} (h : resultOf' scripts s j k = some x) :
    resultOf' scripts s' j k = some x := by
  obtain ⟨op, r⟩ := x
  rw [resultOf'_some] at h ⊢
  obtain ⟨sc, q, h1, h2, h3, h4⟩ := h
  obtain ⟨l, hl, _⟩ := hF.results
  by_cases hji : j = i
  · subst hji
    rw [hp] at h2; cases h2
    refine ⟨sc, p', h1, ?_, h3, ?_⟩
    · rw [hF.procs, getElem?_set_proc _ _ _ _ _ _ hp]; exact Or.inl ⟨rfl, rfl⟩
    · rw [hl]; exact getElem?_append_of_some h4
  · refine ⟨sc, q, h1, ?_, h3, h4⟩
    rw [hF.procs, getElem?_set_proc _ _ _ _ _ _ hp]; exact Or.inr ⟨hji, h2⟩

theorem resultOf'_back {scripts : List (List Op)} {s s' : St} {i : Nat} {p p' : Proc} (hp : s.procs[i]? = some p)
    (hF : StepA s s' i p p') {l : List Res} (hl : p'.results = p.results ++ l) {j k : Nat} {op : Op} {r : Res}
    (h : resultOf' scripts s' j k = some (op, r)) :
    resultOf' scripts s j k = some (op, r) ∨
      (j = i ∧ p.results.length ≤ k ∧ l[k - p.results.length]? = some r ∧
        ∃ sc, scripts[i]? = some sc ∧ sc[k]? = some op) := by
  rw [resultOf'_some] at h
  obtain ⟨sc, q, h1, h2, h3, h4⟩ := h
  rw [hF.procs, getElem?_set_proc _ _ _ _ _ _ hp] at h2
  rcases h2 with ⟨rfl, rfl⟩ | ⟨hji, h2⟩
  · rw [hl] at h4
    rcases getElem?_append_some h4 with h4 | ⟨h5, h6⟩
    · left; rw [resultOf'_some]; exact ⟨sc, p, h1, hp, h3, h4⟩
    · right; exact ⟨rfl, h5, h6, sc, h1, h3⟩
  · left; rw [resultOf'_some]; exact ⟨sc, q, h1, h2, h3, h4⟩

theorem Fin.mono {scripts : List (List Op)} {s s' : St} {i : Nat} {p p' : Proc} (hp : s.procs[i]? = some p)
    (hF : StepA s s' i p p') {g t : Nat} (h : Fin scripts s g t) : Fin scripts s' g t := by
  obtain ⟨j, k, h⟩ := h
  exact ⟨j, k, resultOf'_mono hp hF h⟩

/-- no new successful *store* unless the step is the final release of a store (the only other step that records `ok` is a
`close`, and then the operation in progress is `close`) -/
theorem resultOf'_back_ok {scripts : List (List Op)} {s s' : St} {i : Nat} {p p' : Proc} (hp : s.procs[i]? = some p)
    (hF : StepA s s' i p p') (hL : LocA scripts s i p) (hpc : p.pc ≠ .sRel) {j k g t : Nat}
    (h : resultOf' scripts s' j k = some (.store g t, .ok)) : resultOf' scripts s j k = some (.store g t, .ok) := by
  obtain ⟨l, hl, hok⟩ := hF.results
  rcases resultOf'_back hp hF hl h with h | ⟨_, h5, h6, sc, hsc, hat⟩
  · exact h
  · rcases hok (List.mem_of_getElem? h6) with h7 | ⟨h7, h8⟩
    · exact absurd h7 hpc
    · exfalso
      subst h8
      have hk : k = p.results.length := by
        rcases Nat.lt_or_ge (k - p.results.length) 1 with h' | h'
        · omega
        · rw [List.getElem?_eq_none (by simpa using h')] at h6; cases h6
      subst hk
      obtain ⟨sc', hsc', hd⟩ := hL.hist
      rw [hsc] at hsc'; cases hsc'
      have hcur : curOp p = some .close := by simp [curOp, h7]
      rw [hcur] at hd
      have : (sc.drop p.results.length)[0]? = some Op.close := by rw [hd]; rfl
      rw [List.getElem?_drop, Nat.add_zero, hat] at this
      cases this

theorem Fin.back {scripts : List (List Op)} {s s' : St} {i : Nat} {p p' : Proc} (hp : s.procs[i]? = some p)
    (hF : StepA s s' i p p') (hL : LocA scripts s i p) (hpc : p.pc ≠ .sRel) {g t : Nat} (h : Fin scripts s' g t) :
    Fin scripts s g t := by
  obtain ⟨j, k, h⟩ := h
  exact ⟨j, k, resultOf'_back_ok hp hF hL hpc h⟩

/-! ## the history layer -/

def postStore : Pc → Bool
  | .sCntRead | .sCntWrite | .sWfRead1 | .sWfRead2 | .sWfWrite1 | .sLoopWf | .sLoopCnt | .sLoopWf2 | .sLoopIdx
  | .sLoopWfR | .sLoopWfW | .sRel => true
  | _ => false

def midStore : Pc → Bool
  | .sTell | .sWriteText | .sWriteNl | .sFlush | .sIdxSet
  | .sCntRead | .sCntWrite | .sWfRead1 | .sWfRead2 | .sWfWrite1 | .sLoopWf | .sLoopCnt | .sLoopWf2 | .sLoopIdx
  | .sLoopWfR | .sLoopWfW | .sRel => true
  | _ => false

def rdPc : Pc → Bool
  | .gRel | .gPathsGet | .gOpenR | .gSeek | .gReadline => true
  | _ => false

/-- what the results recorded so far say -/
structure LocC1 (scripts : List (List Op)) (s : St) (i : Nat) (p : Proc) : Prop where
  resStore : ∀ (sc : List Op) (k g t : Nat) (r : Res), scripts[i]? = some sc → sc[k]? = some (.store g t) →
    p.results[k]? = some r → (r = .ok ∨ r = .valueError) ∧ stored' s g = true
  resRead : ∀ (sc : List Op) (k g : Nat) (r : Res), scripts[i]? = some sc → sc[k]? = some (.read g) →
    p.results[k]? = some r → r = .indexError ∨ ∃ t, Fin scripts s g t ∧ r = .text [some t, none]

/-- what the operation in progress knows -/
structure LocC2 (scripts : List (List Op)) (s : St) (p : Proc) : Prop where
  postSt : postStore p.pc = true ∨ p.pc = .sRelErr → stored' s p.gid = true
  noFin : midStore p.pc = true → ∀ t, ¬ Fin scripts s p.gid t
  rd : rdPc p.pc = true → ∃ c t, fileOf s p.target = some c ∧ c[p.off]? = some (some t) ∧ Fin scripts s p.gid t

/-- every published entry belongs to a finished store or to the store in progress -/
def EntC (scripts : List (List Op)) (s : St) : Prop :=
  ∀ (g w off : Nat) (c : List (Option Nat)) (t : Nat), s.index[g]? = some (some (w, off)) → fileOf s w = some c →
    c[off]? = some (some t) →
    Fin scripts s g t ∨ ∃ (i : Nat) (p : Proc), s.procs[i]? = some p ∧ postStore p.pc = true ∧ p.gid = g ∧ p.text = t

def UniqOk (scripts : List (List Op)) (s : St) : Prop :=
  ∀ (i k j k' g t t' : Nat), resultOf' scripts s i k = some (.store g t, .ok) →
    resultOf' scripts s j k' = some (.store g t', .ok) → i = j ∧ k = k'

structure InvC (scripts : List (List Op)) (s : St) : Prop where
  loc1 : ∀ (i : Nat) (p : Proc), s.procs[i]? = some p → LocC1 scripts s i p
  loc2 : ∀ (i : Nat) (p : Proc), s.procs[i]? = some p → LocC2 scripts s p
  entC : EntC scripts s
  uniqOk : UniqOk scripts s

theorem LocC1.mono {scripts : List (List Op)} {s s' : St} {i j : Nat} {p p' q : Proc} (hp : s.procs[i]? = some p)
    (hF : StepA s s' i p p') (hS : StepB s s') (h : LocC1 scripts s j q) : LocC1 scripts s' j q := by
  constructor
  · intro sc k g t r h1 h2 h3
    obtain ⟨h4, h5⟩ := h.resStore sc k g t r h1 h2 h3
    exact ⟨h4, stored'_mono hS h5⟩
  · intro sc k g r h1 h2 h3
    rcases h.resRead sc k g r h1 h2 h3 with h4 | ⟨t, h4, h5⟩
    · exact Or.inl h4
    · exact Or.inr ⟨t, h4.mono hp hF, h5⟩

/-- the results after an operation has finished with result `r` -/
theorem LocC1.finish {scripts : List (List Op)} {s' : St} {i : Nat} {p p' : Proc} {sc : List Op} {op : Op} {r : Res}
    (h : LocC1 scripts s' i p) (hsc : scripts[i]? = some sc) (hop : sc[p.results.length]? = some op)
    (hres : p'.results = p.results ++ [r])
    (hst : ∀ g t, op = .store g t → (r = .ok ∨ r = .valueError) ∧ stored' s' g = true)
    (hrd : ∀ g, op = .read g → r = .indexError ∨ ∃ t, Fin scripts s' g t ∧ r = .text [some t, none]) :
    LocC1 scripts s' i p' := by
  constructor
  · intro sc' k g t r' h1 h2 h3
    rw [hsc] at h1; cases h1
    rw [hres] at h3
    rcases getElem?_append_some h3 with h3 | ⟨h4, h5⟩
    · exact h.resStore sc k g t r' hsc h2 h3
    · have hk : k = p.results.length := by
        rcases Nat.lt_or_ge (k - p.results.length) 1 with h' | h'
        · omega
        · rw [List.getElem?_eq_none (by simpa using h')] at h5; cases h5
      subst hk
      simp at h5; subst h5
      rw [hop] at h2; cases h2
      exact hst g t rfl
  · intro sc' k g r' h1 h2 h3
    rw [hsc] at h1; cases h1
    rw [hres] at h3
    rcases getElem?_append_some h3 with h3 | ⟨h4, h5⟩
    · exact h.resRead sc k g r' hsc h2 h3
    · have hk : k = p.results.length := by
        rcases Nat.lt_or_ge (k - p.results.length) 1 with h' | h'
        · omega
        · rw [List.getElem?_eq_none (by simpa using h')] at h5; cases h5
      subst hk
      simp at h5; subst h5
      rw [hop] at h2; cases h2
      exact hrd g rfl

theorem LocC2.of_entry {scripts : List (List Op)} {s : St} {p : Proc} (h : isEntry p.pc = true) : LocC2 scripts s p := by
  constructor <;> intro h' <;> cases hpc : p.pc <;> simp_all [isEntry, postStore, midStore, rdPc]

theorem LocC2.iterAdvance {scripts : List (List Op)} {s : St} {p : Proc} : LocC2 scripts s (iterAdvance p) := by
  unfold Storage.iterAdvance; dsimp only; split <;> constructor <;> simp [postStore, midStore, rdPc]

/-- another process keeps what it knows -/
theorem LocC2.frame {scripts : List (List Op)} {s s' : St} {i j : Nat} {p p' q : Proc} (hp : s.procs[i]? = some p)
    (hF : StepA s s' i p p') (hS : StepB s s') (hAq : LocA scripts s j q) (hji : j ≠ i) (hAp : LocA scripts s i p)
    (h : LocC2 scripts s q) : LocC2 scripts s' q := by
  constructor
  · intro h'; exact stored'_mono hS (h.postSt h')
  · intro h' t hfin
    refine h.noFin h' t (hfin.back hp hF hAp ?_)
    intro hpc
    have h1 : s.lock = some j := hAq.lock.1 (by unfold dep; cases hq : q.pc <;> simp_all [midStore])
    have h2 : s.lock = some i := hAp.lock.1 (by simp [dep, hpc])
    rw [h1] at h2; exact hji (by simpa using h2)
  · intro h'
    obtain ⟨c, t, h1, h2, h3⟩ := h.rd h'
    obtain ⟨d, hd⟩ := hS.fileMono _ c h1
    exact ⟨c ++ d, t, hd, getElem?_append_of_some h2, h3.mono hp hF⟩

end WindVerif.Storage
