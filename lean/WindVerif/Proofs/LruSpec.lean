import WindVerif.Spec.CacheOps
/-! Theorems about the abstract LRU cache (recency list), including its justification by time stamps. -/
namespace WindVerif.Cache.LruSpec
open WindVerif.Cache

/-- well-formedness (no repeated key, at most `cap` entries) is preserved by every primitive -/
theorem wf_get (cap : Nat) (l l' : St) (k : Key) (v : Val) (h : Wf cap l) (hg : get l k = .ok (l', v)) : Wf cap l' := sorry
theorem wf_set (cap : Nat) (hc : 1 ≤ cap) (l : St) (k : Key) (v : Val) (h : Wf cap l) :
    ∃ l', set cap l k v = .ok l' ∧ Wf cap l' := sorry
theorem wf_del (cap : Nat) (l l' : St) (k : Key) (h : Wf cap l) (hd : del l k = .ok l') : Wf cap l' := sorry

/-- a lookup returns what is stored, fails with `KeyError` exactly for absent keys, and changes no content -/
theorem get_spec (cap : Nat) (l : St) (k : Key) (h : Wf cap l) :
    (∀ v, l.lookup k = some v → ∃ l', get l k = .ok (l', v) ∧ l'.Perm l ∧ l'.head? = some (k, v)) ∧
    (l.lookup k = none → get l k = .error .keyError) := sorry

/-- after `c[k] = v` a lookup of `k` gives `v`; every other key that is still present keeps its value -/
theorem lookup_after_set (cap : Nat) (hc : 1 ≤ cap) (l l' : St) (k : Key) (v : Val) (h : Wf cap l)
    (hs : set cap l k v = .ok l') :
    l'.lookup k = some v ∧ ∀ k', k' ≠ k → ∀ w, l'.lookup k' = some w → l.lookup k' = some w := sorry

/-- storing a new key into a full cache removes exactly the last (least recently used) entry and nothing else -/
theorem evicts_exactly_lru (cap : Nat) (hc : 1 ≤ cap) (l : St) (k : Key) (v : Val) (h : Wf cap l)
    (hfull : l.length = cap) (hnew : l.lookup k = none) :
    ∃ init last, l = init ++ [last] ∧ set cap l k v = .ok ((k, v) :: init) := sorry

/-- with room left nothing is removed; storing to a present key removes nothing either -/
theorem no_eviction (cap : Nat) (l l' : St) (k : Key) (v : Val) (h : Wf cap l)
    (hroom : l.length < cap ∨ (l.lookup k).isSome) (hs : set cap l k v = .ok l') :
    ∀ k', (l.lookup k').isSome → (l'.lookup k').isSome := sorry

/-- deletion removes exactly the key -/
theorem del_spec (cap : Nat) (l : St) (k : Key) (h : Wf cap l) :
    ((l.lookup k).isSome → ∃ l', del l k = .ok l' ∧ l'.lookup k = none ∧
        ∀ k', k' ≠ k → l'.lookup k' = l.lookup k') ∧
    (l.lookup k = none → del l k = .error .keyError) := sorry

/-! ### time stamps: the list order *is* recency, the victim *is* the least recently used entry -/
open LruTs

theorem presents_get (l l' : St) (t : LruTs.St) (k : Key) (v : Val) (hp : Presents l t)
    (hg : get l k = .ok (l', v)) :
    Presents l' { entries := (k, v, t.clock) :: LruTs.without t k, clock := t.clock + 1 } := sorry

theorem presents_set_present (cap : Nat) (l l' : St) (t : LruTs.St) (k : Key) (v : Val) (hp : Presents l t)
    (hin : (l.lookup k).isSome) (hs : set cap l k v = .ok l') :
    Presents l' { entries := (k, v, t.clock) :: LruTs.without t k, clock := t.clock + 1 } := sorry

theorem presents_set_evict (cap : Nat) (hc : 1 ≤ cap) (l l' : St) (t : LruTs.St) (k : Key) (v : Val)
    (hw : Wf cap l) (hp : Presents l t) (hnew : l.lookup k = none) (hfull : l.length = cap)
    (hs : set cap l k v = .ok l') :
    ∃ e, IsOldest t e ∧
      Presents l' { entries := (k, v, t.clock) :: t.entries.filter (· ≠ e), clock := t.clock + 1 } := sorry

theorem presents_set_room (cap : Nat) (l l' : St) (t : LruTs.St) (k : Key) (v : Val) (hp : Presents l t)
    (hnew : l.lookup k = none) (hroom : l.length < cap) (hs : set cap l k v = .ok l') :
    Presents l' { entries := (k, v, t.clock) :: t.entries, clock := t.clock + 1 } := sorry

theorem presents_del (l l' : St) (t : LruTs.St) (k : Key) (hp : Presents l t) (hd : del l k = .ok l') :
    Presents l' { entries := LruTs.without t k, clock := t.clock } := sorry

/-! ### the mixins on the abstract cache: total, and agreeing with the content -/

theorem items_spec (cap : Nat) (l : St) (h : Wf cap l) :
    ∃ l', items (prim cap) l = .ok (l', l) ∧ l'.Perm l := sorry

theorem contains_spec (cap : Nat) (l : St) (k : Key) (h : Wf cap l) :
    ∃ l', contains (prim cap) l k = .ok (l', (l.lookup k).isSome) ∧ l'.Perm l := sorry

theorem getD_spec (cap : Nat) (l : St) (k : Key) (h : Wf cap l) :
    ∃ l', getD (prim cap) l k = .ok (l', l.lookup k) ∧ l'.Perm l := sorry

theorem pop_spec (cap : Nat) (l : St) (k : Key) (h : Wf cap l) :
    (∀ v, l.lookup k = some v → pop (prim cap) l k = .ok (without l k, v)) ∧
    (l.lookup k = none → pop (prim cap) l k = .error .keyError) := sorry

theorem popitem_spec (cap : Nat) (l : St) (h : Wf cap l) :
    match l with
    | [] => popitem (prim cap) l = .error .keyError
    | (k, v) :: r => popitem (prim cap) l = .ok (r, k, v) := sorry

theorem clear_spec (cap : Nat) (l : St) (h : Wf cap l) : clear (prim cap) l = .ok [] := sorry

theorem update_total (cap : Nat) (hc : 1 ≤ cap) (l : St) (ps : List (Key × Val)) (h : Wf cap l) :
    ∃ l', update (prim cap) l ps = .ok l' ∧ Wf cap l' := sorry

theorem setdefault_spec (cap : Nat) (hc : 1 ≤ cap) (l : St) (k : Key) (v : Val) (h : Wf cap l) :
    (∀ w, l.lookup k = some w → ∃ l', setdefault (prim cap) l k v = .ok (l', w) ∧ l'.Perm l) ∧
    (l.lookup k = none → ∃ l', setdefault (prim cap) l k v = .ok (l', v) ∧ set cap l k v = .ok l') := sorry

theorem eq_spec (cap : Nat) (l : St) (other : List (Key × Val)) (h : Wf cap l)
    (ho : (other.map (·.1)).Nodup) :
    ∃ l' b, eqDict (prim cap) l other = .ok (l', b) ∧ l'.Perm l ∧
      (b = true ↔ ∀ k, l.lookup k = other.lookup k) := sorry

end WindVerif.Cache.LruSpec
