import WindVerif.Spec.CacheOps
/-! Theorems about the abstract LRU cache (recency list), including its justification by time stamps. -/
set_option linter.unusedVariables false
namespace WindVerif.Cache.LruSpec
open WindVerif.Cache

/-! ### auxiliary facts about `lookup`, `without` and key-`Nodup` lists -/

theorem mem_of_lookup {l : St} {k : Key} {v : Val} (h : l.lookup k = some v) : (k, v) ∈ l := by
  induction l with
  | nil => simp at h
  | cons p r ih =>
    obtain ⟨a, b⟩ := p
    simp only [List.lookup_cons] at h
    split at h
    · rename_i he; simp at he h; simp [he, h]
    · exact List.mem_cons_of_mem _ (ih h)

theorem lookup_of_mem {l : St} (hn : (l.map (·.1)).Nodup) {k : Key} {v : Val} (h : (k, v) ∈ l) :
    l.lookup k = some v := by
  induction l with
  | nil => simp at h
  | cons p r ih =>
    obtain ⟨a, b⟩ := p
    simp only [List.map_cons, List.nodup_cons, List.mem_map] at hn
    simp only [List.lookup_cons]
    rcases List.mem_cons.1 h with he | hm
    · cases he; simp
    · have : (k == a) = false := by
        simp; intro hka; subst hka; exact hn.1 ⟨_, hm, rfl⟩
      simp [this, ih hn.2 hm]

theorem lookup_iff {l : St} (hn : (l.map (·.1)).Nodup) {k : Key} {v : Val} :
    l.lookup k = some v ↔ (k, v) ∈ l := ⟨mem_of_lookup, lookup_of_mem hn⟩

theorem lookup_none_iff {l : St} {k : Key} : l.lookup k = none ↔ k ∉ l.map (·.1) := by
  simp [List.lookup_eq_none_iff]
  grind

theorem lookup_isSome_iff {l : St} {k : Key} : (l.lookup k).isSome ↔ k ∈ l.map (·.1) := by
  have := @lookup_none_iff l k
  cases h : l.lookup k <;> simp_all

theorem mem_without {l : St} {k : Key} {p : Key × Val} : p ∈ without l k ↔ p ∈ l ∧ p.1 ≠ k := by
  simp [without]

theorem keys_without (l : St) (k : Key) : (without l k).map (·.1) = (l.map (·.1)).filter (· ≠ k) := by
  simp [without, List.filter_map]; rfl

theorem nodup_without {l : St} (hn : (l.map (·.1)).Nodup) (k : Key) : ((without l k).map (·.1)).Nodup := by
  rw [keys_without]; exact hn.filter _

theorem lookup_without_self (l : St) (k : Key) : (without l k).lookup k = none := by
  rw [lookup_none_iff, keys_without]; simp

theorem lookup_without_ne (l : St) {k k' : Key} (h : k' ≠ k) : (without l k).lookup k' = l.lookup k' := by
  induction l with
  | nil => rfl
  | cons p r ih =>
    obtain ⟨a, b⟩ := p
    simp only [without, List.filter_cons] at ih ⊢
    by_cases hak : a = k
    · subst hak
      have : (k' == a) = false := by simp [h]
      simp only [List.lookup_cons, this]
      simp_all
    · simp_all [List.lookup_cons]

theorem length_without {l : St} (hn : (l.map (·.1)).Nodup) {k : Key} (hk : k ∈ l.map (·.1)) :
    (without l k).length + 1 = l.length := by
  induction l with
  | nil => simp at hk
  | cons p r ih =>
    obtain ⟨a, b⟩ := p
    simp only [List.map_cons, List.nodup_cons] at hn
    by_cases hak : a = k
    · subst hak
      have : without ((a, b) :: r) a = r := by
        simp only [without, List.filter_cons]; simp
        intro x y hm hx; subst hx; exact hn.1 (List.mem_map.2 ⟨_, hm, rfl⟩)
      simp [this]
    · have hk' : k ∈ r.map (·.1) := by
        simp only [List.map_cons, List.mem_cons] at hk
        rcases hk with h | h
        · exact absurd h.symm hak
        · exact h
      have := ih hn.2 hk'
      simp only [without, List.filter_cons] at this ⊢
      simp_all

theorem length_without_le (l : St) (k : Key) : (without l k).length ≤ l.length := List.length_filter_le _ _

theorem perm_front {l : St} (hn : (l.map (·.1)).Nodup) {k : Key} {v : Val} (h : (k, v) ∈ l) :
    ((k, v) :: without l k).Perm l := by
  induction l with
  | nil => simp at h
  | cons p r ih =>
    obtain ⟨a, b⟩ := p
    simp only [List.map_cons, List.nodup_cons] at hn
    by_cases hak : a = k
    · subst hak
      have hr : without ((a, b) :: r) a = r := by
        simp only [without, List.filter_cons]; simp
        intro x y hm hx; subst hx; exact hn.1 (List.mem_map.2 ⟨_, hm, rfl⟩)
      have hb : b = v := by
        rcases List.mem_cons.1 h with he | hm
        · cases he; rfl
        · exact absurd (List.mem_map.2 ⟨_, hm, rfl⟩) hn.1
      subst hb; rw [hr]
    · have hm : (k, v) ∈ r := by
        rcases List.mem_cons.1 h with he | hm
        · cases he; exact absurd rfl hak
        · exact hm
      have hw : without ((a, b) :: r) k = (a, b) :: without r k := by
        simp only [without, List.filter_cons]; simp [hak]
      rw [hw]
      exact (List.Perm.swap _ _ _).trans ((ih hn.2 hm).cons _)


theorem get_eq_of_mem {l : St} (hn : (l.map (·.1)).Nodup) {k : Key} {v : Val} (h : (k, v) ∈ l) :
    get l k = .ok ((k, v) :: without l k, v) := by
  simp [get, lookup_of_mem hn h]

theorem get_ok {l l' : St} {k : Key} {v : Val} (hg : get l k = .ok (l', v)) :
    l.lookup k = some v ∧ l' = (k, v) :: without l k := by
  unfold get at hg
  split at hg
  · rename_i w hw; simp at hg; obtain ⟨h1, h2⟩ := hg; subst h2; exact ⟨hw, h1.symm⟩
  · simp at hg

/-- well-formedness (no repeated key, at most `cap` entries) is preserved by every primitive -/
theorem wf_get (cap : Nat) (l l' : St) (k : Key) (v : Val) (h : Wf cap l) (hg : get l k = .ok (l', v)) : Wf cap l' := by
  obtain ⟨hl, rfl⟩ := get_ok hg
  have hp := perm_front h.1 (mem_of_lookup hl)
  exact ⟨((hp.map _).nodup_iff).2 h.1, hp.length_eq ▸ h.2⟩

theorem set_cases (cap : Nat) (l : St) (k : Key) (v : Val) :
    ((l.lookup k).isSome ∧ set cap l k v = .ok ((k, v) :: without l k)) ∨
    (l.lookup k = none ∧ cap ≤ l.length ∧ set cap l k v = .ok ((k, v) :: l.dropLast)) ∨
    (l.lookup k = none ∧ l.length < cap ∧ set cap l k v = .ok ((k, v) :: l)) := by
  unfold set
  cases h : l.lookup k with
  | some w => simp
  | none =>
    by_cases hc : cap ≤ l.length
    · simp [hc]
    · simp [hc]; omega

theorem nodup_dropLast {l : St} (hn : (l.map (·.1)).Nodup) : ((l.dropLast).map (·.1)).Nodup := by
  rw [List.map_dropLast]; exact hn.sublist (List.dropLast_sublist _)

theorem wf_set' (cap : Nat) (hc : 1 ≤ cap) (l l' : St) (k : Key) (v : Val) (h : Wf cap l)
    (hs : set cap l k v = .ok l') : Wf cap l' := by
  rcases set_cases cap l k v with ⟨h1, h2⟩ | ⟨h1, h2, h3⟩ | ⟨h1, h2, h3⟩
  · rw [h2] at hs; cases hs
    obtain ⟨w, hw⟩ := Option.isSome_iff_exists.1 h1
    have hp := perm_front h.1 (mem_of_lookup hw)
    refine ⟨?_, ?_⟩
    · simp only [List.map_cons, List.nodup_cons]
      refine ⟨?_, nodup_without h.1 k⟩
      rw [← lookup_none_iff]; exact lookup_without_self l k
    · have := hp.length_eq; simp at this ⊢; have := h.2; omega
  · rw [h3] at hs; cases hs
    refine ⟨?_, ?_⟩
    · simp only [List.map_cons, List.nodup_cons]
      refine ⟨?_, nodup_dropLast h.1⟩
      rw [lookup_none_iff] at h1
      intro hm; apply h1
      rw [List.map_dropLast] at hm
      exact (List.dropLast_sublist _).subset hm
    · have := h.2; simp; omega
  · rw [h3] at hs; cases hs
    refine ⟨?_, ?_⟩
    · simp only [List.map_cons, List.nodup_cons]
      exact ⟨lookup_none_iff.1 h1, h.1⟩
    · simp; omega

theorem set_total (cap : Nat) (l : St) (k : Key) (v : Val) : ∃ l', set cap l k v = .ok l' := by
  rcases set_cases cap l k v with ⟨_, h2⟩ | ⟨_, _, h3⟩ | ⟨_, _, h3⟩ <;> exact ⟨_, ‹_›⟩

theorem wf_set (cap : Nat) (hc : 1 ≤ cap) (l : St) (k : Key) (v : Val) (h : Wf cap l) :
    ∃ l', set cap l k v = .ok l' ∧ Wf cap l' := by
  obtain ⟨l', hl⟩ := set_total cap l k v
  exact ⟨l', hl, wf_set' cap hc l l' k v h hl⟩

theorem del_ok {l l' : St} {k : Key} (hd : del l k = .ok l') : (l.lookup k).isSome ∧ l' = without l k := by
  unfold del at hd
  split at hd
  · simp at hd; exact ⟨‹_›, hd.symm⟩
  · simp at hd

theorem wf_del (cap : Nat) (l l' : St) (k : Key) (h : Wf cap l) (hd : del l k = .ok l') : Wf cap l' := by
  obtain ⟨_, rfl⟩ := del_ok hd
  exact ⟨nodup_without h.1 k, Nat.le_trans (length_without_le l k) h.2⟩

/-- a lookup returns what is stored, fails with `KeyError` exactly for absent keys, and changes no content -/
theorem get_spec (cap : Nat) (l : St) (k : Key) (h : Wf cap l) :
    (∀ v, l.lookup k = some v → ∃ l', get l k = .ok (l', v) ∧ l'.Perm l ∧ l'.head? = some (k, v)) ∧
    (l.lookup k = none → get l k = .error .keyError) := by
  constructor
  · intro v hv
    exact ⟨_, by simp [get, hv], perm_front h.1 (mem_of_lookup hv), rfl⟩
  · intro hn; simp [get, hn]

theorem lookup_dropLast {l : St} (hn : (l.map (·.1)).Nodup) {k : Key} {w : Val}
    (h : l.dropLast.lookup k = some w) : l.lookup k = some w :=
  lookup_of_mem hn ((List.dropLast_sublist _).subset (mem_of_lookup h))

theorem lookup_cons_ne {l : St} {k k' : Key} (v : Val) (h : k' ≠ k) : ((k, v) :: l).lookup k' = l.lookup k' := by
  have : (k' == k) = false := by simp [h]
  simp [List.lookup_cons, this]

/-- after `c[k] = v` a lookup of `k` gives `v`; every other key that is still present keeps its value -/
theorem lookup_after_set (cap : Nat) (hc : 1 ≤ cap) (l l' : St) (k : Key) (v : Val) (h : Wf cap l)
    (hs : set cap l k v = .ok l') :
    l'.lookup k = some v ∧ ∀ k', k' ≠ k → ∀ w, l'.lookup k' = some w → l.lookup k' = some w := by
  rcases set_cases cap l k v with ⟨h1, h2⟩ | ⟨h1, h2, h3⟩ | ⟨h1, h2, h3⟩
  · rw [h2] at hs; cases hs
    refine ⟨by simp, fun k' hk' w hw => ?_⟩
    rwa [lookup_cons_ne v hk', lookup_without_ne l hk'] at hw
  · rw [h3] at hs; cases hs
    refine ⟨by simp, fun k' hk' w hw => ?_⟩
    rw [lookup_cons_ne v hk'] at hw
    exact lookup_dropLast h.1 hw
  · rw [h3] at hs; cases hs
    refine ⟨by simp, fun k' hk' w hw => ?_⟩
    rwa [lookup_cons_ne v hk'] at hw

/-- storing a new key into a full cache removes exactly the last (least recently used) entry and nothing else -/
theorem evicts_exactly_lru (cap : Nat) (hc : 1 ≤ cap) (l : St) (k : Key) (v : Val) (h : Wf cap l)
    (hfull : l.length = cap) (hnew : l.lookup k = none) :
    ∃ init last, l = init ++ [last] ∧ set cap l k v = .ok ((k, v) :: init) := by
  have hne : l ≠ [] := by intro h0; subst h0; simp at hfull; omega
  refine ⟨l.dropLast, l.getLast hne, (List.dropLast_concat_getLast hne).symm, ?_⟩
  simp [set, hnew, hfull]

/-- with room left nothing is removed; storing to a present key removes nothing either -/
theorem no_eviction (cap : Nat) (l l' : St) (k : Key) (v : Val) (h : Wf cap l)
    (hroom : l.length < cap ∨ (l.lookup k).isSome) (hs : set cap l k v = .ok l') :
    ∀ k', (l.lookup k').isSome → (l'.lookup k').isSome := by
  intro k' hk'
  rcases set_cases cap l k v with ⟨h1, h2⟩ | ⟨h1, h2, h3⟩ | ⟨h1, h2, h3⟩
  · rw [h2] at hs; cases hs
    by_cases hkk : k' = k
    · subst hkk; simp
    · rwa [lookup_cons_ne v hkk, lookup_without_ne l hkk]
  · rcases hroom with hr | hr
    · omega
    · simp [h1] at hr
  · rw [h3] at hs; cases hs
    by_cases hkk : k' = k
    · subst hkk; simp
    · rwa [lookup_cons_ne v hkk]

/-- deletion removes exactly the key -/
theorem del_spec (cap : Nat) (l : St) (k : Key) (h : Wf cap l) :
    ((l.lookup k).isSome → ∃ l', del l k = .ok l' ∧ l'.lookup k = none ∧
        ∀ k', k' ≠ k → l'.lookup k' = l.lookup k') ∧
    (l.lookup k = none → del l k = .error .keyError) := by
  constructor
  · intro hs
    exact ⟨_, by simp [del, hs], lookup_without_self l k, fun k' hk' => lookup_without_ne l hk'⟩
  · intro hn; simp [del, hn]


/-! ### time stamps: the list order *is* recency, the victim *is* the least recently used entry -/
open LruTs

def tsProj (e : Key × Val × Nat) : Key × Val := (e.1, e.2.1)

theorem zipWith_proj (l : St) (stamps : List Nat) (h : stamps.length = l.length) :
    (List.zipWith (fun (p : Key × Val) (c : Nat) => (p.1, p.2, c)) l stamps).map tsProj = l ∧
    (List.zipWith (fun (p : Key × Val) (c : Nat) => (p.1, p.2, c)) l stamps).map (·.2.2) = stamps := by
  induction l generalizing stamps with
  | nil => cases stamps <;> simp_all
  | cons p r ih =>
    cases stamps with
    | nil => simp at h
    | cons c cs =>
      simp only [List.length_cons, Nat.add_right_cancel_iff] at h
      have := ih cs h
      simp only [List.zipWith_cons_cons, List.map_cons, this.1, this.2]
      simp [tsProj]

theorem zipWith_self (es : List (Key × Val × Nat)) :
    List.zipWith (fun (p : Key × Val) (c : Nat) => (p.1, p.2, c)) (es.map tsProj) (es.map (·.2.2)) = es := by
  induction es with
  | nil => rfl
  | cons e r ih => simp [tsProj, ih]

theorem presents_iff (l : St) (t : LruTs.St) :
    Presents l t ↔ t.entries.map tsProj = l ∧ (t.entries.map (·.2.2)).Pairwise (· > ·) ∧
      ∀ e ∈ t.entries, e.2.2 < t.clock := by
  constructor
  · rintro ⟨stamps, hlen, hpw, hlt, he⟩
    have := zipWith_proj l stamps hlen
    rw [← he] at this
    refine ⟨this.1, this.2 ▸ hpw, fun e hm => hlt _ ?_⟩
    rw [← this.2]; exact List.mem_map.2 ⟨e, hm, rfl⟩
  · rintro ⟨h1, h2, h3⟩
    refine ⟨t.entries.map (·.2.2), by simp [← h1], h2, ?_, ?_⟩
    · intro x hx; obtain ⟨e, hm, rfl⟩ := List.mem_map.1 hx; exact h3 e hm
    · rw [← h1]; exact (zipWith_self _).symm

theorem proj_filter (es : List (Key × Val × Nat)) (k : Key) :
    (es.filter (fun e => e.1 ≠ k)).map tsProj = without (es.map tsProj) k := by
  simp [without, List.filter_map]; rfl

theorem presents_front {l : St} {t : LruTs.St} (hp : Presents l t) (k : Key) (v : Val) (es : List (Key × Val × Nat))
    (l' : St) (hsub : es.Sublist t.entries) (hl' : es.map tsProj = l') :
    Presents ((k, v) :: l') { entries := (k, v, t.clock) :: es, clock := t.clock + 1 } := by
  rw [presents_iff] at hp ⊢
  obtain ⟨h1, h2, h3⟩ := hp
  refine ⟨by simp [tsProj, hl'], ?_, ?_⟩
  · simp only [List.map_cons, List.pairwise_cons]
    refine ⟨?_, h2.sublist (hsub.map _)⟩
    intro x hx; obtain ⟨e, hm, rfl⟩ := List.mem_map.1 hx
    exact h3 e (hsub.subset hm)
  · intro e hm
    rcases List.mem_cons.1 hm with rfl | hm
    · simp
    · have := h3 e (hsub.subset hm); simp; omega

theorem presents_get (l l' : St) (t : LruTs.St) (k : Key) (v : Val) (hp : Presents l t)
    (hg : get l k = .ok (l', v)) :
    Presents l' { entries := (k, v, t.clock) :: LruTs.without t k, clock := t.clock + 1 } := by
  obtain ⟨_, rfl⟩ := get_ok hg
  refine presents_front hp k v _ _ (List.filter_sublist) ?_
  rw [LruTs.without, proj_filter, ((presents_iff l t).1 hp).1]

theorem presents_set_present (cap : Nat) (l l' : St) (t : LruTs.St) (k : Key) (v : Val) (hp : Presents l t)
    (hin : (l.lookup k).isSome) (hs : set cap l k v = .ok l') :
    Presents l' { entries := (k, v, t.clock) :: LruTs.without t k, clock := t.clock + 1 } := by
  have : l' = (k, v) :: without l k := by simp [set, hin] at hs; exact hs.symm
  subst this
  refine presents_front hp k v _ _ (List.filter_sublist) ?_
  rw [LruTs.without, proj_filter, ((presents_iff l t).1 hp).1]

theorem presents_set_room (cap : Nat) (l l' : St) (t : LruTs.St) (k : Key) (v : Val) (hp : Presents l t)
    (hnew : l.lookup k = none) (hroom : l.length < cap) (hs : set cap l k v = .ok l') :
    Presents l' { entries := (k, v, t.clock) :: t.entries, clock := t.clock + 1 } := by
  have : l' = (k, v) :: l := by
    simp [set, hnew, Nat.not_le.2 hroom] at hs; exact hs.symm
  subst this
  exact presents_front hp k v _ _ (List.Sublist.refl _) ((presents_iff l t).1 hp).1

theorem presents_del (l l' : St) (t : LruTs.St) (k : Key) (hp : Presents l t) (hd : del l k = .ok l') :
    Presents l' { entries := LruTs.without t k, clock := t.clock } := by
  obtain ⟨_, rfl⟩ := del_ok hd
  rw [presents_iff] at hp ⊢
  obtain ⟨h1, h2, h3⟩ := hp
  refine ⟨?_, ?_, ?_⟩
  · simp only [LruTs.without]; rw [proj_filter, h1]
  · exact h2.sublist ((List.filter_sublist).map _)
  · intro e hm; exact h3 e (List.mem_filter.1 hm).1

/-- in a list whose stamps strictly decrease, removing (by value) the last entry is `dropLast` -/
theorem filter_ne_last (es : List (Key × Val × Nat)) (e : Key × Val × Nat)
    (hpw : ((es ++ [e]).map (·.2.2)).Pairwise (· > ·)) :
    (es ++ [e]).filter (· ≠ e) = es := by
  simp only [List.map_append, List.pairwise_append, List.map_cons, List.map_nil] at hpw
  obtain ⟨_, _, h3⟩ := hpw
  rw [List.filter_append]
  have h1 : es.filter (· ≠ e) = es := by
    rw [List.filter_eq_self]
    intro a ha
    have := h3 _ (List.mem_map.2 ⟨a, ha, rfl⟩) e.2.2 (by simp)
    simp; intro hae; subst hae; omega
  rw [h1]; simp

theorem presents_set_evict (cap : Nat) (hc : 1 ≤ cap) (l l' : St) (t : LruTs.St) (k : Key) (v : Val)
    (hw : Wf cap l) (hp : Presents l t) (hnew : l.lookup k = none) (hfull : l.length = cap)
    (hs : set cap l k v = .ok l') :
    ∃ e, IsOldest t e ∧
      Presents l' { entries := (k, v, t.clock) :: t.entries.filter (· ≠ e), clock := t.clock + 1 } := by
  have hl' : l' = (k, v) :: l.dropLast := by
    simp [set, hnew, hfull] at hs; exact hs.symm
  subst hl'
  have hpi := (presents_iff l t).1 hp
  have hne : t.entries ≠ [] := by
    intro h0; have := hpi.1; rw [h0] at this; simp at this; subst this; simp at hfull; omega
  have hsplit := (List.dropLast_concat_getLast hne).symm
  generalize t.entries.getLast hne = e at hsplit
  generalize hes : t.entries.dropLast = es at hsplit
  have hpw := hpi.2.1
  rw [hsplit] at hpw
  refine ⟨e, ⟨by rw [hsplit]; simp, ?_⟩, ?_⟩
  · intro e' he'
    rw [hsplit] at he'
    simp only [List.map_append, List.pairwise_append, List.map_cons, List.map_nil] at hpw
    rcases List.mem_append.1 he' with hm | hm
    · have := hpw.2.2 _ (List.mem_map.2 ⟨e', hm, rfl⟩) e.2.2 (by simp); omega
    · simp at hm; subst hm; exact Nat.le_refl _
  · have hf : t.entries.filter (· ≠ e) = es := by rw [hsplit]; exact filter_ne_last es e hpw
    rw [hf]
    refine presents_front hp k v es _ ?_ ?_
    · rw [← hes]; exact List.dropLast_sublist _
    · rw [← hes, List.map_dropLast, hpi.1]


/-! ### the mixins on the abstract cache: total, and agreeing with the content -/

theorem nodup_of_perm {l l' : St} (hp : l'.Perm l) (hn : (l.map (·.1)).Nodup) : (l'.map (·.1)).Nodup :=
  ((hp.map _).nodup_iff).2 hn

theorem lookup_perm {l l' : St} (hp : l'.Perm l) (hn : (l.map (·.1)).Nodup) (k : Key) :
    l'.lookup k = l.lookup k := by
  have hn' := nodup_of_perm hp hn
  cases h : l.lookup k with
  | some v => exact lookup_of_mem hn' (hp.mem_iff.2 (mem_of_lookup h))
  | none =>
    rw [lookup_none_iff] at h ⊢
    intro hm; exact h ((hp.map _).mem_iff.1 hm)

theorem itemsFrom_spec (cap : Nat) (ps : List (Key × Val)) (l : St) (hn : (l.map (·.1)).Nodup)
    (hsub : ∀ p ∈ ps, p ∈ l) :
    ∃ l', itemsFrom (prim cap) l (ps.map (·.1)) = .ok (l', ps) ∧ l'.Perm l := by
  induction ps generalizing l with
  | nil => exact ⟨l, rfl, List.Perm.refl _⟩
  | cons p r ih =>
    obtain ⟨k, v⟩ := p
    have hm : (k, v) ∈ l := hsub _ (by simp)
    have hp := perm_front hn hm
    obtain ⟨l', h1, h2⟩ := ih ((k, v) :: without l k) (nodup_of_perm hp hn)
      (fun p hp' => hp.mem_iff.2 (hsub p (List.mem_cons_of_mem _ hp')))
    refine ⟨l', ?_, h2.trans hp⟩
    simp only [List.map_cons, itemsFrom]
    have : (prim cap).get l k = .ok ((k, v) :: without l k, v) := get_eq_of_mem hn hm
    rw [this]; simp only; rw [h1]

theorem items_spec (cap : Nat) (l : St) (h : Wf cap l) :
    ∃ l', items (prim cap) l = .ok (l', l) ∧ l'.Perm l :=
  itemsFrom_spec cap l l h.1 (fun _ hp => hp)

theorem contains_spec (cap : Nat) (l : St) (k : Key) (h : Wf cap l) :
    ∃ l', contains (prim cap) l k = .ok (l', (l.lookup k).isSome) ∧ l'.Perm l := by
  have hg : (prim cap).get l k = get l k := rfl
  cases hl : l.lookup k with
  | some v =>
    obtain ⟨l', h1, h2, _⟩ := (get_spec cap l k h).1 v hl
    exact ⟨l', by simp [contains, hg, h1], h2⟩
  | none =>
    have := (get_spec cap l k h).2 hl
    exact ⟨l, by simp [contains, hg, this], List.Perm.refl _⟩

theorem getD_spec (cap : Nat) (l : St) (k : Key) (h : Wf cap l) :
    ∃ l', getD (prim cap) l k = .ok (l', l.lookup k) ∧ l'.Perm l := by
  have hg : (prim cap).get l k = get l k := rfl
  cases hl : l.lookup k with
  | some v =>
    obtain ⟨l', h1, h2, _⟩ := (get_spec cap l k h).1 v hl
    exact ⟨l', by simp [getD, hg, h1], h2⟩
  | none =>
    have := (get_spec cap l k h).2 hl
    exact ⟨l, by simp [getD, hg, this], List.Perm.refl _⟩

theorem without_idem (l : St) (k : Key) (v : Val) : without ((k, v) :: without l k) k = without l k := by
  simp [without, List.filter_filter]

theorem pop_spec (cap : Nat) (l : St) (k : Key) (h : Wf cap l) :
    (∀ v, l.lookup k = some v → pop (prim cap) l k = .ok (without l k, v)) ∧
    (l.lookup k = none → pop (prim cap) l k = .error .keyError) := by
  have hg : (prim cap).get l k = get l k := rfl
  constructor
  · intro v hv
    have h1 : get l k = .ok ((k, v) :: without l k, v) := by simp [get, hv]
    have h2 : (prim cap).del ((k, v) :: without l k) k = .ok (without l k) := by
      show del _ _ = _
      simp [del, without_idem]
    simp only [pop, hg, h1, h2]
  · intro hn
    simp [pop, hg, get, hn]

theorem without_head {k : Key} {v : Val} {r : St} (hn : (((k, v) :: r).map (·.1)).Nodup) :
    without ((k, v) :: r) k = r := by
  simp only [List.map_cons, List.nodup_cons] at hn
  simp only [without, List.filter_cons]; simp
  intro x y hm hx; subst hx; exact hn.1 (List.mem_map.2 ⟨_, hm, rfl⟩)

theorem popitem_spec (cap : Nat) (l : St) (h : Wf cap l) :
    match l with
    | [] => popitem (prim cap) l = .error .keyError
    | (k, v) :: r => popitem (prim cap) l = .ok (r, k, v) := by
  cases l with
  | nil => simp [popitem, prim]
  | cons p r =>
    obtain ⟨k, v⟩ := p
    have := (pop_spec cap ((k, v) :: r) k h).1 v (by simp)
    rw [without_head h.1] at this
    have hk : (prim cap).keys ((k, v) :: r) = k :: r.map (·.1) := rfl
    simp only [popitem, hk, this]

theorem clearLoop_spec (cap : Nat) (fuel : Nat) (l : St) (h : Wf cap l) (hf : l.length < fuel) :
    clearLoop (prim cap) l fuel = .ok [] := by
  induction fuel generalizing l with
  | zero => omega
  | succ n ih =>
    cases l with
    | nil => simp [clearLoop, prim]
    | cons p r =>
      obtain ⟨k, v⟩ := p
      have hpi := popitem_spec cap ((k, v) :: r) h
      simp only at hpi
      have hwr : Wf cap r := by
        have h1 := h.1; have h2 := h.2
        simp only [List.map_cons, List.nodup_cons, List.length_cons] at h1 h2
        exact ⟨h1.2, by omega⟩
      have := ih r hwr (by simp at hf; omega)
      have hk : (prim cap).keys ((k, v) :: r) = k :: r.map (·.1) := rfl
      simp only [clearLoop, hk, hpi, this]

theorem clear_spec (cap : Nat) (l : St) (h : Wf cap l) : clear (prim cap) l = .ok [] :=
  clearLoop_spec cap _ l h (by show l.length < l.length + 1; omega)

theorem update_total (cap : Nat) (hc : 1 ≤ cap) (l : St) (ps : List (Key × Val)) (h : Wf cap l) :
    ∃ l', update (prim cap) l ps = .ok l' ∧ Wf cap l' := by
  induction ps generalizing l with
  | nil => exact ⟨l, rfl, h⟩
  | cons p r ih =>
    obtain ⟨k, v⟩ := p
    obtain ⟨l1, h1, h2⟩ := wf_set cap hc l k v h
    obtain ⟨l2, h3, h4⟩ := ih l1 h2
    refine ⟨l2, ?_, h4⟩
    have : (prim cap).set l k v = .ok l1 := h1
    simp only [update, this, h3]

theorem setdefault_spec (cap : Nat) (hc : 1 ≤ cap) (l : St) (k : Key) (v : Val) (h : Wf cap l) :
    (∀ w, l.lookup k = some w → ∃ l', setdefault (prim cap) l k v = .ok (l', w) ∧ l'.Perm l) ∧
    (l.lookup k = none → ∃ l', setdefault (prim cap) l k v = .ok (l', v) ∧ set cap l k v = .ok l') := by
  have hg : (prim cap).get l k = get l k := rfl
  have hs : (prim cap).set l k v = set cap l k v := rfl
  constructor
  · intro w hw
    obtain ⟨l', h1, h2, _⟩ := (get_spec cap l k h).1 w hw
    exact ⟨l', by simp [setdefault, hg, h1], h2⟩
  · intro hn
    have h1 := (get_spec cap l k h).2 hn
    obtain ⟨l', h2⟩ := set_total cap l k v
    exact ⟨l', by simp [setdefault, hg, h1, hs, h2], h2⟩


theorem subset_of_nodup_length {α} {a b : List α} (ha : a.Nodup) (hs : a ⊆ b) (hl : b.length ≤ a.length) : b ⊆ a := by
  intro x hx
  apply Classical.byContradiction
  intro hxa
  have hn : (x :: a).Nodup := List.nodup_cons.2 ⟨hxa, ha⟩
  have hsub : (x :: a) ⊆ b := by
    intro y hy
    rcases List.mem_cons.1 hy with rfl | hy
    · exact hx
    · exact hs hy
  have := hn.length_le_of_subset hsub
  simp at this; omega

theorem eq_spec (cap : Nat) (l : St) (other : List (Key × Val)) (h : Wf cap l)
    (ho : (other.map (·.1)).Nodup) :
    ∃ l' b, eqDict (prim cap) l other = .ok (l', b) ∧ l'.Perm l ∧
      (b = true ↔ ∀ k, l.lookup k = other.lookup k) := by
  obtain ⟨l', h1, h2⟩ := items_spec cap l h
  refine ⟨l', _, by simp only [eqDict, h1]; rfl, h2, ?_⟩
  simp only [Bool.and_eq_true, beq_iff_eq, List.all_eq_true]
  constructor
  · rintro ⟨hlen, hall⟩ k
    cases hl : l.lookup k with
    | some v => exact (hall _ (mem_of_lookup hl)).symm
    | none =>
      cases hok : other.lookup k with
      | none => rfl
      | some w =>
        exfalso
        have hsub : l.map (·.1) ⊆ other.map (·.1) := by
          intro x hx
          obtain ⟨p, hp, rfl⟩ := List.mem_map.1 hx
          exact List.mem_map.2 ⟨_, mem_of_lookup (hall p hp), rfl⟩
        have := subset_of_nodup_length h.1 hsub (by simp [hlen])
        exact lookup_none_iff.1 hl (this (List.mem_map.2 ⟨_, mem_of_lookup hok, rfl⟩))
  · intro hk
    have hkeys : ∀ k, k ∈ l.map (·.1) ↔ k ∈ other.map (·.1) := by
      intro k; rw [← lookup_isSome_iff, ← lookup_isSome_iff, hk]
    constructor
    · have a1 := h.1.length_le_of_subset (fun k hk' => (hkeys k).1 hk')
      have a2 := ho.length_le_of_subset (fun k hk' => (hkeys k).2 hk')
      simp at a1 a2; omega
    · intro p hp
      rw [← hk]; exact lookup_of_mem h.1 hp

end WindVerif.Cache.LruSpec
