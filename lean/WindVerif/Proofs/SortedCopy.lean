import WindVerif.Proofs.Sorted
/-!
Copy-construction (`SortedSet(another SortedSet)`, `SortedMap(another SortedMap)`): the new object presents exactly the
content of the source, and it is a value of its own — in the model objects are values, so "changing one does not change the
other" is what the correspondence run checks on the real objects (a live source object is mutated behind the copy's back).
-/
namespace WindVerif.Sorted

theorem dedupAdj_of_strict (l : List Int) (h : Strict l) : dedupAdj l = l := by
  induction l with
  | nil => rfl
  | cons x r ih =>
    cases r with
    | nil => rfl
    | cons y r' =>
      have hx : x < y := (List.pairwise_cons.mp h).1 y (by simp)
      have hr : Strict (y :: r') := (List.pairwise_cons.mp h).2
      have hne : x ≠ y := by omega
      simp only [dedupAdj, hne, if_false]
      rw [ih hr]

/-- `SortedSet(s)` for the content `s` of a sorted set is `s` again -/
theorem setInit_of_strict (s : List Int) (h : Strict s) : setInit s = s := by
  unfold setInit
  have hle : s.Pairwise (fun a b => (decide (a ≤ b)) = true) := by
    exact List.Pairwise.imp (fun {a b : Int} (hab : a < b) => by simp only [decide_eq_true_eq]; omega) h
  rw [List.mergeSort_of_pairwise hle]
  exact dedupAdj_of_strict s h

theorem dictOf_append_fresh (acc ps : List (Int × Nat))
    (hnd : ((acc ++ ps).map (·.1)).Nodup) : dictOf acc ps = acc ++ ps := by
  induction ps generalizing acc with
  | nil => simp [dictOf]
  | cons p r ih =>
    obtain ⟨k, v⟩ := p
    have hk : (acc.lookup k).isSome = false := by
      cases hs : (acc.lookup k).isSome with
      | false => rfl
      | true =>
        exfalso
        rw [List.lookup_isSome_iff] at hs
        obtain ⟨q, hq, hqk⟩ := hs
        have hmem : k ∈ acc.map (·.1) := by
          refine List.mem_map.mpr ⟨q, hq, ?_⟩
          have : k = q.1 := by simpa using hqk
          exact this.symm
        rw [List.map_append, List.nodup_append] at hnd
        exact hnd.2.2 k hmem k (by simp) rfl
    simp only [dictOf, hk, Bool.false_eq_true, if_false]
    have : ((acc ++ [(k, v)] ++ r).map (·.1)).Nodup := by simpa [List.append_assoc] using hnd
    rw [ih (acc ++ [(k, v)]) this, List.append_assoc]
    rfl

/-- `SortedMap(m)` for a well-formed map `m` (through `dict(m)`: its items) is `m` again -/
theorem mapInit_items (m : SMap) (h : MapWf m) : mapInit (mapItems m) = m := by
  obtain ⟨hs, hl⟩ := h
  have hfst : (m.keys.zip m.vals).map (·.1) = m.keys := by
    rw [List.map_fst_zip]; omega
  have hsnd : (m.keys.zip m.vals).map (·.2) = m.vals := by
    rw [List.map_snd_zip]; omega
  have hnd : (([] ++ mapItems m).map (fun (p : Int × Nat) => p.1)).Nodup := by
    simp only [List.nil_append, mapItems, hfst]
    have : m.keys.Pairwise (· ≠ ·) := List.Pairwise.imp (fun {a b : Int} (hab : a < b) => by omega) hs
    exact this
  have hsorted : (m.keys.zip m.vals).Pairwise (fun (a b : Int × Nat) => decide (a.1 ≤ b.1) = true) := by
    have : ((m.keys.zip m.vals).map (fun (p : Int × Nat) => p.1)).Pairwise (fun a b => decide (a ≤ b) = true) := by
      rw [hfst]
      exact List.Pairwise.imp (fun {a b : Int} (hab : a < b) => by simp only [decide_eq_true_eq]; omega) hs
    exact List.pairwise_map.mp this
  have hd : dictOf [] (m.keys.zip m.vals) = m.keys.zip m.vals := by
    have := dictOf_append_fresh [] (mapItems m) hnd
    simpa [mapItems] using this
  unfold mapInit
  simp only [mapItems, hd]
  rw [List.mergeSort_of_pairwise hsorted, hfst, hsnd]

end WindVerif.Sorted
