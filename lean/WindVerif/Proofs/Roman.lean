import WindVerif.Model.Generic
/-! Roman numerals (C19): theorems over the whole finite domain 1..3999, checked by kernel evaluation
(`decide +kernel`, no `native_decide`) through a balanced range checker.  Imported by `Proofs/Generic.lean`;
kept separate because the two kernel evaluations take about a minute together. -/
namespace WindVerif.Generic

/-! ### roman numerals: whole finite domain 1..3999 -/

def romanDigit (one five ten : Char) : Nat → List Char
  | 0 => [] | 1 => [one] | 2 => [one, one] | 3 => [one, one, one] | 4 => [one, five] | 5 => [five]
  | 6 => [five, one] | 7 => [five, one, one] | 8 => [five, one, one, one] | _ => [one, ten]

/-- the canonical numeral, written independently of the greedy table: thousands, hundreds, tens, ones -/
def canonical (n : Nat) : List Char :=
  repeatChars ['M'] (n / 1000) ++ romanDigit 'C' 'D' 'M' (n / 100 % 10) ++ romanDigit 'X' 'L' 'C' (n / 10 % 10) ++
    romanDigit 'I' 'V' 'X' (n % 10)

/-- `checkDepth p d lo` evaluates `p` on the `2^d` numbers `lo, …, lo + 2^d - 1` as a balanced conjunction -/
def checkDepth (p : Nat → Bool) : Nat → Nat → Bool
  | 0, lo => p lo
  | d + 1, lo => checkDepth p d lo && checkDepth p d (lo + 2 ^ d)

theorem checkDepth_sound (p : Nat → Bool) :
    ∀ d lo, checkDepth p d lo = true → ∀ n, lo ≤ n → n < lo + 2 ^ d → p n = true
  | 0, lo, h, n, h1, h2 => by
    have : n = lo := by simp at h2; omega
    subst this; exact h
  | d + 1, lo, h, n, h1, h2 => by
    simp only [checkDepth, Bool.and_eq_true] at h
    rw [Nat.pow_succ] at h2
    by_cases hn : n < lo + 2 ^ d
    · exact checkDepth_sound p d lo h.1 n h1 hn
    · exact checkDepth_sound p d (lo + 2 ^ d) h.2 n (by omega) (by omega)

/-- `p` holds on `1..3999` if the checker accepts `0..4095` for `p` made trivially true outside the domain -/
theorem forall_domain_of_check (p : Nat → Bool)
    (h : checkDepth (fun n => n == 0 || decide (n > 3999) || p n) 12 0 = true)
    (n : Nat) (h1 : 1 ≤ n) (h2 : n ≤ 3999) : p n = true := by
  have := checkDepth_sound _ 12 0 h n (by omega) (by simp; omega)
  simp only [Bool.or_eq_true, beq_iff_eq, decide_eq_true_eq] at this
  rcases this with (h | h) | h
  · omega
  · omega
  · exact h

def okEq (r : Except Err Int) (n : Nat) : Bool :=
  match r with
  | .ok v => v == (n : Int)
  | .error _ => false

theorem eq_ok_of_okEq (r : Except Err Int) (n : Nat) : okEq r n = true → r = .ok (n : Int) := by
  unfold okEq; split <;> simp

theorem roman_canonical_check :
    checkDepth (fun n => n == 0 || decide (n > 3999) || int2roman n == canonical n) 12 0 = true := by
  decide +kernel

theorem roman_roundtrip_check :
    checkDepth (fun n => n == 0 || decide (n > 3999) || okEq (roman2int (int2roman n)) n) 12 0 = true := by
  decide +kernel

theorem roman_canonical (n : Nat) (h1 : 1 ≤ n) (h2 : n ≤ 3999) : int2roman n = canonical n := by
  have := forall_domain_of_check _ roman_canonical_check n h1 h2
  simpa using this

theorem roman_roundtrip (n : Nat) (h1 : 1 ≤ n) (h2 : n ≤ 3999) : roman2int (int2roman n) = .ok (n : Int) :=
  eq_ok_of_okEq _ _ (forall_domain_of_check _ roman_roundtrip_check n h1 h2)

/-- and the other way round: on the numerals of 1..3999 `int_2_roman ∘ roman_2_int` is the identity -/
theorem roman_inverse (n : Nat) (h1 : 1 ≤ n) (h2 : n ≤ 3999) :
    ∃ v : Int, roman2int (canonical n) = .ok v ∧ int2roman v.toNat = canonical n := by
  refine ⟨(n : Int), ?_, ?_⟩
  · rw [← roman_canonical n h1 h2]; exact roman_roundtrip n h1 h2
  · rw [Int.toNat_natCast]; exact roman_canonical n h1 h2

end WindVerif.Generic
