import WindVerif.Model.Generic
/-! Theorems about `sorted_combinations` and the min-combination search (C17). -/
namespace WindVerif.Generic

/-- all index-ordered sub-tuples of a list (the empty one included) -/
def subsets : List Nat → List (List Nat)
  | [] => [[]]
  | x :: r => subsets r ++ (subsets r).map (x :: ·)

/-- every non-empty combination of the element indices `0..n-1`, each as an index-ordered tuple -/
def allCombos (n : Nat) : List (List Nat) := (subsets (List.range n)).filter (fun c => c ≠ [])

/-! ### popMin -/

theorem popMin_none {val : Nat → Nat} {q : List Entry} (h : popMin val q = none) : q = [] := by
  cases q with
  | nil => rfl
  | cons e r =>
    simp only [popMin] at h
    split at h
    · simp at h
    · split at h <;> simp at h

theorem popMin_perm {val : Nat → Nat} {q : List Entry} {m : Entry} {q' : List Entry} (h : popMin val q = some (m, q')) :
    q.Perm (m :: q') := by
  induction q generalizing m q' with
  | nil => simp [popMin] at h
  | cons e r ih =>
    simp only [popMin] at h
    split at h
    · rename_i hn
      have := popMin_none hn
      subst this
      simp at h
      obtain ⟨rfl, rfl⟩ := h
      exact List.Perm.refl _
    · rename_i m' r' hs
      have ih' := ih hs
      split at h
      · simp at h
        obtain ⟨rfl, rfl⟩ := h
        exact List.Perm.refl _
      · simp at h
        obtain ⟨rfl, rfl⟩ := h
        exact (List.Perm.cons e ih').trans (List.Perm.swap _ _ _)

theorem lt_of_key_lt {val : Nat → Nat} {a b : Entry} (h : a.key < b.key) : a.lt val b = true := by
  simp [Entry.lt, h]

theorem key_le_of_lt {val : Nat → Nat} {a b : Entry} (h : a.lt val b = true) : a.key ≤ b.key := by
  simp only [Entry.lt, Bool.or_eq_true, Bool.and_eq_true, decide_eq_true_eq, beq_iff_eq] at h
  omega

theorem popMin_min {val : Nat → Nat} {q : List Entry} {m : Entry} {q' : List Entry} (h : popMin val q = some (m, q')) :
    ∀ e ∈ q, m.key ≤ e.key := by
  induction q generalizing m q' with
  | nil => simp [popMin] at h
  | cons e r ih =>
    simp only [popMin] at h
    split at h
    · rename_i hn
      have := popMin_none hn
      subst this
      simp at h
      obtain ⟨rfl, rfl⟩ := h
      simp
    · rename_i m' r' hs
      have ih' := ih hs
      split at h
      · rename_i hlt
        simp at h
        obtain ⟨rfl, rfl⟩ := h
        have := key_le_of_lt hlt
        intro x hx
        rcases List.mem_cons.1 hx with rfl | hx
        · exact Nat.le_refl _
        · exact Nat.le_trans this (ih' x hx)
      · rename_i hlt
        simp at h
        obtain ⟨rfl, rfl⟩ := h
        intro x hx
        rcases List.mem_cons.1 hx with rfl | hx
        · apply Nat.le_of_not_lt
          intro hk
          exact hlt (lt_of_key_lt hk)
        · exact ih' x hx

/-! ### subsets -/

theorem subsets_length (l : List Nat) : (subsets l).length = 2 ^ l.length := by
  induction l with
  | nil => rfl
  | cons x r ih => simp [subsets, ih, Nat.pow_succ]; omega

theorem mem_of_mem_subsets {l c : List Nat} (h : c ∈ subsets l) : ∀ a ∈ c, a ∈ l := by
  induction l generalizing c with
  | nil => simp [subsets] at h; subst h; simp
  | cons x r ih =>
    simp only [subsets, List.mem_append, List.mem_map] at h
    rcases h with h | ⟨c', h, rfl⟩
    · intro a ha; exact List.mem_cons_of_mem _ (ih h a ha)
    · intro a ha
      rcases List.mem_cons.1 ha with rfl | ha
      · exact List.mem_cons_self
      · exact List.mem_cons_of_mem _ (ih h a ha)

theorem subsets_nodup {l : List Nat} (h : l.Nodup) : (subsets l).Nodup := by
  induction l with
  | nil => simp [subsets]
  | cons x r ih =>
    have hx : x ∉ r := (List.nodup_cons.1 h).1
    have hr := ih (List.nodup_cons.1 h).2
    simp only [subsets]
    rw [List.nodup_append]
    refine ⟨hr, ?_, ?_⟩
    · exact List.Pairwise.map (x :: ·) (fun a b hab h => hab (by simpa using h)) hr
    · intro a ha b hb hab
      subst hab
      simp only [List.mem_map] at hb
      obtain ⟨c', _, rfl⟩ := hb
      exact hx (mem_of_mem_subsets ha x List.mem_cons_self)

theorem allCombos_nodup (n : Nat) : (allCombos n).Nodup :=
  (subsets_nodup List.nodup_range).filter _

/-! ### the subtree of an entry -/

/-- all combinations that the loop will eventually produce from entry `e`: `e.comb` extended by larger indices -/
def tree (n : Nat) (e : Entry) : List (List Nat) :=
  (subsets (List.range' (e.idx + 1) (n - (e.idx + 1)))).map (e.comb ++ ·)

def children (scores : List Nat) (n : Nat) (e : Entry) : List Entry :=
  (List.range' (e.idx + 1) (n - (e.idx + 1))).map
    (fun i => { key := scoreSum scores (e.comb ++ [i]), comb := e.comb ++ [i], idx := i : Entry })

def pending (n : Nat) (q : List Entry) : List (List Nat) := q.flatMap (tree n)

theorem tree_length_pos (n : Nat) (e : Entry) : 0 < (tree n e).length := by
  simp [tree, subsets_length, Nat.pow_pos]

theorem subsets_range'_perm (c : List Nat) (k s : Nat) :
    ((subsets (List.range' s k)).map (c ++ ·)).Perm
      (c :: (List.range' s k).flatMap
        (fun i => (subsets (List.range' (i + 1) (s + k - (i + 1)))).map ((c ++ [i]) ++ ·))) := by
  induction k generalizing s with
  | zero => simp [subsets]
  | succ k ih =>
    have hr : List.range' s (k + 1) = s :: List.range' (s + 1) k := by
      simp [List.range'_succ]
    rw [hr]
    simp only [subsets, List.map_append, List.map_map, List.flatMap_cons]
    have h1 := ih (s + 1)
    have e1 : s + (k + 1) - (s + 1) = k := by omega
    rw [e1]
    have e2 : (List.range' (s + 1) k).flatMap
          (fun i => (subsets (List.range' (i + 1) (s + (k + 1) - (i + 1)))).map ((c ++ [i]) ++ ·)) =
        (List.range' (s + 1) k).flatMap
          (fun i => (subsets (List.range' (i + 1) (s + 1 + k - (i + 1)))).map ((c ++ [i]) ++ ·)) := by
      congr 1
      funext i
      have : s + (k + 1) - (i + 1) = s + 1 + k - (i + 1) := by omega
      rw [this]
    rw [e2]
    have e3 : List.map ((fun x => c ++ x) ∘ fun x => s :: x) (subsets (List.range' (s + 1) k)) =
        List.map (fun x => c ++ [s] ++ x) (subsets (List.range' (s + 1) k)) := by
      apply List.map_congr_left
      intro a _
      simp
    rw [e3]
    refine (List.Perm.append_right _ h1).trans ?_
    simp only [List.cons_append]
    exact List.Perm.cons _ List.perm_append_comm

theorem flatMap_congr' {α β : Type} {l : List α} {f g : α → List β} (h : ∀ a ∈ l, f a = g a) :
    l.flatMap f = l.flatMap g := by
  induction l with
  | nil => rfl
  | cons a r ih =>
    simp only [List.flatMap_cons]
    rw [h a List.mem_cons_self, ih (fun b hb => h b (List.mem_cons_of_mem _ hb))]

theorem tree_perm (scores : List Nat) (n : Nat) (e : Entry) :
    (tree n e).Perm (e.comb :: pending n (children scores n e)) := by
  have h := subsets_range'_perm e.comb (n - (e.idx + 1)) (e.idx + 1)
  refine h.trans ?_
  apply List.Perm.of_eq
  congr 1
  simp only [pending, children, List.flatMap_map]
  apply flatMap_congr'
  intro i hi
  simp only [tree]
  have : e.idx + 1 + (n - (e.idx + 1)) - (i + 1) = n - (i + 1) := by
    have := List.mem_range'_1.1 hi
    omega
  rw [this]

theorem pending_append (n : Nat) (a b : List Entry) : pending n (a ++ b) = pending n a ++ pending n b := by
  simp [pending]

theorem pending_perm {n : Nat} {a b : List Entry} (h : a.Perm b) : (pending n a).Perm (pending n b) :=
  h.flatMap_right _

/-- one pop: the pending set loses exactly the emitted combination -/
theorem pending_pop {val : Nat → Nat} (scores : List Nat) (n : Nat) {q q' : List Entry} {e : Entry}
    (h : popMin val q = some (e, q')) :
    (pending n q).Perm (e.comb :: pending n (q' ++ children scores n e)) := by
  have h1 := pending_perm (n := n) (popMin_perm h)
  refine h1.trans ?_
  simp only [pending, List.flatMap_cons, List.flatMap_append]
  refine (List.Perm.append_right _ (tree_perm scores n e)).trans ?_
  simp only [List.cons_append, pending]
  exact List.Perm.cons _ List.perm_append_comm

theorem combosLoop_succ (val : Nat → Nat) (scores : List Nat) (n fuel : Nat) (q : List Entry) :
    combosLoop val scores n (fuel + 1) q =
      match popMin val q with
      | none => []
      | some (e, q') => (e.comb, e.key) :: combosLoop val scores n fuel (q' ++ children scores n e) := rfl

theorem combosLoop_complete (val : Nat → Nat) (scores : List Nat) (n : Nat) :
    ∀ (fuel : Nat) (q : List Entry), (pending n q).length ≤ fuel →
      ((combosLoop val scores n fuel q).map (·.1)).Perm (pending n q) := by
  intro fuel
  induction fuel with
  | zero =>
    intro q hq
    have : pending n q = [] := List.eq_nil_of_length_eq_zero (by omega)
    simp [combosLoop, this]
  | succ fuel ih =>
    intro q hq
    rw [combosLoop_succ]
    split
    · rename_i hn
      have := popMin_none hn
      subst this
      simp [pending]
    · rename_i e q' hs
      have hp := pending_pop scores n hs
      have hl := hp.length_eq
      simp only [List.length_cons] at hl
      have := ih (q' ++ children scores n e) (by omega)
      simp only [List.map_cons]
      exact (List.Perm.cons _ this).trans hp.symm

theorem scoreSum_append (scores : List Nat) (c : List Nat) (i : Nat) :
    scoreSum scores (c ++ [i]) = scoreSum scores c + scores.getD i 0 := by
  simp [scoreSum]

theorem combosLoop_keys (val : Nat → Nat) (scores : List Nat) (n : Nat) :
    ∀ (fuel : Nat) (q : List Entry), (∀ e ∈ q, e.key = scoreSum scores e.comb) →
      ∀ p ∈ combosLoop val scores n fuel q, p.2 = scoreSum scores p.1 := by
  intro fuel
  induction fuel with
  | zero => intro q _ p hp; simp [combosLoop] at hp
  | succ fuel ih =>
    intro q hq p hp
    rw [combosLoop_succ] at hp
    split at hp
    · simp at hp
    · rename_i e q' hs
      have hperm := popMin_perm hs
      rcases List.mem_cons.1 hp with rfl | hp
      · exact hq e (hperm.mem_iff.2 List.mem_cons_self)
      · refine ih _ ?_ p hp
        intro x hx
        rcases List.mem_append.1 hx with hx | hx
        · exact hq x (hperm.mem_iff.2 (List.mem_cons_of_mem _ hx))
        · simp only [children, List.mem_map] at hx
          obtain ⟨i, _, rfl⟩ := hx
          rfl

theorem combosLoop_sorted (val : Nat → Nat) (scores : List Nat) (n : Nat) :
    ∀ (fuel : Nat) (q : List Entry) (lb : Nat), (∀ e ∈ q, lb ≤ e.key ∧ e.key = scoreSum scores e.comb) →
      ((combosLoop val scores n fuel q).map (·.2)).Pairwise (· ≤ ·) ∧
        ∀ p ∈ combosLoop val scores n fuel q, lb ≤ p.2 := by
  intro fuel
  induction fuel with
  | zero => intro q lb _; simp [combosLoop]
  | succ fuel ih =>
    intro q lb hq
    rw [combosLoop_succ]
    split
    · simp
    · rename_i e q' hs
      have hperm := popMin_perm hs
      have hmin := popMin_min hs
      have he : e ∈ q := hperm.mem_iff.2 List.mem_cons_self
      have hinv : ∀ x ∈ q' ++ children scores n e, e.key ≤ x.key ∧ x.key = scoreSum scores x.comb := by
        intro x hx
        rcases List.mem_append.1 hx with hx | hx
        · have hxq : x ∈ q := hperm.mem_iff.2 (List.mem_cons_of_mem _ hx)
          exact ⟨hmin x hxq, (hq x hxq).2⟩
        · simp only [children, List.mem_map] at hx
          obtain ⟨i, _, rfl⟩ := hx
          refine ⟨?_, rfl⟩
          simp only [scoreSum_append, (hq e he).2]
          omega
      obtain ⟨h1, h2⟩ := ih _ e.key hinv
      constructor
      · simp only [List.map_cons, List.pairwise_cons]
        refine ⟨?_, h1⟩
        intro k hk
        simp only [List.mem_map] at hk
        obtain ⟨p, hp, rfl⟩ := hk
        exact h2 p hp
      · intro p hp
        rcases List.mem_cons.1 hp with rfl | hp
        · exact (hq e he).1
        · exact Nat.le_trans (hq e he).1 (h2 p hp)

/-! ### the initial queue -/

def initQueue (scores : List Nat) (n : Nat) : List Entry :=
  (List.range n).map (fun i => { key := scoreSum scores [i], comb := [i], idx := i : Entry })

theorem pending_init (scores : List Nat) (n : Nat) : (pending n (initQueue scores n)).Perm (allCombos n) := by
  have h := subsets_range'_perm [] n 0
  simp only [List.nil_append, List.map_id', Nat.zero_add] at h
  have h2 := h.filter (fun c => c ≠ [])
  rw [← List.range_eq_range'] at h2
  refine List.Perm.trans (List.Perm.of_eq ?_) h2.symm
  rw [List.filter_cons_of_neg (by simp)]
  rw [List.filter_eq_self.2]
  · simp only [pending, initQueue, List.flatMap_map, tree]
  · intro c hc
    simp only [List.mem_flatMap, List.mem_map] at hc
    obtain ⟨i, _, c', _, rfl⟩ := hc
    simp

theorem allCombos_length_le (n : Nat) : (allCombos n).length ≤ 2 ^ n := by
  have := List.length_filter_le (fun c => decide (c ≠ [])) (subsets (List.range n))
  simpa [allCombos, subsets_length] using this

/-! ### the scan -/

def stopCond (iEnd : Int) (res : List (List Nat × Nat)) (s : Nat) : Bool :=
  decide (iEnd ≤ (s : Int)) || (match res.getLast? with | some l => decide (l.2 < s) | none => false)

theorem minCombScan_cons (iStart iEnd : Int) (res : List (List Nat × Nat)) (c : List Nat) (s : Nat)
    (r : List (List Nat × Nat)) :
    minCombScan iStart iEnd res ((c, s) :: r) =
      if stopCond iEnd res s then res
      else if iStart ≤ (s : Int) ∧ (s : Int) < iEnd then minCombScan iStart iEnd (res ++ [(c, s)]) r
      else minCombScan iStart iEnd res r := rfl

theorem minCombScan_sublist (iStart iEnd : Int) :
    ∀ (l res : List (List Nat × Nat)), (minCombScan iStart iEnd res l).Sublist (res ++ l) := by
  intro l
  induction l with
  | nil => intro res; simp [minCombScan]
  | cons p r ih =>
    intro res
    obtain ⟨c, s⟩ := p
    rw [minCombScan_cons]
    split
    · exact List.sublist_append_left _ _
    · split
      · have := ih (res ++ [(c, s)])
        simpa using this
      · exact (ih res).trans (List.Sublist.append_left (List.sublist_cons_self _ _) _)

/-- second phase of the scan: something with the in-interval key `k0` has been collected already -/
theorem scan_phase2 (iStart iEnd : Int) (k0 : Nat) (hk : iStart ≤ (k0 : Int) ∧ (k0 : Int) < iEnd) :
    ∀ (l res : List (List Nat × Nat)), res ≠ [] → (∀ r ∈ res, r.2 = k0) →
      (l.map (·.2)).Pairwise (· ≤ ·) → (∀ y ∈ l, k0 ≤ y.2) →
      ∀ x, x ∈ minCombScan iStart iEnd res l ↔ x ∈ res ∨ (x ∈ l ∧ x.2 = k0) := by
  intro l
  induction l with
  | nil => intro res _ _ _ _ x; simp [minCombScan]
  | cons p r ih =>
    intro res hne hres hsorted hlb x
    obtain ⟨c, s⟩ := p
    rw [minCombScan_cons]
    have hstop : stopCond iEnd res s = decide (k0 < s) := by
      unfold stopCond
      cases hl : res.getLast? with
      | none => exact absurd (List.getLast?_eq_none_iff.1 hl) hne
      | some last =>
        obtain ⟨ys, hys⟩ := List.getLast?_eq_some_iff.1 hl
        have : last.2 = k0 := hres last (by simp [hys])
        simp only [this]
        by_cases h1 : k0 < s
        · simp [h1]
        · have : ¬ (iEnd ≤ (s : Int)) := by omega
          simp [h1, this]
    simp only [List.map_cons, List.pairwise_cons, List.mem_map, forall_exists_index, and_imp,
      forall_apply_eq_imp_iff₂] at hsorted
    have hs0 : k0 ≤ s := hlb (c, s) List.mem_cons_self
    rw [hstop]
    by_cases h1 : k0 < s
    · simp only [h1, decide_true, if_true]
      constructor
      · exact Or.inl
      · rintro (h | ⟨h, hx⟩)
        · exact h
        · exfalso
          rcases List.mem_cons.1 h with rfl | h
          · simp at hx; omega
          · have := hsorted.1 x h
            omega
    · have hs : s = k0 := by omega
      subst hs
      simp only [h1, decide_false, Bool.false_eq_true, if_false, hk, and_self, if_true]
      rw [ih (res ++ [(c, s)]) (by simp) (by
            intro y hy
            rcases List.mem_append.1 hy with hy | hy
            · exact hres y hy
            · simp at hy; subst hy; rfl) hsorted.2 (fun y hy => hlb y (List.mem_cons_of_mem _ hy))]
      simp only [List.mem_append, List.mem_cons, List.not_mem_nil, or_false]
      constructor
      · rintro ((h | h) | ⟨h, hx⟩)
        · exact Or.inl h
        · subst h; exact Or.inr ⟨Or.inl rfl, rfl⟩
        · exact Or.inr ⟨Or.inr h, hx⟩
      · rintro (h | ⟨h | h, hx⟩)
        · exact Or.inl (Or.inl h)
        · exact Or.inl (Or.inr h)
        · exact Or.inr ⟨h, hx⟩

/-- the scan from the start over a stream sorted by key -/
theorem scan_spec (iStart iEnd : Int) :
    ∀ (l : List (List Nat × Nat)), (l.map (·.2)).Pairwise (· ≤ ·) →
      ∀ x, x ∈ minCombScan iStart iEnd [] l ↔
        (x ∈ l ∧ (iStart ≤ (x.2 : Int) ∧ (x.2 : Int) < iEnd) ∧
          ∀ y ∈ l, iStart ≤ (y.2 : Int) → (y.2 : Int) < iEnd → x.2 ≤ y.2) := by
  intro l
  induction l with
  | nil => intro _ x; simp [minCombScan]
  | cons p r ih =>
    intro hsorted x
    obtain ⟨c, s⟩ := p
    rw [minCombScan_cons]
    have hstop : stopCond iEnd [] s = decide (iEnd ≤ (s : Int)) := by simp [stopCond]
    simp only [List.map_cons, List.pairwise_cons, List.mem_map, forall_exists_index, and_imp,
      forall_apply_eq_imp_iff₂] at hsorted
    rw [hstop]
    by_cases h1 : iEnd ≤ (s : Int)
    · simp only [h1, decide_true, if_true, List.not_mem_nil, false_iff]
      rintro ⟨hx, ⟨_, h2⟩, _⟩
      rcases List.mem_cons.1 hx with rfl | hx
      · simp at h2; omega
      · have := hsorted.1 x hx
        omega
    · simp only [h1, decide_false, Bool.false_eq_true, if_false]
      by_cases h2 : iStart ≤ (s : Int) ∧ (s : Int) < iEnd
      · simp only [h2, and_self, if_true]
        rw [scan_phase2 iStart iEnd s h2 r ([] ++ [(c, s)]) (by simp) (by simp) hsorted.2 hsorted.1]
        simp only [List.nil_append, List.mem_cons, List.not_mem_nil, or_false]
        constructor
        · rintro (h | ⟨h, hx⟩)
          · subst h
            refine ⟨Or.inl rfl, h2, ?_⟩
            intro y hy _ _
            rcases hy with rfl | hy
            · exact Nat.le_refl _
            · exact hsorted.1 y hy
          · refine ⟨Or.inr h, by rw [hx]; exact h2, ?_⟩
            intro y hy _ _
            rw [hx]
            rcases hy with rfl | hy
            · exact Nat.le_refl _
            · exact hsorted.1 y hy
        · rintro ⟨h | h, _, hmin⟩
          · exact Or.inl h
          · refine Or.inr ⟨h, ?_⟩
            have a1 := hmin (c, s) (Or.inl rfl) h2.1 h2.2
            have a2 := hsorted.1 x h
            simp at a1
            omega
      · simp only [h2, if_false]
        rw [ih hsorted.2]
        simp only [List.mem_cons]
        constructor
        · rintro ⟨hx, hI, hmin⟩
          refine ⟨Or.inr hx, hI, ?_⟩
          intro y hy hy1 hy2
          rcases hy with rfl | hy
          · exact absurd ⟨hy1, hy2⟩ h2
          · exact hmin y hy hy1 hy2
        · rintro ⟨hx | hx, hI, hmin⟩
          · subst hx; exact absurd hI h2
          · exact ⟨hx, hI, fun y hy => hmin y (Or.inr hy)⟩

/-! ### main theorems -/

theorem sortedCombinationsV_eq (val : Nat → Nat) (scores : List Nat) :
    sortedCombinationsV val scores =
      combosLoop val scores scores.length (2 ^ scores.length) (initQueue scores scores.length) := rfl

theorem sortedCombinations_eq (scores : List Nat) :
    sortedCombinations scores = sortedCombinationsV (fun i => i) scores := rfl

theorem initQueue_keys (scores : List Nat) (n : Nat) :
    ∀ e ∈ initQueue scores n, e.key = scoreSum scores e.comb := by
  intro e he
  simp only [initQueue, List.mem_map] at he
  obtain ⟨i, _, rfl⟩ := he
  rfl

/-- every non-empty index combination exactly once, whatever the element values are (ties among the queue tuples are broken
through the values, completeness does not depend on it) -/
theorem combosV_complete (val : Nat → Nat) (scores : List Nat) :
    ((sortedCombinationsV val scores).map (·.1)).Perm (allCombos scores.length) := by
  have hinit := pending_init scores scores.length
  have h := combosLoop_complete val scores scores.length (2 ^ scores.length) (initQueue scores scores.length)
    (by rw [hinit.length_eq]; exact allCombos_length_le _)
  rw [sortedCombinationsV_eq]
  exact h.trans hinit

theorem combosV_keys (val : Nat → Nat) (scores : List Nat) (p : List Nat × Nat)
    (hp : p ∈ sortedCombinationsV val scores) : p.2 = scoreSum scores p.1 :=
  combosLoop_keys val scores scores.length _ _ (initQueue_keys scores _) p hp

theorem combosV_sorted (val : Nat → Nat) (scores : List Nat) :
    ((sortedCombinationsV val scores).map (·.2)).Pairwise (· ≤ ·) :=
  (combosLoop_sorted val scores scores.length _ _ 0
    (fun e he => ⟨Nat.zero_le _, initQueue_keys scores _ e he⟩)).1

/-- `sorted_combinations` yields every non-empty combination exactly once -/
theorem combos_complete (scores : List Nat) :
    ((sortedCombinations scores).map (·.1)).Perm (allCombos scores.length) :=
  combosV_complete _ scores

/-- the key yielded alongside is the key of the combination -/
theorem combos_keys (scores : List Nat) (p : List Nat × Nat) (hp : p ∈ sortedCombinations scores) :
    p.2 = scoreSum scores p.1 :=
  combosV_keys _ scores p hp

/-- in non-decreasing key order -/
theorem combos_sorted (scores : List Nat) : ((sortedCombinations scores).map (·.2)).Pairwise (· ≤ ·) :=
  combosV_sorted _ scores

theorem mem_sortedCombinations_iff (scores : List Nat) (c : List Nat) (k : Nat) :
    (c, k) ∈ sortedCombinations scores ↔ (c ∈ allCombos scores.length ∧ k = scoreSum scores c) := by
  constructor
  · intro h
    refine ⟨?_, combos_keys scores (c, k) h⟩
    exact (combos_complete scores).mem_iff.1 (List.mem_map.2 ⟨(c, k), h, rfl⟩)
  · rintro ⟨hc, hk⟩
    obtain ⟨p, hp, hpc⟩ := List.mem_map.1 ((combos_complete scores).mem_iff.2 hc)
    have := combos_keys scores p hp
    obtain ⟨c', k'⟩ := p
    simp only at hpc this
    subst hpc
    rw [hk, ← this]
    exact hp

/-- the search returns exactly the combinations whose score sum is the smallest sum lying in `[i_start, i_end)`, each
once and with that sum; hence the empty list when no combination falls in the interval -/
theorem minComb_spec (scores : List Nat) (iStart iEnd : Int) (c : List Nat) (k : Nat) :
    (c, k) ∈ minCombinations scores iStart iEnd ↔
      (c ∈ allCombos scores.length ∧ k = scoreSum scores c ∧ iStart ≤ (k : Int) ∧ (k : Int) < iEnd ∧
        ∀ c' ∈ allCombos scores.length, iStart ≤ (scoreSum scores c' : Int) → (scoreSum scores c' : Int) < iEnd →
          k ≤ scoreSum scores c') := by
  unfold minCombinations
  rw [scan_spec iStart iEnd _ (combos_sorted scores) (c, k), mem_sortedCombinations_iff]
  constructor
  · rintro ⟨⟨hc, hk⟩, ⟨h1, h2⟩, hmin⟩
    refine ⟨hc, hk, h1, h2, ?_⟩
    intro c' hc' a1 a2
    exact hmin (c', scoreSum scores c') ((mem_sortedCombinations_iff scores _ _).2 ⟨hc', rfl⟩) a1 a2
  · rintro ⟨hc, hk, h1, h2, hmin⟩
    refine ⟨⟨hc, hk⟩, ⟨h1, h2⟩, ?_⟩
    rintro ⟨c', k'⟩ hy a1 a2
    obtain ⟨hc', hk'⟩ := (mem_sortedCombinations_iff scores _ _).1 hy
    simp only at a1 a2 ⊢
    subst hk'
    exact hmin c' hc' a1 a2

theorem sortedCombinations_nodup (scores : List Nat) : (sortedCombinations scores).Nodup := by
  have h : ((sortedCombinations scores).map (·.1)).Nodup :=
    (combos_complete scores).nodup_iff.2 (allCombos_nodup _)
  rw [List.Nodup, List.pairwise_map] at h
  exact h.imp (fun hab e => hab (by rw [e]))

theorem minComb_nodup (scores : List Nat) (iStart iEnd : Int) : (minCombinations scores iStart iEnd).Nodup := by
  have h := minCombScan_sublist iStart iEnd (sortedCombinations scores) []
  exact List.Sublist.nodup h (sortedCombinations_nodup scores)

/-! ### any elements (repeats allowed): a direct call on the values

`combosV_complete`, `combosV_keys`, `combosV_sorted` (the versions for an arbitrary value map) are stated above, before
the anchored versions which are their instances at `val = fun i => i`. -/

/-- a direct call on elements with repeats, key = sum: the yielded value tuples are the value tuples of all non-empty index
combinations, each once (as a multiset) -/
theorem combosE_complete (elems : List Nat) :
    ((sortedCombinationsE elems).map (·.1)).Perm
      ((allCombos elems.length).map (fun c => c.map (fun i => elems.getD i 0))) := by
  have h := (combosV_complete (fun i => elems.getD i 0) elems).map (fun c => c.map (fun i => elems.getD i 0))
  simpa [sortedCombinationsE, List.map_map, Function.comp_def] using h

/-- the key alongside is the sum of the yielded tuple -/
theorem combosE_keys (elems : List Nat) (p : List Nat × Nat) (hp : p ∈ sortedCombinationsE elems) :
    p.2 = p.1.sum := by
  simp only [sortedCombinationsE, List.mem_map] at hp
  obtain ⟨p', hp', rfl⟩ := hp
  exact combosV_keys _ elems p' hp'

theorem combosE_sorted (elems : List Nat) : ((sortedCombinationsE elems).map (·.2)).Pairwise (· ≤ ·) := by
  have h := combosV_sorted (fun i => elems.getD i 0) elems
  simpa [sortedCombinationsE, List.map_map, Function.comp_def] using h

end WindVerif.Generic
