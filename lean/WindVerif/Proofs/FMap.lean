import WindVerif.Model.FMap
import WindVerif.Proofs.FMapAux9
/-! Theorems about the interleaving model of `FunctorMap` and `mul_p_map` (C05). -/
namespace WindVerif.FMap

def Reach (cfg : Cfg) (s : St) : Prop := ∃ sched, run (init cfg) sched = some s

/-- the configurations of the property: at least one worker and a bounded, non-zero work queue -/
def Wellformed (cfg : Cfg) : Prop := 1 ≤ cfg.nWorkers ∧ 1 ≤ cfg.workCap

/-- chunk indices handed to the caller by call number `k`, in order -/
def outOf (s : St) (k : Nat) : List Nat := (s.out.filter (fun p => p.1 == k)).map (·.2)

/-- at every moment of a `FunctorMap` call, under every interleaving of the workers, what the caller has received so far
is `0, 1, …, m-1` in this order: nothing lost, duplicated, reordered or invented -/
theorem fmap_prefix (cfg : Cfg) (hw : Wellformed cfg) (s : St) (h : Reach cfg s) (k : Nat) :
    ∃ m, outOf s k = List.range m :=
  prefix_of_inv (inv_of_reachable hw.1 h) k

/-- when the caller's whole program is over (all consecutive calls on one `FunctorMap`, resp. all `mul_p_map` calls), call
number `k+1` has handed over exactly its chunks `0 … n-1` in input order, for every call of the history: the calls are
independent -/
theorem fmap_result (cfg : Cfg) (hw : Wellformed cfg) (s : St) (h : Reach cfg s) (hd : s.ppc = .done)
    (k n : Nat) (hk : cfg.calls[k]? = some n) : outOf s (k + 1) = List.range n :=
  result_of_inv (inv_of_reachable hw.1 h) hd k n hk

/-- no deadlock: as long as the caller has not finished, some thread can move -/
theorem fmap_no_deadlock (cfg : Cfg) (hw : Wellformed cfg) (s : St) (h : Reach cfg s) (hnd : s.ppc ≠ .done) :
    ∃ t, (step s t).isSome :=
  progress_of_inv hw.1 hw.2 (inv_of_reachable hw.1 h) hnd

/-- termination: every schedule is finite — there is a bound on the length of all executions of a configuration (so every
maximal execution ends, and by `fmap_no_deadlock` it ends with the caller finished) -/
theorem fmap_terminates (cfg : Cfg) (hw : Wellformed cfg) :
    ∃ bound, ∀ sched s, run (init cfg) sched = some s → sched.length ≤ bound :=
  ⟨mu (init cfg), fun sched _ hr => Nat.le_trans (Nat.le_add_right _ _) (run_mu hw.1 sched (inv_init hw.1) hr)⟩

/-- when everything is over no worker process is left running (every `None` sentinel was consumed by exactly one worker) -/
theorem fmap_workers_exited (cfg : Cfg) (hw : Wellformed cfg) (s : St) (h : Reach cfg s) (hd : s.ppc = .done) :
    (∀ w ∈ s.workers, w.pc = .exited) ∧ s.workQ = [] ∧ s.resQ = [] :=
  workers_exited_of_inv (inv_of_reachable hw.1 h) hd

end WindVerif.FMap
