import WindVerif.Proofs.Records
import WindVerif.Proofs.Json
/-!
`JsonRecord` over the concrete JSON model (C13): the library assumption `JsonLib` of `Proofs/Records.lean` is discharged by
`WindVerif.Json.encode` / `decode`.  `json.loads ∘ json.dumps` is the identity only on dicts (distinct keys) of well-formed
values, so the assumption is restated relative to a domain `P` (`JsonLibOn`); a record's field names are pairwise distinct,
which puts every record into the domain.
-/
namespace WindVerif.Records
open WindVerif.Json

/-- `JsonLib` relative to a domain `P` of objects -/
structure JsonLibOn (V : Type) (P : List (Str × V) → Prop) where
  dumps  : List (Str × V) → Str
  loads  : Str → Option (List (Str × V))
  rt     : ∀ o, P o → loads (dumps o) = some o
  single : ∀ o, P o → '\n' ∉ dumps o ∧ '\r' ∉ dumps o

def jsonSaveOn {V P} (L : JsonLibOn V P) (r : List (Str × V)) : Str := L.dumps r
/-- `json.loads`, keep the keys that are field names, construct -/
def jsonLoadOn {V P} (L : JsonLibOn V P) (names : List Str) (s : Str) : Option (List (Str × V)) :=
  (L.loads s).map (fun o => o.filter (fun kv => names.contains kv.1))

/-- `json_glue` for a library that is correct on the domain `P` -/
theorem json_glue_on {V P} (L : JsonLibOn V P) (names : List Str) (r : List (Str × V)) (hr : r.map (·.1) = names)
    (hP : P r) : jsonLoadOn L names (jsonSaveOn L r) = some r ∧ '\n' ∉ jsonSaveOn L r ∧ '\r' ∉ jsonSaveOn L r := by
  refine ⟨?_, L.single r hP⟩
  unfold jsonLoadOn jsonSaveOn
  rw [L.rt r hP]
  simp only [Option.map_some, Option.some.injEq, List.filter_eq_self]
  intro kv hkv
  subst hr
  simp only [List.contains_eq_mem, List.mem_map, decide_eq_true_eq]
  exact ⟨kv, hkv, rfl⟩

/-- an unconditional library is one on the full domain -/
def JsonLib.toOn {V} (L : JsonLib V) : JsonLibOn V (fun _ => True) :=
  { dumps := L.dumps, loads := L.loads, rt := fun o _ => L.rt o, single := fun o _ => L.single o }

/-- `json.loads(s)` when the result is a `dict` (anything else has no `.items()`) -/
def loadsObj (s : Str) : Option (List (Str × JVal)) :=
  match decode s with
  | some (.obj o) => some o
  | _ => none

/-- the modelled `json` module: `dumps(asdict(r), separators=(',', ':'))` and `loads`, correct on dicts of well-formed values -/
def jsonLibConcrete : JsonLibOn JVal (fun o => WF (.obj o)) where
  dumps o := encode (.obj o)
  loads := loadsObj
  rt o h := by simp only [loadsObj, decode_encode _ h]
  single o h := encode_single_line _ h

/-- `JsonRecord.save` / `JsonRecord.load` over the modelled library -/
def jsonRecordSave (r : List (Str × JVal)) : Str := jsonSaveOn jsonLibConcrete r
def jsonRecordLoad (names : List Str) (s : Str) : Option (List (Str × JVal)) := jsonLoadOn jsonLibConcrete names s

theorem jsonRecordSave_eq (r : List (Str × JVal)) : jsonRecordSave r = encode (.obj r) := rfl

/-- the hypothesis-free corollary of `json_glue`: a record (pairwise distinct field names, well-formed values) survives
save/load through the modelled `json` module, and the saved text is a single line -/
theorem json_record_roundtrip (names : List Str) (hn : names.Nodup) (r : List (Str × JVal)) (hr : r.map (·.1) = names)
    (hv : ∀ kv ∈ r, WF kv.2) :
    jsonRecordLoad names (jsonRecordSave r) = some r ∧ '\n' ∉ jsonRecordSave r ∧ '\r' ∉ jsonRecordSave r :=
  json_glue_on jsonLibConcrete names r hr (.obj r (by rw [hr]; exact hn) hv)

/-- non-vacuity: a record with a string, an int, a float and a nested field -/
example : jsonRecordLoad ["a".toList, "b".toList]
    (jsonRecordSave [("a".toList, .str "x\ny".toList), ("b".toList, .arr [.int (-1), .float "0.5".toList])]) =
    some [("a".toList, .str "x\ny".toList), ("b".toList, .arr [.int (-1), .float "0.5".toList])] := by rfl

end WindVerif.Records
