import WindVerif.Proofs.StorageInv4
/-! Auxiliary development for `Storage.lean`, part 5: consequences of the control and data layers: published entries are
durable and stable. -/
namespace WindVerif.Storage

/-- the line a reader gets when it follows the index entry of identifier `g` now (same as `entryLine` of `Storage.lean`) -/
def entryLine' (s : St) (g : Nat) : Option (List (Option Nat)) :=
  match s.index[g]? with
  | some (some (w, off)) => some (readlineAt ((fileOf s w).getD []) off)
  | _ => none

theorem entryLine'_some {s : St} {g : Nat} {l : List (Option Nat)} (h : entryLine' s g = some l) :
    ∃ w off, s.index[g]? = some (some (w, off)) ∧ l = readlineAt ((fileOf s w).getD []) off := by
  unfold entryLine' at h
  split at h
  · rename_i w off hi
    exact ⟨w, off, hi, by simpa using h.symm⟩
  · cases h

theorem entryLine'_of_entry {s : St} {g w off : Nat} (h : s.index[g]? = some (some (w, off))) :
    entryLine' s g = some (readlineAt ((fileOf s w).getD []) off) := by
  unfold entryLine'; rw [h]

theorem entryLine'_none {s : St} {g : Nat} (h : ∀ w off, s.index[g]? ≠ some (some (w, off))) : entryLine' s g = none := by
  unfold entryLine'
  split
  · rename_i w off hi; exact absurd hi (h w off)
  · rfl

/-- a published entry denotes a complete line -/
theorem InvB.entry_line {s : St} (hB : InvB s) {g w off : Nat} (h : s.index[g]? = some (some (w, off))) :
    ∃ c t, fileOf s w = some c ∧ c[off]? = some (some t) ∧ c[off + 1]? = some none ∧
      entryLine' s g = some [some t, none] := by
  obtain ⟨c, t, h1, h2, h3⟩ := hB.ent g w off h
  refine ⟨c, t, h1, h2, h3, ?_⟩
  rw [entryLine'_of_entry h, h1]
  simp only [Option.getD_some]
  exact congrArg some (readlineAt_complete c off t h2 h3)

theorem InvB.durable {s : St} (hB : InvB s) {g : Nat} {l : List (Option Nat)} (h : entryLine' s g = some l) :
    ∃ t, l = [some t, none] := by
  obtain ⟨w, off, hi, _⟩ := entryLine'_some h
  obtain ⟨c, t, _, _, _, h4⟩ := hB.entry_line hi
  rw [h] at h4
  exact ⟨t, by simpa using h4⟩

/-- published entries and their lines survive every step -/
theorem InvB.stable {s s' : St} (hB : InvB s) (hB' : InvB s') (hS : StepB s s') {g : Nat} {l : List (Option Nat)}
    (h : entryLine' s g = some l) : entryLine' s' g = some l ∧ s'.index[g]? = s.index[g]? := by
  obtain ⟨w, off, hi, _⟩ := entryLine'_some h
  obtain ⟨c, t, h1, h2, h3, h4⟩ := hB.entry_line hi
  have hi' := hS.idxMono g (w, off) hi
  obtain ⟨c', t', h1', h2', h3', h4'⟩ := hB'.entry_line hi'
  obtain ⟨d, hd⟩ := hS.fileMono w c h1
  rw [hd] at h1'
  cases h1'
  rw [getElem?_append_of_some h2] at h2'
  cases h2'
  rw [h] at h4
  rw [h4', h4, hi', hi]
  exact ⟨rfl, rfl⟩

/-! ## running a schedule -/

theorem run_preserves (P : St → Prop) (hstep : ∀ s i s', P s → step s i = some s' → P s') {s s' : St}
    {sched : List Nat} (h0 : P s) (hr : run s sched = some s') : P s' := by
  induction sched generalizing s with
  | nil => simp only [run, Option.some.injEq] at hr; exact hr ▸ h0
  | cons i r ih =>
    simp only [run] at hr
    split at hr
    · cases hr
    · rename_i s'' hs; exact ih (hstep _ _ _ h0 hs) hr

theorem run_append {s s' s'' : St} {a b : List Nat} (h1 : run s a = some s') (h2 : run s' b = some s'') :
    run s (a ++ b) = some s'' := by
  induction a generalizing s with
  | nil => simp only [run, Option.some.injEq] at h1; subst h1; exact h2
  | cons i r ih =>
    simp only [run, List.cons_append] at h1 ⊢
    split at h1
    · cases h1
    · exact ih h1

theorem reach_AB {scripts : List (List Op)} (hnf : ∀ sc ∈ scripts, Op.flush ∉ sc) {presize : Nat} {s : St}
    {sched : List Nat} (hr : run (start (init presize scripts)) sched = some s) : InvA scripts s ∧ InvB s :=
  run_preserves (fun s => InvA scripts s ∧ InvB s) (fun _ _ _ h hs => ⟨h.1.step hs, h.2.step h.1 hs⟩)
    ⟨InvA.init hnf presize, InvB.init presize scripts⟩ hr

theorem stable_run {scripts : List (List Op)} {s s' : St} (hA : InvA scripts s) (hB : InvB s) {sched : List Nat}
    (hs : run s sched = some s') {g : Nat} {l : List (Option Nat)} (h : entryLine' s g = some l) :
    entryLine' s' g = some l ∧ s'.index[g]? = s.index[g]? := by
  induction sched generalizing s with
  | nil => simp only [run, Option.some.injEq] at hs; subst hs; exact ⟨h, rfl⟩
  | cons i r ih =>
    simp only [run] at hs
    split at hs
    · cases hs
    · rename_i s1 hs1
      have hB1 := hB.step hA hs1
      have h1 := hB.stable hB1 (StepB.of_step hA hB hs1) h
      have h2 := ih (hA.step hs1) hB1 hs h1.1
      exact ⟨h2.1, h2.2.trans h1.2⟩

end WindVerif.Storage
