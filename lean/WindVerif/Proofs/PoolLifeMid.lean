import WindVerif.Proofs.PoolLifeAux3
/-!
Mid-call `until_all_ready()` (C04): where the consumer's `midReady` pcs come from, and what leaving one of them means.

* `stepC_mid`: a step of the consumer arrives at `midReady i wid` only with `wid = procs[i]` of the list as it is at that
  moment (slot 0 from the result loop, slot `i + 1` from the wait for slot `i`) — the iteration `for p in self.procs` over
  the live list.
* `ready_mid_after_begin`: once the consumer is no longer at the wait `midReady i wid` it was at — in particular when
  `until_all_ready()` has returned —, worker `wid` has completed `begin()` (`begin_finished` set, `begin` logged).  The
  workers covered are exactly those the consumer has been at a `midReady` pc for: the occupant of every slot at the moment
  the loop arrived there.  A successor the replace thread lists in a slot the loop has passed (or has already fetched) is
  not waited for.
-/
namespace WindVerif.Pool

/-- the fields the mid-call wait looks at -/
structure SameM (s s' : St) : Prop where
  workers : s'.workers = s.workers
  procs : s'.procs = s.procs
  fRun : s'.fRun = s.fRun
  cur : s'.cur = s.cur
  cfg : s'.cfg = s.cfg

theorem consumeBatch_sameM (s : St) : (consumeBatch s).workers = s.workers ∧ (consumeBatch s).procs = s.procs ∧
    (consumeBatch s).fRun = s.fRun ∧ (consumeBatch s).cur = s.cur ∧ (consumeBatch s).cfg = s.cfg := by
  unfold consumeBatch
  split
  · exact ⟨rfl, rfl, rfl, rfl, rfl⟩
  · split <;> exact ⟨rfl, rfl, rfl, rfl, rfl⟩

/-- `afterResults` arrives at a `midReady` pc only at slot 0 with the worker listed there -/
theorem afterResults_mid {s0 : St} {i wid : Nat} (hm : (afterResults s0).cpc = .midReady i wid) :
    i = 0 ∧ s0.procs[0]? = some wid ∧ SameM s0 (afterResults s0) ∧ s0.cfg.readyMid = true ∧ s0.finished = 0 ∧
      0 < (afterResults s0).finished := by
  obtain ⟨c', heq, hcl⟩ := afterResults_eq s0
  obtain ⟨e1, e2, e3, e4, e5⟩ := consumeBatch_sameM s0
  rw [heq] at hm ⊢
  have hm' : c' = .midReady i wid := hm
  rcases hcl with ⟨h | h | h, _⟩ | ⟨w0, h, hp, hr, hf, hpos⟩
  · rw [h] at hm'; cases hm'
  · rw [h] at hm'; cases hm'
  · rw [h] at hm'; cases hm'
  · rw [h] at hm'; cases hm'
    rw [e2] at hp
    exact ⟨rfl, hp, ⟨e1, e2, e3, e4, e5⟩, hr, hf, hpos⟩

theorem afterBatch_not_mid (s0 : St) (i wid : Nat) : (afterBatch s0).cpc ≠ .midReady i wid := by
  obtain ⟨c', heq, hcl⟩ := afterBatch_eq s0
  rw [heq]
  intro hm
  have hm' : c' = .midReady i wid := hm
  rcases hcl with h | h | h <;> rw [h] at hm' <;> cases hm'

theorem toNextCall_not_mid (s0 : St) (i wid : Nat) : (toNextCall s0).cpc ≠ .midReady i wid := by
  intro hm
  rcases (toNextCall_same s0).2 with ⟨h, _⟩ | h | ⟨h, _⟩ | h <;> rw [h] at hm <;> cases hm

theorem exitJoinFrom_not_mid (s0 : St) (fuel k i wid : Nat) : exitJoinFrom s0 fuel k ≠ .midReady i wid := by
  intro hm
  rcases exitJoinFrom_spec s0 fuel k with ⟨h, _⟩ | ⟨j, h, _⟩ <;> rw [h] at hm <;> cases hm

/-- **the iteration over the live list**: a step of the consumer arrives at the wait for worker `wid` in slot `i` only if
`wid` is what `procs[i]` holds at that moment: slot 0 when the first result of a call has been emitted (from `lock.release`
or the blocking `get`, with `readyMid`), slot `i = j + 1` when the wait for slot `j` has returned -/
theorem stepC_mid {s s' : St} {i wid : Nat} (h : stepC s = some s') (hm : s'.cpc = .midReady i wid) :
    s.procs[i]? = some wid ∧ SameM s s' ∧
    ((i = 0 ∧ (s.cpc = .lockRel ∨ s.cpc = .getBlock) ∧ s.cfg.readyMid = true) ∨
     (∃ j w0, i = j + 1 ∧ s.cpc = .midReady j w0)) := by
  cases hpc : s.cpc <;> simp only [stepC, hpc] at h
  case enterStart k =>
    split at h
    · cases h
    · split at h
      · cases h
      · try dsimp only at h
        split at h
        · simp only [Option.some.injEq] at h; subst h; cases hm
        · simp only [Option.some.injEq] at h; subst h
          exfalso
          unfold afterEnter at hm
          split at hm
          · cases hm
          · exact toNextCall_not_mid _ _ _ hm
  case readyWait k =>
    split at h
    · cases h
    · split at h
      · cases h
      · split at h
        · split at h
          · simp only [Option.some.injEq] at h; subst h; cases hm
          · simp only [Option.some.injEq] at h; subst h
            exact absurd hm (toNextCall_not_mid _ _ _)
        · cases h
  case nextCall =>
    simp only [Option.some.injEq] at h; subst h
    exact absurd hm (toNextCall_not_mid _ _ _)
  case fStart =>
    split at h
    · cases h
    · simp only [Option.some.injEq] at h; subst h; cases hm
  case lockAcq =>
    split at h
    · simp only [Option.some.injEq] at h; subst h; cases hm
    · cases h
  case lockRel =>
    split at h <;> simp only [Option.some.injEq] at h <;> subst h
    · obtain ⟨e0, e1, e2, e3, _, _⟩ := afterResults_mid hm
      exact ⟨by rw [e0]; exact e1, ⟨e2.workers, e2.procs, e2.fRun, e2.cur, e2.cfg⟩, Or.inl ⟨e0, Or.inl rfl, e3⟩⟩
    · cases hm
  case getBlock =>
    split at h
    · cases h
    · simp only [Option.some.injEq] at h; subst h
      obtain ⟨e0, e1, e2, e3, _, _⟩ := afterResults_mid hm
      exact ⟨by rw [e0]; exact e1, ⟨e2.workers, e2.procs, e2.fRun, e2.cur, e2.cfg⟩, Or.inl ⟨e0, Or.inr rfl, e3⟩⟩
    · simp only [Option.some.injEq] at h; subst h
      obtain ⟨e0, e1, e2, e3, _, _⟩ := afterResults_mid hm
      exact ⟨by rw [e0]; exact e1, ⟨e2.workers, e2.procs, e2.fRun, e2.cur, e2.cfg⟩, Or.inl ⟨e0, Or.inr rfl, e3⟩⟩
  case fJoin =>
    split at h
    · cases h
    · split at h
      · simp only [Option.some.injEq] at h; subst h; cases hm
      · simp only [Option.some.injEq] at h; subst h
        exact absurd hm (toNextCall_not_mid _ _ _)
  case rJoin =>
    split at h
    · cases h
    · simp only [Option.some.injEq] at h; subst h
      exact absurd hm (toNextCall_not_mid _ _ _)
  case exitPut k =>
    split at h
    · split at h
      · simp only [Option.some.injEq] at h; subst h; cases hm
      · cases h
    · try dsimp only at h
      split at h
      · simp only [Option.some.injEq] at h; subst h; cases hm
      · simp only [Option.some.injEq] at h; subst h
        exact absurd hm (exitJoinFrom_not_mid _ _ _ _ _)
  case exitJoin k =>
    split at h
    · cases h
    · split at h
      · simp only [Option.some.injEq] at h; subst h
        exact absurd hm (exitJoinFrom_not_mid _ _ _ _ _)
      · cases h
  case midReady j w0 =>
    split at h
    · cases h
    · split at h
      · split at h
        · rename_i wid' hw'
          simp only [Option.some.injEq] at h; subst h
          cases hm
          exact ⟨hw', ⟨rfl, rfl, rfl, rfl, rfl⟩, Or.inr ⟨j, w0, rfl, rfl⟩⟩
        · simp only [Option.some.injEq] at h; subst h
          exact absurd hm (afterBatch_not_mid _ _ _)
      · cases h
  case done => cases h
  all_goals
    first
    | (simp only [Option.some.injEq] at h; subst h; cases hm)
    | (split at h <;> simp only [Option.some.injEq] at h <;> subst h <;> cases hm)

/-! ### what the steps of the other threads leave alone -/

theorem stepF_frameM {s s' : St} (h : stepF s = some s') :
    s'.cpc = s.cpc ∧ s'.workers = s.workers ∧ s'.fRun = s.fRun ∧ s'.cur = s.cur := by
  unfold stepF at h
  (repeat' split at h) <;>
    first
    | (simp only [Option.some.injEq] at h; subst h
       first | exact ⟨rfl, rfl, rfl, rfl⟩ | (split <;> exact ⟨rfl, rfl, rfl, rfl⟩))
    | cases h

/-- every worker keeps its wid and a set `begin_finished` along a step of the replace thread -/
theorem stepR_frameM {s s' : St} (hI : LInv s) (h : stepR s = some s') :
    s'.cpc = s.cpc ∧ s'.fRun = s.fRun ∧ s'.cur = s.cur ∧
    ∀ x ∈ s.workers, ∃ y ∈ s'.workers, y.wid = x.wid ∧ (x.bf = true → y.bf = true) := by
  unfold stepR at h
  split at h
  · cases h
  · split at h
    · cases h
    · split at h
      · cases h
      · simp only [Option.some.injEq] at h; subst h
        exact ⟨rfl, rfl, rfl, fun x hx => ⟨x, hx, rfl, id⟩⟩
      · simp only [Option.some.injEq] at h; subst h
        exact ⟨rfl, rfl, rfl, fun x hx => ⟨x, hx, rfl, id⟩⟩
    · split at h
      · simp only [Option.some.injEq] at h; subst h
        exact ⟨rfl, rfl, rfl, fun x hx => ⟨x, List.mem_append_left _ hx, rfl, id⟩⟩
      · cases h
    · split at h
      · cases h
      · rename_i w hg
        simp only [Option.some.injEq] at h; subst h
        obtain ⟨hwm, _⟩ := getWorker_some hg
        refine ⟨rfl, rfl, rfl, ?_⟩
        intro x hx
        show ∃ y ∈ upd w.wid { w with pc := .bfClear } s.workers, _
        by_cases he : x.wid = w.wid
        · have hxw : x = w := wid_inj hI.nodup hx hwm he
          subst hxw
          exact ⟨{ x with pc := .bfClear }, mem_upd.2 (Or.inl ⟨rfl, x, hwm, rfl⟩), rfl, id⟩
        · exact ⟨x, mem_upd.2 (Or.inr ⟨hx, he⟩), rfl, id⟩

theorem stepW_frameM {s s' : St} {k : Nat} (hI : LInv s) (h : stepW s k = some s') :
    s'.cpc = s.cpc ∧ ∀ x ∈ s.workers, ∃ y ∈ s'.workers, y.wid = x.wid ∧ (x.bf = true → y.bf = true) := by
  obtain ⟨w, w', hg, _, _, hwid, _, hinv, hf⟩ := stepW_summary h
  obtain ⟨hwm, _⟩ := getWorker_some hg
  refine ⟨hf.cpc, ?_⟩
  intro x hx
  rw [hf.workers]
  by_cases he : x.wid = w.wid
  · have hxw : x = w := wid_inj hI.nodup hx hwm he
    subst hxw
    exact ⟨w', mem_upd.2 (Or.inl ⟨rfl, x, hwm, rfl⟩), hwid, (hinv (hI.wk x hwm)).2⟩
  · exact ⟨x, mem_upd.2 (Or.inr ⟨hx, he⟩), rfl, id⟩

/-- the consumer never touches a worker record except to start it -/
theorem stepC_workers {s s' : St} (h : stepC s = some s') :
    s'.workers = s.workers ∨ ∃ w, w ∈ s.workers ∧ s'.workers = upd w.wid { w with pc := .bfClear } s.workers := by
  cases hpc : s.cpc <;> simp only [stepC, hpc] at h
  case enterStart k =>
    split at h
    · cases h
    · split at h
      · cases h
      · rename_i w hg
        obtain ⟨hwm, _⟩ := getWorker_some hg
        right
        refine ⟨w, hwm, ?_⟩
        try dsimp only at h
        split at h
        · simp only [Option.some.injEq] at h; subst h; rfl
        · simp only [Option.some.injEq] at h; subst h
          unfold afterEnter
          split
          · rfl
          · exact (toNextCall_same _).1.workers
  all_goals
    left
    (repeat' split at h) <;>
      first
      | (simp only [Option.some.injEq] at h; subst h
         first
         | rfl
         | exact (toNextCall_same _).1.workers
         | exact (afterResults_same _).1.workers
         | exact (afterBatch_same _).1.workers)
      | cases h

theorem stepC_frameM {s s' : St} (hI : LInv s) (h : stepC s = some s') :
    ∀ x ∈ s.workers, ∃ y ∈ s'.workers, y.wid = x.wid ∧ (x.bf = true → y.bf = true) := by
  intro x hx
  rcases stepC_workers h with e | ⟨w, hwm, e⟩
  · rw [e]; exact ⟨x, hx, rfl, id⟩
  · rw [e]
    by_cases he : x.wid = w.wid
    · have hxw : x = w := wid_inj hI.nodup hx hwm he
      subst hxw
      exact ⟨{ x with pc := .bfClear }, mem_upd.2 (Or.inl ⟨rfl, x, hwm, rfl⟩), rfl, id⟩
    · exact ⟨x, mem_upd.2 (Or.inr ⟨hx, he⟩), rfl, id⟩

/-- `begin_finished`, once set, stays set: along every step of every thread every worker keeps its wid and the flag -/
theorem step_bfMono {s s' : St} {t : Tid} (hI : LInv s) (h : step s t = some s') :
    ∀ x ∈ s.workers, ∃ y ∈ s'.workers, y.wid = x.wid ∧ (x.bf = true → y.bf = true) := by
  cases t with
  | c => exact stepC_frameM hI h
  | f =>
    have := (stepF_frameM h).2.1
    intro x hx; rw [this]; exact ⟨x, hx, rfl, id⟩
  | r => exact (stepR_frameM hI h).2.2.2
  | w k => exact (stepW_frameM hI h).2

theorem run_bfMono {s s' : St} {sched : List Tid} (hI : LInv s) (h : run s sched = some s') {wid : Nat}
    (hw : ∃ x ∈ s.workers, x.wid = wid ∧ x.bf = true) : ∃ y ∈ s'.workers, y.wid = wid ∧ y.bf = true := by
  induction sched generalizing s with
  | nil => simp only [run, Option.some.injEq] at h; subst h; exact hw
  | cons t ts ih =>
    simp only [run] at h
    split at h
    · cases h
    · rename_i s1 hs1
      obtain ⟨x, hx, hxw, hxb⟩ := hw
      obtain ⟨y, hy, hyw, hyb⟩ := step_bfMono hI hs1 x hx
      exact ih (LInv_step hI hs1) h ⟨y, hy, hyw.trans hxw, hyb hxb⟩

/-- the steps of the other threads do not move the consumer -/
theorem step_cpc_of_ne_c {s s' : St} {t : Tid} (hI : LInv s) (h : step s t = some s') (ht : t ≠ .c) : s'.cpc = s.cpc := by
  cases t with
  | c => exact absurd rfl ht
  | f => exact (stepF_frameM h).1
  | r => exact (stepR_frameM hI h).1
  | w k => exact (stepW_frameM hI h).1

/-- the wait itself: the consumer's step at `midReady i wid` is enabled only when `begin_finished` of worker `wid` is set -/
theorem stepC_midReady_bf {s s' : St} {i wid : Nat} (hpc : s.cpc = .midReady i wid) (h : stepC s = some s') :
    ∃ w ∈ s.workers, w.wid = wid ∧ w.bf = true := by
  simp only [stepC, hpc] at h
  split at h
  · cases h
  · rename_i w hg
    obtain ⟨hwm, hwid⟩ := getWorker_some hg
    split at h
    · rename_i hbf; exact ⟨w, hwm, hwid, hbf⟩
    · cases h

/-- once the consumer is no longer at the wait for worker `wid` it was at, `begin_finished` of that worker is set -/
theorem mid_wait_passed {s s' : St} {sched : List Tid} (hI : LInv s) {i wid : Nat} (hpc : s.cpc = .midReady i wid)
    (hr : run s sched = some s') (hleft : s'.cpc ≠ .midReady i wid) : ∃ y ∈ s'.workers, y.wid = wid ∧ y.bf = true := by
  induction sched generalizing s with
  | nil => simp only [run, Option.some.injEq] at hr; subst hr; exact absurd hpc hleft
  | cons t ts ih =>
    simp only [run] at hr
    split at hr
    · cases hr
    · rename_i s1 hs1
      by_cases ht : t = .c
      · subst ht
        obtain ⟨w, hwm, hwid, hbf⟩ := stepC_midReady_bf hpc hs1
        obtain ⟨y, hy, hyw, hyb⟩ := step_bfMono hI hs1 w hwm
        exact run_bfMono (LInv_step hI hs1) hr ⟨y, hy, hyw.trans hwid, hyb hbf⟩
      · exact ih (LInv_step hI hs1) ((step_cpc_of_ne_c hI hs1 ht).trans hpc) hr

/-- **C04, mid-call `until_all_ready()`**: let the consumer be at the wait for worker `wid`, the occupant of slot `i` of
`procs` at the moment the loop `for p in self.procs` arrived at that slot (`stepC_mid`), in a reachable state `s`.  In
every later state `s'` in which the consumer is no longer at that wait — in particular as soon as `until_all_ready()` has
returned — worker `wid` has completed `begin()`: its `begin_finished` is set and `begin` is in its log.  This holds for
every configuration (faults included: the wait for a worker whose `begin()` raises never returns), every call history and
every interleaving, whatever the replace thread does to the list in the meantime. -/
theorem ready_mid_after_begin (cfg : Cfg) (s : St) (h : Reach cfg s) (i wid : Nat) (hpc : s.cpc = .midReady i wid)
    (sched : List Tid) (s' : St) (hrun : run s sched = some s') (hleft : s'.cpc ≠ .midReady i wid) :
    ∃ w ∈ s'.workers, w.wid = wid ∧ w.bf = true ∧ WEv.begin ∈ w.log := by
  obtain ⟨hI, _⟩ := LInv_reach h
  obtain ⟨y, hy, hyw, hyb⟩ := mid_wait_passed hI hpc hrun hleft
  exact ⟨y, hy, hyw, hyb, ((LInv_run hI hrun).1.wk y hy).bfLog hyb⟩

/-- which workers are covered: the consumer arrives at the wait for `wid` in slot `i` only by a step of its own, and `wid`
is what `procs[i]` holds at that very moment — slot 0 when the first result of a call has just been emitted, slot `j + 1`
when the wait for slot `j` has returned; the list is not touched by that step -/
theorem ready_mid_slot (cfg : Cfg) (s s' : St) (t : Tid) (i wid : Nat) (hr : Reach cfg s) (h : step s t = some s')
    (hm : s'.cpc = .midReady i wid) (hnew : s.cpc ≠ .midReady i wid) :
    t = .c ∧ s.procs[i]? = some wid ∧ s'.procs = s.procs ∧
    ((i = 0 ∧ (s.cpc = .lockRel ∨ s.cpc = .getBlock) ∧ cfg.readyMid = true) ∨ ∃ j w0, i = j + 1 ∧ s.cpc = .midReady j w0) := by
  obtain ⟨hI, hcfg⟩ := LInv_reach hr
  by_cases ht : t = .c
  · subst ht
    obtain ⟨h1, h2, h3⟩ := stepC_mid h hm
    rw [hcfg] at h3
    exact ⟨rfl, h1, h2.procs, h3⟩
  · exact absurd ((step_cpc_of_ne_c hI h ht).symm.trans hm) hnew

/-- the loop itself: the consumer's step at the wait for slot `i` needs `begin_finished` of the fetched worker, goes on to
the occupant of slot `i + 1` of the list as it is now, and leaves `until_all_ready()` exactly when there is no such slot -/
theorem ready_mid_next (s s' : St) (i wid : Nat) (hpc : s.cpc = .midReady i wid) (h : step s .c = some s') :
    (∃ w ∈ s.workers, w.wid = wid ∧ w.bf = true) ∧
    (match s.procs[i + 1]? with
     | some v => s'.cpc = .midReady (i + 1) v
     | none => ∀ j v, s'.cpc ≠ .midReady j v) := by
  have h : stepC s = some s' := h
  refine ⟨stepC_midReady_bf hpc h, ?_⟩
  simp only [stepC, hpc] at h
  split at h
  · cases h
  · split at h
    · split at h
      · rename_i v hv
        simp only [Option.some.injEq] at h; subst h
        rw [hv]
      · rename_i hv
        simp only [Option.some.injEq] at h; subst h
        rw [hv]
        intro j v
        exact afterBatch_not_mid _ _ _
    · cases h

end WindVerif.Pool
