import WindVerif.Proofs.PoolLiveAux3
/-! Liveness of the pool model (C02): the liveness invariant is preserved by the steps of the workers. -/
namespace WindVerif.Pool

variable {s s' : St} {wid : Nat} {w w' : Worker}

/-! ### membership in the updated worker list -/

theorem WStep.mem' (h : WStep s s' wid w w') : ∀ x, x ∈ s'.workers → x = w' ∨ (x ∈ s.workers ∧ x.wid ≠ w.wid) := by
  intro x hx; rw [h.workers] at hx
  rcases mem_upd.1 hx with ⟨rfl, _⟩ | hx
  · exact Or.inl rfl
  · exact Or.inr hx

theorem WStep.new_mem (h : WStep s s' wid w w') : w' ∈ s'.workers := by
  rw [h.workers]; exact mem_upd.2 (Or.inl ⟨rfl, w, h.mem, rfl⟩)

theorem WStep.old_mem (h : WStep s s' wid w w') {x : Worker} (hx : x ∈ s.workers) (hne : x.wid ≠ w.wid) : x ∈ s'.workers := by
  rw [h.workers]; exact mem_upd.2 (Or.inr ⟨hx, hne⟩)

theorem WStep.eq_of_wid (h : WStep s s' wid w w') (hL : LInv s) {x : Worker} (hx : x ∈ s.workers) (he : x.wid = w.wid) :
    x = w := wid_inj hL.nodup hx h.mem he

/-- every old worker has a successor with the same wid -/
theorem WStep.succ (h : WStep s s' wid w w') {x : Worker} (hx : x ∈ s.workers) : ∃ y ∈ s'.workers, y.wid = x.wid := by
  by_cases he : x.wid = w.wid
  · exact ⟨w', h.new_mem, by rw [h.wid', he]⟩
  · exact ⟨x, h.old_mem hx he, rfl⟩

/-! ### what the kinds of worker steps have in common -/

set_option hygiene false in
/-- case split on the kind of a worker step with uniform names -/
macro "wkcases " h:ident : tactic => `(tactic|
  rcases $h:ident with ⟨hpc, hpc', hh, hfl, hbf, hwq, hrq, hpq, hlk⟩ | ⟨hpc, hpc', hh, hfl, hbf, hwq, hrq, hpq, hlk⟩ |
    ⟨hpc, hpc', hh, hfl, hbf, hwq, hrq, hpq, hlk⟩ | ⟨i, hpc, hpc', hh, hfl, hbf, hwq, hrq, hpq, hlk⟩ |
    ⟨hpc, hpc', hh, hfl, hbf, hwq, hrq, hpq, hlk, hlk'⟩ | ⟨i, hpc, hpc', hheld, hh, hfl, hbf, hcap, hwq, hrq, hpq, hlk⟩ |
    ⟨i, hpc, hpc', hheld, hh, hfl, hbf, hcap, hwq, hrq, hpq, hlk⟩ | ⟨hpc, hfull, hpc', hh, hfl, hbf, hwq, hrq, hpq, hlk'⟩ |
    ⟨hpc, hfull, hpc', hh, hfl, hbf, hwq, hrq, hpq, hlk'⟩ | ⟨i, hpc, hheld, hpc', hh, hfl, hbf, hcap, hwq, hrq, hpq, hlk⟩ |
    ⟨hpc, hpc', hh, hfl, hbf, hwq, hrq, hpq, hlk⟩ | ⟨hpc, hpc', hh, hfl, hbf, hwq, hrq, hpq, hlk⟩)

def heldish (w : Worker) : Prop :=
  w.pc = .lockAcq ∨ w.pc = .putNowait ∨ w.pc = .putBlock ∨ (w.pc = .lockRel ∧ w.full = true)

theorem WKind.lock_cases (h : WKind s s' w w') :
    (s'.lock = s.lock ∧ wIn w'.pc = wIn w.pc) ∨
    (s.lock = none ∧ s'.lock = some (.w w.wid) ∧ wIn w.pc = false ∧ wIn w'.pc = true) ∨
    (s'.lock = none ∧ wIn w.pc = true ∧ wIn w'.pc = false) := by
  wkcases h
  · exact Or.inl ⟨hlk, by rw [hpc, hpc']; rfl⟩
  · exact Or.inl ⟨hlk, by rw [hpc, hpc']; rfl⟩
  · exact Or.inl ⟨hlk, by rw [hpc, hpc']; rfl⟩
  · exact Or.inl ⟨hlk, by rw [hpc, hpc']; rfl⟩
  · exact Or.inr (Or.inl ⟨hlk, hlk', by rw [hpc]; rfl, by rw [hpc']; rfl⟩)
  · exact Or.inl ⟨hlk, by rw [hpc, hpc']; rfl⟩
  · exact Or.inl ⟨hlk, by rw [hpc, hpc']; rfl⟩
  · exact Or.inr (Or.inr ⟨hlk', by rw [hpc]; rfl, by rw [hpc']; rfl⟩)
  · refine Or.inr (Or.inr ⟨hlk', by rw [hpc]; rfl, ?_⟩)
    rcases hpc' with h | ⟨h, _⟩ <;> rw [h] <;> rfl
  · refine Or.inl ⟨hlk, ?_⟩
    rw [hpc]; rcases hpc' with h | ⟨h, _⟩ <;> rw [h] <;> rfl
  · exact Or.inl ⟨hlk, by rw [hpc, hpc']; rfl⟩
  · exact Or.inl ⟨hlk, by rw [hpc, hpc']; rfl⟩

theorem WKind.held_ok (h : WKind s s' w w') (h0 : heldish w → w.held.isSome) : heldish w' → w'.held.isSome := by
  unfold heldish at *
  intro hw'
  wkcases h
  · rw [hpc'] at hw'; simp at hw'
  · rw [hpc'] at hw'; simp at hw'
  · rw [hpc'] at hw'; simp at hw'
  · rw [hh]; rfl
  · rw [hh]; exact h0 (Or.inl hpc)
  · rw [hh, hheld]; rfl
  · rw [hpc', hfl] at hw'; simp at hw'
  · rw [hh]; exact h0 (Or.inr (Or.inr (Or.inr ⟨hpc, hfull⟩)))
  · rcases hpc' with h | ⟨h, _⟩ <;> rw [h] at hw' <;> simp at hw'
  · rcases hpc' with h | ⟨h, _⟩ <;> rw [h] at hw' <;> simp at hw'
  · rw [hpc'] at hw'; simp at hw'
  · rw [hpc'] at hw'; simp at hw'

def earlyPc (w : Worker) : Prop := w.pc = .notStarted ∨ w.pc = .bfClear ∨ w.pc = .bfSet

theorem WKind.bf_ok (h : WKind s s' w w') (h0 : w.bf = false → earlyPc w) : w'.bf = false → earlyPc w' := by
  unfold earlyPc at *
  intro hb
  wkcases h
  · exact Or.inr (Or.inr hpc')
  · rw [hbf] at hb; cases hb
  all_goals (rw [hbf] at hb; have := h0 hb; rw [hpc] at this; simp at this)

theorem WKind.retire_ok (h : WKind s s' w w') (hr : w'.pc = .retire) : s.cfg.factory = true := by
  wkcases h
  all_goals first
    | (rw [hpc'] at hr; cases hr; done)
    | (rcases hpc' with h | ⟨_, h⟩
       · rw [h] at hr; cases hr
       · exact h)

/-- the worker that moves is started and has not exited; it is not unstarted afterwards -/
theorem WKind.pcs (h : WKind s s' w w') : w.pc ≠ .notStarted ∧ w.pc ≠ .exited ∧ w'.pc ≠ .notStarted := by
  wkcases h
  all_goals first
    | (rw [hpc, hpc']; simp; done)
    | (rw [hpc]; rcases hpc' with h | ⟨h, _⟩ <;> rw [h] <;> simp)

/-- how a worker step touches the queues, and whether the worker leaves -/
theorem WKind.acct (h : WKind s s' w w') :
    (gone w'.pc = false ∧ s'.replQ = s.replQ ∧ (s'.workQ = s.workQ ∨ ∃ i, s.workQ = some i :: s'.workQ) ∧
      gone w.pc = false) ∨
    (gone w'.pc = true ∧ w.pc = .get ∧ s.workQ = none :: s'.workQ ∧ s'.replQ = s.replQ ∧ gone w.pc = false) ∨
    (gone w'.pc = true ∧ w.pc = .retire ∧ s'.workQ = s.workQ ∧ s'.replQ = s.replQ ++ [some w.wid] ∧ gone w.pc = false) ∨
    (gone w'.pc = true ∧ gone w.pc = true ∧ s'.workQ = s.workQ ∧ s'.replQ = s.replQ) := by
  wkcases h
  · exact Or.inl ⟨by rw [hpc']; rfl, hpq, Or.inl hwq, by rw [hpc]; rfl⟩
  · exact Or.inl ⟨by rw [hpc']; rfl, hpq, Or.inl hwq, by rw [hpc]; rfl⟩
  · exact Or.inr (Or.inl ⟨by rw [hpc']; rfl, hpc, hwq, hpq, by rw [hpc]; rfl⟩)
  · exact Or.inl ⟨by rw [hpc']; rfl, hpq, Or.inr ⟨i, hwq⟩, by rw [hpc]; rfl⟩
  · exact Or.inl ⟨by rw [hpc']; rfl, hpq, Or.inl hwq, by rw [hpc]; rfl⟩
  · exact Or.inl ⟨by rw [hpc']; rfl, hpq, Or.inl hwq, by rw [hpc]; rfl⟩
  · exact Or.inl ⟨by rw [hpc']; rfl, hpq, Or.inl hwq, by rw [hpc]; rfl⟩
  · exact Or.inl ⟨by rw [hpc']; rfl, hpq, Or.inl hwq, by rw [hpc]; rfl⟩
  · exact Or.inl ⟨by rcases hpc' with h | ⟨h, _⟩ <;> rw [h] <;> rfl, hpq, Or.inl hwq, by rw [hpc]; rfl⟩
  · exact Or.inl ⟨by rcases hpc' with h | ⟨h, _⟩ <;> rw [h] <;> rfl, hpq, Or.inl hwq, by rw [hpc]; rfl⟩
  · exact Or.inr (Or.inr (Or.inl ⟨by rw [hpc']; rfl, hpc, hwq, hpq, by rw [hpc]; rfl⟩))
  · exact Or.inr (Or.inr (Or.inr ⟨by rw [hpc']; rfl, by rw [hpc]; rfl, hwq, hpq⟩))

theorem WKind.resQ_cases (h : WKind s s' w w') : s'.resQ = s.resQ ∨ ∃ i, s'.resQ = s.resQ ++ [some i] := by
  wkcases h
  all_goals first
    | exact Or.inl hrq
    | exact Or.inr ⟨i, hrq⟩


/-! ### the five parts of the invariant -/

theorem LockI_stepW (hL : LInv s) (hV : LockI s) (h : WStep s s' wid w w') : LockI s' := by
  have hmem := h.mem'
  have hcpc := h.same.cpc
  have hwm := h.mem
  obtain ⟨l1, l2, l3, l4⟩ := hV
  have hlc := h.kind.lock_cases
  constructor
  · intro t ht
    rcases hlc with ⟨e1, e2⟩ | ⟨e1, e2, e3, e4⟩ | ⟨e1, e2, e3⟩
    · rw [e1] at ht
      rcases l1 t ht with ⟨rfl, hc⟩ | ⟨x, hx, rfl, hin⟩
      · exact Or.inl ⟨rfl, by rw [hcpc]; exact hc⟩
      · right
        by_cases he : x.wid = w.wid
        · have := h.eq_of_wid hL hx he; subst this
          exact ⟨w', h.new_mem, by rw [h.wid'], by rw [e2]; exact hin⟩
        · exact ⟨x, h.old_mem hx he, rfl, hin⟩
    · rw [e2] at ht; cases ht
      exact Or.inr ⟨w', h.new_mem, by rw [h.wid'], e4⟩
    · rw [e1] at ht; cases ht
  · intro hc
    rw [hcpc] at hc
    have hl := l2 hc
    rcases hlc with ⟨e1, e2⟩ | ⟨e1, e2, e3, e4⟩ | ⟨e1, e2, e3⟩
    · rw [e1]; exact hl
    · rw [e1] at hl; cases hl
    · rw [l3 w hwm e2] at hl; cases hl
  · intro x hx hin
    rcases hmem x hx with rfl | ⟨hx0, hne⟩
    · rw [h.wid']
      rcases hlc with ⟨e1, e2⟩ | ⟨e1, e2, e3, e4⟩ | ⟨e1, e2, e3⟩
      · rw [e1]; exact l3 w hwm (by rw [← e2]; exact hin)
      · exact e2
      · rw [e3] at hin; cases hin
    · have hl := l3 x hx0 hin
      rcases hlc with ⟨e1, e2⟩ | ⟨e1, e2, e3, e4⟩ | ⟨e1, e2, e3⟩
      · rw [e1]; exact hl
      · rw [e1] at hl; cases hl
      · rw [l3 w hwm e2] at hl; simp only [Option.some.injEq, Tid.w.injEq] at hl; exact absurd hl.symm hne
  · intro x hx hp
    rcases hmem x hx with rfl | ⟨hx0, hne⟩
    · exact h.kind.held_ok (l4 w hwm) hp
    · exact l4 x hx0 hp

theorem ProcI_stepW (hV : ProcI s) (h : WStep s s' wid w w') : ProcI s' := by
  have hmem := h.mem'
  obtain ⟨p1, p2, p3, p4, p5, p6⟩ := hV
  constructor
  · intro k hk; rw [h.same.procs] at hk
    obtain ⟨x, hx, rfl⟩ := p1 k hk
    exact h.succ hx
  · rw [h.same.procs, h.same.cfg]; exact p2
  · rw [h.same.procs, h.same.cpc]; exact p3
  · rw [h.same.procs, h.same.rpc]; exact p4
  · intro x hx hb
    rcases hmem x hx with rfl | ⟨hx0, hne⟩
    · exact h.kind.bf_ok (p5 w h.mem) hb
    · exact p5 x hx0 hb
  · intro x hx hr
    rw [h.same.cfg]
    rcases hmem x hx with rfl | ⟨hx0, hne⟩
    · exact h.kind.retire_ok hr
    · exact p6 x hx0 hr

theorem pending_sub_of_replQ {s s' : St} (h1 : s'.rpc = s.rpc) (h2 : s'.replQ = s.replQ ∨ ∃ k, s'.replQ = s.replQ ++ [some k])
    {wid : Nat} (h : wid ∈ pending s) : wid ∈ pending s' := by
  unfold pending at *
  rw [h1]
  rcases h2 with h2 | ⟨k, h2⟩
  · rw [h2]; exact h
  · rw [h2, List.filterMap_append, ← List.append_assoc]
    exact List.mem_append_left _ h

theorem noneCount_append_some (q : List (Option Nat)) (k : Nat) : noneCount (q ++ [some k]) = noneCount q := by
  simp [noneCount, List.filter_append]

theorem noneCount_append_none (q : List (Option Nat)) : noneCount (q ++ [none]) = noneCount q + 1 := by
  simp [noneCount, List.filter_append]

theorem noneCount_cons_none (q : List (Option Nat)) : noneCount (none :: q) = noneCount q + 1 := by
  simp [noneCount]

theorem noneCount_cons_some (q : List (Option Nat)) (k : Nat) : noneCount (some k :: q) = noneCount q := by
  simp [noneCount]

theorem ReplI_stepW (hP : ProcI s) (hV : ReplI s) (h : WStep s s' wid w w') : ReplI s' := by
  have hmem := h.mem'
  obtain ⟨r1, r2, r3, r4, r5, r6⟩ := hV
  have hac := h.kind.acct
  have hrq : s'.replQ = s.replQ ∨ ∃ k, s'.replQ = s.replQ ++ [some k] := by
    rcases hac with ⟨_, e, _⟩ | ⟨_, _, _, e, _⟩ | ⟨_, _, _, e, _⟩ | ⟨_, _, _, e⟩
    · exact Or.inl e
    · exact Or.inl e
    · exact Or.inr ⟨_, e⟩
    · exact Or.inl e
  constructor
  · rw [h.same.cfg, h.same.cpc, h.same.rAlive]; exact r1
  · rw [h.same.rAlive, h.same.rpc]; exact r2
  · rw [h.same.cpc, h.same.rAlive, ← r3]
    rcases hrq with e | ⟨k, e⟩
    · rw [e]
    · rw [e, noneCount_append_some]
  · intro x hx hpc hin
    rw [h.same.cpc, h.same.cfg]
    rw [h.same.procs] at hin
    rcases hmem x hx with rfl | ⟨hx0, hne⟩
    · rcases hac with ⟨e, _⟩ | ⟨_, _, e, _⟩ | ⟨_, e1, _, e2, _⟩ | ⟨_, e1, _, _⟩
      · rw [e] at hpc; cases hpc
      · left
        cases hc : exitPhasePc s.cpc
        · exact absurd (by rw [e]; simp) (r5 hc)
        · rfl
      · right
        refine ⟨hP.retireF w h.mem e1, ?_⟩
        rw [h.wid']
        apply pending_mem_of_replQ
        rw [e2]; simp
      · rw [h.wid'] at hin ⊢
        rcases r4 w h.mem e1 hin with hh | ⟨hf, hp⟩
        · exact Or.inl hh
        · exact Or.inr ⟨hf, pending_sub_of_replQ h.same.rpc hrq hp⟩
    · rcases r4 x hx0 hpc hin with hh | ⟨hf, hp⟩
      · exact Or.inl hh
      · exact Or.inr ⟨hf, pending_sub_of_replQ h.same.rpc hrq hp⟩
  · intro hc; rw [h.same.cpc] at hc
    have := r5 hc
    rcases hac with ⟨_, _, e | ⟨i, e⟩, _⟩ | ⟨_, _, e, _⟩ | ⟨_, _, e, _⟩ | ⟨_, _, e, _⟩
    · rw [e]; exact this
    · rw [e] at this; intro hm; exact this (List.mem_cons_of_mem _ hm)
    · rw [e] at this; intro hm; exact this (List.mem_cons_of_mem _ hm)
    · rw [e]; exact this
    · rw [e]; exact this
  · rw [h.same.cpc, h.same.cfg]; exact r6

theorem bufferFull_congr {s s' : St} (h1 : s'.cfg = s.cfg) (h2 : s'.buffer = s.buffer) : bufferFull s' = bufferFull s := by
  unfold bufferFull; rw [h1, h2]

theorem ConsI_stepW (hV : ConsI s) (h : WStep s s' wid w w') : ConsI s' := by
  obtain ⟨c1, c2, c3, c4, c5, c6, c7⟩ := hV
  have hs := h.same
  constructor
  · rw [hs.cpc, hs.cur]; exact c1
  · rw [hs.cpc, hs.cur]; exact c2
  · rw [hs.cpc, hs.woken]; exact c3
  · rw [hs.cpc, hs.batch, hs.woken, hs.fpc, hs.finished, hs.fTotal]
    intro a b c d e
    have := c4 a b c d e
    rcases h.kind.resQ_cases with e | ⟨i, e⟩ <;> rw [e]
    · exact this
    · exact List.mem_append_left _ this
  · rw [hs.wf, hs.buffer]; exact c5
  · rw [hs.cpc, hs.fRun, bufferFull_congr hs.cfg hs.buffer]; exact c6
  · rw [hs.cpc, hs.fRun]; exact c7

theorem pending_length_append {s s' : St} (h1 : s'.rpc = s.rpc) (k : Nat) (h2 : s'.replQ = s.replQ ++ [some k]) :
    (pending s').length = (pending s).length + 1 := by
  unfold pending
  rw [h1, h2, List.filterMap_append]
  simp [Nat.add_assoc]

theorem stopsSent_congr {s s' : St} (h1 : s'.cpc = s.cpc) (h2 : s'.procs = s.procs) : stopsSent s' = stopsSent s := by
  unfold stopsSent; rw [h1, h2]

theorem CntI_stepW (hL : LInv s) (hP : ProcI s) (hV : CntI s) (h : WStep s s' wid w w') : CntI s' := by
  obtain ⟨k1, k2, k3, k4⟩ := hV
  have hs := h.same
  have hlive := liveCnt_upd hL h.mem h.workers
  have hss := stopsSent_congr hs.cpc hs.procs
  have hac := h.kind.acct
  rcases hac with ⟨e1, e2, e3, eg⟩ | ⟨e1, e0, e2, e3, eg⟩ | ⟨e1, e0, e2, e3, eg⟩ | ⟨e1, eg, e2, e3⟩
  · simp only [e1, eg, Bool.false_eq_true, if_false] at hlive
    have hp : pending s' = pending s := pending_congr hs.rpc (by rw [e2])
    have hn : noneCount s'.workQ = noneCount s.workQ := by
      rcases e3 with e | ⟨i, e⟩
      · rw [e]
      · rw [e, noneCount_cons_some]
    constructor
    · rw [hp, hs.procs]; omega
    · rw [hs.cpc, hss, hn, hs.procs]; intro hc; have := k2 hc; omega
    · rw [hs.cpc, hss, hn]; exact k3
    · rw [hs.cfg, hss, hn, hs.procs]; intro hc; have := k4 hc; omega
  · simp only [e1, eg, Bool.false_eq_true, if_false, if_true] at hlive
    have hp : pending s' = pending s := pending_congr hs.rpc (by rw [e3])
    have hn : noneCount s.workQ = noneCount s'.workQ + 1 := by rw [e2, noneCount_cons_none]
    constructor
    · rw [hp, hs.procs]; omega
    · rw [hs.cpc, hss, hs.procs]; intro hc; have := k2 hc; omega
    · rw [hs.cpc, hss]; intro hc; have := k3 hc; omega
    · rw [hs.cfg, hss, hs.procs]; intro hc; have := k4 hc; omega
  · simp only [e1, eg, Bool.false_eq_true, if_false, if_true] at hlive
    have hp := pending_length_append hs.rpc _ e3
    have hfac := hP.retireF w h.mem e0
    constructor
    · rw [hp, hs.procs]; omega
    · rw [hs.cpc, hss, e2, hs.procs]; intro hc; have := k2 hc; omega
    · rw [hs.cpc, hss, e2]; exact k3
    · rw [hs.cfg, hfac]; intro hc; cases hc
  · -- `end()` of a retired worker: nothing that is counted changes
    simp only [e1, eg, if_true] at hlive
    have hp : pending s' = pending s := pending_congr hs.rpc (by rw [e3])
    constructor
    · rw [hp, hs.procs]; omega
    · rw [hs.cpc, hss, e2, hs.procs]; intro hc; have := k2 hc; omega
    · rw [hs.cpc, hss, e2]; exact k3
    · rw [hs.cfg, hss, e2, hs.procs]; intro hc; have := k4 hc; omega

theorem LiveInv_stepW (hf : NoFaults s.cfg) (hwc : WellCfg s.cfg) (hL : LInv s) (hV : LiveInv s)
    (h : stepW s wid = some s') : LiveInv s' := by
  obtain ⟨w, w', hst⟩ := stepW_cases hf hwc hL h
  exact ⟨LockI_stepW hL hV.lk hst, ProcI_stepW hV.pr hst, ReplI_stepW hV.pr hV.rp hst, ConsI_stepW hV.cs hst,
    CntI_stepW hL hV.pr hV.ct hst⟩

end WindVerif.Pool
