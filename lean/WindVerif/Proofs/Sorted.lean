import WindVerif.Model.Sorted
/-! Theorems about the model of `SortedSet` / `SortedMap`. -/
namespace WindVerif.Sorted

/-- strictly ascending: sorted and duplicate free -/
def Strict (l : List Int) : Prop := l.Pairwise (· < ·)

/-- two strictly ascending lists with the same elements are the same list: the iteration order of a sorted set is
determined by its content -/
theorem strict_unique (a b : List Int) (ha : Strict a) (hb : Strict b) (h : ∀ y, y ∈ a ↔ y ∈ b) : a = b := by
  unfold Strict at *
  induction a generalizing b with
  | nil =>
    cases b with
    | nil => rfl
    | cons y b => exact absurd ((h y).2 (by simp)) (by simp)
  | cons x a ih =>
    cases b with
    | nil => exact absurd ((h x).1 (by simp)) (by simp)
    | cons y b =>
      rw [List.pairwise_cons] at ha hb
      have hxy : x = y := by
        have h1 := (h x).1 (by simp)
        have h2 := (h y).2 (by simp)
        simp only [List.mem_cons] at h1 h2
        rcases h1 with h1 | h1
        · exact h1
        · rcases h2 with h2 | h2
          · exact h2.symm
          · have := ha.1 y h2; have := hb.1 x h1; omega
      subst hxy
      congr 1
      apply ih b ha.2 hb.2
      intro z
      have hz := h z
      simp only [List.mem_cons] at hz
      constructor
      · intro hm
        have := ha.1 z hm
        rcases hz.1 (Or.inr hm) with h3 | h3
        · omega
        · exact h3
      · intro hm
        have := hb.1 z hm
        rcases hz.2 (Or.inr hm) with h3 | h3
        · omega
        · exact h3

/-- split of a strictly ascending list around `x` -/
theorem strict_split (s : List Int) (x : Int) (h : Strict s) :
    s.filter (· < x) ++ s.filter (x ≤ ·) = s := by
  unfold Strict at h
  induction s with
  | nil => rfl
  | cons y r ih =>
    rw [List.pairwise_cons] at h
    by_cases hy : y < x
    · have : ¬ x ≤ y := by omega
      simp [hy, this]
      exact ih h.2
    · have hx : x ≤ y := by omega
      have h1 : r.filter (· < x) = [] := by
        simp only [List.filter_eq_nil_iff, decide_eq_true_eq]
        intro a ha; have := h.1 a ha; omega
      have h2 : r.filter (x ≤ ·) = r := by
        simp only [List.filter_eq_self, decide_eq_true_eq]
        intro a ha; have := h.1 a ha; omega
      simp [hy, hx, h1, h2]

theorem bisectLoop_spec (a : List Int) (x : Int) (hs : Strict a) :
    ∀ fuel lo hi, lo ≤ hi → hi ≤ a.length → hi - lo < fuel →
      (∀ i (h : i < a.length), i < lo → a[i] < x) →
      (∀ i (h : i < a.length), hi ≤ i → x ≤ a[i]) →
      bisectLoop a x fuel lo hi ≤ a.length ∧
      (∀ i (h : i < a.length), i < bisectLoop a x fuel lo hi → a[i] < x) ∧
      (∀ i (h : i < a.length), bisectLoop a x fuel lo hi ≤ i → x ≤ a[i]) := by
  have hp := List.pairwise_iff_getElem.1 hs
  intro fuel
  induction fuel with
  | zero => intro lo hi _ _ h; omega
  | succ fuel ih =>
    intro lo hi h1 h2 h3 hlo hhi
    unfold bisectLoop
    by_cases hlt : lo < hi
    · simp only [hlt, if_true]
      have hmid : (lo + hi) / 2 < a.length := by omega
      rw [List.getElem?_eq_getElem hmid]
      simp only
      by_cases hc : a[(lo + hi) / 2] < x
      · simp only [hc, if_true]
        apply ih
        · omega
        · exact h2
        · omega
        · intro i hi' hi2
          by_cases heq : i = (lo + hi) / 2
          · subst heq; exact hc
          · have := hp i ((lo + hi) / 2) hi' hmid (by omega); omega
        · exact hhi
      · simp only [hc, if_false]
        apply ih
        · omega
        · omega
        · omega
        · exact hlo
        · intro i hi' hi2
          by_cases heq : i = (lo + hi) / 2
          · subst heq; omega
          · have := hp ((lo + hi) / 2) i hmid hi' (by omega); omega
    · simp only [hlt, if_false]
      have : lo = hi := by omega
      subst this
      exact ⟨h2, hlo, hhi⟩

theorem filter_length_of_index (x : Int) : ∀ (a : List Int) (r : Nat), r ≤ a.length →
    (∀ i (h : i < a.length), i < r → a[i] < x) →
    (∀ i (h : i < a.length), r ≤ i → x ≤ a[i]) → (a.filter (· < x)).length = r := by
  intro a
  induction a with
  | nil => intro r h _ _; simp at h; simp [h]
  | cons y t ih =>
    intro r hr h1 h2
    cases r with
    | zero =>
      have : (y :: t).filter (· < x) = [] := by
        simp only [List.filter_eq_nil_iff, decide_eq_true_eq]
        intro b hb
        obtain ⟨i, hi, rfl⟩ := List.getElem_of_mem hb
        have := h2 i hi (by omega); omega
      simp [this]
    | succ r =>
      have hy : y < x := h1 0 (by simp) (by omega)
      simp only [List.filter_cons, hy, decide_true, if_true, List.length_cons]
      congr 1
      apply ih r (by simpa using hr)
      · intro i hi hir
        have := h1 (i+1) (by simp; omega) (by omega)
        simpa using this
      · intro i hi hir
        have := h2 (i+1) (by simp; omega) (by omega)
        simpa using this

/-- on a strictly ascending list the real `bisect_left` loop returns the number of smaller elements -/
theorem bisect_exact (a : List Int) (x : Int) (h : Strict a) :
    bisectLeftNum a x = (a.filter (· < x)).length := by
  unfold bisectLeftNum
  have := bisectLoop_spec a x h (a.length + 1) 0 a.length (by omega) (by omega) (by omega)
    (by intro i _ hi; omega) (by intro i h hi; omega)
  exact (filter_length_of_index x a _ this.1 this.2.1 this.2.2).symm


theorem strict_mid {L G : List Int} {x : Int} (hL : ∀ y ∈ L, y < x) (hG : ∀ y ∈ G, x < y)
    (sL : Strict L) (sG : Strict G) : Strict (L ++ x :: G) ∧ Strict (L ++ G) := by
  unfold Strict at *
  constructor
  · rw [List.pairwise_append, List.pairwise_cons]
    refine ⟨sL, ⟨hG, sG⟩, ?_⟩
    intro a ha b hb
    rw [List.mem_cons] at hb
    rcases hb with rfl | hb
    · exact hL a ha
    · have := hL a ha; have := hG b hb; omega
  · rw [List.pairwise_append]
    refine ⟨sL, sG, ?_⟩
    intro a ha b hb
    have := hL a ha; have := hG b hb; omega

/-- three-way split of a strictly ascending list around `x` -/
theorem strict_split3 (s : List Int) (x : Int) (h : Strict s) :
    ∃ L G, (∀ y ∈ L, y < x) ∧ (∀ y ∈ G, x < y) ∧ Strict L ∧ Strict G ∧ s.filter (· < x) = L ∧
      ((x ∈ s ∧ s = L ++ x :: G) ∨ (x ∉ s ∧ s = L ++ G)) := by
  unfold Strict at *
  induction s with
  | nil => exact ⟨[], [], by simp, by simp, by simp, by simp, rfl, Or.inr ⟨by simp, rfl⟩⟩
  | cons y r ih =>
    rw [List.pairwise_cons] at h
    rcases Int.lt_trichotomy y x with hy | hy | hy
    · obtain ⟨L, G, hL, hG, sL, sG, hf, hc⟩ := ih h.2
      refine ⟨y :: L, G, ?_, hG, ?_, sG, ?_, ?_⟩
      · intro z hz; rw [List.mem_cons] at hz; rcases hz with rfl | hz
        · exact hy
        · exact hL z hz
      · rw [List.pairwise_cons]; refine ⟨?_, sL⟩
        intro z hz; apply h.1; rw [← hf] at hz; exact (List.mem_filter.1 hz).1
      · simp [hy, hf]
      · rcases hc with ⟨hm, he⟩ | ⟨hm, he⟩
        · exact Or.inl ⟨List.mem_cons_of_mem _ hm, by rw [he]; rfl⟩
        · refine Or.inr ⟨?_, by rw [he]; rfl⟩
          rw [List.mem_cons]; rintro (rfl | h'); omega; exact hm h'
    · subst hy
      refine ⟨[], r, by simp, h.1, by simp, h.2, ?_, Or.inl ⟨by simp, rfl⟩⟩
      simp only [List.filter_cons, Int.lt_irrefl, decide_false, Bool.false_eq_true, if_false,
        List.filter_eq_nil_iff, decide_eq_true_eq]
      intro a ha; have := h.1 a ha; omega
    · refine ⟨[], y :: r, by simp, ?_, by simp, List.pairwise_cons.2 h, ?_, Or.inr ⟨?_, rfl⟩⟩
      · intro z hz; rw [List.mem_cons] at hz; rcases hz with rfl | hz
        · exact hy
        · have := h.1 z hz; omega
      · simp only [List.filter_eq_nil_iff, decide_eq_true_eq]
        intro a ha; rw [List.mem_cons] at ha; rcases ha with rfl | ha
        · omega
        · have := h.1 a ha; omega
      · rw [List.mem_cons]; rintro (rfl | h'); omega; have := h.1 x h'; omega

theorem insertionsIndex_num (a : List Int) (x : Int) (h : Strict a) :
    insertionsIndex a (.num x) = .ok ((a.filter (· < x)).length, decide (x ∈ a)) := by
  unfold insertionsIndex bisectLeft
  simp only [bisect_exact a x h]
  obtain ⟨L, G, hL, hG, sL, sG, hf, hc⟩ := strict_split3 a x h
  rw [hf]
  rcases hc with ⟨hm, rfl⟩ | ⟨hm, rfl⟩
  · simp
  · rw [List.getElem?_append_right (Nat.le_refl _), Nat.sub_self]
    cases G with
    | nil => simpa using hm
    | cons g G =>
      have : g ≠ x := by have := hG g (by simp); omega
      simp [hm, this]

/-! ### SortedSet -/

theorem setAdd_eq (s : List Int) (v : Int) (h : Strict s) :
    ∃ L G, (∀ y ∈ L, y < v) ∧ (∀ y ∈ G, v < y) ∧ Strict L ∧ Strict G ∧
      ((v ∈ s ∧ s = L ++ v :: G ∧ setAdd s v = s) ∨ (v ∉ s ∧ s = L ++ G ∧ setAdd s v = L ++ v :: G)) := by
  obtain ⟨L, G, hL, hG, sL, sG, hf, hc⟩ := strict_split3 s v h
  refine ⟨L, G, hL, hG, sL, sG, ?_⟩
  unfold setAdd
  rw [insertionsIndex_num s v h, hf]
  rcases hc with ⟨hm, he⟩ | ⟨hm, he⟩
  · exact Or.inl ⟨hm, he, by simp [hm]⟩
  · refine Or.inr ⟨hm, he, ?_⟩
    simp only [hm, decide_false]
    subst he
    simp [insertAt]

theorem setDiscard_eq (s : List Int) (v : Int) (h : Strict s) :
    ∃ L G, (∀ y ∈ L, y < v) ∧ (∀ y ∈ G, v < y) ∧ Strict L ∧ Strict G ∧
      ((v ∈ s ∧ s = L ++ v :: G ∧ setDiscard s v = L ++ G) ∨ (v ∉ s ∧ s = L ++ G ∧ setDiscard s v = s)) := by
  obtain ⟨L, G, hL, hG, sL, sG, hf, hc⟩ := strict_split3 s v h
  refine ⟨L, G, hL, hG, sL, sG, ?_⟩
  unfold setDiscard
  rw [insertionsIndex_num s v h, hf]
  rcases hc with ⟨hm, he⟩ | ⟨hm, he⟩
  · refine Or.inl ⟨hm, he, ?_⟩
    simp only [hm, decide_true]
    subst he
    rw [List.eraseIdx_append_of_length_le (Nat.le_refl _)]
    simp
  · exact Or.inr ⟨hm, he, by simp [hm]⟩

theorem setAdd_strict (s : List Int) (v : Int) (h : Strict s) : Strict (setAdd s v) := by
  obtain ⟨L, G, hL, hG, sL, sG, hc⟩ := setAdd_eq s v h
  rcases hc with ⟨_, _, he⟩ | ⟨_, _, he⟩
  · rw [he]; exact h
  · rw [he]; exact (strict_mid hL hG sL sG).1

theorem setAdd_mem (s : List Int) (v y : Int) (h : Strict s) : y ∈ setAdd s v ↔ (y = v ∨ y ∈ s) := by
  obtain ⟨L, G, hL, hG, sL, sG, hc⟩ := setAdd_eq s v h
  rcases hc with ⟨hm, _, he⟩ | ⟨_, hs, he⟩
  · rw [he]; constructor
    · exact Or.inr
    · rintro (rfl | h'); exact hm; exact h'
  · rw [he, hs]; simp only [List.mem_append, List.mem_cons]
    constructor
    · rintro (h' | h' | h')
      · exact Or.inr (Or.inl h')
      · exact Or.inl h'
      · exact Or.inr (Or.inr h')
    · rintro (h' | h' | h')
      · exact Or.inr (Or.inl h')
      · exact Or.inl h'
      · exact Or.inr (Or.inr h')

theorem setDiscard_strict (s : List Int) (v : Int) (h : Strict s) : Strict (setDiscard s v) := by
  obtain ⟨L, G, hL, hG, sL, sG, hc⟩ := setDiscard_eq s v h
  rcases hc with ⟨_, _, he⟩ | ⟨_, _, he⟩
  · rw [he]; exact (strict_mid hL hG sL sG).2
  · rw [he]; exact h

theorem setDiscard_mem (s : List Int) (v y : Int) (h : Strict s) : y ∈ setDiscard s v ↔ (y ≠ v ∧ y ∈ s) := by
  obtain ⟨L, G, hL, hG, sL, sG, hc⟩ := setDiscard_eq s v h
  rcases hc with ⟨_, hs, he⟩ | ⟨hm, _, he⟩
  · rw [he, hs]; simp only [List.mem_append, List.mem_cons]
    constructor
    · rintro (h' | h')
      · have := hL y h'; exact ⟨by omega, Or.inl h'⟩
      · have := hG y h'; exact ⟨by omega, Or.inr (Or.inr h')⟩
    · rintro ⟨hne, h' | h' | h'⟩
      · exact Or.inl h'
      · exact absurd h' hne
      · exact Or.inr h'
  · rw [he]; constructor
    · intro h'; exact ⟨by rintro rfl; exact hm h', h'⟩
    · exact fun h' => h'.2

theorem setContains_num (s : List Int) (v : Int) (h : Strict s) : setContains s (.num v) = decide (v ∈ s) := by
  unfold setContains
  rw [insertionsIndex_num s v h]

/-- a probe that cannot be ordered against the content is reported absent (and nothing is modified: `setContains` is a
pure function of the content) -/
theorem setContains_foreign (s : List Int) : setContains s .foreign = false := by
  unfold setContains insertionsIndex bisectLeft
  cases s <;> simp

theorem setRemove_spec (s : List Int) (v : Int) (h : Strict s) :
    (v ∈ s → setRemove s v = .ok (setDiscard s v)) ∧ (v ∉ s → setRemove s v = .error .keyError) := by
  unfold setRemove
  rw [setContains_num s v h]
  constructor <;> intro hm <;> simp [hm]

theorem setPop_spec (s : List Int) (h : Strict s) :
    match s with
    | [] => setPop s = .error .keyError
    | v :: r => setPop s = .ok (r, v) := by
  cases s with
  | nil => rfl
  | cons v r =>
    simp only [setPop, setDiscard]
    rw [insertionsIndex_num _ v h]
    have h' := List.pairwise_cons.1 h
    have : r.filter (· < v) = [] := by
      simp only [List.filter_eq_nil_iff, decide_eq_true_eq]
      intro a ha; have := h'.1 a ha; omega
    simp [this]

theorem setClear_spec (s : List Int) (h : Strict s) : setClear (s.length + 1) s = [] := by
  induction s with
  | nil => rfl
  | cons v r ih =>
    have hp := setPop_spec (v :: r) h
    simp only at hp
    rw [List.length_cons, setClear, hp]
    exact ih (List.pairwise_cons.1 h).2


/-! ### setInit -/

theorem mem_dedupAdj (l : List Int) (y : Int) : y ∈ dedupAdj l ↔ y ∈ l := by
  fun_induction dedupAdj l with
  | case1 => simp
  | case2 x => simp
  | case3 y' r ih => rw [ih]; simp
  | case4 x y' r hxy ih => rw [List.mem_cons, ih, List.mem_cons (a := y) (b := x)]

theorem dedupAdj_strict (l : List Int) (h : l.Pairwise (· ≤ ·)) : Strict (dedupAdj l) := by
  unfold Strict
  fun_induction dedupAdj l with
  | case1 => simp
  | case2 x => simp
  | case3 y r ih => exact ih (List.pairwise_cons.1 h).2
  | case4 x y r hxy ih =>
    have h' := List.pairwise_cons.1 h
    rw [List.pairwise_cons]
    refine ⟨?_, ih h'.2⟩
    intro z hz
    rw [mem_dedupAdj] at hz
    have h1 := h'.1 y (by simp)
    have h2 := List.pairwise_cons.1 h'.2
    rw [List.mem_cons] at hz
    rcases hz with rfl | hz
    · omega
    · have := h2.1 z hz; omega

theorem setInit_strict (vals : List Int) : Strict (setInit vals) := by
  unfold setInit
  apply dedupAdj_strict
  have := List.pairwise_mergeSort (le := fun (a b : Int) => decide (a ≤ b))
    (by intro a b c; simp only [decide_eq_true_eq]; omega)
    (by intro a b; simp only [Bool.or_eq_true, decide_eq_true_eq]; omega) vals
  exact this.imp (by intro a b; simp)

theorem setInit_mem (vals : List Int) (y : Int) : y ∈ setInit vals ↔ y ∈ vals := by
  unfold setInit
  rw [mem_dedupAdj, List.mem_mergeSort]

/-! ### SortedMap -/

def MapWf (m : SMap) : Prop := Strict m.keys ∧ m.vals.length = m.keys.length

/-- the mapping a `SortedMap` state stands for -/
def mapLookup (m : SMap) (k : Int) : Option Nat := (m.keys.zip m.vals).lookup k

theorem lookup_zip_none {L : List Int} {VL : List Nat} {k : Int} (h : k ∉ L) : (L.zip VL).lookup k = none := by
  rw [List.lookup_eq_none_iff]
  intro p hp
  have := (List.of_mem_zip (a := p.1) (b := p.2) hp).1
  simp only [bne_iff_ne, ne_eq]
  rintro rfl
  exact h this

theorem lookup_mid {L G : List Int} {VL VG : List Nat} {k : Int} (w : Nat) (k' : Int)
    (hlen : L.length = VL.length) (hk : k ∉ L) :
    ((L ++ k :: G).zip (VL ++ w :: VG)).lookup k' =
      if k' = k then some w else ((L ++ G).zip (VL ++ VG)).lookup k' := by
  rw [List.zip_append hlen, List.zip_append hlen, List.lookup_append, List.lookup_append, List.zip_cons_cons,
    List.lookup_cons]
  by_cases he : k' = k
  · subst he; simp [lookup_zip_none hk]
  · have : (k' == k) = false := by simpa using he
    simp [he, this]

theorem lookup_nomid {L G : List Int} {VL VG : List Nat} {k : Int} (hk : k ∉ L) (hk' : k ∉ G) :
    ((L ++ G).zip (VL ++ VG)).lookup k = none := by
  apply lookup_zip_none
  simp [hk, hk']

/-- split of a well-formed map state around `k` -/
theorem map_split (keys : List Int) (vals : List Nat) (k : Int) (h : MapWf ⟨keys, vals⟩) :
    ∃ L G VL VG, L.length = VL.length ∧ G.length = VG.length ∧ (∀ y ∈ L, y < k) ∧ (∀ y ∈ G, k < y) ∧
      Strict L ∧ Strict G ∧ keys.filter (· < k) = L ∧ k ∉ L ∧ k ∉ G ∧
      ((∃ w, k ∈ keys ∧ keys = L ++ k :: G ∧ vals = VL ++ w :: VG) ∨
       (k ∉ keys ∧ keys = L ++ G ∧ vals = VL ++ VG)) := by
  obtain ⟨hs, hl⟩ := h
  simp only at hs hl
  obtain ⟨L, G, hL, hG, sL, sG, hf, hc⟩ := strict_split3 keys k hs
  have hkL : k ∉ L := fun hm => by have := hL k hm; omega
  have hkG : k ∉ G := fun hm => by have := hG k hm; omega
  rcases hc with ⟨hm, he⟩ | ⟨hm, he⟩
  · have hlen : L.length < vals.length := by rw [hl, he]; simp
    refine ⟨L, G, vals.take L.length, vals.drop (L.length + 1), ?_, ?_, hL, hG, sL, sG, hf, hkL, hkG,
      Or.inl ⟨vals[L.length], hm, he, ?_⟩⟩
    · rw [List.length_take]; omega
    · rw [List.length_drop, hl, he]; simp; omega
    · rw [List.getElem_cons_drop, List.take_append_drop]
  · refine ⟨L, G, vals.take L.length, vals.drop L.length, ?_, ?_, hL, hG, sL, sG, hf, hkL, hkG,
      Or.inr ⟨hm, he, (List.take_append_drop _ _).symm⟩⟩
    · rw [List.length_take, hl, he]; simp
    · rw [List.length_drop, hl, he]; simp


theorem mapIndex_num (m : SMap) (k : Int) (h : MapWf m) :
    mapIndex m (.num k) = .ok ((m.keys.filter (· < k)).length, decide (k ∈ m.keys)) := by
  unfold mapIndex; rw [insertionsIndex_num _ _ h.1]

theorem mapIndex_foreign (m : SMap) : mapIndex m .foreign = .ok (0, false) ∨ mapIndex m .foreign = .error .keyError := by
  unfold mapIndex insertionsIndex bisectLeft
  cases m.keys <;> simp

theorem mapGet_num (m : SMap) (k : Int) (h : MapWf m) :
    mapGet m (.num k) = (match mapLookup m k with | some v => .ok v | none => .error .keyError) := by
  obtain ⟨keys, vals⟩ := m
  obtain ⟨L, G, VL, VG, hl1, hl2, hL, hG, sL, sG, hf, hkL, hkG, hc⟩ := map_split keys vals k h
  unfold mapGet
  rw [mapIndex_num _ _ h]
  simp only [hf]
  unfold mapLookup
  rcases hc with ⟨w, hm, rfl, rfl⟩ | ⟨hm, rfl, rfl⟩
  · simp only [lookup_mid w k hl1 hkL, hm, decide_true, if_true, hl1]
    simp
  · simp only [lookup_nomid hkL hkG, hm, decide_false]

theorem mapGet_foreign (m : SMap) : mapGet m .foreign = .error .keyError := by
  unfold mapGet
  rcases mapIndex_foreign m with h | h <;> rw [h]

theorem mapContains_num (m : SMap) (k : Int) (h : MapWf m) : mapContains m (.num k) = (mapLookup m k).isSome := by
  unfold mapContains
  rw [mapGet_num m k h]
  cases mapLookup m k <;> rfl

theorem mapContains_foreign (m : SMap) : mapContains m .foreign = false := by
  unfold mapContains; rw [mapGet_foreign]

theorem mapDel_foreign (m : SMap) : mapDel m .foreign = .error .keyError := by
  unfold mapDel
  rcases mapIndex_foreign m with h | h <;> rw [h]

theorem mapPop_foreign (m : SMap) : mapPop m .foreign = .error .keyError := by
  unfold mapPop; rw [mapGet_foreign]

theorem mapSet_eq (keys : List Int) (vals : List Nat) (k : Int) (v : Nat) (h : MapWf ⟨keys, vals⟩) :
    ∃ L G VL VG, L.length = VL.length ∧ G.length = VG.length ∧ (∀ y ∈ L, y < k) ∧ (∀ y ∈ G, k < y) ∧
      Strict L ∧ Strict G ∧ k ∉ L ∧ k ∉ G ∧ mapSet ⟨keys, vals⟩ k v = ⟨L ++ k :: G, VL ++ v :: VG⟩ ∧
      ((∃ w, keys = L ++ k :: G ∧ vals = VL ++ w :: VG) ∨ (keys = L ++ G ∧ vals = VL ++ VG)) := by
  obtain ⟨L, G, VL, VG, hl1, hl2, hL, hG, sL, sG, hf, hkL, hkG, hc⟩ := map_split keys vals k h
  refine ⟨L, G, VL, VG, hl1, hl2, hL, hG, sL, sG, hkL, hkG, ?_, ?_⟩
  · unfold mapSet
    rw [insertionsIndex_num _ _ h.1]
    simp only [hf]
    rcases hc with ⟨w, hm, rfl, rfl⟩ | ⟨hm, rfl, rfl⟩
    · simp only [hm, decide_true, hl1]
      simp
    · simp only [hm, decide_false, insertAt, hl1]
      simp [← hl1]
  · rcases hc with ⟨w, hm, h1, h2⟩ | ⟨hm, h1, h2⟩
    · exact Or.inl ⟨w, h1, h2⟩
    · exact Or.inr ⟨h1, h2⟩

theorem mapSet_wf (m : SMap) (k : Int) (v : Nat) (h : MapWf m) : MapWf (mapSet m k v) := by
  obtain ⟨keys, vals⟩ := m
  obtain ⟨L, G, VL, VG, hl1, hl2, hL, hG, sL, sG, hkL, hkG, he, _⟩ := mapSet_eq keys vals k v h
  rw [he]
  refine ⟨(strict_mid hL hG sL sG).1, ?_⟩
  simp [hl1, hl2]

theorem mapSet_lookup (m : SMap) (k k' : Int) (v : Nat) (h : MapWf m) :
    mapLookup (mapSet m k v) k' = if k' = k then some v else mapLookup m k' := by
  obtain ⟨keys, vals⟩ := m
  obtain ⟨L, G, VL, VG, hl1, hl2, hL, hG, sL, sG, hkL, hkG, he, hc⟩ := mapSet_eq keys vals k v h
  rw [he]
  unfold mapLookup
  simp only [lookup_mid v k' hl1 hkL]
  rcases hc with ⟨w, rfl, rfl⟩ | ⟨rfl, rfl⟩
  · rw [lookup_mid w k' hl1 hkL]
    split <;> rfl
  · rfl

theorem mapDel_spec (m : SMap) (k : Int) (h : MapWf m) :
    match mapLookup m k with
    | some _ => ∃ m', mapDel m (.num k) = .ok m' ∧ MapWf m' ∧
        ∀ k', mapLookup m' k' = if k' = k then none else mapLookup m k'
    | none => mapDel m (.num k) = .error .keyError := by
  obtain ⟨keys, vals⟩ := m
  obtain ⟨L, G, VL, VG, hl1, hl2, hL, hG, sL, sG, hf, hkL, hkG, hc⟩ := map_split keys vals k h
  unfold mapDel
  rw [mapIndex_num _ _ h]
  simp only [hf]
  rcases hc with ⟨w, hm, rfl, rfl⟩ | ⟨hm, rfl, rfl⟩
  · have hlk : mapLookup ⟨L ++ k :: G, VL ++ w :: VG⟩ k = some w := by
      unfold mapLookup; simp only [lookup_mid w k hl1 hkL, if_true]
    rw [hlk]
    simp only [hm, decide_true]
    refine ⟨_, rfl, ?_, ?_⟩
    · rw [List.eraseIdx_append_of_length_le (Nat.le_refl _), hl1,
        List.eraseIdx_append_of_length_le (Nat.le_refl _)]
      simp only [Nat.sub_self, List.eraseIdx_cons_zero]
      refine ⟨(strict_mid hL hG sL sG).2, ?_⟩
      simp [hl1, hl2]
    · intro k'
      rw [List.eraseIdx_append_of_length_le (Nat.le_refl _), hl1,
        List.eraseIdx_append_of_length_le (Nat.le_refl _)]
      simp only [Nat.sub_self, List.eraseIdx_cons_zero]
      unfold mapLookup
      simp only [lookup_mid w k' hl1 hkL]
      split
      · next he => subst he; exact lookup_nomid hkL hkG
      · rfl
  · have hlk : mapLookup ⟨L ++ G, VL ++ VG⟩ k = none := lookup_nomid hkL hkG
    rw [hlk]
    simp only [hm, decide_false]

theorem mapPop_spec (m : SMap) (k : Int) (h : MapWf m) :
    match mapLookup m k with
    | some v => ∃ m', mapPop m (.num k) = .ok (m', v) ∧ mapDel m (.num k) = .ok m'
    | none => mapPop m (.num k) = .error .keyError := by
  have hg := mapGet_num m k h
  have hd := mapDel_spec m k h
  unfold mapPop
  rw [hg]
  cases hlk : mapLookup m k with
  | none => rfl
  | some v =>
    rw [hlk] at hd
    obtain ⟨m', hd1, _⟩ := hd
    exact ⟨m', by simp only [hd1], hd1⟩

/-- `popitem` removes the smallest key -/
theorem mapPopitem_spec (m : SMap) (h : MapWf m) :
    match m.keys, m.vals with
    | k :: ks, v :: vs => mapPopitem m = .ok (⟨ks, vs⟩, k, v)
    | _, _ => mapPopitem m = .error .keyError := by
  obtain ⟨keys, vals⟩ := m
  cases keys with
  | nil => rfl
  | cons k ks =>
    cases vals with
    | nil => exact absurd h.2 (by simp)
    | cons v vs =>
      simp only
      have hs := List.pairwise_cons.1 h.1
      have hf : (k :: ks).filter (· < k) = [] := by
        simp only [List.filter_eq_nil_iff, decide_eq_true_eq]
        intro a ha; rw [List.mem_cons] at ha; rcases ha with rfl | ha
        · omega
        · have := hs.1 a ha; omega
      have hg : mapGet ⟨k :: ks, v :: vs⟩ (.num k) = .ok v := by
        rw [mapGet_num _ _ h]; simp [mapLookup]
      have hd : mapDel ⟨k :: ks, v :: vs⟩ (.num k) = .ok ⟨ks, vs⟩ := by
        unfold mapDel
        rw [mapIndex_num _ _ h]
        simp only [hf]
        simp
      simp only [mapPopitem, mapPop, hg, hd]

theorem mapSetdefault_spec (m : SMap) (k : Int) (v : Nat) (h : MapWf m) :
    match mapLookup m k with
    | some w => mapSetdefault m k v = (m, w)
    | none => mapSetdefault m k v = (mapSet m k v, v) := by
  unfold mapSetdefault
  rw [mapGet_num m k h]
  cases mapLookup m k <;> rfl

theorem mapUpdate_wf (m : SMap) (ps : List (Int × Nat)) (h : MapWf m) : MapWf (mapUpdate m ps) := by
  induction ps generalizing m with
  | nil => exact h
  | cons p r ih =>
    obtain ⟨k, v⟩ := p
    exact ih _ (mapSet_wf m k v h)

theorem mapUpdate_lookup (m : SMap) (ps : List (Int × Nat)) (k : Int) (h : MapWf m) :
    mapLookup (mapUpdate m ps) k = (match ps.reverse.lookup k with | some v => some v | none => mapLookup m k) := by
  induction ps generalizing m with
  | nil => rfl
  | cons p r ih =>
    obtain ⟨k0, v0⟩ := p
    rw [mapUpdate, ih _ (mapSet_wf m k0 v0 h), mapSet_lookup m k0 k v0 h, List.reverse_cons, List.lookup_append]
    cases r.reverse.lookup k with
    | some w => rfl
    | none =>
      by_cases he : k = k0
      · subst he; simp
      · have : (k == k0) = false := by simpa using he
        simp [he, List.lookup_cons, this]

/-- iteration lists the items in strictly ascending key order -/
theorem mapItems_spec (m : SMap) (h : MapWf m) :
    (mapItems m).map (·.1) = m.keys ∧ (mapItems m).map (·.2) = m.vals ∧ Strict ((mapItems m).map (·.1)) := by
  have h1 : (mapItems m).map (·.1) = m.keys := List.map_fst_zip (Nat.le_of_eq h.2.symm)
  refine ⟨h1, List.map_snd_zip (Nat.le_of_eq h.2), ?_⟩
  rw [h1]; exact h.1


/-! ### mapInit -/

theorem lookup_map_replace (acc : List (Int × Nat)) (k0 : Int) (v0 : Nat) (k : Int) :
    (acc.map (fun p => if p.1 = k0 then (k0, v0) else p)).lookup k =
      if k = k0 then (acc.lookup k0).map (fun _ => v0) else acc.lookup k := by
  induction acc with
  | nil => simp
  | cons p r ih =>
    obtain ⟨a, b⟩ := p
    rw [List.map_cons, List.lookup_cons, ih]
    by_cases ha : a = k0
    · subst ha
      by_cases hk : k = a
      · subst hk; simp
      · have hb : (k == a) = false := by simpa using hk
        simp [hb, hk, List.lookup_cons]
    · by_cases hk : k = k0
      · subst hk
        have hb : (k == a) = false := by simpa using (Ne.symm ha)
        simp [ha, hb, List.lookup_cons]
      · simp [ha, hk, List.lookup_cons]

theorem map_fst_replace (acc : List (Int × Nat)) (k0 : Int) (v0 : Nat) :
    (acc.map (fun p => if p.1 = k0 then (k0, v0) else p)).map (·.1) = acc.map (·.1) := by
  rw [List.map_map]
  apply List.map_congr_left
  intro p _
  simp only [Function.comp]
  split
  · next h => exact h.symm
  · rfl

theorem dictOf_nodup (acc ps : List (Int × Nat)) (h : (acc.map (·.1)).Nodup) :
    ((dictOf acc ps).map (·.1)).Nodup := by
  induction ps generalizing acc with
  | nil => exact h
  | cons p r ih =>
    obtain ⟨k, v⟩ := p
    unfold dictOf
    split
    · apply ih; rw [map_fst_replace]; exact h
    · next hn =>
      apply ih
      rw [List.map_append, List.nodup_append]
      refine ⟨h, by simp, ?_⟩
      intro a ha b hb
      simp only [List.map_cons, List.map_nil, List.mem_singleton] at hb
      subst hb
      rintro rfl
      apply hn
      rw [List.lookup_isSome_iff]
      obtain ⟨p, hp, rfl⟩ := List.mem_map.1 ha
      exact ⟨p, hp, by simp⟩

theorem dictOf_lookup (acc ps : List (Int × Nat)) (k : Int) :
    (dictOf acc ps).lookup k =
      (match ps.reverse.lookup k with | some v => some v | none => acc.lookup k) := by
  induction ps generalizing acc with
  | nil => rfl
  | cons p r ih =>
    obtain ⟨k0, v0⟩ := p
    rw [List.reverse_cons, List.lookup_append]
    unfold dictOf
    split
    · next hs =>
      rw [ih, lookup_map_replace]
      cases r.reverse.lookup k with
      | some w => rfl
      | none =>
        by_cases he : k = k0
        · subst he
          obtain ⟨w, hw⟩ := Option.isSome_iff_exists.1 hs
          simp [hw]
        · have : (k == k0) = false := by simpa using he
          simp [he, List.lookup_cons, this]
    · next hn =>
      rw [ih, List.lookup_append]
      cases r.reverse.lookup k with
      | some w => rfl
      | none =>
        by_cases he : k = k0
        · subst he
          have : acc.lookup k = none := Option.not_isSome_iff_eq_none.1 hn
          simp [this]
        · have : (k == k0) = false := by simpa using he
          simp [List.lookup_cons, this]

/-- for key-distinct association lists `lookup` is membership -/
theorem lookup_eq_some_of_nodup (l : List (Int × Nat)) (h : (l.map (·.1)).Nodup) (k : Int) (v : Nat) :
    l.lookup k = some v ↔ (k, v) ∈ l := by
  induction l with
  | nil => simp
  | cons p r ih =>
    obtain ⟨a, b⟩ := p
    rw [List.map_cons, List.nodup_cons] at h
    rw [List.lookup_cons, List.mem_cons]
    by_cases hk : k = a
    · subst hk
      simp only [BEq.rfl, Option.some.injEq, Prod.mk.injEq, true_and]
      constructor
      · intro h'; exact Or.inl h'.symm
      · rintro (h' | h')
        · exact h'.symm
        · exact absurd (List.mem_map.2 ⟨(k, v), h', rfl⟩) h.1
    · have hb : (k == a) = false := by simpa using hk
      simp only [hb, ih h.2, Prod.mk.injEq, hk, false_and, false_or]

theorem lookup_perm (l l' : List (Int × Nat)) (hp : l.Perm l') (h : (l.map (·.1)).Nodup) (k : Int) :
    l.lookup k = l'.lookup k := by
  have h' : (l'.map (·.1)).Nodup := (hp.map _).nodup_iff.1 h
  apply Option.ext
  intro v
  rw [lookup_eq_some_of_nodup l h, lookup_eq_some_of_nodup l' h', hp.mem_iff]

theorem zip_map_fst_snd (l : List (Int × Nat)) : (l.map (·.1)).zip (l.map (·.2)) = l := by
  rw [List.zip_map']; simp

theorem mapInit_wf (pairs : List (Int × Nat)) : MapWf (mapInit pairs) := by
  unfold mapInit MapWf
  simp only [List.length_map, and_true]
  have hnd := dictOf_nodup [] pairs (by simp)
  have hperm := List.mergeSort_perm (dictOf [] pairs) (fun a b => decide (a.1 ≤ b.1))
  have hnd' : ((List.mergeSort (dictOf [] pairs) (fun a b => decide (a.1 ≤ b.1))).map (·.1)).Nodup :=
    (hperm.map _).nodup_iff.2 hnd
  have hs := List.pairwise_mergeSort (le := fun (a b : Int × Nat) => decide (a.1 ≤ b.1))
    (by intro a b c; simp only [decide_eq_true_eq]; omega)
    (by intro a b; simp only [Bool.or_eq_true, decide_eq_true_eq]; omega) (dictOf [] pairs)
  unfold Strict
  rw [List.pairwise_map]
  rw [List.nodup_iff_pairwise_ne, List.pairwise_map] at hnd'
  refine (hs.and hnd').imp ?_
  intro a b ⟨h1, h2⟩
  simp only [decide_eq_true_eq] at h1
  omega

/-- initial pairs behave like `dict(pairs)`: the last pair of a key wins -/
theorem mapInit_lookup (pairs : List (Int × Nat)) (k : Int) :
    mapLookup (mapInit pairs) k = pairs.reverse.lookup k := by
  unfold mapInit mapLookup
  simp only [zip_map_fst_snd]
  have hnd := dictOf_nodup [] pairs (by simp)
  have hperm := List.mergeSort_perm (dictOf [] pairs) (fun a b => decide (a.1 ≤ b.1))
  rw [← lookup_perm _ _ hperm.symm hnd, dictOf_lookup]
  cases pairs.reverse.lookup k <;> rfl

end WindVerif.Sorted
