import WindVerif.Proofs.PoolLifeAux2
/-! Worker lifecycle in the pool model (C04): the consumer's steps keep the invariant; the invariant holds in every
reachable state. -/
namespace WindVerif.Pool

/-! ### helpers for the consumer's steps -/

/-- the fields the lifecycle invariant looks at (apart from `cpc`) -/
structure SameL (s s' : St) : Prop where
  cfg : s'.cfg = s.cfg
  workers : s'.workers = s.workers
  procs : s'.procs = s.procs
  widCounter : s'.widCounter = s.widCounter
  rpc : s'.rpc = s.rpc
  rAlive : s'.rAlive = s.rAlive
  replQ : s'.replQ = s.replQ

theorem consumeBatch_same (s : St) : SameL s (consumeBatch s) := by
  unfold consumeBatch
  split
  · exact ⟨rfl, rfl, rfl, rfl, rfl, rfl, rfl⟩
  · split
    · exact ⟨rfl, rfl, rfl, rfl, rfl, rfl, rfl⟩
    · exact ⟨rfl, rfl, rfl, rfl, rfl, rfl, rfl⟩

theorem afterResults_same (s : St) : SameL s (afterResults s) ∧ inCall (afterResults s).cpc = true := by
  have h := consumeBatch_same s
  obtain ⟨c', heq, hcl⟩ := afterResults_pc s
  rw [heq]
  refine ⟨⟨h.cfg, h.workers, h.procs, h.widCounter, h.rpc, h.rAlive, h.replQ⟩, ?_⟩
  rcases hcl with h | h | h | ⟨wid, h⟩ <;> subst h <;> rfl

theorem afterBatch_same (s : St) : SameL s (afterBatch s) ∧ inCall (afterBatch s).cpc = true := by
  obtain ⟨c', heq, hcl⟩ := afterBatch_eq s
  rw [heq]
  refine ⟨⟨rfl, rfl, rfl, rfl, rfl, rfl, rfl⟩, ?_⟩
  rcases hcl with h | h | h <;> subst h <;> rfl

theorem toNextCall_same (s : St) : SameL s (toNextCall s) ∧
    (((toNextCall s).cpc = .rInitSet ∧ s.cfg.factory = true) ∨ (toNextCall s).cpc = .fInitSet ∨
     ((toNextCall s).cpc = .done ∧ s.procs = []) ∨ (toNextCall s).cpc = .exitPut 0) := by
  unfold toNextCall
  split
  · dsimp only
    split
    · rename_i hf; exact ⟨⟨rfl, rfl, rfl, rfl, rfl, rfl, rfl⟩, Or.inl ⟨rfl, hf⟩⟩
    · exact ⟨⟨rfl, rfl, rfl, rfl, rfl, rfl, rfl⟩, Or.inr (Or.inl rfl)⟩
  · dsimp only
    split
    · rename_i hf; exact ⟨⟨rfl, rfl, rfl, rfl, rfl, rfl, rfl⟩, Or.inr (Or.inr (Or.inl ⟨rfl, List.length_eq_zero_iff.1 hf⟩))⟩
    · exact ⟨⟨rfl, rfl, rfl, rfl, rfl, rfl, rfl⟩, Or.inr (Or.inr (Or.inr rfl))⟩

theorem LInv_same {s s' : St} (hI : LInv s) (h : SameL s s')
    (hc : s'.cpc = s.cpc ∨ (post s.cpc = true ∧ post s'.cpc = true ∧ (s.rAlive = true → inCall s'.cpc = true) ∧
      ((s'.cpc = .rInitSet ∨ s'.cpc = .rStart) → s.cfg.factory = true) ∧
      (∀ i, s'.cpc = .exitJoin i → ∀ j < i, ∀ wid, s.procs[j]? = some wid → s.cfg.joinTimeout = false →
        ExitedStrict s.workers wid) ∧
      (s'.cpc = .done → ∀ wid ∈ s.procs, s.cfg.joinTimeout = false → ExitedStrict s.workers wid))) : LInv s' :=
  LInv_frame hI h.cfg h.workers h.procs h.widCounter h.rpc h.rAlive (by rw [h.replQ]) hc

/-- an in-call step of the consumer -/
theorem LInv_inCall {s s' : St} (hI : LInv s) (h : SameL s s') (h1 : inCall s.cpc = true) (h2 : inCall s'.cpc = true) : LInv s' := by
  apply LInv_same hI h
  refine Or.inr ⟨post_of_inCall h1, post_of_inCall h2, fun _ => h2, ?_, ?_, ?_⟩
  · intro hh; rcases hh with hh | hh <;> rw [hh] at h2 <;> cases h2
  · intro i hi; rw [hi] at h2; cases h2
  · intro hi; rw [hi] at h2; cases h2

/-- the consumer goes on to the next call or to `__exit__` -/
theorem LInv_toNextCall {s : St} (hI : LInv s) (hp : post s.cpc = true) (hr : s.rAlive = false) : LInv (toNextCall s) := by
  obtain ⟨hs, hc⟩ := toNextCall_same s
  apply LInv_same hI hs
  refine Or.inr ⟨hp, ?_, ?_, ?_, ?_, ?_⟩
  · rcases hc with ⟨h, _⟩ | h | ⟨h, _⟩ | h <;> rw [h] <;> rfl
  · intro h; rw [hr] at h; cases h
  · intro hh
    rcases hc with ⟨_, h⟩ | h | ⟨h, _⟩ | h
    · exact h
    all_goals (rw [h] at hh; rcases hh with hh | hh <;> cases hh)
  · intro i hi
    rcases hc with ⟨h, _⟩ | h | ⟨h, _⟩ | h <;> rw [h] at hi <;> cases hi
  · intro hd wid hw
    rcases hc with ⟨h, _⟩ | h | ⟨_, h⟩ | h
    · rw [h] at hd; cases hd
    · rw [h] at hd; cases hd
    · rw [h] at hw; cases hw
    · rw [h] at hd; cases hd

theorem workerExited_all {s : St} (hI : LInv s) {wid : Nat} (h : workerExited s wid = true) : ExitedStrict s.workers wid := by
  unfold workerExited at h
  split at h
  · rename_i w hg
    obtain ⟨hwm, hwid⟩ := getWorker_some hg
    intro x hx hxw
    have := wid_inj hI.nodup hx hwm (by rw [hxw, hwid])
    subst this; simpa using h
  · cases h

theorem exitJoinFrom_spec (s : St) (fuel i : Nat) :
    (exitJoinFrom s fuel i = .done ∧ ∀ j, i ≤ j → ∀ wid, s.procs[j]? = some wid → workerExited s wid = true) ∨
    (∃ k, exitJoinFrom s fuel i = .exitJoin k ∧ i ≤ k ∧
      ∀ j, i ≤ j → j < k → ∀ wid, s.procs[j]? = some wid → workerExited s wid = true) := by
  induction fuel generalizing i with
  | zero => exact Or.inr ⟨i, rfl, Nat.le_refl _, fun j h1 h2 => by omega⟩
  | succ n ih =>
    unfold exitJoinFrom
    split
    · rename_i hn
      refine Or.inl ⟨rfl, ?_⟩
      intro j hj wid hw
      have : s.procs.length ≤ i := by simpa using hn
      have : s.procs[j]? = none := by simp; omega
      rw [this] at hw; cases hw
    · rename_i wid hw
      split
      · rename_i he
        rcases ih (i + 1) with ⟨h1, h2⟩ | ⟨k, h1, h2, h3⟩
        · refine Or.inl ⟨h1, ?_⟩
          intro j hj wid' hw'
          rcases Nat.eq_or_lt_of_le hj with rfl | hlt
          · rw [hw] at hw'; cases hw'; exact he
          · exact h2 j hlt wid' hw'
        · refine Or.inr ⟨k, h1, by omega, ?_⟩
          intro j hj hjk wid' hw'
          rcases Nat.eq_or_lt_of_le hj with rfl | hlt
          · rw [hw] at hw'; cases hw'; exact he
          · exact h3 j hlt hjk wid' hw'
      · exact Or.inr ⟨i, rfl, Nat.le_refl _, fun j h1 h2 => by omega⟩

/-! ### `__enter__` and `until_all_ready` -/

theorem rAlive_false {s : St} (hI : LInv s) (h : inCall s.cpc = false) : s.rAlive = false := by
  cases hr : s.rAlive
  · rfl
  · rw [(hI.rAliveIn hr).1] at h; cases h

theorem LInv_enterStart_aux {s : St} {i : Nat} {w : Worker} (hI : LInv s) (hpc : s.cpc = .enterStart i)
    (hg : getWorker s i = some w) (c' : CPc)
    (hc' : c' = .enterStart (i + 1) ∨
      (s.cfg.nWorkers ≤ i + 1 ∧ (c' = .readyWait 0 ∨ (c' = .nextCall ∧ s.cfg.waitReady = false)))) :
    LInv { (setWorker s { w with pc := .bfClear }) with cpc := c' } := by
  obtain ⟨hwm, hwid⟩ := getWorker_some hg
  have hwpc : w.pc = .notStarted := hI.starting i hpc w hwm (by omega)
  have hne : gone w.pc = false := by rw [hwpc]; rfl
  have hral : s.rAlive = false := rAlive_false hI (by rw [hpc]; rfl)
  have hpre := hI.pre (by rw [hpc]; trivial)
  have hmem : ∀ x, x ∈ upd w.wid { w with pc := .bfClear } s.workers →
      x = { w with pc := .bfClear } ∨ (x ∈ s.workers ∧ x.wid ≠ w.wid) := by
    intro x hx
    rcases mem_upd.1 hx with ⟨rfl, _⟩ | hx
    · exact Or.inl rfl
    · exact Or.inr hx
  have hex : ∀ k, ExitedAll s.workers k → ExitedAll (upd w.wid { w with pc := .bfClear } s.workers) k :=
    fun k hk => ExitedAll_upd hk hwm (not_gone_imp hne) rfl
  have hns : ∀ x ∈ s.workers, x.wid ≠ w.wid → x.pc = .notStarted → i + 1 ≤ x.wid ∨ s.rpc = .start x.wid := by
    intro x hx hxw hxpc
    rcases hI.notStarted x hx hxpc with ⟨i0, hi0, hle⟩ | hh
    · rw [hpc] at hi0; cases hi0; left; omega
    · exact Or.inr hh
  constructor <;> try dsimp only [setWorker_workers]
  · show ((upd w.wid { w with pc := .bfClear } s.workers).map (·.wid)).Nodup
    rw [upd_wids (k := w.wid) (w' := { w with pc := .bfClear }) _ rfl]; exact hI.nodup
  · intro x hx
    rcases hmem x hx with rfl | ⟨hx, _⟩
    · exact hI.widLt w hwm
    · exact hI.widLt x hx
  · exact hI.procsLt
  · exact hI.nwLe
  · intro x hx
    rcases hmem x hx with rfl | ⟨hx, _⟩
    · exact WInv_start (hI.wk w hwm) hwpc
    · exact hI.wk x hx
  · intro hh; have : s.rAlive = true := hh; rw [hral] at this; cases this
  · intro hh
    rcases hc' with rfl | ⟨_, rfl | ⟨rfl, _⟩⟩ <;> rcases hh with hh | hh <;> cases hh
  · exact hI.rIdle
  · intro _; exact hpre
  · intro j hj x hx hjx
    rcases hc' with rfl | ⟨_, rfl | ⟨rfl, _⟩⟩
    · cases hj
      rcases hmem x hx with rfl | ⟨hx, _⟩
      · exfalso; have : i + 1 ≤ w.wid := hjx; omega
      · exact hI.starting i hpc x hx (by omega)
    · cases hj
    · cases hj
  · intro x hx hxpc
    rcases hmem x hx with rfl | ⟨hx, hxw⟩
    · cases hxpc
    · rcases hns x hx hxw hxpc with hle | hh
      · rcases hc' with rfl | ⟨hn, _⟩
        · exact Or.inl ⟨i + 1, rfl, hle⟩
        · have := hI.widLt x hx; omega
      · exact Or.inr hh
  · intro nw hnw; have : s.rpc = .start nw := hnw; rw [hI.rIdle hral] at this; cases this
  · intro hr x hx hlt
    rcases hc' with rfl | ⟨_, rfl | ⟨rfl, hwr⟩⟩
    · cases hlt
    · cases hlt
    · have : s.cfg.waitReady = true := hr
      rw [hwr] at this; cases this
  · intro x hx hxne
    rcases hmem x hx with rfl | ⟨hx, _⟩
    · exact hI.listed w hwm hne
    · exact hI.listed x hx hxne
  · exact hI.pendNodup
  · intro k hk; exact ⟨(hI.pend k hk).1, hex k (hI.pend k hk).2⟩
  · intro j hj
    rcases hc' with rfl | ⟨_, rfl | ⟨rfl, _⟩⟩ <;> cases hj
  · intro hj
    rcases hc' with rfl | ⟨_, rfl | ⟨rfl, _⟩⟩ <;> cases hj

theorem LInv_readyWait_aux {s : St} {i : Nat} {w : Worker} (hI : LInv s) (hpc : s.cpc = .readyWait i)
    (hg : getWorker s i = some w) (hbf : w.bf = true) (c' : CPc)
    (hc' : c' = .readyWait (i + 1) ∨ (s.cfg.nWorkers ≤ i + 1 ∧ c' = .nextCall)) :
    LInv { s with cpc := c' } := by
  obtain ⟨hwm, hwid⟩ := getWorker_some hg
  have hral : s.rAlive = false := rAlive_false hI (by rw [hpc]; rfl)
  have hpre := hI.pre (by rw [hpc]; trivial)
  constructor <;> try dsimp only
  · exact hI.nodup
  · exact hI.widLt
  · exact hI.procsLt
  · exact hI.nwLe
  · exact hI.wk
  · intro hh; rw [hral] at hh; cases hh
  · intro hh
    rcases hc' with rfl | ⟨_, rfl⟩ <;> rcases hh with hh | hh <;> cases hh
  · exact hI.rIdle
  · intro _; exact hpre
  · intro j hj
    rcases hc' with rfl | ⟨_, rfl⟩ <;> cases hj
  · intro x hx hxpc
    rcases hI.notStarted x hx hxpc with ⟨i0, hi0, _⟩ | hh
    · rw [hpc] at hi0; cases hi0
    · exact Or.inr hh
  · exact hI.rStarting
  · intro hr x hx hlt
    have hlt' : x.wid < i + 1 := by
      rcases hc' with rfl | ⟨hn, rfl⟩
      · exact hlt
      · have : x.wid < s.cfg.nWorkers := hlt
        omega
    rcases Nat.lt_or_ge x.wid i with h | h
    · exact hI.ready hr x hx (by unfold readyUpto; rw [hpc]; exact h)
    · have : x = w := wid_inj hI.nodup hx hwm (by omega)
      rw [this]; exact hbf
  · exact hI.listed
  · exact hI.pendNodup
  · exact hI.pend
  · intro j hj
    rcases hc' with rfl | ⟨_, rfl⟩ <;> cases hj
  · intro hj
    rcases hc' with rfl | ⟨_, rfl⟩ <;> cases hj

theorem range_getElem?_some {n i wid : Nat} (h : (List.range n)[i]? = some wid) : wid = i ∧ i < n := by
  rw [List.getElem?_eq_some_iff] at h
  obtain ⟨h1, h2⟩ := h
  simp at h1 h2
  exact ⟨h2.symm, h1⟩

/-! ### all consumer steps -/

theorem SameL.trans {a b c : St} (h1 : SameL a b) (h2 : SameL b c) : SameL a c :=
  ⟨h2.cfg.trans h1.cfg, h2.workers.trans h1.workers, h2.procs.trans h1.procs, h2.widCounter.trans h1.widCounter,
    h2.rpc.trans h1.rpc, h2.rAlive.trans h1.rAlive, h2.replQ.trans h1.replQ⟩

/-- from an in-call pc (R not alive) back to `nextCall` -/
theorem LInv_backToNext {s : St} (hI : LInv s) (hp : post s.cpc = true) (hr : s.rAlive = false) :
    LInv (toNextCall { s with cpc := .nextCall }) := by
  have h1 : LInv { s with cpc := .nextCall } := by
    refine LInv_same hI (by exact ⟨rfl, rfl, rfl, rfl, rfl, rfl, rfl⟩) ?_
    refine Or.inr ⟨hp, rfl, ?_, ?_, ?_, ?_⟩
    · intro h; rw [hr] at h; cases h
    · intro h; rcases h with h | h <;> cases h
    · intro i hi; cases hi
    · intro hi; cases hi
  exact LInv_toNextCall h1 rfl hr

theorem LInv_stepC {s s' : St} (hI : LInv s) (h : stepC s = some s') : LInv s' := by
  cases hpc : s.cpc <;> simp only [stepC, hpc] at h
  case enterStart i =>
    have hpre := hI.pre (by rw [hpc]; trivial)
    split at h
    · cases h
    · rename_i wid hw
      rw [hpre.1] at hw
      obtain ⟨rfl, hin⟩ := range_getElem?_some hw
      split at h
      · cases h
      · rename_i w hg
        have hlen : (setWorker s { w with pc := .bfClear }).procs.length = s.cfg.nWorkers := by
          show s.procs.length = _; rw [hpre.1]; simp
        try dsimp only at h
        rw [hlen] at h
        split at h
        · simp only [Option.some.injEq] at h; subst h
          exact LInv_enterStart_aux hI hpc hg _ (Or.inl rfl)
        · rename_i hge
          simp only [Option.some.injEq] at h; subst h
          unfold afterEnter
          rw [hlen]
          split
          · exact LInv_enterStart_aux hI hpc hg _ (Or.inr ⟨by omega, Or.inl rfl⟩)
          · rename_i hnw
            have hwr : s.cfg.waitReady = false := by
              cases hh : s.cfg.waitReady
              · rfl
              · exfalso; apply hnw; exact ⟨hh, by omega⟩
            have h1 := LInv_enterStart_aux hI hpc hg .nextCall (Or.inr ⟨by omega, Or.inr ⟨rfl, hwr⟩⟩)
            have hral := rAlive_false hI (by rw [hpc]; rfl)
            exact LInv_toNextCall h1 rfl hral
  case readyWait i =>
    have hpre := hI.pre (by rw [hpc]; trivial)
    split at h
    · cases h
    · rename_i wid hw
      rw [hpre.1] at hw
      obtain ⟨rfl, hin⟩ := range_getElem?_some hw
      split at h
      · cases h
      · rename_i w hg
        have hlen : s.procs.length = s.cfg.nWorkers := by rw [hpre.1]; simp
        rw [hlen] at h
        split at h
        · rename_i hbf
          split at h
          · simp only [Option.some.injEq] at h; subst h
            exact LInv_readyWait_aux hI hpc hg hbf _ (Or.inl rfl)
          · simp only [Option.some.injEq] at h; subst h
            have h1 := LInv_readyWait_aux hI hpc hg hbf .nextCall (Or.inr ⟨by omega, rfl⟩)
            have hral := rAlive_false hI (by rw [hpc]; rfl)
            exact LInv_toNextCall h1 rfl hral
        · cases h
  case nextCall =>
    simp only [Option.some.injEq] at h; subst h
    have hral := rAlive_false hI (by rw [hpc]; rfl)
    exact LInv_toNextCall hI (by rw [hpc]; rfl) hral
  case rInitSet =>
    simp only [Option.some.injEq] at h; subst h
    refine LInv_same hI (by exact ⟨rfl, rfl, rfl, rfl, rfl, rfl, rfl⟩) ?_
    refine Or.inr ⟨by rw [hpc]; rfl, rfl, ?_, ?_, ?_, ?_⟩
    · intro hr; rw [rAlive_false hI (by rw [hpc]; rfl)] at hr; cases hr
    · intro _; exact hI.rFactory (Or.inl hpc)
    · intro i hi; cases hi
    · intro hi; cases hi
  case rStart =>
    simp only [Option.some.injEq] at h; subst h
    have hral := rAlive_false hI (by rw [hpc]; rfl)
    have hidle := hI.rIdle hral
    have hp : pending { s with rAlive := true, rpc := .get, cpc := .fInitSet } = pending s := by
      unfold pending; simp [hidle]
    constructor <;> try dsimp only
    · exact hI.nodup
    · exact hI.widLt
    · exact hI.procsLt
    · exact hI.nwLe
    · exact hI.wk
    · intro _; exact ⟨rfl, hI.rFactory (Or.inr hpc)⟩
    · intro hh; rcases hh with hh | hh <;> cases hh
    · intro hh; cases hh
    · intro hh; exact hh.elim
    · intro j hj; cases hj
    · intro x hx hxpc
      rcases hI.notStarted x hx hxpc with ⟨i0, hi0, _⟩ | hh
      · rw [hpc] at hi0; cases hi0
      · rw [hidle] at hh; cases hh
    · intro nw hh; cases hh
    · intro hr x hx hlt
      exact hI.ready hr x hx (by rw [readyUpto_post (by rw [hpc]; rfl)]; exact hlt)
    · exact hI.listed
    · rw [hp]; exact hI.pendNodup
    · rw [hp]; exact hI.pend
    · intro j hj; cases hj
    · intro hj; cases hj
  case fInitSet =>
    simp only [Option.some.injEq] at h; subst h
    exact LInv_inCall hI ⟨rfl, rfl, rfl, rfl, rfl, rfl, rfl⟩ (by rw [hpc]; rfl) rfl
  case wrSending =>
    simp only [Option.some.injEq] at h; subst h
    exact LInv_inCall hI ⟨rfl, rfl, rfl, rfl, rfl, rfl, rfl⟩ (by rw [hpc]; rfl) rfl
  case wrDataCnt =>
    simp only [Option.some.injEq] at h; subst h
    exact LInv_inCall hI ⟨rfl, rfl, rfl, rfl, rfl, rfl, rfl⟩ (by rw [hpc]; rfl) rfl
  case fStart =>
    split at h
    · cases h
    · simp only [Option.some.injEq] at h; subst h
      exact LInv_inCall hI ⟨rfl, rfl, rfl, rfl, rfl, rfl, rfl⟩ (by rw [hpc]; rfl) rfl
  case rdSending =>
    split at h <;> simp only [Option.some.injEq] at h <;> subst h <;>
      exact LInv_inCall hI ⟨rfl, rfl, rfl, rfl, rfl, rfl, rfl⟩ (by rw [hpc]; rfl) rfl
  case rdDataCnt =>
    split at h <;> simp only [Option.some.injEq] at h <;> subst h <;>
      exact LInv_inCall hI ⟨rfl, rfl, rfl, rfl, rfl, rfl, rfl⟩ (by rw [hpc]; rfl) rfl
  case qsize1 =>
    split at h <;> simp only [Option.some.injEq] at h <;> subst h <;>
      exact LInv_inCall hI ⟨rfl, rfl, rfl, rfl, rfl, rfl, rfl⟩ (by rw [hpc]; rfl) rfl
  case lockAcq =>
    split at h
    · simp only [Option.some.injEq] at h; subst h
      exact LInv_inCall hI ⟨rfl, rfl, rfl, rfl, rfl, rfl, rfl⟩ (by rw [hpc]; rfl) rfl
    · cases h
  case qsize2 =>
    split at h <;> simp only [Option.some.injEq] at h <;> subst h <;>
      exact LInv_inCall hI ⟨rfl, rfl, rfl, rfl, rfl, rfl, rfl⟩ (by rw [hpc]; rfl) rfl
  case getNowait =>
    split at h <;> simp only [Option.some.injEq] at h <;> subst h <;>
      exact LInv_inCall hI ⟨rfl, rfl, rfl, rfl, rfl, rfl, rfl⟩ (by rw [hpc]; rfl) rfl
  case lockRel =>
    split at h <;> simp only [Option.some.injEq] at h <;> subst h
    · refine LInv_inCall hI ?_ (by rw [hpc]; rfl) (afterResults_same _).2
      exact SameL.trans (by exact ⟨rfl, rfl, rfl, rfl, rfl, rfl, rfl⟩) (afterResults_same _).1
    · exact LInv_inCall hI ⟨rfl, rfl, rfl, rfl, rfl, rfl, rfl⟩ (by rw [hpc]; rfl) rfl
  case getBlock =>
    split at h
    · cases h
    · rename_i r _
      simp only [Option.some.injEq] at h; subst h
      refine LInv_inCall hI ?_ (by rw [hpc]; rfl) (afterResults_same _).2
      exact SameL.trans (by exact ⟨rfl, rfl, rfl, rfl, rfl, rfl, rfl⟩) (afterResults_same _).1
    · rename_i i r _
      simp only [Option.some.injEq] at h; subst h
      refine LInv_inCall hI ?_ (by rw [hpc]; rfl) (afterResults_same _).2
      exact SameL.trans (by exact ⟨rfl, rfl, rfl, rfl, rfl, rfl, rfl⟩) (afterResults_same _).1
  case flowClear =>
    simp only [Option.some.injEq] at h; subst h
    exact LInv_inCall hI ⟨rfl, rfl, rfl, rfl, rfl, rfl, rfl⟩ (by rw [hpc]; rfl) rfl
  case flowIsSet =>
    split at h <;> simp only [Option.some.injEq] at h <;> subst h <;>
      exact LInv_inCall hI ⟨rfl, rfl, rfl, rfl, rfl, rfl, rfl⟩ (by rw [hpc]; rfl) rfl
  case flowSet =>
    simp only [Option.some.injEq] at h; subst h
    exact LInv_inCall hI ⟨rfl, rfl, rfl, rfl, rfl, rfl, rfl⟩ (by rw [hpc]; rfl) rfl
  case fStopSet =>
    simp only [Option.some.injEq] at h; subst h
    exact LInv_inCall hI ⟨rfl, rfl, rfl, rfl, rfl, rfl, rfl⟩ (by rw [hpc]; rfl) rfl
  case fJoin =>
    split at h
    · cases h
    · split at h
      · simp only [Option.some.injEq] at h; subst h
        exact LInv_inCall hI ⟨rfl, rfl, rfl, rfl, rfl, rfl, rfl⟩ (by rw [hpc]; rfl) rfl
      · rename_i hnf
        simp only [Option.some.injEq] at h; subst h
        have hral : s.rAlive = false := by
          cases hr : s.rAlive
          · rfl
          · exact absurd (hI.rAliveIn hr).2 hnf
        exact LInv_backToNext hI (by rw [hpc]; rfl) hral
  case rPutNone =>
    simp only [Option.some.injEq] at h; subst h
    refine LInv_frame hI (by rfl) (by rfl) (by rfl) (by rfl) (by rfl) (by rfl) (by simp) ?_
    refine Or.inr ⟨by rw [hpc]; rfl, rfl, fun _ => rfl, ?_, ?_, ?_⟩
    · intro hh; rcases hh with hh | hh <;> cases hh
    · intro i hi; cases hi
    · intro hi; cases hi
  case rStopSet =>
    simp only [Option.some.injEq] at h; subst h
    exact LInv_inCall hI ⟨rfl, rfl, rfl, rfl, rfl, rfl, rfl⟩ (by rw [hpc]; rfl) rfl
  case rJoin =>
    split at h
    · cases h
    · rename_i hr
      simp only [Option.some.injEq] at h; subst h
      exact LInv_backToNext hI (by rw [hpc]; rfl) (by simpa using hr)
  case exitPut i =>
    have hral := rAlive_false hI (by rw [hpc]; rfl)
    split at h
    · -- the queue is full: the loop is left only when every listed worker has exited
      split at h
      · rename_i hall
        simp only [Option.some.injEq] at h; subst h
        refine LInv_same hI (by exact ⟨rfl, rfl, rfl, rfl, rfl, rfl, rfl⟩) ?_
        refine Or.inr ⟨by rw [hpc]; rfl, rfl, ?_, ?_, ?_, ?_⟩
        · intro hh; rw [hral] at hh; cases hh
        · intro hh; rcases hh with hh | hh <;> cases hh
        · intro j hj; cases hj
        · intro _ wid hwid _
          exact workerExited_all hI (List.all_eq_true.1 hall wid hwid)
      · cases h
    · try dsimp only at h
      split at h
      · simp only [Option.some.injEq] at h; subst h
        refine LInv_same hI (by exact ⟨rfl, rfl, rfl, rfl, rfl, rfl, rfl⟩) ?_
        refine Or.inr ⟨by rw [hpc]; rfl, rfl, ?_, ?_, ?_, ?_⟩
        · intro hh; rw [hral] at hh; cases hh
        · intro hh; rcases hh with hh | hh <;> cases hh
        · intro j hj; cases hj
        · intro hj; cases hj
      · simp only [Option.some.injEq] at h; subst h
        have hI1 : LInv { s with workQ := s.workQ ++ [none], cpc := .exitPut i } :=
          LInv_same hI ⟨rfl, rfl, rfl, rfl, rfl, rfl, rfl⟩ (Or.inl hpc.symm)
        refine LInv_same hI (by exact ⟨rfl, rfl, rfl, rfl, rfl, rfl, rfl⟩) ?_
        rcases exitJoinFrom_spec { s with workQ := s.workQ ++ [none], cpc := .exitPut i } (s.procs.length + 1) 0 with ⟨e1, e2⟩ | ⟨k, e1, _, e2⟩
        · refine Or.inr ⟨by rw [hpc]; rfl, by dsimp only; rw [e1]; rfl, ?_, ?_, ?_, ?_⟩
          · intro hh; rw [hral] at hh; cases hh
          · dsimp only; rw [e1]; intro hh; rcases hh with hh | hh <;> cases hh
          · dsimp only; rw [e1]; intro j hj; cases hj
          · intro _ wid hwid _
            obtain ⟨j, hj⟩ := List.getElem?_of_mem hwid
            exact workerExited_all hI1 (e2 j (Nat.zero_le _) wid hj)
        · refine Or.inr ⟨by rw [hpc]; rfl, by dsimp only; rw [e1]; rfl, ?_, ?_, ?_, ?_⟩
          · intro hh; rw [hral] at hh; cases hh
          · dsimp only; rw [e1]; intro hh; rcases hh with hh | hh <;> cases hh
          · dsimp only; rw [e1]; intro j hj j' hj' wid hwid _
            cases hj
            exact workerExited_all hI1 (e2 j' (Nat.zero_le _) hj' wid hwid)
          · dsimp only; rw [e1]; intro hj; cases hj
  case exitJoin i =>
    have hral := rAlive_false hI (by rw [hpc]; rfl)
    split at h
    · cases h
    · rename_i wid hw
      split at h
      · rename_i hex
        simp only [Option.some.injEq] at h; subst h
        have hprev : ∀ j, j < i + 1 → ∀ wid', s.procs[j]? = some wid' → s.cfg.joinTimeout = false →
            ExitedStrict s.workers wid' := by
          intro j hj wid' hw' hjt
          rcases Nat.lt_or_ge j i with hlt | hge
          · exact hI.joined i hpc j hlt wid' hw' hjt
          · have : j = i := by omega
            subst this; rw [hw] at hw'; cases hw'
            rw [hjt, Bool.or_false] at hex
            exact workerExited_all hI hex
        refine LInv_same hI (by exact ⟨rfl, rfl, rfl, rfl, rfl, rfl, rfl⟩) ?_
        rcases exitJoinFrom_spec s (s.procs.length + 1) (i + 1) with ⟨e1, e2⟩ | ⟨k, e1, _, e2⟩
        · refine Or.inr ⟨by rw [hpc]; rfl, by dsimp only; rw [e1]; rfl, ?_, ?_, ?_, ?_⟩
          · intro hh; rw [hral] at hh; cases hh
          · dsimp only; rw [e1]; intro hh; rcases hh with hh | hh <;> cases hh
          · dsimp only; rw [e1]; intro j hj; cases hj
          · intro _ wid' hwid hjt
            obtain ⟨j, hj⟩ := List.getElem?_of_mem hwid
            rcases Nat.lt_or_ge j (i + 1) with hlt | hge
            · exact hprev j hlt wid' hj hjt
            · exact workerExited_all hI (e2 j hge wid' hj)
        · refine Or.inr ⟨by rw [hpc]; rfl, by dsimp only; rw [e1]; rfl, ?_, ?_, ?_, ?_⟩
          · intro hh; rw [hral] at hh; cases hh
          · dsimp only; rw [e1]; intro hh; rcases hh with hh | hh <;> cases hh
          · dsimp only; rw [e1]; intro j hj j' hj' wid' hwid hjt
            cases hj
            rcases Nat.lt_or_ge j' (i + 1) with hlt | hge
            · exact hprev j' hlt wid' hwid hjt
            · exact workerExited_all hI (e2 j' hge hj' wid' hwid)
          · dsimp only; rw [e1]; intro hj; cases hj
      · cases h
  case midReady i wid =>
    split at h
    · cases h
    · split at h
      · split at h
        · simp only [Option.some.injEq] at h; subst h
          exact LInv_inCall hI ⟨rfl, rfl, rfl, rfl, rfl, rfl, rfl⟩ (by rw [hpc]; rfl) rfl
        · simp only [Option.some.injEq] at h; subst h
          exact LInv_inCall hI (afterBatch_same _).1 (by rw [hpc]; rfl) (afterBatch_same _).2
      · cases h
  case done => cases h

/-! ### reachable states -/

theorem stepC_cfg {s s' : St} (h : stepC s = some s') : s'.cfg = s.cfg := by
  cases hpc : s.cpc <;> simp only [stepC, hpc] at h <;> (repeat' split at h) <;>
    first
    | (simp only [Option.some.injEq] at h; subst h
       first
       | rfl
       | exact (toNextCall_same _).1.cfg
       | exact (afterResults_same _).1.cfg
       | exact (afterBatch_same _).1.cfg
       | (unfold afterEnter; split
          · rfl
          · exact (toNextCall_same _).1.cfg))
    | cases h

theorem stepF_cfg {s s' : St} (h : stepF s = some s') : s'.cfg = s.cfg := by
  unfold stepF at h
  (repeat' split at h) <;> first | (simp only [Option.some.injEq] at h; subst h; first | rfl | (split <;> rfl)) | cases h

theorem stepR_cfg {s s' : St} (h : stepR s = some s') : s'.cfg = s.cfg := by
  unfold stepR at h
  (repeat' split at h) <;> first | (simp only [Option.some.injEq] at h; subst h; rfl) | cases h

theorem step_cfg {s s' : St} {t : Tid} (h : step s t = some s') : s'.cfg = s.cfg := by
  cases t with
  | c => exact stepC_cfg h
  | f => exact stepF_cfg h
  | r => exact stepR_cfg h
  | w wid =>
    obtain ⟨w, w', _, _, _, _, _, _, hf⟩ := stepW_summary h
    exact hf.cfg

theorem LInv_step {s s' : St} {t : Tid} (hI : LInv s) (h : step s t = some s') : LInv s' := by
  cases t with
  | c => exact LInv_stepC hI h
  | f => exact LInv_stepF hI h
  | r => exact LInv_stepR hI h
  | w wid => exact LInv_stepW hI h

theorem LInv_run {s s' : St} {sched : List Tid} (hI : LInv s) (h : run s sched = some s') : LInv s' ∧ s'.cfg = s.cfg := by
  induction sched generalizing s with
  | nil => simp only [run, Option.some.injEq] at h; subst h; exact ⟨hI, rfl⟩
  | cons t ts ih =>
    simp only [run] at h
    split at h
    · cases h
    · rename_i s1 hs1
      obtain ⟨h1, h2⟩ := ih (LInv_step hI hs1) h
      exact ⟨h1, h2.trans (step_cfg hs1)⟩

theorem LInv_init (cfg : Cfg) : LInv (init cfg) := by
  have hw : ∀ w ∈ (init cfg).workers, ∃ k, k < cfg.nWorkers ∧ w = mkWorker cfg k := by
    intro w hw
    obtain ⟨k, hk, rfl⟩ := List.mem_map.1 hw
    exact ⟨k, List.mem_range.1 hk, rfl⟩
  have hcpc : (init cfg).cpc = .enterStart 0 ∨
      (cfg.nWorkers = 0 ∧ ((init cfg).cpc = .readyWait 0 ∨ (init cfg).cpc = .nextCall)) := by
    unfold init; dsimp only
    split
    · rename_i h0; right; refine ⟨h0, ?_⟩; split <;> simp
    · left; rfl
  constructor
  · show (((List.range cfg.nWorkers).map (mkWorker cfg)).map (·.wid)).Nodup
    rw [List.map_map]
    have : ((fun x : Worker => x.wid) ∘ mkWorker cfg) = id := by funext k; rfl
    rw [this, List.map_id]; exact List.nodup_range
  · intro w hm; obtain ⟨k, hk, rfl⟩ := hw w hm; exact hk
  · intro k hk; exact List.mem_range.1 hk
  · exact Nat.le_refl _
  · intro w hm; obtain ⟨k, hk, rfl⟩ := hw w hm; exact WInv_mk _ _
  · intro h; cases h
  · intro h
    rcases hcpc with e | ⟨_, e | e⟩ <;> rw [e] at h <;> rcases h with h | h <;> cases h
  · intro _; rfl
  · intro _; exact ⟨rfl, rfl⟩
  · intro i hi w hm hle; obtain ⟨k, hk, rfl⟩ := hw w hm; rfl
  · intro w hm hpc
    obtain ⟨k, hk, rfl⟩ := hw w hm
    rcases hcpc with e | ⟨e0, _⟩
    · exact Or.inl ⟨0, e, Nat.zero_le _⟩
    · omega
  · intro nw h; cases h
  · intro _ w hm hlt
    obtain ⟨k, hk, rfl⟩ := hw w hm
    exfalso
    unfold readyUpto at hlt
    rcases hcpc with e | ⟨e0, e | e⟩ <;> rw [e] at hlt <;> dsimp only at hlt
    · cases hlt
    · cases hlt
    · have : (init cfg).cfg.nWorkers = cfg.nWorkers := rfl
      omega
  · intro w hm _
    obtain ⟨k, hk, rfl⟩ := hw w hm
    exact List.mem_range.2 hk
  · exact List.nodup_nil
  · intro k hk; cases hk
  · intro i h
    rcases hcpc with e | ⟨_, e | e⟩ <;> rw [e] at h <;> cases h
  · intro h
    rcases hcpc with e | ⟨_, e | e⟩ <;> rw [e] at h <;> cases h

theorem LInv_reach {cfg : Cfg} {s : St} (h : Reach cfg s) : LInv s ∧ s.cfg = cfg := by
  obtain ⟨sched, hs⟩ := h
  exact LInv_run (LInv_init cfg) hs

end WindVerif.Pool
