import WindVerif.Proofs.PoolSafeAux2
/-!
Auxiliary development for `PoolSafe.lean`, part 3: preservation of the three parts of the invariant, over plain values.
-/
namespace WindVerif.Pool
open List

/-! ## control part -/

macro "ctl_tac" h:ident : tactic => `(tactic| (
  have h0 := ($h).sigOk
  obtain ⟨⟨a1,a2,a3,a4,a5⟩,h1,h2,h3,h4,h5,h6,h7,h8,h9,h10,h11,h12,h13,h14,h15,h16,h17⟩ := $h
  refine ⟨h0, ?_, ?_, ?_, ?_, ?_, ?_, ?_, ?_, ?_, ?_, ?_, ?_, ?_, ?_, ?_, ?_, ?_⟩ <;> grind))

section ctl
variable {g : CSig} {cur : Option Call} {fpc : FPc} {sending : Bool} {dataCnt fNext fTotal fRead : Nat}
  {fAlive fStop : Bool} {finished : Nat}

/-! ### feeder steps -/

theorem ctl_F_put (h : CtlV g cur .put sending dataCnt fNext fTotal fRead fAlive fStop finished) :
    CtlV g cur .rdCnt sending dataCnt fNext fTotal fRead fAlive fStop finished := by
  ctl_tac h

theorem ctl_F_rdCnt (h : CtlV g cur .rdCnt sending dataCnt fNext fTotal fRead fAlive fStop finished) :
    CtlV g cur .wrCnt sending dataCnt fNext fTotal dataCnt fAlive fStop finished := by
  ctl_tac h

theorem ctl_F_wrCnt (h : CtlV g cur .wrCnt sending dataCnt fNext fTotal fRead fAlive fStop finished) :
    CtlV g cur .stopIsSet sending (fRead + 1) fNext fTotal fRead fAlive fStop finished := by
  ctl_tac h

/-- the feeder never sees its stop event inside its loop -/
theorem ctl_F_stop_false (h : CtlV g cur .stopIsSet sending dataCnt fNext fTotal fRead fAlive fStop finished) :
    fStop = false := by
  have := h.stopF
  cases fStop <;> simp_all

theorem ctl_F_stopIsSet (h : CtlV g cur .stopIsSet sending dataCnt fNext fTotal fRead fAlive fStop finished) :
    CtlV g cur .runWait sending dataCnt fNext fTotal fRead fAlive fStop finished := by
  ctl_tac h

theorem ctl_F_runWait1 (h : CtlV g cur .runWait sending dataCnt fNext fTotal fRead fAlive fStop finished)
    (hn : fNext + 1 < fTotal) :
    CtlV g cur .put sending dataCnt (fNext + 1) fTotal fRead fAlive fStop finished := by
  ctl_tac h

theorem ctl_F_runWait2 (h : CtlV g cur .runWait sending dataCnt fNext fTotal fRead fAlive fStop finished)
    (hn : ¬ fNext + 1 < fTotal) :
    CtlV g cur .wrSending sending dataCnt (fNext + 1) fTotal fRead fAlive fStop finished := by
  ctl_tac h

theorem ctl_F_wrSending (h : CtlV g cur .wrSending sending dataCnt fNext fTotal fRead fAlive fStop finished) :
    CtlV g cur .token false dataCnt fNext fTotal fRead fAlive fStop finished := by
  ctl_tac h

theorem ctl_F_token (h : CtlV g cur .token sending dataCnt fNext fTotal fRead fAlive fStop finished) :
    CtlV g cur .idle sending dataCnt fNext fTotal fRead false fStop finished := by
  ctl_tac h

/-- a running feeder: the consumer is in a call and past `fStart` -/
theorem ctl_running (h : CtlV g cur fpc sending dataCnt fNext fTotal fRead fAlive fStop finished) (hf : fpc ≠ .idle) :
    g.pre = false ∧ cur.isSome = true := by
  have h8 := h.preIdle
  have h12 := h.noCallF
  refine ⟨?_, ?_⟩
  · cases hp : g.pre <;> simp_all
  · cases cur <;> simp_all

/-! ### consumer steps -/

/-- only the relevant bits of the signature matter -/
theorem ctl_congr {g' : CSig} (h : CtlV g cur fpc sending dataCnt fNext fTotal fRead fAlive fStop finished)
    (hg : SigOk g') (e1 : g'.pre = g.pre) (e2 : g'.post = g.post) (e3 : g'.exit = g.exit) (e4 : g'.rd = g.rd)
    (e5 : g'.rj = g.rj) (e6 : g'.ws = g.ws) (e7 : g'.wd = g.wd) (e8 : g'.fs = g.fs) :
    CtlV g' cur fpc sending dataCnt fNext fTotal fRead fAlive fStop finished := by
  obtain ⟨_,h1,h2,h3,h4,h5,h6,h7,h8,h9,h10,h11,h12,h13,h14,h15,h16,h17⟩ := h
  refine ⟨hg, ?_, ?_, ?_, ?_, ?_, ?_, ?_, ?_, ?_, ?_, ?_, ?_, ?_, ?_, ?_, ?_, ?_⟩ <;> grind

/-- `finished` matters only after the loop -/
theorem ctl_fin {finished' : Nat} (h : CtlV g cur fpc sending dataCnt fNext fTotal fRead fAlive fStop finished)
    (hp : g.post = false) : CtlV g cur fpc sending dataCnt fNext fTotal fRead fAlive fStop finished' := by
  ctl_tac h

theorem ctl_next_some {call : Call} (h : CtlV g cur fpc sending dataCnt fNext fTotal fRead fAlive fStop finished)
    (hf : fpc = .idle) :
    CtlV (csig .rInitSet) (some call) fpc sending dataCnt fNext fTotal fRead fAlive fStop 0 := by
  obtain ⟨_,h1,h2,h3,h4,h5,h6,h7,h8,h9,h10,h11,h12,h13,h14,h15,h16,h17⟩ := h
  refine ⟨sigOk_csig _, ?_, ?_, ?_, ?_, ?_, ?_, ?_, ?_, ?_, ?_, ?_, ?_, ?_, ?_, ?_, ?_, ?_⟩ <;>
    simp_all [csig, preStartPc, postLoopPc, exitPc, rjPc, rdPc, wsPc, wdPc, fsPc]

theorem ctl_next_none (h : CtlV g cur fpc sending dataCnt fNext fTotal fRead fAlive fStop finished)
    (hf : fpc = .idle) :
    CtlV (csig .done) none fpc sending dataCnt fNext fTotal fRead fAlive fStop finished := by
  obtain ⟨_,h1,h2,h3,h4,h5,h6,h7,h8,h9,h10,h11,h12,h13,h14,h15,h16,h17⟩ := h
  refine ⟨sigOk_csig _, ?_, ?_, ?_, ?_, ?_, ?_, ?_, ?_, ?_, ?_, ?_, ?_, ?_, ?_, ?_, ?_, ?_⟩ <;>
    simp_all [csig, preStartPc, postLoopPc, exitPc, rjPc, rdPc, wsPc, wdPc, fsPc]

macro "ctl_pc" h:ident : tactic => `(tactic| (
  obtain ⟨_,h1,h2,h3,h4,h5,h6,h7,h8,h9,h10,h11,h12,h13,h14,h15,h16,h17⟩ := $h
  refine ⟨sigOk_csig _, ?_, ?_, ?_, ?_, ?_, ?_, ?_, ?_, ?_, ?_, ?_, ?_, ?_, ?_, ?_, ?_, ?_⟩ <;>
    simp only [csig, preStartPc, postLoopPc, exitPc, rjPc, rdPc, wsPc, wdPc, fsPc] at * <;> grind))

theorem ctl_C_fInitSet (h : CtlV (csig .fInitSet) cur fpc sending dataCnt fNext fTotal fRead fAlive fStop finished) :
    CtlV (csig .wrSending) cur fpc sending dataCnt fNext fTotal fRead fAlive false finished := by
  ctl_pc h

theorem ctl_C_wrSending (h : CtlV (csig .wrSending) cur fpc sending dataCnt fNext fTotal fRead fAlive fStop finished) :
    CtlV (csig .wrDataCnt) cur fpc true dataCnt fNext fTotal fRead fAlive fStop finished := by
  ctl_pc h

theorem ctl_C_wrDataCnt (h : CtlV (csig .wrDataCnt) cur fpc sending dataCnt fNext fTotal fRead fAlive fStop finished) :
    CtlV (csig .fStart) cur fpc sending 0 fNext fTotal fRead fAlive fStop finished := by
  ctl_pc h

theorem ctl_C_fStart {call : Call}
    (h : CtlV (csig .fStart) (some call) fpc sending dataCnt fNext fTotal fRead fAlive fStop finished) :
    CtlV (csig .rdSending) (some call) (if call.chunks = 0 then .wrSending else .put) sending dataCnt 0 call.chunks
      fRead true fStop finished := by
  by_cases hz : call.chunks = 0
  · simp only [hz, if_true]
    ctl_pc h
  · simp only [hz, if_false]
    ctl_pc h

theorem ctl_C_rdSending_f (h : CtlV (csig .rdSending) cur fpc sending dataCnt fNext fTotal fRead fAlive fStop finished)
    (hs : sending = false) :
    CtlV (csig .rdDataCnt) cur fpc sending dataCnt fNext fTotal fRead fAlive fStop finished := by
  ctl_pc h

theorem ctl_C_rdDataCnt_t (h : CtlV (csig .rdDataCnt) cur fpc sending dataCnt fNext fTotal fRead fAlive fStop finished) :
    CtlV (csig .qsize1) cur fpc sending dataCnt fNext fTotal fRead fAlive fStop finished := by
  ctl_pc h

/-- leaving the loop: everything sent has been emitted -/
theorem ctl_C_rdDataCnt_f (h : CtlV (csig .rdDataCnt) cur fpc sending dataCnt fNext fTotal fRead fAlive fStop finished)
    (hn : ¬ finished < dataCnt) (hle : cur.isSome → sending = false → finished ≤ fTotal) :
    CtlV (csig .fStopSet) cur fpc sending dataCnt fNext fTotal fRead fAlive fStop finished := by
  have hcur : cur.isSome = true := by
    have := h.noCall
    cases cur <;> simp_all [csig, preStartPc, exitPc]
  have hsend : sending = false := h.readCnt (by simp [csig, rdPc])
  have hle' := hle hcur hsend
  have hd : dataCnt = fTotal := by
    have h2 := h.sendingTrue (by simp [csig, preStartPc]) hcur
    have h6 := h.cntDone (by simp [csig, preStartPc]) hcur
    cases fpc <;> simp_all
  ctl_pc h

theorem ctl_C_fStopSet (h : CtlV (csig .fStopSet) cur fpc sending dataCnt fNext fTotal fRead fAlive fStop finished) :
    CtlV (csig .fJoin) cur fpc sending dataCnt fNext fTotal fRead fAlive true finished := by
  have hcur : cur.isSome = true := by
    have := h.noCall
    cases cur <;> simp_all [csig, preStartPc, exitPc]
  have hsend : sending = false := (h.post (by simp [csig, postLoopPc])).1
  have h2 := h.sendingTrue (by simp [csig, preStartPc]) hcur
  have hf : fpc = .token ∨ fpc = .idle := by cases fpc <;> simp_all
  ctl_pc h

theorem ctl_idle_of_dead (h : CtlV g cur fpc sending dataCnt fNext fTotal fRead fAlive fStop finished)
    (ha : fAlive = false) : fpc = .idle := by
  have := h.alive
  cases fpc <;> simp_all

theorem ctl_C_fJoin (h : CtlV (csig .fJoin) cur fpc sending dataCnt fNext fTotal fRead fAlive fStop finished)
    (ha : fAlive = false) :
    CtlV (csig .rPutNone) cur fpc sending dataCnt fNext fTotal fRead fAlive fStop finished := by
  have hf := ctl_idle_of_dead h ha
  ctl_pc h

end ctl

/-! ## data part -/

section data
variable {be : Bool} {cur : Option Call} {n : Nat} {fl batch buffer : List Nat} {fin wf : Nat} {co : List Nat}

theorem data_perm {fl' : List Nat} (h : DataV be cur n fl batch buffer fin wf co) (hp : fl'.Perm fl) :
    DataV be cur n fl' batch buffer fin wf co := by
  refine ⟨fun hc => ?_, fun hc => ?_, h.fin, h.ordered, h.unordered, h.batchEmpty⟩
  · exact (((hp.append_right _).append_right _).append_right _).trans (h.conserve hc)
  · have := h.idle hc
    refine ⟨?_, this.2⟩
    rw [this.1] at hp
    exact hp.eq_nil

theorem data_n {n' : Nat} (h : DataV be cur n fl batch buffer fin wf co) (hn : cur.isSome → n' = n) :
    DataV be cur n' fl batch buffer fin wf co := by
  refine ⟨fun hc => ?_, h.idle, h.fin, h.ordered, h.unordered, h.batchEmpty⟩
  rw [hn hc]; exact h.conserve hc

theorem data_be {be' : Bool} (h : DataV be cur n fl batch buffer fin wf co) (hb : be' = true → batch = []) :
    DataV be' cur n fl batch buffer fin wf co :=
  ⟨h.conserve, h.idle, h.fin, h.ordered, h.unordered, hb⟩

/-- the feeder puts chunk `n` -/
theorem data_put {fl' : List Nat} (h : DataV be cur n fl batch buffer fin wf co) (hc : cur.isSome = true)
    (hp : fl'.Perm (fl ++ [n])) : DataV be cur (n + 1) fl' batch buffer fin wf co := by
  refine ⟨fun _ => ?_, fun hn => by simp [hn] at hc, h.fin, h.ordered, h.unordered, h.batchEmpty⟩
  have h1 := h.conserve hc
  rw [range_succ]
  rw [perm_iff_count] at *
  intro x
  have := h1 x; have := hp x
  simp only [count_append] at *
  omega

/-- the consumer takes result `i` from the results queue into the batch -/
theorem data_take {fl' : List Nat} {i : Nat} {be' : Bool} (h : DataV be cur n fl batch buffer fin wf co)
    (hp : fl.Perm (i :: fl')) (hb : be' = false) : DataV be' cur n fl' (batch ++ [i]) buffer fin wf co := by
  refine ⟨fun hc => ?_, fun hn => ?_, h.fin, h.ordered, h.unordered, fun h => by simp [hb] at h⟩
  · have h1 := h.conserve hc
    rw [perm_iff_count] at *
    intro x
    have := h1 x; have := hp x
    simp only [count_append, count_cons, count_nil] at *
    omega
  · have := (h.idle hn).1
    rw [this] at hp
    exact absurd hp.nil_eq (by simp)

theorem data_batch_nil {be' : Bool} (h : DataV be cur n fl batch buffer fin wf co) (hb : batch = []) :
    DataV be' cur n fl [] buffer fin wf co := by
  subst hb
  exact ⟨h.conserve, h.idle, h.fin, h.ordered, h.unordered, fun _ => rfl⟩

/-- `consumeBatch` -/
theorem data_consume {call : Call} {be' : Bool} {buf' em : List Nat} {wf' : Nat}
    (h : DataV be cur n fl batch buffer fin wf co) (hc : cur = some call)
    (hp : (batch ++ buffer).Perm (em ++ buf'))
    (ho : call.ordered = true → ∃ k, wf' = wf + k ∧ em = List.range' wf k)
    (hu : call.ordered = false → buf' = buffer ∧ wf' = wf ∧ em = batch) :
    DataV be' cur n fl [] buf' (fin + em.length) wf' (co ++ em) := by
  have hcs : cur.isSome = true := by simp [hc]
  refine ⟨fun _ => ?_, fun hn => by simp [hn] at hc, fun _ => ?_, fun c hcc hco => ?_, fun c hcc hco => ?_, fun _ => rfl⟩
  · have h1 := h.conserve hcs
    rw [perm_iff_count] at *
    intro x
    have := h1 x; have := hp x
    simp only [count_append, count_nil] at *
    omega
  · rw [h.fin hcs, length_append]
  · have e : c = call := by rw [hc] at hcc; exact (Option.some.inj hcc).symm
    subst e
    obtain ⟨k, rfl, rfl⟩ := ho hco
    rw [h.ordered c hc hco, range_eq_range', range_eq_range']
    have := @range'_append 0 wf k 1
    simpa using this
  · have e : c = call := by rw [hc] at hcc; exact (Option.some.inj hcc).symm
    subst e
    rw [(hu hco).1]
    exact h.unordered c hc hco

/-- nothing is in flight before the feeder is started and after the loop has been left -/
theorem data_quiet (h : DataV be cur n fl batch buffer fin wf co) (hn : cur.isSome → n ≤ fin) :
    fl = [] ∧ batch = [] ∧ buffer = [] ∧ (cur.isSome → co.Perm (List.range n)) := by
  cases hc : cur with
  | none => exact ⟨(h.idle hc).1, (h.idle hc).2.1, (h.idle hc).2.2, fun h => by simp at h⟩
  | some c =>
    have hcs : cur.isSome = true := by simp [hc]
    have h1 := h.conserve hcs
    have h2 := h.fin hcs
    have h3 := hn hcs
    have hl := h1.length_eq
    simp only [length_append, length_range] at hl
    have e1 : fl = [] := length_eq_zero_iff.1 (by omega)
    have e2 : batch = [] := length_eq_zero_iff.1 (by omega)
    have e3 : buffer = [] := length_eq_zero_iff.1 (by omega)
    refine ⟨e1, e2, e3, fun _ => ?_⟩
    simpa [e1, e2, e3] using h1

theorem data_fin_le (h : DataV be cur n fl batch buffer fin wf co) (hc : cur.isSome = true) : fin ≤ n := by
  have hl := (h.conserve hc).length_eq
  have := h.fin hc
  simp only [length_append, length_range] at hl
  omega

theorem data_next_some {call : Call} {wq : List Nat} (hq : wq = []) : DataV true (some call) 0 wq [] [] 0 0 [] := by
  subst hq
  exact ⟨fun _ => by simp, fun h => by simp at h, fun _ => rfl, fun _ _ _ => by simp, fun _ _ _ => rfl, fun _ => rfl⟩

theorem data_next_none {wq : List Nat} {be' : Bool} (hq : wq = []) : DataV be' none n wq [] [] fin wf co := by
  subst hq
  exact ⟨fun h => by simp at h, fun _ => ⟨rfl, rfl, rfl⟩, fun h => by simp at h, fun _ h => by simp at h,
    fun _ h => by simp at h, fun _ => rfl⟩

end data

/-! ## worker part -/

section wrk
variable {en : Bool} {rpc : RPc} {ws : List Worker} {wc : Nat}

theorem wrk_rpc {en' : Bool} {rpc' : RPc} (h : WrkV en rpc ws wc) (hs : ∀ nw, rpc' = .start nw → rpc = .start nw)
    (he : en' = true → rpc' = .idle) : WrkV en' rpc' ws wc :=
  ⟨h.wids, h.widLt, h.heldPc, fun nw hr => h.startFresh nw (hs nw hr), he⟩

def HeldOk (w : Worker) : Prop :=
  w.held.isSome → (w.pc = .lockAcq ∨ w.pc = .putNowait ∨ w.pc = .putBlock ∨ (w.pc = .lockRel ∧ w.full = true))

theorem safe_mem_upd {ws : List Worker} {w' x : Worker} (hx : x ∈ ws.map (fun y => if y.wid = w'.wid then w' else y)) :
    x = w' ∨ (x ∈ ws ∧ x.wid ≠ w'.wid) := by
  rw [mem_map] at hx
  obtain ⟨y, hy, rfl⟩ := hx
  by_cases e : y.wid = w'.wid
  · left; simp [e]
  · right; simp [e, hy]

theorem wrk_update {en' : Bool} {rpc' : RPc} {wid : Nat} {w w' : Worker} (h : WrkV en rpc ws wc)
    (hf : ws.find? (fun x => decide (x.wid = wid)) = some w) (hw' : w'.wid = w.wid) (hH : HeldOk w')
    (hs : ∀ nw, rpc' = .start nw → rpc = .start nw ∧ w.pc ≠ .notStarted)
    (he : en' = true → rpc' = .idle) :
    WrkV en' rpc' (ws.map (fun x => if x.wid = w'.wid then w' else x)) wc := by
  have hmem : w ∈ ws := mem_of_find?_eq_some hf
  refine ⟨?_, ?_, ?_, ?_, he⟩
  · have : (ws.map (fun x => if x.wid = w'.wid then w' else x)).map (·.wid) = ws.map (·.wid) := by
      rw [map_map]
      apply map_congr_left
      intro a _
      by_cases e : a.wid = w'.wid <;> simp [e]
    rw [this]; exact h.wids
  · intro x hx
    rcases safe_mem_upd hx with rfl | ⟨hx, _⟩
    · rw [hw']; exact h.widLt w hmem
    · exact h.widLt x hx
  · intro x hx
    rcases safe_mem_upd hx with rfl | ⟨hx, _⟩
    · exact hH
    · exact h.heldPc x hx
  · intro nw hr x hx hxn
    obtain ⟨hr', hns⟩ := hs nw hr
    rcases safe_mem_upd hx with rfl | ⟨hx, _⟩
    · exact absurd (h.startFresh nw hr' w hmem (by rw [← hw']; exact hxn)) hns
    · exact h.startFresh nw hr' x hx hxn

theorem wrk_join {cfg : Cfg} {wid : Nat} (h : WrkV en (.join wid) ws wc) :
    WrkV en (.start wc) (ws ++ [mkWorker cfg wc]) (wc + 1) := by
  refine ⟨?_, ?_, ?_, ?_, ?_⟩
  · rw [map_append, nodup_append]
    refine ⟨h.wids, by simp, ?_⟩
    intro a ha b hb
    rw [mem_map] at ha
    obtain ⟨x, hx, rfl⟩ := ha
    have := h.widLt x hx
    simp [mkWorker] at hb
    omega
  · intro x hx
    rw [mem_append] at hx
    rcases hx with hx | hx
    · have := h.widLt x hx; omega
    · simp at hx; subst hx; simp [mkWorker]
  · intro x hx
    rw [mem_append] at hx
    rcases hx with hx | hx
    · exact h.heldPc x hx
    · simp at hx; subst hx; simp [mkWorker]
  · intro nw hr x hx hxn
    injection hr with hr
    subst hr
    rw [mem_append] at hx
    rcases hx with hx | hx
    · have := h.widLt x hx; omega
    · simp at hx; subst hx; simp [mkWorker]
  · intro he
    have := h.enterR he
    simp at this

/-- flight under the update of one worker -/
theorem flight_update {wid : Nat} {w w' : Worker} {wq wq' rq rq' : List (Option Nat)}
    (hnd : (ws.map (·.wid)).Nodup) (hf : ws.find? (fun x => decide (x.wid = wid)) = some w) (hw' : w'.wid = wid)
    (hp : (chunksOf wq' ++ w'.held.toList ++ chunksOf rq').Perm (chunksOf wq ++ w.held.toList ++ chunksOf rq)) :
    (flightL wq' (ws.map (fun x => if x.wid = w'.wid then w' else x)) rq').Perm (flightL wq ws rq) := by
  obtain ⟨rest, h1, h2⟩ := heldL_update ws wid w w' hnd hf hw'
  unfold flightL
  rw [perm_iff_count] at *
  intro x
  have := h1 x; have := h2 x; have := hp x
  simp only [count_append] at *
  omega

end wrk

end WindVerif.Pool
