import WindVerif.Proofs.StorageInv1
/-! Auxiliary development for `Storage.lean`: symbolic execution of the critical section of `flush()`. -/
namespace WindVerif.Storage

theorem lookup_none_iff (l : List (Nat × List (Option Nat))) (w : Nat) :
    l.lookup w = none ↔ ∀ q ∈ l, q.1 ≠ w := by
  induction l with
  | nil => simp
  | cons a l ih =>
    obtain ⟨k, v⟩ := a
    by_cases hk : w = k
    · subst hk; simp
    · have : (w == k) = false := by simpa using hk
      simp only [List.lookup_cons, this, ih, List.mem_cons, forall_eq_or_imp]
      constructor
      · intro h; exact ⟨fun h' => hk h'.symm, h⟩
      · intro h; exact h.2

theorem fileOf_filter_none (s : St) (P : Nat × List (Option Nat) → Bool) (w : Nat) (h : fileOf s w = none) :
    fileOf { s with files := s.files.filter P } w = none := by
  unfold fileOf at h ⊢
  rw [lookup_none_iff] at h ⊢
  intro q hq; exact h q (List.mem_filter.1 hq).1

theorem fileOf_filter_removed (s : St) (w : Nat) :
    fileOf { s with files := s.files.filter (fun q => some q.1 ≠ some w) } w = none := by
  unfold fileOf
  rw [lookup_none_iff]
  intro q hq
  have := (List.mem_filter.1 hq).2
  simpa using this

theorem getElem?_set_self' {l : List Proc} {i : Nat} {p p' : Proc} (h : l[i]? = some p) : (l.set i p')[i]? = some p' := by
  have hi : i < l.length := by
    rcases Nat.lt_or_ge i l.length with h' | h'
    · exact h'
    · simp [List.getElem?_eq_none h'] at h
  simp [hi]

theorem run_append' {s s' s'' : St} {a b : List Nat} (h1 : run s a = some s') (h2 : run s' b = some s'') :
    run s (a ++ b) = some s'' := by
  induction a generalizing s with
  | nil => simp only [run, Option.some.injEq] at h1; subst h1; exact h2
  | cons i r ih =>
    simp only [run, List.cons_append] at h1 ⊢
    split at h1
    · cases h1
    · exact ih h1

/-- the loop `for p in self._file_paths: os.remove(p)` -/
theorem flush_loop (i : Nat) (n : Nat) : ∀ (s : St) (p : Proc), s.procs[i]? = some p → p.pc = .fPathsGet →
    s.paths.length - p.tmp = n →
    ∃ sched s' p', run s sched = some s' ∧ (∀ j ∈ sched, j = i) ∧ s'.procs[i]? = some p' ∧ p'.pc = .fPathsClear ∧
      s'.paths = s.paths ∧ (∀ w, fileOf s w = none → fileOf s' w = none) ∧
      (∀ m w, p.tmp ≤ m → s.paths[m]? = some (some w) → fileOf s' w = none) := by
  induction n with
  | zero =>
    intro s p hp hpc hn
    have hge : ¬ p.tmp < s.paths.length := by omega
    refine ⟨[i], setProc s i { p with pc := .fPathsClear }, { p with pc := .fPathsClear }, ?_, by simp, ?_, rfl, rfl,
      fun w h => h, ?_⟩
    · simp [run, step, hp, hpc, hge]
    · exact getElem?_set_self' hp
    · intro m w hm h
      rw [List.getElem?_eq_none (by omega)] at h; cases h
  | succ n ih =>
    intro s p hp hpc hn
    have hlt : p.tmp < s.paths.length := by omega
    let p1 : Proc := { p with pc := .fRemove }
    let s1 : St := setProc s i p1
    have hp1 : s1.procs[i]? = some p1 := getElem?_set_self' hp
    have hs1 : step s i = some s1 := by simp [step, hp, hpc, hlt, s1, p1]
    let w0 : Option Nat := (s.paths[p.tmp]?).getD none
    let p2 : Proc := { p with tmp := p.tmp + 1, pc := .fPathsGet }
    let s2 : St := setProc { s1 with files := s1.files.filter (fun q => some q.1 ≠ w0) } i p2
    have hp2 : s2.procs[i]? = some p2 := getElem?_set_self' (l := s1.procs) hp1
    have hs2 : step s1 i = some s2 := by
      simp only [step, getProc_eq, hp1]
      rfl
    obtain ⟨sched, s', p', hr, hall, hp', hpc', hpaths, hnone, hrem⟩ := ih s2 p2 hp2 rfl (by show s.paths.length - (p.tmp + 1) = n; omega)
    refine ⟨i :: i :: sched, s', p', ?_, ?_, hp', hpc', hpaths, ?_, ?_⟩
    · simp only [run, hs1, hs2]; exact hr
    · intro j hj
      simp only [List.mem_cons] at hj
      rcases hj with rfl | rfl | hj
      · rfl
      · rfl
      · exact hall j hj
    · intro w hw
      apply hnone
      exact fileOf_filter_none s _ w hw
    · intro m w hm hmw
      rcases Nat.lt_or_ge p.tmp m with h | h
      · exact hrem m w h hmw
      · have : m = p.tmp := by omega
        subst this
        apply hnone
        have hw0 : w0 = some w := by simp [w0, hmw]
        show fileOf { s with files := s.files.filter (fun q => some q.1 ≠ w0) } w = none
        rw [hw0]
        exact fileOf_filter_removed s w

theorem flush_run (s : St) (i : Nat) (p : Proc) (hp : s.procs[i]? = some p) (hpc : p.pc = .fPathsGet) (hk : p.tmp = 0) :
    ∃ sched s' p', run s sched = some s' ∧ (∀ j ∈ sched, j = i) ∧ s'.procs[i]? = some p' ∧ p'.pc = .fRel ∧
      s'.paths = [] ∧ s'.index = [] ∧ s'.cnt = 0 ∧ s'.wf = 0 ∧
      (∀ w, some w ∈ s.paths → fileOf s' w = none) := by
  obtain ⟨sched, s1, p1, hr, hall, hp1, hpc1, hpaths, _, hrem⟩ := flush_loop i _ s p hp hpc rfl
  let p2 : Proc := { p1 with pc := .fIdxClear }
  let s2 : St := setProc { s1 with paths := [] } i p2
  have hs2 : step s1 i = some s2 := by simp [step, hp1, hpc1, s2, p2]
  have hp2 : s2.procs[i]? = some p2 := getElem?_set_self' (l := s1.procs) hp1
  let p3 : Proc := { p2 with pc := .fCntZero }
  let s3 : St := setProc { s2 with index := [] } i p3
  have hs3 : step s2 i = some s3 := by simp only [step, getProc_eq, hp2]; rfl
  have hp3 : s3.procs[i]? = some p3 := getElem?_set_self' (l := s2.procs) hp2
  let p4 : Proc := { p3 with pc := .fWfZero }
  let s4 : St := setProc { s3 with cnt := 0 } i p4
  have hs4 : step s3 i = some s4 := by simp only [step, getProc_eq, hp3]; rfl
  have hp4 : s4.procs[i]? = some p4 := getElem?_set_self' (l := s3.procs) hp3
  let p5 : Proc := { p4 with pc := .fRel }
  let s5 : St := setProc { s4 with wf := 0 } i p5
  have hs5 : step s4 i = some s5 := by simp only [step, getProc_eq, hp4]; rfl
  have hp5 : s5.procs[i]? = some p5 := getElem?_set_self' (l := s4.procs) hp4
  have hr' : run s1 [i, i, i, i] = some s5 := by simp only [run, hs2, hs3, hs4, hs5]
  refine ⟨sched ++ [i, i, i, i], s5, p5, run_append' hr hr', ?_, hp5, rfl, rfl, rfl, rfl, rfl, ?_⟩
  · intro j hj
    rcases List.mem_append.1 hj with h | h
    · exact hall j h
    · simp at h; exact h
  · intro w hw
    obtain ⟨m, hm⟩ := List.getElem?_of_mem hw
    exact hrem m w (by omega) hm

end WindVerif.Storage
