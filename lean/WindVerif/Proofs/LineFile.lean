import WindVerif.Proofs.LineFileAux
/-! Theorems about the model of the line files (C11) and their mutable variants (C12). -/
namespace WindVerif.LineFile

/-! ### the reference: `content.split('\n')`, without the empty piece a final `'\n'` (or an empty file) leaves -/

def splitNL : Str → List Str
  | [] => [[]]
  | c :: r =>
    if c = '\n' then [] :: splitNL r
    else match splitNL r with
      | [] => [[c]]          -- unreachable, `splitNL` never returns `[]`
      | l :: ls => (c :: l) :: ls

def refLines (content : Str) : List Str :=
  let p := splitNL content
  if p.getLast? = some [] then p.dropLast else p

/-- the line that starts at byte offset `o`, without its terminator -/
def lineAt (content : Str) (o : Nat) : Option Str := (dropBytes content o).map (fun rest => rstripNL (takeLine rest))

theorem splitNL_ne_nil (s : Str) : splitNL s ≠ [] := by
  induction s with
  | nil => simp [splitNL]
  | cons c r ih =>
    unfold splitNL
    split
    · simp
    · split <;> simp

theorem splitNL_append {body : Str} (hb : '\n' ∉ body) (rest : Str) :
    splitNL (body ++ '\n' :: rest) = body :: splitNL rest := by
  induction body with
  | nil => simp [splitNL]
  | cons c b ih =>
    have hc : c ≠ '\n' := fun h => hb (by simp [h])
    have hb' : '\n' ∉ b := fun h => hb (by simp [h])
    rw [List.cons_append, splitNL, if_neg hc, ih hb']

theorem splitNL_nonl {s : Str} (hs : '\n' ∉ s) : splitNL s = [s] := by
  induction s with
  | nil => rfl
  | cons c b ih =>
    have hc : c ≠ '\n' := fun h => hs (by simp [h])
    have hb' : '\n' ∉ b := fun h => hs (by simp [h])
    rw [splitNL, if_neg hc, ih hb']

theorem refLines_nil : refLines [] = [] := by
  simp [refLines, splitNL]

theorem refLines_append {body : Str} (hb : '\n' ∉ body) (rest : Str) :
    refLines (body ++ '\n' :: rest) = body :: refLines rest := by
  unfold refLines
  simp only [splitNL_append hb]
  have hne := splitNL_ne_nil rest
  obtain ⟨x, t, ht⟩ := List.exists_cons_of_ne_nil hne
  rw [ht]
  simp only [List.getLast?_cons_cons, List.dropLast_cons_cons]
  split <;> rfl

theorem refLines_nonl {s : Str} (hs : '\n' ∉ s) (hne : s ≠ []) : refLines s = [s] := by
  unfold refLines
  simp [splitNL_nonl hs, hne]

theorem refLines_unfold (s : Str) (hne : s ≠ []) :
    refLines s = rstripNL (takeLine s) :: refLines (s.drop (takeLine s).length) := by
  rcases decomp s with ⟨body, rest, h1, h2⟩ | h
  · subst h1
    rw [refLines_append h2, takeLine_append h2, rstripNL_append h2]
    congr 2
    have : (body ++ ['\n']).length = body.length + 1 := by simp
    rw [this, List.drop_append]
    simp [List.drop_eq_nil_of_le]
  · rw [refLines_nonl h hne, takeLine_nonl h, rstripNL_nonl h]
    simp [refLines_nil]

theorem indexGo_spec (content : Str) (n : Nat) : ∀ (s pre : Str) (off : Nat), s.length ≤ n → content = pre ++ s →
    byteLen pre = off →
    (indexGo off s).length = (refLines s).length ∧
    ∀ (i : Nat) (l : Str), (refLines s)[i]? = some l → ∃ o, (indexGo off s)[i]? = some o ∧ lineAt content o = some l := by
  induction n with
  | zero =>
    intro s pre off hn hc ho
    have : s = [] := List.eq_nil_of_length_eq_zero (by omega)
    subst this
    simp [indexGo_nil, refLines_nil]
  | succ n ih =>
    intro s pre off hn hc ho
    cases s with
    | nil => simp [indexGo_nil, refLines_nil]
    | cons c r =>
      rw [indexGo_cons, refLines_unfold (c :: r) (by simp)]
      have hpos := takeLine_length_pos c r
      have hsplit := takeLine_append_drop (c :: r)
      obtain ⟨ih1, ih2⟩ := ih ((c :: r).drop (takeLine (c :: r)).length) (pre ++ takeLine (c :: r))
        (off + byteLen (takeLine (c :: r)))
        (by simp only [List.length_drop, List.length_cons] at *; omega)
        (by rw [List.append_assoc, hsplit]; exact hc)
        (by rw [byteLen_append, ho])
      refine ⟨by simp [ih1], ?_⟩
      intro i l hl
      cases i with
      | zero =>
        simp only [List.getElem?_cons_zero, Option.some.injEq] at hl
        refine ⟨off, by simp, ?_⟩
        rw [lineAt, hc, ← ho, dropBytes_append, ← hl]; rfl
      | succ i =>
        simp only [List.getElem?_cons_succ] at hl ⊢
        exact ih2 i l hl

/-- the built index has one entry per `'\n'`-delimited line (an unterminated last line counts, a final `'\n'` adds none),
every offset is on a character boundary and is the start of the corresponding line -/
theorem indexFile_spec (content : Str) :
    (indexFile content).length = (refLines content).length ∧
    ∀ i, i < (refLines content).length →
      ∃ o, (indexFile content)[i]? = some o ∧ lineAt content o = (refLines content)[i]? := by
  obtain ⟨h1, h2⟩ := indexGo_spec content content.length content [] 0 (Nat.le_refl _) rfl rfl
  refine ⟨h1, ?_⟩
  intro i hi
  have hl : (refLines content)[i]? = some (refLines content)[i] := List.getElem?_eq_getElem hi
  obtain ⟨o, e1, e2⟩ := h2 i _ hl
  exact ⟨o, e1, by rw [hl]; exact e2⟩

/-! ### "the file presents the list `ls`" — independent of the handle's cursor -/

def EntryIs (content : Str) (e : Entry) (l : Str) : Prop :=
  match e with
  | .str s => s = l
  | .off o => lineAt content o = some l

def Good (f : LF) (ls : List Str) : Prop :=
  f.lines.length = ls.length ∧ ∀ (p : Nat) e l, f.lines[p]? = some e → ls[p]? = some l → EntryIs f.content e l

/-- what reads may change: only the cursor -/
def SameButCursor (f f' : LF) : Prop :=
  f'.content = f.content ∧ f'.lines = f.lines ∧ f'.dirty = f.dirty ∧ f'.closed = f.closed

theorem same_refl (f : LF) : SameButCursor f f := ⟨rfl, rfl, rfl, rfl⟩

theorem same_trans {f g k : LF} (h1 : SameButCursor f g) (h2 : SameButCursor g k) : SameButCursor f k := by
  obtain ⟨a1, a2, a3, a4⟩ := h1
  obtain ⟨b1, b2, b3, b4⟩ := h2
  exact ⟨b1.trans a1, b2.trans a2, b3.trans a3, b4.trans a4⟩

theorem good_same_aux {f f' : LF} {ls : List Str} (h : Good f ls) (hs : SameButCursor f f') : Good f' ls := by
  obtain ⟨hc, hl, -, -⟩ := hs
  unfold Good at *
  rw [hc, hl]; exact h

theorem new_good (content : Str) : Good (LF.new content none) (refLines content) := by
  obtain ⟨h1, h2⟩ := indexFile_spec content
  refine ⟨by simp [LF.new, h1], ?_⟩
  intro p e l he hl
  have hp : p < (refLines content).length := (List.getElem?_eq_some_iff.mp hl).1
  obtain ⟨o, e1, e2⟩ := h2 p hp
  simp only [LF.new, Option.getD_none, List.getElem?_map, e1, Option.map_some, Option.some.injEq] at he
  subst he
  rw [hl] at e2
  exact e2

/-- a caller-supplied offset index (any subset or permutation of line starts) is honoured -/
theorem new_custom_good (content : Str) (offs : List Nat) (ls : List Str)
    (h : offs.map (lineAt content) = ls.map some) : Good (LF.new content (some offs)) ls := by
  have hlen : offs.length = ls.length := by
    have := congrArg List.length h; simpa using this
  refine ⟨by simp [LF.new, hlen], ?_⟩
  intro p e l he hl
  simp only [LF.new, Option.getD_some, List.getElem?_map] at he
  have h2 := congrArg (·[p]?) h
  simp only [List.getElem?_map, hl] at h2
  cases ho : offs[p]? with
  | none => simp [ho] at he
  | some o =>
    simp [ho] at he h2
    subst he
    exact h2

theorem new_state (content : Str) (custom : Option (List Nat)) :
    (LF.new content custom).dirty = false ∧ (LF.new content custom).closed = true ∧
    (LF.new content custom).content = content := ⟨rfl, rfl, rfl⟩

theorem open_good (f : LF) (ls : List Str) (h : Good f ls) :
    Good f.open ls ∧ f.open.closed = false ∧ f.open.dirty = f.dirty ∧ f.open.content = f.content := by
  unfold LF.open
  cases hc : f.closed with
  | true => simp; exact h
  | false => simp [hc]; exact h

/-- reading position `p` returns `ls[p]` whatever the cursor is, and moves nothing but the cursor -/
theorem getPos_spec (f : LF) (ls : List Str) (h : Good f ls) (p : Nat) (l : Str) (hp : ls[p]? = some l) :
    ∃ f', f.getPos p = .ok (f', l) ∧ SameButCursor f f' := by
  obtain ⟨hlen, hE⟩ := h
  have hp' : p < ls.length := (List.getElem?_eq_some_iff.mp hp).1
  have hpl : p < f.lines.length := by omega
  have he : f.lines[p]? = some f.lines[p] := List.getElem?_eq_getElem hpl
  have hent := hE p _ l he hp
  unfold LF.getPos
  rw [he]
  cases hq : f.lines[p] with
  | str s =>
    rw [hq] at hent; simp only [EntryIs] at hent; subst hent
    exact ⟨f, rfl, same_refl f⟩
  | off o =>
    rw [hq] at hent; simp only [EntryIs, lineAt, Option.map_eq_some_iff] at hent
    obtain ⟨rest, hr, hl⟩ := hent
    simp [LF.readAt, hr, hl, SameButCursor]

/-- `f[i]` for an `int`: like a list, positive and negative `i`; `IndexError` outside; `RuntimeError` when closed -/
theorem getInt_spec (f : LF) (ls : List Str) (h : Good f ls) (i : Int) :
    (f.closed = true → f.getInt i = .error .runtimeError) ∧
    (f.closed = false → match Py.index ls.length i with
      | some p => ∃ f' l, ls[p]? = some l ∧ f.getInt i = .ok (f', l) ∧ SameButCursor f f'
      | none => f.getInt i = .error .indexError) := by
  constructor
  · intro hc; simp [LF.getInt, hc]
  · intro hc
    unfold LF.getInt
    rw [h.1]
    cases hi : Py.index ls.length i with
    | none => simp [hc]
    | some p =>
      have hp := index_lt hi
      obtain ⟨f', h1, h2⟩ := getPos_spec f ls h p ls[p] (List.getElem?_eq_getElem hp)
      exact ⟨f', ls[p], List.getElem?_eq_getElem hp, by simp [hc, h1], h2⟩

theorem getMany_spec (sel : List Int) : ∀ (f : LF) (ls : List Str), Good f ls →
    (∀ ps, sel.mapM (Py.index ls.length) = some ps →
      ∃ f' out, f.getMany sel = .ok (f', out) ∧ out.map some = ps.map (ls[·]?) ∧ SameButCursor f f') ∧
    (sel.mapM (Py.index ls.length) = none → f.getMany sel = .error .indexError) := by
  induction sel with
  | nil =>
    intro f ls h
    constructor
    · intro ps hps
      simp at hps; subst hps
      exact ⟨f, [], rfl, rfl, same_refl f⟩
    · intro hn; simp at hn
  | cons i r ih =>
    intro f ls h
    rw [List.mapM_cons]
    unfold LF.getMany
    rw [h.1]
    cases hi : Py.index ls.length i with
    | none => simp
    | some p =>
      have hp := index_lt hi
      obtain ⟨f1, h1, h2⟩ := getPos_spec f ls h p ls[p] (List.getElem?_eq_getElem hp)
      have hg1 := good_same_aux h h2
      obtain ⟨ihA, ihB⟩ := ih f1 ls hg1
      simp only [h1]
      constructor
      · intro ps hps
        cases hr : List.mapM (Py.index ls.length) r with
        | none => simp [hr] at hps
        | some qs =>
          simp [hr] at hps
          subst hps
          obtain ⟨f2, out, e1, e2, e3⟩ := ihA qs hr
          refine ⟨f2, ls[p] :: out, by simp [e1], ?_, same_trans h2 e3⟩
          simp [e2, List.getElem?_eq_getElem hp]
      · intro hn
        cases hr : List.mapM (Py.index ls.length) r with
        | none => simp [ihB hr]
        | some qs => simp [hr] at hn

/-- an iterable of indices selects like a list -/
theorem getIter_spec (f : LF) (ls : List Str) (h : Good f ls) (hc : f.closed = false) (sel : List Int) :
    (∀ ps, sel.mapM (Py.index ls.length) = some ps →
      ∃ f' out, f.getIter sel = .ok (f', out) ∧ out.map some = ps.map (ls[·]?) ∧ SameButCursor f f') ∧
    (sel.mapM (Py.index ls.length) = none → f.getIter sel = .error .indexError) := by
  have := getMany_spec sel f ls h
  simpa [LF.getIter, hc] using this

/-- `range(len)[slice]` only enumerates valid positions -/
theorem sliceIndices_lt (len : Nat) (s : Py.Slice) (idx : List Nat) (h : Py.sliceIndices len s = some idx) :
    ∀ p ∈ idx, p < len :=
  sliceIndices_lt_aux len s idx h

/-- a slice selects the positions `range(len)[slice]` enumerates -/
theorem getSlice_spec (f : LF) (ls : List Str) (h : Good f ls) (hc : f.closed = false) (s : Py.Slice) :
    (∀ idx, Py.sliceIndices ls.length s = some idx → (∀ p ∈ idx, p < ls.length) →
      ∃ f' out, f.getSlice s = .ok (f', out) ∧ out.map some = idx.map (ls[·]?) ∧ SameButCursor f f') ∧
    (Py.sliceIndices ls.length s = none → f.getSlice s = .error .valueError) := by
  unfold LF.getSlice
  rw [h.1]
  constructor
  · intro idx hidx hlt
    simp only [hc, hidx]
    exact (getMany_spec _ f ls h).1 idx (mapM_index_nat _ idx hlt)
  · intro hn; simp [hc, hn]

/-- one step of an iteration that has started: the `pos`-th line whatever happened to the handle in between (random
accesses, other iterations), then `StopIteration` -/
theorem iterNext_spec (f : LF) (ls : List Str) (h : Good f ls) (it : Iter) (hs : it.started = true)
    (ht : it.total = ls.length) :
    (∀ l, ls[it.pos]? = some l →
      ∃ f', f.iterNext it = .ok (f', { it with pos := it.pos + 1 }, some l) ∧ SameButCursor f f') ∧
    (it.total ≤ it.pos → f.iterNext it = .ok (f, it, none)) := by
  constructor
  · intro l hl
    have hp : it.pos < ls.length := (List.getElem?_eq_some_iff.mp hl).1
    obtain ⟨f', h1, h2⟩ := getPos_spec f ls h it.pos l hl
    refine ⟨f', ?_, h2⟩
    simp [LF.iterNext, hs, ht, hp, h1]
  · intro hle
    have : ¬ it.pos < it.total := by omega
    simp [LF.iterNext, hs, this]

/-- the first step fixes the length (and needs an open file) -/
theorem iterNext_start (f : LF) (it : Iter) (hs : it.started = false) :
    (f.closed = true → f.iterNext it = .error .runtimeError) ∧
    (f.closed = false → f.iterNext it = f.iterNext ⟨true, 0, f.lines.length⟩) := by
  constructor
  · intro hc; simp [LF.iterNext, hs, hc]
  · intro hc; simp [LF.iterNext, hs, hc]

/-- `SameButCursor` keeps `Good` -/
theorem good_of_same (f f' : LF) (ls : List Str) (h : Good f ls) (hs : SameButCursor f f') : Good f' ls :=
  good_same_aux h hs

/-! ### mutable variants: every edit acts on the presented list like the Python list operation -/

theorem good_set {f : LF} {ls : List Str} (h : Good f ls) (p : Nat) (s : Str) (d : Bool) :
    Good { f with lines := f.lines.set p (.str s), dirty := d } (ls.set p s) := by
  obtain ⟨hlen, hE⟩ := h
  refine ⟨by simp [hlen], ?_⟩
  intro q e l he hl
  simp only [List.getElem?_set] at he hl
  by_cases hpq : p = q
  · subst hpq
    rw [hlen] at he
    by_cases hp : p < ls.length
    · simp [hp] at he hl; subst he; subst hl; rfl
    · simp [hp] at he
  · simp only [hpq, if_false] at he hl
    exact hE q e l he hl

theorem good_eraseIdx {f : LF} {ls : List Str} (h : Good f ls) (p : Nat) (d : Bool) :
    Good { f with lines := f.lines.eraseIdx p, dirty := d } (ls.eraseIdx p) := by
  obtain ⟨hlen, hE⟩ := h
  refine ⟨by simp [List.length_eraseIdx, hlen], ?_⟩
  intro q e l he hl
  simp only [List.getElem?_eraseIdx] at he hl
  by_cases hpq : q < p
  · simp only [hpq, if_true] at he hl; exact hE q e l he hl
  · simp only [hpq, if_false] at he hl; exact hE (q+1) e l he hl

theorem good_insertAt {f : LF} {ls : List Str} (h : Good f ls) (p : Nat) (s : Str) (d : Bool) :
    Good { f with lines := Py.insertAt f.lines p (.str s), dirty := d } (Py.insertAt ls p s) := by
  obtain ⟨hlen, hE⟩ := h
  refine ⟨by simp [Py.insertAt, hlen], ?_⟩
  intro q e l he hl
  simp only [Py.insertAt, List.getElem?_append, List.length_take, List.getElem?_take, hlen] at he hl
  by_cases hq : q < min p ls.length
  · have : q < p := by omega
    simp only [hq, this, if_true] at he hl
    exact hE q e l he hl
  · simp only [hq, if_false] at he hl
    by_cases hq0 : q - min p ls.length = 0
    · simp [hq0] at he hl; subst he; subst hl; rfl
    · obtain ⟨k, hk⟩ := Nat.exists_eq_succ_of_ne_zero hq0
      rw [hk] at he hl
      simp only [List.getElem?_cons_succ, List.getElem?_drop] at he hl
      exact hE _ e l he hl

theorem setItem_spec (f : LF) (ls : List Str) (h : Good f ls) (i : Int) (s : Str) :
    match Py.index ls.length i with
    | some p => ∃ f', f.setItem i s = .ok f' ∧ Good f' (ls.set p s) ∧ f'.dirty = true ∧ f'.content = f.content ∧
        f'.closed = f.closed
    | none => f.setItem i s = .error .indexError := by
  unfold LF.setItem
  rw [h.1]
  cases hi : Py.index ls.length i with
  | none => rfl
  | some p => exact ⟨_, rfl, good_set h p s true, rfl, rfl, rfl⟩

theorem delItem_spec (f : LF) (ls : List Str) (h : Good f ls) (i : Int) :
    match Py.index ls.length i with
    | some p => ∃ f', f.delItem i = .ok f' ∧ Good f' (ls.eraseIdx p) ∧ f'.dirty = true ∧ f'.content = f.content ∧
        f'.closed = f.closed
    | none => f.delItem i = .error .indexError := by
  unfold LF.delItem
  rw [h.1]
  cases hi : Py.index ls.length i with
  | none => rfl
  | some p => exact ⟨_, rfl, good_eraseIdx h p true, rfl, rfl, rfl⟩

theorem insert_spec (f : LF) (ls : List Str) (h : Good f ls) (i : Int) (s : Str) :
    Good (f.insert i s) (Py.insertAt ls (Py.insertPos ls.length i) s) ∧ (f.insert i s).dirty = true ∧
    (f.insert i s).content = f.content ∧ (f.insert i s).closed = f.closed := by
  refine ⟨?_, rfl, rfl, rfl⟩
  unfold LF.insert
  rw [h.1]
  exact good_insertAt h _ s true

theorem append_spec (f : LF) (ls : List Str) (h : Good f ls) (s : Str) :
    Good (f.append s) (ls ++ [s]) ∧ (f.append s).dirty = true ∧ (f.append s).content = f.content ∧
    (f.append s).closed = f.closed := by
  have := insert_spec f ls h (f.lines.length : Int) s
  have hp : Py.insertPos ls.length (f.lines.length : Int) = ls.length := by
    unfold Py.insertPos; rw [h.1]; simp
  rw [hp] at this
  simpa [LF.append, Py.insertAt] using this

theorem extend_spec (f : LF) (ls : List Str) (h : Good f ls) (ss : List Str) :
    Good (f.extend ss) (ls ++ ss) ∧ (ss ≠ [] → (f.extend ss).dirty = true) ∧ (f.extend ss).content = f.content ∧
    (f.extend ss).closed = f.closed := by
  induction ss generalizing f ls with
  | nil => simpa [LF.extend] using h
  | cons s r ih =>
    obtain ⟨a1, a2, a3, a4⟩ := append_spec f ls h s
    obtain ⟨b1, b2, b3, b4⟩ := ih (f.append s) (ls ++ [s]) a1
    unfold LF.extend
    refine ⟨by simpa using b1, ?_, b3.trans a3, b4.trans a4⟩
    intro _
    cases r with
    | nil => simpa [LF.extend] using a2
    | cons t r' => exact b2 (by simp)

theorem pop_spec (f : LF) (ls : List Str) (h : Good f ls) (hc : f.closed = false) (i : Int) :
    match Py.index ls.length i with
    | some p => ∃ f' l, ls[p]? = some l ∧ f.pop i = .ok (f', l) ∧ Good f' (ls.eraseIdx p) ∧ f'.dirty = true ∧
        f'.content = f.content
    | none => f.pop i = .error .indexError := by
  have hg := (getInt_spec f ls h i).2 hc
  unfold LF.pop
  cases hi : Py.index ls.length i with
  | none => rw [hi] at hg; simp [hg]
  | some p =>
    rw [hi] at hg
    obtain ⟨f1, l, e1, e2, e3⟩ := hg
    have hd := delItem_spec f1 ls (good_same_aux h e3) i
    rw [hi] at hd
    obtain ⟨f2, d1, d2, d3, d4, d5⟩ := hd
    exact ⟨f2, l, e1, by simp [e2, d1], d2, d3, d4.trans e3.1⟩

theorem getInt_nat {f : LF} {ls : List Str} (h : Good f ls) (hc : f.closed = false) {p : Nat} {l : Str}
    (hp : ls[p]? = some l) : ∃ f', f.getInt (p : Int) = .ok (f', l) ∧ SameButCursor f f' := by
  have hlt : p < ls.length := (List.getElem?_eq_some_iff.mp hp).1
  have := (getInt_spec f ls h (p : Int)).2 hc
  rw [index_nat hlt] at this
  obtain ⟨f', l', e1, e2, e3⟩ := this
  rw [hp] at e1; cases e1
  exact ⟨f', e2, e3⟩

theorem indexOf_spec (v : Str) (fuel : Nat) : ∀ (f : LF) (ls : List Str) (p : Nat), Good f ls → f.closed = false →
    ls.length - p < fuel →
    (∀ k, p ≤ k → ls[k]? = some v → (∀ j, p ≤ j → j < k → ls[j]? ≠ some v) →
      ∃ f', f.indexOf v fuel p = .ok (f', k) ∧ SameButCursor f f') ∧
    ((∀ j, p ≤ j → ls[j]? ≠ some v) → f.indexOf v fuel p = .error .valueError) := by
  induction fuel with
  | zero => intro f ls p h hc hf; omega
  | succ n ih =>
    intro f ls p h hc hf
    unfold LF.indexOf
    rw [h.1]
    by_cases hp : p ≥ ls.length
    · constructor
      · intro k hk hkv _
        have := (List.getElem?_eq_some_iff.mp hkv).1
        omega
      · intro _; simp [hp]
    · have hlt : p < ls.length := by omega
      obtain ⟨f1, e1, e2⟩ := getInt_nat h hc (List.getElem?_eq_getElem hlt)
      have hg1 := good_same_aux h e2
      have hc1 : f1.closed = false := e2.2.2.2.trans hc
      obtain ⟨ihA, ihB⟩ := ih f1 ls (p+1) hg1 hc1 (by omega)
      simp only [hp, if_false, e1]
      by_cases hv : ls[p] = v
      · simp only [hv, if_true]
        constructor
        · intro k hk hkv hmin
          have : k = p := by
            by_cases hkp : k = p
            · exact hkp
            · exfalso
              exact hmin p (Nat.le_refl _) (by omega) (by rw [List.getElem?_eq_getElem hlt, hv])
          subst this
          exact ⟨f1, rfl, e2⟩
        · intro hall
          exact absurd (by rw [List.getElem?_eq_getElem hlt, hv]) (hall p (Nat.le_refl _))
      · simp only [hv, if_false]
        constructor
        · intro k hk hkv hmin
          have hkp : k ≠ p := by
            intro hkp; subst hkp
            rw [List.getElem?_eq_getElem hlt] at hkv
            exact hv (Option.some.inj hkv)
          obtain ⟨f2, d1, d2⟩ := ihA k (by omega) hkv (fun j hj hjk => hmin j (by omega) hjk)
          exact ⟨f2, d1, same_trans e2 d2⟩
        · intro hall
          exact ihB (fun j hj => hall j (by omega))

theorem first_index (s : Str) (ls : List Str) (hm : s ∈ ls) :
    ∃ k, ls[k]? = some s ∧ (∀ j, j < k → ls[j]? ≠ some s) ∧ ls.erase s = ls.eraseIdx k := by
  induction ls with
  | nil => simp at hm
  | cons a r ih =>
    by_cases ha : a = s
    · subst ha
      exact ⟨0, by simp, by intro j hj; omega, by simp⟩
    · have hm' : s ∈ r := by
        rcases List.mem_cons.mp hm with h | h
        · exact absurd h.symm ha
        · exact h
      obtain ⟨k, k1, k2, k3⟩ := ih hm'
      refine ⟨k+1, by simpa using k1, ?_, ?_⟩
      · intro j hj
        cases j with
        | zero => simpa using ha
        | succ j => simpa using k2 j (by omega)
      · rw [List.erase_cons_tail (by simpa using ha), k3]; rfl

theorem remove_spec (f : LF) (ls : List Str) (h : Good f ls) (hc : f.closed = false) (s : Str) :
    (s ∈ ls → ∃ f', f.remove s = .ok f' ∧ Good f' (ls.erase s) ∧ f'.dirty = true ∧ f'.content = f.content) ∧
    (s ∉ ls → f.remove s = .error .valueError) := by
  obtain ⟨hA, hB⟩ := indexOf_spec s (f.lines.length + 1) f ls 0 h hc (by rw [h.1]; omega)
  unfold LF.remove
  constructor
  · intro hm
    obtain ⟨k, k1, k2, k3⟩ := first_index s ls hm
    obtain ⟨f1, e1, e2⟩ := hA k (Nat.zero_le _) k1 (fun j _ hj => k2 j hj)
    have hklt : k < ls.length := (List.getElem?_eq_some_iff.mp k1).1
    have hd := delItem_spec f1 ls (good_same_aux h e2) (k : Int)
    rw [index_nat hklt] at hd
    obtain ⟨f2, d1, d2, d3, d4, _⟩ := hd
    refine ⟨f2, by simp [hc, e1, d1], by rw [k3]; exact d2, d3, d4.trans e2.1⟩
  · intro hn
    have := hB (fun j _ hj => hn (List.mem_of_getElem? hj))
    simp [hc, this]

theorem setItem_nat {f : LF} {ls : List Str} (h : Good f ls) {p : Nat} (hp : p < ls.length) (s : Str) :
    ∃ f', f.setItem (p : Int) s = .ok f' ∧ Good f' (ls.set p s) ∧ f'.dirty = true ∧ f'.content = f.content ∧
        f'.closed = f.closed := by
  have := setItem_spec f ls h (p : Int) s
  rw [index_nat hp] at this
  exact this

theorem reverseGo_spec (n fuel : Nat) : ∀ (f : LF) (cur : List Str) (i : Nat), Good f cur → f.closed = false →
    cur.length = n → n / 2 - i < fuel →
    ∃ f' res, f.reverseGo n fuel i = .ok f' ∧ Good f' res ∧
      (∀ j, res[j]? = if i ≤ j ∧ j < n - i then cur[n - 1 - j]? else cur[j]?) ∧
      f'.content = f.content ∧ f'.closed = false ∧ (i < n / 2 → f'.dirty = true) ∧
      (f.dirty = true → f'.dirty = true) := by
  induction fuel with
  | zero => intro f cur i h hc hn hf; omega
  | succ m ih =>
    intro f cur i h hc hn hf
    unfold LF.reverseGo
    by_cases hi : i ≥ n / 2
    · refine ⟨f, cur, by simp [hi], h, ?_, rfl, hc, by omega, id⟩
      intro j
      split
      · next hj =>
        have : n - 1 - j = j := by omega
        rw [this]
      · rfl
    · have hi1 : i < n := by omega
      have hi2 : n - i - 1 < n := by omega
      have ha : cur[n - i - 1]? = some (cur[n - i - 1]'(by omega)) := List.getElem?_eq_getElem (by omega)
      have hb : cur[i]? = some (cur[i]'(by omega)) := List.getElem?_eq_getElem (by omega)
      obtain ⟨f1, e1, s1⟩ := getInt_nat h hc ha
      have g1 := good_same_aux h s1
      have c1 : f1.closed = false := s1.2.2.2.trans hc
      obtain ⟨f2, e2, s2⟩ := getInt_nat g1 c1 hb
      have g2 := good_same_aux g1 s2
      obtain ⟨f3, e3, g3, d3, k3, c3⟩ := setItem_nat g2 (p := i) (by omega) (cur[n - i - 1]'(by omega))
      obtain ⟨f4, e4, g4, d4, k4, c4⟩ := setItem_nat g3 (p := n - i - 1) (by simp; omega) (cur[i]'(by omega))
      have c4' : f4.closed = false := by rw [c4, c3, s2.2.2.2, c1]
      obtain ⟨f5, res, e5, g5, r5, k5, c5, _, d5⟩ := ih f4 _ (i + 1) g4 c4' (by simp; omega) (by omega)
      refine ⟨f5, res, ?_, g5, ?_, ?_, c5, fun _ => d5 d4, fun _ => d5 d4⟩
      · simp only [hi, if_false, e1, e2, e3, e4, e5]
      · intro j
        rw [r5 j]
        exact rev_step cur n i j hn (by omega) _ _ ha hb
      · rw [k5, k4, k3, s2.1, s1.1]

theorem reverse_spec (f : LF) (ls : List Str) (h : Good f ls) (hc : f.closed = false) :
    ∃ f', f.reverse = .ok f' ∧ Good f' ls.reverse ∧ f'.content = f.content ∧ f'.closed = false ∧
      (2 ≤ ls.length → f'.dirty = true) := by
  obtain ⟨f', res, e, g, r, k, c, d, _⟩ :=
    reverseGo_spec ls.length (ls.length + 1) f ls 0 h hc rfl (by omega)
  have hres : res = ls.reverse := by
    apply List.ext_getElem?
    intro j
    rw [r j]
    by_cases hj : j < ls.length
    · rw [List.getElem?_reverse hj]; simp [hj]
    · have h1 : ls[j]? = none := List.getElem?_eq_none (by omega)
      have h2 : ls.reverse[j]? = none := List.getElem?_eq_none (by simp; omega)
      rw [h2, if_neg (by omega), h1]
  subst hres
  refine ⟨f', ?_, g, k, c, fun h2 => d (by omega)⟩
  unfold LF.reverse
  rw [h.1]; exact e

theorem viewGo_spec (fuel : Nat) : ∀ (f : LF) (ls : List Str) (p : Nat), Good f ls → ls.length - p ≤ fuel →
    ∃ f', f.viewGo fuel p = .ok (f', ls.drop p) ∧ SameButCursor f f' := by
  induction fuel with
  | zero =>
    intro f ls p h hf
    refine ⟨f, ?_, same_refl f⟩
    have : ls.drop p = [] := List.drop_eq_nil_of_le (by omega)
    rw [this]; rfl
  | succ n ih =>
    intro f ls p h hf
    unfold LF.viewGo
    rw [h.1]
    by_cases hp : p ≥ ls.length
    · refine ⟨f, ?_, same_refl f⟩
      have : ls.drop p = [] := List.drop_eq_nil_of_le hp
      rw [this]; simp [hp]
    · have hlt : p < ls.length := by omega
      obtain ⟨f1, e1, e2⟩ := getPos_spec f ls h p ls[p] (List.getElem?_eq_getElem hlt)
      obtain ⟨f2, d1, d2⟩ := ih f1 ls (p+1) (good_same_aux h e2) (by omega)
      refine ⟨f2, ?_, same_trans e2 d2⟩
      simp only [hp, if_false, e1, d1]
      rw [List.drop_eq_getElem_cons hlt]

/-- iteration over the whole current view yields exactly the presented list -/
theorem view_spec (f : LF) (ls : List Str) (h : Good f ls) (hc : f.closed = false) :
    ∃ f', f.view = .ok (f', ls) ∧ SameButCursor f f' := by
  obtain ⟨f', e1, e2⟩ := viewGo_spec (f.lines.length + 1) f ls 0 h (by rw [h.1]; omega)
  exact ⟨f', by simpa [LF.view, hc] using e1, e2⟩

/-- `save` writes exactly the lines, each followed by the chosen line ending; the source content is untouched -/
theorem save_spec (f : LF) (ls : List Str) (h : Good f ls) (hc : f.closed = false) (le : Str) :
    ∃ f', f.save le = .ok (f', (ls.map (fun l => rstripNL l ++ le)).flatten) ∧ SameButCursor f f' := by
  obtain ⟨f', e1, e2⟩ := view_spec f ls h hc
  exact ⟨f', by simp [LF.save, e1], e2⟩

/-- reopening what `save` wrote with the default ending gives the same list (lines without line breaks) -/
theorem reopen_roundtrip (ls : List Str) (h : ∀ l ∈ ls, '\n' ∉ l) :
    refLines ((ls.map (fun l => rstripNL l ++ ['\n'])).flatten) = ls := by
  induction ls with
  | nil => simp [refLines_nil]
  | cons l r ih =>
    have hl : '\n' ∉ l := h l (by simp)
    have hr := ih (fun x hx => h x (by simp [hx]))
    simp only [List.map_cons, List.flatten_cons, rstripNL_nonl hl, List.append_assoc, List.singleton_append]
    rw [refLines_append hl, hr]

end WindVerif.LineFile
