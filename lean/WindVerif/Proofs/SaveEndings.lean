import WindVerif.Proofs.LineFile
/-!
`save(out, line_ending)` for every line ending, the empty one included: `print(line.rstrip("\n"), file=f, end=line_ending)`
writes the ending as it is given — an empty ending writes nothing between the lines.  Corollaries of `save_spec`.
-/
namespace WindVerif.LineFile

theorem flatten_map_append_nil (ls : List Str) (g : Str → Str) :
    (ls.map (fun l => g l ++ ([] : Str))).flatten = (ls.map g).flatten := by
  simp only [List.append_nil]

/-- with the empty ending the saved text is the concatenation of the (stripped) lines -/
theorem save_empty_ending (f : LF) (ls : List Str) (h : Good f ls) (hc : f.closed = false) :
    ∃ f', f.save [] = .ok (f', (ls.map rstripNL).flatten) ∧ SameButCursor f f' := by
  obtain ⟨f', e1, e2⟩ := save_spec f ls h hc []
  exact ⟨f', by rw [e1, flatten_map_append_nil], e2⟩

/-- … and for lines that carry no line break (every line a file presents after reading) it is the plain concatenation -/
theorem save_empty_ending_nonl (f : LF) (ls : List Str) (h : Good f ls) (hc : f.closed = false)
    (hnl : ∀ l ∈ ls, '\n' ∉ l) :
    ∃ f', f.save [] = .ok (f', ls.flatten) ∧ SameButCursor f f' := by
  obtain ⟨f', e1, e2⟩ := save_empty_ending f ls h hc
  refine ⟨f', ?_, e2⟩
  rw [e1]
  have : ls.map rstripNL = ls := by
    have h1 : ls.map rstripNL = ls.map id := List.map_congr_left (fun l hl => rstripNL_nonl (hnl l hl))
    rw [h1, List.map_id]
  rw [this]

theorem length_flatten_ending (ls : List Str) (le : Str) :
    ((ls.map (fun l => rstripNL l ++ le)).flatten).length =
      (ls.map (fun l => (rstripNL l).length)).sum + ls.length * le.length := by
  induction ls with
  | nil => simp
  | cons l r ih =>
    simp only [List.map_cons, List.flatten_cons, List.length_append, ih, List.sum_cons, List.length_cons,
      Nat.add_mul, Nat.one_mul]
    omega

theorem byteLen_flatten_ending (ls : List Str) (le : Str) :
    byteLen ((ls.map (fun l => rstripNL l ++ le)).flatten) =
      (ls.map (fun l => byteLen (rstripNL l))).sum + ls.length * byteLen le := by
  induction ls with
  | nil => simp [byteLen]
  | cons l r ih =>
    simp only [List.map_cons, List.flatten_cons, byteLen_append, ih, List.sum_cons, List.length_cons,
      Nat.add_mul, Nat.one_mul]
    omega

/-- the saved text has the sum of the line lengths plus `n` times the length of the ending — in characters and in
bytes (utf-8) -/
theorem save_ending_length (f : LF) (ls : List Str) (h : Good f ls) (hc : f.closed = false) (le : Str) :
    ∃ f' out, f.save le = .ok (f', out) ∧
      out.length = (ls.map (fun l => (rstripNL l).length)).sum + ls.length * le.length ∧
      byteLen out = (ls.map (fun l => byteLen (rstripNL l))).sum + ls.length * byteLen le := by
  obtain ⟨f', e1, _⟩ := save_spec f ls h hc le
  exact ⟨f', _, e1, length_flatten_ending ls le, byteLen_flatten_ending ls le⟩

/-- the seeded variant: `line_ending = line_ending or "\n"` before the loop -/
def LF.saveOrDefault (f : LF) (lineEnding : Str) : Except Err (LF × Str) :=
  f.save (if lineEnding = [] then ['\n'] else lineEnding)

/-- the variant agrees with `save` for every non-empty ending … -/
theorem saveOrDefault_nonempty (f : LF) (le : Str) (hne : le ≠ []) : f.saveOrDefault le = f.save le := by
  simp [LF.saveOrDefault, hne]

/-- … and differs on the empty one: lines `a`, `b` are saved as `ab`, the variant writes `a\nb\n` -/
theorem save_or_default_wrong :
    let f := (LF.new "a\nb\n".toList (some [0, 2])).open
    (f.save []).toOption.map (·.2) = some "ab".toList ∧
    (f.saveOrDefault []).toOption.map (·.2) = some "a\nb\n".toList ∧
    (f.save []).toOption.map (·.2) ≠ (f.saveOrDefault []).toOption.map (·.2) := by
  decide

/-- the file of the witness presents the lines `a`, `b` -/
theorem save_or_default_witness_good :
    Good (LF.new "a\nb\n".toList (some [0, 2])).open ["a".toList, "b".toList] ∧
    (LF.new "a\nb\n".toList (some [0, 2])).open.closed = false :=
  ⟨(open_good _ _ (new_custom_good _ _ _ (by decide))).1, by decide⟩

end WindVerif.LineFile
