import WindVerif.Proofs.PoolSafeAux1
/-!
Auxiliary development for `PoolSafe.lean`, part 2: list lemmas about the observables (`chunksOf`, held chunks under a worker
update, the reorder buffer, `consumeBatch`, `curOutL`).
-/
namespace WindVerif.Pool
open List

/-! ## `chunksOf` -/

@[simp] theorem chunksOf_nil : chunksOf [] = [] := rfl
@[simp] theorem chunksOf_cons_some (i : Nat) (q : List (Option Nat)) : chunksOf (some i :: q) = i :: chunksOf q := by
  simp [chunksOf]
@[simp] theorem chunksOf_cons_none (q : List (Option Nat)) : chunksOf (none :: q) = chunksOf q := by
  simp [chunksOf]
@[simp] theorem chunksOf_append (a b : List (Option Nat)) : chunksOf (a ++ b) = chunksOf a ++ chunksOf b := by
  simp [chunksOf]

/-! ## held chunks under the update of one worker -/

theorem heldL_cons (x : Worker) (xs : List Worker) : heldL (x :: xs) = x.held.toList ++ heldL xs := by
  unfold heldL
  rw [filterMap_cons]
  cases x.held <;> simp

theorem map_upd_of_not_mem (xs : List Worker) (w' : Worker) (h : ∀ y ∈ xs, y.wid ≠ w'.wid) :
    xs.map (fun x => if x.wid = w'.wid then w' else x) = xs := by
  induction xs with
  | nil => rfl
  | cons y ys ih =>
    have h1 : y.wid ≠ w'.wid := h y (by simp)
    simp only [map_cons, h1, if_false]
    rw [ih (fun z hz => h z (by simp [hz]))]

theorem heldL_update (ws : List Worker) (wid : Nat) (w w' : Worker) (hnd : (ws.map (·.wid)).Nodup)
    (hf : ws.find? (fun x => decide (x.wid = wid)) = some w) (hw' : w'.wid = wid) :
    ∃ rest, (heldL ws).Perm (w.held.toList ++ rest) ∧
      (heldL (ws.map (fun x => if x.wid = w'.wid then w' else x))).Perm (w'.held.toList ++ rest) := by
  induction ws with
  | nil => simp at hf
  | cons x xs ih =>
    rw [map_cons, nodup_cons] at hnd
    by_cases hx : x.wid = wid
    · have hxw : x = w := by simpa [find?_cons, hx] using hf
      subst hxw
      refine ⟨heldL xs, ?_, ?_⟩
      · rw [heldL_cons]
      · have hne : ∀ y ∈ xs, y.wid ≠ w'.wid := by
          intro y hy heq
          apply hnd.1
          rw [hx, ← hw', ← heq]
          exact mem_map_of_mem hy
        rw [map_cons, map_upd_of_not_mem xs w' hne, heldL_cons]
        simp [hx, hw']
    · have hf' : xs.find? (fun x => decide (x.wid = wid)) = some w := by simpa [find?_cons, hx] using hf
      obtain ⟨rest, h1, h2⟩ := ih hnd.2 hf'
      refine ⟨x.held.toList ++ rest, ?_, ?_⟩
      · rw [heldL_cons]
        exact (Perm.append_left _ h1).trans (by
          rw [← append_assoc, ← append_assoc]
          exact Perm.append_right _ perm_append_comm)
      · have hx' : x.wid ≠ w'.wid := by rw [hw']; exact hx
        rw [map_cons, heldL_cons]
        simp only [hx', if_false]
        exact (Perm.append_left _ h2).trans (by
          rw [← append_assoc, ← append_assoc]
          exact Perm.append_right _ perm_append_comm)

theorem heldL_append (a b : List Worker) : heldL (a ++ b) = heldL a ++ heldL b := by
  simp [heldL]

theorem held_none_of_heldL_nil (ws : List Worker) (h : heldL ws = []) (w : Worker) (hw : w ∈ ws) : w.held = none := by
  unfold heldL at h
  rw [filterMap_eq_nil_iff] at h
  exact h w hw

/-! ## the reorder buffer -/

theorem drainBuffer_spec (fuel : Nat) : ∀ (buf : List Nat) (wf : Nat) (acc : List Nat),
    ∃ buf' k, drainBuffer fuel buf wf acc = (buf', wf + k, acc ++ List.range' wf k) ∧
      buf.Perm (List.range' wf k ++ buf') := by
  induction fuel with
  | zero => intro buf wf acc; exact ⟨buf, 0, by simp [drainBuffer], by simp⟩
  | succ fuel ih =>
    intro buf wf acc
    unfold drainBuffer
    by_cases hc : buf.contains wf = true
    · obtain ⟨buf', k, h1, h2⟩ := ih (buf.erase wf) (wf + 1) (acc ++ [wf])
      refine ⟨buf', k + 1, ?_, ?_⟩
      · rw [if_pos hc, h1, range'_succ]
        simp [Nat.add_assoc, Nat.add_comm 1 k]
      · have hm : wf ∈ buf := by simpa using hc
        rw [range'_succ]
        exact (perm_cons_erase hm).trans (Perm.cons _ h2)
    · exact ⟨buf, 0, by rw [if_neg hc]; simp, by simp⟩

theorem go_spec (s : St) : ∀ (b buf : List Nat) (wf fin : Nat) (out : List (Nat × Nat)),
    ∃ buf' k, consumeBatch.go s b buf wf fin out =
        (buf', wf + k, fin + k, out ++ (List.range' wf k).map (fun j => (s.callNo, j))) ∧
      (b ++ buf).Perm (List.range' wf k ++ buf') := by
  intro b
  induction b with
  | nil => intro buf wf fin out; exact ⟨buf, 0, by simp [consumeBatch.go], by simp⟩
  | cons i r ih =>
    intro buf wf fin out
    obtain ⟨buf1, k1, h1, p1⟩ := drainBuffer_spec ((i :: buf).length + 1) (i :: buf) wf []
    obtain ⟨buf', k2, h2, p2⟩ := ih buf1 (wf + k1) (fin + (List.range' wf k1).length)
      (out ++ (List.range' wf k1).map (fun j => (s.callNo, j)))
    refine ⟨buf', k1 + k2, ?_, ?_⟩
    · unfold consumeBatch.go
      simp only [length_cons] at h1
      simp only [h1, nil_append]
      rw [h2]
      simp only [length_range', Nat.add_assoc, append_assoc, ← map_append]
      rw [show List.range' wf k1 ++ List.range' (wf + k1) k2 = List.range' wf (k1 + k2) from by simp]
    · have e : List.range' wf (k1 + k2) = List.range' wf k1 ++ List.range' (wf + k1) k2 := by simp
      rw [e, append_assoc]
      have q1 : (i :: r ++ buf).Perm (r ++ (i :: buf)) := by
        simpa using (perm_middle (a := i) (l₁ := r) (l₂ := buf)).symm
      have q2 : (r ++ (i :: buf)).Perm (r ++ (List.range' wf k1 ++ buf1)) := Perm.append_left _ p1
      have q3 : (r ++ (List.range' wf k1 ++ buf1)).Perm (List.range' wf k1 ++ (r ++ buf1)) := by
        rw [← append_assoc, ← append_assoc]
        exact Perm.append_right _ perm_append_comm
      exact q1.trans (q2.trans (q3.trans (Perm.append_left _ p2)))

/-- what `consumeBatch` does inside a call -/
theorem consumeBatch_spec (s : St) (call : Call) (hc : s.cur = some call) :
    ∃ buf' wf' em, consumeBatch s =
        { s with buffer := buf', wf := wf', finished := s.finished + em.length,
                 out := s.out ++ em.map (fun j => (s.callNo, j)), batch := [], woken := false } ∧
      (s.batch ++ s.buffer).Perm (em ++ buf') ∧
      (call.ordered = true → ∃ k, wf' = s.wf + k ∧ em = List.range' s.wf k) ∧
      (call.ordered = false → buf' = s.buffer ∧ wf' = s.wf ∧ em = s.batch) := by
  by_cases ho : call.ordered = true
  · obtain ⟨buf', k, h1, p1⟩ := go_spec s s.batch s.buffer s.wf s.finished s.out
    refine ⟨buf', s.wf + k, List.range' s.wf k, ?_, p1, fun _ => ⟨k, rfl, rfl⟩, fun h => by simp [ho] at h⟩
    unfold consumeBatch
    simp only [hc, ho, if_true, h1, length_range']
  · refine ⟨s.buffer, s.wf, s.batch, ?_, Perm.refl _, fun h => absurd h ho, fun _ => ⟨rfl, rfl, rfl⟩⟩
    unfold consumeBatch
    simp only [hc, ho]
    rfl

/-! ## `curOutL` -/

theorem curOutL_append (a b : List (Nat × Nat)) (k : Nat) : curOutL (a ++ b) k = curOutL a k ++ curOutL b k := by
  simp [curOutL]

theorem curOutL_map_same (l : List Nat) (k : Nat) : curOutL (l.map (fun j => (k, j))) k = l := by
  induction l with
  | nil => rfl
  | cons x xs ih => simp_all [curOutL]

theorem curOutL_map_ne (l : List Nat) (k k' : Nat) (h : k ≠ k') : curOutL (l.map (fun j => (k, j))) k' = [] := by
  induction l with
  | nil => rfl
  | cons x xs ih => simp_all [curOutL]

theorem curOutL_of_lt (out : List (Nat × Nat)) (k k' : Nat) (h : OutLe out k) (hk : k < k') : curOutL out k' = [] := by
  unfold curOutL
  rw [map_eq_nil_iff, filter_eq_nil_iff]
  intro p hp
  have := h p hp
  simp only [beq_iff_eq]
  omega

theorem OutLe_append_map (out : List (Nat × Nat)) (k : Nat) (l : List Nat) (h : OutLe out k) :
    OutLe (out ++ l.map (fun j => (k, j))) k := by
  intro p hp
  rw [mem_append] at hp
  rcases hp with hp | hp
  · exact h p hp
  · rw [mem_map] at hp
    obtain ⟨j, _, rfl⟩ := hp
    exact Nat.le_refl _

theorem OutLe_mono (out : List (Nat × Nat)) (k k' : Nat) (h : OutLe out k) (hk : k ≤ k') : OutLe out k' :=
  fun p hp => Nat.le_trans (h p hp) hk

end WindVerif.Pool
