import WindVerif.Proofs.PoolLiveAux6
/-! Liveness of the pool model (C02): the consumer's steps keep the liveness invariant — general lemmas. -/
namespace WindVerif.Pool

variable {s t : St}

/-- workers, listing and replace thread -/
structure SameR (s t : St) : Prop where
  workers : t.workers = s.workers
  procs : t.procs = s.procs
  cfg : t.cfg = s.cfg
  rpc : t.rpc = s.rpc
  rAlive : t.rAlive = s.rAlive
  replQ : t.replQ = s.replQ

/-- the fields the liveness invariant reads, apart from `cpc`, the lock and the work queue -/
structure SameC (s t : St) : Prop extends SameR s t where
  cur : t.cur = s.cur
  woken : t.woken = s.woken
  batch : t.batch = s.batch
  fpc : t.fpc = s.fpc
  finished : t.finished = s.finished
  fTotal : t.fTotal = s.fTotal
  resQ : t.resQ = s.resQ
  buffer : t.buffer = s.buffer
  wf : t.wf = s.wf
  fRun : t.fRun = s.fRun

/-- closes `SameR` / `SameC` goals between a state and an explicit update of it -/
macro "samec" : tactic => `(tactic| (constructor <;> first | rfl | (constructor <;> rfl)))

theorem SameR.trans {a b c : St} (h1 : SameR a b) (h2 : SameR b c) : SameR a c :=
  ⟨h2.workers.trans h1.workers, h2.procs.trans h1.procs, h2.cfg.trans h1.cfg, h2.rpc.trans h1.rpc,
    h2.rAlive.trans h1.rAlive, h2.replQ.trans h1.replQ⟩

def rJoinPc : CPc → Bool
  | .rPutNone | .rStopSet | .rJoin => true
  | _ => false

theorem rJoinPc_iff (c : CPc) : rJoinPc c = true ↔ (c = .rPutNone ∨ c = .rStopSet ∨ c = .rJoin) := by
  cases c <;> simp [rJoinPc]

/-- the consumer's part, clause by clause -/
theorem ConsI_gen (h : ConsI s) (e1 : t.cur = s.cur) (e2 : t.buffer = s.buffer) (e3 : t.wf = s.wf) (e4 : t.cfg = s.cfg)
    (k1 : setupPc t.cpc = true → setupPc s.cpc = true)
    (k2 : exitPhasePc t.cpc = true → exitPhasePc s.cpc = true)
    (k3 : t.woken = true → cIn t.cpc = true)
    (tk : getPathPc t.cpc = true → t.batch = [] → t.woken = false → t.fpc = .idle → t.finished = t.fTotal → none ∈ t.resQ)
    (k5 : loopPc t.cpc = true → flowChk t.cpc = false → (t.fRun = false ∨ t.cpc = .flowClear) → bufferFull s = true)
    (k6 : runSetPc t.cpc = true → t.fRun = true) : ConsI t := by
  obtain ⟨c1, c2, c3, c4, c5, c6, c7⟩ := h
  constructor
  · rw [e1]; intro a; exact c1 (k1 a)
  · rw [e1]; intro a; exact c2 (k2 a)
  · exact k3
  · exact tk
  · rw [e3, e2]; exact c5
  · rw [bufferFull_congr e4 e2]; exact k5
  · exact k6

/-- the consumer's part of the invariant along a step that changes (essentially) only the pc -/
theorem ConsI_move (h : ConsI s) (e : SameC s t)
    (k1 : setupPc t.cpc = true → setupPc s.cpc = true)
    (k2 : exitPhasePc t.cpc = true → exitPhasePc s.cpc = true)
    (k3 : cIn s.cpc = true → cIn t.cpc = true)
    (k4 : getPathPc t.cpc = true → s.batch = [] → s.woken = false → s.fpc = .idle → s.finished = s.fTotal →
      getPathPc s.cpc = true)
    (k5 : loopPc t.cpc = true → flowChk t.cpc = false → (s.fRun = false ∨ t.cpc = .flowClear) →
      (loopPc s.cpc = true ∧ flowChk s.cpc = false ∧ (s.fRun = false ∨ s.cpc = .flowClear)))
    (k6 : runSetPc t.cpc = true → runSetPc s.cpc = true) : ConsI t := by
  apply ConsI_gen h e.cur e.buffer e.wf e.cfg k1 k2
  · rw [e.woken]; intro a; exact k3 (h.wokenPc a)
  · rw [e.batch, e.woken, e.fpc, e.finished, e.fTotal, e.resQ]
    intro a b c d f; exact h.token (k4 a b c d f) b c d f
  · rw [e.fRun]
    intro a b c
    obtain ⟨x, y, z⟩ := k5 a b c
    exact h.flow x y z
  · rw [e.fRun]; intro a; exact h.runSetup (k6 a)

/-- the parts other than the lock's and the consumer's, along a step that keeps the workers, the replace thread and the
phase -/
theorem Rest_move (pr : ProcI s) (rp : ReplI s) (ct : CntI s) (e : SameR s t)
    (hq : noneCount t.workQ = noneCount s.workQ) (hq' : none ∈ t.workQ → none ∈ s.workQ)
    (a2 : idxV t.cpc s.procs.length)
    (a3 : rCall t.cpc = true → s.cfg.factory = true → rCall s.cpc = true ∨ s.rAlive = true)
    (a4 : rStopping t.cpc = rStopping s.cpc)
    (a5 : exitPhasePc t.cpc = exitPhasePc s.cpc) (a6 : rJoinPc t.cpc = true → rJoinPc s.cpc = true ∨ s.cfg.factory = true)
    (a7 : stopsV t.cpc s.procs.length = stopsV s.cpc s.procs.length) : ProcI t ∧ ReplI t ∧ CntI t := by
  refine ⟨ProcI_congr pr e.procs e.workers e.cfg (by rw [e.rpc]; exact fun _ h => h) a2,
    ReplI_congr rp e.cfg e.rAlive e.rpc e.replQ e.workers e.procs (fun _ => hq') a3 a4 a5 ?_,
    CntI_congr' ct (liveCnt_congr e.workers) (by rw [pending_congr e.rpc (by rw [e.replQ])]) (by rw [e.procs]) e.cfg
      hq a5 (by unfold stopsSent; rw [e.procs]; exact a7)⟩
  intro hh
  rcases a6 ((rJoinPc_iff _).2 hh) with h1 | h1
  · exact Or.inl ((rJoinPc_iff _).1 h1)
  · exact Or.inr h1

/-- a step of the consumer that changes the pc within the same phase and nothing else the invariant reads -/
theorem LiveInv_move (hV : LiveInv s) (e : SameC s t) (el : t.lock = s.lock) (eq : t.workQ = s.workQ)
    (a1 : cIn t.cpc = cIn s.cpc) (a2 : idxV t.cpc s.procs.length)
    (a3 : rCall t.cpc = true → s.cfg.factory = true → rCall s.cpc = true ∨ s.rAlive = true)
    (a4 : rStopping t.cpc = rStopping s.cpc)
    (a5 : exitPhasePc t.cpc = exitPhasePc s.cpc) (a6 : rJoinPc t.cpc = true → rJoinPc s.cpc = true ∨ s.cfg.factory = true)
    (a7 : stopsV t.cpc s.procs.length = stopsV s.cpc s.procs.length)
    (k1 : setupPc t.cpc = true → setupPc s.cpc = true)
    (k4 : getPathPc t.cpc = true → s.batch = [] → s.woken = false → s.fpc = .idle → s.finished = s.fTotal →
      getPathPc s.cpc = true)
    (k5 : loopPc t.cpc = true → flowChk t.cpc = false → (s.fRun = false ∨ t.cpc = .flowClear) →
      (loopPc s.cpc = true ∧ flowChk s.cpc = false ∧ (s.fRun = false ∨ s.cpc = .flowClear)))
    (k6 : runSetPc t.cpc = true → runSetPc s.cpc = true) : LiveInv t := by
  obtain ⟨lk, pr, rp, cs, ct⟩ := hV
  obtain ⟨h1, h2, h3⟩ := Rest_move pr rp ct e.toSameR (by rw [eq]) (by rw [eq]; exact id) a2 a3 a4 a5 a6 a7
  exact ⟨LockI_congr lk el a1 e.workers, h1, h2,
    ConsI_move cs e k1 (by rw [a5]; exact id) (by rw [a1]; exact id) k4 k5 k6, h3⟩

/-- assembling the invariant when the lock's and the consumer's parts are given -/
theorem LiveInv_of (hV : LiveInv s) (e : SameR s t)
    (hq : noneCount t.workQ = noneCount s.workQ) (hq' : none ∈ t.workQ → none ∈ s.workQ)
    (a2 : idxV t.cpc s.procs.length)
    (a3 : rCall t.cpc = true → s.cfg.factory = true → rCall s.cpc = true ∨ s.rAlive = true)
    (a4 : rStopping t.cpc = rStopping s.cpc)
    (a5 : exitPhasePc t.cpc = exitPhasePc s.cpc) (a6 : rJoinPc t.cpc = true → rJoinPc s.cpc = true ∨ s.cfg.factory = true)
    (a7 : stopsV t.cpc s.procs.length = stopsV s.cpc s.procs.length)
    (hlk : LockI t) (hcs : ConsI t) : LiveInv t := by
  obtain ⟨h1, h2, h3⟩ := Rest_move hV.pr hV.rp hV.ct e hq hq' a2 a3 a4 a5 a6 a7
  exact ⟨hlk, h1, h2, hcs, h3⟩

/-! ### the lock -/

theorem LockI_acquire (h : LockI s) (h0 : s.lock = none) (h1 : t.lock = some .c) (h2 : cIn t.cpc = true)
    (h3 : t.workers = s.workers) : LockI t := by
  obtain ⟨l1, l2, l3, l4⟩ := h
  constructor
  · intro x hx; rw [h1] at hx; cases hx; exact Or.inl ⟨rfl, h2⟩
  · intro _; exact h1
  · rw [h3]; intro x hx hin; have := l3 x hx hin; rw [h0] at this; cases this
  · rw [h3]; exact l4

theorem LockI_release (h : LockI s) (h0 : cIn s.cpc = true) (h1 : t.lock = none) (h2 : cIn t.cpc = false)
    (h3 : t.workers = s.workers) : LockI t := by
  obtain ⟨l1, l2, l3, l4⟩ := h
  constructor
  · intro x hx; rw [h1] at hx; cases hx
  · intro hc; rw [h2] at hc; cases hc
  · rw [h3]; intro x hx hin; have := l3 x hx hin; rw [l2 h0] at this; cases this
  · rw [h3]; exact l4

/-! ### after a `_get_results` -/

theorem ConsI_afterResults (s0 : St) (call : Call) (hc : s0.cur = some call) (hwf : s0.wf ∉ s0.buffer)
    (hun : call.ordered = false → s0.fRun = true) : ConsI (afterResults s0) := by
  obtain ⟨buf', wf', fin', out', c', har, hw', hcs⟩ := afterResults_spec s0 call hc hwf
  have hcl : AfterPc c' := by
    rcases hcs with ⟨_, ⟨h, _⟩ | ⟨h, _⟩⟩ | ⟨_, h, _⟩ | ⟨wid, h, _⟩
    · exact Or.inl h
    · exact Or.inr (Or.inl h)
    · exact Or.inr (Or.inr (Or.inl h))
    · exact Or.inr (Or.inr (Or.inr ⟨wid, h⟩))
  have hcpc : (afterResults s0).cpc = c' := by rw [har]
  constructor
  · rw [hcpc]; intro a; rcases hcl with h | h | h | ⟨wid, h⟩ <;> rw [h] at a <;> cases a
  · rw [hcpc]; intro a; rcases hcl with h | h | h | ⟨wid, h⟩ <;> rw [h] at a <;> cases a
  · rw [har]; intro a; cases a
  · rw [hcpc]; intro a; rcases hcl with h | h | h | ⟨wid, h⟩ <;> rw [h] at a <;> cases a
  · rw [har]; exact hw'
  · intro a b c
    rcases hcs with ⟨_, ⟨h, hb⟩ | ⟨h, _⟩⟩ | ⟨ho, h, _⟩ | ⟨wid, h, _⟩
    · exact hb
    · rw [hcpc, h] at b; cases b
    · exfalso
      have hfr : (afterResults s0).fRun = s0.fRun := by rw [har]
      rw [hfr, hun ho, hcpc, h] at c
      rcases c with c | c <;> cases c
    · rw [hcpc, h] at a; cases a
  · rw [hcpc]; intro a; rcases hcl with h | h | h | ⟨wid, h⟩ <;> rw [h] at a <;> cases a

/-- what else `afterResults` leaves alone -/
theorem afterResults_frame (s0 : St) (call : Call) (hc : s0.cur = some call) (hwf : s0.wf ∉ s0.buffer) :
    AfterPc (afterResults s0).cpc ∧
    (afterResults s0).workers = s0.workers ∧ (afterResults s0).procs = s0.procs ∧ (afterResults s0).cfg = s0.cfg ∧
    (afterResults s0).rpc = s0.rpc ∧ (afterResults s0).rAlive = s0.rAlive ∧ (afterResults s0).replQ = s0.replQ ∧
    (afterResults s0).lock = s0.lock ∧ (afterResults s0).workQ = s0.workQ := by
  obtain ⟨buf', wf', fin', out', c', har, hw', hcs⟩ := afterResults_spec s0 call hc hwf
  have hcl : AfterPc c' := by
    rcases hcs with ⟨_, ⟨h, _⟩ | ⟨h, _⟩⟩ | ⟨_, h, _⟩ | ⟨wid, h, _⟩
    · exact Or.inl h
    · exact Or.inr (Or.inl h)
    · exact Or.inr (Or.inr (Or.inl h))
    · exact Or.inr (Or.inr (Or.inr ⟨wid, h⟩))
  rw [har]
  exact ⟨hcl, rfl, rfl, rfl, rfl, rfl, rfl, rfl, rfl⟩


theorem Rest_afterResults {s0 : St} (pr : ProcI s) (rp : ReplI s) (ct : CntI s) (e : SameR s s0) (eq : s0.workQ = s.workQ)
    (hgp : getPathPc s.cpc = true) (call : Call) (hc : s0.cur = some call) (hwf : s0.wf ∉ s0.buffer) :
    ProcI (afterResults s0) ∧ ReplI (afterResults s0) ∧ CntI (afterResults s0) := by
  obtain ⟨hcl, f1, f2, f3, f4, f5, f6, _, f8⟩ := afterResults_frame s0 call hc hwf
  have e' : SameR s (afterResults s0) := e.trans ⟨f1, f2, f3, f4, f5, f6⟩
  have hq : (afterResults s0).workQ = s.workQ := f8.trans eq
  apply Rest_move pr rp ct e' (by rw [hq]) (by rw [hq]; exact id)
  all_goals
    rcases hcl with h | h | h | ⟨wid, h⟩ <;> rw [h] <;> cases hcp : s.cpc <;>
      simp [hcp, getPathPc, idxV, rCall, rStopping, exitPhasePc, rJoinPc, stopsV] at hgp ⊢

/-! ### the next call, or `__exit__` -/

theorem stopsV_of_not_exit {c : CPc} (h : exitPhasePc c = false) (n : Nat) : stopsV c n = 0 := by
  cases c <;> simp [exitPhasePc, stopsV] at h ⊢

theorem noneCount_eq_zero {q : List (Option Nat)} (h : none ∉ q) : noneCount q = 0 := by
  unfold noneCount
  rw [List.length_eq_zero_iff, List.filter_eq_nil_iff]
  intro a ha
  cases a with
  | none => exact absurd ha h
  | some i => simp

theorem LiveInv_toNextCall (hV : LiveInv s) (h1 : cIn s.cpc = false) (h2 : exitPhasePc s.cpc = false)
    (h3 : ¬ (rStopping s.cpc = true ∧ s.rAlive = true)) : LiveInv (toNextCall s) := by
  obtain ⟨lk, pr, rp, cs, ct⟩ := hV
  have hwk : s.woken = false := by
    cases hh : s.woken
    · rfl
    · have := cs.wokenPc hh; rw [h1] at this; cases this
  have htok : noneCount s.replQ = 0 := by have := rp.tokR; rw [if_neg h3] at this; exact this
  have hst := stopsV_of_not_exit h2 s.procs.length
  rcases toNextCall_cases s with ⟨call, rest, hcl, heq⟩ | ⟨hcl, heq⟩
  · rw [heq]
    have hc' : ∀ c', c' = (if s.cfg.factory = true then CPc.rInitSet else CPc.fInitSet) →
        (c' = .rInitSet ∧ s.cfg.factory = true) ∨ (c' = .fInitSet ∧ s.cfg.factory = false) := by
      intro c' hc'; subst hc'
      cases hf : s.cfg.factory <;> simp
    generalize (if s.cfg.factory = true then CPc.rInitSet else CPc.fInitSet) = c' at hc'
    have hc' := hc' c' rfl
    have hcls : cIn c' = false ∧ exitPhasePc c' = false ∧ rStopping c' = false ∧ rJoinPc c' = false ∧ setupPc c' = true ∧
        getPathPc c' = false ∧ loopPc c' = false ∧ runSetPc c' = false ∧ idxV c' s.procs.length ∧
        stopsV c' s.procs.length = 0 := by
      rcases hc' with ⟨h, _⟩ | ⟨h, _⟩ <;> subst h <;> simp [cIn, exitPhasePc, rStopping, rJoinPc, setupPc, getPathPc, loopPc, runSetPc, idxV, stopsV]
    obtain ⟨q1, q2, q3, q4, q5, q6, q7, q8, q9, q10⟩ := hcls
    refine ⟨LockI_congr lk rfl (by rw [h1]; exact q1) rfl, ProcI_congr pr rfl rfl rfl (fun _ h => h) q9, ?_, ?_,
      CntI_congr' ct rfl rfl rfl rfl rfl (by rw [h2]; exact q2) (by unfold stopsSent; rw [hst]; exact q10)⟩
    · constructor
      · intro hf hrc
        rcases hc' with ⟨h, _⟩ | ⟨_, h⟩
        · subst h; cases hrc
        · have : s.cfg.factory = true := hf
          rw [h] at this; cases this
      · exact rp.rNotIdle
      · show noneCount s.replQ = _
        rw [htok, q3]; simp
      · intro x hx hxpc hxin
        rcases rp.exitedL x hx hxpc hxin with hh | hh
        · rw [h2] at hh; cases hh
        · exact Or.inr hh
      · intro _; exact rp.noStop h2
      · intro hh
        have := (rJoinPc_iff c').2 hh
        rw [q4] at this; cases this
    · constructor
      · intro _; rfl
      · intro hh; have : exitPhasePc c' = true := hh; rw [q2] at this; cases this
      · intro hh; cases hh
      · intro hh; have : getPathPc c' = true := hh; rw [q6] at this; cases this
      · show (0 : Nat) ∉ ([] : List Nat); simp
      · intro hh; have : loopPc c' = true := hh; rw [q7] at this; cases this
      · intro hh; have : runSetPc c' = true := hh; rw [q8] at this; cases this
  · rw [heq]
    have hc' : ∀ c', c' = (if s.procs.length = 0 then CPc.done else CPc.exitPut 0) →
        (c' = .done ∧ s.procs.length = 0) ∨ (c' = .exitPut 0 ∧ 0 < s.procs.length) := by
      intro c' hc'; subst hc'
      by_cases hf : s.procs.length = 0
      · simp [hf]
      · simp [hf]; omega
    generalize (if s.procs.length = 0 then CPc.done else CPc.exitPut 0) = c' at hc'
    have hc' := hc' c' rfl
    have hcls : cIn c' = false ∧ exitPhasePc c' = true ∧ rStopping c' = false ∧ rJoinPc c' = false ∧ setupPc c' = false ∧
        getPathPc c' = false ∧ loopPc c' = false ∧ runSetPc c' = false ∧ idxV c' s.procs.length ∧
        stopsV c' s.procs.length = 0 ∧ rCall c' = false := by
      rcases hc' with ⟨h, h0⟩ | ⟨h, h0⟩ <;> subst h <;>
        simp [cIn, exitPhasePc, rStopping, rJoinPc, setupPc, getPathPc, loopPc, runSetPc, idxV, stopsV, rCall, h0]
    obtain ⟨q1, q2, q3, q4, q5, q6, q7, q8, q9, q10, q11⟩ := hcls
    refine ⟨LockI_congr lk rfl (by rw [h1]; exact q1) rfl, ProcI_congr pr rfl rfl rfl (fun _ h => h) q9, ?_, ?_, ?_⟩
    · constructor
      · intro _ hrc; have : rCall c' = true := hrc; rw [q11] at this; cases this
      · exact rp.rNotIdle
      · show noneCount s.replQ = _
        rw [htok, q3]; simp
      · intro x hx hxpc hxin; exact Or.inl q2
      · intro hh; have : exitPhasePc c' = false := hh; rw [q2] at this; cases this
      · intro hh
        have := (rJoinPc_iff c').2 hh
        rw [q4] at this; cases this
    · constructor
      · intro hh; have : setupPc c' = true := hh; rw [q5] at this; cases this
      · intro _; rfl
      · intro hh; have : s.woken = true := hh; rw [hwk] at this; cases this
      · intro hh; have : getPathPc c' = true := hh; rw [q6] at this; cases this
      · exact cs.wfBuf
      · intro hh; have : loopPc c' = true := hh; rw [q7] at this; cases this
      · intro hh; have : runSetPc c' = true := hh; rw [q8] at this; cases this
    · obtain ⟨k1, k2, k3, k4⟩ := ct
      have hn0 := noneCount_eq_zero (rp.noStop h2)
      have hss : stopsSent { s with cur := none, cpc := c' } = 0 := by unfold stopsSent; exact q10
      constructor
      · exact k1
      · intro _; rw [hss]; show liveCnt s + 0 ≤ noneCount s.workQ + s.procs.length; omega
      · intro _; rw [hss]; show noneCount s.workQ ≤ 0; omega
      · intro hf; rw [hss]
        have := k4 hf
        unfold stopsSent at this; rw [hst] at this
        exact this

end WindVerif.Pool
