import WindVerif.Model.RingSeq
import WindVerif.Proofs.Buffers
/-!
Theorems about the inherited `collections.abc.Sequence` interface of `CircularBuffer` (`Model/RingSeq.lean`): iteration,
`in`, `reversed`, `count` and `index(value, start, stop)` agree with the builtin list that holds the presented content
(`Ring.toList`; `ring_spec` says what that content is after any history).  The only hypothesis is `0 < max_size` (the
constructor asserts it, and no method changes the length of the storage).
-/
namespace WindVerif.Buffers

/-- the item `self[n]` (0 when the access fails) -/
def Ring.val (r : Ring) (n : Nat) : Nat := match r.get (n : Int) with | .ok x => x | .error _ => 0

theorem Ring.get_ok (r : Ring) (h : 0 < r.maxSize) (n : Nat) (hn : n < r.size) : r.get (n : Int) = .ok (r.val n) := by
  have hidx : (((r.offset : Int) - (r.size : Int) + (n : Int)) % (r.maxSize : Int)).toNat < r.buffer.length := by
    have h0 : (0 : Int) < (r.maxSize : Int) := by omega
    have h1 := Int.emod_nonneg ((r.offset : Int) - (r.size : Int) + (n : Int)) (Int.ne_of_gt h0)
    have h2 := Int.emod_lt_of_pos ((r.offset : Int) - (r.size : Int) + (n : Int)) h0
    unfold Ring.maxSize at h0 h1 h2 ⊢
    omega
  have hg : r.get (n : Int) = .ok (r.buffer[(((r.offset : Int) - (r.size : Int) + (n : Int)) % (r.maxSize : Int)).toNat]) := by
    unfold Ring.get
    rw [if_neg (by omega)]
    simp only [List.getElem?_eq_getElem hidx]
  unfold Ring.val
  rw [hg]

theorem Ring.get_err (r : Ring) (n : Nat) (hn : ¬ n < r.size) : r.get (n : Int) = .error .indexError := by
  unfold Ring.get
  rw [if_pos (by omega)]

theorem Ring.toList_eq_map (r : Ring) (h : 0 < r.maxSize) : r.toList = (List.range r.size).map r.val := by
  unfold Ring.toList
  apply filterMap_eq_map_of
  intro i hi
  rw [Ring.get_ok r h i (List.mem_range.1 hi)]

theorem Ring.toList_length (r : Ring) (h : 0 < r.maxSize) : r.toList.length = r.size := by
  rw [Ring.toList_eq_map r h]; simp

theorem Ring.toList_getElem? (r : Ring) (h : 0 < r.maxSize) (n : Nat) :
    r.toList[n]? = if n < r.size then some (r.val n) else none := by
  rw [Ring.toList_eq_map r h]
  by_cases hn : n < r.size
  · rw [if_pos hn, List.getElem?_map, List.getElem?_range hn]; rfl
  · rw [if_neg hn, List.getElem?_eq_none]
    simp only [List.length_map, List.length_range]; omega

/-! ### `__iter__` -/

theorem ringIterLoop_spec (r : Ring) (h : 0 < r.maxSize) : ∀ (fuel k : Nat), r.size - k < fuel →
    ringIterLoop r fuel (k : Int) = (List.range' k (r.size - k)).map r.val := by
  intro fuel
  induction fuel with
  | zero => intro k hk; omega
  | succ fuel ih =>
    intro k hk
    unfold ringIterLoop
    by_cases hlt : k < r.size
    · rw [Ring.get_ok r h k hlt]
      simp only
      have hc : ((k : Int) + 1) = ((k + 1 : Nat) : Int) := by omega
      rw [hc, ih (k + 1) (by omega)]
      have : r.size - k = (r.size - (k + 1)) + 1 := by omega
      rw [this, List.range'_succ, List.map_cons]
    · rw [Ring.get_err r k hlt]
      have : r.size - k = 0 := by omega
      rw [this]; rfl

/-- iterating the buffer yields exactly the presented list -/
theorem ringIter_spec (r : Ring) (h : 0 < r.maxSize) : ringIter r = r.toList := by
  unfold ringIter
  have := ringIterLoop_spec r h (r.size + 1) 0 (by omega)
  simp only [Int.natCast_zero, Nat.sub_zero] at this
  rw [this, Ring.toList_eq_map r h, List.range_eq_range']

/-- more fuel changes nothing: the loop has ended -/
theorem ringIter_fuel (r : Ring) (h : 0 < r.maxSize) (extra : Nat) :
    ringIterLoop r (r.size + 1 + extra) 0 = ringIter r := by
  unfold ringIter
  have h1 := ringIterLoop_spec r h (r.size + 1 + extra) 0 (by omega)
  have h2 := ringIterLoop_spec r h (r.size + 1) 0 (by omega)
  simp only [Int.natCast_zero] at h1 h2
  rw [h1, h2]

/-! ### `__contains__`, `count` -/

theorem ringContains_iff (r : Ring) (v : Nat) (h : 0 < r.maxSize) : ringContains r v = true ↔ v ∈ r.toList := by
  unfold ringContains
  rw [ringIter_spec r h, List.any_eq_true]
  constructor
  · rintro ⟨x, hx, he⟩
    rw [beq_iff_eq] at he
    rw [← he]; exact hx
  · intro hv
    exact ⟨v, hv, by simp⟩

theorem foldl_count (v : Nat) (l : List Nat) (a : Nat) :
    l.foldl (fun acc x => if x == v then acc + 1 else acc) a = a + l.count v := by
  induction l generalizing a with
  | nil => simp
  | cons x l ih =>
    rw [List.foldl_cons, ih, List.count_cons]
    split <;> omega

theorem ringCount_spec (r : Ring) (v : Nat) (h : 0 < r.maxSize) : ringCount r v = r.toList.count v := by
  unfold ringCount
  rw [ringIter_spec r h, foldl_count, Nat.zero_add]

/-! ### `__reversed__` -/

theorem mapM_ok_of {α β ε : Type} (f : α → Except ε β) (g : α → β) :
    ∀ (l : List α), (∀ a ∈ l, f a = .ok (g a)) → l.mapM f = .ok (l.map g) := by
  intro l
  induction l with
  | nil => intro _; rfl
  | cons a l ih =>
    intro hl
    rw [List.mapM_cons, hl a (by simp), ih (fun b hb => hl b (List.mem_cons_of_mem _ hb))]
    rfl

theorem ringReversed_spec (r : Ring) (h : 0 < r.maxSize) : ringReversed r = .ok r.toList.reverse := by
  unfold ringReversed
  rw [mapM_ok_of _ r.val]
  · rw [Ring.toList_eq_map r h, List.map_reverse]
  · intro i hi
    rw [List.mem_reverse] at hi
    rw [Ring.get_ok r h i (List.mem_range.1 hi)]

/-! ### `index` -/

theorem ringIndexLoop_spec (r : Ring) (h : 0 < r.maxSize) (v : Nat) (stop : Option Int) (E : Nat)
    (hE : ∀ k : Nat, k < r.size →
      (stopAllows stop (k : Int) = true ↔ k < E)) :
    ∀ (fuel k : Nat), r.size - k < fuel →
      ringIndexLoop r v stop fuel (k : Int) =
        (match ((r.toList.take E).drop k).findIdx? (fun x => x == v) with
         | some j => .ok (k + j)
         | none => .error .valueError) := by
  intro fuel
  induction fuel with
  | zero => intro k hk; omega
  | succ fuel ih =>
    intro k hk
    unfold ringIndexLoop
    by_cases hlt : k < r.size
    · by_cases hkE : k < E
      · rw [if_pos ((hE k hlt).2 hkE), Ring.get_ok r h k hlt]
        simp only
        have hlen : k < (r.toList.take E).length := by
          rw [List.length_take, Ring.toList_length r h]; omega
        have hel : (r.toList.take E)[k] = r.val k := by
          rw [List.getElem_take]
          have := Ring.toList_getElem? r h k
          rw [if_pos hlt] at this
          exact (List.getElem_eq_iff (by rw [Ring.toList_length r h]; exact hlt)).2 this
        rw [List.drop_eq_getElem_cons hlen, hel, List.findIdx?_cons]
        by_cases hv : (r.val k == v) = true
        · simp only [hv, if_true, Int.toNat_natCast, Nat.add_zero]
        · simp only [hv, Bool.false_eq_true, if_false]
          have hc : ((k : Int) + 1) = ((k + 1 : Nat) : Int) := by omega
          rw [hc, ih (k + 1) (by omega)]
          cases List.findIdx? (fun x => x == v) (List.drop (k + 1) (List.take E r.toList)) with
          | none => rfl
          | some j => simp only [Option.map_some]; congr 1; omega
      · rw [if_neg (fun hc => hkE ((hE k hlt).1 hc))]
        have : (r.toList.take E).drop k = [] := by
          apply List.drop_eq_nil_of_le
          rw [List.length_take]; omega
        rw [this]; rfl
    · have : (r.toList.take E).drop k = [] := by
        apply List.drop_eq_nil_of_le
        rw [List.length_take, Ring.toList_length r h]; omega
      rw [this, Ring.get_err r k hlt]
      simp only [List.findIdx?_nil, ite_self]

/-- `index(value, start, stop)` of the mixin agrees with `list.index` of the presented list for ALL arguments (negative,
too big, missing): the same position, or `ValueError` in both -/
theorem ringIndex_spec (r : Ring) (v : Nat) (start stop : Option Int) (h : 0 < r.maxSize) :
    ringIndex r v start stop =
      (match pyListIndex r.toList v start stop with
       | some i => .ok i
       | none => .error .valueError) := by
  unfold ringIndex pyListIndex
  rw [Ring.toList_length r h]
  have hs : seqStart r.size start = ((pyStart r.size start : Nat) : Int) := by
    cases start with
    | none => rfl
    | some a =>
      simp only [seqStart, pyStart, pyClampIdx]
      split <;> omega
  rw [hs, ringIndexLoop_spec r h v _ (pyStop r.size stop)]
  · simp only
    cases List.findIdx? (fun x => x == v) _ <;> rfl
  · intro k hk
    cases stop with
    | none => simp [seqStop, pyStop, stopAllows, hk]
    | some e =>
      simp only [seqStop, pyStop, stopAllows, pyClampIdx, decide_eq_true_eq]
      split <;> omega
  · omega

/-- every state reached from `CircularBuffer(c)`, `c > 0`, has a positive `max_size` -/
theorem ring_maxSize_pos (c : Nat) (hc : 0 < c) (evs : List (Option Nat)) :
    0 < (runRing (Ring.new c) [] evs).1.maxSize := by
  have h := runRing_inv hc evs (Ring.new c) [] (RInv.new c)
  unfold Ring.maxSize
  rw [h.len]; exact hc

end WindVerif.Buffers
