import WindVerif.Model.FilePoolFail
/-! Theorems about `FilePool` with files that cannot be opened (C20). -/
namespace WindVerif.FilePoolFail
open List

/-! ### the dict -/

theorem dictSet_of_not_mem : ∀ (d : Dict) (k : Path) (v : Handle), k ∉ d.map (·.1) → dictSet d k v = d ++ [(k, v)]
  | [], _, _, _ => rfl
  | (k', v') :: r, k, v, h => by
    simp only [List.map_cons, List.mem_cons, not_or] at h
    simp only [dictSet, if_neg (Ne.symm h.1), dictSet_of_not_mem r k v h.2, List.cons_append]

theorem keys_dictSet : ∀ (d : Dict) (k : Path) (v : Handle) (q : Path),
    q ∈ (dictSet d k v).map (·.1) ↔ (q ∈ d.map (·.1) ∨ q = k)
  | [], k, v, q => by simp [dictSet]
  | (k', v') :: r, k, v, q => by
    by_cases h : k' = k
    · subst h
      simp only [dictSet, if_true, List.map_cons, List.mem_cons]
      constructor
      · intro h; exact Or.inl h
      · rintro (h | h)
        · exact h
        · exact Or.inl h
    · simp only [dictSet, if_neg h, List.map_cons, List.mem_cons, keys_dictSet r k v q]
      constructor
      · rintro (h | h | h)
        · exact Or.inl (Or.inl h)
        · exact Or.inl (Or.inr h)
        · exact Or.inr h
      · rintro ((h | h) | h)
        · exact Or.inl h
        · exact Or.inr (Or.inl h)
        · exact Or.inr (Or.inr h)

theorem mem_dictSet : ∀ (d : Dict) (k : Path) (v : Handle) (x : Path × Handle),
    x ∈ dictSet d k v → (x ∈ d ∨ x = (k, v))
  | [], k, v, x, h => by simpa [dictSet] using h
  | (k', v') :: r, k, v, x, h => by
    by_cases hk : k' = k
    · subst hk
      simp only [dictSet, if_true, List.mem_cons] at h
      rcases h with h | h
      · exact Or.inr h
      · exact Or.inl (List.mem_cons_of_mem _ h)
    · simp only [dictSet, if_neg hk, List.mem_cons] at h
      rcases h with h | h
      · exact Or.inl (h ▸ List.mem_cons_self)
      · rcases mem_dictSet r k v x h with h | h
        · exact Or.inl (List.mem_cons_of_mem _ h)
        · exact Or.inr h

/-- the dict built by inserting the pairs `l` one after the other -/
def build (d : Dict) (l : List (Path × Handle)) : Dict := l.foldl (fun d ph => dictSet d ph.1 ph.2) d

theorem mem_build : ∀ (l : List (Path × Handle)) (d : Dict) (x : Path × Handle), x ∈ build d l → (x ∈ d ∨ x ∈ l)
  | [], d, x, h => Or.inl h
  | ph :: l, d, x, h => by
    rcases mem_build l (dictSet d ph.1 ph.2) x h with h | h
    · rcases mem_dictSet d ph.1 ph.2 x h with h | h
      · exact Or.inl h
      · exact Or.inr (h ▸ List.mem_cons_self)
    · exact Or.inr (List.mem_cons_of_mem _ h)

theorem keys_build : ∀ (l : List (Path × Handle)) (d : Dict) (q : Path),
    q ∈ (build d l).map (·.1) ↔ (q ∈ d.map (·.1) ∨ q ∈ l.map (·.1))
  | [], d, q => by simp [build]
  | ph :: l, d, q => by
    have := keys_build l (dictSet d ph.1 ph.2) q
    simp only [build, List.foldl_cons] at this ⊢
    rw [this, keys_dictSet, List.map_cons, List.mem_cons]
    constructor
    · rintro ((h | h) | h)
      · exact Or.inl h
      · exact Or.inr (Or.inl h)
      · exact Or.inr (Or.inr h)
    · rintro (h | h | h)
      · exact Or.inl (Or.inl h)
      · exact Or.inl (Or.inr h)
      · exact Or.inr h

theorem build_nodup : ∀ (l : List (Path × Handle)) (d : Dict),
    (l.map (·.1)).Nodup → (∀ q ∈ l.map (·.1), q ∉ d.map (·.1)) → build d l = d ++ l
  | [], d, _, _ => by simp [build]
  | ph :: l, d, hn, hd => by
    rw [List.map_cons, List.nodup_cons] at hn
    have h1 : ph.1 ∉ d.map (·.1) := hd _ (by simp)
    have := build_nodup l (dictSet d ph.1 ph.2) hn.2 (by
      intro q hq
      rw [keys_dictSet]
      rintro (h | h)
      · exact hd q (by simp [hq]) h
      · exact hn.1 (h ▸ hq))
    simp only [build, List.foldl_cons] at this ⊢
    rw [this, dictSet_of_not_mem d ph.1 ph.2 h1, List.append_assoc]
    rfl

/-! ### the comprehension -/

/-- the paths that are opened by an attempt: those before the first missing one -/
def prefixOk (missing files : List Path) : List Path := files.takeWhile (fun f => !missing.contains f)

/-- … together with the handles they get -/
def attempt (missing files : List Path) (next : Handle) : List (Path × Handle) :=
  (prefixOk missing files).zip (List.range' next (prefixOk missing files).length)

theorem comp_spec (missing : List Path) : ∀ (fs : List Path) (h : Handle) (c : Comp),
    comp missing fs h c =
      ({ dict := build c.dict (attempt missing fs h), opened := c.opened ++ attempt missing fs h },
        fs.all (fun f => !missing.contains f))
  | [], h, c => by simp [comp, attempt, prefixOk, build]
  | f :: fs, h, c => by
    by_cases hf : missing.contains f = true
    · rw [comp, if_pos hf]
      simp only [attempt, prefixOk, List.takeWhile_cons, hf, Bool.not_true, Bool.false_eq_true, if_false,
        List.length_nil, List.range'_zero, List.zip_nil_right, build, List.foldl_nil, List.append_nil, List.all_cons,
        Bool.false_and]
    · have hf' : missing.contains f = false := by simpa using hf
      rw [comp, if_neg hf, comp_spec missing fs (h + 1)]
      simp only [attempt, prefixOk, List.takeWhile_cons, hf', Bool.not_false, if_true, List.length_cons,
        List.range'_succ, List.zip_cons_cons, build, List.foldl_cons, List.all_cons, Bool.true_and,
        List.append_assoc, List.singleton_append]

theorem all_ok_iff (missing files : List Path) :
    files.all (fun f => !missing.contains f) = true ↔ ∀ p ∈ files, p ∉ missing := by
  simp [List.all_eq_true]

theorem prefixOk_of_all (missing files : List Path) (h : ∀ p ∈ files, p ∉ missing) : prefixOk missing files = files := by
  unfold prefixOk
  induction files with
  | nil => rfl
  | cons f fs ih =>
    have hf : (!missing.contains f) = true := by simpa using h f (by simp)
    rw [List.takeWhile_cons, hf, if_pos rfl, ih (fun p hp => h p (List.mem_cons_of_mem _ hp))]

theorem attempt_fst (missing files : List Path) (next : Handle) :
    (attempt missing files next).map (·.1) = prefixOk missing files := by
  unfold attempt
  rw [List.map_fst_zip]
  simp

theorem attempt_vals (missing files : List Path) (next : Handle) :
    vals (attempt missing files next) = List.range' next (prefixOk missing files).length := by
  unfold attempt vals
  rw [List.map_snd_zip]
  simp

theorem attempt_length (missing files : List Path) (next : Handle) :
    (attempt missing files next).length = (prefixOk missing files).length := by
  simp [attempt]

/-- when some path is missing, the opened prefix ends right before the first missing path -/
theorem prefixOk_split (missing files : List Path) (h : ¬ ∀ p ∈ files, p ∉ missing) :
    ∃ p post, files = prefixOk missing files ++ p :: post ∧ p ∈ missing := by
  induction files with
  | nil => exact absurd (by simp) h
  | cons f fs ih =>
    by_cases hf : f ∈ missing
    · exact ⟨f, fs, by simp [prefixOk, hf], hf⟩
    · have : ¬ ∀ p ∈ fs, p ∉ missing := by
        intro h'
        apply h
        intro p hp
        rcases List.mem_cons.mp hp with rfl | hp
        · exact hf
        · exact h' p hp
      obtain ⟨p, post, he, hp⟩ := ih this
      refine ⟨p, post, ?_, hp⟩
      have hc : (!missing.contains f) = true := by simpa using hf
      simp only [prefixOk, List.takeWhile_cons, hc, if_true, List.cons_append] at he ⊢
      rw [← he]

theorem prefixOk_ok (missing files : List Path) : ∀ q ∈ prefixOk missing files, q ∉ missing := by
  intro q hq
  unfold prefixOk at hq
  induction files with
  | nil => simp at hq
  | cons f fs ih =>
    rw [List.takeWhile_cons] at hq
    by_cases hf : f ∈ missing
    · simp [hf] at hq
    · have hc : (!missing.contains f) = true := by simpa using hf
      rw [hc, if_pos rfl] at hq
      rcases List.mem_cons.mp hq with rfl | hq
      · exact hf
      · exact ih hq

/-! ### `open()` -/

theorem fpEnter_ok (s : FP) (h : ∀ p ∈ s.files, p ∉ s.missing) :
    fpEnter s =
      ({ s with mapping := some (build [] (attempt s.missing s.files s.next)),
                openH := s.openH ++ List.range' s.next s.files.length,
                leaked := s.leaked ++ s.mapping.getD [] ++
                  (attempt s.missing s.files s.next).filter
                    (fun ph => !(vals (build [] (attempt s.missing s.files s.next))).contains ph.2),
                next := s.next + s.files.length }, .ok ()) := by
  unfold fpEnter
  rw [comp_spec, (all_ok_iff _ _).mpr h]
  simp only [List.nil_append, attempt_vals, attempt_length, prefixOk_of_all _ _ h]

theorem fpEnter_fail (s : FP) (h : ¬ ∀ p ∈ s.files, p ∉ s.missing) :
    fpEnter s =
      ({ s with openH := s.openH ++ List.range' s.next (prefixOk s.missing s.files).length,
                leaked := s.leaked ++ attempt s.missing s.files s.next,
                next := s.next + (prefixOk s.missing s.files).length }, .error .fileNotFound) := by
  unfold fpEnter
  have : s.files.all (fun f => !s.missing.contains f) = false := by
    rw [← Bool.not_eq_true, all_ok_iff]; exact h
  rw [comp_spec, this]
  simp only [List.nil_append, attempt_vals, attempt_length]

/-- `open()` succeeds iff no path of the pool is missing -/
theorem enter_ok_iff (s : FP) : (fpEnter s).2 = .ok () ↔ ∀ p ∈ s.files, p ∉ s.missing := by
  by_cases h : ∀ p ∈ s.files, p ∉ s.missing
  · rw [fpEnter_ok s h]
    exact ⟨fun _ => h, fun _ => rfl⟩
  · rw [fpEnter_fail s h]
    exact ⟨fun h' => (by cases h'), fun h' => absurd h' h⟩

/-- a failing `open()`: `FileNotFoundError`; the mapping keeps its old value; the paths before the first missing one have been
opened, their handles stay open and are referenced by nobody -/
theorem enter_fail_state (s : FP) (h : (fpEnter s).2 ≠ .ok ()) :
    ∃ pre p post, s.files = pre ++ p :: post ∧ p ∈ s.missing ∧ (∀ q ∈ pre, q ∉ s.missing) ∧
      (fpEnter s).2 = .error .fileNotFound ∧
      (fpEnter s).1.mapping = s.mapping ∧
      (fpEnter s).1.leaked = s.leaked ++ pre.zip (List.range' s.next pre.length) ∧
      (fpEnter s).1.openH = s.openH ++ List.range' s.next pre.length ∧
      (fpEnter s).1.next = s.next + pre.length ∧
      (fpEnter s).1.files = s.files ∧ (fpEnter s).1.missing = s.missing := by
  have hm : ¬ ∀ p ∈ s.files, p ∉ s.missing := fun h' => h ((enter_ok_iff s).mpr h')
  obtain ⟨p, post, he, hp⟩ := prefixOk_split s.missing s.files hm
  refine ⟨prefixOk s.missing s.files, p, post, he, hp, prefixOk_ok _ _, ?_⟩
  rw [fpEnter_fail s hm]
  exact ⟨rfl, rfl, rfl, rfl, rfl, rfl, rfl⟩

/-- a successful `open()`: the mapping holds, for every path of the pool, a handle opened by this call, and it is open -/
theorem enter_ok_state (s : FP) (h : (fpEnter s).2 = .ok ()) :
    ∃ d, (fpEnter s).1.mapping = some d ∧
      (∀ q, q ∈ d.map (·.1) ↔ q ∈ s.files) ∧
      (∀ ph ∈ d, s.next ≤ ph.2 ∧ ph.2 < (fpEnter s).1.next ∧ ph.2 ∈ (fpEnter s).1.openH) ∧
      (s.files.Nodup → d = s.files.zip (List.range' s.next s.files.length)) := by
  have hm := (enter_ok_iff s).mp h
  rw [fpEnter_ok s hm]
  refine ⟨_, rfl, ?_, ?_, ?_⟩
  · intro q
    rw [keys_build, attempt_fst, prefixOk_of_all _ _ hm]
    simp
  · intro ph hph
    rcases mem_build _ _ _ hph with h' | h'
    · cases h'
    · have hv : ph.2 ∈ vals (attempt s.missing s.files s.next) := List.mem_map_of_mem h'
      rw [attempt_vals, prefixOk_of_all _ _ hm, List.mem_range'_1] at hv
      refine ⟨hv.1, hv.2, ?_⟩
      simp only [List.mem_append, List.mem_range'_1]
      exact Or.inr hv
  · intro hn
    rw [build_nodup _ _ (by rw [attempt_fst, prefixOk_of_all _ _ hm]; exact hn) (by simp)]
    simp [attempt, prefixOk_of_all _ _ hm]

/-! ### `close()` -/

theorem mem_foldl_closeH : ∀ (hs : List Handle) (o : List Handle) (h : Handle),
    h ∈ hs.foldl closeH o ↔ (h ∈ o ∧ h ∉ hs)
  | [], o, h => by simp
  | x :: hs, o, h => by
    rw [List.foldl_cons, mem_foldl_closeH hs (closeH o x) h]
    simp only [closeH, List.mem_filter, decide_eq_true_eq, List.mem_cons, not_or, ne_eq]
    constructor
    · rintro ⟨⟨h1, h2⟩, h3⟩; exact ⟨h1, h2, h3⟩
    · rintro ⟨h1, h2, h3⟩; exact ⟨⟨h1, h2⟩, h3⟩

theorem foldl_closeH_append (o : List Handle) : ∀ (hs : List Handle), (∀ h ∈ o, h ∉ hs) → hs.Nodup →
    hs.foldl closeH (o ++ hs) = o := by
  intro hs hd hn
  have key : ∀ (hs : List Handle) (o : List Handle), hs.foldl closeH o = o.filter (fun h => !hs.contains h) := by
    intro hs
    induction hs with
    | nil => intro o; exact (List.filter_eq_self.mpr (by simp)).symm
    | cons x hs ih =>
      intro o
      rw [List.foldl_cons, ih, closeH, List.filter_filter]
      apply List.filter_congr
      intro h _
      by_cases hx : h = x <;> simp [hx]
  rw [key, List.filter_append]
  have h1 : o.filter (fun h => !hs.contains h) = o := by
    rw [List.filter_eq_self]
    intro h hh
    simpa using hd h hh
  have h2 : hs.filter (fun h => !hs.contains h) = [] := by
    rw [List.filter_eq_nil_iff]
    intro h hh
    simpa using hh
  rw [h1, h2, List.append_nil]

/-- `close()` on an opened pool: every handle of the mapping is closed, the mapping is reset, nothing else changes -/
theorem exit_some (s : FP) (m : Dict) (hm : s.mapping = some m) :
    (fpExit s).2 = .ok () ∧ (fpExit s).1.mapping = none ∧
      (∀ h, h ∈ (fpExit s).1.openH ↔ (h ∈ s.openH ∧ h ∉ vals m)) ∧
      (fpExit s).1.leaked = s.leaked ∧ (fpExit s).1.next = s.next ∧
      (fpExit s).1.files = s.files ∧ (fpExit s).1.missing = s.missing := by
  unfold fpExit
  rw [hm]
  exact ⟨rfl, rfl, fun h => mem_foldl_closeH _ _ _, rfl, rfl, rfl, rfl⟩

/-- `close()` on a pool that is not open raises (`None.values()`) and changes nothing -/
theorem exit_none (s : FP) (hm : s.mapping = none) : fpExit s = (s, .error .attributeError) := by
  unfold fpExit
  rw [hm]

/-! ### `n` rounds on a pool whose files all exist -/

theorem round_ok (s : FP) (hm : s.mapping = none) (hok : ∀ p ∈ s.files, p ∉ s.missing) (hn : s.files.Nodup)
    (hb : ∀ h : Nat, h ∈ s.openH → h < s.next) :
    (fpEnter s).2 = .ok () ∧ (fpExit (fpEnter s).1).2 = .ok () ∧
      fpExit (fpEnter s).1 = ({ s with next := s.next + s.files.length }, .ok ()) := by
  have hb' : ∀ h : Nat, h ∈ s.openH → h ∉ List.range' s.next s.files.length := by
    intro h hh
    have := hb h hh
    simp only [List.mem_range'_1, not_and]
    intro _; omega
  have hd : build [] (attempt s.missing s.files s.next) = s.files.zip (List.range' s.next s.files.length) := by
    rw [build_nodup _ _ (by rw [attempt_fst, prefixOk_of_all _ _ hok]; exact hn) (by simp)]
    simp [attempt, prefixOk_of_all _ _ hok]
  have hv : vals (s.files.zip (List.range' s.next s.files.length)) = List.range' s.next s.files.length := by
    unfold vals
    rw [List.map_snd_zip]
    simp
  have hat : attempt s.missing s.files s.next = s.files.zip (List.range' s.next s.files.length) := by
    simp [attempt, prefixOk_of_all _ _ hok]
  have hdrop : (s.files.zip (List.range' s.next s.files.length)).filter
      (fun ph => !(List.range' s.next s.files.length).contains ph.2) = [] := by
    rw [List.filter_eq_nil_iff]
    intro ph hph
    have : ph.2 ∈ List.range' s.next s.files.length := (List.of_mem_zip hph).2
    simpa using this
  rw [fpEnter_ok s hok, hd, hat, hv, hdrop, hm]
  refine ⟨rfl, rfl, ?_⟩
  simp only [fpExit, hv, Option.getD_none, List.append_nil]
  rw [foldl_closeH_append _ _ hb' (List.nodup_range' (step := 1) (by omega))]

/-- any number of `with pool:` rounds on a closed pool whose (distinct) files all exist: every `__enter__` and `__exit__`
succeeds; afterwards the mapping is reset, every handle opened in the rounds is closed (the open handles are those that were
open before), nothing was leaked -/
theorem rounds_closed : ∀ (n : Nat) (s : FP), s.mapping = none → (∀ p ∈ s.files, p ∉ s.missing) → s.files.Nodup →
    (∀ h : Nat, h ∈ s.openH → h < s.next) →
    rounds n s = ({ s with next := s.next + n * s.files.length }, List.replicate (2 * n) (.ok ()))
  | 0, s, _, _, _, _ => by simp [rounds]
  | n + 1, s, hm, hok, hn, hb => by
    obtain ⟨h1, h2, h3⟩ := round_ok s hm hok hn hb
    have ih := rounds_closed n { s with next := s.next + s.files.length } hm hok hn
      (fun h hh => Nat.lt_of_lt_of_le (hb h hh) (Nat.le_add_right _ _))
    have e1 : fpEnter s = ((fpEnter s).1, .ok ()) := by rw [← h1]
    have e2 : fpExit (fpEnter s).1 = ({ s with next := s.next + s.files.length }, .ok ()) := h3
    rw [rounds, e1]
    simp only []
    rw [e2]
    simp only []
    rw [ih]
    simp only [Nat.mul_add, Nat.mul_one, List.replicate_succ, Nat.add_mul, Nat.one_mul, Nat.add_assoc,
      Nat.add_comm s.files.length]

/-- a fresh pool whose FIRST path does not exist: `__enter__` raises, nothing was opened (nothing leaked), the mapping is
still `None`.  The file appears; the same pool object then serves any number of `with` rounds: each succeeds, and afterwards
every handle is closed, the mapping is reset and nothing is leaked. -/
theorem reenter_after_failure (p : Path) (rest missing : List Path) (n : Nat)
    (hp : p ∈ missing) (honly : ∀ q ∈ missing, q = p) (hn : (p :: rest).Nodup) :
    let s1 := fpEnter (FP.new (p :: rest) missing)
    s1.2 = .error .fileNotFound ∧ s1.1.mapping = none ∧ s1.1.openH = [] ∧ s1.1.leaked = [] ∧
    let s3 := rounds n (fpCreate s1.1 p)
    s3.2 = List.replicate (2 * n) (.ok ()) ∧ s3.1.mapping = none ∧ s3.1.openH = [] ∧ s3.1.leaked = [] ∧
      s3.1.next = n * (p :: rest).length := by
  have hfail : ¬ ∀ q ∈ (FP.new (p :: rest) missing).files, q ∉ (FP.new (p :: rest) missing).missing := by
    intro h; exact h p (by simp [FP.new]) hp
  have hc : missing.contains p = true := by simpa using hp
  have hpre : prefixOk missing (p :: rest) = [] := by simp [prefixOk, hp]
  have e1 : fpEnter (FP.new (p :: rest) missing) = (FP.new (p :: rest) missing, .error .fileNotFound) := by
    rw [fpEnter_fail _ hfail]
    simp [FP.new, attempt, hpre]
  simp only [e1]
  refine ⟨trivial, rfl, rfl, rfl, ?_⟩
  have hok : ∀ q ∈ (fpCreate (FP.new (p :: rest) missing) p).files,
      q ∉ (fpCreate (FP.new (p :: rest) missing) p).missing := by
    intro q _ hq
    simp only [fpCreate, FP.new, List.mem_filter, decide_eq_true_eq] at hq
    exact hq.2 (honly q hq.1)
  rw [rounds_closed n _ rfl hok hn (by simp [fpCreate, FP.new])]
  simp [fpCreate, FP.new]

/-! ### the invariant over all histories -/

structure Inv (s : FP) : Prop where
  bound  : ∀ h : Nat, h ∈ s.openH → h < s.next
  split  : ∀ h, h ∈ s.openH ↔ (h ∈ vals (s.mapping.getD []) ∨ h ∈ vals s.leaked)
  disj   : ∀ h : Nat, h ∈ vals (s.mapping.getD []) → h ∉ vals s.leaked

theorem inv_new (files missing : List Path) : Inv (FP.new files missing) :=
  ⟨by simp [FP.new], by simp [FP.new, vals], by simp [FP.new, vals]⟩

theorem inv_enter (s : FP) (hi : Inv s) : Inv (fpEnter s).1 := by
  by_cases hok : ∀ p ∈ s.files, p ∉ s.missing
  · rw [fpEnter_ok s hok]
    have hat : ∀ h : Nat, h ∈ vals (attempt s.missing s.files s.next) ↔ (s.next ≤ h ∧ h < s.next + s.files.length) := by
      intro h
      rw [attempt_vals, prefixOk_of_all _ _ hok, List.mem_range'_1]
    have hsub : ∀ h : Nat, h ∈ vals (build [] (attempt s.missing s.files s.next)) →
        h ∈ vals (attempt s.missing s.files s.next) := by
      intro h hh
      obtain ⟨ph, hph, rfl⟩ := List.mem_map.mp hh
      rcases mem_build _ _ _ hph with h' | h'
      · cases h'
      · exact List.mem_map_of_mem h'
    have hlt : ∀ h : Nat, (h ∈ vals (s.mapping.getD []) ∨ h ∈ vals s.leaked) → h < s.next :=
      fun h hh => hi.bound h ((hi.split h).mpr hh)
    refine ⟨?_, ?_, ?_⟩
    · intro h hh
      simp only [List.mem_append, List.mem_range'_1] at hh
      rcases hh with hh | hh
      · have := hi.bound h hh
        show h < s.next + s.files.length
        omega
      · show h < s.next + s.files.length
        omega
    · intro h
      simp only [Option.getD_some, vals, List.map_append, List.mem_append, List.mem_range'_1]
      have hsplit := hi.split h
      simp only [vals] at hsplit hat hsub
      rw [hsplit]
      constructor
      · rintro ((h1 | h1) | h1)
        · exact Or.inr (Or.inl (Or.inr h1))
        · exact Or.inr (Or.inl (Or.inl h1))
        · by_cases hin : h ∈ (build [] (attempt s.missing s.files s.next)).map (·.2)
          · exact Or.inl hin
          · refine Or.inr (Or.inr ?_)
            obtain ⟨ph, hph, rfl⟩ := List.mem_map.mp ((hat h).mpr (by omega))
            exact List.mem_map_of_mem (List.mem_filter.mpr ⟨hph, by simpa using hin⟩)
      · rintro (h1 | (h1 | h1) | h1)
        · have := (hat h).mp (hsub h h1); exact Or.inr (by omega)
        · exact Or.inl (Or.inr h1)
        · exact Or.inl (Or.inl h1)
        · obtain ⟨ph, hph, rfl⟩ := List.mem_map.mp h1
          have := (hat ph.2).mp (List.mem_map_of_mem (List.mem_filter.mp hph).1)
          exact Or.inr (by omega)
    · intro h hh
      simp only [Option.getD_some] at hh
      have hge : @LE.le Nat _ s.next h := ((hat h).mp (hsub h hh)).1
      simp only [vals, List.map_append, List.mem_append, not_or]
      refine ⟨⟨?_, ?_⟩, ?_⟩
      · intro h1; have := hlt h (Or.inr h1); omega
      · intro h1; have := hlt h (Or.inl h1); omega
      · intro h1
        obtain ⟨ph, hph, rfl⟩ := List.mem_map.mp h1
        have := (List.mem_filter.mp hph).2
        simp only [Bool.not_eq_true', List.contains_eq_mem, decide_eq_false_iff_not] at this
        exact this hh
  · rw [fpEnter_fail s hok]
    have hat : ∀ h : Nat, h ∈ vals (attempt s.missing s.files s.next) ↔
        (s.next ≤ h ∧ h < s.next + (prefixOk s.missing s.files).length) := by
      intro h
      rw [attempt_vals, List.mem_range'_1]
    refine ⟨?_, ?_, ?_⟩
    · intro h hh
      simp only [List.mem_append, List.mem_range'_1] at hh
      rcases hh with hh | hh
      · have := hi.bound h hh
        show h < s.next + (prefixOk s.missing s.files).length
        omega
      · show h < s.next + (prefixOk s.missing s.files).length
        omega
    · intro h
      have hsplit := hi.split h
      have hat' := hat h
      simp only [vals, List.map_append, List.mem_append, List.mem_range'_1] at hsplit hat' ⊢
      rw [hsplit, hat']
      constructor
      · rintro ((h1 | h1) | h1)
        · exact Or.inl h1
        · exact Or.inr (Or.inl h1)
        · exact Or.inr (Or.inr h1)
      · rintro (h1 | h1 | h1)
        · exact Or.inl (Or.inl h1)
        · exact Or.inl (Or.inr h1)
        · exact Or.inr h1
    · intro h hh
      have h1 := hi.disj h hh
      have h2 := hi.bound h ((hi.split h).mpr (Or.inl hh))
      have hat' := hat h
      simp only [vals, List.map_append, List.mem_append, not_or] at h1 hat' ⊢
      refine ⟨h1, ?_⟩
      rw [hat']
      intro h3
      have h4 : @LE.le Nat _ s.next h := h3.1
      have h5 : @LT.lt Nat _ h s.next := h2
      omega

theorem inv_exit (s : FP) (hi : Inv s) : Inv (fpExit s).1 := by
  cases hm : s.mapping with
  | none => rw [exit_none s hm]; exact hi
  | some m =>
    obtain ⟨_, h2, h3, h4, h5, _, _⟩ := exit_some s m hm
    have hsplit := hi.split
    have hdisj := hi.disj
    rw [hm] at hsplit hdisj
    simp only [Option.getD_some] at hsplit hdisj
    refine ⟨?_, ?_, ?_⟩
    · intro h hh
      rw [h5]
      exact hi.bound h ((h3 h).mp hh).1
    · intro h
      rw [h3, h2, h4, hsplit]
      simp only [Option.getD_none, vals, List.map_nil, List.not_mem_nil, false_or]
      constructor
      · rintro ⟨h1 | h1, hn⟩
        · exact absurd h1 hn
        · exact h1
      · intro h1
        exact ⟨Or.inr h1, fun hv => hdisj h hv h1⟩
    · rw [h2]
      simp [vals]

theorem inv_step (s : FP) (op : Op) (hi : Inv s) : Inv (applyOp s op) := by
  cases op with
  | enter => exact inv_enter s hi
  | exit => exact inv_exit s hi
  | create p => exact ⟨hi.bound, hi.split, hi.disj⟩
  | unlink p => exact ⟨hi.bound, hi.split, hi.disj⟩

theorem inv_run (ops : List Op) : ∀ (s : FP), Inv s → Inv (run s ops) := by
  induction ops with
  | nil => intro s hi; exact hi
  | cons op ops ih => intro s hi; exact ih _ (inv_step s op hi)

/-- whatever the history of failed and successful enters, exits and files appearing and disappearing: `close()` on an open
pool succeeds, resets the mapping and closes every handle the mapping held; what stays open is exactly what was leaked -/
theorem exit_closes_all (files missing : List Path) (ops : List Op) (m : Dict)
    (hm : (run (FP.new files missing) ops).mapping = some m) :
    let s' := fpExit (run (FP.new files missing) ops)
    s'.2 = .ok () ∧ s'.1.mapping = none ∧ (∀ ph ∈ m, ph.2 ∉ s'.1.openH) ∧
      (∀ h, h ∈ s'.1.openH ↔ h ∈ vals (run (FP.new files missing) ops).leaked) ∧
      s'.1.leaked = (run (FP.new files missing) ops).leaked := by
  have hi := inv_run ops _ (inv_new files missing)
  obtain ⟨h1, h2, h3, h4, _⟩ := exit_some _ m hm
  have hi' := inv_exit _ hi
  refine ⟨h1, h2, ?_, ?_, h4⟩
  · intro ph hph hin
    exact ((h3 ph.2).mp hin).2 (List.mem_map_of_mem hph)
  · intro h
    have := hi'.split h
    rw [h2, h4] at this
    simpa [vals] using this

/-- leaked handles are never closed (existing behaviour, stated, not repaired): in every reachable state each of them is
still open -/
theorem leaked_stay_open (files missing : List Path) (ops : List Op) :
    ∀ ph ∈ (run (FP.new files missing) ops).leaked, ph.2 ∈ (run (FP.new files missing) ops).openH := by
  intro ph hph
  have hi := inv_run ops _ (inv_new files missing)
  exact (hi.split ph.2).mpr (Or.inr (List.mem_map_of_mem hph))

/-- on a pool that is not open `close()` raises `AttributeError` -/
theorem exit_not_open (s : FP) (hm : s.mapping = none) : (fpExit s).2 = .error .attributeError ∧ (fpExit s).1 = s := by
  rw [exit_none s hm]
  exact ⟨rfl, rfl⟩

end WindVerif.FilePoolFail
