import WindVerif.Model.Records
/-! Theorems about the record model (C13). -/
namespace WindVerif.Records

/-- a field without line breaks -/
def Clean (f : Str) : Prop := '\r' ∉ f ∧ '\n' ∉ f

def IsDelim (d : Char) : Prop := d = ',' ∨ d = '\t'

/-! ### helper lemmas -/

theorem IsDelim.facts {d : Char} (hd : IsDelim d) : d ≠ '"' ∧ d ≠ '\r' ∧ d ≠ '\n' := by
  rcases hd with rfl | rfl <;> decide

theorem IsDelim.notNL {d : Char} (hd : IsDelim d) : isNL d = false := by
  rcases hd with rfl | rfl <;> decide

theorem run_append (d : Char) (s t : Str) :
    ∀ (p p' : Parser), run d p s = .ok p' → run d p (s ++ t) = run d p' t := by
  induction s with
  | nil => intro p p' h; simp [run] at h; subst h; rfl
  | cons c r ih =>
    intro p p' h
    simp only [run, List.cons_append] at h ⊢
    cases hs : step d p c with
    | error e => simp [hs] at h
    | ok q => simp only [hs] at h ⊢; exact ih q p' h

/-- the parser has read the characters of fields making up `L`, the last one still pending -/
def Good (p : Parser) (L : List Str) : Prop :=
  (p.field.reverse :: p.fields).reverse = L ∧
    (p.state = .startField ∨ p.state = .inField ∨ p.state = .quoteInQuoted)

theorem Good.step_delim {d : Char} (hd : IsDelim d) {p : Parser} {L : List Str} (h : Good p L) :
    step d p d = .ok ⟨.startField, [], L.reverse⟩ := by
  obtain ⟨hL, hs⟩ := h
  obtain ⟨h1, h2, h3⟩ := hd.facts
  have h4 := hd.notNL
  cases p with
  | mk st fl acc =>
    simp only at hL hs
    subst hL
    rcases hs with rfl | rfl | rfl <;> simp [step, stepStartField, Parser.save, h1, h4]

theorem Good.step_nl {d : Char} {p : Parser} {L : List Str} (h : Good p L) (c : Char) (hc : isNL c = true)
    (hcq : c ≠ '"') (hcd : c ≠ d) :
    step d p c = .ok ⟨.eatCRNL, [], L.reverse⟩ := by
  obtain ⟨hL, hs⟩ := h
  cases p with
  | mk st fl acc =>
    simp only at hL hs
    subst hL
    rcases hs with rfl | rfl | rfl <;> simp [step, stepStartField, Parser.save, hc, hcq, hcd]

theorem Good.finish {p : Parser} {L : List Str} (h : Good p L) : finish p = L := by
  obtain ⟨hL, hs⟩ := h
  cases p with
  | mk st fl acc =>
    simp only at hL hs
    subst hL
    rcases hs with rfl | rfl | rfl <;> simp [Records.finish]

theorem inQuoted_run (d : Char) (f : Str) : ∀ (fl : Str) (acc : List Str),
    run d ⟨.inQuoted, fl, acc⟩ (doubleQuotes f ++ ['"']) = .ok ⟨.quoteInQuoted, f.reverse ++ fl, acc⟩ := by
  induction f with
  | nil => intro fl acc; simp [doubleQuotes, run, step]
  | cons c r ih =>
    intro fl acc
    by_cases hc : c = '"'
    · subst hc
      simp [doubleQuotes, run, step, Parser.add, ih]
    · simp [doubleQuotes, hc, run, step, Parser.add, ih]

theorem inField_run (d : Char) (f : Str) : ∀ (fl : Str) (acc : List Str),
    needsQuote d f = false →
    run d ⟨.inField, fl, acc⟩ f = .ok ⟨.inField, f.reverse ++ fl, acc⟩ := by
  induction f with
  | nil => intro fl acc _; simp [run]
  | cons c r ih =>
    intro fl acc h
    have hr : needsQuote d r = false := by
      simp [needsQuote] at h ⊢; exact h.2
    have hc : c ≠ d ∧ c ≠ '"' ∧ c ≠ '\r' ∧ c ≠ '\n' := by
      simp [needsQuote] at h; obtain ⟨⟨⟨a, b⟩, c'⟩, e⟩ := h.1; exact ⟨a, b, c', e⟩
    obtain ⟨c1, c2, c3, c4⟩ := hc
    simp [run, step, isNL, Parser.add, c1, c3, c4, ih _ _ hr]

theorem field_run {d : Char} (only : Bool) (f : Str) (acc : List Str) :
    ∃ p, run d ⟨.startField, [], acc⟩ (writeField d only f) = .ok p ∧ Good p (acc.reverse ++ [f]) := by
  unfold writeField
  split
  · refine ⟨⟨.quoteInQuoted, f.reverse, acc⟩, ?_, ?_⟩
    · have : isNL '"' = false := by decide
      simp [run, step, stepStartField, this, inQuoted_run]
    · simp [Good]
  · rename_i hq
    have hn : needsQuote d f = false := by
      simp at hq; exact hq.1
    cases f with
    | nil => exact ⟨⟨.startField, [], acc⟩, by simp [run], by simp [Good]⟩
    | cons c r =>
      refine ⟨⟨.inField, (c :: r).reverse, acc⟩, ?_, by simp [Good]⟩
      have hr : needsQuote d r = false := by
        simp [needsQuote] at hn ⊢; exact hn.2
      have hc : c ≠ d ∧ c ≠ '"' ∧ c ≠ '\r' ∧ c ≠ '\n' := by
        simp [needsQuote] at hn; obtain ⟨⟨⟨a, b⟩, c'⟩, e⟩ := hn.1; exact ⟨a, b, c', e⟩
      obtain ⟨c1, c2, c3, c4⟩ := hc
      simp [run, step, stepStartField, isNL, Parser.add, c1, c2, c3, c4, inField_run _ _ _ _ hr]

theorem joinFields_cons2 (d : Char) (a b : Str) (l : List Str) :
    joinFields d (a :: b :: l) = a ++ d :: joinFields d (b :: l) := by
  simp [joinFields]

theorem row_run {d : Char} (hd : IsDelim d) (only : Bool) (r : List Str) : ∀ (f : Str) (acc : List Str),
    ∃ p, run d ⟨.startField, [], acc⟩ (joinFields d ((f :: r).map (writeField d only))) = .ok p ∧
      Good p (acc.reverse ++ f :: r) := by
  induction r with
  | nil =>
    intro f acc
    simpa [joinFields] using field_run (d := d) only f acc
  | cons g r ih =>
    intro f acc
    obtain ⟨p, hp, hg⟩ := field_run (d := d) only f acc
    obtain ⟨q, hq, hgq⟩ := ih g (acc.reverse ++ [f]).reverse
    refine ⟨q, ?_, by simpa using hgq⟩
    simp only [List.map_cons, joinFields_cons2] at hq ⊢
    rw [run_append d _ _ _ _ hp]
    simp only [run, hg.step_delim hd]
    exact hq

theorem run_startRecord (d : Char) (fl : Str) (acc : List Str) (c : Char) (s : Str) (hc : isNL c = false) :
    run d ⟨.startRecord, fl, acc⟩ (c :: s) = run d ⟨.startField, fl, acc⟩ (c :: s) := by
  have hs : step d ⟨.startRecord, fl, acc⟩ c = step d ⟨.startField, fl, acc⟩ c := by
    simp only [step, hc, stepStartField, Parser.save, Parser.add]
    by_cases h1 : c = '"' <;> by_cases h2 : c = d <;> simp [h1, h2]
  simp only [run, hs]

theorem head_nonNL {d : Char} (hd : IsDelim d) (f : Str) (hf : Clean f) (only : Bool) (rest : Str)
    (h : only = true ∨ ∃ s, rest = d :: s) :
    ∃ c s, writeField d only f ++ rest = c :: s ∧ isNL c = false := by
  unfold writeField
  split
  · exact ⟨'"', doubleQuotes f ++ ['"'] ++ rest, by simp, by decide⟩
  · rename_i hq
    cases f with
    | nil =>
      rcases h with rfl | ⟨s, rfl⟩
      · simp at hq
      · exact ⟨d, s, by simp, hd.notNL⟩
    | cons c r =>
      refine ⟨c, r ++ rest, by simp, ?_⟩
      have := hf.1; have := hf.2
      simp_all [isNL, Clean]
      grind

/-- the row body (without terminator) of a non-empty record brings the parser into a `Good` state -/
theorem body_run {d : Char} (hd : IsDelim d) (fs : List Str) (h : ∀ f ∈ fs, Clean f) (hne : fs ≠ []) (rest : Str) :
    ∃ p, Good p fs ∧
      run d ⟨.startRecord, [], []⟩ (joinFields d (fs.map (writeField d (fs.length == 1))) ++ rest) = run d p rest := by
  match fs, hne with
  | f :: r, _ =>
    obtain ⟨p, hp, hg⟩ := row_run hd ((f :: r).length == 1) r f []
    refine ⟨p, by simpa using hg, ?_⟩
    have hf : Clean f := h f (by simp)
    have hhead : ∃ c s, joinFields d ((f :: r).map (writeField d ((f :: r).length == 1))) ++ rest = c :: s ∧
        isNL c = false := by
      cases r with
      | nil => simpa [joinFields] using head_nonNL hd f hf true rest (Or.inl rfl)
      | cons g r' =>
        have := head_nonNL hd f hf ((f :: g :: r').length == 1)
          (d :: joinFields d ((g :: r').map (writeField d ((f :: g :: r').length == 1))) ++ rest) (Or.inr ⟨_, rfl⟩)
        simpa [joinFields_cons2] using this
    obtain ⟨c, s, hcs, hc⟩ := hhead
    rw [hcs, run_startRecord d _ _ c s hc, ← hcs]
    exact run_append d _ _ _ _ hp

/-! ### main theorems -/

/-- `load(save(r))` at the level of the field strings: any fields without line breaks (delimiters, quotes, blanks,
backslashes, non-ASCII, empty, a lone empty field) survive writer + reader -/
theorem csv_roundtrip (d : Char) (hd : IsDelim d) (fs : List Str) (h : ∀ f ∈ fs, Clean f) :
    parseRow d (writeRow d fs) = .ok fs := by
  by_cases hne : fs = []
  · subst hne
    simp [parseRow, writeRow, joinFields, run, step, isNL, finish]
  · obtain ⟨p, hg, hr⟩ := body_run hd fs h hne ['\r', '\n']
    obtain ⟨h1, h2, h3⟩ := hd.facts
    unfold parseRow writeRow
    rw [hr]
    have s1 := hg.step_nl (d := d) '\r' (by decide) (by decide) (Ne.symm h2)
    simp only [run, s1]
    simp [step, isNL, finish]

/-- the same for the line as a saved record file holds it: `save` strips the final `\n` and writes its own, so the reader
sees the row with a trailing `\r` -/
theorem csv_roundtrip_cr (d : Char) (hd : IsDelim d) (fs : List Str) (h : ∀ f ∈ fs, Clean f) :
    parseRow d (writeRow d fs).dropLast = .ok fs := by
  have hdl : (writeRow d fs).dropLast = joinFields d (fs.map (writeField d (fs.length == 1))) ++ ['\r'] := by
    unfold writeRow
    rw [show (['\r', '\n'] : Str) = ['\r'] ++ ['\n'] from rfl, ← List.append_assoc, List.dropLast_concat]
  rw [hdl]
  by_cases hne : fs = []
  · subst hne
    simp [parseRow, joinFields, run, step, isNL, finish]
  · obtain ⟨p, hg, hr⟩ := body_run hd fs h hne ['\r']
    obtain ⟨h1, h2, h3⟩ := hd.facts
    unfold parseRow
    rw [hr]
    have s1 := hg.step_nl (d := d) '\r' (by decide) (by decide) (Ne.symm h2)
    simp [run, s1, finish]

/-- and for a row without any terminator (a file written by other means), except that the empty row has no fields -/
theorem csv_roundtrip_bare (d : Char) (hd : IsDelim d) (fs : List Str) (h : ∀ f ∈ fs, Clean f) (hne : fs ≠ []) :
    parseRow d ((writeRow d fs).dropLast.dropLast) = .ok fs := by
  have hdl : (writeRow d fs).dropLast.dropLast = joinFields d (fs.map (writeField d (fs.length == 1))) ++ [] := by
    unfold writeRow
    rw [show (['\r', '\n'] : Str) = ['\r'] ++ ['\n'] from rfl, ← List.append_assoc, List.dropLast_concat,
      List.dropLast_concat, List.append_nil]
  rw [hdl]
  obtain ⟨p, hg, hr⟩ := body_run hd fs h hne []
  unfold parseRow
  rw [hr]
  simp [run, hg.finish]

theorem not_mem_doubleQuotes (x : Char) (hx : x ≠ '"') (f : Str) (hf : x ∉ f) : x ∉ doubleQuotes f := by
  induction f with
  | nil => simp [doubleQuotes]
  | cons c r ih =>
    simp at hf
    unfold doubleQuotes
    split <;> simp [hx, hf.1, ih hf.2]

theorem not_mem_writeField (x : Char) (hx : x ≠ '"') (d : Char) (only : Bool) (f : Str) (hf : x ∉ f) :
    x ∉ writeField d only f := by
  unfold writeField
  split
  · simp [hx, not_mem_doubleQuotes x hx f hf]
  · exact hf

theorem not_mem_joinFields (x d : Char) (hx : x ≠ d) (ws : List Str) (h : ∀ w ∈ ws, x ∉ w) :
    x ∉ joinFields d ws := by
  induction ws with
  | nil => simp [joinFields]
  | cons a l ih =>
    cases l with
    | nil => simpa [joinFields] using h a (by simp)
    | cons b l' =>
      rw [joinFields_cons2]
      have ha := h a (by simp)
      have := ih (fun w hw => h w (by simp [hw]))
      simp [ha, hx, this]

/-- `save(r)` occupies a single line: the only line break is the final terminator -/
theorem csv_single_line (d : Char) (hd : IsDelim d) (fs : List Str) (h : ∀ f ∈ fs, Clean f) :
    ∃ body, writeRow d fs = body ++ ['\r', '\n'] ∧ '\n' ∉ body ∧ '\r' ∉ body := by
  obtain ⟨h1, h2, h3⟩ := hd.facts
  refine ⟨_, rfl, ?_, ?_⟩
  · apply not_mem_joinFields _ _ (Ne.symm h3)
    intro w hw
    obtain ⟨f, hf, rfl⟩ := List.mem_map.1 hw
    exact not_mem_writeField _ (by decide) _ _ _ (h f hf).2
  · apply not_mem_joinFields _ _ (Ne.symm h2)
    intro w hw
    obtain ⟨f, hf, rfl⟩ := List.mem_map.1 hw
    exact not_mem_writeField _ (by decide) _ _ _ (h f hf).1

theorem dictToString_empty (d : Char) (fs : List Str) :
    dictToString d ⟨[], 0⟩ fs = (⟨[], 0⟩, writeRow d fs) := by
  simp [dictToString, SIO.write, SIO.truncate0, SIO.seek0]

/-- the shared class-level buffer: whatever the sequence of saves (across record classes), each returns exactly its own
row and leaves the buffer empty at position 0 -/
theorem buffer_reset (rows : List (Char × List Str)) :
    (saveMany ⟨[], 0⟩ rows).2 = rows.map (fun r => writeRow r.1 r.2) ∧ (saveMany ⟨[], 0⟩ rows).1 = ⟨[], 0⟩ := by
  induction rows with
  | nil => simp [saveMany]
  | cons r rest ih =>
    obtain ⟨d, fs⟩ := r
    simp only [saveMany, dictToString_empty, List.map_cons]
    exact ⟨by rw [ih.1], ih.2⟩

/-- JSON glue under the stated library assumption (`loads ∘ dumps = id` on the value domain, no raw line break in the
output): `load(save(r)) = r` and `save(r)` is a single line.  A record is its list of `(field name, value)`. -/
structure JsonLib (V : Type) where
  dumps  : List (Str × V) → Str
  loads  : Str → Option (List (Str × V))
  rt     : ∀ o, loads (dumps o) = some o
  single : ∀ o, '\n' ∉ dumps o ∧ '\r' ∉ dumps o

def jsonSave {V} (L : JsonLib V) (r : List (Str × V)) : Str := L.dumps r
/-- `json.loads`, keep the keys that are field names, construct -/
def jsonLoad {V} (L : JsonLib V) (names : List Str) (s : Str) : Option (List (Str × V)) :=
  (L.loads s).map (fun o => o.filter (fun kv => names.contains kv.1))

theorem json_glue {V} (L : JsonLib V) (names : List Str) (r : List (Str × V)) (hr : r.map (·.1) = names) :
    jsonLoad L names (jsonSave L r) = some r ∧ '\n' ∉ jsonSave L r ∧ '\r' ∉ jsonSave L r := by
  refine ⟨?_, L.single r⟩
  unfold jsonLoad jsonSave
  rw [L.rt]
  simp only [Option.map_some, Option.some.injEq, List.filter_eq_self]
  intro kv hkv
  subst hr
  simp only [List.contains_eq_mem, List.mem_map, decide_eq_true_eq]
  exact ⟨kv, hkv, rfl⟩

end WindVerif.Records
