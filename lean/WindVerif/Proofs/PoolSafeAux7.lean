import WindVerif.Proofs.PoolSafeAux6
/-!
Auxiliary development for `PoolSafe.lean`, part 7: the history invariant (what the calls that are over have emitted) and its
preservation.
-/
namespace WindVerif.Pool
open List

/-! ## what the steps of the other threads leave alone -/

/-- the fields the history invariant looks at -/
def hview (s : St) : Cfg × Option Call × List Call × Nat × List (Nat × Nat) × CPc :=
  (s.cfg, s.cur, s.callsLeft, s.callNo, s.out, s.cpc)

macro "step_frame" h:ident : tactic => `(tactic| (
  all_goals (repeat' (split at $h:ident))
  all_goals (first | (simp at $h:ident; done) | (simp only [Option.some.injEq] at $h:ident; subst $h:ident; rfl))))

theorem stepW_hview {s s' : St} {wid : Nat} (h : stepW s wid = some s') : hview s' = hview s := by
  unfold stepW at h
  split at h
  · simp at h
  · rename_i w hg
    cases hpc : w.pc <;> rw [hpc] at h <;> simp only [] at h
    step_frame h

theorem stepR_hview {s s' : St} (h : stepR s = some s') : hview s' = hview s := by
  unfold stepR at h
  split at h
  · simp at h
  · cases hpc : s.rpc <;> rw [hpc] at h <;> simp only [] at h
    step_frame h

theorem stepF_hview {s s' : St} (h : stepF s = some s') : hview s' = hview s := by
  unfold stepF at h
  split at h
  · simp at h
  · cases hpc : s.fpc <;> rw [hpc] at h <;> simp only [] at h
    step_frame h

/-! ## the history invariant -/

/-- `__enter__` / `until_all_ready` -/
def bootPc : CPc → Bool
  | .enterStart _ | .readyWait _ | .nextCall => true
  | _ => false

/-- what is known about the calls that are over -/
def DoneOk (out : List (Nat × Nat)) (done : List Call) : Prop :=
  ∀ k (hk : k < done.length), (curOutL out (k + 1)).Perm (List.range done[k].chunks) ∧
    (done[k].ordered = true → curOutL out (k + 1) = List.range done[k].chunks)

structure HistInv (s : St) : Prop where
  hist : ∃ done : List Call, s.cfg.calls = done ++ s.cur.toList ++ s.callsLeft ∧
    done.length + s.cur.toList.length = s.callNo ∧ DoneOk s.out done
  outPos : ∀ p ∈ s.out, 1 ≤ p.1
  boot : bootPc s.cpc = true → s.cur = none
  fin : exitPc s.cpc = true → s.cur = none ∧ s.callsLeft = []

theorem hist_frame {s s' : St} (h : HistInv s) (e1 : s'.cfg = s.cfg) (e2 : s'.cur = s.cur)
    (e3 : s'.callsLeft = s.callsLeft) (e4 : s'.callNo = s.callNo) (e5 : s'.out = s.out)
    (e6 : bootPc s'.cpc = bootPc s.cpc) (e7 : exitPc s'.cpc = exitPc s.cpc) : HistInv s' := by
  obtain ⟨h1, h2, h3, h4⟩ := h
  refine ⟨?_, ?_, ?_, ?_⟩
  · rw [e1, e2, e3, e4, e5]; exact h1
  · rw [e5]; exact h2
  · rw [e6, e2]; exact h3
  · rw [e7, e2, e3]; exact h4

theorem hist_of_hview {s s' : St} (h : HistInv s) (e : hview s' = hview s) : HistInv s' := by
  simp only [hview, Prod.mk.injEq] at e
  obtain ⟨e1, e2, e3, e4, e5, e6⟩ := e
  exact hist_frame h e1 e2 e3 e4 e5 (by rw [e6]) (by rw [e6])

/-- the consumer moves on without touching the call bookkeeping -/
theorem hist_cpc (s : St) (h : HistInv s) (pc' : CPc) (wq' rq' pq' : List (Option Nat)) (lk' : Option Tid)
    (fr' rr' rs' wk' ra' : Bool) (batch' : List Nat) (rpc' : RPc) (e6 : bootPc pc' = bootPc s.cpc)
    (e7 : exitPc pc' = exitPc s.cpc) :
    HistInv { s with workQ := wq', resQ := rq', replQ := pq', lock := lk', fRun := fr', rRun := rr', rStop := rs',
                     cpc := pc', woken := wk', rAlive := ra', batch := batch', rpc := rpc' } :=
  hist_frame h rfl rfl rfl rfl rfl e6 e7

theorem hist_cpc' (s : St) (h : HistInv s) (pc' : CPc) (e6 : bootPc pc' = bootPc s.cpc)
    (e7 : exitPc pc' = exitPc s.cpc) : HistInv { s with cpc := pc' } :=
  hist_frame h rfl rfl rfl rfl rfl e6 e7

theorem DoneOk_snoc {out : List (Nat × Nat)} {done : List Call} {c : Call} (h : DoneOk out done)
    (hp : (curOutL out (done.length + 1)).Perm (List.range c.chunks))
    (ho : c.ordered = true → curOutL out (done.length + 1) = List.range c.chunks) : DoneOk out (done ++ [c]) := by
  intro k hk
  rw [length_append, length_singleton] at hk
  by_cases hlt : k < done.length
  · rw [getElem_append_left hlt]
    exact h k hlt
  · have : k = done.length := by omega
    subst this
    simp only [getElem_append_right (Nat.le_refl _), Nat.sub_self, getElem_cons_zero]
    exact ⟨hp, ho⟩

theorem hist_toNextCall (s : St) (h : HistInv s)
    (hres : ∀ c, s.cur = some c → (curOutL s.out s.callNo).Perm (List.range c.chunks) ∧
      (c.ordered = true → curOutL s.out s.callNo = List.range c.chunks)) : HistInv (toNextCall s) := by
  obtain ⟨⟨done, h1, h2, h3⟩, hpos, hboot, hfin⟩ := h
  -- the list of finished calls after the call
  have key : ∃ done' : List Call, s.cfg.calls = done' ++ s.callsLeft ∧ done'.length = s.callNo ∧ DoneOk s.out done' := by
    cases hc : s.cur with
    | none =>
      rw [hc] at h1 h2
      exact ⟨done, by simpa using h1, by simpa using h2, h3⟩
    | some c =>
      rw [hc] at h1 h2
      simp only [Option.toList_some, length_singleton] at h1 h2
      obtain ⟨r1, r2⟩ := hres c hc
      rw [← h2] at r1 r2
      exact ⟨done ++ [c], h1, by simpa using h2, DoneOk_snoc h3 r1 r2⟩
  obtain ⟨done', k1, k2, k3⟩ := key
  unfold toNextCall
  split
  · rename_i call rest hcl
    rw [hcl] at k1
    simp only []
    split
    · refine ⟨⟨done', ?_, ?_, k3⟩, hpos, fun hb => by simp [bootPc] at hb, fun he => by simp [exitPc] at he⟩
      · simpa using k1
      · simp [k2]
    · refine ⟨⟨done', ?_, ?_, k3⟩, hpos, fun hb => by simp [bootPc] at hb, fun he => by simp [exitPc] at he⟩
      · simpa using k1
      · simp [k2]
  · rename_i hcl
    rw [hcl] at k1
    simp only []
    split
    · refine ⟨⟨done', ?_, ?_, k3⟩, hpos, fun _ => rfl, fun _ => ⟨rfl, hcl⟩⟩
      · simpa [hcl] using k1
      · simp [k2]
    · refine ⟨⟨done', ?_, ?_, k3⟩, hpos, fun _ => rfl, fun _ => ⟨rfl, hcl⟩⟩
      · simpa [hcl] using k1
      · simp [k2]

theorem hist_afterResults (s : St) (h : HistInv s) (hb : bootPc s.cpc = false) (he : exitPc s.cpc = false) :
    HistInv (afterResults s) := by
  have key : ∀ pc', bootPc pc' = false → exitPc pc' = false → HistInv { consumeBatch s with cpc := pc' } := by
    intro pc' hb' he'
    cases hc : s.cur with
    | none =>
      have : consumeBatch s = s := by unfold consumeBatch; rw [hc]
      rw [this]
      exact hist_cpc' s h pc' (by rw [hb, hb']) (by rw [he, he'])
    | some call =>
      obtain ⟨buf', wf', em, hcb, -, -, -⟩ := consumeBatch_spec s call hc
      rw [hcb]
      obtain ⟨⟨done, h1, h2, h3⟩, hpos, hboot, hfin⟩ := h
      rw [hc] at h2
      simp only [Option.toList_some, length_singleton] at h2
      refine ⟨⟨done, h1, by rw [hc]; simpa using h2, ?_⟩, ?_, fun hb2 => by simp [hb'] at hb2,
        fun he2 => by simp [he'] at he2⟩
      · intro k hk
        show (curOutL (s.out ++ em.map (fun j => (s.callNo, j))) (k + 1)).Perm _ ∧ _
        rw [curOutL_append, curOutL_map_ne em s.callNo (k + 1) (by omega), append_nil]
        exact h3 k hk
      · intro p hp
        rw [mem_append] at hp
        rcases hp with hp | hp
        · exact hpos p hp
        · rw [mem_map] at hp
          obtain ⟨j, _, rfl⟩ := hp
          show 1 ≤ s.callNo
          omega
  obtain ⟨c', heq, hcl⟩ := afterResults_pc s
  rw [heq]
  rcases hcl with h | h | h | ⟨wid, h⟩ <;> subst h <;> exact key _ rfl rfl

theorem hist_afterBatch (s : St) (h : HistInv s) (hb : bootPc s.cpc = false) (he : exitPc s.cpc = false) :
    HistInv (afterBatch s) := by
  obtain ⟨c', heq, hcl⟩ := afterBatch_eq s
  rw [heq]
  refine hist_cpc' s h c' ?_ ?_
  · rw [hb]; rcases hcl with h | h | h <;> subst h <;> rfl
  · rw [he]; rcases hcl with h | h | h <;> subst h <;> rfl

theorem exitJoinFrom_class (s : St) (fuel : Nat) :
    ∀ i, bootPc (exitJoinFrom s fuel i) = false ∧ exitPc (exitJoinFrom s fuel i) = true := by
  induction fuel with
  | zero => intro i; exact ⟨rfl, rfl⟩
  | succ f ih =>
    intro i
    unfold exitJoinFrom
    split
    · exact ⟨rfl, rfl⟩
    · split
      · exact ih _
      · exact ⟨rfl, rfl⟩

/-- the result of a call whose loop has been left (the core of `imap_result`) -/
theorem safe_result (s : St) (h : SafeInv s) (c : Call) (hcur : s.cur = some c)
    (hq : (csig s.cpc).post = true) :
    (curOutL s.out s.callNo).Perm (List.range c.chunks) ∧
    (c.ordered = true → curOutL s.out s.callNo = List.range c.chunks) ∧
    flightL s.workQ s.workers s.resQ = [] ∧ s.batch = [] ∧ s.buffer = [] := by
  obtain ⟨hc, hd, ho, hw⟩ := (safe_iff s).1 h
  have hcs : s.cur.isSome = true := by simp [hcur]
  have hpre : (csig s.cpc).pre = false := by
    cases hp : (csig s.cpc).pre
    · rfl
    · have := (hc.sigOk.prePost hp).1; rw [hq] at this; simp at this
  obtain ⟨hsend, hfin⟩ := hc.post hq
  have htot := hc.total c hcur hpre
  rw [hsend] at hc
  have hn := sentV_of_not_sending hc hpre hcs
  rw [hn] at hd
  obtain ⟨q1, q2, q3, q4⟩ := data_quiet hd (fun _ => by rw [hfin]; exact Nat.le_refl _)
  have q4' := q4 hcs
  rw [htot] at q4'
  refine ⟨q4', ?_, q1, q2, q3⟩
  intro hord
  have e := hd.ordered c hcur hord
  have hl := q4'.length_eq
  rw [e, length_range, length_range] at hl
  rw [e, hl]

/-! ## consumer steps preserve the history invariant -/

theorem hist_stepC (s s' : St) (hs0 : SafeInv s) (h : HistInv s) (hs : stepC s = some s') : HistInv s' := by
  have hres_pre : bootPc s.cpc = true → ∀ c, s.cur = some c →
      (curOutL s.out s.callNo).Perm (List.range c.chunks) ∧
      (c.ordered = true → curOutL s.out s.callNo = List.range c.chunks) := by
    intro hb c hc
    rw [h.boot hb] at hc
    simp at hc
  have hres_post : (csig s.cpc).post = true → ∀ c, s.cur = some c →
      (curOutL s.out s.callNo).Perm (List.range c.chunks) ∧
      (c.ordered = true → curOutL s.out s.callNo = List.range c.chunks) := by
    intro hq c hc
    have := safe_result s hs0 c hc hq
    exact ⟨this.1, this.2.1⟩
  unfold stepC at hs
  split at hs
  · -- enterStart
    rename_i i hpc
    split at hs
    · simp at hs
    · split at hs
      · simp at hs
      · rename_i w hg
        have h1 : HistInv (setWorker s { w with pc := .bfClear }) := hist_frame h rfl rfl rfl rfl rfl rfl rfl
        simp only [] at hs
        split at hs
        · simp only [Option.some.injEq] at hs
          subst hs
          exact hist_cpc' _ h1 _ (by show _ = bootPc s.cpc; rw [hpc]; rfl) (by show _ = exitPc s.cpc; rw [hpc]; rfl)
        · simp only [Option.some.injEq] at hs
          subst hs
          unfold afterEnter
          split
          · exact hist_cpc' _ h1 _ (by show _ = bootPc s.cpc; rw [hpc]; rfl) (by show _ = exitPc s.cpc; rw [hpc]; rfl)
          · rw [toNextCall_cpc]
            exact hist_toNextCall _ h1 (hres_pre (by rw [hpc]; rfl))
  · -- readyWait
    rename_i i hpc
    split at hs
    · simp at hs
    · split at hs
      · simp at hs
      · split at hs
        · split at hs
          · simp only [Option.some.injEq] at hs
            subst hs
            exact hist_cpc' s h _ (by rw [hpc]; rfl) (by rw [hpc]; rfl)
          · simp only [Option.some.injEq] at hs
            subst hs
            rw [toNextCall_cpc]
            exact hist_toNextCall s h (hres_pre (by rw [hpc]; rfl))
        · simp at hs
  · -- nextCall
    rename_i hpc
    simp only [Option.some.injEq] at hs
    subst hs
    exact hist_toNextCall s h (hres_pre (by rw [hpc]; rfl))
  · -- rInitSet
    rename_i hpc
    simp only [Option.some.injEq] at hs
    subst hs
    exact hist_frame h rfl rfl rfl rfl rfl (by rw [hpc]; rfl) (by rw [hpc]; rfl)
  · -- rStart
    rename_i hpc
    simp only [Option.some.injEq] at hs
    subst hs
    exact hist_frame h rfl rfl rfl rfl rfl (by rw [hpc]; rfl) (by rw [hpc]; rfl)
  · -- fInitSet
    rename_i hpc
    simp only [Option.some.injEq] at hs
    subst hs
    exact hist_frame h rfl rfl rfl rfl rfl (by rw [hpc]; rfl) (by rw [hpc]; rfl)
  · -- wrSending
    rename_i hpc
    simp only [Option.some.injEq] at hs
    subst hs
    exact hist_frame h rfl rfl rfl rfl rfl (by rw [hpc]; rfl) (by rw [hpc]; rfl)
  · -- wrDataCnt
    rename_i hpc
    simp only [Option.some.injEq] at hs
    subst hs
    exact hist_frame h rfl rfl rfl rfl rfl (by rw [hpc]; rfl) (by rw [hpc]; rfl)
  · -- fStart
    rename_i hpc
    split at hs
    · simp at hs
    · simp only [Option.some.injEq] at hs
      subst hs
      exact hist_frame h rfl rfl rfl rfl rfl (by rw [hpc]; rfl) (by rw [hpc]; rfl)
  · -- rdSending
    rename_i hpc
    split at hs <;>
    · simp only [Option.some.injEq] at hs
      subst hs
      exact hist_frame h rfl rfl rfl rfl rfl (by rw [hpc]; rfl) (by rw [hpc]; rfl)
  · -- rdDataCnt
    rename_i hpc
    split at hs <;>
    · simp only [Option.some.injEq] at hs
      subst hs
      exact hist_frame h rfl rfl rfl rfl rfl (by rw [hpc]; rfl) (by rw [hpc]; rfl)
  · -- qsize1
    rename_i hpc
    split at hs <;>
    · simp only [Option.some.injEq] at hs
      subst hs
      exact hist_frame h rfl rfl rfl rfl rfl (by rw [hpc]; rfl) (by rw [hpc]; rfl)
  · -- lockAcq
    rename_i hpc
    split at hs
    · simp only [Option.some.injEq] at hs
      subst hs
      exact hist_frame h rfl rfl rfl rfl rfl (by rw [hpc]; rfl) (by rw [hpc]; rfl)
    · simp at hs
  · -- qsize2
    rename_i hpc
    split at hs <;>
    · simp only [Option.some.injEq] at hs
      subst hs
      exact hist_frame h rfl rfl rfl rfl rfl (by rw [hpc]; rfl) (by rw [hpc]; rfl)
  · -- getNowait
    rename_i hpc
    split at hs <;>
    · simp only [Option.some.injEq] at hs
      subst hs
      exact hist_frame h rfl rfl rfl rfl rfl (by rw [hpc]; rfl) (by rw [hpc]; rfl)
  · -- lockRel
    rename_i hpc
    simp only [] at hs
    split at hs
    · simp only [Option.some.injEq] at hs
      subst hs
      exact hist_afterResults _ (hist_frame (s' := { s with lock := none }) h rfl rfl rfl rfl rfl rfl rfl)
        (by show bootPc s.cpc = false; rw [hpc]; rfl) (by show exitPc s.cpc = false; rw [hpc]; rfl)
    · simp only [Option.some.injEq] at hs
      subst hs
      exact hist_frame h rfl rfl rfl rfl rfl (by rw [hpc]; rfl) (by rw [hpc]; rfl)
  · -- getBlock
    rename_i hpc
    split at hs
    · simp at hs
    · rename_i r hq
      simp only [Option.some.injEq] at hs
      subst hs
      exact hist_afterResults _ (hist_frame (s' := { s with resQ := r, batch := [] }) h rfl rfl rfl rfl rfl rfl rfl)
        (by show bootPc s.cpc = false; rw [hpc]; rfl) (by show exitPc s.cpc = false; rw [hpc]; rfl)
    · rename_i i r hq
      simp only [Option.some.injEq] at hs
      subst hs
      exact hist_afterResults _ (hist_frame (s' := { s with resQ := r, batch := [i] }) h rfl rfl rfl rfl rfl rfl rfl)
        (by show bootPc s.cpc = false; rw [hpc]; rfl) (by show exitPc s.cpc = false; rw [hpc]; rfl)
  · -- flowClear
    rename_i hpc
    simp only [Option.some.injEq] at hs
    subst hs
    exact hist_frame h rfl rfl rfl rfl rfl (by rw [hpc]; rfl) (by rw [hpc]; rfl)
  · -- flowIsSet
    rename_i hpc
    split at hs <;>
    · simp only [Option.some.injEq] at hs
      subst hs
      exact hist_frame h rfl rfl rfl rfl rfl (by rw [hpc]; rfl) (by rw [hpc]; rfl)
  · -- flowSet
    rename_i hpc
    simp only [Option.some.injEq] at hs
    subst hs
    exact hist_frame h rfl rfl rfl rfl rfl (by rw [hpc]; rfl) (by rw [hpc]; rfl)
  · -- fStopSet
    rename_i hpc
    simp only [Option.some.injEq] at hs
    subst hs
    exact hist_frame h rfl rfl rfl rfl rfl (by rw [hpc]; rfl) (by rw [hpc]; rfl)
  · -- fJoin
    rename_i hpc
    split at hs
    · simp at hs
    · split at hs
      · simp only [Option.some.injEq] at hs
        subst hs
        exact hist_frame h rfl rfl rfl rfl rfl (by rw [hpc]; rfl) (by rw [hpc]; rfl)
      · simp only [Option.some.injEq] at hs
        subst hs
        rw [toNextCall_cpc]
        exact hist_toNextCall s h (hres_post (by rw [hpc]; rfl))
  · -- rPutNone
    rename_i hpc
    simp only [Option.some.injEq] at hs
    subst hs
    exact hist_frame h rfl rfl rfl rfl rfl (by rw [hpc]; rfl) (by rw [hpc]; rfl)
  · -- rStopSet
    rename_i hpc
    simp only [Option.some.injEq] at hs
    subst hs
    exact hist_frame h rfl rfl rfl rfl rfl (by rw [hpc]; rfl) (by rw [hpc]; rfl)
  · -- rJoin
    rename_i hpc
    split at hs
    · simp at hs
    · simp only [Option.some.injEq] at hs
      subst hs
      rw [toNextCall_cpc]
      exact hist_toNextCall s h (hres_post (by rw [hpc]; rfl))
  · -- exitPut
    rename_i i hpc
    split at hs
    · split at hs
      · simp only [Option.some.injEq] at hs
        subst hs
        exact hist_frame h rfl rfl rfl rfl rfl (by rw [hpc]; rfl) (by rw [hpc]; rfl)
      · simp at hs
    · simp only [] at hs
      split at hs
      · simp only [Option.some.injEq] at hs
        subst hs
        exact hist_frame h rfl rfl rfl rfl rfl (by rw [hpc]; rfl) (by rw [hpc]; rfl)
      · simp only [Option.some.injEq] at hs
        subst hs
        exact hist_frame h rfl rfl rfl rfl rfl
          (by rw [hpc]; exact (exitJoinFrom_class _ _ _).1) (by rw [hpc]; exact (exitJoinFrom_class _ _ _).2)
  · -- exitJoin
    rename_i i hpc
    split at hs
    · simp at hs
    · split at hs
      · simp only [Option.some.injEq] at hs
        subst hs
        exact hist_frame h rfl rfl rfl rfl rfl
          (by rw [hpc]; exact (exitJoinFrom_class _ _ _).1) (by rw [hpc]; exact (exitJoinFrom_class _ _ _).2)
      · simp at hs
  · -- midReady
    rename_i i wid hpc
    split at hs
    · simp at hs
    · split at hs
      · split at hs
        · simp only [Option.some.injEq] at hs
          subst hs
          exact hist_frame h rfl rfl rfl rfl rfl (by rw [hpc]; rfl) (by rw [hpc]; rfl)
        · simp only [Option.some.injEq] at hs
          subst hs
          exact hist_afterBatch s h (by rw [hpc]; rfl) (by rw [hpc]; rfl)
      · simp at hs
  · -- done
    simp at hs

/-- consumer steps leave the configuration alone -/
theorem toNextCall_cfg (s : St) : (toNextCall s).cfg = s.cfg := by
  unfold toNextCall
  split <;> simp only [] <;> split <;> rfl

theorem afterResults_cfg (s : St) : (afterResults s).cfg = s.cfg := by
  have key : (consumeBatch s).cfg = s.cfg := by
    cases hc : s.cur with
    | none => unfold consumeBatch; rw [hc]
    | some call =>
      obtain ⟨buf', wf', em, hcb, -, -, -⟩ := consumeBatch_spec s call hc
      rw [hcb]
  obtain ⟨c', heq, _⟩ := afterResults_pc s
  rw [heq]
  exact key

theorem afterBatch_cfg (s : St) : (afterBatch s).cfg = s.cfg := by
  obtain ⟨c', heq, _⟩ := afterBatch_eq s
  rw [heq]

end WindVerif.Pool
