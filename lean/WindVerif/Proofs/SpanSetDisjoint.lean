import WindVerif.Proofs.SpanSet
/-!
`SpanSet.isdisjoint(other)` (`all(x not in self for x in s)`) asks `self`'s relation with the elements of `other` as
probes.  For the two symmetric relations (Exact, Overlaps) the operands may be swapped; for the two asymmetric ones
(PartOf, Includes) they may not.
-/
namespace WindVerif.SpanSet

/-- a relation is symmetric when probe and stored span may change places -/
def Rel.symm (r : Rel) : Prop := ∀ x y : Span, r.holds x y = r.holds y x

theorem exact_symm : Rel.symm .exact := by
  intro x y
  simp only [Rel.holds]
  rw [Bool.eq_iff_iff]
  simp only [Bool.and_eq_true, beq_iff_eq]
  constructor <;> (intro h; exact ⟨h.1.symm, h.2.symm⟩)

theorem overlaps_symm : Rel.symm .overlaps := by
  intro x y
  simp only [Rel.holds]
  rw [Bool.eq_iff_iff]
  simp only [Bool.and_eq_true, decide_eq_true_eq]
  constructor <;> (intro h; exact ⟨h.2, h.1⟩)

/-- `isdisjoint A s = false` iff some element of `s` is related (as probe) to some stored span of `A` -/
theorem isdisjoint_eq_true (A : SpanSet) (s : List Span) :
    isdisjoint A s = true ↔ ∀ x ∈ s, ∀ y ∈ A.spans, A.rel.holds x y = false := by
  rw [isdisjoint_iff]
  constructor
  · intro h x hx y hy
    cases hxy : A.rel.holds x y with
    | false => rfl
    | true =>
      have : mem A x = true := (mem_iff A x).2 ⟨y, hy, hxy⟩
      rw [h x hx] at this; exact absurd this (by decide)
  · intro h x hx
    cases hm : mem A x with
    | false => rfl
    | true =>
      obtain ⟨y, hy, hxy⟩ := (mem_iff A x).1 hm
      rw [h x hx y hy] at hxy; exact absurd hxy (by decide)

/-- swapping the operands of `isdisjoint` is harmless when both use the same symmetric relation -/
theorem isdisjoint_swap_of_symm (A B : SpanSet) (hrel : A.rel = B.rel) (hs : Rel.symm A.rel) :
    isdisjoint A B.spans = isdisjoint B A.spans := by
  rw [Bool.eq_iff_iff, isdisjoint_eq_true, isdisjoint_eq_true, ← hrel]
  constructor
  · intro h x hx y hy; rw [hs x y]; exact h y hy x hx
  · intro h x hx y hy; rw [hs x y]; exact h y hy x hx

theorem isdisjoint_swap_exact (A B : SpanSet) (hA : A.rel = .exact) (hB : B.rel = .exact) :
    isdisjoint A B.spans = isdisjoint B A.spans :=
  isdisjoint_swap_of_symm A B (hA.trans hB.symm) (hA ▸ exact_symm)

theorem isdisjoint_swap_overlaps (A B : SpanSet) (hA : A.rel = .overlaps) (hB : B.rel = .overlaps) :
    isdisjoint A B.spans = isdisjoint B A.spans :=
  isdisjoint_swap_of_symm A B (hA.trans hB.symm) (hA ▸ overlaps_symm)

/-- PartOf (`x in S`: `x` lies inside a stored span): `(2,3)` lies inside `(0,10)`, but `(0,10)` lies inside neither
`(2,3)` nor `(20,30)` -/
theorem isdisjoint_swap_partof_wrong :
    isdisjoint (mk .partOf [(0, 10)]) (mk .partOf [(2, 3), (20, 30)]).spans = false ∧
    isdisjoint (mk .partOf [(2, 3), (20, 30)]) (mk .partOf [(0, 10)]).spans = true := by decide

/-- Includes (`x in S`: `x` contains a stored span): the same two sets, the other way round -/
theorem isdisjoint_swap_includes_wrong :
    isdisjoint (mk .includes [(0, 10)]) (mk .includes [(2, 3), (20, 30)]).spans = true ∧
    isdisjoint (mk .includes [(2, 3), (20, 30)]) (mk .includes [(0, 10)]).spans = false := by decide

/-- the witnesses are sets whose spans are all kept by the constructor -/
theorem swap_witness_spans :
    (mk .partOf [(0, 10)]).spans = [(0, 10)] ∧ (mk .partOf [(2, 3), (20, 30)]).spans = [(2, 3), (20, 30)] ∧
    (mk .includes [(0, 10)]).spans = [(0, 10)] ∧ (mk .includes [(2, 3), (20, 30)]).spans = [(2, 3), (20, 30)] := by decide

end WindVerif.SpanSet
