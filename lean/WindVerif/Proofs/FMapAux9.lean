import WindVerif.Proofs.FMapAux8
/-! Termination: the measure `mu` decreases with every step. -/
namespace WindVerif.FMap

/-- the cost of everything that follows the end of a call -/
def tailD (c : Cfg) : Nat := if c.mulP then 0 else 2 * c.nWorkers + 2

theorem mu_startCallGo (l : List Nat) : ∀ s : St,
    mu (startCallGo s l) ≤ muA s + (l.map (callW s.cfg.nWorkers)).sum + 5 * (s.total - (s.next + 1)) + tailD s.cfg := by
  induction l with
  | nil =>
    intro s
    simp only [startCallGo]
    split
    · rename_i hc
      simp only [mu, muA, phi, tailD, List.map_nil, List.sum_nil]
      omega
    · rename_i hc
      have hm : s.cfg.mulP = false := by
        cases h : s.cfg.mulP
        · rfl
        · exact absurd (Or.inl h) hc
      simp only [mu, muA, phi, tailD, hm, List.map_nil, List.sum_nil, Bool.false_eq_true, if_false]
      omega
  | cons n rest ih =>
    intro s
    simp only [startCallGo]
    cases hm : s.cfg.mulP
    · simp only [Bool.false_eq_true, if_false]
      by_cases hn : n = 0
      · simp only [hn, if_true]
        refine Nat.le_trans (ih _) ?_
        simp only [muA, tailD, hm, List.map_cons, List.sum_cons, callW]
        omega
      · simp only [hn, if_false]
        simp only [mu, muA, phi, tailD, hm, List.map_cons, List.sum_cons, callW, Bool.false_eq_true, if_false]
        omega
    · simp only [if_true]
      simp only [mu, muA, phi, tailD, hm, List.map_cons, List.sum_cons, callW, List.map_append, List.sum_append,
        wOmega_mkWorkers, if_true]
      omega

theorem mu_finalOrNext (s : St) (hN : 1 ≤ s.cfg.nWorkers) :
    mu (finalOrNext s) ≤ muA s + (s.callsLeft.map (callW s.cfg.nWorkers)).sum + 5 * (s.total - (s.next + 1)) +
      phi s.cfg.mulP s.cfg.nWorkers .finalGet := by
  unfold finalOrNext
  split
  · simp only [mu, muA]; omega
  · cases hm : s.cfg.mulP
    · simp only [Bool.false_eq_true, if_false, startCall]
      refine Nat.le_trans (mu_startCallGo _ _) ?_
      simp only [tailD, hm, phi, Bool.false_eq_true, if_false]
      omega
    · have hn0 : ¬ s.cfg.nWorkers = 0 := by omega
      simp only [if_true, hn0, if_false]
      simp only [mu, muA, phi, if_true]
      omega

theorem mu_afterFeeding (s : St) (hN : 1 ≤ s.cfg.nWorkers) :
    mu (afterFeeding s) ≤ muA s + (s.callsLeft.map (callW s.cfg.nWorkers)).sum + 5 * (s.total - (s.next + 1)) +
      (if s.cfg.mulP then 2 * s.cfg.nWorkers + 3 else 2 * s.cfg.nWorkers + 2) := by
  unfold afterFeeding
  cases hm : s.cfg.mulP
  · simp only [Bool.false_eq_true, if_false]
    refine Nat.le_trans (mu_finalOrNext s hN) ?_
    simp only [phi, hm, Bool.false_eq_true, if_false]
    omega
  · have hn0 : ¬ s.cfg.nWorkers = 0 := by omega
    simp only [if_true, hn0, if_false]
    simp only [mu, muA, phi, hm, if_true]
    omega

theorem wsum_repl (l1 l2 : List Worker) (w : Worker) :
    ((l1 ++ w :: l2).map wOmega).sum = (l1.map wOmega).sum + wOmega w + (l2.map wOmega).sum := by
  simp only [List.map_append, List.map_cons, List.sum_append, List.sum_cons]; omega

theorem mu_stepW {cfg : Cfg} {s s' : St} {wid : Nat} (h : Main cfg s) (hs : stepW s wid = some s') : mu s' < mu s := by
  unfold stepW at hs
  cases hg : getWorker s wid with
  | none => simp [hg] at hs
  | some w =>
    simp only [hg] at hs
    obtain ⟨l1, l2, hws, hwid, hset⟩ := workers_decomp (wids_nodup h.wids) hg
    cases hpc : w.pc <;> simp only [hpc] at hs
    · cases hs
    · cases hq : s.workQ with
      | nil => simp [hq] at hs
      | cons a r =>
        cases a with
        | none =>
          simp only [hq, Option.some.injEq] at hs; subst hs
          have e := hset { w with pc := .exited } hwid
          dsimp only at e
          simp only [mu, muA, setWorker, e]
          simp only [hws, wsum_repl, hq, wOmega, hpc, chunksQ_none_cons]
          omega
        | some c =>
          simp only [hq, Option.some.injEq] at hs; subst hs
          have e := hset { w with pc := .put, held := some c } hwid
          dsimp only at e
          simp only [mu, muA, setWorker, e]
          simp only [hws, wsum_repl, hq, wOmega, hpc, chunksQ_some_cons, List.length_cons]
          omega
    · cases hwh : w.held with
      | none => simp [hwh] at hs
      | some c =>
        simp only [hwh, Option.some.injEq] at hs; subst hs
        have e := hset { w with pc := .get, held := none } hwid
        dsimp only at e
        simp only [mu, muA, setWorker, e]
        simp only [hws, wsum_repl, wOmega, hpc, List.length_append, List.length_singleton]
        omega
    · cases hs

theorem mu_receive (s : St) (i : Nat) : mu (receive s i) = mu s := by
  simp only [mu, muA, receive_workQ, receive_resQ, receive_workers, receive_total, receive_next, receive_ppc,
    receive_cfg, receive_callsLeft]

theorem mu_stepP {cfg : Cfg} (hw : 1 ≤ cfg.nWorkers) {s s' : St} (h : Main cfg s) (hs : stepP s = some s') :
    mu s' < mu s := by
  have hN : 1 ≤ s.cfg.nWorkers := by rw [h.cfg_eq]; exact hw
  cases hp : s.ppc with
  | start i =>
    unfold stepP at hs
    simp only [hp] at hs
    cases hg : getWorker s (s.base + i) with
    | none => simp [hg] at hs
    | some w =>
      simp only [hg] at hs
      obtain ⟨l1, l2, hws, hwid, hset⟩ := workers_decomp (wids_nodup h.wids) hg
      have hst : setWorker s { w with pc := .get } = { s with workers := l1 ++ { w with pc := .get } :: l2 } := by
        have e := hset { w with pc := .get } hwid
        dsimp only at e
        simp only [setWorker, e]
      rw [hst] at hs
      have hA : muA { s with workers := l1 ++ { w with pc := .get } :: l2 } ≤ muA s + 1 := by
        simp only [muA, hws, wsum_repl, wOmega]; omega
      have hmu : mu s = muA s + (s.callsLeft.map (callW s.cfg.nWorkers)).sum + 5 * (s.total - (s.next + 1)) +
          phi s.cfg.mulP s.cfg.nWorkers (.start i) := by rw [← hp]; rfl
      simp only at hs
      by_cases h1 : i + 1 < s.cfg.nWorkers
      · rw [if_pos h1] at hs
        simp only [Option.some.injEq] at hs; subst hs
        rw [hmu]
        simp only [mu, muA, phi] at hA ⊢
        omega
      · rw [if_neg h1] at hs
        cases hm : s.cfg.mulP
        · simp only [hm, Bool.false_eq_true, if_false, Option.some.injEq] at hs; subst hs
          have := mu_startCallGo s.callsLeft { s with workers := l1 ++ { w with pc := .get } :: l2 }
          simp only [tailD, hm] at this
          unfold startCall
          rw [hmu]
          simp only [phi, hm, Bool.false_eq_true, if_false] at this ⊢
          omega
        · simp only [hm, if_true] at hs
          by_cases ht : s.total = 0
          · rw [if_pos ht] at hs
            simp only [Option.some.injEq] at hs; subst hs
            have := mu_afterFeeding { s with workers := l1 ++ { w with pc := .get } :: l2 } hN
            rw [hmu]
            simp only [phi, hm, if_true] at this ⊢
            omega
          · rw [if_neg ht] at hs
            simp only [Option.some.injEq] at hs; subst hs
            rw [hmu]
            simp only [mu, muA, phi, hm, if_true] at hA ⊢
            omega
  | put =>
    unfold stepP at hs
    simp only [hp] at hs
    split at hs
    · cases hs
    · simp only [Option.some.injEq] at hs; subst hs
      have hmu : mu s = muA s + (s.callsLeft.map (callW s.cfg.nWorkers)).sum + 5 * (s.total - (s.next + 1)) +
          phi s.cfg.mulP s.cfg.nWorkers .put := by rw [← hp]; rfl
      rw [hmu]
      simp only [mu, muA, phi, chunksQ_append, chunksQ_some_cons, chunksQ_nil, List.length_append,
        List.length_singleton]
      cases s.cfg.mulP <;> simp <;> omega
  | nowait =>
    have hmu : mu s = muA s + (s.callsLeft.map (callW s.cfg.nWorkers)).sum + 5 * (s.total - (s.next + 1)) +
        phi s.cfg.mulP s.cfg.nWorkers .nowait := by rw [← hp]; rfl
    cases hq : s.resQ with
    | cons i r =>
      rw [stepP_nowait_cons hp hq] at hs
      split at hs
      · -- `exact`: the rest of the call (final drain, start of the next call) is skipped
        rename_i hex
        have hm : s.cfg.mulP = false := by
          cases hc : s.cfg.mulP
          · rfl
          · exact absurd hc hex.2.1
        simp only [Option.some.injEq] at hs; subst hs
        have := mu_startCallGo s.callsLeft (receive { s with resQ := r } i)
        unfold startCall
        rw [receive_callsLeft, hmu]
        simp only [muA, tailD, phi, receive_workQ, receive_resQ, receive_workers, receive_total, receive_next,
          receive_cfg, hm, hq, List.length_cons, Bool.false_eq_true, if_false] at this ⊢
        omega
      · simp only [Option.some.injEq] at hs; subst hs
        rw [mu_receive]
        simp only [mu, muA, hq, List.length_cons]
        omega
    | nil =>
      rw [stepP_nowait_nil hp hq] at hs
      by_cases h1 : s.next + 1 < s.total
      · rw [if_pos h1] at hs
        simp only [Option.some.injEq] at hs; subst hs
        rw [hmu]
        simp only [mu, muA, phi]
        cases s.cfg.mulP <;> simp <;> omega
      · rw [if_neg h1] at hs
        simp only [Option.some.injEq] at hs; subst hs
        have := mu_afterFeeding { s with next := s.next + 1 } hN
        rw [hmu]
        simp only [muA, phi] at this ⊢
        cases hm : s.cfg.mulP <;> simp only [hm] at this ⊢ <;> simp at this ⊢ <;> omega
  | stopPut i =>
    have hmu : mu s = muA s + (s.callsLeft.map (callW s.cfg.nWorkers)).sum + 5 * (s.total - (s.next + 1)) +
        phi s.cfg.mulP s.cfg.nWorkers (.stopPut i) := by rw [← hp]; rfl
    rw [stepP_stopPut hp] at hs
    split at hs
    · cases hs
    · by_cases h1 : i + 1 < s.cfg.nWorkers
      · rw [if_pos h1] at hs
        simp only [Option.some.injEq] at hs; subst hs
        rw [hmu]
        simp only [mu, muA, phi, chunksQ_append, chunksQ_none_cons, chunksQ_nil, List.append_nil]
        cases s.cfg.mulP <;> simp <;> omega
      · rw [if_neg h1] at hs
        cases hm : s.cfg.mulP
        · simp only [hm, Bool.false_eq_true, if_false, Option.some.injEq] at hs; subst hs
          rw [hmu]
          simp only [mu, muA, phi, hm, chunksQ_append, chunksQ_none_cons, chunksQ_nil, List.append_nil,
            Bool.false_eq_true, if_false]
          omega
        · simp only [hm, if_true, Option.some.injEq] at hs; subst hs
          have := mu_finalOrNext { s with workQ := s.workQ ++ [none] } hN
          rw [hmu]
          simp only [muA, phi, hm, chunksQ_append, chunksQ_none_cons, chunksQ_nil, List.append_nil, if_true] at this ⊢
          omega
  | finalGet =>
    have hmu : mu s = muA s + (s.callsLeft.map (callW s.cfg.nWorkers)).sum + 5 * (s.total - (s.next + 1)) +
        phi s.cfg.mulP s.cfg.nWorkers .finalGet := by rw [← hp]; rfl
    cases hq : s.resQ with
    | nil => unfold stepP at hs; simp [hp, hq] at hs
    | cons i r =>
      rw [stepP_finalGet_cons hp hq] at hs
      simp only [Option.some.injEq] at hs; subst hs
      have := mu_finalOrNext (receive { s with resQ := r } i) (by simpa using hN)
      rw [hmu]
      simp only [muA, receive_workQ, receive_resQ, receive_workers, receive_total, receive_next, receive_cfg,
        receive_callsLeft, hq, List.length_cons] at this ⊢
      omega
  | join i =>
    have hmu : mu s = muA s + (s.callsLeft.map (callW s.cfg.nWorkers)).sum + 5 * (s.total - (s.next + 1)) +
        phi s.cfg.mulP s.cfg.nWorkers (.join i) := by rw [← hp]; rfl
    unfold stepP at hs
    simp only [hp] at hs
    split at hs
    · by_cases h1 : i + 1 < s.cfg.nWorkers
      · rw [if_pos h1] at hs
        simp only [Option.some.injEq] at hs; subst hs
        rw [hmu]
        simp only [mu, muA, phi]
        omega
      · rw [if_neg h1] at hs
        cases hm : s.cfg.mulP
        · simp only [hm, Bool.false_eq_true, if_false, Option.some.injEq] at hs; subst hs
          rw [hmu]
          simp only [mu, muA, phi]
          omega
        · simp only [hm, if_true, Option.some.injEq] at hs; subst hs
          have := mu_startCallGo s.callsLeft s
          unfold startCall
          rw [hmu]
          simp only [tailD, hm, phi, if_true] at this ⊢
          omega
    · cases hs
  | done => unfold stepP at hs; simp [hp] at hs

theorem mu_step {cfg : Cfg} (hw : 1 ≤ cfg.nWorkers) {s s' : St} {t : Tid} (h : Main cfg s) (hs : step s t = some s') :
    mu s' < mu s := by
  cases t with
  | p => exact mu_stepP hw h hs
  | w wid => exact mu_stepW h hs

theorem run_mu {cfg : Cfg} (hw : 1 ≤ cfg.nWorkers) (sched : List Tid) :
    ∀ {s s' : St}, Inv cfg s → run s sched = some s' → sched.length + mu s' ≤ mu s := by
  induction sched with
  | nil => intro s s' _ hr; simp only [run, Option.some.injEq] at hr; subst hr; simp
  | cons t ts ih =>
    intro s s' h hr
    simp only [run] at hr
    cases hst : step s t with
    | none => simp [hst] at hr
    | some s1 =>
      simp only [hst] at hr
      have h1 := ih (inv_step hw h hst) hr
      have h2 := mu_step hw h.toMain hst
      simp only [List.length_cons]
      omega

end WindVerif.FMap
