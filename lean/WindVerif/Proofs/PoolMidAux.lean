import WindVerif.Spec.Pool
/-!
Mid-call `until_all_ready()` (`Cfg.readyMid`, program counters `CPc.midReady`): the shape of the thread-local continuations
`afterBatch`, `enterMid`, `afterResults` — each of them only sets the consumer's pc (after `consumeBatch`).  Shared by the
safety, lifecycle and liveness developments.
-/
namespace WindVerif.Pool

/-- the pcs the consumer can have right after a batch has been processed -/
def AfterPc (c : CPc) : Prop := c = .flowClear ∨ c = .flowIsSet ∨ c = .rdSending ∨ ∃ wid, c = .midReady 0 wid

theorem afterBatch_eq (s : St) :
    ∃ c', afterBatch s = { s with cpc := c' } ∧ (c' = .flowClear ∨ c' = .flowIsSet ∨ c' = .rdSending) := by
  unfold afterBatch
  split
  · split
    · split
      · exact ⟨_, rfl, Or.inl rfl⟩
      · exact ⟨_, rfl, Or.inr (Or.inl rfl)⟩
    · exact ⟨_, rfl, Or.inr (Or.inr rfl)⟩
  · exact ⟨_, rfl, Or.inr (Or.inr rfl)⟩

/-- more precisely: which of the three, and why -/
theorem afterBatch_cases (s : St) :
    (∃ call, s.cur = some call ∧ call.ordered = true ∧ bufferFull s = true ∧ afterBatch s = { s with cpc := .flowClear }) ∨
    (∃ call, s.cur = some call ∧ call.ordered = true ∧ bufferFull s = false ∧ afterBatch s = { s with cpc := .flowIsSet }) ∨
    ((∀ call, s.cur = some call → call.ordered = false) ∧ afterBatch s = { s with cpc := .rdSending }) := by
  unfold afterBatch
  split
  · rename_i call hc
    split
    · rename_i ho
      split
      · rename_i hb; exact Or.inl ⟨call, hc, ho, hb, rfl⟩
      · rename_i hb; exact Or.inr (Or.inl ⟨call, hc, ho, by simpa using hb, rfl⟩)
    · rename_i ho
      refine Or.inr (Or.inr ⟨?_, rfl⟩)
      intro c hcc; rw [hc] at hcc; cases hcc; simpa using ho
  · rename_i hc
    refine Or.inr (Or.inr ⟨?_, rfl⟩)
    intro c hcc; rw [hc] at hcc; cases hcc

theorem enterMid_eq (s : St) :
    ∃ c', enterMid s = { s with cpc := c' } ∧
      (c' = .flowClear ∨ c' = .flowIsSet ∨ c' = .rdSending ∨ ∃ wid, c' = .midReady 0 wid ∧ s.procs[0]? = some wid) := by
  unfold enterMid
  split
  · rename_i wid hw
    exact ⟨_, rfl, Or.inr (Or.inr (Or.inr ⟨wid, rfl, hw⟩))⟩
  · obtain ⟨c', h1, h2⟩ := afterBatch_eq s
    refine ⟨c', h1, ?_⟩
    rcases h2 with h | h | h
    · exact Or.inl h
    · exact Or.inr (Or.inl h)
    · exact Or.inr (Or.inr (Or.inl h))

/-- `afterResults` = `consumeBatch`, then a pc; the pc is a `midReady` only on the first emission of a call -/
theorem afterResults_eq (s : St) :
    ∃ c', afterResults s = { consumeBatch s with cpc := c' } ∧
      ((c' = .flowClear ∨ c' = .flowIsSet ∨ c' = .rdSending) ∧ afterResults s = afterBatch (consumeBatch s) ∨
       ∃ wid, c' = .midReady 0 wid ∧ (consumeBatch s).procs[0]? = some wid ∧ s.cfg.readyMid = true ∧ s.finished = 0 ∧
         0 < (consumeBatch s).finished) := by
  unfold afterResults
  dsimp only
  split
  · rename_i hcond
    unfold enterMid
    split
    · rename_i wid hw
      exact ⟨_, rfl, Or.inr ⟨wid, rfl, hw, hcond.1, hcond.2.1, hcond.2.2⟩⟩
    · obtain ⟨c', h1, h2⟩ := afterBatch_eq (consumeBatch s)
      exact ⟨c', h1, Or.inl ⟨h2, rfl⟩⟩
  · obtain ⟨c', h1, h2⟩ := afterBatch_eq (consumeBatch s)
    exact ⟨c', h1, Or.inl ⟨h2, rfl⟩⟩

theorem afterResults_pc (s : St) : ∃ c', afterResults s = { consumeBatch s with cpc := c' } ∧ AfterPc c' := by
  obtain ⟨c', h1, h2⟩ := afterResults_eq s
  refine ⟨c', h1, ?_⟩
  rcases h2 with ⟨h | h | h, _⟩ | ⟨wid, h, _⟩
  · exact Or.inl h
  · exact Or.inr (Or.inl h)
  · exact Or.inr (Or.inr (Or.inl h))
  · exact Or.inr (Or.inr (Or.inr ⟨wid, h⟩))

/-- with the flag off the model is the old one -/
theorem afterResults_noMid (s : St) (h : s.cfg.readyMid = false) : afterResults s = afterBatch (consumeBatch s) := by
  unfold afterResults
  simp [h]

end WindVerif.Pool
