import WindVerif.Spec.Pool
/-! Data level of the pool: chunking of the input and what the caller receives for a given emission order of chunks. -/
namespace WindVerif.Pool

/-! ### reference cutting -/

/-- number of chunks: ⌈n/k⌉ -/
def chunkLen (n k : Nat) : Nat := (n + k - 1) / k

/-- the i-th chunk of the reference cutting -/
def chunkAt {α} (data : List α) (k i : Nat) : List α := (data.drop (i * k)).take k

theorem lt_chunkLen_iff (n k i : Nat) (hk : 0 < k) : i < chunkLen n k ↔ i * k < n := by
  unfold chunkLen
  rw [← Nat.succ_le_iff, Nat.le_div_iff_mul_le hk, Nat.succ_mul]
  omega

theorem chunkLen_add (m k : Nat) (hk : 0 < k) : chunkLen (k + m) k = chunkLen m k + 1 := by
  unfold chunkLen
  have : k + m + k - 1 = (m + k - 1) + k := by omega
  rw [this, Nat.add_div_right _ hk]

theorem flatten_chunks {α} (data : List α) (k n : Nat) :
    ((List.range n).map (chunkAt data k)).flatten = data.take (n * k) := by
  induction n with
  | zero => simp
  | succ n ih =>
    rw [List.range_succ, List.map_append, List.flatten_append, ih, Nat.succ_mul, List.take_add]
    simp [chunkAt]

theorem chunkingGo_eq {α} (k : Nat) (hk : 0 < k) (rest : List α) : ∀ acc : List α, acc.length < k →
    chunkingGo k acc rest =
      (List.range (chunkLen (acc ++ rest).length k)).map (chunkAt (acc ++ rest) k) := by
  induction rest with
  | nil =>
    intro acc hacc
    simp only [chunkingGo, List.append_nil]
    split
    · have h1 : chunkLen acc.length k = 1 := by
        unfold chunkLen
        apply Nat.div_eq_of_lt_le <;> omega
      rw [h1]
      simp [chunkAt, List.take_of_length_le (Nat.le_of_lt hacc)]
    · have h0 : acc.length = 0 := by omega
      have h1 : chunkLen 0 k = 0 := by
        unfold chunkLen
        apply Nat.div_eq_of_lt; omega
      rw [h0, h1]; rfl
  | cons x r ih =>
    intro acc hacc
    simp only [chunkingGo]
    split
    next hlen =>
      rw [ih [] (by simpa using hk)]
      have hl : (acc ++ x :: r).length = k + r.length := by
        simp only [List.length_append, List.length_cons, List.length_nil] at hlen ⊢; omega
      have happ : acc ++ x :: r = (acc ++ [x]) ++ r := by simp
      rw [hl, chunkLen_add _ _ hk, List.range_succ_eq_map, List.map_cons, List.map_map, happ]
      congr 1
      · simp only [chunkAt, Nat.zero_mul, List.drop_zero]
        rw [List.take_left' hlen]
      · apply List.map_congr_left
        intro i _
        simp only [Function.comp, chunkAt, List.nil_append, Nat.succ_mul]
        rw [Nat.add_comm (i * k) k, ← List.drop_drop, List.drop_left' hlen]
    next hlen =>
      have hlt : (acc ++ [x]).length < k := by
        simp only [List.length_append, List.length_cons, List.length_nil] at hlen ⊢; omega
      rw [ih _ hlt]
      simp

/-- key lemma: the accumulate-and-yield generator is the reference cutting -/
theorem chunking_eq {α} (data : List α) (k : Nat) (hk : 0 < k) :
    chunking data k = (List.range ((data.length + k - 1) / k)).map (fun i => (data.drop (i * k)).take k) := by
  have := chunkingGo_eq k hk data [] (by simpa using hk)
  simp only [List.nil_append] at this
  rw [chunking, this]
  rfl

theorem chunking_eq' {α} (data : List α) (k : Nat) (hk : 0 < k) :
    chunking data k = (List.range (chunkLen data.length k)).map (chunkAt data k) :=
  chunking_eq data k hk

/-! ### main statements -/

theorem chunking_flatten {α} (data : List α) (k : Nat) (hk : 0 < k) : (chunking data k).flatten = data := by
  rw [chunking_eq' data k hk, flatten_chunks]
  apply List.take_of_length_le
  have := not_congr (lt_chunkLen_iff data.length k (chunkLen data.length k) hk)
  omega

/-- all chunks have `k` elements except possibly a shorter, non-empty last one; their number is ⌈n/k⌉ -/
theorem chunking_sizes {α} (data : List α) (k : Nat) (hk : 0 < k) :
    (chunking data k).length = (data.length + k - 1) / k ∧
    ∀ i ch, (chunking data k)[i]? = some ch →
      0 < ch.length ∧ ch.length ≤ k ∧ (i + 1 < (chunking data k).length → ch.length = k) := by
  rw [chunking_eq' data k hk]
  refine ⟨by simp [chunkLen], ?_⟩
  intro i ch h
  rw [List.getElem?_eq_some_iff] at h
  obtain ⟨hi, h⟩ := h
  simp only [List.length_map, List.length_range] at hi ⊢
  simp only [List.getElem_map, List.getElem_range] at h
  subst h
  rw [lt_chunkLen_iff _ _ _ hk] at hi
  rw [lt_chunkLen_iff _ _ _ hk, Nat.succ_mul]
  simp only [chunkAt, List.length_take, List.length_drop]
  omega

theorem range_map_getD {γ} (l : List (List γ)) :
    (List.range l.length).map (fun i => (l[i]?).getD []) = l := by
  apply List.ext_getElem
  · simp
  · intro i h1 h2
    simp [h2]

theorem yielded_eq_flatten {α β} (f : α → β) (data : List α) (k : Nat) (order : List Nat) :
    yielded f data k order = (order.map (fun i => (((chunking data k)[i]?).getD []).map f)).flatten := by
  unfold yielded
  rw [List.flatMap_def]

/-- chunks emitted in input order: the caller receives exactly `map f data` -/
theorem yielded_ordered {α β} (f : α → β) (data : List α) (k : Nat) (hk : 0 < k) :
    yielded f data k (List.range (chunking data k).length) = data.map f := by
  rw [yielded_eq_flatten]
  have h : (fun i => (((chunking data k)[i]?).getD []).map f) =
      (List.map f) ∘ (fun (i : Nat) => ((chunking data k)[i]?).getD []) := rfl
  rw [h, ← List.map_map, range_map_getD, ← List.map_flatten, chunking_flatten data k hk]

theorem perm_flatMap_left {γ δ} (g : γ → List δ) {l₁ l₂ : List γ} (hp : l₁.Perm l₂) :
    (l₁.flatMap g).Perm (l₂.flatMap g) := by
  induction hp with
  | nil => exact List.Perm.refl _
  | cons x _ ih =>
    simp only [List.flatMap_cons]
    exact List.Perm.append_left _ ih
  | swap x y l =>
    simp only [List.flatMap_cons, ← List.append_assoc]
    exact List.Perm.append_right _ List.perm_append_comm
  | trans _ _ ih1 ih2 => exact ih1.trans ih2

/-- chunks emitted in any order, each once: the same multiset of results, order inside each chunk kept -/
theorem yielded_unordered {α β} (f : α → β) (data : List α) (k : Nat) (hk : 0 < k) (order : List Nat)
    (hp : order.Perm (List.range (chunking data k).length)) :
    (yielded f data k order).Perm (data.map f) ∧
    yielded f data k order = (order.map (fun i => (((chunking data k)[i]?).getD []).map f)).flatten := by
  refine ⟨?_, yielded_eq_flatten f data k order⟩
  rw [← yielded_ordered f data k hk]
  exact perm_flatMap_left _ hp

end WindVerif.Pool
