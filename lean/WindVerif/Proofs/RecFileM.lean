import WindVerif.Model.RecFile
import WindVerif.Proofs.RecordFile
import WindVerif.Proofs.JsonRecords
/-!
Theorems about the model of mutable record files (`Model/RecFile.lean`), for ANY record format with a round trip, and the
csv / json instances (C12 / C13).
-/
namespace WindVerif.RecFile
open WindVerif.LineFile (refLines rstripNL)

/-! ### small list facts -/

theorem map_eraseIdx {α β} (g : α → β) (l : List α) (p : Nat) : (l.eraseIdx p).map g = (l.map g).eraseIdx p := by
  induction l generalizing p with
  | nil => rfl
  | cons a t ih =>
    cases p with
    | zero => rfl
    | succ p => simp [List.eraseIdx, ih]

theorem map_insertAt {α β} (g : α → β) (l : List α) (p : Nat) (x : α) :
    (Py.insertAt l p x).map g = Py.insertAt (l.map g) p (g x) := by
  simp [Py.insertAt, List.map_take, List.map_drop]

theorem mem_insertAt {α} {l : List α} {p : Nat} {x y : α} (h : y ∈ Py.insertAt l p x) : y ∈ l ∨ y = x := by
  simp only [Py.insertAt, List.mem_append, List.mem_cons] at h
  rcases h with h | h | h
  · exact .inl (List.mem_of_mem_take h)
  · exact .inr h
  · exact .inl (List.mem_of_mem_drop h)

/-! ### reading a file: the lines of `Model/LineFile.lean` are the reference lines -/

theorem readLines_eq (content : Str) : readLines content = refLines content := by
  obtain ⟨h1, h2⟩ := WindVerif.LineFile.indexFile_spec content
  apply List.ext_getElem?
  intro i
  by_cases hi : i < (refLines content).length
  · obtain ⟨o, e1, e2⟩ := h2 i hi
    rw [← e2]
    simp only [readLines, List.getElem?_map, e1, Option.map_some]
    have hl : (refLines content)[i]? = some (refLines content)[i] := List.getElem?_eq_getElem hi
    rw [hl] at e2
    simp only [WindVerif.LineFile.lineAt, Option.map_eq_some_iff] at e2
    obtain ⟨rest, hr, hx⟩ := e2
    simp [WindVerif.LineFile.lineAt, hr]
  · have a : (readLines content)[i]? = none := by
      apply List.getElem?_eq_none; simp only [readLines, List.length_map]; omega
    have b : (refLines content)[i]? = none := by
      apply List.getElem?_eq_none; omega
    rw [a, b]

theorem splitNL_nonl_mem (s : Str) : ∀ l ∈ WindVerif.LineFile.splitNL s, '\n' ∉ l := by
  induction s with
  | nil => intro l hl; simp [WindVerif.LineFile.splitNL] at hl; subst hl; simp
  | cons c r ih =>
    intro l hl
    unfold WindVerif.LineFile.splitNL at hl
    split at hl
    · rcases List.mem_cons.mp hl with h | h
      · subst h; simp
      · exact ih l h
    · rename_i hc
      split at hl
      · rename_i hnil; exact absurd hnil (WindVerif.LineFile.splitNL_ne_nil r)
      · rename_i x t hx
        rcases List.mem_cons.mp hl with h | h
        · subst h
          have hx' : '\n' ∉ x := ih x (by rw [hx]; simp)
          intro hm
          rcases List.mem_cons.mp hm with e | e
          · exact hc e.symm
          · exact hx' e
        · exact ih l (by rw [hx]; simp [h])

theorem refLines_nonl_mem (s : Str) : ∀ l ∈ refLines s, '\n' ∉ l := by
  intro l hl
  unfold refLines at hl
  simp only at hl
  split at hl
  · exact splitNL_nonl_mem s l (List.dropLast_subset _ hl)
  · exact splitNL_nonl_mem s l hl

theorem readLines_nonl (content : Str) : ∀ l ∈ readLines content, '\n' ∉ l := by
  rw [readLines_eq]; exact refLines_nonl_mem content

theorem strip_nonl {s : Str} (h : '\n' ∉ s) : strip s = s := WindVerif.LineFile.rstripNL_nonl h

/-- a file written line by line with `"\n"` is read back as those lines -/
theorem refLines_flatten (ls : List Str) (h : ∀ l ∈ ls, '\n' ∉ l) :
    refLines ((ls.map (fun l => l ++ ['\n'])).flatten) = ls := by
  induction ls with
  | nil => simp [WindVerif.LineFile.refLines_nil]
  | cons l r ih =>
    have hl : '\n' ∉ l := h l (by simp)
    have hr := ih (fun x hx => h x (by simp [hx]))
    simp only [List.map_cons, List.flatten_cons, List.append_assoc, List.singleton_append]
    rw [WindVerif.LineFile.refLines_append hl, hr]

/-! ### the basic accessors -/

theorem raw_congr {f g : RecFile} (h : g.source = f.source) (s : Slot) : g.raw s = f.raw s := by
  cases s <;> simp [RecFile.raw, h]

theorem open_slots_length (source : List Str) : (RecFile.open source).slots.length = source.length := by
  simp [RecFile.open]

section fmt
variable {R : Type} (F : Fmt R)

theorem records_length (f : RecFile) : (f.records F).length = f.slots.length := by simp [RecFile.records]

/-- a freshly opened file presents `load` of every source line -/
theorem records_open (source : List Str) : (RecFile.open source).records F = source.map F.load := by
  apply List.ext_getElem?
  intro i
  simp only [RecFile.records, RecFile.open, List.map_map, List.getElem?_map]
  by_cases hi : i < source.length
  · rw [List.getElem?_range hi, List.getElem?_eq_getElem hi]
    simp [RecFile.raw, List.getD_eq_getElem?_getD, List.getElem?_eq_getElem hi]
  · have a : (List.range source.length)[i]? = none := by apply List.getElem?_eq_none; simp; omega
    have b : source[i]? = none := by apply List.getElem?_eq_none; omega
    simp [a, b]

/-! ### `save`: untouched lines verbatim, edited positions re-serialised -/

/-- a position that still holds `src i` is written as source line `i` verbatim (the source lines carry no `"\n"`: they
were read with `readline().rstrip("\n")`) -/
theorem save_untouched (f : RecFile) (p i : Nat) (l ending : Str) (hp : f.slots[p]? = some (.src i))
    (hl : f.source[i]? = some l) (hnl : '\n' ∉ l) :
    f.lineAt p = some l ∧ (f.saveLines ending)[p]? = some (l ++ ending) := by
  have hraw : f.raw (.src i) = l := by simp [RecFile.raw, List.getD_eq_getElem?_getD, hl]
  simp [RecFile.lineAt, RecFile.saveLines, hp, hraw, strip_nonl hnl]

/-- a position that holds a stored text is written as that text with its final `"\n"`s removed -/
theorem save_txt (f : RecFile) (p : Nat) (t ending : Str) (hp : f.slots[p]? = some (.txt t)) :
    f.lineAt p = some (strip t) ∧ (f.saveLines ending)[p]? = some (strip t ++ ending) := by
  simp [RecFile.lineAt, RecFile.saveLines, hp, RecFile.raw]

/-- a position written with record `r` (`f[i] = r`) is written as `strip (save r)` -/
theorem save_edited (f f' : RecFile) (i : Int) (p : Nat) (r : R) (ending : Str)
    (hi : Py.index f.slots.length i = some p) (hs : f.setRec F i r = .ok f') :
    f'.lineAt p = some (strip (F.save r)) ∧ (f'.saveLines ending)[p]? = some (strip (F.save r) ++ ending) := by
  have hp := WindVerif.LineFile.index_lt hi
  simp only [RecFile.setRec, hi, Except.ok.injEq] at hs
  subst hs
  apply save_txt
  simp [hp]

/-- the same for `insert` -/
theorem save_inserted (f : RecFile) (i : Int) (r : R) (ending : Str) :
    (f.insertRec F i r).lineAt (Py.insertPos f.slots.length i) = some (strip (F.save r)) ∧
    ((f.insertRec F i r).saveLines ending)[Py.insertPos f.slots.length i]? = some (strip (F.save r) ++ ending) := by
  apply save_txt
  have hle : Py.insertPos f.slots.length i ≤ f.slots.length := by
    unfold Py.insertPos; split
    · exact Nat.min_le_right _ _
    · split <;> omega
  simp only [RecFile.insertRec, Py.insertAt]
  rw [List.getElem?_append_right (by simp [List.length_take]; omega)]
  simp [List.length_take, Nat.min_eq_left hle]

/-- the saved file is the concatenation of the written lines -/
theorem saveText_eq (f : RecFile) (ending : Str) :
    f.saveText ending = ((f.slots.map (fun s => strip (f.raw s))).map (fun l => l ++ ending)).flatten := by
  simp [RecFile.saveText, RecFile.saveLines, List.map_map, Function.comp_def]

/-! ### list semantics of the single operations (no hypothesis on the format: the new element is `load (save r)`) -/

theorem getRec_spec (f : RecFile) (i : Int) :
    f.getRec F i = match Py.index (f.records F).length i with
      | none => .error .indexError
      | some p => match (f.records F)[p]? with
        | some (some r) => .ok r
        | _ => .error .loadError := by
  rw [records_length]
  unfold RecFile.getRec
  cases hi : Py.index f.slots.length i with
  | none => rfl
  | some p =>
    have hp := WindVerif.LineFile.index_lt hi
    simp only [RecFile.getPos, RecFile.records, List.getElem?_map, List.getElem?_eq_getElem hp, Option.map_some]
    cases F.load (f.raw f.slots[p]) <;> rfl

theorem records_setRec (f : RecFile) (i : Int) (r : R) :
    match Py.index (f.records F).length i with
    | some p => ∃ f', f.setRec F i r = .ok f' ∧ f'.records F = (f.records F).set p (F.load (F.save r)) ∧
        f'.source = f.source
    | none => f.setRec F i r = .error .indexError := by
  rw [records_length]
  cases hi : Py.index f.slots.length i with
  | none => simp [RecFile.setRec, hi]
  | some p =>
    refine ⟨{ f with slots := f.slots.set p (.txt (F.save r)) }, by simp [RecFile.setRec, hi], ?_, rfl⟩
    simp only [RecFile.records, List.map_set, RecFile.raw]

theorem records_insertRec (f : RecFile) (i : Int) (r : R) :
    (f.insertRec F i r).records F =
      Py.insertAt (f.records F) (Py.insertPos (f.records F).length i) (F.load (F.save r)) ∧
    (f.insertRec F i r).source = f.source := by
  refine ⟨?_, rfl⟩
  rw [records_length]
  simp only [RecFile.records, RecFile.insertRec, map_insertAt, RecFile.raw]

theorem records_appendRec (f : RecFile) (r : R) :
    (f.appendRec F r).records F = f.records F ++ [F.load (F.save r)] ∧ (f.appendRec F r).source = f.source := by
  refine ⟨?_, rfl⟩
  unfold RecFile.appendRec
  rw [(records_insertRec F f _ r).1, records_length]
  have : Py.insertPos f.slots.length (f.slots.length : Int) = f.slots.length := by
    unfold Py.insertPos; simp
  rw [this, Py.insertAt, ← records_length F f]
  simp

theorem records_delRec (f : RecFile) (i : Int) :
    match Py.index (f.records F).length i with
    | some p => ∃ f', f.delRec i = .ok f' ∧ f'.records F = (f.records F).eraseIdx p ∧ f'.source = f.source
    | none => f.delRec i = .error .indexError := by
  rw [records_length]
  cases hi : Py.index f.slots.length i with
  | none => simp [RecFile.delRec, hi]
  | some p =>
    refine ⟨{ f with slots := f.slots.eraseIdx p }, by simp [RecFile.delRec, hi], ?_, rfl⟩
    simp only [RecFile.records, map_eraseIdx]
    congr 1

/-- `pop(i)`: the record at `i` is returned and the position removed; a position that does not load raises and stays -/
theorem records_popRec (f : RecFile) (i : Int) :
    match Py.index (f.records F).length i with
    | some p => (match (f.records F)[p]? with
      | some (some r) => ∃ f', f.popRec F i = .ok (r, f') ∧ f'.records F = (f.records F).eraseIdx p ∧
          f'.source = f.source
      | _ => f.popRec F i = .error .loadError)
    | none => f.popRec F i = .error .indexError := by
  have hg := getRec_spec F f i
  have hd := records_delRec F f i
  cases hi : Py.index (f.records F).length i with
  | none =>
    rw [hi] at hg
    simp [RecFile.popRec, hg]
  | some p =>
    rw [hi] at hg hd
    simp only at hg hd
    obtain ⟨f', e1, e2, e3⟩ := hd
    simp only
    split
    · rename_i r hr
      rw [hr] at hg
      exact ⟨f', by simp [RecFile.popRec, hg, e1], e2, e3⟩
    · rename_i hr
      have : f.getRec F i = .error .loadError := by
        rw [hg]
        split
        · rename_i r hr'; exact absurd hr' (hr r)
        · rfl
      simp [RecFile.popRec, this]

end fmt

/-! ### `reverse`: the swap loop of `MutableSequence.reverse` -/

section reverse
variable {R : Type} (F : Fmt R)

theorem records_get {f : RecFile} {rs : List R} (hrs : f.records F = rs.map some) {j : Nat} {s : Slot}
    (hs : f.slots[j]? = some s) : ∃ r, rs[j]? = some r ∧ F.load (f.raw s) = some r := by
  have h := congrArg (·[j]?) hrs
  simp only [RecFile.records, List.getElem?_map, hs, Option.map_some] at h
  cases hr : rs[j]? with
  | none => simp [hr] at h
  | some r => rw [hr] at h; simp only [Option.map_some, Option.some.injEq] at h; exact ⟨r, rfl, h⟩

theorem records_len {f : RecFile} {rs : List R} (hrs : f.records F = rs.map some) : rs.length = f.slots.length := by
  have h := congrArg List.length hrs
  simpa [RecFile.records] using h.symm

theorem setRec_nat (g : RecFile) (j : Nat) (hj : j < g.slots.length) (a : R) :
    g.setRec F (j : Int) a = .ok { g with slots := g.slots.set j (.txt (F.save a)) } := by
  simp [RecFile.setRec, WindVerif.LineFile.index_nat hj]

/-- the file in the middle of `reverse`, after the swaps `0 … k-1`: the outer `k` positions on both sides hold the
re-serialised record of the mirrored position, the rest is as it was -/
structure Mid (f : RecFile) (rs : List R) (k : Nat) (g : RecFile) : Prop where
  source : g.source = f.source
  len : g.slots.length = f.slots.length
  slot : ∀ j, j < f.slots.length → g.slots[j]? =
    if j < k ∨ f.slots.length - k ≤ j then (rs[f.slots.length - 1 - j]?).map (fun r => Slot.txt (F.save r))
    else f.slots[j]?

theorem getRec_mid {f : RecFile} {rs : List R} (hrs : f.records F = rs.map some) {k : Nat} {g : RecFile}
    (hm : Mid F f rs k g) {j : Nat} (hj : j < f.slots.length) (hout : ¬ (j < k ∨ f.slots.length - k ≤ j)) :
    ∃ r, rs[j]? = some r ∧ g.getRec F (j : Int) = .ok r := by
  have hs : f.slots[j]? = some f.slots[j] := List.getElem?_eq_getElem hj
  obtain ⟨r, hr, hl⟩ := records_get F hrs hs
  refine ⟨r, hr, ?_⟩
  have hg : g.slots[j]? = some f.slots[j] := by rw [hm.slot j hj, if_neg hout, hs]
  have hj' : j < g.slots.length := by rw [hm.len]; exact hj
  simp [RecFile.getRec, WindVerif.LineFile.index_nat hj', RecFile.getPos, hg, raw_congr hm.source, hl]

theorem reverseLoop_mid (f : RecFile) (rs : List R) (hrs : f.records F = rs.map some) :
    ∀ (m k : Nat) (g : RecFile), k + m = f.slots.length / 2 → Mid F f rs k g →
      ∃ g', RecFile.reverseLoop F f.slots.length (List.range' k m) g = (g', none) ∧
        Mid F f rs (f.slots.length / 2) g' := by
  intro m
  induction m with
  | zero =>
    intro k g hk hm
    have : k = f.slots.length / 2 := by omega
    subst this
    exact ⟨g, rfl, hm⟩
  | succ m ih =>
    intro k g hk hm
    have hrl := records_len F hrs
    have hk2 : k < f.slots.length / 2 := by omega
    have hkn : k < f.slots.length := by omega
    have hmn : f.slots.length - k - 1 < f.slots.length := by omega
    obtain ⟨a, ha, hga⟩ := getRec_mid F hrs hm hmn (by omega)
    obtain ⟨b, hb, hgb⟩ := getRec_mid F hrs hm hkn (by omega)
    have hs1 := setRec_nat F g k (by rw [hm.len]; exact hkn) a
    have hs2 := setRec_nat F { g with slots := g.slots.set k (.txt (F.save a)) } (f.slots.length - k - 1)
      (by simp only [List.length_set, hm.len]; exact hmn) b
    have hstep : RecFile.reverseLoop F f.slots.length (List.range' k (m + 1)) g =
        RecFile.reverseLoop F f.slots.length (List.range' (k + 1) m)
          { g with slots := (g.slots.set k (.txt (F.save a))).set (f.slots.length - k - 1) (.txt (F.save b)) } := by
      rw [List.range'_succ]
      simp only [RecFile.reverseLoop, hga, hgb, hs1, hs2]
    rw [hstep]
    apply ih (k + 1) _ (by omega)
    refine ⟨hm.source, by simp [hm.len], ?_⟩
    intro j hj
    simp only [List.getElem?_set, List.length_set, hm.len]
    by_cases h1 : f.slots.length - k - 1 = j
    · subst h1
      have c1 : f.slots.length - k - 1 < k + 1 ∨ f.slots.length - (k + 1) ≤ f.slots.length - k - 1 := by omega
      have c2 : f.slots.length - 1 - (f.slots.length - k - 1) = k := by omega
      simp only [if_true, hmn, c1, c2, hb, Option.map_some]
    · by_cases h2 : k = j
      · subst h2
        have c1 : k < k + 1 ∨ f.slots.length - (k + 1) ≤ k := by omega
        have c2 : f.slots.length - 1 - k = f.slots.length - k - 1 := by omega
        simp only [if_neg h1, if_true, hkn, c1, c2, ha, Option.map_some]
      · rw [if_neg h1, if_neg h2, hm.slot j hj]
        have c : (j < k + 1 ∨ f.slots.length - (k + 1) ≤ j) ↔ (j < k ∨ f.slots.length - k ≤ j) := by omega
        simp only [c]

/-- `reverse()` on a file all of whose positions load: it does not raise, the source is as before, and every position
except the middle one of an odd-length file holds the `save()` text of the record that was at the mirrored position; the
middle one is not written -/
theorem reverse_spec (f : RecFile) (rs : List R) (hrs : f.records F = rs.map some) :
    ∃ f', f.reverse F = (f', none) ∧ f'.source = f.source ∧ f'.slots.length = f.slots.length ∧
      ∀ j, j < f.slots.length → f'.slots[j]? =
        if 2 * j + 1 = f.slots.length then f.slots[j]?
        else (rs[f.slots.length - 1 - j]?).map (fun r => Slot.txt (F.save r)) := by
  have h0 : Mid F f rs 0 f := ⟨rfl, rfl, by intro j hj; simp; omega⟩
  obtain ⟨g', e, hm⟩ := reverseLoop_mid F f rs hrs (f.slots.length / 2) 0 f (by omega) h0
  refine ⟨g', by rw [RecFile.reverse, List.range_eq_range']; exact e, hm.source, hm.len, ?_⟩
  intro j hj
  rw [hm.slot j hj]
  by_cases hmid : 2 * j + 1 = f.slots.length
  · have c : ¬ (j < f.slots.length / 2 ∨ f.slots.length - f.slots.length / 2 ≤ j) := by omega
    rw [if_neg c, if_pos hmid]
  · have c : (j < f.slots.length / 2 ∨ f.slots.length - f.slots.length / 2 ≤ j) := by omega
    rw [if_pos c, if_neg hmid]

/-- after `reverse` on a file of length `n` every position except the middle one (`n` odd) is a `txt` slot: the
re-serialisation `save r` of the record `r` presented before at the mirrored position -/
theorem reverse_reserialises (f : RecFile) (rs : List R) (hrs : f.records F = rs.map some) (j : Nat)
    (hj : j < f.slots.length) :
    (2 * j + 1 ≠ f.slots.length → ∃ r, (f.records F)[f.slots.length - 1 - j]? = some (some r) ∧
      (f.reverse F).1.slots[j]? = some (.txt (F.save r))) ∧
    (2 * j + 1 = f.slots.length → (f.reverse F).1.slots[j]? = f.slots[j]?) := by
  obtain ⟨f', e, -, -, hs⟩ := reverse_spec F f rs hrs
  rw [e]
  have hrl := records_len F hrs
  constructor
  · intro hmid
    have hlt : f.slots.length - 1 - j < rs.length := by omega
    refine ⟨rs[f.slots.length - 1 - j], ?_, ?_⟩
    · rw [hrs, List.getElem?_map, List.getElem?_eq_getElem hlt]; rfl
    · simp only; rw [hs j hj, if_neg hmid, List.getElem?_eq_getElem hlt]; rfl
  · intro hmid
    simp only; rw [hs j hj, if_pos hmid]

/-- `reverse()` presents the reversed list, provided the presented records survive `save` + `load` in memory -/
theorem records_reverse (f : RecFile) (rs : List R) (hrs : f.records F = rs.map some)
    (hrt : ∀ r ∈ rs, F.load (F.save r) = some r) :
    ∃ f', f.reverse F = (f', none) ∧ f'.records F = (f.records F).reverse ∧ f'.source = f.source := by
  obtain ⟨f', e, hsrc, hlen, hs⟩ := reverse_spec F f rs hrs
  refine ⟨f', e, ?_, hsrc⟩
  have hrl := records_len F hrs
  apply List.ext_getElem?
  intro j
  by_cases hj : j < f.slots.length
  · rw [List.getElem?_reverse (by rw [records_length]; exact hj), records_length]
    simp only [RecFile.records, List.getElem?_map, hs j hj]
    by_cases hmid : 2 * j + 1 = f.slots.length
    · have c : f.slots.length - 1 - j = j := by omega
      rw [if_pos hmid, c]
      cases f.slots[j]? with
      | none => rfl
      | some s => simp [raw_congr hsrc]
    · rw [if_neg hmid]
      have hlt : f.slots.length - 1 - j < rs.length := by omega
      have hlt' : f.slots.length - 1 - j < f.slots.length := by omega
      have hs' : f.slots[f.slots.length - 1 - j]? = some f.slots[f.slots.length - 1 - j] :=
        List.getElem?_eq_getElem hlt'
      obtain ⟨r, hr, hl⟩ := records_get F hrs hs'
      rw [hr, hs']
      simp only [Option.map_some]
      rw [hl]
      simp only [RecFile.raw]
      rw [hrt r (List.mem_of_getElem? hr)]
  · have a : (f'.records F)[j]? = none := by
      apply List.getElem?_eq_none; rw [records_length, hlen]; omega
    have b : (f.records F).reverse[j]? = none := by
      apply List.getElem?_eq_none; rw [List.length_reverse, records_length]; omega
    rw [a, b]

end reverse

/-! ### the invariant of a history of edits, and save + reopen -/

section inv
variable {R : Type} (F : Fmt R) (P : R → Prop)

/-- an untouched position points into the source; a stored text is the `save()` of a record of the domain `P` -/
def SlotOk (source : List Str) : Slot → Prop
  | .src i => i < source.length
  | .txt t => ∃ r, P r ∧ t = F.save r

structure Inv (f : RecFile) : Prop where
  src_nl : ∀ l ∈ f.source, '\n' ∉ l
  slots_ok : ∀ s ∈ f.slots, SlotOk F P f.source s

/-- every source line is a record of the domain (needed as soon as `reverse` re-serialises source lines) -/
def Loads (source : List Str) : Prop := ∀ l ∈ source, ∃ r, F.load l = some r ∧ P r

theorem inv_open (source : List Str) (h : ∀ l ∈ source, '\n' ∉ l) : Inv F P (RecFile.open source) := by
  refine ⟨h, ?_⟩
  intro s hs
  simp only [RecFile.open, List.mem_map, List.mem_range] at hs
  obtain ⟨i, hi, rfl⟩ := hs
  exact hi

theorem inv_ofContent (content : Str) : Inv F P (RecFile.ofContent content) :=
  inv_open F P _ (readLines_nonl content)

theorem inv_setRec {f f' : RecFile} (hf : Inv F P f) {i : Int} {r : R} (hr : P r) (h : f.setRec F i r = .ok f') :
    Inv F P f' ∧ f'.source = f.source := by
  unfold RecFile.setRec at h
  split at h
  · cases h
  · simp only [Except.ok.injEq] at h
    subst h
    refine ⟨⟨hf.src_nl, ?_⟩, rfl⟩
    intro s hs
    rcases List.mem_or_eq_of_mem_set hs with h | h
    · exact hf.slots_ok s h
    · subst h; exact ⟨r, hr, rfl⟩

theorem inv_insertRec {f : RecFile} (hf : Inv F P f) (i : Int) {r : R} (hr : P r) : Inv F P (f.insertRec F i r) := by
  refine ⟨hf.src_nl, ?_⟩
  intro s hs
  rcases mem_insertAt hs with h | h
  · exact hf.slots_ok s h
  · subst h; exact ⟨r, hr, rfl⟩

theorem inv_appendRec {f : RecFile} (hf : Inv F P f) {r : R} (hr : P r) : Inv F P (f.appendRec F r) :=
  inv_insertRec F P hf _ hr

theorem inv_delRec {f f' : RecFile} (hf : Inv F P f) {i : Int} (h : f.delRec i = .ok f') :
    Inv F P f' ∧ f'.source = f.source := by
  unfold RecFile.delRec at h
  split at h
  · cases h
  · simp only [Except.ok.injEq] at h
    subst h
    exact ⟨⟨hf.src_nl, fun s hs => hf.slots_ok s (List.mem_of_mem_eraseIdx hs)⟩, rfl⟩

theorem inv_popRec {f f' : RecFile} (hf : Inv F P f) {i : Int} {v : R} (h : f.popRec F i = .ok (v, f')) :
    Inv F P f' ∧ f'.source = f.source := by
  unfold RecFile.popRec at h
  split at h
  · cases h
  · split at h
    · cases h
    · rename_i g hd
      simp only [Except.ok.injEq, Prod.mk.injEq] at h
      rw [← h.2]
      exact inv_delRec F P hf hd

/-- under the invariant every position loads, to a record of the domain -/
theorem slot_loads (hmem : F.OkMem P) {f : RecFile} (hf : Inv F P f) (hl : Loads F P f.source) {s : Slot}
    (hs : s ∈ f.slots) : ∃ r, F.load (f.raw s) = some r ∧ P r := by
  have h := hf.slots_ok s hs
  cases s with
  | src i =>
    simp only [SlotOk] at h
    have : f.raw (.src i) = f.source[i] := by
      simp [RecFile.raw, List.getD_eq_getElem?_getD, List.getElem?_eq_getElem h]
    rw [this]
    exact hl _ (List.getElem_mem h)
  | txt t =>
    obtain ⟨r, hr, rfl⟩ := h
    exact ⟨r, hmem r hr, hr⟩

theorem getRec_P (hmem : F.OkMem P) {f : RecFile} (hf : Inv F P f) (hl : Loads F P f.source) {i : Int} {a : R}
    (h : f.getRec F i = .ok a) : P a := by
  unfold RecFile.getRec at h
  split at h
  · cases h
  · unfold RecFile.getPos at h
    split at h
    · cases h
    · rename_i s hs
      obtain ⟨r, e, hr⟩ := slot_loads F P hmem hf hl (List.mem_of_getElem? hs)
      rw [e] at h
      simp only [Except.ok.injEq] at h
      exact h ▸ hr

theorem all_some (l : List (Option R)) (h : ∀ x ∈ l, ∃ r, x = some r ∧ P r) :
    ∃ rs : List R, l = rs.map some ∧ ∀ r ∈ rs, P r := by
  induction l with
  | nil => exact ⟨[], rfl, by simp⟩
  | cons x t ih =>
    obtain ⟨r, rfl, hr⟩ := h x (by simp)
    obtain ⟨rs, e, hrs⟩ := ih (fun y hy => h y (by simp [hy]))
    refine ⟨r :: rs, by simp [e], ?_⟩
    intro y hy
    rcases List.mem_cons.mp hy with h | h
    · exact h ▸ hr
    · exact hrs y h

/-- under the invariant the file presents a list of records of the domain (nothing raises) -/
theorem records_all (hmem : F.OkMem P) {f : RecFile} (hf : Inv F P f) (hl : Loads F P f.source) :
    ∃ rs : List R, f.records F = rs.map some ∧ ∀ r ∈ rs, P r := by
  apply all_some
  intro x hx
  simp only [RecFile.records, List.mem_map] at hx
  obtain ⟨s, hs, rfl⟩ := hx
  obtain ⟨r, e, hr⟩ := slot_loads F P hmem hf hl hs
  exact ⟨r, e, hr⟩

theorem inv_reverseLoop (hmem : F.OkMem P) (n : Nat) : ∀ (is : List Nat) (f : RecFile), Inv F P f →
    Loads F P f.source →
    Inv F P (RecFile.reverseLoop F n is f).1 ∧ (RecFile.reverseLoop F n is f).1.source = f.source := by
  intro is
  induction is with
  | nil => intro f hf _; exact ⟨hf, rfl⟩
  | cons i rest ih =>
    intro f hf hl
    unfold RecFile.reverseLoop
    split
    · exact ⟨hf, rfl⟩
    · rename_i a ha
      split
      · exact ⟨hf, rfl⟩
      · rename_i b hb
        have pa := getRec_P F P hmem hf hl ha
        have pb := getRec_P F P hmem hf hl hb
        split
        · exact ⟨hf, rfl⟩
        · rename_i f1 h1
          obtain ⟨hf1, s1⟩ := inv_setRec F P hf pa h1
          split
          · exact ⟨hf1, s1⟩
          · rename_i f2 h2
            obtain ⟨hf2, s2⟩ := inv_setRec F P hf1 pb h2
            have hl2 : Loads F P f2.source := by rw [s2, s1]; exact hl
            obtain ⟨r1, r2⟩ := ih f2 hf2 hl2
            exact ⟨r1, by rw [r2, s2, s1]⟩

/-- every operation keeps the invariant (and never writes the source) -/
theorem inv_step (hmem : F.OkMem P) {f : RecFile} (hf : Inv F P f) (op : Op R) (hop : ∀ r ∈ op.recs, P r)
    (hl : op = .reverse → Loads F P f.source) : Inv F P (f.step F op) ∧ (f.step F op).source = f.source := by
  cases op with
  | set i r =>
    simp only [RecFile.step]
    split
    · rename_i f' h; exact inv_setRec F P hf (hop r (by simp [Op.recs])) h
    · exact ⟨hf, rfl⟩
  | insert i r => exact ⟨inv_insertRec F P hf i (hop r (by simp [Op.recs])), rfl⟩
  | append r => exact ⟨inv_appendRec F P hf (hop r (by simp [Op.recs])), rfl⟩
  | del i =>
    simp only [RecFile.step]
    split
    · rename_i f' h; exact inv_delRec F P hf h
    · exact ⟨hf, rfl⟩
  | pop i =>
    simp only [RecFile.step]
    split
    · rename_i v f' h; exact inv_popRec F P hf h
    · exact ⟨hf, rfl⟩
  | reverse => exact inv_reverseLoop F P hmem _ _ f hf (hl rfl)

theorem inv_run (hmem : F.OkMem P) : ∀ (ops : List (Op R)) (f : RecFile), Inv F P f →
    (∀ op ∈ ops, ∀ r ∈ op.recs, P r) → (Op.reverse ∈ ops → Loads F P f.source) →
    Inv F P (f.run F ops) ∧ (f.run F ops).source = f.source := by
  intro ops
  induction ops with
  | nil => intro f hf _ _; exact ⟨hf, rfl⟩
  | cons op rest ih =>
    intro f hf hops hl
    obtain ⟨h1, s1⟩ := inv_step F P hmem hf op (hops op (by simp)) (fun e => hl (by simp [e]))
    obtain ⟨h2, s2⟩ := ih (f.step F op) h1 (fun o ho => hops o (by simp [ho]))
      (fun hr => by rw [s1]; exact hl (by simp [hr]))
    exact ⟨h2, by rw [← s1, ← s2]; rfl⟩

/-- save (ending `"\n"`) and reopen, at the level of one state: a file that satisfies the invariant is read back as
exactly the records it presents -/
theorem reopen_of_inv (hok : F.Ok P) (hmem : F.OkMem P) (h1 : F.OneLine P) (f : RecFile) (hf : Inv F P f) :
    (RecFile.ofContent (f.saveText ['\n'])).records F = f.records F := by
  have hlines : ∀ l ∈ f.slots.map (fun s => strip (f.raw s)), '\n' ∉ l := by
    intro l hl
    obtain ⟨s, hs, rfl⟩ := List.mem_map.mp hl
    have h := hf.slots_ok s hs
    cases s with
    | src i =>
      simp only [SlotOk] at h
      have e : f.raw (.src i) = f.source[i] := by
        simp [RecFile.raw, List.getD_eq_getElem?_getD, List.getElem?_eq_getElem h]
      have hn := hf.src_nl _ (List.getElem_mem h)
      rw [e, strip_nonl hn]; exact hn
    | txt t =>
      obtain ⟨r, hr, rfl⟩ := h
      exact h1 r hr
  rw [RecFile.ofContent, readLines_eq, saveText_eq, refLines_flatten _ hlines, records_open]
  simp only [RecFile.records, List.map_map]
  apply List.map_congr_left
  intro s hs
  have h := hf.slots_ok s hs
  cases s with
  | src i =>
    simp only [SlotOk] at h
    have e : f.raw (.src i) = f.source[i] := by
      simp [RecFile.raw, List.getD_eq_getElem?_getD, List.getElem?_eq_getElem h]
    have hn := hf.src_nl _ (List.getElem_mem h)
    simp only [Function.comp, e, strip_nonl hn]
  | txt t =>
    obtain ⟨r, hr, rfl⟩ := h
    simp only [Function.comp, RecFile.raw, hok r hr, hmem r hr]

/-- EDIT, SAVE, REOPEN.  For a format with a round trip on the domain `P` (through a saved line, in memory, one line per
record), a source whose lines carry no line break, and ANY sequence of `set` / `insert` / `append` / `del` / `pop` /
`reverse` with records of the domain (if `reverse` occurs: every source line loads into the domain, because `reverse`
re-serialises what it loads): opening the file that `save(out, "\n")` wrote presents exactly the records the edited file
presents. -/
theorem reopen_roundtrip (hok : F.Ok P) (hmem : F.OkMem P) (h1 : F.OneLine P) (source : List Str)
    (hsrc : ∀ l ∈ source, '\n' ∉ l) (ops : List (Op R)) (hops : ∀ op ∈ ops, ∀ r ∈ op.recs, P r)
    (hl : Op.reverse ∈ ops → Loads F P source) :
    (RecFile.ofContent (((RecFile.open source).run F ops).saveText ['\n'])).records F =
      ((RecFile.open source).run F ops).records F :=
  reopen_of_inv F P hok hmem h1 _ (inv_run F P hmem ops _ (inv_open F P source hsrc) hops hl).1

/-- the same from the characters of the source file (its lines never carry a `"\n"`) -/
theorem reopen_roundtrip_content (hok : F.Ok P) (hmem : F.OkMem P) (h1 : F.OneLine P) (content : Str)
    (ops : List (Op R)) (hops : ∀ op ∈ ops, ∀ r ∈ op.recs, P r)
    (hl : Op.reverse ∈ ops → Loads F P (readLines content)) :
    (RecFile.ofContent (((RecFile.ofContent content).run F ops).saveText ['\n'])).records F =
      ((RecFile.ofContent content).run F ops).records F :=
  reopen_roundtrip F P hok hmem h1 _ (readLines_nonl content) ops hops hl

/-- LIST SEMANTICS (the C12 statement for the record variant): the presented record list after an operation is the Python
list operation applied to the presented list before -/
theorem records_list_semantics (hmem : F.OkMem P) (f : RecFile) (hf : Inv F P f) (hl : Loads F P f.source)
    (op : Op R) (hop : ∀ r ∈ op.recs, P r) : (f.step F op).records F = op.onList (f.records F) := by
  cases op with
  | set i r =>
    have h := records_setRec F f i r
    have hr := hmem r (hop r (by simp [Op.recs]))
    simp only [RecFile.step, Op.onList]
    cases hi : Py.index (f.records F).length i with
    | none => rw [hi] at h; simp only at h; simp [h]
    | some p => rw [hi] at h; obtain ⟨f', e1, e2, -⟩ := h; simp [e1, e2, hr]
  | insert i r =>
    have hr := hmem r (hop r (by simp [Op.recs]))
    simp only [RecFile.step, Op.onList, (records_insertRec F f i r).1, hr]
  | append r =>
    have hr := hmem r (hop r (by simp [Op.recs]))
    simp only [RecFile.step, Op.onList, (records_appendRec F f r).1, hr]
  | del i =>
    have h := records_delRec F f i
    simp only [RecFile.step, Op.onList]
    cases hi : Py.index (f.records F).length i with
    | none => rw [hi] at h; simp only at h; simp [h]
    | some p => rw [hi] at h; obtain ⟨f', e1, e2, -⟩ := h; simp [e1, e2]
  | pop i =>
    have h := records_popRec F f i
    obtain ⟨rs, hrs, -⟩ := records_all F P hmem hf hl
    simp only [RecFile.step, Op.onList]
    cases hi : Py.index (f.records F).length i with
    | none => rw [hi] at h; simp only at h; simp [h]
    | some p =>
      rw [hi] at h
      have hp := WindVerif.LineFile.index_lt hi
      have hp' : p < rs.length := by rw [hrs, List.length_map] at hp; exact hp
      have hx : (f.records F)[p]? = some (some rs[p]) := by
        rw [hrs, List.getElem?_map, List.getElem?_eq_getElem hp']; rfl
      simp only [hx] at h
      obtain ⟨f', e1, e2, -⟩ := h
      simp [e1, e2]
  | reverse =>
    obtain ⟨rs, hrs, hP⟩ := records_all F P hmem hf hl
    obtain ⟨f', e1, e2, -⟩ := records_reverse F f rs hrs (fun r hr => hmem r (hP r hr))
    simp only [RecFile.step, Op.onList, e1, e2]

/-- … and for a whole history -/
theorem records_run (hmem : F.OkMem P) : ∀ (ops : List (Op R)) (f : RecFile), Inv F P f → Loads F P f.source →
    (∀ op ∈ ops, ∀ r ∈ op.recs, P r) →
    (f.run F ops).records F = ops.foldl (fun l op => op.onList l) (f.records F) := by
  intro ops
  induction ops with
  | nil => intro f _ _ _; rfl
  | cons op rest ih =>
    intro f hf hl hops
    obtain ⟨h1, s1⟩ := inv_step F P hmem hf op (hops op (by simp)) (fun _ => hl)
    have := ih (f.step F op) h1 (by rw [s1]; exact hl) (fun o ho => hops o (by simp [ho]))
    simp only [RecFile.run, List.foldl_cons] at this ⊢
    rw [this, records_list_semantics F P hmem f hf hl op (hops op (by simp))]

end inv

/-! ### the csv instance -/

section csv
open WindVerif.Records (IsDelim Clean writeRow parseRow)

/-- the domain of the csv round trip: records of `k` fields without line breaks -/
def csvP (k : Nat) (r : List Str) : Prop := r.length = k ∧ ∀ fld ∈ r, Clean fld

/-- through a saved line: `save` strips the `"\n"` of `"\r\n"`, the reader copes with the trailing `"\r"`
(`csv_roundtrip_cr`) -/
theorem csvFmt_ok (d : Char) (hd : IsDelim d) (k : Nat) : (csvFmt d k).Ok (csvP k) := by
  intro r ⟨hk, hc⟩
  have h1 := (WindVerif.Records.rstripNL_writeRow d hd r hc).1
  have h2 := WindVerif.Records.csv_roundtrip_cr d hd r hc
  simp only [csvFmt, strip, h1, h2, hk, Nat.le_refl, if_true]
  rw [← hk, List.take_length]

theorem csvFmt_okMem (d : Char) (hd : IsDelim d) (k : Nat) : (csvFmt d k).OkMem (csvP k) := by
  intro r ⟨hk, hc⟩
  have h2 := WindVerif.Records.csv_roundtrip d hd r hc
  simp only [csvFmt, h2, hk, Nat.le_refl, if_true]
  rw [← hk, List.take_length]

theorem csvFmt_oneLine (d : Char) (hd : IsDelim d) (k : Nat) : (csvFmt d k).OneLine (csvP k) := by
  intro r ⟨_, hc⟩
  have h := WindVerif.Records.rstripNL_writeRow d hd r hc
  simp only [csvFmt, strip, h.1]
  exact h.2

/-- a mutable csv / tsv record file (`k` string fields): edit with records whose fields carry no line breaks, save,
reopen — the same records -/
theorem csv_recfile_reopen (d : Char) (hd : IsDelim d) (k : Nat) (content : Str) (ops : List (Op (List Str)))
    (hops : ∀ op ∈ ops, ∀ r ∈ op.recs, csvP k r)
    (hl : Op.reverse ∈ ops → Loads (csvFmt d k) (csvP k) (readLines content)) :
    (RecFile.ofContent (((RecFile.ofContent content).run (csvFmt d k) ops).saveText ['\n'])).records (csvFmt d k) =
      ((RecFile.ofContent content).run (csvFmt d k) ops).records (csvFmt d k) :=
  reopen_roundtrip_content (csvFmt d k) (csvP k) (csvFmt_ok d hd k) (csvFmt_okMem d hd k) (csvFmt_oneLine d hd k)
    content ops hops hl

end csv

/-! ### the json instance -/

section json
open WindVerif.Records (jsonRecordLoad jsonRecordSave)

/-- `JsonRecord` over the modelled `json` module -/
def jsonFmt (names : List Str) : Fmt (List (Str × WindVerif.Json.JVal)) where
  load := jsonRecordLoad names
  save := jsonRecordSave

def jsonP (names : List Str) (r : List (Str × WindVerif.Json.JVal)) : Prop :=
  r.map (·.1) = names ∧ ∀ kv ∈ r, WindVerif.Json.WF kv.2

theorem jsonFmt_okMem (names : List Str) (hn : names.Nodup) : (jsonFmt names).OkMem (jsonP names) := by
  intro r ⟨hr, hv⟩
  exact (WindVerif.Records.json_record_roundtrip names hn r hr hv).1

theorem jsonFmt_oneLine (names : List Str) (hn : names.Nodup) : (jsonFmt names).OneLine (jsonP names) := by
  intro r ⟨hr, hv⟩
  have h := (WindVerif.Records.json_record_roundtrip names hn r hr hv).2.1
  simp only [jsonFmt]
  rw [strip_nonl h]; exact h

theorem jsonFmt_ok (names : List Str) (hn : names.Nodup) : (jsonFmt names).Ok (jsonP names) := by
  intro r ⟨hr, hv⟩
  have h := WindVerif.Records.json_record_roundtrip names hn r hr hv
  simp only [jsonFmt]
  rw [strip_nonl h.2.1]; exact h.1

theorem json_recfile_reopen (names : List Str) (hn : names.Nodup) (content : Str)
    (ops : List (Op (List (Str × WindVerif.Json.JVal)))) (hops : ∀ op ∈ ops, ∀ r ∈ op.recs, jsonP names r)
    (hl : Op.reverse ∈ ops → Loads (jsonFmt names) (jsonP names) (readLines content)) :
    (RecFile.ofContent (((RecFile.ofContent content).run (jsonFmt names) ops).saveText ['\n'])).records (jsonFmt names) =
      ((RecFile.ofContent content).run (jsonFmt names) ops).records (jsonFmt names) :=
  reopen_roundtrip_content (jsonFmt names) (jsonP names) (jsonFmt_ok names hn) (jsonFmt_okMem names hn)
    (jsonFmt_oneLine names hn) content ops hops hl

end json

end WindVerif.RecFile
