import WindVerif.Proofs.StorageInv3
/-! Auxiliary development for `Storage.lean`, part 4: the data layer `InvB` of the invariant (index entries point at
complete lines; the writer's view of its own file). -/
namespace WindVerif.Storage
set_option linter.unusedSimpArgs false

structure LocB (s : St) (p : Proc) : Prop where
  extLt : p.pc = .sIdxExtend → p.gid < s.index.length + p.tmp
  gidLt : (p.pc = .sIdxGet ∨ p.pc = .sTell ∨ p.pc = .sWriteText ∨ p.pc = .sWriteNl ∨ p.pc = .sFlush ∨ p.pc = .sIdxSet) →
    p.gid < s.index.length
  unset : (p.pc = .sTell ∨ p.pc = .sWriteText ∨ p.pc = .sWriteNl ∨ p.pc = .sFlush ∨ p.pc = .sIdxSet) →
    s.index[p.gid]? = some none
  wrText : p.pc = .sWriteText → p.off = ((fileOf s (p.ident.getD 0)).getD []).length
  wrNl : p.pc = .sWriteNl →
    ∃ c, fileOf s (p.ident.getD 0) = some c ∧ c.length = p.off + 1 ∧ c[p.off]? = some (some p.text)
  wrDone : p.pc = .sFlush ∨ p.pc = .sIdxSet →
    ∃ c, fileOf s (p.ident.getD 0) = some c ∧ c[p.off]? = some (some p.text) ∧ c[p.off + 1]? = some none ∧
      c.length = p.off + 2      -- the line just written is the end of the file
  noFile : p.pc = .oRel ∨ p.pc = .oOpenW → fileOf s (p.ident.getD 0) = none
  rdIdx : (p.pc = .gRel ∨ p.pc = .gPathsGet ∨ p.pc = .gOpenR ∨ p.pc = .gSeek ∨ p.pc = .gReadline) →
    s.index[p.gid]? = some (some (p.target, p.off))

/-- an index entry points at a complete line of an existing file -/
def Durable (s : St) : Prop :=
  ∀ (g w off : Nat), s.index[g]? = some (some (w, off)) →
    ∃ c t, fileOf s w = some c ∧ c[off]? = some (some t) ∧ c[off + 1]? = some none

structure InvB (s : St) : Prop where
  loc : ∀ (i : Nat) (p : Proc), s.procs[i]? = some p → LocB s p
  ent : Durable s
  fresh : ∀ w, s.paths.length ≤ w → fileOf s w = none

theorem LocB.of_entry {s : St} {p : Proc} (h : isEntry p.pc = true) : LocB s p := by
  constructor <;> intro h' <;> cases hpc : p.pc <;> simp_all [isEntry]

theorem LocB.frame {scripts : List (List Op)} {s s' : St} {j : Nat} {q : Proc} (hB : LocB s q) (hA : LocA scripts s j q)
    (hlen : s.index.length ≤ s'.index.length)
    (hmono : ∀ (g : Nat) (e : Nat × Nat), s.index[g]? = some (some e) → s'.index[g]? = some (some e))
    (hidx : s.lock = some j → s'.index = s.index)
    (hfile : ∀ w, q.ident = some w → fileOf s' w = fileOf s w) : LocB s' q := by
  obtain ⟨b1, b2, b3, b4, b5, b6, b7, b8⟩ := hB
  have hfile' : (isS q.pc = true ∨ q.pc = .oRel ∨ q.pc = .oOpenW) → fileOf s' (q.ident.getD 0) = fileOf s (q.ident.getD 0) := by
    intro h
    have : q.ident.isSome = true := by
      rcases h with h | h | h
      · exact hA.openId (hA.sPc h)
      · exact hA.oIdSome (Or.inl h)
      · exact hA.oIdSome (Or.inr h)
    cases hid : q.ident with
    | none => simp [hid] at this
    | some w => simpa using hfile w hid
  have hlk : isS q.pc = true → q.pc ≠ .sAcq → s'.index = s.index := by
    intro h h'
    apply hidx; apply hA.lock.1
    unfold dep; cases hq : q.pc <;> simp_all [isS]
  constructor
  · intro h; have := b1 h; omega
  · intro h; have := b2 h; omega
  · intro h
    rw [hlk (by rcases h with h | h | h | h | h <;> simp [h, isS]) (by rcases h with h | h | h | h | h <;> simp [h])]
    exact b3 h
  · intro h; rw [hfile' (by simp [h, isS])]; exact b4 h
  · intro h; rw [hfile' (by simp [h, isS])]; exact b5 h
  · intro h; rw [hfile' (by rcases h with h | h <;> simp [h, isS])]; exact b6 h
  · intro h; rw [hfile' (by rcases h with h | h <;> simp [h])]; exact b7 h
  · intro h; exact hmono _ _ (b8 h)

/-- published entries and file contents only grow -/
structure StepB (s s' : St) : Prop where
  idxMono : ∀ (g : Nat) (e : Nat × Nat), s.index[g]? = some (some e) → s'.index[g]? = some (some e)
  fileMono : ∀ (w : Nat) (c : List (Option Nat)), fileOf s w = some c → ∃ d, fileOf s' w = some (c ++ d)

/-- general form of the preservation of `InvB` -/
theorem InvB.step_gen {scripts : List (List Op)} {s s' : St} {i : Nat} {p p' : Proc} (hA : InvA scripts s)
    (hB : InvB s) (hp : s.procs[i]? = some p) (hF : StepA s s' i p p')
    (hmono : ∀ (g : Nat) (e : Nat × Nat), s.index[g]? = some (some e) → s'.index[g]? = some (some e))
    (hfmono : ∀ (w : Nat) (c : List (Option Nat)), fileOf s w = some c → ∃ d, fileOf s' w = some (c ++ d))
    (hloc : LocB s' p') (hent : Durable s') (hfresh : ∀ w, s'.paths.length ≤ w → fileOf s' w = none) :
    InvB s' ∧ StepB s s' := by
  refine ⟨⟨?_, hent, hfresh⟩, ⟨hmono, hfmono⟩⟩
  intro j q hq
  rw [hF.procs, getElem?_set_proc _ _ _ _ _ _ hp] at hq
  rcases hq with ⟨rfl, rfl⟩ | ⟨hji, hq⟩
  · exact hloc
  · refine (hB.loc j q hq).frame (hA.loc j q hq) hF.idxLen hmono (fun h => ?_) (fun w hw => ?_)
    · exact (hF.shared (by rw [h]; simpa using hji)).1
    · apply hF.fileOther
      intro hpw; exact hji (hA.uniq _ _ _ _ w hq hp hw hpw)

/-- steps that change neither the index nor the files nor the paths -/
theorem InvB.step_same {scripts : List (List Op)} {s s' : St} {i : Nat} {p p' : Proc} (hA : InvA scripts s)
    (hB : InvB s) (hp : s.procs[i]? = some p) (hF : StepA s s' i p p')
    (hidx : s'.index = s.index) (hfiles : ∀ w, fileOf s' w = fileOf s w) (hpaths : s'.paths = s.paths)
    (hloc : LocB s' p') : InvB s' ∧ StepB s s' := by
  refine hB.step_gen hA hp hF (by rw [hidx]; exact fun _ _ h => h)
    (fun w c h => ⟨[], by rw [hfiles, h]; simp⟩) hloc ?_ ?_
  · intro g w off h; rw [hidx] at h; rw [hfiles]; exact hB.ent g w off h
  · intro w h; rw [hpaths] at h; rw [hfiles]; exact hB.fresh w h

set_option hygiene false in
macro "stepB " name:ident pc:term " => " tac:tacticSeq : command =>
  `(theorem $name {scripts : List (List Op)} {s s' : St} {i : Nat} {p : Proc} (hA : InvA scripts s) (hB : InvB s)
      (hp : s.procs[i]? = some p) (hpc : p.pc = $pc) (hs : step s i = some s') : InvB s' ∧ StepB s s' := by
    have hL := hA.loc i p hp
    have hLB := hB.loc i p hp
    have hs0 := hs
    simp only [step, getProc_eq, hp, hpc] at hs0
    ($tac))

set_option hygiene false in
macro "localB" : tactic =>
  `(tactic| (
      simp only [Option.some.injEq] at hs0; subst hs0
      have hF := StepA.of_step' hA hp hs (p'' := _) rfl
      refine InvB.step_same hA hB hp hF rfl (fun _ => rfl) rfl ?_
      clear hs hF
      obtain ⟨b1, b2, b3, b4, b5, b6, b7, b8⟩ := hLB
      constructor <;> simp_all <;> (try omega)))

stepB InvB.s_oPathsLen .oPathsLen => localB
stepB InvB.s_oPathsGet .oPathsGet => localB
stepB InvB.s_oOpenA .oOpenA => localB
stepB InvB.s_sIdxLen2 .sIdxLen2 => localB
stepB InvB.s_sTell .sTell => localB
stepB InvB.s_sFlush .sFlush => localB
stepB InvB.s_sCntRead .sCntRead => localB
stepB InvB.s_sCntWrite .sCntWrite => localB
stepB InvB.s_sWfRead2 .sWfRead2 => localB
stepB InvB.s_sWfWrite1 .sWfWrite1 => localB
stepB InvB.s_sLoopWf .sLoopWf => localB
stepB InvB.s_sLoopWf2 .sLoopWf2 => localB
stepB InvB.s_sLoopWfR .sLoopWfR => localB
stepB InvB.s_sLoopWfW .sLoopWfW => localB
stepB InvB.s_gPathsGet .gPathsGet => localB
stepB InvB.s_gOpenR .gOpenR => localB
stepB InvB.s_gSeek .gSeek => localB
stepB InvB.s_cWf .cWf => localB
stepB InvB.s_sIdxLen1 .sIdxLen1 => split at hs0 <;> localB
stepB InvB.s_sWfRead1 .sWfRead1 => split at hs0 <;> localB
stepB InvB.s_sLoopCnt .sLoopCnt => split at hs0 <;> localB
stepB InvB.s_sLoopIdx .sLoopIdx => split at hs0 <;> localB
stepB InvB.s_gIdxLen .gIdxLen => split at hs0 <;> localB
stepB InvB.s_gIdxGet .gIdxGet => split at hs0 <;> localB
stepB InvB.s_iIdxLen .iIdxLen => split at hs0 <;> localB
stepB InvB.s_fAcq .fAcq => flushA
stepB InvB.s_fPathsGet .fPathsGet => flushA
stepB InvB.s_fRemove .fRemove => flushA
stepB InvB.s_fPathsClear .fPathsClear => flushA
stepB InvB.s_fIdxClear .fIdxClear => flushA
stepB InvB.s_fCntZero .fCntZero => flushA
stepB InvB.s_fWfZero .fWfZero => flushA
stepB InvB.s_fRel .fRel => flushA
stepB InvB.s_sIdxGet .sIdxGet =>
  split at hs0
  · localB
  · rename_i hne
    have hlt := hLB.gidLt (Or.inl hpc)
    have hnone : s.index[p.gid]? = some none := by
      rw [List.getElem?_eq_getElem hlt] at hne ⊢
      cases h : s.index[p.gid] with
      | none => rfl
      | some v => exact absurd (by rw [h]) (hne v)
    localB

set_option hygiene false in
macro "acqB" : tactic =>
  `(tactic| (
      obtain ⟨d, rfl, hl⟩ := acquire_shape hs0
      have hF := StepA.of_step' hA hp hs (p'' := _) rfl
      refine InvB.step_same hA hB hp hF rfl (fun _ => rfl) rfl ?_
      constructor <;> simp))

stepB InvB.s_oAcq .oAcq => acqB
stepB InvB.s_sAcq .sAcq => acqB
stepB InvB.s_gAcq .gAcq => acqB
stepB InvB.s_iAcq .iAcq => acqB

theorem LocB.iterAdvance {s : St} {p : Proc} : LocB s (iterAdvance p) := by
  unfold Storage.iterAdvance; dsimp only; split <;> constructor <;> simp

set_option hygiene false in
macro "finB" : tactic =>
  `(tactic| (
      simp only [Option.some.injEq] at hs0; subst hs0
      have hF := StepA.of_step' hA hp hs (p'' := _) (by first | rfl | rw [setProc_procs, release_fst_procs])
      refine InvB.step_same hA hB hp hF (by simp) (fun _ => by simp) (by simp) ?_
      first | exact LocB.of_entry (finish_entry _ _) | exact LocB.iterAdvance))

stepB InvB.s_sRel .sRel => finB
stepB InvB.s_sRelErr .sRelErr => finB
stepB InvB.s_iRel .iRel => finB
stepB InvB.s_lCnt .lCnt => finB
stepB InvB.s_cCnt .cCnt => finB
stepB InvB.s_xClose .xClose => finB
stepB InvB.s_gReadline .gReadline => split at hs0 <;> finB
stepB InvB.s_gRelErr .gRelErr => split at hs0 <;> finB

stepB InvB.s_oRel .oRel =>
  simp only [Option.some.injEq] at hs0; subst hs0
  have hF := StepA.of_step' hA hp hs (p'' := _) (by first | rfl | rw [setProc_procs, release_fst_procs])
  refine InvB.step_same hA hB hp hF (by simp) (fun _ => by simp) (by simp) ?_
  have := hLB.noFile (Or.inl hpc)
  constructor <;> simp_all

stepB InvB.s_gRel .gRel =>
  have := hLB.rdIdx (Or.inl hpc)
  split at hs0 <;> (
    simp only [Option.some.injEq] at hs0; subst hs0
    have hF := StepA.of_step' hA hp hs (p'' := _) (by first | rfl | rw [setProc_procs, release_fst_procs])
    refine InvB.step_same hA hB hp hF (by simp) (fun _ => by simp) (by simp) ?_
    constructor <;> simp_all)

theorem ident_getD {p : Proc} (h : p.ident.isSome = true) : p.ident = some (p.ident.getD 0) := by
  cases hid : p.ident <;> simp_all

theorem LocA.ident_of_isS {scripts : List (List Op)} {s : St} {i : Nat} {p : Proc} (hL : LocA scripts s i p)
    (h : isS p.pc = true) : p.ident = some (p.ident.getD 0) := by
  exact ident_getD (hL.openId (hL.sPc h))

stepB InvB.s_oPathsAppend .oPathsAppend =>
  simp only [Option.some.injEq] at hs0; subst hs0
  have hF := StepA.of_step' hA hp hs (p'' := _) rfl
  have htmp := hL.tmpPaths hpc
  refine hB.step_gen hA hp hF (fun _ _ h => h) (fun w c h => ⟨[], by simpa using h⟩) ?_ ?_ ?_
  · constructor <;> simp
    rw [htmp]; exact hB.fresh _ (Nat.le_refl _)
  · exact hB.ent
  · intro w hw
    simp at hw
    exact hB.fresh w (by omega)

stepB InvB.s_oOpenW .oOpenW =>
  simp only [Option.some.injEq] at hs0; subst hs0
  have hF := StepA.of_step' hA hp hs (p'' := _) rfl
  have hno := hLB.noFile (Or.inr hpc)
  have hid := ident_getD (hL.oIdSome (Or.inr hpc))
  have hlt := hL.identLt _ hid
  refine hB.step_gen hA hp hF (fun _ _ h => h) ?_ ?_ ?_ ?_
  · intro w c h
    refine ⟨[], ?_⟩
    simp only [fileOf_setProc, fileOf_setFile, List.append_nil]
    rw [if_neg]; exact h
    intro hw; rw [hw, hno] at h; cases h
  · constructor <;> simp
  · intro g w off h
    obtain ⟨c, t, h1, h2, h3⟩ := hB.ent g w off h
    refine ⟨c, t, ?_, h2, h3⟩
    simp only [fileOf_setProc, fileOf_setFile]
    rw [if_neg]; exact h1
    intro hw; rw [hw, hno] at h1; cases h1
  · intro w hw
    simp only [fileOf_setProc, fileOf_setFile]
    simp at hw
    rw [if_neg (by omega)]; exact hB.fresh w hw

stepB InvB.s_sIdxExtend .sIdxExtend =>
  simp only [Option.some.injEq] at hs0; subst hs0
  have hF := StepA.of_step' hA hp hs (p'' := _) rfl
  have hext := hLB.extLt hpc
  have hmono : ∀ (g : Nat) (e : Nat × Nat), s.index[g]? = some (some e) →
      (s.index ++ List.replicate p.tmp none)[g]? = some (some e) := by
    intro g e h
    have hg : g < s.index.length := by
      rcases Nat.lt_or_ge g s.index.length with h' | h'
      · exact h'
      · simp [List.getElem?_eq_none h'] at h
    rw [List.getElem?_append_left hg]; exact h
  refine hB.step_gen hA hp hF hmono (fun w c h => ⟨[], by simpa using h⟩) ?_ ?_ hB.fresh
  · constructor <;> simp
    omega
  · intro g w off h
    apply hB.ent g w off
    simp only [setProc_index] at h
    rcases Nat.lt_or_ge g s.index.length with h' | h'
    · rw [List.getElem?_append_left h'] at h; exact h
    · rw [List.getElem?_append_right h'] at h
      simp [List.getElem?_replicate] at h

stepB InvB.s_sIdxSet .sIdxSet =>
  simp only [Option.some.injEq] at hs0; subst hs0
  have hF := StepA.of_step' hA hp hs (p'' := _) rfl
  have hun := hLB.unset (Or.inr (Or.inr (Or.inr (Or.inr hpc))))
  have hlt := hLB.gidLt (Or.inr (Or.inr (Or.inr (Or.inr (Or.inr hpc)))))
  obtain ⟨c, hc1, hc2, hc3, _⟩ := hLB.wrDone (Or.inr hpc)
  have hmono : ∀ (g : Nat) (e : Nat × Nat), s.index[g]? = some (some e) →
      (s.index.set p.gid (some (p.ident.getD 0, p.off)))[g]? = some (some e) := by
    intro g e h
    have : p.gid ≠ g := by intro h'; rw [h', h] at hun; cases hun
    rw [List.getElem?_set_ne this]; exact h
  refine hB.step_gen hA hp hF hmono (fun w c h => ⟨[], by simpa using h⟩) ?_ ?_ hB.fresh
  · constructor <;> simp
  · intro g w off h
    simp only [setProc_index] at h
    by_cases hg : p.gid = g
    · subst hg
      rw [List.getElem?_set_self hlt] at h
      simp only [Option.some.injEq, Prod.mk.injEq] at h
      obtain ⟨rfl, rfl⟩ := h
      exact ⟨c, p.text, hc1, hc2, hc3⟩
    · rw [List.getElem?_set_ne hg] at h
      exact hB.ent g w off h

theorem getElem?_append_of_some {α : Type} {l d : List α} {k : Nat} {x : α} (h : l[k]? = some x) :
    (l ++ d)[k]? = some x := by
  have hk : k < l.length := by
    rcases Nat.lt_or_ge k l.length with h' | h'
    · exact h'
    · simp [List.getElem?_eq_none h'] at h
  rw [List.getElem?_append_left hk]; exact h

/-- appending to the writer's own file keeps the data layer -/
theorem InvB.step_append {scripts : List (List Op)} {s : St} {i : Nat} {p p' : Proc} (hA : InvA scripts s)
    (hB : InvB s) (hp : s.procs[i]? = some p) (x : Option Nat) (hS : isS p.pc = true)
    (hF : StepA s (setProc (setFile s (p.ident.getD 0) ((fileOf s (p.ident.getD 0)).getD [] ++ [x])) i p') i p p')
    (hloc : LocB (setProc (setFile s (p.ident.getD 0) ((fileOf s (p.ident.getD 0)).getD [] ++ [x])) i p') p') :
    InvB (setProc (setFile s (p.ident.getD 0) ((fileOf s (p.ident.getD 0)).getD [] ++ [x])) i p') ∧
    StepB s (setProc (setFile s (p.ident.getD 0) ((fileOf s (p.ident.getD 0)).getD [] ++ [x])) i p') := by
  have hid := (hA.loc i p hp).ident_of_isS hS
  have hlt := (hA.loc i p hp).identLt _ hid
  refine hB.step_gen hA hp hF (fun _ _ h => h) ?_ hloc ?_ ?_
  · intro w c h
    simp only [fileOf_setProc, fileOf_setFile]
    by_cases hw : w = p.ident.getD 0
    · subst hw; rw [if_pos rfl, h]; exact ⟨[x], rfl⟩
    · rw [if_neg hw]; exact ⟨[], by simpa using h⟩
  · intro g w off h
    obtain ⟨c, t, h1, h2, h3⟩ := hB.ent g w off h
    simp only [fileOf_setProc, fileOf_setFile]
    by_cases hw : w = p.ident.getD 0
    · subst hw
      rw [if_pos rfl, h1]
      exact ⟨_, t, rfl, getElem?_append_of_some h2, getElem?_append_of_some h3⟩
    · rw [if_neg hw]; exact ⟨c, t, h1, h2, h3⟩
  · intro w hw
    simp only [fileOf_setProc, fileOf_setFile]
    simp at hw
    rw [if_neg (by omega)]; exact hB.fresh w hw

stepB InvB.s_sWriteText .sWriteText =>
  simp only [Option.some.injEq] at hs0; subst hs0
  have hF := StepA.of_step' hA hp hs (p'' := _) rfl
  refine hB.step_append hA hp _ (by simp [hpc, isS]) hF ?_
  obtain ⟨b1, b2, b3, b4, b5, b6, b7, b8⟩ := hLB
  clear hs hF
  constructor <;> simp_all [fileOf_setFile]

stepB InvB.s_sWriteNl .sWriteNl =>
  simp only [Option.some.injEq] at hs0; subst hs0
  have hF := StepA.of_step' hA hp hs (p'' := _) rfl
  refine hB.step_append hA hp _ (by simp [hpc, isS]) hF ?_
  obtain ⟨b1, b2, b3, b4, b5, b6, b7, b8⟩ := hLB
  obtain ⟨c, hc1, hc2, hc3⟩ := b5 hpc
  clear hs hF
  have e1 : (c ++ [none])[p.off]? = some (some p.text) := getElem?_append_of_some hc3
  have e2 : (c ++ [none])[p.off + 1]? = some none := by rw [← hc2]; simp
  constructor <;> simp_all [fileOf_setFile]

/-- the data layer is preserved by every step -/
theorem InvB.step_both {scripts : List (List Op)} {s s' : St} {i : Nat} (hA : InvA scripts s) (hB : InvB s)
    (hs : step s i = some s') : InvB s' ∧ StepB s s' := by
  obtain ⟨p, hp⟩ := step_proc hs
  cases hpc : p.pc with
    | idle => simp [Storage.step, hp, hpc] at hs
    | oAcq => exact InvB.s_oAcq hA hB hp hpc hs
    | oPathsLen => exact InvB.s_oPathsLen hA hB hp hpc hs
    | oPathsAppend => exact InvB.s_oPathsAppend hA hB hp hpc hs
    | oRel => exact InvB.s_oRel hA hB hp hpc hs
    | oOpenW => exact InvB.s_oOpenW hA hB hp hpc hs
    | oPathsGet => exact InvB.s_oPathsGet hA hB hp hpc hs
    | oOpenA => exact InvB.s_oOpenA hA hB hp hpc hs
    | sAcq => exact InvB.s_sAcq hA hB hp hpc hs
    | sIdxLen1 => exact InvB.s_sIdxLen1 hA hB hp hpc hs
    | sIdxLen2 => exact InvB.s_sIdxLen2 hA hB hp hpc hs
    | sIdxExtend => exact InvB.s_sIdxExtend hA hB hp hpc hs
    | sIdxGet => exact InvB.s_sIdxGet hA hB hp hpc hs
    | sTell => exact InvB.s_sTell hA hB hp hpc hs
    | sWriteText => exact InvB.s_sWriteText hA hB hp hpc hs
    | sWriteNl => exact InvB.s_sWriteNl hA hB hp hpc hs
    | sFlush => exact InvB.s_sFlush hA hB hp hpc hs
    | sIdxSet => exact InvB.s_sIdxSet hA hB hp hpc hs
    | sCntRead => exact InvB.s_sCntRead hA hB hp hpc hs
    | sCntWrite => exact InvB.s_sCntWrite hA hB hp hpc hs
    | sWfRead1 => exact InvB.s_sWfRead1 hA hB hp hpc hs
    | sWfRead2 => exact InvB.s_sWfRead2 hA hB hp hpc hs
    | sWfWrite1 => exact InvB.s_sWfWrite1 hA hB hp hpc hs
    | sLoopWf => exact InvB.s_sLoopWf hA hB hp hpc hs
    | sLoopCnt => exact InvB.s_sLoopCnt hA hB hp hpc hs
    | sLoopWf2 => exact InvB.s_sLoopWf2 hA hB hp hpc hs
    | sLoopIdx => exact InvB.s_sLoopIdx hA hB hp hpc hs
    | sLoopWfR => exact InvB.s_sLoopWfR hA hB hp hpc hs
    | sLoopWfW => exact InvB.s_sLoopWfW hA hB hp hpc hs
    | sRelErr => exact InvB.s_sRelErr hA hB hp hpc hs
    | sRel => exact InvB.s_sRel hA hB hp hpc hs
    | gAcq => exact InvB.s_gAcq hA hB hp hpc hs
    | gIdxLen => exact InvB.s_gIdxLen hA hB hp hpc hs
    | gIdxGet => exact InvB.s_gIdxGet hA hB hp hpc hs
    | gRelErr => exact InvB.s_gRelErr hA hB hp hpc hs
    | gRel => exact InvB.s_gRel hA hB hp hpc hs
    | gPathsGet => exact InvB.s_gPathsGet hA hB hp hpc hs
    | gOpenR => exact InvB.s_gOpenR hA hB hp hpc hs
    | gSeek => exact InvB.s_gSeek hA hB hp hpc hs
    | gReadline => exact InvB.s_gReadline hA hB hp hpc hs
    | lCnt => exact InvB.s_lCnt hA hB hp hpc hs
    | cWf => exact InvB.s_cWf hA hB hp hpc hs
    | cCnt => exact InvB.s_cCnt hA hB hp hpc hs
    | iAcq => exact InvB.s_iAcq hA hB hp hpc hs
    | iIdxLen => exact InvB.s_iIdxLen hA hB hp hpc hs
    | iRel => exact InvB.s_iRel hA hB hp hpc hs
    | fAcq => exact InvB.s_fAcq hA hB hp hpc hs
    | fPathsGet => exact InvB.s_fPathsGet hA hB hp hpc hs
    | fRemove => exact InvB.s_fRemove hA hB hp hpc hs
    | fPathsClear => exact InvB.s_fPathsClear hA hB hp hpc hs
    | fIdxClear => exact InvB.s_fIdxClear hA hB hp hpc hs
    | fCntZero => exact InvB.s_fCntZero hA hB hp hpc hs
    | fWfZero => exact InvB.s_fWfZero hA hB hp hpc hs
    | fRel => exact InvB.s_fRel hA hB hp hpc hs
    | xClose => exact InvB.s_xClose hA hB hp hpc hs

theorem InvB.step {scripts : List (List Op)} {s s' : St} {i : Nat} (hA : InvA scripts s) (hB : InvB s)
    (hs : step s i = some s') : InvB s' := (hB.step_both hA hs).1

theorem StepB.of_step {scripts : List (List Op)} {s s' : St} {i : Nat} (hA : InvA scripts s) (hB : InvB s)
    (hs : step s i = some s') : StepB s s' := (hB.step_both hA hs).2

theorem InvB.init (presize : Nat) (scripts : List (List Op)) : InvB (start (init presize scripts)) := by
  refine ⟨?_, ?_, ?_⟩
  · intro i p hp
    simp only [start, Storage.init, List.map_map, List.getElem?_map, Option.map_eq_some_iff] at hp
    obtain ⟨sc, _, rfl⟩ := hp
    exact LocB.of_entry (fetch_entry _ rfl)
  · intro g w off h
    simp [start, Storage.init, List.getElem?_replicate] at h
  · intro w _; rfl

end WindVerif.Storage
