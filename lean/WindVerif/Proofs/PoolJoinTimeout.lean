import WindVerif.Proofs.PoolLife
import WindVerif.Proofs.PoolLive
/-!
A finite `join_timeout` (`Cfg.joinTimeout`): `p.join(timeout=…)` in `ReplaceWorkerThread.run` and in `FunctorPool.__exit__`
returns after the timeout whether the worker has exited or not.  A retiring worker posts its wid to the replace queue and
only then runs `end()` (the `finally:` of `run`) — a step of its own (`WPc.ending`, in every configuration) —, so with a timed
join the successor can be started while the retired worker is still running, and `__exit__` can return while a worker is still
running.

* witnesses (explicit schedules, checked by evaluation): `successor_while_retired_runs`,
  `exit_returns_with_running_worker`, `exit_skip_running_worker` (the last two are the counterexamples because of which
  `exit_joins_all` and `exit_skip_all_exited` carry the hypothesis `cfg.joinTimeout = false`);
* what holds for every configuration, in particular with timed joins: the lifecycle (`lifecycle_counts`,
  `retired_still_ends`), no deadlock / termination (`*_joinTimeout` corollaries of the general theorems) and — the strongest
  true replacement of "every worker has exited when `__exit__` returns" — `imap_maximal_all_exited` /
  `eventually_all_exited`: every maximal execution ends with the caller finished and EVERY worker exited, and from every
  reachable state such an end can be reached.
-/
namespace WindVerif.Pool

/-! ### witnesses -/

/-- a factory pool with 1 worker, quota 1, one ordered call of 2 chunks, finite join timeout -/
def jtCfg : Cfg :=
  { nWorkers := 1, workCap := none, resCap := none, factory := true, quota := some 1, waitReady := false,
    calls := [⟨2, true⟩], beginFault := [], itemFault := [], joinTimeout := true }

/-- enter and start of the call (7 steps of the consumer), worker 0 through `begin()`, the feeder sends chunk 0, worker 0
processes and delivers it, finds its quota used up and posts its wid (`retire`, now at `.ending`: `end()` not yet run); the
replace thread takes the wid, its join TIMES OUT, it creates worker 1, lists it in slot 0 and starts it -/
def jtSched : List Tid :=
  [.c, .c, .c, .c, .c, .c, .c, .w 0, .w 0, .f, .f, .f, .f, .f, .w 0, .w 0, .w 0, .w 0, .w 0, .r, .r, .r]

theorem jtSched_run : (run (init jtCfg) jtSched).map (fun s => (s.procs, s.workers.map (fun w => (w.wid, w.pc, w.log)))) =
    some ([1], [(0, .ending, [.begin, .item 0]), (1, .bfClear, [])]) := by decide +kernel

theorem exists_of_map_eq {α β} {o : Option α} {f : α → β} {v : β} (h : o.map f = some v) : ∃ a, o = some a ∧ f a = v := by
  cases o with
  | none => cases h
  | some a => exact ⟨a, rfl, by simpa using h⟩

theorem mem_of_map_eq_cons {α β} {l : List α} {f : α → β} {v : β} {r : List β} (h : l.map f = v :: r) :
    ∃ a r', l = a :: r' ∧ f a = v ∧ r'.map f = r := by
  cases l with
  | nil => cases h
  | cons a r' => simp only [List.map_cons, List.cons.injEq] at h; exact ⟨a, r', rfl, h.1, h.2⟩

/-- the situation exists in the model: a reachable state in which the successor (worker 1) has been listed and started
while the retired worker 0 is still running (pc `.ending`: `end` not yet logged) -/
theorem successor_while_retired_runs :
    ∃ sched s, run (init jtCfg) sched = some s ∧ s.procs = [1] ∧
      (∃ w ∈ s.workers, w.wid = 0 ∧ w.pc = .ending ∧ w.log = [.begin, .item 0]) ∧
      (∃ w ∈ s.workers, w.wid = 1 ∧ w.pc = .bfClear) := by
  obtain ⟨s, hs, hv⟩ := exists_of_map_eq jtSched_run
  simp only [Prod.mk.injEq] at hv
  obtain ⟨hp, hw⟩ := hv
  obtain ⟨a, r, h1, ha, hr⟩ := mem_of_map_eq_cons hw
  obtain ⟨b, r2, h2, hb, _⟩ := mem_of_map_eq_cons hr
  simp only [Prod.mk.injEq] at ha hb
  refine ⟨jtSched, s, hs, hp, ⟨a, by rw [h1]; simp, ha.1, ha.2.1, ha.2.2⟩, ⟨b, by rw [h1, h2]; simp, hb.1, hb.2.1⟩⟩

/-- … and on: worker 1 through `begin()`, the feeder sends chunk 1 and finishes, the consumer drains both results and
leaves the loop, stops the feeder and the replace thread; worker 1 posts its wid too late (unreplaced), ends and exits; the
stop order of `__exit__`, the join of worker 1 (exited) — the caller is done; worker 0 has not been scheduled since: it is
STILL at `.ending` -/
def jtSchedExit : List Tid :=
  jtSched ++ [.c, .c, .c, .c, .c, .c, .c, .c, .c, .c, .f, .f, .f, .f, .f, .f, .f, .c, .c, .c, .c, .c, .w 1, .w 1, .w 1, .w 1,
    .w 1, .c, .c, .c, .c, .c, .c, .c, .c, .r, .c, .c, .c, .w 1, .w 1, .w 1]

theorem jtSchedExit_run : (run (init jtCfg) jtSchedExit).map
    (fun s => (decide (s.cpc = .done), s.workers.map (fun w => (w.wid, w.pc)))) =
    some (true, [(0, .ending), (1, .exited)]) := by decide +kernel

/-- with a finite join timeout "every worker has exited when `__exit__` returns" is FALSE: a reachable state in which the
caller has left the context (`cpc = .done`) while a worker is still running (here: the retired worker 0, inside `end()`) -/
theorem exit_returns_with_running_worker :
    ∃ cfg sched s, cfg.joinTimeout = true ∧ run (init cfg) sched = some s ∧ s.cpc = .done ∧
      ∃ w ∈ s.workers, w.pc ≠ .exited := by
  obtain ⟨s, hs, hv⟩ := exists_of_map_eq jtSchedExit_run
  simp only [Prod.mk.injEq] at hv
  obtain ⟨hd, hw⟩ := hv
  obtain ⟨a, r, h1, ha, _⟩ := mem_of_map_eq_cons hw
  simp only [Prod.mk.injEq] at ha
  exact ⟨jtCfg, jtSchedExit, s, rfl, hs, by simpa using hd, a, by rw [h1]; simp, by rw [ha.2]; simp⟩

/-- so `exit_joins_all` does need `cfg.joinTimeout = false` -/
theorem exit_joins_all_needs_no_timeout : ¬ ∀ (cfg : Cfg) (s : St), Reach cfg s → s.cpc = .done → AllExited s := by
  intro h
  obtain ⟨cfg, sched, s, _, hs, hd, w, hw, hne⟩ := exit_returns_with_running_worker
  exact hne (h cfg s ⟨sched, hs⟩ hd w hw)

/-- the configuration of the former D19 with one more chunk and a finite join timeout -/
def jtD19Cfg : Cfg :=
  { nWorkers := 2, workCap := some 1, resCap := none, factory := true, quota := some 1, waitReady := false,
    calls := [⟨3, true⟩], beginFault := [], itemFault := [], joinTimeout := true }

/-- worker 0 retires after chunk 0 and is replaced by worker 2 while it is still at `.ending`; workers 1 and 2 process the
other chunks and post their wids only after the replace thread has been stopped, end and exit unreplaced; the first stop
order fills the work queue (bound 1), the second `put` finds it full with every LISTED worker (2, 1) exited -/
def jtD19Sched : List Tid :=
  [.c, .c, .c, .c, .c, .c, .c, .c, .w 0, .w 0, .w 1, .w 1, .f, .f, .f, .f, .f, .w 0, .w 0, .w 0, .w 0, .w 0, .r, .r, .r,
   .w 2, .w 2,
   .c, .c, .c, .c, .c, .c, .c, .c, .c, .c, .f, .f, .f, .f, .f, .w 1, .f, .f, .f, .f, .f, .f, .f, .c, .c, .c, .c, .c, .w 1,
   .w 1, .c, .c, .c, .c, .c, .w 1, .w 2, .w 2, .w 2, .c, .c, .c, .c, .c, .c, .c, .c, .r, .c, .c, .w 1, .w 1, .w 2, .w 2,
   .w 2]

theorem jtD19_run : (run (init jtD19Cfg) jtD19Sched).bind
    (fun s => (step s .c).map (fun s' => ((decide (s.cpc = .exitPut 1), capFull s.cfg.workCap s.workQ, decide (s'.cpc = .done)),
      s.procs, s'.workers.map (fun w => (w.wid, w.pc))))) =
    some ((true, true, true), [2, 1], [(0, .ending), (1, .exited), (2, .exited)]) := by decide +kernel

theorem exists_of_bind_eq {α β} {o : Option α} {f : α → Option β} {v : β} (h : o.bind f = some v) :
    ∃ a, o = some a ∧ f a = some v := by
  cases o with
  | none => cases h
  | some a => exact ⟨a, rfl, h⟩

/-- with a finite join timeout `exit_skip_all_exited` is FALSE as it stood: the consumer leaves the loop of stop orders on a
full queue (every listed worker has an exit code) while a replaced, unlisted worker is still inside `end()` -/
theorem exit_skip_running_worker :
    ∃ cfg sched s s' i, cfg.joinTimeout = true ∧ run (init cfg) sched = some s ∧ s.cpc = .exitPut i ∧
      capFull s.cfg.workCap s.workQ = true ∧ step s .c = some s' ∧ s'.cpc = .done ∧ ∃ w ∈ s'.workers, w.pc = .ending := by
  obtain ⟨s, hs, hst⟩ := exists_of_bind_eq jtD19_run
  obtain ⟨s', hs', hv'⟩ := exists_of_map_eq hst
  simp only [Prod.mk.injEq] at hv'
  obtain ⟨⟨hpc, hfull, hd⟩, _, hw⟩ := hv'
  obtain ⟨a, r, h1, ha, _⟩ := mem_of_map_eq_cons hw
  simp only [Prod.mk.injEq] at ha
  exact ⟨jtD19Cfg, jtD19Sched, s, s', 1, rfl, hs, by simpa using hpc, hfull, hs', by simpa using hd, a, by rw [h1]; simp, ha.2⟩

/-! ### the lifecycle holds with timed joins too -/

theorem count_of_items {items : List WEv} (hi : ∀ e ∈ items, isItem e = true) :
    items.count .begin = 0 ∧ items.count .end_ = 0 := by
  constructor <;> rw [List.count_eq_zero] <;> intro hm <;> exact absurd (hi _ hm) (by simp [isItem])

/-- in every reachable state of every configuration (faults and timed joins included) each worker's log has `begin` at
most once and `end_` at most once; a worker that has exited has logged both exactly once; a worker at `.ending` (wid posted,
`end()` still to run) has logged `begin` once and `end_` not yet -/
theorem lifecycle_counts (cfg : Cfg) (s : St) (h : Reach cfg s) (w : Worker) (hw : w ∈ s.workers) :
    w.log.count .begin ≤ 1 ∧ w.log.count .end_ ≤ 1 ∧
    (w.pc = .exited → w.log.count .begin = 1 ∧ w.log.count .end_ = 1) ∧
    (w.pc = .ending → w.log.count .begin = 1 ∧ w.log.count .end_ = 0) := by
  have hL := (lifecycle_trace cfg s h w hw).1
  cases hpc : w.pc <;> simp only [hpc] at hL
  case notStarted => simp [hL]
  case bfClear => simp [hL]
  case exited =>
    obtain ⟨items, hi, hl⟩ := hL
    obtain ⟨c1, c2⟩ := count_of_items hi
    have e1 : w.log.count .begin = 1 := by rw [hl]; simp [List.count_append, c1]
    have e2 : w.log.count .end_ = 1 := by rw [hl]; simp [List.count_append, c2]
    simp [e1, e2]
  all_goals
    obtain ⟨items, hi, hl⟩ := hL
    obtain ⟨c1, c2⟩ := count_of_items hi
    have e1 : w.log.count .begin = 1 := by rw [hl]; simp [c1]
    have e2 : w.log.count .end_ = 0 := by rw [hl]; simp [c2]
    simp [e1, e2]

/-- timed joins (`joinTimeout = true`): the lifecycle theorem of C04 holds unchanged, and a retired worker whose successor
may already be running still ends: at `.ending` it can always move, and its step logs `end_` (once) and exits -/
theorem retired_still_ends (cfg : Cfg) (_hjt : cfg.joinTimeout = true) (s : St) (h : Reach cfg s) (w : Worker)
    (hw : w ∈ s.workers) :
    LifeOk cfg w ∧ w.log.count .begin ≤ 1 ∧ w.log.count .end_ ≤ 1 ∧
    (w.pc = .exited → w.log.count .begin = 1 ∧ w.log.count .end_ = 1) ∧
    (w.pc = .ending → w.log.count .end_ = 0 ∧
      ∃ s', step s (.w w.wid) = some s' ∧ ∃ w' ∈ s'.workers, w'.wid = w.wid ∧ w'.pc = .exited ∧ w'.log = w.log ++ [.end_]) := by
  obtain ⟨c1, c2, c3, c4⟩ := lifecycle_counts cfg s h w hw
  refine ⟨lifecycle_trace cfg s h w hw, c1, c2, c3, ?_⟩
  intro hpc
  refine ⟨(c4 hpc).2, ?_⟩
  obtain ⟨hI, _⟩ := LInv_reach h
  have hg := getWorker_of_mem hI.nodup hw
  refine ⟨setWorker s (workerExit w w.crashed), ?_, workerExit w w.crashed, ?_, rfl, rfl, rfl⟩
  · show stepW s w.wid = _
    unfold stepW; rw [hg]; simp only [hpc]
  · rw [setWorker_workers]
    exact mem_upd.2 (Or.inl ⟨rfl, w, hw, rfl⟩)

/-! ### liveness with timed joins -/

theorem imap_no_deadlock_joinTimeout (cfg : Cfg) (_hjt : cfg.joinTimeout = true) (hw : WellCfg cfg) (hf : NoFaults cfg)
    (s : St) (h : Reach cfg s) (hnd : s.cpc ≠ .done) : ∃ t, (step s t).isSome :=
  imap_no_deadlock cfg hw hf s h hnd

theorem imap_terminates_joinTimeout (cfg : Cfg) (_hjt : cfg.joinTimeout = true) (hw : WellCfg cfg) (hf : NoFaults cfg) :
    ∃ bound, ∀ sched s, run (init cfg) sched = some s → sched.length ≤ bound :=
  imap_terminates cfg hw hf

/-- under the invariants: the caller is done and every worker has exited, or somebody can move -/
theorem progress_all {s : St} (hS : SafeInv s) (hL : LInv s) (hV : LiveInv s) (hM : MidI s) (hw : WellCfg s.cfg) :
    (s.cpc = .done ∧ AllExited s) ∨ ∃ t, (step s t).isSome = true := by
  by_cases hd : s.cpc = .done
  · by_cases ha : AllExited s
    · exact Or.inl ⟨hd, ha⟩
    · right
      have : ∃ w, w ∈ s.workers ∧ w.pc ≠ .exited := by
        apply Classical.byContradiction
        intro hn
        apply ha
        intro w hw'
        apply Classical.byContradiction
        intro hne
        exact hn ⟨w, hw', hne⟩
      obtain ⟨w, hwm, hne⟩ := this
      have hcur := hV.cs.curNone (by rw [hd]; rfl)
      refine idle_worker_progress hS hL hV hcur (by rw [hd]; rfl) (by intro j hj; rw [hd] at hj; cases hj) hwm hne ?_
      intro hget
      have h2 := hV.ct.cnt2 (by rw [hd]; rfl)
      unfold stopsSent at h2; rw [hd] at h2; simp only [stopsV] at h2
      have hpos := liveCnt_pos_of_mem hwm (by rw [hget]; rfl)
      exact ne_nil_of_noneCount_pos (by omega)
  · exact Or.inr (progress hS hL hV hM hw hd)

/-- the strongest true variant of "all workers have exited when `__exit__` returns" that survives a finite join timeout:
every maximal execution (one that cannot be extended) of every well-formed configuration ends with the caller finished and
EVERY worker ever created exited — every started worker eventually exits (retired ones inside `end()` included) -/
theorem imap_maximal_all_exited (cfg : Cfg) (hw : WellCfg cfg) (hf : NoFaults cfg) (sched : List Tid) (s : St)
    (h : run (init cfg) sched = some s) (hmax : ∀ t, step s t = none) : s.cpc = .done ∧ AllExited s := by
  obtain ⟨hS, hL, hV, hM, hc⟩ := live_reach cfg hw hf s ⟨sched, h⟩
  rcases progress_all hS hL hV hM (by rw [hc]; exact hw) with hd | ⟨t, ht⟩
  · exact hd
  · rw [hmax t] at ht; cases ht

theorem eventually_all_exited_aux : ∀ (n : Nat) (s : St), meas s ≤ n → NoFaults s.cfg → WellCfg s.cfg → SafeInv s → LInv s →
    LiveInv s → MidI s → ∃ sched s', run s sched = some s' ∧ s'.cpc = .done ∧ AllExited s'
  | 0, s, hn, hf, hw, hS, hL, hV, hM => by
    rcases progress_all hS hL hV hM hw with hd | ⟨t, ht⟩
    · exact ⟨[], s, rfl, hd⟩
    · obtain ⟨s1, hs1⟩ := Option.isSome_iff_exists.1 ht
      have := meas_step hf hw hS hL hV hs1
      omega
  | n + 1, s, hn, hf, hw, hS, hL, hV, hM => by
    rcases progress_all hS hL hV hM hw with hd | ⟨t, ht⟩
    · exact ⟨[], s, rfl, hd⟩
    · obtain ⟨s1, hs1⟩ := Option.isSome_iff_exists.1 ht
      have hlt := meas_step hf hw hS hL hV hs1
      have hc := step_cfg hs1
      obtain ⟨sched, s', hr, hd⟩ := eventually_all_exited_aux n s1 (by omega) (by rw [hc]; exact hf) (by rw [hc]; exact hw)
        (safe_step s s1 t hf hS hs1) (LInv_step hL hs1) (LiveInv_step hf hw hS hL hV hM hs1)
        (MidI_step hf hw hS hL hV hM hs1)
      exact ⟨t :: sched, s', by simp only [run, hs1]; exact hr, hd⟩

/-- from every reachable state the execution can be continued to a state in which the caller is done and every worker has
exited (and by `imap_terminates` every continuation is finite): nobody is left running for good, join timeout or not -/
theorem eventually_all_exited (cfg : Cfg) (hw : WellCfg cfg) (hf : NoFaults cfg) (s : St) (h : Reach cfg s) :
    ∃ sched s', run s sched = some s' ∧ s'.cpc = .done ∧ AllExited s' := by
  obtain ⟨hS, hL, hV, hM, hc⟩ := live_reach cfg hw hf s h
  exact eventually_all_exited_aux (meas s) s (Nat.le_refl _) (by rw [hc]; exact hf) (by rw [hc]; exact hw) hS hL hV hM

end WindVerif.Pool
