import WindVerif.Model.SpanSet
import WindVerif.Proofs.Sorted
/-! Theorems about the model of `ImmutIntervalMap` (C16). -/
namespace WindVerif.SpanSet

/-- two closed intervals share no point -/
def Apart (a b : Span) : Prop := a.2 < b.1 ∨ b.2 < a.1

/-- `key` lies in the closed interval -/
def Inside (key : Int) (iv : Span) : Prop := iv.1 ≤ key ∧ key ≤ iv.2

/-- the defining dict is acceptable: every interval has start ≤ end and no two intervals share a point -/
def Acceptable (items : List (Span × Nat)) : Prop :=
  (∀ it ∈ items, it.1.1 ≤ it.1.2) ∧ (items.map (·.1)).Pairwise Apart

/-! ### helper lemmas -/

theorem apart_symm {a b : Span} (h : Apart a b) : Apart b a := by
  unfold Apart at *; omega

theorem overlaps_iff (x y : Span) : Rel.holds .overlaps x y = true ↔ ¬ Apart x y := by
  unfold Rel.holds Apart
  simp only [Bool.and_eq_true, decide_eq_true_eq]
  omega

/-- the constructor loop with an explicit accumulator -/
def buildFrom (r : Rel) (acc xs : List Span) : List Span :=
  xs.foldl (fun acc x => if acc.any (fun y => r.holds x y) then acc else acc ++ [x]) acc

theorem buildFrom_length (xs : List Span) : ∀ acc : List Span,
    (buildFrom .overlaps acc xs).length ≤ acc.length + xs.length ∧
    ((buildFrom .overlaps acc xs).length = acc.length + xs.length ↔
      (∀ x ∈ xs, ∀ y ∈ acc, Apart y x) ∧ xs.Pairwise Apart) := by
  induction xs with
  | nil => intro acc; simp [buildFrom]
  | cons x xs ih =>
    intro acc
    unfold buildFrom
    rw [List.foldl_cons]
    by_cases hany : acc.any (fun y => Rel.holds .overlaps x y) = true
    · rw [if_pos hany]
      have := ih acc
      unfold buildFrom at this
      refine ⟨by simp only [List.length_cons]; omega, ?_⟩
      constructor
      · intro h; simp only [List.length_cons] at h; omega
      · rintro ⟨h1, _⟩
        exfalso
        rw [List.any_eq_true] at hany
        obtain ⟨y, hy, hxy⟩ := hany
        rw [overlaps_iff] at hxy
        exact hxy (apart_symm (h1 x (by simp) y hy))
    · rw [if_neg hany]
      have := ih (acc ++ [x])
      unfold buildFrom at this
      simp only [List.length_append, List.length_cons, List.length_nil] at this
      refine ⟨by simp only [List.length_cons]; omega, ?_⟩
      have hacc : ∀ y ∈ acc, Apart y x := by
        intro y hy
        apply Classical.byContradiction
        intro hn
        apply hany
        rw [List.any_eq_true]
        exact ⟨y, hy, (overlaps_iff x y).2 (fun h => hn (apart_symm h))⟩
      simp only [List.length_cons]
      rw [show acc.length + (xs.length + 1) = acc.length + (0 + 1) + xs.length by omega, this.2,
        List.pairwise_cons]
      constructor
      · rintro ⟨h1, h2⟩
        refine ⟨?_, ?_, h2⟩
        · intro z hz y hy
          rw [List.mem_cons] at hz
          rcases hz with rfl | hz
          · exact hacc y hy
          · exact h1 z hz y (by simp [hy])
        · intro z hz
          exact h1 z hz x (by simp)
      · rintro ⟨h1, h2, h3⟩
        refine ⟨?_, h3⟩
        intro z hz y hy
        rw [List.mem_append, List.mem_singleton] at hy
        rcases hy with hy | rfl
        · exact h1 z (by simp [hz]) y hy
        · exact h2 z hz

theorem build_length_iff (xs : List Span) :
    (build .overlaps xs).length = xs.length ↔ xs.Pairwise Apart := by
  have := (buildFrom_length xs []).2
  unfold buildFrom at this
  unfold build
  simpa using this

/-- the map that a successful construction returns -/
def mkMap (items : List (Span × Nat)) : IMap :=
  let sorted := ((items.map (·.1)).map (·.2)).zipIdx.mergeSort (fun a b => a.1 ≤ b.1)
  { starts := (items.map (·.1)).map (·.1), vals := items.map (·.2),
    sortedEnds := sorted.map (·.1), sortedIdx := sorted.map (·.2) }

theorem imapInit_eq (items : List (Span × Nat)) :
    (Acceptable items → imapInit items = .ok (mkMap items)) ∧
    (¬ Acceptable items → imapInit items = .error .keyError) := by
  unfold imapInit Acceptable
  by_cases hv : ∀ it ∈ items, it.1.1 ≤ it.1.2
  · have h1 : items.any (fun it => decide (it.1.1 > it.1.2)) = false := by
      rw [List.any_eq_false]
      intro it hit
      have := hv it hit
      simp only [decide_eq_true_eq]; omega
    rw [h1]
    simp only [Bool.false_eq_true, if_false]
    by_cases hp : (items.map (·.1)).Pairwise Apart
    · have h2 := (build_length_iff (items.map (·.1))).2 hp
      rw [List.length_map] at h2
      refine ⟨fun _ => ?_, fun h => absurd ⟨hv, hp⟩ h⟩
      simp only [h2, bne_self_eq_false, Bool.false_eq_true, if_false]
      rfl
    · have h2 : (build .overlaps (items.map (·.1))).length ≠ items.length := by
        intro h; apply hp
        apply (build_length_iff _).1
        rw [List.length_map]; exact h
      refine ⟨fun h => absurd h.2 hp, fun _ => ?_⟩
      simp [h2]
  · have h1 : items.any (fun it => decide (it.1.1 > it.1.2)) = true := by
      rw [List.any_eq_true]
      apply Classical.byContradiction
      intro hn
      apply hv
      intro it hit
      apply Classical.byContradiction
      intro hlt
      exact hn ⟨it, hit, by simp only [decide_eq_true_eq]; omega⟩
    refine ⟨fun h => absurd h.1 hv, fun _ => ?_⟩
    rw [h1, if_pos rfl]

/-- construction succeeds exactly for acceptable dicts, and raises `KeyError` otherwise -/
theorem imapInit_ok_iff (items : List (Span × Nat)) :
    (∃ m, imapInit items = .ok m) ↔ Acceptable items := by
  constructor
  · rintro ⟨m, hm⟩
    apply Classical.byContradiction
    intro hn
    rw [(imapInit_eq items).2 hn] at hm
    cases hm
  · intro h
    exact ⟨_, (imapInit_eq items).1 h⟩

theorem imapInit_err (items : List (Span × Nat)) (h : ¬ Acceptable items) :
    imapInit items = .error .keyError := by
  exact (imapInit_eq items).2 h

theorem imapInit_ok (items : List (Span × Nat)) (m : IMap) (h : imapInit items = .ok m) :
    Acceptable items ∧ m = mkMap items := by
  by_cases ha : Acceptable items
  · rw [(imapInit_eq items).1 ha] at h
    exact ⟨ha, by injection h with h; exact h.symm⟩
  · rw [(imapInit_eq items).2 ha] at h; cases h

/-- two items of an acceptable dict are the same item or have disjoint intervals -/
theorem acceptable_dich (items : List (Span × Nat)) (h : (items.map (·.1)).Pairwise Apart) :
    ∀ a ∈ items, ∀ b ∈ items, a = b ∨ Apart a.1 b.1 := by
  induction items with
  | nil => intro a ha; cases ha
  | cons x xs ih =>
    rw [List.map_cons, List.pairwise_cons] at h
    have hx : ∀ b ∈ xs, Apart x.1 b.1 := fun b hb => h.1 b.1 (List.mem_map.2 ⟨b, hb, rfl⟩)
    intro a ha b hb
    rw [List.mem_cons] at ha hb
    rcases ha with rfl | ha <;> rcases hb with rfl | hb
    · exact Or.inl rfl
    · exact Or.inr (hx b hb)
    · exact Or.inr (apart_symm (hx a ha))
    · exact ih h.2 a ha b hb

/-- the containing interval is unique -/
theorem inside_unique (items : List (Span × Nat)) (h : Acceptable items) (key : Int) (a b : Span × Nat)
    (ha : a ∈ items) (hb : b ∈ items) (hka : Inside key a.1) (hkb : Inside key b.1) : a.1 = b.1 := by
  rcases acceptable_dich items h.2 a ha b hb with rfl | hab
  · rfl
  · unfold Apart at hab; unfold Inside at hka hkb; omega

theorem imapLen_spec (items : List (Span × Nat)) (m : IMap) (h : imapInit items = .ok m) :
    imapLen m = items.length := by
  obtain ⟨_, rfl⟩ := imapInit_ok items m h
  simp [imapLen, mkMap]

/-! ### the sorted `(end, position)` pairs -/

def sortedPairs (items : List (Span × Nat)) : List (Int × Nat) :=
  ((items.map (·.1)).map (·.2)).zipIdx.mergeSort (fun a b => a.1 ≤ b.1)

theorem sp_perm (items : List (Span × Nat)) :
    (sortedPairs items).Perm ((items.map (·.1.2)).zipIdx) := by
  unfold sortedPairs
  rw [List.map_map]
  exact List.mergeSort_perm _ _

theorem sp_mem (items : List (Span × Nat)) (p : Int × Nat) (hp : p ∈ sortedPairs items) :
    ∃ it, items[p.2]? = some it ∧ it.1.2 = p.1 := by
  have := (sp_perm items).mem_iff.1 hp
  rw [List.mem_zipIdx_iff_getElem?, List.getElem?_map] at this
  cases h : items[p.2]? with
  | none => rw [h] at this; cases this
  | some it => rw [h] at this; exact ⟨it, rfl, by simpa using this⟩

theorem sp_sorted (items : List (Span × Nat)) :
    (sortedPairs items).Pairwise (fun a b => a.1 ≤ b.1) := by
  have := List.pairwise_mergeSort (le := fun (a b : Int × Nat) => decide (a.1 ≤ b.1))
    (by intro a b c; simp only [decide_eq_true_eq]; omega)
    (by intro a b; simp only [Bool.or_eq_true, decide_eq_true_eq]; omega)
    ((items.map (·.1)).map (·.2)).zipIdx
  exact this.imp (by intro a b; simp)

theorem ends_nodup (items : List (Span × Nat)) (h : Acceptable items) : (items.map (·.1.2)).Nodup := by
  rw [List.nodup_iff_pairwise_ne, List.pairwise_map]
  have h2 := h.2
  rw [List.pairwise_map] at h2
  refine h2.imp_of_mem ?_
  intro a b ha hb hab
  have := h.1 a ha; have := h.1 b hb
  unfold Apart at hab; omega

theorem sp_strict (items : List (Span × Nat)) (h : Acceptable items) :
    Sorted.Strict ((sortedPairs items).map (·.1)) := by
  have hnd : ((sortedPairs items).map (·.1)).Nodup := by
    rw [((sp_perm items).map _).nodup_iff, List.zipIdx_map_fst]
    exact ends_nodup items h
  unfold Sorted.Strict
  rw [List.pairwise_map]
  rw [List.nodup_iff_pairwise_ne, List.pairwise_map] at hnd
  refine ((sp_sorted items).and hnd).imp ?_
  intro a b ⟨h1, h2⟩
  omega

theorem ends_mem (items : List (Span × Nat)) (e : Int) :
    e ∈ (sortedPairs items).map (·.1) ↔ ∃ it ∈ items, it.1.2 = e := by
  rw [((sp_perm items).map _).mem_iff, List.zipIdx_map_fst, List.mem_map]

theorem mkMap_fields (items : List (Span × Nat)) :
    (mkMap items).starts = items.map (·.1.1) ∧ (mkMap items).vals = items.map (·.2) ∧
    (mkMap items).sortedEnds = (sortedPairs items).map (·.1) ∧
    (mkMap items).sortedIdx = (sortedPairs items).map (·.2) := by
  refine ⟨by simp [mkMap], rfl, rfl, rfl⟩

/-- reading back the item at a position -/
theorem readback (items : List (Span × Nat)) (p : Int × Nat) (it : Span × Nat)
    (h1 : items[p.2]? = some it) (h2 : it.1.2 = p.1) :
    (match (mkMap items).starts[p.2]?, (mkMap items).vals[p.2]? with
      | some s, some v => some ((s, p.1), v)
      | _, _ => none) = some it := by
  obtain ⟨hs, hv, _, _⟩ := mkMap_fields items
  rw [hs, hv, List.getElem?_map, List.getElem?_map, h1]
  simp only [Option.map_some]
  rw [← h2]

/-- what the lookup computes: the item with the smallest end `≥ key` decides -/
theorem imapGet_cases (items : List (Span × Nat)) (h : Acceptable items) (key : Int) :
    (imapGet (mkMap items) key = .error .keyError ∧ ∀ it ∈ items, it.1.2 < key) ∨
    (∃ it ∈ items, key ≤ it.1.2 ∧ (∀ it' ∈ items, key ≤ it'.1.2 → it.1.2 ≤ it'.1.2) ∧
       imapGet (mkMap items) key = if key < it.1.1 then .error .keyError else .ok it.2) := by
  obtain ⟨hs, hv, he, hi⟩ := mkMap_fields items
  have hst := sp_strict items h
  have hsplit := Sorted.strict_split _ key hst
  have hmem := ends_mem items
  unfold imapGet
  simp only []
  rw [he, Sorted.bisect_exact _ key hst]
  generalize hE : (sortedPairs items).map (·.1) = E at *
  by_cases hlen : (E.filter (· < key)).length = E.length
  · left
    rw [if_pos hlen]
    refine ⟨rfl, ?_⟩
    intro it hit
    have := List.length_filter_eq_length_iff.1 hlen it.1.2 ((hmem _).2 ⟨it, hit, rfl⟩)
    simpa using this
  · right
    rw [if_neg hlen]
    generalize hL : E.filter (· < key) = L at *
    cases hR : E.filter (key ≤ ·) with
    | nil => rw [hR, List.append_nil] at hsplit; rw [hsplit] at hlen; exact absurd rfl hlen
    | cons r R =>
      rw [hR] at hsplit
      have hr : key ≤ r := by
        have : r ∈ E.filter (key ≤ ·) := by rw [hR]; simp
        simpa using (List.mem_filter.1 this).2
      have hEi : E[L.length]? = some r := by
        rw [← hsplit, List.getElem?_append_right (Nat.le_refl _), Nat.sub_self]; rfl
      rw [← hE, List.getElem?_map] at hEi
      obtain ⟨p, hp, hpr⟩ := Option.map_eq_some_iff.1 hEi
      obtain ⟨it, hit, hite⟩ := sp_mem items p (List.mem_of_getElem? hp)
      have hmin : ∀ e ∈ E, key ≤ e → r ≤ e := by
        intro e he' hke
        rw [← hsplit, List.mem_append, List.mem_cons] at he'
        rcases he' with he' | rfl | he'
        · rw [← hL] at he'
          have := (List.mem_filter.1 he').2
          simp only [decide_eq_true_eq] at this; omega
        · exact Int.le_refl _
        · unfold Sorted.Strict at hst
          rw [← hsplit, List.pairwise_append, List.pairwise_cons] at hst
          have := hst.2.1.1 e he'; omega
      refine ⟨it, List.mem_of_getElem? hit, by omega, ?_, ?_⟩
      · intro it' hit' hk
        have := hmin it'.1.2 ((hmem _).2 ⟨it', hit', rfl⟩) hk
        omega
      · rw [hi, List.getElem?_map, hp]
        simp only [Option.map_some]
        rw [hs, hv, List.getElem?_map, List.getElem?_map, hit]
        rfl

theorem imapGet_hit (items : List (Span × Nat)) (m : IMap) (h : imapInit items = .ok m) (key : Int)
    (it : Span × Nat) (hit : it ∈ items) (hin : Inside key it.1) : imapGet m key = .ok it.2 := by
  obtain ⟨hacc, rfl⟩ := imapInit_ok items m h
  unfold Inside at hin
  rcases imapGet_cases items hacc key with ⟨_, hall⟩ | ⟨it', hit', hk, hmin, hget⟩
  · have := hall it hit; omega
  · have hle := hmin it hit hin.2
    rcases acceptable_dich items hacc.2 it' hit' it hit with rfl | hap
    · rw [hget, if_neg (by omega)]
    · have := hacc.1 it' hit'
      unfold Apart at hap; omega

theorem imapGet_miss (items : List (Span × Nat)) (m : IMap) (h : imapInit items = .ok m) (key : Int)
    (hmiss : ∀ it ∈ items, ¬ Inside key it.1) : imapGet m key = .error .keyError := by
  obtain ⟨hacc, rfl⟩ := imapInit_ok items m h
  rcases imapGet_cases items hacc key with ⟨he, _⟩ | ⟨it', hit', hk, _, hget⟩
  · exact he
  · have := hmiss it' hit'
    unfold Inside at this
    rw [hget, if_pos (by omega)]

theorem imapContains_iff (items : List (Span × Nat)) (m : IMap) (h : imapInit items = .ok m) (key : Int) :
    imapContains m key = true ↔ ∃ it ∈ items, Inside key it.1 := by
  unfold imapContains
  constructor
  · intro hc
    apply Classical.byContradiction
    intro hn
    rw [imapGet_miss items m h key (fun it hit hin => hn ⟨it, hit, hin⟩)] at hc
    cases hc
  · rintro ⟨it, hit, hin⟩
    rw [imapGet_hit items m h key it hit hin]

/-! ### iteration -/

theorem filterMap_eq_map_of_mem {α β : Type} (f : α → Option β) (g : α → β) (l : List α)
    (h : ∀ a ∈ l, f a = some (g a)) : l.filterMap f = l.map g := by
  induction l with
  | nil => rfl
  | cons a l ih =>
    rw [List.filterMap_cons, h a (by simp), List.map_cons, ih (fun b hb => h b (by simp [hb]))]

theorem filterMap_map_of_mem {α β γ : Type} (f : α → Option β) (k : β → γ) (c : α → γ) (l : List α)
    (h : ∀ a ∈ l, ∃ q, f a = some q ∧ k q = c a) : (l.filterMap f).map k = l.map c := by
  induction l with
  | nil => rfl
  | cons a l ih =>
    obtain ⟨q, hq, hk⟩ := h a (by simp)
    rw [List.filterMap_cons, hq, List.map_cons, List.map_cons, hk, ih (fun b hb => h b (by simp [hb]))]

/-- the item read back for an `(end, position)` pair -/
def readItem (items : List (Span × Nat)) (p : Int × Nat) : Option (Span × Nat) :=
  match (mkMap items).starts[p.2]?, (mkMap items).vals[p.2]? with
  | some s, some v => some ((s, p.1), v)
  | _, _ => none

theorem imapIter_eq (items : List (Span × Nat)) :
    imapIter (mkMap items) = (sortedPairs items).filterMap (readItem items) := by
  obtain ⟨_, _, he, hi⟩ := mkMap_fields items
  unfold imapIter
  rw [he, hi, List.zip_map', List.filterMap_map]
  rfl

theorem readItem_zipIdx (items : List (Span × Nat)) :
    ((items.map (·.1.2)).zipIdx).filterMap (readItem items) = items := by
  rw [List.zipIdx_map, List.filterMap_map]
  rw [filterMap_eq_map_of_mem _ (·.1) items.zipIdx, List.zipIdx_map_fst]
  intro q hq
  rw [List.mem_zipIdx_iff_getElem?] at hq
  exact readback items (q.1.1.2, q.2) q.1 hq rfl

theorem starts_ascending (l : List (Span × Nat)) (hv : ∀ it ∈ l, it.1.1 ≤ it.1.2)
    (ha : (l.map (·.1)).Pairwise Apart) (he : (l.map (·.1.2)).Pairwise (· < ·)) :
    (l.map (·.1.1)).Pairwise (· < ·) := by
  rw [List.pairwise_map] at *
  refine (ha.and he).imp_of_mem ?_
  intro a b hma hmb ⟨h1, h2⟩
  have := hv a hma; have := hv b hmb
  unfold Apart at h1; omega

/-- iteration lists every `(interval, value)` once, in ascending order -/
theorem imapIter_spec (items : List (Span × Nat)) (m : IMap) (h : imapInit items = .ok m) :
    (imapIter m).Perm items ∧ ((imapIter m).map (·.1.2)).Pairwise (· < ·) ∧
    ((imapIter m).map (·.1.1)).Pairwise (· < ·) := by
  obtain ⟨hacc, rfl⟩ := imapInit_ok items m h
  have hperm : (imapIter (mkMap items)).Perm items := by
    rw [imapIter_eq]
    have := (sp_perm items).filterMap (readItem items)
    rw [readItem_zipIdx] at this
    exact this
  have hends : (imapIter (mkMap items)).map (·.1.2) = (sortedPairs items).map (·.1) := by
    rw [imapIter_eq]
    apply filterMap_map_of_mem
    intro p hp
    obtain ⟨it, h1, h2⟩ := sp_mem items p hp
    exact ⟨it, readback items p it h1 h2, h2⟩
  have hasc : ((imapIter (mkMap items)).map (·.1.2)).Pairwise (· < ·) := by
    rw [hends]; exact sp_strict items hacc
  refine ⟨hperm, hasc, ?_⟩
  apply starts_ascending _ _ _ hasc
  · intro it hit
    exact hacc.1 it (hperm.mem_iff.1 hit)
  · exact (hperm.symm.map (·.1)).pairwise hacc.2 (fun h => apart_symm h)

end WindVerif.SpanSet
