import WindVerif.Spec.Pool
import WindVerif.Proofs.PoolLifeAux3
/-! Liveness of the pool model (C02): the liveness invariant `LiveInv` and basic facts. -/
namespace WindVerif.Pool

/-! ### classes of consumer / worker pcs -/

/-- the consumer holds the lock -/
def cIn : CPc → Bool
  | .qsize2 | .getNowait | .lockRel => true
  | _ => false

/-- a worker holds the lock -/
def wIn : WPc → Bool
  | .putNowait | .lockRel => true
  | _ => false

/-- in a factory pool the replace thread is alive and has no stop token -/
def rCall : CPc → Bool
  | .fInitSet | .wrSending | .wrDataCnt | .fStart | .rdSending | .rdDataCnt | .qsize1 | .lockAcq | .qsize2 | .getNowait
  | .lockRel | .getBlock | .flowClear | .flowIsSet | .flowSet | .fStopSet | .fJoin | .rPutNone | .midReady _ _ => true
  | _ => false

def rStopping : CPc → Bool
  | .rStopSet | .rJoin => true
  | _ => false

def exitPhasePc : CPc → Bool
  | .exitPut _ | .exitJoin _ | .done => true
  | _ => false

def setupPc : CPc → Bool
  | .rInitSet | .rStart | .fInitSet | .wrSending | .wrDataCnt | .fStart => true
  | _ => false

def runSetPc : CPc → Bool
  | .wrSending | .wrDataCnt | .fStart => true
  | _ => false

def getPathPc : CPc → Bool
  | .qsize1 | .lockAcq | .qsize2 | .getNowait | .lockRel | .getBlock => true
  | _ => false

def loopPc : CPc → Bool
  | .rdSending | .rdDataCnt | .qsize1 | .lockAcq | .qsize2 | .getNowait | .lockRel | .getBlock
  | .flowClear | .flowIsSet | .flowSet => true
  | _ => false

def flowChk : CPc → Bool
  | .flowIsSet | .flowSet => true
  | _ => false

/-- workers that have not left their loop (`gone`: exited, or only `end()` left) -/
def liveCnt (s : St) : Nat := s.workers.countP (fun w => !gone w.pc)

/-- no worker is inside `end()` (between the end of its loop and its exit) -/
def NoEnding (s : St) : Prop := ∀ w ∈ s.workers, w.pc ≠ .ending

theorem exited_of_gone_noEnding {s : St} (hE : NoEnding s) {w : Worker} (hw : w ∈ s.workers) (hg : gone w.pc = true) :
    w.pc = .exited := by
  cases hpc : w.pc <;> rw [hpc] at hg <;> first | rfl | cases hg | skip
  exact absurd hpc (hE w hw)

theorem not_gone_of_ne {w : Worker} (h1 : w.pc ≠ .exited) (h2 : w.pc ≠ .ending) : gone w.pc = false := by
  cases hpc : w.pc <;> first | rfl | exact absurd hpc h1 | exact absurd hpc h2

/-- stop orders `__exit__` has put so far -/
def stopsV (c : CPc) (n : Nat) : Nat :=
  match c with
  | .exitPut i => i
  | .exitJoin _ | .done => n
  | _ => 0

def stopsSent (s : St) : Nat := stopsV s.cpc s.procs.length

/-- the index the consumer uses into `procs` is valid -/
def idxV (c : CPc) (n : Nat) : Prop :=
  match c with
  | .enterStart i | .readyWait i | .exitPut i | .exitJoin i => i < n
  | _ => True

/-! ### the invariant -/

/-- lock discipline, chunks in workers' hands -/
structure LockI (s : St) : Prop where
  lockH : ∀ t, s.lock = some t → (t = .c ∧ cIn s.cpc = true) ∨ ∃ w ∈ s.workers, t = .w w.wid ∧ wIn w.pc = true
  lockC : cIn s.cpc = true → s.lock = some .c
  lockW : ∀ w ∈ s.workers, wIn w.pc = true → s.lock = some (.w w.wid)
  heldOf : ∀ w ∈ s.workers, (w.pc = .lockAcq ∨ w.pc = .putNowait ∨ w.pc = .putBlock ∨ (w.pc = .lockRel ∧ w.full = true)) →
    w.held.isSome

/-- listed workers -/
structure ProcI (s : St) : Prop where
  procsEx : ∀ wid ∈ s.procs, ∃ w ∈ s.workers, w.wid = wid
  procsLen : s.procs.length = s.cfg.nWorkers
  idx : idxV s.cpc s.procs.length
  rStartIn : ∀ nw, s.rpc = .start nw → nw ∈ s.procs
  bfPc : ∀ w ∈ s.workers, w.bf = false → (w.pc = .notStarted ∨ w.pc = .bfClear ∨ w.pc = .bfSet)
  retireF : ∀ w ∈ s.workers, w.pc = .retire → s.cfg.factory = true

/-- the replace thread and exits of workers -/
structure ReplI (s : St) : Prop where
  rLive : s.cfg.factory = true → rCall s.cpc = true → s.rAlive = true
  rNotIdle : s.rAlive = true → s.rpc ≠ .idle
  tokR : noneCount s.replQ = if rStopping s.cpc = true ∧ s.rAlive = true then 1 else 0
  exitedL : ∀ w ∈ s.workers, gone w.pc = true → w.wid ∈ s.procs →
    exitPhasePc s.cpc = true ∨ (s.cfg.factory = true ∧ w.wid ∈ pending s)
  noStop : exitPhasePc s.cpc = false → none ∉ s.workQ
  rFac : (s.cpc = .rPutNone ∨ s.cpc = .rStopSet ∨ s.cpc = .rJoin) → s.cfg.factory = true

/-- the consumer's side: tokens, reorder buffer, flow control -/
structure ConsI (s : St) : Prop where
  curSome : setupPc s.cpc = true → s.cur.isSome
  curNone : exitPhasePc s.cpc = true → s.cur = none
  wokenPc : s.woken = true → cIn s.cpc = true
  token : getPathPc s.cpc = true → s.batch = [] → s.woken = false → s.fpc = .idle → s.finished = s.fTotal → none ∈ s.resQ
  wfBuf : s.wf ∉ s.buffer
  flow : loopPc s.cpc = true → flowChk s.cpc = false → (s.fRun = false ∨ s.cpc = .flowClear) → bufferFull s = true
  runSetup : runSetPc s.cpc = true → s.fRun = true

/-- counting live workers against stop orders -/
structure CntI (s : St) : Prop where
  cnt1 : liveCnt s + (pending s).length ≤ s.procs.length
  cnt2 : exitPhasePc s.cpc = true → liveCnt s + stopsSent s ≤ noneCount s.workQ + s.procs.length
  cnt3 : exitPhasePc s.cpc = true → noneCount s.workQ ≤ stopsSent s
  cnt4 : s.cfg.factory = false → noneCount s.workQ + s.procs.length ≤ liveCnt s + stopsSent s

structure LiveInv (s : St) : Prop where
  lk : LockI s
  pr : ProcI s
  rp : ReplI s
  cs : ConsI s
  ct : CntI s

/-- the mid-call `until_all_ready()`: the worker the consumer is about to wait for exists; flow control is engaged only in
an ordered call (kept beside `LiveInv`: it talks about the `midReady` pcs only) -/
structure MidI (s : St) : Prop where
  ex : ∀ i wid, s.cpc = .midReady i wid → ∃ w ∈ s.workers, w.wid = wid
  flow : ∀ i wid, s.cpc = .midReady i wid → s.fRun = false → ∃ c, s.cur = some c ∧ c.ordered = true

/-! ### basic facts -/

theorem getWorker_of_mem {s : St} (hnd : (s.workers.map (·.wid)).Nodup) {w : Worker} (hw : w ∈ s.workers) :
    getWorker s w.wid = some w := by
  unfold getWorker
  cases h : s.workers.find? (·.wid = w.wid) with
  | none =>
    rw [List.find?_eq_none] at h
    have := h w hw
    simp at this
  | some x =>
    have hx := List.mem_of_find?_eq_some h
    have hxw : x.wid = w.wid := by simpa using List.find?_some h
    rw [wid_inj hnd hx hw hxw]

theorem getWorker_of_mem' {s : St} (hnd : (s.workers.map (·.wid)).Nodup) {w : Worker} {wid : Nat} (hw : w ∈ s.workers)
    (h : w.wid = wid) : getWorker s wid = some w := by
  subst h; exact getWorker_of_mem hnd hw

/-- every listed worker has an exit code (the test of the repaired `__exit__` on a full queue) ⇒ nobody is alive:
a worker that has not exited is listed -/
theorem liveCnt_zero_of_all {s : St} (hL : LInv s) (h : s.procs.all (workerExited s) = true) : liveCnt s = 0 := by
  unfold liveCnt
  rw [List.countP_eq_zero]
  intro w hw hp
  have hne : gone w.pc = false := by simpa using hp
  have hex := List.all_eq_true.1 h w.wid (hL.listed w hw hne)
  unfold workerExited at hex
  rw [getWorker_of_mem hL.nodup hw] at hex
  exact not_exited_of_not_gone hne (by simpa using hex)

/-- and conversely -/
theorem all_exited_of_liveCnt_zero {s : St} (hL : LInv s) (hE : NoEnding s)
    (hpr : ∀ wid ∈ s.procs, ∃ w ∈ s.workers, w.wid = wid)
    (h : liveCnt s = 0) : s.procs.all (workerExited s) = true := by
  rw [List.all_eq_true]
  intro wid hwid
  obtain ⟨w, hw, hww⟩ := hpr wid hwid
  unfold liveCnt at h
  rw [List.countP_eq_zero] at h
  have hpc : w.pc = .exited := exited_of_gone_noEnding hE hw (by simpa using h w hw)
  unfold workerExited
  rw [getWorker_of_mem' hL.nodup hw hww]
  simp [hpc]

theorem capFull_nil (cap : Option Nat) : capFull cap [] = false := by
  cases cap <;> simp [capFull] <;> omega

theorem ne_nil_of_capFull {cap : Option Nat} {q : List (Option Nat)} (h : capFull cap q = true) : q ≠ [] := by
  intro hq; subst hq; rw [capFull_nil] at h; cases h

theorem noneCount_eq_length {q : List (Option Nat)} (h : chunksOf q = []) : noneCount q = q.length := by
  induction q with
  | nil => rfl
  | cons a r ih =>
    cases a with
    | none =>
      have : chunksOf r = [] := by simpa [chunksOf] using h
      simp only [noneCount, List.filter_cons, Option.isNone_none, if_true, List.length_cons] at ih ⊢
      rw [ih this]
    | some i => simp [chunksOf] at h

theorem noneCount_le_length (q : List (Option Nat)) : noneCount q ≤ q.length := by
  unfold noneCount; exact List.length_filter_le _ _

theorem ne_nil_of_noneCount_pos {q : List (Option Nat)} (h : 0 < noneCount q) : q ≠ [] := by
  intro hq; subst hq; simp [noneCount] at h

theorem pending_mem_of_replQ {s : St} {wid : Nat} (h : some wid ∈ s.replQ) : wid ∈ pending s := by
  unfold pending
  apply List.mem_append_right
  exact List.mem_filterMap.2 ⟨some wid, h, rfl⟩

end WindVerif.Pool
