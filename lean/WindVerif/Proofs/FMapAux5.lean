import WindVerif.Proofs.FMapAux4
/-! Preservation of the invariant by the steps of the caller's thread. -/
namespace WindVerif.FMap

theorem no_notStarted {cfg : Cfg} {s : St} (h : Main cfg s) (hns : ∀ i, s.ppc ≠ .start i) :
    ∀ w ∈ s.workers, w.pc ≠ .notStarted := by
  intro w hw hp
  obtain ⟨i, hi, _⟩ := h.notStarted w hw hp
  exact hns i hi

/-- `put`: the chunk in P's hands goes to the work queue -/
theorem main_p_put {cfg : Cfg} {s : St} (h : Main cfg s) (hp : s.ppc = .put) :
    Main cfg { s with workQ := s.workQ ++ [some s.next], dataCnt := s.dataCnt + 1, ppc := .nowait } := by
  have hph := h.phase; unfold PhaseOK at hph; simp only [hp] at hph
  have hpost : posted cfg s.ppc = 0 := by simp [hp, posted]
  have hnn := h.nonone hpost
  exact {
    cfg_eq := h.cfg_eq
    wids := h.wids
    held_put := h.held_put
    cons := by
      have := h.cons.append_right [s.dataCnt]
      simp only [chunksQ_append, List.range_succ]
      refine List.Perm.trans ?_ this
      rw [hph.1]; simp only [chunksQ_some_cons, chunksQ_nil]
      perm_count
    fin := h.fin
    modeP := h.modeP
    modeF := h.modeF
    wfbuf := h.wfbuf
    count := by have := h.count; simpa [posted, hp] using this
    nonone := fun _ => by simpa using hnn
    sortedQ := by
      refine List.pairwise_append.2 ⟨h.sortedQ, by simp, ?_⟩
      intro a ha b _ hna; subst hna; exact absurd ha hnn
    exitedQ := fun hl => by have := h.count; rw [hpost] at this; change live s.workers < _ at hl; omega
    joinedEx := by have := h.joinedEx; simpa [joined, hp] using this
    notStarted := fun w hw hns => absurd hns (no_notStarted h (by simp [hp]) w hw)
    len := by
      rcases h.len with h' | h'
      · exact Or.inl h'
      · rw [hp] at h'; cases h'.2
    histDrop := h.histDrop
    histLe := h.histLe
    histTot := h.histTot
    outs := fun k => by have := h.outs k; simpa [cur, hp] using this
    phase := by
      show PhaseOK cfg _
      unfold PhaseOK; simp only
      exact ⟨by omega, hph.2.1, hph.2.2⟩ }

/-- a change of P's control state after an `Empty` -/
theorem main_ctrl {cfg : Cfg} {s : St} (h : Main cfg s) (X : PPc) (nx : Nat)
    (hposted : posted cfg X = posted cfg s.ppc) (hjoined : joined cfg X = joined cfg s.ppc)
    (hcur : cur cfg X s.total s.wf = cur cfg s.ppc s.total s.wf)
    (hns : ∀ i, s.ppc ≠ .start i) (hnd : s.ppc ≠ .done)
    (hph : PhaseOK cfg { s with next := nx, ppc := X }) : Main cfg { s with next := nx, ppc := X } :=
  { cfg_eq := h.cfg_eq
    wids := h.wids
    held_put := h.held_put
    cons := h.cons
    fin := h.fin
    modeP := h.modeP
    modeF := h.modeF
    wfbuf := h.wfbuf
    count := by show _ + posted cfg X = _; rw [hposted]; exact h.count
    nonone := by show posted cfg X = 0 → _; rw [hposted]; exact h.nonone
    sortedQ := h.sortedQ
    exitedQ := h.exitedQ
    joinedEx := by show ∀ w ∈ s.workers, w.wid < s.base + joined cfg X → _; rw [hjoined]; exact h.joinedEx
    notStarted := fun w hw hp => absurd hp (no_notStarted h hns w hw)
    len := by
      rcases h.len with h' | h'
      · exact Or.inl h'
      · exact absurd h'.2 hnd
    histDrop := h.histDrop
    histLe := h.histLe
    histTot := h.histTot
    outs := fun k => by show outK s.out k = expOut cfg s.callNo (cur cfg X s.total s.wf) k; rw [hcur]; exact h.outs k
    phase := hph }

/-- `stopPut`: one more stop order in the work queue -/
theorem main_p_stop {cfg : Cfg} {s : St} {i : Nat} (h : Main cfg s) (hp : s.ppc = .stopPut i) (X : PPc)
    (hposted : posted cfg X = i + 1) (hjoined : joined cfg X = 0)
    (hcur : cur cfg X s.total s.wf = cur cfg (.stopPut i) s.total s.wf)
    (hph : PhaseOK cfg { s with workQ := s.workQ ++ [none], ppc := X }) :
    Main cfg { s with workQ := s.workQ ++ [none], ppc := X } :=
  { cfg_eq := h.cfg_eq
    wids := h.wids
    held_put := h.held_put
    cons := by have := h.cons; simpa using this
    fin := h.fin
    modeP := h.modeP
    modeF := h.modeF
    wfbuf := h.wfbuf
    count := by
      show _ + posted cfg X = _
      have := h.count; rw [hp] at this; simp only [posted] at this
      rw [hposted]; simp; omega
    nonone := by show posted cfg X = 0 → _; rw [hposted]; intro h0; omega
    sortedQ := by
      refine List.pairwise_append.2 ⟨h.sortedQ, by simp, ?_⟩
      intro a _ b hb _; simpa using hb
    exitedQ := fun hl x hx => by
      rcases List.mem_append.1 hx with hx | hx
      · exact h.exitedQ hl x hx
      · simpa using hx
    joinedEx := by
      show ∀ w ∈ s.workers, w.wid < s.base + joined cfg X → _
      rw [hjoined]; have := h.joinedEx; simpa [joined, hp] using this
    notStarted := fun w hw hns => absurd hns (no_notStarted h (by simp [hp]) w hw)
    len := by
      rcases h.len with h' | h'
      · exact Or.inl h'
      · rw [hp] at h'; cases h'.2
    histDrop := h.histDrop
    histLe := h.histLe
    histTot := h.histTot
    outs := fun k => by
      show outK s.out k = expOut cfg s.callNo (cur cfg X s.total s.wf) k
      rw [hcur]; have := h.outs k; rw [hp] at this; exact this
    phase := hph }

/-- the join of worker `base + i` succeeded: it has exited -/
theorem joined_succ {cfg : Cfg} {s : St} {i : Nat} (h : Main cfg s) (hp : s.ppc = .join i)
    (hex : exitedW s (s.base + i) = true) : ∀ w ∈ s.workers, w.wid < s.base + (i + 1) → w.pc = .exited := by
  intro w hw hlt
  by_cases hlt' : w.wid < s.base + i
  · have := h.joinedEx w hw; rw [hp] at this; exact this hlt'
  · have hwid : w.wid = s.base + i := by omega
    have hf := find_wid_of_mem (wids_nodup h.wids) hw
    unfold exitedW getWorker at hex
    rw [← hwid, hf] at hex
    simpa using hex

theorem main_p_join {cfg : Cfg} {s : St} {i : Nat} (h : Main cfg s) (hp : s.ppc = .join i)
    (hex : exitedW s (s.base + i) = true) (X : PPc) (hposted : posted cfg X = cfg.nWorkers)
    (hjoined : joined cfg X = i + 1) (hcur : cur cfg X s.total s.wf = cur cfg (.join i) s.total s.wf)
    (hlen : s.workers.length = s.base + cfg.nWorkers → s.workers.length = s.base + cfg.nWorkers ∨ s.workers = [] ∧ X = .done)
    (hph : PhaseOK cfg { s with ppc := X }) : Main cfg { s with ppc := X } :=
  { cfg_eq := h.cfg_eq
    wids := h.wids
    held_put := h.held_put
    cons := h.cons
    fin := h.fin
    modeP := h.modeP
    modeF := h.modeF
    wfbuf := h.wfbuf
    count := by
      show _ + posted cfg X = _
      have := h.count; rw [hp] at this; simp only [posted] at this
      rw [hposted]; exact this
    nonone := by
      show posted cfg X = 0 → _; rw [hposted]
      have := h.nonone; rw [hp] at this; exact this
    sortedQ := h.sortedQ
    exitedQ := h.exitedQ
    joinedEx := by
      show ∀ w ∈ s.workers, w.wid < s.base + joined cfg X → _
      rw [hjoined]; exact joined_succ h hp hex
    notStarted := fun w hw hns => absurd hns (no_notStarted h (by simp [hp]) w hw)
    len := by
      rcases h.len with h' | h'
      · exact hlen h'
      · rw [hp] at h'; cases h'.2
    histDrop := h.histDrop
    histLe := h.histLe
    histTot := h.histTot
    outs := fun k => by
      show outK s.out k = expOut cfg s.callNo (cur cfg X s.total s.wf) k
      rw [hcur]; have := h.outs k; rw [hp] at this; exact this
    phase := hph }

/-- facts about the worker started by `start i` -/
theorem start_facts {cfg : Cfg} {s : St} {i : Nat} {w : Worker} (h : Main cfg s) (hp : s.ppc = .start i)
    (hg : getWorker s (s.base + i) = some w) :
    ∃ l1 l2, s.workers = l1 ++ w :: l2 ∧
      setWorker s { w with pc := .get } = { s with workers := l1 ++ { w with pc := .get } :: l2 } ∧
      w.pc = .notStarted ∧ w.held = none ∧ w.wid = s.base + i ∧
      (∀ x ∈ l1 ++ { w with pc := .get } :: l2, x.pc = .notStarted → s.base + (i + 1) ≤ x.wid) ∧
      (∀ x ∈ l1 ++ { w with pc := .get } :: l2, s.base + (i + 1) ≤ x.wid → x.pc = .notStarted) := by
  have hph := h.phase; unfold PhaseOK at hph; simp only [hp] at hph
  obtain ⟨l1, l2, hws, hwid, hset⟩ := workers_decomp (wids_nodup h.wids) hg
  have hst : setWorker s { w with pc := .get } = { s with workers := l1 ++ { w with pc := .get } :: l2 } := by
    have e := hset { w with pc := .get } hwid
    dsimp only at e
    simp only [setWorker, e]
  have hwm : w ∈ s.workers := by simp [hws]
  have hwpc : w.pc = .notStarted := hph.2.2.2.2.2.2 w hwm (by omega)
  have hwh : w.held = none := by
    have := h.held_put w hwm; rw [hwpc] at this; simp at this; exact this
  have hnd := wids_nodup h.wids
  rw [hws] at hnd
  simp only [List.map_append, List.map_cons, List.nodup_append, List.nodup_cons, List.mem_map, List.mem_cons] at hnd
  have hne : ∀ x, x ∈ l1 ∨ x ∈ l2 → x.wid ≠ w.wid := by
    intro x hx heq
    rcases hx with hx | hx
    · exact hnd.2.2 x.wid ⟨x, hx, rfl⟩ w.wid (Or.inl rfl) heq
    · exact hnd.2.1.1 ⟨x, hx, heq⟩
  refine ⟨l1, l2, hws, hst, hwpc, hwh, hwid, ?_, ?_⟩
  · intro x hx hxp
    simp only [List.mem_append, List.mem_cons] at hx
    rcases hx with hx | rfl | hx
    · obtain ⟨j, hj, hle⟩ := h.notStarted x (by simp [hws, hx]) hxp
      rw [hp] at hj; cases hj
      have := hne x (Or.inl hx); omega
    · cases hxp
    · obtain ⟨j, hj, hle⟩ := h.notStarted x (by simp [hws, hx]) hxp
      rw [hp] at hj; cases hj
      have := hne x (Or.inr hx); omega
  · intro x hx hle
    simp only [List.mem_append, List.mem_cons] at hx
    rcases hx with hx | rfl | hx
    · exact hph.2.2.2.2.2.2 x (by simp [hws, hx]) (by omega)
    · simp at hle; omega
    · exact hph.2.2.2.2.2.2 x (by simp [hws, hx]) (by omega)

theorem main_p_start {cfg : Cfg} {s : St} {i : Nat} {w : Worker} {l1 l2 : List Worker} (h : Main cfg s)
    (hp : s.ppc = .start i) (hws : s.workers = l1 ++ w :: l2) (hwpc : w.pc = .notStarted) (hwh : w.held = none)
    (hwid : w.wid = s.base + i) (X : PPc) (hposted : posted cfg X = 0) (hjoined : joined cfg X = 0)
    (hcur : cur cfg X s.total s.wf = cur cfg (.start i) s.total s.wf)
    (hns : ∀ x ∈ l1 ++ { w with pc := .get } :: l2, x.pc = .notStarted → ∃ j, X = .start j ∧ s.base + j ≤ x.wid)
    (hph : PhaseOK cfg { s with workers := l1 ++ { w with pc := .get } :: l2, ppc := X }) :
    Main cfg { s with workers := l1 ++ { w with pc := .get } :: l2, ppc := X } := by
  have hlive : live (l1 ++ { w with pc := .get } :: l2) = live s.workers := by
    rw [hws]; simp [live_cons, hwpc]
  have hpost : posted cfg s.ppc = 0 := by simp [hp, posted]
  exact {
    cfg_eq := h.cfg_eq
    wids := by have := h.wids; rw [hws] at this; simpa using this
    held_put := repl_forall (hws ▸ h.held_put) (by simp [hwh])
    cons := by have := h.cons; rw [hws] at this; simpa [heldL_cons, hwh] using this
    fin := h.fin
    modeP := h.modeP
    modeF := h.modeF
    wfbuf := h.wfbuf
    count := by
      show live (l1 ++ _ :: l2) + posted cfg X = _
      rw [hlive, hposted, ← hpost]; exact h.count
    nonone := fun _ => h.nonone hpost
    sortedQ := h.sortedQ
    exitedQ := fun hl => by
      change live (l1 ++ _ :: l2) < _ at hl
      rw [hlive] at hl; exact h.exitedQ hl
    joinedEx := by
      show ∀ x ∈ l1 ++ _ :: l2, x.wid < s.base + joined cfg X → _
      rw [hjoined]
      have := h.joinedEx; rw [hp, hws] at this
      exact repl_forall this (fun hlt => by have : w.wid < s.base + 0 := hlt; omega)
    notStarted := hns
    len := by have := h.len; rw [hws, hp] at this; left; simpa using this
    histDrop := h.histDrop
    histLe := h.histLe
    histTot := h.histTot
    outs := fun k => by
      show outK s.out k = expOut cfg s.callNo (cur cfg X s.total s.wf) k
      rw [hcur]; have := h.outs k; rw [hp] at this; exact this
    phase := hph }

end WindVerif.FMap
