import WindVerif.Model.ScanSteps
import WindVerif.Proofs.Combos
/-!
How many elements of the sorted stream `min_combinations_in_interval_iter_sorted` pulls (C17).
-/
namespace WindVerif.Generic

theorem scanSteps_cons (iStart iEnd : Int) (res : List (List Nat × Nat)) (c : List Nat) (s : Nat)
    (r : List (List Nat × Nat)) :
    scanSteps iStart iEnd res ((c, s) :: r) =
      if stopCond iEnd res s then 1
      else if iStart ≤ (s : Int) ∧ (s : Int) < iEnd then scanSteps iStart iEnd (res ++ [(c, s)]) r + 1
      else scanSteps iStart iEnd res r + 1 := rfl

theorem minCombScanSteps_cons (iStart iEnd : Int) (res : List (List Nat × Nat)) (c : List Nat) (s : Nat)
    (r : List (List Nat × Nat)) :
    minCombScanSteps iStart iEnd res ((c, s) :: r) =
      if stopCond iEnd res s then (res, 1)
      else if iStart ≤ (s : Int) ∧ (s : Int) < iEnd then
        ((minCombScanSteps iStart iEnd (res ++ [(c, s)]) r).1, (minCombScanSteps iStart iEnd (res ++ [(c, s)]) r).2 + 1)
      else ((minCombScanSteps iStart iEnd res r).1, (minCombScanSteps iStart iEnd res r).2 + 1) := rfl

/-- the loop with both outputs is the scan of `minCombScan` together with the count `scanSteps` -/
theorem scan_steps_result (iStart iEnd : Int) :
    ∀ (stream res : List (List Nat × Nat)),
      minCombScanSteps iStart iEnd res stream = (minCombScan iStart iEnd res stream, scanSteps iStart iEnd res stream) := by
  intro l
  induction l with
  | nil => intro res; rfl
  | cons p r ih =>
    intro res
    obtain ⟨c, s⟩ := p
    rw [minCombScanSteps_cons, minCombScan_cons, scanSteps_cons]
    split
    · rfl
    · split
      · rw [ih]
      · rw [ih]

/-- the loop never pulls more than the stream holds -/
theorem steps_le_length (iStart iEnd : Int) :
    ∀ (stream res : List (List Nat × Nat)), scanSteps iStart iEnd res stream ≤ stream.length := by
  intro l
  induction l with
  | nil => intro res; simp [scanSteps]
  | cons p r ih =>
    intro res
    obtain ⟨c, s⟩ := p
    rw [scanSteps_cons]
    simp only [List.length_cons]
    split
    · omega
    · split
      · have := ih (res ++ [(c, s)]); omega
      · have := ih res; omega

/-- a non-empty stream is always looked at -/
theorem steps_pos (iStart iEnd : Int) (res : List (List Nat × Nat)) (p : List Nat × Nat) (r : List (List Nat × Nat)) :
    0 < scanSteps iStart iEnd res (p :: r) := by
  obtain ⟨c, s⟩ := p
  rw [scanSteps_cons]
  split
  · omega
  · split <;> omega

/-- the interval ends at or below the first sum: the loop breaks on the first element -/
theorem early_exit_first (iStart iEnd : Int) (stream : List (List Nat × Nat)) (p : List Nat × Nat)
    (hhead : stream.head? = some p) (hend : iEnd ≤ (p.2 : Int)) :
    scanSteps iStart iEnd [] stream = 1 ∧ minCombScan iStart iEnd [] stream = [] := by
  cases stream with
  | nil => simp at hhead
  | cons q r =>
    simp only [List.head?_cons, Option.some.injEq] at hhead
    subst hhead
    obtain ⟨c, s⟩ := q
    have hstop : stopCond iEnd [] s = true := by simp [stopCond]; exact hend
    rw [scanSteps_cons, minCombScan_cons, hstop]
    simp

/-- in a stream sorted by sum the first element carries the least sum -/
theorem sorted_head_least (stream : List (List Nat × Nat)) (p : List Nat × Nat)
    (hsorted : (stream.map (·.2)).Pairwise (· ≤ ·)) (hhead : stream.head? = some p) : ∀ q ∈ stream, p.2 ≤ q.2 := by
  cases stream with
  | nil => simp at hhead
  | cons x r =>
    simp only [List.head?_cons, Option.some.injEq] at hhead
    subst hhead
    simp only [List.map_cons, List.pairwise_cons, List.mem_map, forall_exists_index, and_imp,
      forall_apply_eq_imp_iff₂] at hsorted
    intro q hq
    rcases List.mem_cons.1 hq with rfl | hq
    · exact Nat.le_refl _
    · exact hsorted.1 q hq

/-- the interval ends at or below every sum of a non-empty stream (every inverted or empty interval lying below the sums,
too): one element pulled, nothing returned -/
theorem early_exit_below_all (iStart iEnd : Int) (stream : List (List Nat × Nat)) (hne : stream ≠ [])
    (hend : ∀ p ∈ stream, iEnd ≤ (p.2 : Int)) :
    scanSteps iStart iEnd [] stream = 1 ∧ minCombScan iStart iEnd [] stream = [] := by
  cases stream with
  | nil => exact absurd rfl hne
  | cons q r => exact early_exit_first iStart iEnd (q :: r) q rfl (hend q List.mem_cons_self)

/-- second phase: something with the in-interval sum `k0` has been collected; the loop walks the block of sums `k0` and
breaks on the first larger sum -/
theorem steps_phase2 (iStart iEnd : Int) (k0 : Nat) (hk : iStart ≤ (k0 : Int) ∧ (k0 : Int) < iEnd) :
    ∀ (l res : List (List Nat × Nat)), res ≠ [] → (∀ r ∈ res, r.2 = k0) →
      (l.map (·.2)).Pairwise (· ≤ ·) → (∀ y ∈ l, k0 ≤ y.2) →
      scanSteps iStart iEnd res l = min (l.countP (fun p => decide (p.2 ≤ k0)) + 1) l.length := by
  intro l
  induction l with
  | nil => intro res _ _ _ _; simp [scanSteps]
  | cons p r ih =>
    intro res hne hres hsorted hlb
    obtain ⟨c, s⟩ := p
    rw [scanSteps_cons]
    have hstop : stopCond iEnd res s = decide (k0 < s) := by
      unfold stopCond
      cases hl : res.getLast? with
      | none => exact absurd (List.getLast?_eq_none_iff.1 hl) hne
      | some last =>
        obtain ⟨ys, hys⟩ := List.getLast?_eq_some_iff.1 hl
        have : last.2 = k0 := hres last (by simp [hys])
        simp only [this]
        by_cases h1 : k0 < s
        · simp [h1]
        · have : ¬ (iEnd ≤ (s : Int)) := by omega
          simp [h1, this]
    simp only [List.map_cons, List.pairwise_cons, List.mem_map, forall_exists_index, and_imp,
      forall_apply_eq_imp_iff₂] at hsorted
    have hs0 : k0 ≤ s := hlb (c, s) List.mem_cons_self
    rw [hstop]
    by_cases h1 : k0 < s
    · have hcount : (((c, s) :: r).countP (fun p => decide (p.2 ≤ k0))) = 0 := by
        rw [List.countP_eq_zero]
        intro y hy
        rcases List.mem_cons.1 hy with rfl | hy
        · simp; omega
        · have := hsorted.1 y hy
          simp; omega
      rw [hcount]
      simp only [h1, decide_true, if_true, List.length_cons]
      omega
    · have hs : s = k0 := by omega
      subst hs
      simp only [h1, decide_false, Bool.false_eq_true, if_false, hk, and_self, if_true]
      rw [ih (res ++ [(c, s)]) (by simp) (by
            intro y hy
            rcases List.mem_append.1 hy with hy | hy
            · exact hres y hy
            · simp at hy; subst hy; rfl) hsorted.2 (fun y hy => hlb y (List.mem_cons_of_mem _ hy))]
      rw [List.countP_cons_of_pos (by simp)]
      simp only [List.length_cons]
      omega

/-- `k` is the least sum of the stream that lies in `[iStart, iEnd)` -/
def LeastIn (iStart iEnd : Int) (l : List (List Nat × Nat)) (k : Nat) : Prop :=
  (∃ p ∈ l, p.2 = k) ∧ iStart ≤ (k : Int) ∧ (k : Int) < iEnd ∧
    ∀ y ∈ l, iStart ≤ (y.2 : Int) → (y.2 : Int) < iEnd → k ≤ y.2

/-- over a sorted stream holding a sum in the interval, with `k` the least such sum: the loop pulls the elements with a sum
`≤ k` and one more (the first larger sum, on which it breaks), or the whole stream when there is no larger sum -/
theorem exit_after_min_block (iStart iEnd : Int) :
    ∀ (l : List (List Nat × Nat)) (k : Nat), (l.map (·.2)).Pairwise (· ≤ ·) → LeastIn iStart iEnd l k →
      scanSteps iStart iEnd [] l = min (l.countP (fun p => decide (p.2 ≤ k)) + 1) l.length := by
  intro l
  induction l with
  | nil => intro k _ h; obtain ⟨⟨p, hp, _⟩, _⟩ := h; simp at hp
  | cons p r ih =>
    intro k hsorted hleast
    obtain ⟨c, s⟩ := p
    obtain ⟨⟨q, hq, hqk⟩, hk1, hk2, hmin⟩ := hleast
    simp only [List.map_cons, List.pairwise_cons, List.mem_map, forall_exists_index, and_imp,
      forall_apply_eq_imp_iff₂] at hsorted
    have hsk : s ≤ k := by
      rcases List.mem_cons.1 hq with rfl | hq
      · simp at hqk; omega
      · have := hsorted.1 q hq; omega
    rw [scanSteps_cons]
    have hstop : stopCond iEnd [] s = false := by
      simp [stopCond]; omega
    rw [hstop]
    simp only [Bool.false_eq_true, if_false]
    by_cases h2 : iStart ≤ (s : Int) ∧ (s : Int) < iEnd
    · have hks : k ≤ s := by
        have := hmin (c, s) List.mem_cons_self h2.1 h2.2
        simpa using this
      have hs : s = k := by omega
      subst hs
      simp only [h2, and_self, if_true]
      rw [steps_phase2 iStart iEnd s h2 r ([] ++ [(c, s)]) (by simp) (by simp) hsorted.2 hsorted.1]
      rw [List.countP_cons_of_pos (by simp)]
      simp only [List.length_cons]
      omega
    · simp only [h2, if_false]
      have hne : s ≠ k := by
        intro h; subst h; exact h2 ⟨hk1, hk2⟩
      have hq' : q ∈ r := by
        rcases List.mem_cons.1 hq with rfl | hq
        · simp at hqk; exact absurd hqk hne
        · exact hq
      rw [ih k hsorted.2 ⟨⟨q, hq', hqk⟩, hk1, hk2, fun y hy => hmin y (List.mem_cons_of_mem _ hy)⟩]
      rw [List.countP_cons_of_pos (by simp; omega)]
      simp only [List.length_cons]
      omega

/-- … a larger sum exists: the block of sums `≤ k` and the first larger one -/
theorem exit_after_min_block_larger (iStart iEnd : Int) (l : List (List Nat × Nat)) (k : Nat)
    (hsorted : (l.map (·.2)).Pairwise (· ≤ ·)) (hleast : LeastIn iStart iEnd l k) (hlarger : ∃ p ∈ l, k < p.2) :
    scanSteps iStart iEnd [] l = l.countP (fun p => decide (p.2 ≤ k)) + 1 := by
  rw [exit_after_min_block iStart iEnd l k hsorted hleast]
  have hle : l.countP (fun p => decide (p.2 ≤ k)) ≤ l.length := List.countP_le_length
  have hne : l.countP (fun p => decide (p.2 ≤ k)) ≠ l.length := by
    intro h
    obtain ⟨p, hp, hpk⟩ := hlarger
    have := (List.countP_eq_length.1 h) p hp
    simp at this; omega
  omega

/-- … no larger sum: the whole stream -/
theorem exit_after_min_block_all (iStart iEnd : Int) (l : List (List Nat × Nat)) (k : Nat)
    (hsorted : (l.map (·.2)).Pairwise (· ≤ ·)) (hleast : LeastIn iStart iEnd l k) (hall : ∀ p ∈ l, p.2 ≤ k) :
    scanSteps iStart iEnd [] l = l.length := by
  rw [exit_after_min_block iStart iEnd l k hsorted hleast]
  have : l.countP (fun p => decide (p.2 ≤ k)) = l.length := by
    rw [List.countP_eq_length]
    intro p hp
    simpa using hall p hp
  omega

/-- over a sorted stream with NO sum in the interval: the loop pulls the sums below `iEnd` and one more (the first sum
`≥ iEnd`, on which it breaks), or the whole stream when every sum is below `iEnd` -/
theorem exit_at_interval_end (iStart iEnd : Int) :
    ∀ (l : List (List Nat × Nat)), (l.map (·.2)).Pairwise (· ≤ ·) →
      (∀ y ∈ l, ¬ (iStart ≤ (y.2 : Int) ∧ (y.2 : Int) < iEnd)) →
      scanSteps iStart iEnd [] l = min (l.countP (fun p => decide ((p.2 : Int) < iEnd)) + 1) l.length := by
  intro l
  induction l with
  | nil => intro _ _; simp [scanSteps]
  | cons p r ih =>
    intro hsorted hnone
    obtain ⟨c, s⟩ := p
    simp only [List.map_cons, List.pairwise_cons, List.mem_map, forall_exists_index, and_imp,
      forall_apply_eq_imp_iff₂] at hsorted
    rw [scanSteps_cons]
    have hstop : stopCond iEnd [] s = decide (iEnd ≤ (s : Int)) := by simp [stopCond]
    rw [hstop]
    by_cases h1 : iEnd ≤ (s : Int)
    · have hcount : (((c, s) :: r).countP (fun p => decide ((p.2 : Int) < iEnd))) = 0 := by
        rw [List.countP_eq_zero]
        intro y hy
        rcases List.mem_cons.1 hy with rfl | hy
        · simp; omega
        · have := hsorted.1 y hy
          simp; omega
      rw [hcount]
      simp only [h1, decide_true, if_true, List.length_cons]
      omega
    · have h2 := hnone (c, s) List.mem_cons_self
      simp only [h1, decide_false, Bool.false_eq_true, if_false, h2]
      rw [ih hsorted.2 (fun y hy => hnone y (List.mem_cons_of_mem _ hy))]
      rw [List.countP_cons_of_pos (by simp; omega)]
      simp only [List.length_cons]
      omega

/-- in a list sorted by sum the elements with a sum `≤ k` come first -/
theorem take_countP_le (k : Nat) :
    ∀ (l : List (List Nat × Nat)), (l.map (·.2)).Pairwise (· ≤ ·) →
      ∀ p ∈ l.take (l.countP (fun p => decide (p.2 ≤ k))), p.2 ≤ k := by
  intro l
  induction l with
  | nil => intro _ p hp; simp at hp
  | cons q r ih =>
    intro hsorted p hp
    simp only [List.map_cons, List.pairwise_cons, List.mem_map, forall_exists_index, and_imp,
      forall_apply_eq_imp_iff₂] at hsorted
    by_cases hq : q.2 ≤ k
    · rw [List.countP_cons_of_pos (by simpa using hq), List.take_succ_cons] at hp
      rcases List.mem_cons.1 hp with rfl | hp
      · exact hq
      · exact ih hsorted.2 p hp
    · have hcount : ((q :: r).countP (fun p => decide (p.2 ≤ k))) = 0 := by
        rw [List.countP_eq_zero]
        intro y hy
        rcases List.mem_cons.1 hy with rfl | hy
        · simpa using hq
        · have := hsorted.1 y hy
          simp; omega
      rw [hcount] at hp
      simp at hp

/-- every element the loop looks at, except the last one, has a sum `≤` the least sum in the interval -/
theorem inspected_le_min (iStart iEnd : Int) (l : List (List Nat × Nat)) (k : Nat)
    (hsorted : (l.map (·.2)).Pairwise (· ≤ ·)) (hleast : LeastIn iStart iEnd l k) :
    ∀ p ∈ l.take (scanSteps iStart iEnd [] l - 1), p.2 ≤ k := by
  intro p hp
  have hle : scanSteps iStart iEnd [] l - 1 ≤ l.countP (fun p => decide (p.2 ≤ k)) := by
    rw [exit_after_min_block iStart iEnd l k hsorted hleast]; omega
  have hsub : (l.take (scanSteps iStart iEnd [] l - 1)).Sublist (l.take (l.countP (fun p => decide (p.2 ≤ k)))) :=
    (List.take_sublist_take_left hle)
  exact take_countP_le k l hsorted p (hsub.subset hp)

/-! ### the anchored call: the stream is `sortedCombinations scores` -/

theorem nil_mem_subsets (l : List Nat) : [] ∈ subsets l := by
  induction l with
  | nil => simp [subsets]
  | cons x r ih => simp [subsets, ih]

theorem sortedCombinations_ne_nil (scores : List Nat) (hne : scores ≠ []) : sortedCombinations scores ≠ [] := by
  intro h
  have hperm := combos_complete scores
  rw [h] at hperm
  have hnil : allCombos scores.length = [] := by simpa using hperm.symm
  have hmem : [0] ∈ allCombos scores.length := by
    cases scores with
    | nil => exact absurd rfl hne
    | cons a t =>
      simp only [allCombos, List.mem_filter]
      refine ⟨?_, by simp⟩
      simp only [List.length_cons, List.range_succ_eq_map, subsets]
      simp [nil_mem_subsets]
  rw [hnil] at hmem
  simp at hmem

/-- a combination's sum is at least one of the scores -/
theorem scoreSum_ge_of_mem_allCombos (scores : List Nat) (c : List Nat) (hc : c ∈ allCombos scores.length) :
    ∃ x ∈ scores, x ≤ scoreSum scores c := by
  simp only [allCombos, List.mem_filter] at hc
  obtain ⟨hsub, hne⟩ := hc
  cases c with
  | nil => simp at hne
  | cons a t =>
    have ha : a ∈ List.range scores.length := mem_of_mem_subsets hsub a List.mem_cons_self
    have ha' : a < scores.length := List.mem_range.1 ha
    refine ⟨scores[a], List.getElem_mem ha', ?_⟩
    simp only [scoreSum, List.map_cons, List.sum_cons]
    have : scores.getD a 0 = scores[a] := by simp [List.getD, ha']
    omega

/-- `min_combinations_in_interval_iter_sorted` with an interval that ends at or below the least score (inverted and empty
intervals there included): one combination is pulled from `sorted_combinations`, nothing is returned -/
theorem min_combinations_inverted_interval_steps (scores : List Nat) (iStart iEnd : Int) (hne : scores ≠ [])
    (hend : ∀ x ∈ scores, iEnd ≤ (x : Int)) :
    minCombinationsSteps scores iStart iEnd = 1 ∧ minCombinations scores iStart iEnd = [] := by
  unfold minCombinationsSteps minCombinations
  have hs := sortedCombinations_ne_nil scores hne
  cases hl : sortedCombinations scores with
  | nil => exact absurd hl hs
  | cons p r =>
    apply early_exit_first iStart iEnd (p :: r) p rfl
    obtain ⟨c, k⟩ := p
    have hmem : (c, k) ∈ sortedCombinations scores := by rw [hl]; exact List.mem_cons_self
    obtain ⟨hc, hk⟩ := (mem_sortedCombinations_iff scores c k).1 hmem
    obtain ⟨x, hx, hxk⟩ := scoreSum_ge_of_mem_allCombos scores c hc
    have := hend x hx
    simp only
    omega

/-- the same with the least score named through `List.min?` -/
theorem min_combinations_inverted_interval_steps_min (scores : List Nat) (iStart iEnd : Int) (m : Nat)
    (hmin : scores.min? = some m) (hend : iEnd ≤ (m : Int)) :
    minCombinationsSteps scores iStart iEnd = 1 ∧ minCombinations scores iStart iEnd = [] := by
  have hne : scores ≠ [] := by
    intro h; subst h; simp at hmin
  have hm := List.min?_eq_some_iff.1 hmin
  apply min_combinations_inverted_interval_steps scores iStart iEnd hne
  intro x hx
  have := hm.2 x hx
  omega

/-- for any interval: the anchored call pulls at most all `2^n - 1` combinations -/
theorem min_combinations_steps_le (scores : List Nat) (iStart iEnd : Int) :
    minCombinationsSteps scores iStart iEnd ≤ (sortedCombinations scores).length :=
  steps_le_length iStart iEnd _ []

/-! ### the early exit matters: the variant that tests `i_end` only for sums `≥ i_start` -/

/-- scores `[1, 1, 1, 1]`, interval `[100, 0)`: the loop breaks on the first combination, the variant walks all 15;
both return nothing -/
theorem early_exit_witness :
    scanSteps 100 0 [] (sortedCombinations [1, 1, 1, 1]) = 1 ∧
    scanStepsNoEarly 100 0 [] (sortedCombinations [1, 1, 1, 1]) = 15 ∧
    (sortedCombinations [1, 1, 1, 1]).length = 15 ∧
    (minCombScanNoEarly 100 0 [] (sortedCombinations [1, 1, 1, 1])).1 = minCombinations [1, 1, 1, 1] 100 0 := by
  decide

end WindVerif.Generic
