import WindVerif.Spec.CacheOps
import WindVerif.Proofs.Dll
/-! The dict + linked-list model of `LRUCache` simulates the abstract recency list. -/
namespace WindVerif.Cache
open WindVerif.Dll

/-! ### association lists without repeated keys -/

theorem nodup_of_map {α β} (f : α → β) {l : List α} (h : (l.map f).Nodup) : l.Nodup :=
  List.Pairwise.of_map f (fun _ _ hab he => hab (congrArg f he)) h

theorem inj_of_nodup_map {α β} {f : α → β} {l : List α} (h : (l.map f).Nodup) {a b : α} (ha : a ∈ l) (hb : b ∈ l)
    (he : f a = f b) : a = b := by
  induction l with
  | nil => simp at ha
  | cons x xs ih =>
    simp only [List.map_cons, List.nodup_cons, List.mem_map, not_exists, not_and] at h
    rcases List.mem_cons.1 ha with rfl | ha' <;> rcases List.mem_cons.1 hb with rfl | hb'
    · rfl
    · exact absurd he.symm (h.1 b hb')
    · exact absurd he (h.1 a ha')
    · exact ih h.2 ha' hb'

theorem al_lookup_of_mem {β} {L : List (Nat × β)} (hnd : (L.map (·.1)).Nodup) {a : Nat} {b : β}
    (h : (a, b) ∈ L) : L.lookup a = some b := by
  induction L with
  | nil => simp at h
  | cons p L ih =>
    obtain ⟨a', b'⟩ := p
    simp only [List.map_cons, List.nodup_cons, List.mem_map] at hnd
    rw [List.lookup_cons]
    rcases List.mem_cons.1 h with he | hm
    · cases he; simp
    · have hne : a ≠ a' := by
        rintro rfl; exact hnd.1 ⟨(a, b), hm, rfl⟩
      have hb : (a == a') = false := by simpa using hne
      rw [hb]; exact ih hnd.2 hm

theorem al_mem_of_lookup {β} {L : List (Nat × β)} {a : Nat} {b : β} (h : L.lookup a = some b) : (a, b) ∈ L := by
  obtain ⟨l1, l2, rfl, _⟩ := List.lookup_eq_some_iff.1 h
  simp

theorem al_lookup_none {β} {L : List (Nat × β)} {a : Nat} (h : ∀ b, (a, b) ∉ L) : L.lookup a = none := by
  rw [List.lookup_eq_none_iff]
  rintro ⟨a', b⟩ hp
  simp only [bne_iff_ne, ne_eq]
  rintro rfl
  exact h b hp

theorem al_lookup_isSome {β} {L : List (Nat × β)} {a : Nat} : (L.lookup a).isSome ↔ ∃ b, (a, b) ∈ L := by
  constructor
  · intro h
    obtain ⟨b, hb⟩ := Option.isSome_iff_exists.1 h
    exact ⟨b, al_mem_of_lookup hb⟩
  · rintro ⟨b, hb⟩
    cases hl : L.lookup a with
    | some _ => rfl
    | none =>
      rw [List.lookup_eq_none_iff] at hl
      simpa using hl _ hb

/-- filtering a key out of the image of a list under an injective-on-keys payload map = erasing its node -/
theorem map_erase_eq_without {l : List Node} {data : Node → Key × Val} {n : Node} {k : Key}
    (hnd : (l.map (fun n => (data n).1)).Nodup) (hn : n ∈ l) (hk : (data n).1 = k) :
    LruSpec.without (l.map data) k = (l.erase n).map data := by
  induction l with
  | nil => simp at hn
  | cons x xs ih =>
    simp only [List.map_cons, List.nodup_cons, List.mem_map, not_exists, not_and] at hnd
    by_cases hx : x = n
    · subst hx
      have : ∀ y ∈ xs, (data y).1 ≠ k := fun y hy he => hnd.1 y hy (he.trans hk.symm)
      simp only [LruSpec.without, List.map_cons, List.erase_cons_head]
      rw [List.filter_cons_of_neg (by simp [hk])]
      rw [List.filter_eq_self.2]
      intro p hp
      obtain ⟨y, hy, rfl⟩ := List.mem_map.1 hp
      simpa using this y hy
    · have hn' : n ∈ xs := by
        rcases List.mem_cons.1 hn with h | h
        · exact absurd h.symm hx
        · exact h
      have hxk : (data x).1 ≠ k := by
        intro he; exact hnd.1 n hn' (hk.trans he.symm)
      have := ih hnd.2 hn'
      simp only [LruSpec.without] at this ⊢
      rw [List.erase_cons_tail (by simpa using hx), List.map_cons, List.map_cons,
        List.filter_cons_of_pos (by simpa using hxk), this]

theorem erase_getLast_eq_dropLast {l : List Node} (hnd : l.Nodup) (hne : l ≠ []) :
    l.erase (l.getLast hne) = l.dropLast := by
  obtain ⟨m, a, rfl⟩ := exists_snoc hne
  have ha : a ∉ m := by
    intro h
    have := List.nodup_append.1 hnd
    exact this.2.2 a h a (by simp) rfl
  simp [List.erase_append_right _ ha]

/-! ### the invariant, unpacked -/

structure Core (s : Lru) (l : List Node) : Prop where
  rep  : Rep s.dll l
  keys : (l.map (fun n => (s.data n).1)).Nodup
  mem  : ∀ k n, (k, n) ∈ s.cache ↔ (n ∈ l ∧ (s.data n).1 = k)
  dict : (s.cache.map (·.1)).Nodup

theorem Core.len {s : Lru} {l : List Node} (c : Core s l) : s.cache.length = l.length := by
  have h1 : s.cache.Nodup := nodup_of_map _ c.dict
  have h2 : (l.map (fun n => ((s.data n).1, n))).Nodup := by
    refine nodup_of_map (·.2) ?_
    simpa [List.map_map, Function.comp_def] using c.rep.nodup
  have := ((List.perm_ext_iff_of_nodup h1 h2).2 ?_).length_eq
  · simpa using this
  · rintro ⟨k, n⟩
    rw [c.mem]
    simp only [List.mem_map, Prod.mk.injEq]
    constructor
    · rintro ⟨hn, hk⟩; exact ⟨n, hn, hk, rfl⟩
    · rintro ⟨a, ha, hk, rfl⟩; exact ⟨ha, hk⟩

theorem Core.inv {s : Lru} {l : List Node} (c : Core s l) (hc : 1 ≤ s.cap) (hl : l.length ≤ s.cap) : s.Inv :=
  ⟨hc, ⟨l, c.rep, hl, c.keys, c.mem, c.len⟩, c.dict⟩

theorem Lru.Inv.core {s : Lru} (h : s.Inv) : ∃ l, Core s l ∧ l.length ≤ s.cap := by
  obtain ⟨l, hr, hl, hk, hm, _⟩ := h.rep
  exact ⟨l, ⟨hr, hk, hm, h.dict⟩, hl⟩

theorem walk_of_rep {d : Dll} {l : List Node} (h : Rep d l) : walkF d d.size.toNat d.head = l := by
  have := walkF_eq d l h 0
  rw [h.size]
  simpa using this

theorem Core.abs {s : Lru} {l : List Node} (c : Core s l) : s.abs = l.map s.data := by
  rw [Lru.abs, walk_of_rep c.rep]

/-- key of a node determines the node -/
theorem Core.inj {s : Lru} {l : List Node} (c : Core s l) {a b : Node} (ha : a ∈ l) (hb : b ∈ l)
    (h : (s.data a).1 = (s.data b).1) : a = b :=
  inj_of_nodup_map c.keys ha hb h

theorem Core.get_some {s : Lru} {l : List Node} (c : Core s l) {k : Key} {n : Node} :
    dictGet s.cache k = some n ↔ n ∈ l ∧ (s.data n).1 = k := by
  rw [← c.mem]
  exact ⟨al_mem_of_lookup, al_lookup_of_mem c.dict⟩

theorem Core.get_none {s : Lru} {l : List Node} (c : Core s l) {k : Key} :
    dictGet s.cache k = none ↔ ∀ n ∈ l, (s.data n).1 ≠ k := by
  constructor
  · intro h n hn hk
    have := c.get_some.2 ⟨hn, hk⟩
    rw [h] at this; cases this
  · intro h
    apply al_lookup_none
    intro b hb
    have := (c.mem k b).1 hb
    exact h b this.1 this.2

theorem Core.lookup_some {s : Lru} {l : List Node} (c : Core s l) {k : Key} {n : Node}
    (hn : n ∈ l) (hk : (s.data n).1 = k) : (l.map s.data).lookup k = some (s.data n).2 := by
  apply al_lookup_of_mem
  · simpa [List.map_map, Function.comp_def] using c.keys
  · exact List.mem_map.2 ⟨n, hn, by rw [← hk]⟩

theorem Core.lookup_none {s : Lru} {l : List Node} (_c : Core s l) {k : Key}
    (h : ∀ n ∈ l, (s.data n).1 ≠ k) : (l.map s.data).lookup k = none := by
  apply al_lookup_none
  intro b hb
  obtain ⟨n, hn, he⟩ := List.mem_map.1 hb
  exact h n hn (by rw [he])

/-! ### transporting the invariant -/

theorem mtf_ok {d : Dll} {l : List Node} {n : Node} (h : Rep d l) (hn : n ∈ l) :
    ∃ d', moveToFront d n = .ok d' ∧ Rep d' (n :: l.erase n) := by
  obtain ⟨r, hr⟩ := (total d l h (List.ne_nil_of_mem hn) n).2.2.1
  refine ⟨r, hr, ?_⟩
  have := repr_step d l (.moveToFront n) h hn
  simpa [applyOp, specOp, hr] using this

theorem Core.perm {s : Lru} {l l' : List Node} (c : Core s l) {d' : Dll} (hr : Rep d' l') (hp : List.Perm l' l) :
    Core { s with dll := d' } l' where
  rep := hr
  keys := ((hp.map _).nodup_iff).2 c.keys
  mem := fun k n => by rw [hp.mem_iff]; exact c.mem k n
  dict := c.dict

theorem Core.updData {s : Lru} {l : List Node} (c : Core s l) {data' : Node → Key × Val}
    (h : ∀ x ∈ l, (data' x).1 = (s.data x).1) : Core { s with data := data' } l where
  rep := c.rep
  keys := by
    have : l.map (fun n => (data' n).1) = l.map (fun n => (s.data n).1) := List.map_congr_left h
    simpa [this] using c.keys
  mem := fun k n => by
    rw [c.mem]
    constructor
    · rintro ⟨hn, hk⟩; exact ⟨hn, by simpa [h n hn] using hk⟩
    · rintro ⟨hn, hk⟩; exact ⟨hn, by simpa [h n hn] using hk⟩
  dict := c.dict

theorem length_cons_erase {l : List Node} {n : Node} (hn : n ∈ l) : (n :: l.erase n).length = l.length :=
  (List.perm_cons_erase hn).length_eq.symm

theorem not_mem_erase_self {l : List Node} {n : Node} (hnd : l.Nodup) : n ∉ l.erase n :=
  fun hx => ((List.Nodup.mem_erase_iff hnd).1 hx).1 rfl

theorem map_updD_of_not_mem {β} {l : List Node} {n : Node} (data : Node → β) (b : β) (hn : n ∉ l) :
    l.map (updD data n b) = l.map data := by
  apply List.map_congr_left
  intro x hx
  have : x ≠ n := fun he => hn (he ▸ hx)
  simp [updD, this]

theorem mem_dictDel {c : PyDict} {k k' : Key} {n : Node} : (k', n) ∈ dictDel c k ↔ (k', n) ∈ c ∧ k' ≠ k := by
  simp [dictDel]

theorem dictDel_keys_nodup {c : PyDict} {k : Key} (h : (c.map (·.1)).Nodup) : ((dictDel c k).map (·.1)).Nodup :=
  h.sublist (List.filter_sublist.map _)

theorem dictSet_of_not_mem {c : PyDict} {k : Key} {n : Node} (h : ∀ m, (k, m) ∉ c) :
    dictSet c k n = c ++ [(k, n)] := by
  unfold dictSet; rw [al_lookup_none h]; simp

theorem Core.del {s : Lru} {l : List Node} (c : Core s l) {n : Node} (hn : n ∈ l) :
    Core { s with cache := dictDel s.cache (s.data n).1, dll := remove s.dll n } (l.erase n) where
  rep := rep_remove c.rep hn
  keys := c.keys.sublist (List.erase_sublist.map _)
  dict := dictDel_keys_nodup c.dict
  mem := fun k' n' => by
    rw [mem_dictDel, c.mem, List.Nodup.mem_erase_iff c.rep.nodup]
    constructor
    · rintro ⟨⟨hn', hk'⟩, hne⟩
      refine ⟨⟨?_, hn'⟩, hk'⟩
      rintro rfl; exact hne hk'.symm
    · rintro ⟨⟨hne, hn'⟩, hk'⟩
      refine ⟨⟨hn', hk'⟩, ?_⟩
      intro he; exact hne (c.inj hn' hn (hk'.trans he))

theorem Core.insert {s : Lru} {l : List Node} (c : Core s l) {n : Node} {k : Key} {v : Val} {d' : Dll}
    (hn : n ∉ l) (hk : ∀ x ∈ l, (s.data x).1 ≠ k) (hr : Rep d' (n :: l)) :
    Core { s with cache := dictSet s.cache k n, dll := d', data := updD s.data n (k, v) } (n :: l) := by
  have hkc : ∀ m, (k, m) ∉ s.cache := fun m hm => by
    have := (c.mem k m).1 hm
    exact hk m this.1 this.2
  have hdata : ∀ x ∈ l, updD s.data n (k, v) x = s.data x := by
    intro x hx
    have : x ≠ n := fun he => hn (he ▸ hx)
    simp [updD, this]
  have hkeys : l.map (fun x => (updD s.data n (k, v) x).1) = l.map (fun x => (s.data x).1) :=
    List.map_congr_left (fun x hx => by rw [hdata x hx])
  refine ⟨hr, ?_, ?_, ?_⟩
  · show ((n :: l).map (fun x => (updD s.data n (k, v) x).1)).Nodup
    rw [List.map_cons, hkeys, List.nodup_cons]
    refine ⟨?_, c.keys⟩
    simp only [updD, if_true, List.mem_map, not_exists, not_and]
    intro x hx he; exact hk x hx he
  · intro k' n'
    show (k', n') ∈ dictSet s.cache k n ↔ n' ∈ n :: l ∧ (updD s.data n (k, v) n').1 = k'
    rw [dictSet_of_not_mem hkc, List.mem_append, List.mem_singleton, List.mem_cons, c.mem, Prod.mk.injEq]
    constructor
    · rintro (⟨hn', hk'⟩ | ⟨rfl, rfl⟩)
      · exact ⟨Or.inr hn', by rw [hdata n' hn']; exact hk'⟩
      · exact ⟨Or.inl rfl, by simp [updD]⟩
    · rintro ⟨rfl | hn', hk'⟩
      · right; simpa [updD, eq_comm] using hk'
      · left; exact ⟨hn', by rw [hdata n' hn'] at hk'; exact hk'⟩
  · show ((dictSet s.cache k n).map (·.1)).Nodup
    rw [dictSet_of_not_mem hkc, List.map_append, List.nodup_append]
    refine ⟨c.dict, by simp, ?_⟩
    intro a ha b hb hab
    simp only [List.map_cons, List.map_nil, List.mem_singleton] at hb
    obtain ⟨⟨k0, m⟩, hm, rfl⟩ := List.mem_map.1 ha
    exact hkc m (by rw [← hb, ← hab]; exact hm)

theorem map_insert {s : Lru} {l : List Node} {n : Node} {k : Key} {v : Val} (hn : n ∉ l) :
    (n :: l).map (updD s.data n (k, v)) = (k, v) :: l.map s.data := by
  rw [List.map_cons, map_updD_of_not_mem _ _ hn]
  simp [updD]

/-! ### the primitives -/

theorem lru_get (cap : Nat) (s : Lru) (t : LruSpec.St) (k : Key) (h : Lru.R cap s t) :
    RelRes (Lru.R cap) s t (Lru.get s k) (LruSpec.get t k) := by
  obtain ⟨hinv, hcap, rfl⟩ := h
  obtain ⟨l, c, hl⟩ := hinv.core
  rw [c.abs]
  unfold Lru.get LruSpec.get
  cases hg : dictGet s.cache k with
  | none =>
    rw [c.lookup_none (c.get_none.1 hg)]
    exact ⟨rfl, hinv, hcap, c.abs⟩
  | some n =>
    obtain ⟨hn, hk⟩ := c.get_some.1 hg
    obtain ⟨d', hd, hr⟩ := mtf_ok c.rep hn
    rw [c.lookup_some hn hk]
    simp only [hd]
    have c' := c.perm hr (List.perm_cons_erase hn).symm
    refine ⟨⟨c'.inv hinv.cap_pos ?_, hcap, ?_⟩, rfl⟩
    · rw [length_cons_erase hn]; exact hl
    · rw [c'.abs, map_erase_eq_without c.keys hn hk]
      simp [← hk]

theorem lru_del (cap : Nat) (s : Lru) (t : LruSpec.St) (k : Key) (h : Lru.R cap s t) :
    RelSt (Lru.R cap) s t (Lru.del s k) (LruSpec.del t k) := by
  obtain ⟨hinv, hcap, rfl⟩ := h
  obtain ⟨l, c, hl⟩ := hinv.core
  rw [c.abs]
  unfold Lru.del LruSpec.del
  cases hg : dictGet s.cache k with
  | none =>
    rw [c.lookup_none (c.get_none.1 hg)]
    exact ⟨rfl, hinv, hcap, c.abs⟩
  | some n =>
    obtain ⟨hn, hk⟩ := c.get_some.1 hg
    rw [c.lookup_some hn hk]
    simp only [Option.isSome_some, if_true]
    have c' := c.del hn
    rw [hk] at c'
    refine ⟨c'.inv hinv.cap_pos ?_, hcap, ?_⟩
    · exact Nat.le_trans (List.erase_sublist.length_le) hl
    · rw [c'.abs, map_erase_eq_without c.keys hn hk]

theorem lru_set (cap : Nat) (s : Lru) (t : LruSpec.St) (k : Key) (v : Val) (h : Lru.R cap s t) :
    RelSt (Lru.R cap) s t (Lru.set s k v) (LruSpec.set cap t k v) := by
  obtain ⟨hinv, hcap, rfl⟩ := h
  obtain ⟨l, c, hl⟩ := hinv.core
  rw [c.abs]
  unfold Lru.set LruSpec.set
  cases hg : dictGet s.cache k with
  | some n =>
    obtain ⟨hn, hk⟩ := c.get_some.1 hg
    obtain ⟨d', hd, hr⟩ := mtf_ok c.rep hn
    rw [c.lookup_some hn hk]
    simp only [hd, Option.isSome_some, if_true]
    have c1 : Core { s with data := updD s.data n (k, v) } l :=
      c.updData (fun x _ => by
        by_cases hx : x = n
        · subst hx; simp [updD, hk]
        · simp [updD, hx])
    have c' := c1.perm hr (List.perm_cons_erase hn).symm
    refine ⟨c'.inv hinv.cap_pos ?_, hcap, ?_⟩
    · rw [length_cons_erase hn]; exact hl
    · rw [c'.abs, map_erase_eq_without c.keys hn hk]
      exact map_insert (not_mem_erase_self c.rep.nodup)
  | none =>
    have hnk := c.get_none.1 hg
    rw [c.lookup_none hnk]
    simp only [Option.isSome_none, Bool.false_eq_true, if_false, List.length_map]
    by_cases hfull : s.cache.length ≥ s.cap
    · have hfull' : l.length ≥ cap := by rw [← c.len, ← hcap]; exact hfull
      have hne : l ≠ [] := by
        intro he; rw [he] at hfull'
        have := hinv.cap_pos; simp at hfull'; omega
      have hn : l.getLast hne ∈ l := List.getLast_mem hne
      have ht : s.dll.tail = some (l.getLast hne) := by
        rw [c.rep.tail, List.getLast?_eq_some_getLast hne]
      have hold : dictGet s.cache (s.data (l.getLast hne)).1 = some (l.getLast hne) := c.get_some.2 ⟨hn, rfl⟩
      obtain ⟨d', hd, hr⟩ := mtf_ok c.rep hn
      simp only [if_pos hfull, if_pos hfull', ht, hold, hd]
      have c0 := c.del hn
      have hn0 : l.getLast hne ∉ l.erase (l.getLast hne) := not_mem_erase_self c.rep.nodup
      have c' := c0.insert (k := k) (v := v) hn0 (fun x hx => hnk x (List.mem_of_mem_erase hx)) hr
      refine ⟨c'.inv hinv.cap_pos ?_, hcap, ?_⟩
      · rw [length_cons_erase hn]; exact hl
      · rw [c'.abs]
        show (l.getLast hne :: l.erase (l.getLast hne)).map (updD s.data (l.getLast hne) (k, v)) = _
        rw [map_insert hn0, erase_getLast_eq_dropLast c.rep.nodup hne, List.map_dropLast]
    · have hfull' : ¬ l.length ≥ cap := by rw [← c.len, ← hcap]; exact hfull
      simp only [if_neg hfull, if_neg hfull']
      have hr := repr_prepend c.rep
      have hn0 : s.dll.fresh ∉ l := fun hx => Nat.lt_irrefl _ (c.rep.fresh _ hx)
      have c' := c.insert (k := k) (v := v) hn0 hnk hr
      refine ⟨c'.inv hinv.cap_pos ?_, hcap, ?_⟩
      · have := c.len; simp only [List.length_cons]; omega
      · exact c'.abs.trans (map_insert hn0)

theorem lru_init (cap : Nat) (h : 1 ≤ cap) : Lru.R cap (Lru.new cap) [] := by
  have c : Core (Lru.new cap) [] := ⟨repr_empty, by simp, by simp [Lru.new], by simp [Lru.new]⟩
  exact ⟨c.inv h (Nat.zero_le _), rfl, c.abs⟩

theorem lru_sim (cap : Nat) : Sim lruPrim (LruSpec.prim cap) (Lru.R cap) where
  get := fun s t k h => lru_get cap s t k h
  set := fun s t k v h => lru_set cap s t k v h
  del := fun s t k h => lru_del cap s t k h
  keys := fun s t h => by
    obtain ⟨hinv, _, rfl⟩ := h
    obtain ⟨l, c, _⟩ := hinv.core
    show Lru.keys s = s.abs.map (·.1)
    rw [c.abs, Lru.keys, walk_of_rep c.rep, List.map_map]
    rfl
  len := fun s t h => by
    obtain ⟨hinv, _, rfl⟩ := h
    obtain ⟨l, c, _⟩ := hinv.core
    show s.cache.length = s.abs.length
    rw [c.abs, c.len, List.length_map]

/-- the relation implies well-formedness of the abstract state -/
theorem lru_R_wf (cap : Nat) (s : Lru) (t : LruSpec.St) (h : Lru.R cap s t) : LruSpec.Wf cap t ∧ 1 ≤ cap := by
  obtain ⟨hinv, hcap, rfl⟩ := h
  obtain ⟨l, c, hl⟩ := hinv.core
  refine ⟨⟨?_, ?_⟩, hcap ▸ hinv.cap_pos⟩
  · rw [c.abs, List.map_map]; exact c.keys
  · rw [c.abs, List.length_map, ← hcap]; exact hl

end WindVerif.Cache
