import WindVerif.Proofs.SortedMixins
/-!
Bulk operations fed by a source that fails in the middle.

`SortedSet` inherits `MutableSet.__ior__` (`for value in it: self.add(value)`) and `SortedMap` inherits
`MutableMapping.update` (`for key, value in other: self[key] = value`).  When the source raises after having delivered `k`
items, the loop has run `k` times: the state is the one reached by adding / storing the first `k` items one at a time.
-/
namespace WindVerif.Sorted

/-! ### `SortedSet.__ior__` interrupted after `k` items -/

/-- the state when the source of `s |= xs` raises after `k` items: `add` has run for `xs[0] … xs[k-1]` -/
def setIorPartial (s xs : List Int) (k : Nat) : List Int := (xs.take k).foldl setAdd s

theorem setIorPartial_zero (s xs : List Int) : setIorPartial s xs 0 = s := rfl

/-- one at a time: the state after `k+1` items is the state after `k` items with `xs[k]` added -/
theorem setIorPartial_succ (s xs : List Int) (k : Nat) (hk : k < xs.length) :
    setIorPartial s xs (k + 1) = setAdd (setIorPartial s xs k) xs[k] := by
  unfold setIorPartial
  rw [List.take_succ_eq_append_getElem hk, List.foldl_append]
  rfl

/-- a source that does not fail: the whole `__ior__` -/
theorem setIorPartial_all (s xs : List Int) : setIorPartial s xs xs.length = setIor s xs := by
  unfold setIorPartial setIor
  rw [List.take_length]

/-- at every moment the values are strictly ascending (sorted, no duplicates) and are exactly the old values plus the
delivered prefix -/
theorem ior_prefix (s xs : List Int) (k : Nat) (h : Strict s) :
    Strict (setIorPartial s xs k) ∧ ∀ y, y ∈ setIorPartial s xs k ↔ (y ∈ s ∨ y ∈ xs.take k) :=
  foldl_setAdd (xs.take k) s h

theorem ior_prefix_nodup (s xs : List Int) (k : Nat) (h : Strict s) : (setIorPartial s xs k).Nodup :=
  strict_nodup (ior_prefix s xs k h).1

theorem setAdd_of_mem (s : List Int) (v : Int) (h : Strict s) (hv : v ∈ s) : setAdd s v = s := by
  obtain ⟨L, G, _, _, _, _, hc⟩ := setAdd_eq s v h
  rcases hc with ⟨_, _, he⟩ | ⟨hn, _, _⟩
  · exact he
  · exact absurd hv hn

theorem foldl_setAdd_of_mem (t : List Int) : ∀ (s : List Int), Strict s → (∀ y ∈ t, y ∈ s) → t.foldl setAdd s = s := by
  induction t with
  | nil => intro s _ _; rfl
  | cons v r ih =>
    intro s h hm
    rw [List.foldl_cons, setAdd_of_mem s v h (hm v (by simp))]
    exact ih s h (fun y hy => hm y (by simp [hy]))

/-- a delivered prefix of members changes nothing -/
theorem ior_existing_noop (s xs : List Int) (k : Nat) (h : Strict s) (hm : ∀ y ∈ xs.take k, y ∈ s) :
    setIorPartial s xs k = s :=
  foldl_setAdd_of_mem (xs.take k) s h hm

/-! ### `SortedMap.update` interrupted after `k` pairs -/

/-- the state when the source of `m.update(ps)` raises after `k` pairs -/
def mapUpdatePartial (m : SMap) (ps : List (Int × Nat)) (k : Nat) : SMap := mapUpdate m (ps.take k)

theorem mapUpdatePartial_zero (m : SMap) (ps : List (Int × Nat)) : mapUpdatePartial m ps 0 = m := rfl

theorem mapUpdate_append (m : SMap) (ps qs : List (Int × Nat)) :
    mapUpdate m (ps ++ qs) = mapUpdate (mapUpdate m ps) qs := by
  induction ps generalizing m with
  | nil => rfl
  | cons p r ih =>
    obtain ⟨k, v⟩ := p
    simp only [List.cons_append, mapUpdate]
    exact ih _

/-- one at a time: the state after `k+1` pairs is the state after `k` pairs with `ps[k]` stored -/
theorem mapUpdatePartial_succ (m : SMap) (ps : List (Int × Nat)) (k : Nat) (hk : k < ps.length) :
    mapUpdatePartial m ps (k + 1) = mapSet (mapUpdatePartial m ps k) ps[k].1 ps[k].2 := by
  unfold mapUpdatePartial
  rw [List.take_succ_eq_append_getElem hk, mapUpdate_append]
  rfl

theorem mapUpdatePartial_all (m : SMap) (ps : List (Int × Nat)) : mapUpdatePartial m ps ps.length = mapUpdate m ps := by
  unfold mapUpdatePartial
  rw [List.take_length]

/-- at every moment the state is well formed (keys strictly ascending, one value per key) and stands for the old content
overridden by the delivered pairs in order (a later pair for the same key wins) -/
theorem update_prefix (m : SMap) (ps : List (Int × Nat)) (k : Nat) (h : MapWf m) :
    MapWf (mapUpdatePartial m ps k) ∧
    ∀ key, mapLookup (mapUpdatePartial m ps k) key =
      (match (ps.take k).reverse.lookup key with | some v => some v | none => mapLookup m key) :=
  ⟨mapUpdate_wf m (ps.take k) h, fun key => mapUpdate_lookup m (ps.take k) key h⟩

theorem mapSet_of_lookup (m : SMap) (k : Int) (v : Nat) (h : MapWf m) (hl : mapLookup m k = some v) :
    mapSet m k v = m := by
  obtain ⟨keys, vals⟩ := m
  obtain ⟨L, G, VL, VG, hl1, _, _, _, _, _, hkL, hkG, he, hc⟩ := mapSet_eq keys vals k v h
  rw [he]
  unfold mapLookup at hl
  rcases hc with ⟨w, rfl, rfl⟩ | ⟨rfl, rfl⟩
  · simp only [lookup_mid w k hl1 hkL, if_true] at hl
    cases hl
    rfl
  · simp only [lookup_nomid hkL hkG] at hl
    cases hl

theorem mapUpdate_of_lookup (ps : List (Int × Nat)) : ∀ (m : SMap), MapWf m →
    (∀ p ∈ ps, mapLookup m p.1 = some p.2) → mapUpdate m ps = m := by
  induction ps with
  | nil => intro m _ _; rfl
  | cons p r ih =>
    intro m h hm
    obtain ⟨k, v⟩ := p
    rw [mapUpdate, mapSet_of_lookup m k v h (hm (k, v) (by simp))]
    exact ih m h (fun q hq => hm q (by simp [hq]))

/-- delivered pairs whose keys are present with exactly the stored values change nothing -/
theorem update_existing_noop (m : SMap) (ps : List (Int × Nat)) (k : Nat) (h : MapWf m)
    (hm : ∀ p ∈ ps.take k, mapLookup m p.1 = some p.2) : mapUpdatePartial m ps k = m :=
  mapUpdate_of_lookup (ps.take k) m h hm

/-! ### the seeded variant: "extend the list with everything, then sort and de-duplicate" -/

/-- the values are appended as they arrive; the failure of the source comes before the sort -/
def iorBulkPartial (s xs : List Int) (k : Nat) : List Int := s ++ xs.take k

instance (l : List Int) : Decidable (Strict l) := by unfold Strict; infer_instance

/-- values `[1,5,9]`, source `9,7,3,5` and then the failure: the variant leaves `[1,5,9,9,7,3,5]`, which is neither sorted
nor duplicate-free, where the loop of `add` calls leaves `[1,3,5,7,9]` -/
theorem ior_bulk_wrong :
    Strict [1, 5, 9] ∧
    iorBulkPartial [1, 5, 9] [9, 7, 3, 5] 4 = [1, 5, 9, 9, 7, 3, 5] ∧
    ¬ Strict (iorBulkPartial [1, 5, 9] [9, 7, 3, 5] 4) ∧
    ¬ (iorBulkPartial [1, 5, 9] [9, 7, 3, 5] 4).Nodup ∧
    setIorPartial [1, 5, 9] [9, 7, 3, 5] 4 = [1, 3, 5, 7, 9] := by decide

/-- already one delivered member shows the difference (the harness feeds members, then raises) -/
theorem ior_bulk_wrong_member :
    iorBulkPartial [1, 5, 9] [5, 1] 1 = [1, 5, 9, 5] ∧ ¬ Strict (iorBulkPartial [1, 5, 9] [5, 1] 1) ∧
    setIorPartial [1, 5, 9] [5, 1] 1 = [1, 5, 9] := by decide

end WindVerif.Sorted
