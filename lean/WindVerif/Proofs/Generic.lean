import WindVerif.Model.Generic
import WindVerif.Proofs.Roman
/-! Theorems about the generic helpers (C19). -/
namespace WindVerif.Generic
open List

/-! ### roman numerals: whole finite domain 1..3999

`romanDigit`, `canonical` and the theorems `roman_canonical`, `roman_roundtrip`, `roman_inverse` (statements unchanged)
live in `WindVerif/Proofs/Roman.lean`: they are proved by kernel evaluation over the whole domain, which takes about a
minute, so they are compiled separately from the rest of this file. -/

/-! ### arg_sort: the stable sorting permutation, in both directions -/

def argLe (xs : List Int) (rev : Bool) : Nat → Nat → Bool :=
  fun i j => if rev then decide (keyAt xs j ≤ keyAt xs i) else decide (keyAt xs i ≤ keyAt xs j)

theorem argSort_eq (xs : List Int) (rev : Bool) : argSort xs rev = (List.range xs.length).mergeSort (argLe xs rev) := rfl

theorem argLe_trans (xs : List Int) (rev : Bool) (a b c : Nat) :
    argLe xs rev a b = true → argLe xs rev b c = true → argLe xs rev a c = true := by
  cases rev <;> simp [argLe] <;> omega

theorem argLe_total (xs : List Int) (rev : Bool) (a b : Nat) : (argLe xs rev a b || argLe xs rev b a) = true := by
  cases rev <;> simp [argLe] <;> omega

theorem argSort_perm (xs : List Int) (rev : Bool) : (argSort xs rev).Perm (List.range xs.length) :=
  List.mergeSort_perm _ _

theorem argSort_sorted (xs : List Int) : ((argSort xs false).map (keyAt xs)).Pairwise (· ≤ ·) := by
  rw [List.pairwise_map, argSort_eq]
  refine (List.pairwise_mergeSort (argLe_trans xs false) (argLe_total xs false) _).imp ?_
  intro a b h; simpa [argLe] using h

theorem argSort_sorted_rev (xs : List Int) : ((argSort xs true).map (keyAt xs)).Pairwise (· ≥ ·) := by
  rw [List.pairwise_map, argSort_eq]
  refine (List.pairwise_mergeSort (argLe_trans xs true) (argLe_total xs true) _).imp ?_
  intro a b h; simpa [argLe] using h

theorem pair_sublist_range {i j n : Nat} (hij : i < j) (hj : j < n) : [i, j] <+ List.range n := by
  induction n with
  | zero => omega
  | succ n ih =>
    rw [List.range_succ]
    by_cases hjn : j < n
    · exact (ih hjn).trans (List.sublist_append_left _ _)
    · have : j = n := by omega
      subst this
      have h1 : [i] <+ List.range j := List.singleton_sublist.mpr (List.mem_range.mpr hij)
      exact List.Sublist.append h1 (List.Sublist.refl [j])

theorem nodup_pair_antisymm {α} {a b : α} : ∀ {l : List α}, l.Nodup → [a, b] <+ l → [b, a] <+ l → False
  | [], _, h, _ => by simp at h
  | x :: t, hn, h1, h2 => by
    rw [List.nodup_cons] at hn
    have m1 := h1.subset
    have m2 := h2.subset
    cases h1 with
    | cons _ h1 =>
      cases h2 with
      | cons _ h2 => exact nodup_pair_antisymm hn.2 h1 h2
      | cons_cons _ h2 => exact hn.1 (h1.subset (by simp))
    | cons_cons _ h1 =>
      cases h2 with
      | cons _ h2 => exact hn.1 (h2.subset (by simp))
      | cons_cons _ h2 => exact hn.1 (h1.subset (by simp))

/-- equal keys keep their index order, also with `reverse=True` -/
theorem argSort_stable (xs : List Int) (rev : Bool) :
    (argSort xs rev).Pairwise (fun i j => keyAt xs i = keyAt xs j → i < j) := by
  have hperm := argSort_perm xs rev
  have hnd : (argSort xs rev).Nodup := hperm.nodup_iff.mpr List.nodup_range
  rw [List.pairwise_iff_forall_sublist]
  intro a b hab hk
  have ha : a < xs.length := List.mem_range.mp (hperm.mem_iff.mp (hab.subset (by simp)))
  have hne : a ≠ b := by
    have := hnd.sublist hab
    simpa using this
  rcases Nat.lt_or_gt_of_ne hne with h | h
  · exact h
  · exfalso
    have hle : argLe xs rev b a = true := by cases rev <;> simp [argLe, hk]
    have := List.pair_sublist_mergeSort (argLe_trans xs rev) (argLe_total xs rev) hle (pair_sublist_range h ha)
    exact nodup_pair_antisymm hnd hab this

/-! ### sub_seq / search_sub_seq: exactly the contiguous occurrences -/

theorem window_eq_iff (s1 s2 : List Int) (o : Nat) :
    (o + s1.length ≤ s2.length ∧ window s2 o s1.length = s1) ↔ ∃ s t, s.length = o ∧ s ++ s1 ++ t = s2 := by
  constructor
  · rintro ⟨hl, hw⟩
    refine ⟨s2.take o, (s2.drop o).drop s1.length, by simp; omega, ?_⟩
    have h : s2.take o ++ window s2 o s1.length ++ (s2.drop o).drop s1.length = s2 := by
      unfold window
      rw [List.append_assoc, List.take_append_drop, List.take_append_drop]
    rwa [hw] at h
  · rintro ⟨s, t, rfl, rfl⟩
    simp [window]

theorem subSeq_iff (s1 s2 : List Int) : subSeq s1 s2 = true ↔ s1 <:+: s2 := by
  unfold subSeq
  simp only [Bool.and_eq_true, decide_eq_true_eq, List.any_eq_true, List.mem_range, beq_iff_eq]
  constructor
  · rintro ⟨hl, o, ho, hw⟩
    obtain ⟨s, t, _, h⟩ := (window_eq_iff s1 s2 o).mp ⟨by omega, hw.symm⟩
    exact ⟨s, t, h⟩
  · rintro ⟨s, t, h⟩
    obtain ⟨hl, hw⟩ := (window_eq_iff s1 s2 s.length).mpr ⟨s, t, rfl, h⟩
    exact ⟨by omega, s.length, by omega, hw.symm⟩

theorem searchSubSeq_empty (s1 s2 : List Int) (h : s1 = [] ∨ s2 = []) : searchSubSeq s1 s2 = .error .valueError := by
  unfold searchSubSeq
  rcases h with rfl | rfl <;> simp

theorem searchSubSeq_spec (s1 s2 : List Int) (h1 : s1 ≠ []) (h2 : s2 ≠ []) :
    ∃ l, searchSubSeq s1 s2 = .ok l ∧
      (∀ o e, (o, e) ∈ l ↔ (e = o + s1.length ∧ e ≤ s2.length ∧ window s2 o s1.length = s1)) ∧
      (l.map (·.1)).Pairwise (· < ·) := by
  have h1' : s1.length ≠ 0 := by simpa using h1
  have h2' : s2.length ≠ 0 := by simpa using h2
  unfold searchSubSeq
  rw [if_neg (by omega)]
  by_cases hl : s1.length ≤ s2.length
  · rw [if_pos hl]
    refine ⟨_, rfl, ?_, ?_⟩
    · intro o e
      simp only [List.mem_map, List.mem_filter, List.mem_range, beq_iff_eq, Prod.mk.injEq]
      constructor
      · rintro ⟨o', ⟨ho, hw⟩, rfl, rfl⟩
        exact ⟨rfl, by omega, hw.symm⟩
      · rintro ⟨rfl, he, hw⟩
        exact ⟨o, ⟨by omega, hw.symm⟩, rfl, rfl⟩
    · rw [List.map_map]
      have : ((fun x : Nat × Nat => x.1) ∘ fun o => (o, o + s1.length)) = id := rfl
      rw [this, List.map_id]
      exact List.Pairwise.sublist List.filter_sublist List.pairwise_lt_range
  · rw [if_neg hl]
    refine ⟨[], rfl, ?_, by simp⟩
    intro o e
    simp only [List.not_mem_nil, false_iff]
    rintro ⟨rfl, he, _⟩
    omega

/-! ### compare_pos_in_iterables is multiset equality -/

theorem comparePos_iff (a b : List Int) : comparePos a b = true ↔ a.Perm b := by
  induction a generalizing b with
  | nil => simp [comparePos, List.nil_perm]
  | cons x a ih =>
    rw [comparePos, List.cons_perm_iff_perm_erase]
    by_cases hx : x ∈ b
    · simp [hx, ih]
    · simp [hx]

/-! ### Batcher / BatcherIter -/

/-- the i-th batch of the reference cutting -/
def batchAt (data : List Int) (b i : Nat) : List Int := (data.drop (i * b)).take b

theorem lt_batcherLen_iff (n b i : Nat) (hb : 0 < b) : i < batcherLen n b ↔ i * b < n := by
  unfold batcherLen
  rw [← Nat.succ_le_iff, Nat.le_div_iff_mul_le hb, Nat.succ_mul]
  omega

theorem batcherLen_ceil (n b : Nat) (hb : 0 < b) : batcherLen n b = n / b + (if n % b = 0 then 0 else 1) := by
  have hdm := Nat.div_add_mod n b
  have hr := Nat.mod_lt n hb
  unfold batcherLen
  generalize n / b = q at *
  generalize n % b = r at *
  by_cases h0 : r = 0
  · rw [if_pos h0, Nat.add_zero]
    apply Nat.div_eq_of_lt_le
    · rw [Nat.mul_comm]; omega
    · rw [Nat.mul_comm, Nat.mul_add]; omega
  · rw [if_neg h0]
    apply Nat.div_eq_of_lt_le
    · rw [Nat.mul_comm, Nat.mul_add]; omega
    · rw [Nat.mul_comm, Nat.mul_add, Nat.mul_add]; omega

theorem flatten_batches (data : List Int) (b k : Nat) :
    ((List.range k).map (batchAt data b)).flatten = data.take (k * b) := by
  induction k with
  | zero => simp
  | succ k ih =>
    rw [List.range_succ, List.map_append, List.flatten_append, ih, Nat.succ_mul, List.take_add]
    simp [batchAt]

theorem batcher_concat (data : List Int) (b : Nat) (hb : 0 < b) :
    ((List.range (batcherLen data.length b)).map (batchAt data b)).flatten = data := by
  rw [flatten_batches]
  apply List.take_of_length_le
  have := not_congr (lt_batcherLen_iff data.length b (batcherLen data.length b) hb)
  omega

/-- all batches have size `batch_size` except possibly a shorter, non-empty last one -/
theorem batcher_sizes (data : List Int) (b i : Nat) (hb : 0 < b) (hi : i < batcherLen data.length b) :
    (i + 1 < batcherLen data.length b → (batchAt data b i).length = b) ∧
    0 < (batchAt data b i).length ∧ (batchAt data b i).length ≤ b := by
  rw [lt_batcherLen_iff _ _ _ hb] at hi
  rw [lt_batcherLen_iff _ _ _ hb, Nat.succ_mul]
  simp only [batchAt, List.length_take, List.length_drop]
  omega

theorem batcherGet_spec (data : List Int) (b i : Nat) :
    (i < batcherLen data.length b → batcherGet data b i = .ok (batchAt data b i)) ∧
    (batcherLen data.length b ≤ i → batcherGet data b i = .error .indexError) := by
  unfold batcherGet batchAt
  constructor
  · intro h; rw [if_neg (by omega)]
  · intro h; rw [if_pos h]

theorem batcherLen_add (m b : Nat) (hb : 0 < b) : batcherLen (b + m) b = batcherLen m b + 1 := by
  unfold batcherLen
  have : b + m + b - 1 = (m + b - 1) + b := by omega
  rw [this, Nat.add_div_right _ hb]

theorem batcherIterGo_eq (b : Nat) (hb : 0 < b) (rest : List Int) : ∀ acc : List Int, acc.length < b →
    batcherIterGo b acc rest =
      (List.range (batcherLen (acc ++ rest).length b)).map (batchAt (acc ++ rest) b) := by
  induction rest with
  | nil =>
    intro acc hacc
    simp only [batcherIterGo, List.append_nil]
    split
    · have h1 : batcherLen acc.length b = 1 := by
        unfold batcherLen
        apply Nat.div_eq_of_lt_le <;> omega
      rw [h1]
      simp [batchAt, List.take_of_length_le (Nat.le_of_lt hacc)]
    · have h0 : acc.length = 0 := by omega
      have h1 : batcherLen 0 b = 0 := by
        unfold batcherLen
        apply Nat.div_eq_of_lt; omega
      rw [h0, h1]; rfl
  | cons x r ih =>
    intro acc hacc
    simp only [batcherIterGo]
    split
    next hlen =>
      rw [ih [] (by simpa using hb)]
      have hl : (acc ++ x :: r).length = b + r.length := by
        simp only [List.length_append, List.length_cons, List.length_nil] at hlen ⊢; omega
      have happ : acc ++ x :: r = (acc ++ [x]) ++ r := by simp
      rw [hl, batcherLen_add _ _ hb, List.range_succ_eq_map, List.map_cons, List.map_map, happ]
      congr 1
      · simp only [batchAt, Nat.zero_mul, List.drop_zero]
        rw [List.take_left' hlen]
      · apply List.map_congr_left
        intro i _
        simp only [Function.comp, batchAt, List.nil_append, Nat.succ_mul]
        rw [Nat.add_comm (i * b) b, ← List.drop_drop, List.drop_left' hlen]
    next hlen =>
      have hlt : (acc ++ [x]).length < b := by
        simp only [List.length_append, List.length_cons, List.length_nil] at hlen ⊢; omega
      rw [ih _ hlt]
      simp

theorem batcherIter_eq (data : List Int) (b : Nat) (hb : 0 < b) :
    batcherIter data b = (List.range (batcherLen data.length b)).map (batchAt data b) := by
  have := batcherIterGo_eq b hb data [] (by simpa using hb)
  simpa [batcherIter] using this

/-- batching a `range(n)` object by arithmetic on its bounds is batching the list `0..n-1` -/
theorem batcherGetRange_spec (n b i : Nat) (hb : 0 < b) (hi : i < batcherLen n b) :
    ∃ s e, batcherGetRange n b i = .ok (s, e) ∧ s ≤ e ∧
      List.range' s (e - s) = ((List.range n).drop (i * b)).take b := by
  unfold batcherGetRange
  rw [if_neg (by omega)]
  rw [lt_batcherLen_iff _ _ _ hb] at hi
  refine ⟨_, _, rfl, by omega, ?_⟩
  rw [List.range_eq_range', List.drop_range']
  simp only [Nat.zero_add, Nat.mul_one]
  by_cases h : b ≤ n - i * b
  · rw [List.take_range'_of_length_ge h]; congr 1 <;> omega
  · rw [List.take_range'_of_length_le (by omega)]; congr 1 <;> omega

theorem zip_tail_all_eq : ∀ (l : List Nat),
    (∀ p ∈ l.zip l.tail, p.1 = p.2) ↔ (∀ x ∈ l, ∀ y ∈ l, x = y)
  | [] => by simp
  | [a] => by simp
  | a :: c :: t => by
    have ih := zip_tail_all_eq (c :: t)
    simp only [List.tail_cons] at ih
    simp only [List.tail_cons, List.zip_cons_cons]
    constructor
    · intro h
      have hac : a = c := h (a, c) (by simp)
      have h' : ∀ x ∈ c :: t, ∀ y ∈ c :: t, x = y := ih.mp (fun p hp => h p (List.mem_cons_of_mem _ hp))
      subst hac
      intro x hx y hy
      exact h' x (by simpa using hx) y (by simpa using hy)
    · intro h p hp
      rcases List.mem_cons.mp hp with rfl | hp
      · exact h a (by simp) c (by simp)
      · exact ih.mpr (fun x hx y hy => h x (List.mem_cons_of_mem _ hx) y (List.mem_cons_of_mem _ hy)) p hp

theorem batcherNew_spec (lens : List Nat) (b : Int) :
    batcherNew lens b = .ok () ↔ ((∀ x ∈ lens, ∀ y ∈ lens, x = y) ∧ 0 < b) := by
  rw [← zip_tail_all_eq]
  unfold batcherNew
  by_cases h : ∀ p ∈ lens.zip lens.tail, p.1 = p.2
  · have : (lens.zip lens.tail).any (fun p => decide (p.1 ≠ p.2)) = false := by
      rw [List.any_eq_false]; intro p hp; simpa using h p hp
    rw [this]
    by_cases hb : b ≤ 0
    · simp only [Bool.false_eq_true, if_false, if_pos hb]
      constructor
      · intro h; cases h
      · rintro ⟨_, h⟩; omega
    · simp only [Bool.false_eq_true, if_false, if_neg hb]
      exact ⟨fun _ => ⟨h, by omega⟩, fun _ => trivial⟩
  · have : (lens.zip lens.tail).any (fun p => decide (p.1 ≠ p.2)) = true := by
      rw [List.any_eq_true]
      simp only [Classical.not_forall] at h
      obtain ⟨p, hp, hne⟩ := h
      exact ⟨p, hp, by simpa using hne⟩
    rw [this]
    simp only [if_true]
    constructor
    · intro h; cases h
    · rintro ⟨h', _⟩; exact absurd h' h

/-! ### BatcherIter on a tuple of two iterables -/

theorem batcherIterPairGo_eq (b : Nat) (zs : List (Int × Int)) : ∀ a1 a2 : List Int, a1.length = a2.length →
    batcherIterPairGo b a1 a2 zs =
      (batcherIterGo b a1 (zs.map Prod.fst)).zip (batcherIterGo b a2 (zs.map Prod.snd)) := by
  induction zs with
  | nil =>
    intro a1 a2 h
    simp only [batcherIterPairGo, batcherIterGo, List.map_nil, ← h]
    split <;> simp
  | cons z r ih =>
    intro a1 a2 h
    obtain ⟨x, y⟩ := z
    have h' : (a1 ++ [x]).length = (a2 ++ [y]).length := by simp [h]
    simp only [batcherIterPairGo, batcherIterGo, List.map_cons, ← h']
    split
    · rw [ih [] [] rfl, List.zip_cons_cons]
    · rw [ih _ _ h']

theorem map_fst_zip_take : ∀ (xs ys : List Int),
    (xs.zip ys).map Prod.fst = xs.take (min xs.length ys.length)
  | [], _ => by simp
  | _ :: _, [] => by simp
  | x :: xs, y :: ys => by
    simp only [List.zip_cons_cons, List.map_cons, List.length_cons, Nat.add_min_add_right, List.take_succ_cons,
      map_fst_zip_take xs ys]

theorem map_snd_zip_take : ∀ (xs ys : List Int),
    (xs.zip ys).map Prod.snd = ys.take (min xs.length ys.length)
  | [], _ => by simp
  | _ :: _, [] => by simp
  | x :: xs, y :: ys => by
    simp only [List.zip_cons_cons, List.map_cons, List.length_cons, Nat.add_min_add_right, List.take_succ_cons,
      map_snd_zip_take xs ys]

/-- a tuple of two iterables is batched in lock-step and stops with the shorter one: the batches are exactly the batches of the
two inputs cut to the common length, paired up -/
theorem batcherIterPair_spec (xs ys : List Int) (b : Nat) (hb : 0 < b) :
    batcherIterPair xs ys b =
      (batcherIter (xs.take (min xs.length ys.length)) b).zip (batcherIter (ys.take (min xs.length ys.length)) b) := by
  have _ := hb  -- the identity holds for every `b`; the hypothesis is kept because the statement is fixed
  unfold batcherIterPair batcherIter
  rw [batcherIterPairGo_eq b (xs.zip ys) [] [] rfl, map_fst_zip_take, map_snd_zip_take]

/-- … and the two batch lists have the same shape (so nothing is lost by the `zip` above) -/
theorem batcherIterPair_shape (xs ys : List Int) (b : Nat) (hb : 0 < b) :
    (batcherIter (xs.take (min xs.length ys.length)) b).map List.length =
      (batcherIter (ys.take (min xs.length ys.length)) b).map List.length := by
  rw [batcherIter_eq _ _ hb, batcherIter_eq _ _ hb]
  have hx : (xs.take (min xs.length ys.length)).length = min xs.length ys.length := by
    rw [List.length_take]; omega
  have hy : (ys.take (min xs.length ys.length)).length = min xs.length ys.length := by
    rw [List.length_take]; omega
  rw [hx, hy, List.map_map, List.map_map]
  apply List.map_congr_left
  intro i _
  simp only [Function.comp, batchAt, List.length_take, List.length_drop, hx, hy]

end WindVerif.Generic
