import WindVerif.Model.GenericK
import WindVerif.Proofs.Combos
/-!
Theorems about `sorted_combinations` with an ARBITRARY key (C17): completeness needs nothing of the key, the key order needs
exactly `KeyMono` (the key never decreases when an element is appended).  The old model (key = score sum) is the instance
`key = scoreSum scores`.  The lemmas of `Proofs/Combos.lean` about `popMin`, `subsets`, `tree`, `pending` do not mention the
key and are re-used as they are.
-/
namespace WindVerif.Generic

/-- the entries pushed after popping `e` -/
def childrenK (key : List Nat → Nat) (n : Nat) (e : Entry) : List Entry :=
  (List.range' (e.idx + 1) (n - (e.idx + 1))).map
    (fun i => { key := key (e.comb ++ [i]), comb := e.comb ++ [i], idx := i : Entry })

def initQueueK (key : List Nat → Nat) (n : Nat) : List Entry :=
  (List.range n).map (fun i => { key := key [i], comb := [i], idx := i : Entry })

theorem combosLoopK_succ (val : Nat → Nat) (key : List Nat → Nat) (n fuel : Nat) (q : List Entry) :
    combosLoopK val key n (fuel + 1) q =
      match popMin val q with
      | none => []
      | some (e, q') => (e.comb, e.key) :: combosLoopK val key n fuel (q' ++ childrenK key n e) := rfl

theorem sortedCombinationsK_eq (val : Nat → Nat) (key : List Nat → Nat) (n : Nat) :
    sortedCombinationsK val key n = combosLoopK val key n (2 ^ n) (initQueueK key n) := rfl

/-! ### the pending set does not look at the keys -/

theorem pending_childrenK (key : List Nat → Nat) (scores : List Nat) (n : Nat) (e : Entry) :
    pending n (childrenK key n e) = pending n (children scores n e) := by
  simp only [pending, childrenK, children, List.flatMap_map]
  rfl

theorem pending_initK (key : List Nat → Nat) (scores : List Nat) (n : Nat) :
    pending n (initQueueK key n) = pending n (initQueue scores n) := by
  simp only [pending, initQueueK, initQueue, List.flatMap_map]
  rfl

/-- one pop: the pending set loses exactly the emitted combination -/
theorem pending_popK {val : Nat → Nat} (key : List Nat → Nat) (n : Nat) {q q' : List Entry} {e : Entry}
    (h : popMin val q = some (e, q')) :
    (pending n q).Perm (e.comb :: pending n (q' ++ childrenK key n e)) := by
  have h1 := pending_pop (val := val) [] n h
  rw [pending_append] at h1 ⊢
  rw [pending_childrenK key [] n e]
  exact h1

theorem combosLoopK_complete (val : Nat → Nat) (key : List Nat → Nat) (n : Nat) :
    ∀ (fuel : Nat) (q : List Entry), (pending n q).length ≤ fuel →
      ((combosLoopK val key n fuel q).map (·.1)).Perm (pending n q) := by
  intro fuel
  induction fuel with
  | zero =>
    intro q hq
    have : pending n q = [] := List.eq_nil_of_length_eq_zero (by omega)
    simp [combosLoopK, this]
  | succ fuel ih =>
    intro q hq
    rw [combosLoopK_succ]
    split
    · rename_i hn
      have := popMin_none hn
      subst this
      simp [pending]
    · rename_i e q' hs
      have hp := pending_popK key n hs
      have hl := hp.length_eq
      simp only [List.length_cons] at hl
      have := ih (q' ++ childrenK key n e) (by omega)
      simp only [List.map_cons]
      exact (List.Perm.cons _ this).trans hp.symm

theorem combosLoopK_keys (val : Nat → Nat) (key : List Nat → Nat) (n : Nat) :
    ∀ (fuel : Nat) (q : List Entry), (∀ e ∈ q, e.key = key e.comb) →
      ∀ p ∈ combosLoopK val key n fuel q, p.2 = key p.1 := by
  intro fuel
  induction fuel with
  | zero => intro q _ p hp; simp [combosLoopK] at hp
  | succ fuel ih =>
    intro q hq p hp
    rw [combosLoopK_succ] at hp
    split at hp
    · simp at hp
    · rename_i e q' hs
      have hperm := popMin_perm hs
      rcases List.mem_cons.1 hp with rfl | hp
      · exact hq e (hperm.mem_iff.2 List.mem_cons_self)
      · refine ih _ ?_ p hp
        intro x hx
        rcases List.mem_append.1 hx with hx | hx
        · exact hq x (hperm.mem_iff.2 (List.mem_cons_of_mem _ hx))
        · simp only [childrenK, List.mem_map] at hx
          obtain ⟨i, _, rfl⟩ := hx
          rfl

/-- the invariant of the key order: everything in the queue has its own key and lies above the bound; a popped entry is
minimal, and (`KeyMono`) its children lie above it -/
theorem combosLoopK_sorted (val : Nat → Nat) (key : List Nat → Nat) (hmono : KeyMono key) (n : Nat) :
    ∀ (fuel : Nat) (q : List Entry) (lb : Nat), (∀ e ∈ q, lb ≤ e.key ∧ e.key = key e.comb) →
      ((combosLoopK val key n fuel q).map (·.2)).Pairwise (· ≤ ·) ∧
        ∀ p ∈ combosLoopK val key n fuel q, lb ≤ p.2 := by
  intro fuel
  induction fuel with
  | zero => intro q lb _; simp [combosLoopK]
  | succ fuel ih =>
    intro q lb hq
    rw [combosLoopK_succ]
    split
    · simp
    · rename_i e q' hs
      have hperm := popMin_perm hs
      have hmin := popMin_min hs
      have he : e ∈ q := hperm.mem_iff.2 List.mem_cons_self
      have hinv : ∀ x ∈ q' ++ childrenK key n e, e.key ≤ x.key ∧ x.key = key x.comb := by
        intro x hx
        rcases List.mem_append.1 hx with hx | hx
        · have hxq : x ∈ q := hperm.mem_iff.2 (List.mem_cons_of_mem _ hx)
          exact ⟨hmin x hxq, (hq x hxq).2⟩
        · simp only [childrenK, List.mem_map] at hx
          obtain ⟨i, _, rfl⟩ := hx
          refine ⟨?_, rfl⟩
          rw [(hq e he).2]
          exact hmono e.comb i
      obtain ⟨h1, h2⟩ := ih _ e.key hinv
      constructor
      · simp only [List.map_cons, List.pairwise_cons]
        refine ⟨?_, h1⟩
        intro k hk
        simp only [List.mem_map] at hk
        obtain ⟨p, hp, rfl⟩ := hk
        exact h2 p hp
      · intro p hp
        rcases List.mem_cons.1 hp with rfl | hp
        · exact (hq e he).1
        · exact Nat.le_trans (hq e he).1 (h2 p hp)

theorem initQueueK_keys (key : List Nat → Nat) (n : Nat) : ∀ e ∈ initQueueK key n, e.key = key e.comb := by
  intro e he
  simp only [initQueueK, List.mem_map] at he
  obtain ⟨i, _, rfl⟩ := he
  rfl

/-! ### main theorems -/

/-- every non-empty index combination exactly once — for ANY key (monotone or not) and any element values -/
theorem combosK_complete (val : Nat → Nat) (key : List Nat → Nat) (n : Nat) :
    ((sortedCombinationsK val key n).map (·.1)).Perm (allCombos n) := by
  have hinit : (pending n (initQueueK key n)).Perm (allCombos n) := by
    rw [pending_initK key [] n]
    exact pending_init [] n
  have h := combosLoopK_complete val key n (2 ^ n) (initQueueK key n)
    (by rw [hinit.length_eq]; exact allCombos_length_le _)
  rw [sortedCombinationsK_eq]
  exact h.trans hinit

/-- the key yielded alongside is the key of the combination -/
theorem combosK_keys (val : Nat → Nat) (key : List Nat → Nat) (n : Nat) (p : List Nat × Nat)
    (hp : p ∈ sortedCombinationsK val key n) : p.2 = key p.1 :=
  combosLoopK_keys val key n _ _ (initQueueK_keys key n) p hp

/-- in non-decreasing key order, for every key that never decreases when an element is appended -/
theorem combosK_sorted (val : Nat → Nat) (key : List Nat → Nat) (n : Nat) (h : KeyMono key) :
    ((sortedCombinationsK val key n).map (·.2)).Pairwise (· ≤ ·) :=
  (combosLoopK_sorted val key h n _ _ 0 (fun e he => ⟨Nat.zero_le _, initQueueK_keys key n e he⟩)).1

/-- the combinations in the order of the output are also sorted by their keys (the statement without `yield_key`) -/
theorem combosK_sorted_by_key (val : Nat → Nat) (key : List Nat → Nat) (n : Nat) (h : KeyMono key) :
    (((sortedCombinationsK val key n).map (·.1)).map key).Pairwise (· ≤ ·) := by
  have hs := combosK_sorted val key n h
  have e : ((sortedCombinationsK val key n).map (·.1)).map key = (sortedCombinationsK val key n).map (·.2) := by
    rw [List.map_map]
    apply List.map_congr_left
    intro p hp
    exact (combosK_keys val key n p hp).symm
  rw [e]
  exact hs

theorem combosLoopK_scoreSum (val : Nat → Nat) (scores : List Nat) (n : Nat) :
    ∀ (fuel : Nat) (q : List Entry), combosLoopK val (scoreSum scores) n fuel q = combosLoop val scores n fuel q := by
  intro fuel
  induction fuel with
  | zero => intro q; rfl
  | succ fuel ih =>
    intro q
    rw [combosLoopK_succ, combosLoop_succ]
    cases popMin val q with
    | none => rfl
    | some p =>
      obtain ⟨e, q'⟩ := p
      simp only
      rw [ih]
      rfl

/-- the old model is the instance `key = score sum` -/
theorem combosK_sum (val : Nat → Nat) (scores : List Nat) :
    sortedCombinationsK val (scoreSum scores) scores.length = sortedCombinationsV val scores := by
  rw [sortedCombinationsK_eq, sortedCombinationsV_eq, combosLoopK_scoreSum]
  rfl

/-- the hypothesis is needed: `key = lambda c: 3 - len(c)` decreases under appending, and on two elements the keys come out
as 2, 1, 2 -/
theorem combosK_needs_mono :
    ∃ (key : List Nat → Nat) (n : Nat), ¬ KeyMono key ∧
      ¬ ((sortedCombinationsK (fun i => i) key n).map (·.2)).Pairwise (· ≤ ·) :=
  ⟨fun c => 3 - c.length, 2, fun h => absurd (h [0] 1) (by decide), by decide⟩

end WindVerif.Generic
