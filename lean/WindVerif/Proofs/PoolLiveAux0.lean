import WindVerif.Spec.Pool
import WindVerif.Proofs.PoolLifeAux3
/-! Liveness of the pool model (C02): the schedule of the former finding D19 (a factory pool whose workers retired
unreplaced, work-queue bound below the number of workers) — with the repaired `__exit__` it runs on to `done`. -/
namespace WindVerif.Pool

/-- the configuration of the former D19 (the same as `d19Cfg` of `PoolLive`) -/
def d19CfgAux : Cfg :=
  { nWorkers := 2, workCap := some 1, resCap := none, factory := true, quota := some 1, waitReady := false,
    calls := [⟨2, true⟩], beginFault := [], itemFault := [] }

/-- the consumer starts both workers and the call; the feeder sends both chunks (queue bound 1: worker 0 takes the first
in between); both workers deliver and stand at `retire`; the consumer drains the results, leaves the loop and stops and
joins the replace thread; only then the two workers post their ids, run `end()` and exit (two steps each), unreplaced; the first stop order of
`__exit__` fills the work queue, the second `put` finds it full; D19 repaired: every listed worker has an exit code, so the
loop of stop orders is left and the caller is done (the last `.c`; before the repair nobody could move here). -/
def d19Sched : List Tid :=
  [.c, .c, .c, .c, .c, .c, .c, .c, .w 0, .w 0, .w 1, .w 1, .f, .f, .f, .f, .f, .w 0, .f, .f, .f, .f, .f, .f, .f, .w 1,
   .w 0, .w 0, .w 0, .w 1, .w 1, .w 1,
   .c, .c, .c, .c, .c, .c, .c, .c, .c, .c, .c, .c, .c, .c, .c, .c, .c, .c, .r, .c, .w 0, .w 0, .w 1, .w 1, .c, .c, .c]

theorem d19_run_some : (run (init d19CfgAux) d19Sched).isSome = true := by decide +kernel

theorem exit_unblocked_aux : ∃ sched s, run (init d19CfgAux) sched = some s ∧ s.cpc = .done := by
  refine ⟨d19Sched, (run (init d19CfgAux) d19Sched).get d19_run_some, (Option.some_get _).symm, ?_⟩
  decide +kernel

end WindVerif.Pool
