import WindVerif.Spec.Pool
import WindVerif.Proofs.PoolLifeAux3
/-! Liveness of the pool model (C02): the blocking exit outside `ExitCap` (D19), by an explicit schedule. -/
namespace WindVerif.Pool

/-- a worker step needs a worker that is neither unstarted nor gone -/
theorem stepW_none_of_all_exited {s : St} (h : ∀ w ∈ s.workers, w.pc = .exited) (wid : Nat) : stepW s wid = none := by
  unfold stepW
  split
  · rfl
  · rename_i w hg
    rw [h w (getWorker_some hg).1]

/-- the configuration of D19 (the same as `d19Cfg` of `PoolLive`) -/
def d19CfgAux : Cfg :=
  { nWorkers := 2, workCap := some 1, resCap := none, factory := true, quota := some 1, waitReady := false,
    calls := [⟨2, true⟩], beginFault := [], itemFault := [] }

/-- the consumer starts both workers and the call; the feeder sends both chunks (queue bound 1: worker 0 takes the first
in between); both workers deliver and stand at `retire`; the consumer drains the results, leaves the loop and stops and
joins the replace thread; only then the two workers post their ids and exit, unreplaced; the first stop order of
`__exit__` fills the work queue, the second blocks. -/
def d19Sched : List Tid :=
  [.c, .c, .c, .c, .c, .c, .c, .c, .w 0, .w 0, .w 1, .w 1, .f, .f, .f, .f, .f, .w 0, .f, .f, .f, .f, .f, .f, .f, .w 1,
   .w 0, .w 0, .w 0, .w 1, .w 1, .w 1,
   .c, .c, .c, .c, .c, .c, .c, .c, .c, .c, .c, .c, .c, .c, .c, .c, .c, .c, .r, .c, .w 0, .w 1, .c, .c]

theorem d19_run_some : (run (init d19CfgAux) d19Sched).isSome = true := by decide +kernel

theorem exit_can_block_aux :
    ∃ sched s, run (init d19CfgAux) sched = some s ∧ s.cpc ≠ .done ∧ ∀ t, step s t = none := by
  refine ⟨d19Sched, (run (init d19CfgAux) d19Sched).get d19_run_some, (Option.some_get _).symm, ?_, ?_⟩
  · decide +kernel
  · have hall : ∀ w ∈ ((run (init d19CfgAux) d19Sched).get d19_run_some).workers, w.pc = .exited := by
      decide +kernel
    intro t
    cases t with
    | c => decide +kernel
    | f => decide +kernel
    | r => decide +kernel
    | w wid => exact stepW_none_of_all_exited hall wid

end WindVerif.Pool
