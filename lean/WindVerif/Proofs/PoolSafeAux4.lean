import WindVerif.Proofs.PoolSafeAux3
/-!
Auxiliary development for `PoolSafe.lean`, part 4: the invariant is preserved by the steps of the workers, of the replace
thread and of the feeder.
-/
namespace WindVerif.Pool
open List

macro "perm_solve" : tactic => `(tactic| (
  rw [List.perm_iff_count]; intro x
  simp only [List.count_append, List.count_cons, List.count_nil, Option.toList, chunksOf_cons_some, chunksOf_cons_none,
    chunksOf_append, chunksOf_nil]
  omega))

theorem getWorker_wid {s : St} {wid : Nat} {w : Worker} (hg : getWorker s wid = some w) : w.wid = wid := by
  have := find?_some hg
  simpa using this

/-- one worker record is replaced; queues, lock and the replace thread's pc may change -/
theorem safe_setWorkerG (s : St) (h : SafeInv s) (wid : Nat) (w w' : Worker) (hg : getWorker s wid = some w)
    (hw' : w'.wid = wid) (wq' rq' pq' : List (Option Nat)) (lk' : Option Tid) (rpc' : RPc)
    (hp : (chunksOf wq' ++ w'.held.toList ++ chunksOf rq').Perm (chunksOf s.workQ ++ w.held.toList ++ chunksOf s.resQ))
    (hH : HeldOk w') (hns : ∀ nw, rpc' = .start nw → s.rpc = .start nw ∧ w.pc ≠ .notStarted)
    (he : (csig s.cpc).en = true → rpc' = .idle) :
    SafeInv { (setWorker { s with workQ := wq', resQ := rq', replQ := pq', lock := lk' } w') with rpc := rpc' } := by
  rw [safe_iff] at h ⊢
  obtain ⟨hc, hd, ho, hw⟩ := h
  exact ⟨hc, data_perm hd (flight_update hw.wids hg hw' hp), ho,
    wrk_update hw hg (hw'.trans (getWorker_wid hg).symm) hH hns he⟩

theorem safe_setWorker (s : St) (h : SafeInv s) (wid : Nat) (w w' : Worker) (hg : getWorker s wid = some w)
    (hw' : w'.wid = wid) (wq' rq' pq' : List (Option Nat)) (lk' : Option Tid)
    (hp : (chunksOf wq' ++ w'.held.toList ++ chunksOf rq').Perm (chunksOf s.workQ ++ w.held.toList ++ chunksOf s.resQ))
    (hH : HeldOk w') (hns : w.pc ≠ .notStarted) :
    SafeInv (setWorker { s with workQ := wq', resQ := rq', replQ := pq', lock := lk' } w') :=
  safe_setWorkerG s h wid w w' hg hw' wq' rq' pq' lk' s.rpc hp hH (fun _ hr => ⟨hr, hns⟩)
    (((safe_iff s).1 h).2.2.2.enterR)

theorem heldOk_of_none {w : Worker} (h : w.held = none) : HeldOk w := by
  intro hh; simp [h] at hh

theorem workerLoopTop_wid (f : Bool) (w : Worker) : (workerLoopTop f w).wid = w.wid := by
  unfold workerLoopTop workerEnding
  split <;> (try split) <;> rfl

theorem workerLoopTop_held (f : Bool) (w : Worker) (h : w.held = none) : (workerLoopTop f w).held = none := by
  unfold workerLoopTop workerEnding
  split <;> (try split) <;> simp [h]

/-! ## workers -/

theorem safe_stepW (s s' : St) (wid : Nat) (hf : NoFaults s.cfg) (h : SafeInv s) (hs : stepW s wid = some s') :
    SafeInv s' := by
  unfold stepW at hs
  split at hs
  · simp at hs
  · rename_i w hg
    have hwid := getWorker_wid hg
    have hmem : w ∈ s.workers := mem_of_find?_eq_some hg
    have hH := h.heldPc w hmem
    have hb : s.cfg.beginFault.contains wid = false := by rw [hf.1]; rfl
    have hi : ∀ k, s.cfg.itemFault.contains (wid, k) = false := by intro k; rw [hf.2]; rfl
    cases hpc : w.pc <;> rw [hpc] at hs <;> simp only [] at hs
    · simp at hs
    · -- bfClear
      have hnone : w.held = none := by
        cases hh : w.held with
        | none => rfl
        | some i => exact absurd (hH (by simp [hh])) (by simp [hpc])
      rw [hb] at hs
      simp only [Bool.false_eq_true, if_false, Option.some.injEq] at hs
      subst hs
      exact safe_setWorker s h wid w _ hg (by exact hwid) s.workQ s.resQ s.replQ s.lock (Perm.refl _)
        (heldOk_of_none hnone) (by simp [hpc])
    · -- bfSet
      have hnone : w.held = none := by
        cases hh : w.held with
        | none => rfl
        | some i => exact absurd (hH (by simp [hh])) (by simp [hpc])
      simp only [Option.some.injEq] at hs
      subst hs
      have hl := workerLoopTop_held s.cfg.factory { w with pc := .bfSet, bf := true } hnone
      exact safe_setWorker s h wid w _ hg (by exact (workerLoopTop_wid _ _).trans hwid) s.workQ s.resQ s.replQ s.lock
        (by rw [hl, hnone]) (by exact heldOk_of_none hl) (by simp [hpc])
    · -- get
      have hnone : w.held = none := by
        cases hh : w.held with
        | none => rfl
        | some i => exact absurd (hH (by simp [hh])) (by simp [hpc])
      split at hs
      · simp at hs
      · rename_i r hq
        simp only [Option.some.injEq] at hs
        subst hs
        exact safe_setWorker s h wid w _ hg (by exact hwid) r s.resQ s.replQ s.lock
          (by rw [hq, hnone]; simp [workerEnding]) (by exact heldOk_of_none rfl) (by simp [hpc])
      · rename_i i r hq
        simp only [hi, Bool.false_eq_true, if_false, Option.some.injEq] at hs
        subst hs
        refine safe_setWorker s h wid w _ hg (by exact hwid) r s.resQ s.replQ s.lock ?_ ?_ (by simp [hpc])
        · rw [hq, hnone]; perm_solve
        · intro _; left; rfl
    · -- lockAcq
      split at hs
      · simp only [Option.some.injEq] at hs
        subst hs
        refine safe_setWorker s h wid w _ hg (by exact hwid) s.workQ s.resQ s.replQ _ (Perm.refl _) ?_ (by simp [hpc])
        intro _; right; left; rfl
      · simp at hs
    · -- putNowait
      split at hs
      · simp at hs
      · rename_i i hh
        split at hs
        · simp only [Option.some.injEq] at hs
          subst hs
          refine safe_setWorker s h wid w _ hg (by exact hwid) s.workQ s.resQ s.replQ s.lock (Perm.refl _) ?_
            (by simp [hpc])
          intro _; right; right; right; exact ⟨rfl, rfl⟩
        · simp only [Option.some.injEq] at hs
          subst hs
          refine safe_setWorker s h wid w _ hg (by exact hwid) s.workQ _ s.replQ s.lock ?_ (by exact heldOk_of_none rfl)
            (by simp [hpc])
          rw [hh]; perm_solve
    · -- lockRel
      split at hs
      · simp only [Option.some.injEq] at hs
        subst hs
        refine safe_setWorker s h wid w _ hg (by exact hwid) s.workQ s.resQ s.replQ none (Perm.refl _) ?_ (by simp [hpc])
        intro _; right; right; left; rfl
      · rename_i hfull
        have hnone : w.held = none := by
          cases hh : w.held with
          | none => rfl
          | some i =>
            have := hH (by simp [hh])
            simp [hpc, hfull] at this
        simp only [Option.some.injEq] at hs
        subst hs
        have hl := workerLoopTop_held s.cfg.factory
          { w with pc := .lockRel, done := w.done + 1, quota := w.quota.map (· - 1) } hnone
        exact safe_setWorker s h wid w _ hg (by exact (workerLoopTop_wid _ _).trans hwid) s.workQ s.resQ s.replQ none
          (by rw [hl, hnone]) (by exact heldOk_of_none hl) (by simp [hpc])
    · -- putBlock
      split at hs
      · simp at hs
      · rename_i i hh
        split at hs
        · simp at hs
        · simp only [Option.some.injEq] at hs
          subst hs
          have hl := workerLoopTop_held s.cfg.factory
            { w with pc := .putBlock, full := false, held := none, done := w.done + 1, quota := w.quota.map (· - 1) } rfl
          refine safe_setWorker s h wid w _ hg (by exact (workerLoopTop_wid _ _).trans hwid) s.workQ _ s.replQ s.lock
            ?_ (by exact heldOk_of_none hl) (by simp [hpc])
          rw [hl, hh]; perm_solve
    · -- retire
      have hnone : w.held = none := by
        cases hh : w.held with
        | none => rfl
        | some i => exact absurd (hH (by simp [hh])) (by simp [hpc])
      simp only [Option.some.injEq] at hs
      subst hs
      exact safe_setWorker s h wid w _ hg (by exact hwid) s.workQ s.resQ _ s.lock
        (by rw [hnone]; simp [workerEnding]) (by exact heldOk_of_none rfl) (by simp [hpc])
    · -- ending
      have hnone : w.held = none := by
        cases hh : w.held with
        | none => rfl
        | some i => exact absurd (hH (by simp [hh])) (by simp [hpc])
      simp only [Option.some.injEq] at hs
      subst hs
      exact safe_setWorker s h wid w _ hg (by exact hwid) s.workQ s.resQ s.replQ s.lock
        (by rw [hnone]; simp [workerExit]) (by exact heldOk_of_none rfl) (by simp [hpc])
    · simp at hs

/-! ## replace thread -/

theorem safe_rpc (s : St) (h : SafeInv s) (pq' : List (Option Nat)) (rpc' : RPc) (ra' : Bool)
    (hs : ∀ nw, rpc' = .start nw → s.rpc = .start nw) (he : (csig s.cpc).en = true → rpc' = .idle) :
    SafeInv { s with replQ := pq', rpc := rpc', rAlive := ra' } := by
  rw [safe_iff] at h ⊢
  obtain ⟨hc, hd, ho, hw⟩ := h
  exact ⟨hc, hd, ho, wrk_rpc hw hs he⟩

theorem safe_join (s : St) (h : SafeInv s) (wid : Nat) (hr : s.rpc = .join wid) (procs' : List Nat) :
    SafeInv { s with workers := s.workers ++ [mkWorker s.cfg s.widCounter], widCounter := s.widCounter + 1,
                     procs := procs', rpc := .start s.widCounter } := by
  rw [safe_iff] at h ⊢
  obtain ⟨hc, hd, ho, hw⟩ := h
  rw [hr] at hw
  refine ⟨hc, data_perm hd ?_, ho, wrk_join hw⟩
  show (flightL s.workQ (s.workers ++ [mkWorker s.cfg s.widCounter]) s.resQ).Perm _
  unfold flightL
  rw [heldL_append]
  simp [heldL, mkWorker]

theorem safe_stepR (s s' : St) (h : SafeInv s) (hs : stepR s = some s') : SafeInv s' := by
  unfold stepR at hs
  split at hs
  · simp at hs
  · have hw := ((safe_iff s).1 h).2.2.2
    cases hrpc : s.rpc <;> rw [hrpc] at hs <;> simp only [] at hs
    · simp at hs
    · -- get
      have hen : (csig s.cpc).en = true → False := by
        intro he; have := hw.enterR he; simp [hrpc] at this
      split at hs
      · simp at hs
      · simp only [Option.some.injEq] at hs
        subst hs
        exact safe_rpc s h _ .idle false (by simp) (fun _ => rfl)
      · simp only [Option.some.injEq] at hs
        subst hs
        exact safe_rpc s h _ (.join _) s.rAlive (by simp) (fun he => absurd he (by simpa using hen))
    · -- join
      rename_i wid
      split at hs
      · simp only [Option.some.injEq] at hs
        subst hs
        exact safe_join s h wid hrpc _
      · simp at hs
    · -- start
      rename_i nw
      split at hs
      · simp at hs
      · rename_i w hg
        simp only [Option.some.injEq] at hs
        subst hs
        have hmem : w ∈ s.workers := mem_of_find?_eq_some hg
        have hns : w.pc = .notStarted := h.startFresh nw hrpc w hmem (getWorker_wid hg)
        have hnone : w.held = none := by
          cases hh : w.held with
          | none => rfl
          | some i => exact absurd (h.heldPc w hmem (by simp [hh])) (by simp [hns])
        have hen : (csig s.cpc).en = true → False := by
          intro he; have := hw.enterR he; simp [hrpc] at this
        exact safe_setWorkerG s h nw w _ hg (by exact (getWorker_wid hg : w.wid = nw)) s.workQ s.resQ s.replQ s.lock .get (Perm.refl _)
          (by exact heldOk_of_none hnone) (by simp) (fun he => absurd he (by simpa using hen))

/-! ## feeder -/

theorem safe_F (s : St) (wq' rq' : List (Option Nat)) (sd' : Bool) (dc' fr' fn' : Nat) (fpc' : FPc) (fa' : Bool)
    (h : SafeInv s)
    (hc : CtlV (csig s.cpc) s.cur fpc' sd' dc' fn' s.fTotal fr' fa' s.fStop s.finished)
    (hd : DataV (csig s.cpc).be s.cur (sentV (csig s.cpc).pre s.cur fpc' fn' s.fTotal) (flightL wq' s.workers rq')
      s.batch s.buffer s.finished s.wf (curOutL s.out s.callNo)) :
    SafeInv { s with workQ := wq', resQ := rq', sending := sd', dataCnt := dc', fRead := fr', fpc := fpc', fNext := fn',
                     fAlive := fa' } := by
  rw [safe_iff] at h ⊢
  exact ⟨hc, hd, h.2.2.1, h.2.2.2⟩

theorem flight_workQ_none (wq : List (Option Nat)) (ws : List Worker) (rq : List (Option Nat)) :
    flightL (wq ++ [none]) ws rq = flightL wq ws rq := by simp [flightL]

theorem flight_resQ_none (wq : List (Option Nat)) (ws : List Worker) (rq : List (Option Nat)) :
    flightL wq ws (rq ++ [none]) = flightL wq ws rq := by simp [flightL]

theorem safe_stepF (s s' : St) (h : SafeInv s) (hs : stepF s = some s') : SafeInv s' := by
  unfold stepF at hs
  split at hs
  · simp at hs
  · have hv := (safe_iff s).1 h
    obtain ⟨hc, hd, -, -⟩ := hv
    cases hfpc : s.fpc <;> rw [hfpc] at hs hc hd <;> simp only [] at hs
    · simp at hs
    · -- put
      split at hs
      · simp at hs
      · simp only [Option.some.injEq] at hs
        subst hs
        obtain ⟨hpre, hcur⟩ := ctl_running hc (by simp)
        refine safe_F s _ s.resQ s.sending s.dataCnt s.fRead s.fNext .rdCnt s.fAlive h (ctl_F_put hc) ?_
        obtain ⟨c, hcc⟩ := Option.isSome_iff_exists.1 hcur
        rw [hpre, hcc] at hd ⊢
        simp only [sentV, Bool.false_or, Option.isNone_some, Bool.false_eq_true, if_false] at hd ⊢
        refine data_put hd rfl ?_
        unfold flightL
        perm_solve
    · -- rdCnt
      simp only [Option.some.injEq] at hs
      subst hs
      exact safe_F s s.workQ s.resQ s.sending s.dataCnt s.dataCnt s.fNext .wrCnt s.fAlive h (ctl_F_rdCnt hc)
        (data_n hd (fun _ => by simp [sentV]))
    · -- wrCnt
      simp only [Option.some.injEq] at hs
      subst hs
      exact safe_F s s.workQ s.resQ s.sending (s.fRead + 1) s.fRead s.fNext .stopIsSet s.fAlive h (ctl_F_wrCnt hc)
        (data_n hd (fun _ => by simp [sentV]))
    · -- stopIsSet
      have hfs := ctl_F_stop_false hc
      split at hs
      · rename_i hst
        rw [hfs] at hst
        simp at hst
      · simp only [Option.some.injEq] at hs
        subst hs
        exact safe_F s s.workQ s.resQ s.sending s.dataCnt s.fRead s.fNext .runWait s.fAlive h (ctl_F_stopIsSet hc)
          (data_n hd (fun _ => by simp [sentV]))
    · -- runWait
      split at hs
      · split at hs
        · rename_i hlt
          simp only [Option.some.injEq] at hs
          subst hs
          exact safe_F s s.workQ s.resQ s.sending s.dataCnt s.fRead (s.fNext + 1) .put s.fAlive h
            (ctl_F_runWait1 hc hlt) (data_n hd (fun _ => by simp [sentV]))
        · rename_i hlt
          simp only [Option.some.injEq] at hs
          subst hs
          obtain ⟨hpre, hcur⟩ := ctl_running hc (by simp)
          have := (hc.cntAfter hpre hcur (Or.inr rfl)).2
          exact safe_F s s.workQ s.resQ s.sending s.dataCnt s.fRead (s.fNext + 1) .wrSending s.fAlive h
            (ctl_F_runWait2 hc hlt) (data_n hd (fun _ => by
              obtain ⟨c, hcc⟩ := Option.isSome_iff_exists.1 hcur
              rw [hpre, hcc]
              simp only [sentV, Bool.false_or, Option.isNone_some, Bool.false_eq_true, if_false]
              omega))
      · simp at hs
    · -- wrSending
      simp only [Option.some.injEq] at hs
      subst hs
      exact safe_F s s.workQ s.resQ false s.dataCnt s.fRead s.fNext .token s.fAlive h (ctl_F_wrSending hc)
        (data_n hd (fun _ => by simp [sentV]))
    · -- token
      simp only [Option.some.injEq] at hs
      subst hs
      split
      · exact safe_F s s.workQ s.resQ s.sending s.dataCnt s.fRead s.fNext .idle false h (ctl_F_token hc)
          (data_n hd (fun _ => by simp [sentV]))
      · refine safe_F s s.workQ _ s.sending s.dataCnt s.fRead s.fNext .idle false h (ctl_F_token hc) ?_
        rw [flight_resQ_none]
        exact data_n hd (fun _ => by simp [sentV])

end WindVerif.Pool
