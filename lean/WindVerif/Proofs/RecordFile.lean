import WindVerif.Proofs.Records
import WindVerif.Proofs.LineFile
/-! Record files: the line-file theorems (C11/C12) composed with the csv round trip (C13). -/
namespace WindVerif.Records
open WindVerif.LineFile

/-- the line a mutable record file holds for a record after `f[i] = r` (that is `r.save()`), as `save()` writes it:
`line.rstrip("\n")` followed by the default line ending -/
def savedLine (d : Char) (r : List Str) : Str := rstripNL (writeRow d r) ++ ['\n']

theorem rstripNL_writeRow (d : Char) (hd : IsDelim d) (r : List Str) (h : ∀ f ∈ r, Clean f) :
    rstripNL (writeRow d r) = (writeRow d r).dropLast ∧ '\n' ∉ (writeRow d r).dropLast := by
  obtain ⟨body, hb, hn, _⟩ := csv_single_line d hd r h
  have hdl : (writeRow d r).dropLast = body ++ ['\r'] := by
    rw [hb]; simp [List.dropLast_append_of_ne_nil]
  have hnot : '\n' ∉ body ++ ['\r'] := by
    simp only [List.mem_append, List.mem_singleton, not_or]
    exact ⟨hn, by decide⟩
  refine ⟨?_, by rw [hdl]; exact hnot⟩
  rw [hdl, hb]
  -- rstripNL (body ++ "\r\n") = body ++ "\r": the reversed list starts with '\n' followed by '\r'
  unfold rstripNL
  simp [List.reverse_append, List.dropWhile]

/-- edit, save, reopen: the `'\n'`-delimited lines of the saved file, each parsed by the record class, are exactly the
records that were stored — for every list of records whose fields contain no line breaks -/
theorem record_file_roundtrip (d : Char) (hd : IsDelim d) (rs : List (List Str)) (h : ∀ r ∈ rs, ∀ f ∈ r, Clean f) :
    (refLines ((rs.map (savedLine d)).flatten)).map (parseRow d) = rs.map Except.ok := by
  have hls : ∀ l ∈ rs.map (fun r => (writeRow d r).dropLast), '\n' ∉ l := by
    intro l hl
    obtain ⟨r, hr, rfl⟩ := List.mem_map.mp hl
    exact (rstripNL_writeRow d hd r (h r hr)).2
  have hrt := reopen_roundtrip (rs.map (fun r => (writeRow d r).dropLast)) hls
  have hsame : (rs.map (savedLine d)) =
      ((rs.map (fun r => (writeRow d r).dropLast)).map (fun l => rstripNL l ++ ['\n'])) := by
    rw [List.map_map]
    apply List.map_congr_left
    intro r hr
    have h1 := rstripNL_writeRow d hd r (h r hr)
    simp only [savedLine, Function.comp, h1.1]
    -- rstripNL of a list without '\n' is the list itself
    have : rstripNL ((writeRow d r).dropLast) = (writeRow d r).dropLast := by
      have hno := h1.2
      unfold rstripNL
      have : ((writeRow d r).dropLast).reverse.dropWhile (· = '\n') = ((writeRow d r).dropLast).reverse := by
        cases hrev : ((writeRow d r).dropLast).reverse with
        | nil => simp
        | cons c t =>
          have hc : c ∈ (writeRow d r).dropLast := by
            have : c ∈ ((writeRow d r).dropLast).reverse := by rw [hrev]; simp
            simpa using this
          have : c ≠ '\n' := fun e => hno (e ▸ hc)
          simp [List.dropWhile, this]
      rw [this, List.reverse_reverse]
    rw [this]
  rw [hsame, hrt, List.map_map]
  apply List.map_congr_left
  intro r hr
  simp only [Function.comp]
  exact csv_roundtrip_cr d hd r (h r hr)

end WindVerif.Records
