import WindVerif.Proofs.PoolLiveAux1
/-! Liveness of the pool model (C02): what a worker step does, in a form all preservation proofs share. -/
namespace WindVerif.Pool

/-- fields a worker step never touches -/
structure WSame (s s' : St) : Prop where
  cfg : s'.cfg = s.cfg
  cpc : s'.cpc = s.cpc
  procs : s'.procs = s.procs
  rpc : s'.rpc = s.rpc
  rAlive : s'.rAlive = s.rAlive
  widCounter : s'.widCounter = s.widCounter
  sending : s'.sending = s.sending
  dataCnt : s'.dataCnt = s.dataCnt
  fRun : s'.fRun = s.fRun
  fStop : s'.fStop = s.fStop
  cur : s'.cur = s.cur
  callsLeft : s'.callsLeft = s.callsLeft
  callNo : s'.callNo = s.callNo
  finished : s'.finished = s.finished
  batch : s'.batch = s.batch
  woken : s'.woken = s.woken
  buffer : s'.buffer = s.buffer
  wf : s'.wf = s.wf
  out : s'.out = s.out
  fpc : s'.fpc = s.fpc
  fNext : s'.fNext = s.fNext
  fTotal : s'.fTotal = s.fTotal
  fAlive : s'.fAlive = s.fAlive
  fRead : s'.fRead = s.fRead

/-- the kinds of worker steps (no faults; quota ≥ 1): `w` before, `w'` after -/
inductive WKind (s s' : St) (w w' : Worker) : Prop
  | bfClear (hpc : w.pc = .bfClear) (hpc' : w'.pc = .bfSet) (hh : w'.held = w.held) (hfl : w'.full = w.full)
      (hbf : w'.bf = false) (hwq : s'.workQ = s.workQ) (hrq : s'.resQ = s.resQ) (hpq : s'.replQ = s.replQ)
      (hlk : s'.lock = s.lock)
  | bfSet (hpc : w.pc = .bfSet) (hpc' : w'.pc = .get) (hh : w'.held = w.held) (hfl : w'.full = w.full)
      (hbf : w'.bf = true) (hwq : s'.workQ = s.workQ) (hrq : s'.resQ = s.resQ) (hpq : s'.replQ = s.replQ)
      (hlk : s'.lock = s.lock)
  | getNone (hpc : w.pc = .get) (hpc' : w'.pc = .ending) (hh : w'.held = none) (hfl : w'.full = w.full)
      (hbf : w'.bf = w.bf) (hwq : s.workQ = none :: s'.workQ) (hrq : s'.resQ = s.resQ) (hpq : s'.replQ = s.replQ)
      (hlk : s'.lock = s.lock)
  | getSome (i : Nat) (hpc : w.pc = .get) (hpc' : w'.pc = .lockAcq) (hh : w'.held = some i) (hfl : w'.full = w.full)
      (hbf : w'.bf = w.bf) (hwq : s.workQ = some i :: s'.workQ) (hrq : s'.resQ = s.resQ) (hpq : s'.replQ = s.replQ)
      (hlk : s'.lock = s.lock)
  | lockAcq (hpc : w.pc = .lockAcq) (hpc' : w'.pc = .putNowait) (hh : w'.held = w.held) (hfl : w'.full = w.full)
      (hbf : w'.bf = w.bf) (hwq : s'.workQ = s.workQ) (hrq : s'.resQ = s.resQ) (hpq : s'.replQ = s.replQ)
      (hlk : s.lock = none) (hlk' : s'.lock = some (.w w.wid))
  | putFull (i : Nat) (hpc : w.pc = .putNowait) (hpc' : w'.pc = .lockRel) (hheld : w.held = some i) (hh : w'.held = w.held)
      (hfl : w'.full = true) (hbf : w'.bf = w.bf) (hcap : capFull s.cfg.resCap s.resQ = true)
      (hwq : s'.workQ = s.workQ) (hrq : s'.resQ = s.resQ) (hpq : s'.replQ = s.replQ) (hlk : s'.lock = s.lock)
  | putOk (i : Nat) (hpc : w.pc = .putNowait) (hpc' : w'.pc = .lockRel) (hheld : w.held = some i) (hh : w'.held = none)
      (hfl : w'.full = false) (hbf : w'.bf = w.bf) (hcap : capFull s.cfg.resCap s.resQ = false)
      (hwq : s'.workQ = s.workQ) (hrq : s'.resQ = s.resQ ++ [some i]) (hpq : s'.replQ = s.replQ) (hlk : s'.lock = s.lock)
  | relFull (hpc : w.pc = .lockRel) (hfull : w.full = true) (hpc' : w'.pc = .putBlock) (hh : w'.held = w.held)
      (hfl : w'.full = w.full) (hbf : w'.bf = w.bf) (hwq : s'.workQ = s.workQ) (hrq : s'.resQ = s.resQ)
      (hpq : s'.replQ = s.replQ) (hlk' : s'.lock = none)
  | relOk (hpc : w.pc = .lockRel) (hfull : w.full = false)
      (hpc' : w'.pc = .get ∨ (w'.pc = .retire ∧ s.cfg.factory = true)) (hh : w'.held = w.held)
      (hfl : w'.full = w.full) (hbf : w'.bf = w.bf) (hwq : s'.workQ = s.workQ) (hrq : s'.resQ = s.resQ)
      (hpq : s'.replQ = s.replQ) (hlk' : s'.lock = none)
  | putBlock (i : Nat) (hpc : w.pc = .putBlock) (hheld : w.held = some i)
      (hpc' : w'.pc = .get ∨ (w'.pc = .retire ∧ s.cfg.factory = true)) (hh : w'.held = none)
      (hfl : w'.full = false) (hbf : w'.bf = w.bf) (hcap : capFull s.cfg.resCap s.resQ = false)
      (hwq : s'.workQ = s.workQ) (hrq : s'.resQ = s.resQ ++ [some i]) (hpq : s'.replQ = s.replQ) (hlk : s'.lock = s.lock)
  -- the wid is posted, `end()` is still to run
  | retireT (hpc : w.pc = .retire) (hpc' : w'.pc = .ending) (hh : w'.held = none) (hfl : w'.full = w.full)
      (hbf : w'.bf = w.bf) (hwq : s'.workQ = s.workQ) (hrq : s'.resQ = s.resQ) (hpq : s'.replQ = s.replQ ++ [some w.wid])
      (hlk : s'.lock = s.lock)
  -- `end()` and the exit of a worker that has taken a stop order / posted its wid
  | ending (hpc : w.pc = .ending) (hpc' : w'.pc = .exited) (hh : w'.held = none) (hfl : w'.full = w.full)
      (hbf : w'.bf = w.bf) (hwq : s'.workQ = s.workQ) (hrq : s'.resQ = s.resQ) (hpq : s'.replQ = s.replQ)
      (hlk : s'.lock = s.lock)

/-- a worker step: who moved, and how -/
structure WStep (s s' : St) (wid : Nat) (w w' : Worker) : Prop where
  get : getWorker s wid = some w
  mem : w ∈ s.workers
  wid : w.wid = wid
  wid' : w'.wid = w.wid
  workers : s'.workers = upd w.wid w' s.workers
  same : WSame s s'
  kind : WKind s s' w w'

theorem WSame_set (s0 s : St) (w' : Worker) (h : WSame s s0) : WSame s (setWorker s0 w') :=
  ⟨h.cfg, h.cpc, h.procs, h.rpc, h.rAlive, h.widCounter, h.sending, h.dataCnt, h.fRun, h.fStop, h.cur, h.callsLeft,
    h.callNo, h.finished, h.batch, h.woken, h.buffer, h.wf, h.out, h.fpc, h.fNext, h.fTotal, h.fAlive, h.fRead⟩

theorem WSame_refl (s : St) : WSame s s :=
  ⟨rfl, rfl, rfl, rfl, rfl, rfl, rfl, rfl, rfl, rfl, rfl, rfl, rfl, rfl, rfl, rfl, rfl, rfl, rfl, rfl, rfl, rfl, rfl, rfl⟩

theorem workerLoopTop_cases (f : Bool) (w : Worker) :
    ((workerLoopTop f w).pc = .get ∨ ((workerLoopTop f w).pc = .retire ∧ f = true) ∨
      ((workerLoopTop f w).pc = .ending ∧ f = false ∧ w.quota = some 0)) ∧
    ((workerLoopTop f w).pc ≠ .ending → (workerLoopTop f w).held = w.held) ∧
    (workerLoopTop f w).full = w.full ∧ (workerLoopTop f w).bf = w.bf ∧ (workerLoopTop f w).wid = w.wid := by
  unfold workerLoopTop workerEnding
  split
  · rename_i hq
    cases f <;> simp [hq]
  · simp

theorem WStep_mk {s s0 : St} {wid : Nat} {w w' : Worker} (hg : getWorker s wid = some w) (hwid' : w'.wid = w.wid)
    (hsame : WSame s s0) (hws : s0.workers = s.workers) (hk : WKind s (setWorker s0 w') w w') :
    WStep s (setWorker s0 w') wid w w' :=
  ⟨hg, (getWorker_some hg).1, (getWorker_some hg).2, hwid', by rw [setWorker_workers, hwid', hws], WSame_set _ _ _ hsame, hk⟩

theorem stepW_cases {s s' : St} {wid : Nat} (hf : NoFaults s.cfg) (hwc : WellCfg s.cfg) (hL : LInv s)
    (h : stepW s wid = some s') : ∃ w w', WStep s s' wid w w' := by
  have : ∃ w, getWorker s wid = some w := by
    cases hg : getWorker s wid with
    | none => simp [stepW, hg] at h
    | some w => exact ⟨w, rfl⟩
  obtain ⟨w, hg⟩ := this
  obtain ⟨hwm, hwid⟩ := getWorker_some hg
  have hW := hL.wk w hwm
  have hbegin : s.cfg.beginFault.contains wid = false := by rw [hf.1]; rfl
  have hitem : ∀ k, s.cfg.itemFault.contains (wid, k) = false := by intro k; rw [hf.2]; rfl
  -- the loop top never ends a worker of a plain pool, nor retires a worker that has done nothing
  have hplain : s.cfg.factory = false → w.quota = none := by
    intro hfac
    rw [hW.quota]
    cases hq : s.cfg.quota with
    | none => rfl
    | some q => have := (hwc.2.2.1 q hq).2; rw [hfac] at this; cases this
  have hloop : ∀ w1 : Worker, (w1.quota = w.quota.map (· - 1)) →
      ((workerLoopTop s.cfg.factory w1).pc = .get ∨ ((workerLoopTop s.cfg.factory w1).pc = .retire ∧ s.cfg.factory = true)) ∧
      (workerLoopTop s.cfg.factory w1).held = w1.held ∧ (workerLoopTop s.cfg.factory w1).full = w1.full ∧
      (workerLoopTop s.cfg.factory w1).bf = w1.bf ∧ (workerLoopTop s.cfg.factory w1).wid = w1.wid := by
    intro w1 hq1
    obtain ⟨h1, h2, h3, h4, h5⟩ := workerLoopTop_cases s.cfg.factory w1
    have hpc' : (workerLoopTop s.cfg.factory w1).pc = .get ∨ ((workerLoopTop s.cfg.factory w1).pc = .retire ∧ s.cfg.factory = true) := by
      rcases h1 with h1 | h1 | ⟨_, hfac, hq⟩
      · exact Or.inl h1
      · exact Or.inr h1
      · exfalso; rw [hq1, hplain hfac] at hq; cases hq
    refine ⟨hpc', h2 ?_, h3, h4, h5⟩
    rcases hpc' with h | ⟨h, _⟩ <;> rw [h] <;> simp
  simp only [stepW, hg] at h
  cases hpc : w.pc <;> simp only [hpc] at h
  case notStarted => cases h
  case exited => cases h
  case bfClear =>
    simp only [hbegin, Bool.false_eq_true, if_false, Option.some.injEq] at h; subst h
    exact ⟨w, _, WStep_mk hg rfl (WSame_refl s) rfl (.bfClear hpc rfl rfl rfl rfl rfl rfl rfl rfl)⟩
  case bfSet =>
    simp only [Option.some.injEq] at h; subst h
    obtain ⟨h1, h2, h3, h4, h5⟩ := workerLoopTop_cases s.cfg.factory { w with pc := .bfSet, bf := true }
    have hget : (workerLoopTop s.cfg.factory { w with pc := .bfSet, bf := true }).pc = .get := by
      have hq0 : w.quota ≠ some 0 := by
        rw [hW.quota]
        have hd : w.done = 0 := by have := hW.cnt; simp only [hpc] at this; exact this.1
        cases hq : s.cfg.quota with
        | none => simp
        | some q => have := (hwc.2.2.1 q hq).1; simp [hd]; omega
      unfold workerLoopTop
      split
      · rename_i hq; exact absurd hq hq0
      · rfl
    exact ⟨w, _, WStep_mk hg h5 (WSame_refl s) rfl (.bfSet hpc hget (h2 (by rw [hget]; simp)) h3 h4 rfl rfl rfl rfl)⟩
  case get =>
    split at h
    · cases h
    · rename_i r hq
      simp only [Option.some.injEq] at h; subst h
      exact ⟨w, _, WStep_mk hg rfl (by constructor <;> rfl) rfl (.getNone hpc rfl rfl rfl rfl hq rfl rfl rfl)⟩
    · rename_i i r hq
      simp only [hitem, Bool.false_eq_true, if_false, Option.some.injEq] at h; subst h
      exact ⟨w, _, WStep_mk hg rfl (by constructor <;> rfl) rfl (.getSome i hpc rfl rfl rfl rfl hq rfl rfl rfl)⟩
  case lockAcq =>
    split at h
    · rename_i hl
      simp only [Option.some.injEq] at h; subst h
      exact ⟨w, _, WStep_mk hg rfl (by constructor <;> rfl) rfl
        (.lockAcq hpc rfl rfl rfl rfl rfl rfl rfl (by simpa using hl) (by rw [hwid]; rfl))⟩
    · cases h
  case putNowait =>
    split at h
    · cases h
    · rename_i i hheld
      split at h
      · rename_i hcap
        simp only [Option.some.injEq] at h; subst h
        exact ⟨w, _, WStep_mk hg rfl (WSame_refl s) rfl (.putFull i hpc rfl hheld rfl rfl rfl hcap rfl rfl rfl rfl)⟩
      · rename_i hcap
        simp only [Option.some.injEq] at h; subst h
        exact ⟨w, _, WStep_mk hg rfl (by constructor <;> rfl) rfl
          (.putOk i hpc rfl hheld rfl rfl rfl (by simpa using hcap) rfl rfl rfl rfl)⟩
  case lockRel =>
    split at h
    · rename_i hfull
      simp only [Option.some.injEq] at h; subst h
      exact ⟨w, _, WStep_mk hg rfl (by constructor <;> rfl) rfl (.relFull hpc hfull rfl rfl rfl rfl rfl rfl rfl rfl)⟩
    · rename_i hfull
      simp only [Option.some.injEq] at h; subst h
      obtain ⟨h1, h2, h3, h4, h5⟩ := hloop { w with pc := .lockRel, done := w.done + 1, quota := w.quota.map (· - 1) } rfl
      exact ⟨w, _, WStep_mk hg h5 (by constructor <;> rfl) rfl (.relOk hpc (by simpa using hfull) h1 h2 h3 h4 rfl rfl rfl rfl)⟩
  case putBlock =>
    split at h
    · cases h
    · rename_i i hheld
      split at h
      · cases h
      · rename_i hcap
        simp only [Option.some.injEq] at h; subst h
        obtain ⟨h1, h2, h3, h4, h5⟩ := hloop
          { w with pc := .putBlock, full := false, held := none, done := w.done + 1, quota := w.quota.map (· - 1) } rfl
        exact ⟨w, _, WStep_mk hg h5 (by constructor <;> rfl) rfl
          (.putBlock i hpc hheld h1 h2 h3 h4 (by simpa using hcap) rfl rfl rfl rfl)⟩
  case retire =>
    simp only [Option.some.injEq] at h; subst h
    exact ⟨w, _, WStep_mk hg rfl (by constructor <;> rfl) rfl (.retireT hpc rfl rfl rfl rfl rfl rfl (by rw [hwid]; rfl) rfl)⟩
  case ending =>
    simp only [Option.some.injEq] at h; subst h
    exact ⟨w, _, WStep_mk hg rfl (WSame_refl s) rfl (.ending hpc rfl rfl rfl rfl rfl rfl rfl rfl)⟩

/-! ### counting over the worker list -/

theorem countP_upd {l : List Worker} (p : Worker → Bool) (hnd : (l.map (·.wid)).Nodup) {w w' : Worker} (hw : w ∈ l) :
    (upd w.wid w' l).countP p + (if p w then 1 else 0) = l.countP p + (if p w' then 1 else 0) := by
  induction l with
  | nil => cases hw
  | cons x r ih =>
    simp only [List.map_cons, List.nodup_cons, List.mem_map, not_exists, not_and] at hnd
    have hupd : upd w.wid w' (x :: r) = (if x.wid = w.wid then w' else x) :: upd w.wid w' r := rfl
    rcases List.mem_cons.1 hw with rfl | hw'
    · -- the head is the worker; the tail is untouched
      have htail : upd w.wid w' r = r := by
        unfold upd
        conv => rhs; rw [← List.map_id r]
        apply List.map_congr_left
        intro y hy
        have : y.wid ≠ w.wid := fun e => hnd.1 y hy e
        simp [this]
      rw [hupd, htail]
      simp only [if_true, List.countP_cons]
      omega
    · have hne : x.wid ≠ w.wid := fun e => hnd.1 w hw' e.symm
      rw [hupd, if_neg hne]
      simp only [List.countP_cons]
      have := ih hnd.2 hw'
      omega

theorem liveCnt_upd {s s' : St} {w w' : Worker} (hL : LInv s) (hw : w ∈ s.workers) (h : s'.workers = upd w.wid w' s.workers) :
    liveCnt s' + (if gone w.pc = true then 0 else 1) = liveCnt s + (if gone w'.pc = true then 0 else 1) := by
  unfold liveCnt; rw [h]
  have := countP_upd (fun x => !gone x.pc) hL.nodup (w' := w') hw
  cases h1 : gone w.pc <;> cases h2 : gone w'.pc <;> simp [h1, h2] at this ⊢ <;> omega

end WindVerif.Pool
