import WindVerif.Model.GenericEq
/-! Theorems about `sub_seq` / `search_sub_seq` over elements whose equality is an arbitrary relation (C19). -/
namespace WindVerif.Generic
open List

/-! ### the list comparison -/

theorem listEq_nil_nil (eqv : Nat → Nat → Bool) : listEq eqv [] [] = true := rfl

theorem listEq_nil_cons (eqv : Nat → Nat → Bool) (b : Nat) (bs : List Nat) : listEq eqv [] (b :: bs) = false := by
  simp [listEq]

theorem listEq_cons_nil (eqv : Nat → Nat → Bool) (a : Nat) (as : List Nat) : listEq eqv (a :: as) [] = false := by
  simp [listEq]

theorem listEq_cons_cons (eqv : Nat → Nat → Bool) (a b : Nat) (as bs : List Nat) :
    listEq eqv (a :: as) (b :: bs) = (pyEq eqv a b && listEq eqv as bs) := by
  simp only [listEq, List.length_cons, List.zip_cons_cons, List.all_cons]
  have h : (as.length + 1 == bs.length + 1) = (as.length == bs.length) := by
    by_cases h : as.length = bs.length <;> simp [h]
  rw [h, Bool.and_left_comm]

/-- the comparison is: same length, and every pair of items at the same position is identical or equal -/
theorem listEq_iff (eqv : Nat → Nat → Bool) : ∀ (a b : List Nat),
    listEq eqv a b = true ↔
      (a.length = b.length ∧ ∀ i (ha : i < a.length) (hb : i < b.length), pyEq eqv a[i] b[i] = true)
  | [], [] => by simp [listEq_nil_nil]
  | [], b :: bs => by simp [listEq_nil_cons]
  | a :: as, [] => by simp [listEq_cons_nil]
  | a :: as, b :: bs => by
    rw [listEq_cons_cons, Bool.and_eq_true, listEq_iff eqv as bs]
    constructor
    · rintro ⟨h0, hl, hi⟩
      refine ⟨by simp [hl], ?_⟩
      intro i ha hb
      cases i with
      | zero => simpa using h0
      | succ i => simpa using hi i (by simpa using ha) (by simpa using hb)
    · rintro ⟨hl, hi⟩
      have h0 := hi 0 (Nat.succ_pos _) (Nat.succ_pos _)
      simp only [List.getElem_cons_zero] at h0
      refine ⟨h0, by simpa using hl, ?_⟩
      intro i ha hb
      have hs := hi (i + 1) (Nat.succ_lt_succ ha) (Nat.succ_lt_succ hb)
      simp only [List.getElem_cons_succ] at hs
      exact hs

/-- a list equals itself whatever the elements' `==` says: the items are identical -/
theorem listEq_refl (eqv : Nat → Nat → Bool) (l : List Nat) : listEq eqv l l = true := by
  rw [listEq_iff]
  exact ⟨rfl, fun i _ _ => by simp [pyEq]⟩

/-! ### sub_seq -/

theorem subSeqE_iff (eqv : Nat → Nat → Bool) (s1 s2 : List Nat) :
    subSeqE eqv s1 s2 = true ↔
      ∃ o, o + s1.length ≤ s2.length ∧ listEq eqv s1 (windowN s2 o s1.length) = true := by
  unfold subSeqE
  simp only [Bool.and_eq_true, decide_eq_true_eq, List.any_eq_true, List.mem_range]
  constructor
  · rintro ⟨hl, o, ho, h⟩
    exact ⟨o, by omega, h⟩
  · rintro ⟨o, ho, h⟩
    exact ⟨by omega, o, by omega, h⟩

theorem windowN_infix (s s1 t : List Nat) : windowN (s ++ s1 ++ t) s.length s1.length = s1 := by
  simp [windowN]

/-- a pattern that occurs as the same objects is found, whatever the elements' `==` is (the NaN case) -/
theorem subSeqE_of_infix (eqv : Nat → Nat → Bool) (s1 s2 : List Nat) (h : s1 <:+: s2) : subSeqE eqv s1 s2 = true := by
  obtain ⟨s, t, rfl⟩ := h
  refine (subSeqE_iff eqv s1 _).mpr ⟨s.length, by simp, ?_⟩
  rw [windowN_infix]
  exact listEq_refl eqv s1

/-! ### search_sub_seq -/

theorem searchStepE_eq (eqv : Nat → Nat → Bool) (s1 s2 : List Nat) (res : List (Nat × Nat)) (o : Nat) :
    searchStepE eqv s1 s2 res o =
      if listEq eqv s1 (windowN s2 o s1.length) then res ++ [(o, o + s1.length)] else res := by
  simp only [searchStepE, Nat.add_sub_cancel_left]

theorem search_foldl (eqv : Nat → Nat → Bool) (s1 s2 : List Nat) : ∀ (l : List Nat) (acc : List (Nat × Nat)),
    l.foldl (searchStepE eqv s1 s2) acc =
      acc ++ (l.filter (fun o => listEq eqv s1 (windowN s2 o s1.length))).map (fun o => (o, o + s1.length))
  | [], acc => by simp
  | o :: l, acc => by
    rw [List.foldl_cons, search_foldl eqv s1 s2 l, searchStepE_eq, List.filter_cons]
    by_cases h : listEq eqv s1 (windowN s2 o s1.length) = true
    · simp [h]
    · simp [h]

/-- the loop of `search_sub_seq` collects the matching offsets in ascending order -/
theorem searchSubSeqE_eq (eqv : Nat → Nat → Bool) (s1 s2 : List Nat) :
    searchSubSeqE eqv s1 s2 =
      if s1.length = 0 ∨ s2.length = 0 then .error .valueError
      else if s1.length ≤ s2.length then
        .ok (((List.range (s2.length - s1.length + 1)).filter
              (fun o => listEq eqv s1 (windowN s2 o s1.length))).map (fun o => (o, o + s1.length)))
      else .ok [] := by
  unfold searchSubSeqE
  rw [search_foldl, List.nil_append]

/-- `ValueError` exactly when one of the two sequences is empty -/
theorem searchSubSeqE_error_iff (eqv : Nat → Nat → Bool) (s1 s2 : List Nat) :
    (∃ e, searchSubSeqE eqv s1 s2 = .error e) ↔ (s1 = [] ∨ s2 = []) := by
  rw [searchSubSeqE_eq]
  have h1 : s1.length = 0 ↔ s1 = [] := List.length_eq_zero_iff
  have h2 : s2.length = 0 ↔ s2 = [] := List.length_eq_zero_iff
  by_cases h : s1.length = 0 ∨ s2.length = 0
  · rw [if_pos h]
    exact ⟨fun _ => by rwa [h1, h2] at h, fun _ => ⟨_, rfl⟩⟩
  · rw [if_neg h]
    constructor
    · rintro ⟨e, he⟩
      split at he <;> cases he
    · intro h'
      rw [← h1, ← h2] at h'
      exact absurd h' h

theorem searchSubSeqE_empty (eqv : Nat → Nat → Bool) (s1 s2 : List Nat) (h : s1 = [] ∨ s2 = []) :
    searchSubSeqE eqv s1 s2 = .error .valueError := by
  rw [searchSubSeqE_eq]
  rcases h with rfl | rfl <;> simp

theorem searchSubSeqE_spec (eqv : Nat → Nat → Bool) (s1 s2 : List Nat) (h1 : s1 ≠ []) (h2 : s2 ≠ []) :
    ∃ l, searchSubSeqE eqv s1 s2 = .ok l ∧
      (∀ o e, (o, e) ∈ l ↔
        (e = o + s1.length ∧ e ≤ s2.length ∧ listEq eqv s1 (windowN s2 o s1.length) = true)) ∧
      (l.map (·.1)).Pairwise (· < ·) := by
  have h1' : s1.length ≠ 0 := by simpa using h1
  have h2' : s2.length ≠ 0 := by simpa using h2
  rw [searchSubSeqE_eq, if_neg (by omega)]
  by_cases hl : s1.length ≤ s2.length
  · rw [if_pos hl]
    refine ⟨_, rfl, ?_, ?_⟩
    · intro o e
      simp only [List.mem_map, List.mem_filter, List.mem_range, Prod.mk.injEq]
      constructor
      · rintro ⟨o', ⟨ho, hw⟩, rfl, rfl⟩
        exact ⟨rfl, by omega, hw⟩
      · rintro ⟨rfl, he, hw⟩
        exact ⟨o, ⟨by omega, hw⟩, rfl, rfl⟩
    · rw [List.map_map]
      have : ((fun x : Nat × Nat => x.1) ∘ fun o => (o, o + s1.length)) = id := rfl
      rw [this, List.map_id]
      exact List.Pairwise.sublist List.filter_sublist List.pairwise_lt_range
  · rw [if_neg hl]
    refine ⟨[], rfl, ?_, by simp⟩
    intro o e
    simp only [List.not_mem_nil, false_iff]
    rintro ⟨rfl, he, _⟩
    omega

/-- every occurrence of the pattern as the same objects is reported, whatever the elements' `==` is -/
theorem searchSubSeqE_of_infix (eqv : Nat → Nat → Bool) (s s1 t : List Nat) (h1 : s1 ≠ []) :
    ∃ l, searchSubSeqE eqv s1 (s ++ s1 ++ t) = .ok l ∧ (s.length, s.length + s1.length) ∈ l := by
  have h2 : s ++ s1 ++ t ≠ [] := by simp [h1]
  obtain ⟨l, hl, hm, _⟩ := searchSubSeqE_spec eqv s1 (s ++ s1 ++ t) h1 h2
  refine ⟨l, hl, (hm _ _).mpr ⟨rfl, by simp, ?_⟩⟩
  rw [windowN_infix]
  exact listEq_refl eqv s1

/-! ### elements that are compared by value: the new functions are the old ones -/

theorem pyEq_val (val : Nat → Int) (a b : Nat) : pyEq (fun a b => val a == val b) a b = (val a == val b) := by
  unfold pyEq
  by_cases h : a = b
  · subst h; simp
  · simp [h]

theorem listEq_val (val : Nat → Int) : ∀ (a b : List Nat),
    listEq (fun a b => val a == val b) a b = (a.map val == b.map val)
  | [], [] => by simp [listEq_nil_nil]
  | [], b :: bs => by simp [listEq_nil_cons]
  | a :: as, [] => by simp [listEq_cons_nil]
  | a :: as, b :: bs => by
    rw [listEq_cons_cons, pyEq_val, listEq_val val as bs, List.map_cons, List.map_cons, List.cons_beq_cons]

theorem window_map (val : Nat → Int) (s2 : List Nat) (o n : Nat) : window (s2.map val) o n = (windowN s2 o n).map val := by
  simp [window, windowN, List.map_take, List.map_drop]

theorem subSeqE_agree_with_old (val : Nat → Int) (s1 s2 : List Nat) :
    subSeqE (fun a b => val a == val b) s1 s2 = subSeq (s1.map val) (s2.map val) := by
  unfold subSeqE subSeq
  simp only [List.length_map, window_map, listEq_val]

theorem searchSubSeqE_agree_with_old (val : Nat → Int) (s1 s2 : List Nat) :
    searchSubSeqE (fun a b => val a == val b) s1 s2 = searchSubSeq (s1.map val) (s2.map val) := by
  rw [searchSubSeqE_eq]
  unfold searchSubSeq
  simp only [List.length_map, window_map, listEq_val]

/-- for elements compared by value (`val` is the payload of an object) the new functions are the old ones -/
theorem agree_with_old (val : Nat → Int) (s1 s2 : List Nat) :
    subSeqE (fun a b => val a == val b) s1 s2 = subSeq (s1.map val) (s2.map val) ∧
    searchSubSeqE (fun a b => val a == val b) s1 s2 = searchSubSeq (s1.map val) (s2.map val) :=
  ⟨subSeqE_agree_with_old val s1 s2, searchSubSeqE_agree_with_old val s1 s2⟩

/-- every pair of integer sequences is the image of two sequences of objects under a payload function, so the statement
above covers all inputs of the old functions -/
theorem lists_are_images (l1 l2 : List Int) :
    ∃ (val : Nat → Int) (s1 s2 : List Nat), s1.map val = l1 ∧ s2.map val = l2 := by
  refine ⟨fun i => (l1 ++ l2).getD i 0, List.range l1.length, List.range' l1.length l2.length, ?_, ?_⟩
  · apply List.ext_getElem (by simp)
    intro i h1 h2
    simp only [List.length_map, List.length_range] at h1
    simp [List.getElem?_append_left h1, List.getElem?_eq_getElem h1]
  · apply List.ext_getElem (by simp)
    intro i h1 h2
    simp only [List.length_map, List.length_range'] at h1
    simp [List.getElem?_append_right, List.getElem?_eq_getElem h1]

/-! ### the first-element pre-test is not an optimisation -/

/-- object 0 is a NaN: the pattern `[0]` occurs in `[5, 0]` as the same object; `sub_seq` finds it, the variant that first
tests `s1[0] == s2[offset]` does not -/
theorem first_element_pretest_wrong :
    subSeqE (nanEq 1) [0] [5, 0] = true ∧ subSeqPre (nanEq 1) [0] [5, 0] = false := by decide

end WindVerif.Generic
