import WindVerif.Proofs.StorageInv2
/-! Auxiliary development for `Storage.lean`, part 3: what a step of process `i` does to the rest of the state
(`StepA`, derived from the control layer). -/
namespace WindVerif.Storage
set_option linter.unusedSimpArgs false

/-! ## `release` only touches the lock and the depth -/

@[simp] theorem release_fst_procs (s : St) (i : Nat) (p : Proc) : (release s i p).1.procs = s.procs := by
  unfold release; split <;> rfl
@[simp] theorem release_fst_paths (s : St) (i : Nat) (p : Proc) : (release s i p).1.paths = s.paths := by
  unfold release; split <;> rfl
@[simp] theorem release_fst_index (s : St) (i : Nat) (p : Proc) : (release s i p).1.index = s.index := by
  unfold release; split <;> rfl
@[simp] theorem release_fst_cnt (s : St) (i : Nat) (p : Proc) : (release s i p).1.cnt = s.cnt := by
  unfold release; split <;> rfl
@[simp] theorem release_fst_wf (s : St) (i : Nat) (p : Proc) : (release s i p).1.wf = s.wf := by
  unfold release; split <;> rfl
@[simp] theorem release_fst_files (s : St) (i : Nat) (p : Proc) : (release s i p).1.files = s.files := by
  unfold release; split <;> rfl
@[simp] theorem release_fst_fileOf (s : St) (i : Nat) (p : Proc) (w : Nat) : fileOf (release s i p).1 w = fileOf s w := by
  unfold release; split <;> rfl
theorem release_fst_lock (s : St) (i : Nat) (p : Proc) :
    (release s i p).1.lock = if p.depth ≤ 1 then none else s.lock := by
  unfold release; split <;> rfl
@[simp] theorem release_snd_script (s : St) (i : Nat) (p : Proc) : (release s i p).2.script = p.script := by
  unfold release; split <;> rfl
@[simp] theorem release_snd_pc (s : St) (i : Nat) (p : Proc) : (release s i p).2.pc = p.pc := by
  unfold release; split <;> rfl
@[simp] theorem release_snd_ident (s : St) (i : Nat) (p : Proc) : (release s i p).2.ident = p.ident := by
  unfold release; split <;> rfl
@[simp] theorem release_snd_wOpen (s : St) (i : Nat) (p : Proc) : (release s i p).2.wOpen = p.wOpen := by
  unfold release; split <;> rfl
@[simp] theorem release_snd_rOpen (s : St) (i : Nat) (p : Proc) : (release s i p).2.rOpen = p.rOpen := by
  unfold release; split <;> rfl
@[simp] theorem release_snd_results (s : St) (i : Nat) (p : Proc) : (release s i p).2.results = p.results := by
  unfold release; split <;> rfl
@[simp] theorem release_snd_gid (s : St) (i : Nat) (p : Proc) : (release s i p).2.gid = p.gid := by
  unfold release; split <;> rfl
@[simp] theorem release_snd_text (s : St) (i : Nat) (p : Proc) : (release s i p).2.text = p.text := by
  unfold release; split <;> rfl
@[simp] theorem release_snd_tmp (s : St) (i : Nat) (p : Proc) : (release s i p).2.tmp = p.tmp := by
  unfold release; split <;> rfl
@[simp] theorem release_snd_off (s : St) (i : Nat) (p : Proc) : (release s i p).2.off = p.off := by
  unfold release; split <;> rfl
@[simp] theorem release_snd_target (s : St) (i : Nat) (p : Proc) : (release s i p).2.target = p.target := by
  unfold release; split <;> rfl
@[simp] theorem release_snd_inIter (s : St) (i : Nat) (p : Proc) : (release s i p).2.inIter = p.inIter := by
  unfold release; split <;> rfl
@[simp] theorem release_snd_iterPos (s : St) (i : Nat) (p : Proc) : (release s i p).2.iterPos = p.iterPos := by
  unfold release; split <;> rfl
@[simp] theorem release_snd_iterLen (s : St) (i : Nat) (p : Proc) : (release s i p).2.iterLen = p.iterLen := by
  unfold release; split <;> rfl
@[simp] theorem release_snd_iterAcc (s : St) (i : Nat) (p : Proc) : (release s i p).2.iterAcc = p.iterAcc := by
  unfold release; split <;> rfl

/-- the shape of the state after an `acquire` -/
theorem acquire_shape {s s' : St} {i : Nat} {p : Proc} {next : Pc} (h : acquire s i p next = some s') :
    ∃ d, s' = setProc { s with lock := some i } i { p with depth := d, pc := next } ∧
      (s.lock = none ∨ s.lock = some i) := by
  rcases acquire_some h with ⟨hl, rfl⟩ | ⟨hl, rfl⟩
  · exact ⟨1, rfl, Or.inl hl⟩
  · refine ⟨p.depth + 1, ?_, Or.inr hl⟩
    cases s; simp_all [setProc]

@[simp] theorem iterAdvance_results (p : Proc) : (iterAdvance p).results = p.results := by
  unfold iterAdvance; dsimp only; split <;> rfl
@[simp] theorem iterAdvance_ident (p : Proc) : (iterAdvance p).ident = p.ident := by
  unfold iterAdvance; dsimp only; split <;> rfl

@[simp] theorem fileOf_mk_files (s : St) (a : List Proc) (b : List (Option Nat)) (c : List (Option (Nat × Nat)))
    (d e : Nat) (f : Option Nat) (w : Nat) :
    fileOf { procs := a, paths := b, index := c, cnt := d, wf := e, lock := f, files := s.files } w = fileOf s w := rfl

/-! ## what a step does to the shared state -/

structure StepA (s s' : St) (i : Nat) (p p' : Proc) : Prop where
  procs : s'.procs = s.procs.set i p'
  lockOther : ∀ j, j ≠ i → (s'.lock = some j ↔ s.lock = some j)
  lockNone : s'.lock = none → s.lock = none ∨ s.lock = some i
  shared : s.lock ≠ some i → s'.index = s.index ∧ s'.cnt = s.cnt ∧ s'.wf = s.wf ∧ s'.paths = s.paths
  idxLen : s.index.length ≤ s'.index.length
  pathsLen : s.paths.length ≤ s'.paths.length
  fileOther : ∀ w, p.ident ≠ some w → fileOf s' w = fileOf s w
  results : ∃ l, p'.results = p.results ++ l ∧ (Res.ok ∈ l → p.pc = .sRel ∨ (p.pc = .xClose ∧ l = [.ok]))

set_option hygiene false in
macro "stepF " name:ident pc:term " => " tac:tacticSeq : command =>
  `(theorem $name {scripts : List (List Op)} {s s' : St} {i : Nat} {p : Proc} (hA : InvA scripts s)
      (hp : s.procs[i]? = some p) (hpc : p.pc = $pc) (hs : step s i = some s') : ∃ p', StepA s s' i p p' := by
    have hL := hA.loc i p hp
    simp only [step, getProc_eq, hp, hpc] at hs
    ($tac))

set_option hygiene false in
macro "localF" : tactic =>
  `(tactic| (
      simp only [Option.some.injEq] at hs; subst hs
      have h5 := hL.lock
      have h10 := hL.oIdSome
      have h9 := hL.sPc
      have h7 := hL.openId
      refine ⟨_, ⟨rfl, ?_, ?_, ?_, ?_, ?_, ?_, ⟨[], by simp, by simp⟩⟩⟩ <;>
        cases hid : p.ident <;> simp_all [dep, isS, fileOf_setFile] <;> (try (intros; omega))))

stepF StepA.s_oPathsLen .oPathsLen => localF
stepF StepA.s_oPathsAppend .oPathsAppend => localF
stepF StepA.s_oOpenW .oOpenW => localF
stepF StepA.s_oPathsGet .oPathsGet => localF
stepF StepA.s_oOpenA .oOpenA => localF
stepF StepA.s_sIdxLen2 .sIdxLen2 => localF
stepF StepA.s_sIdxExtend .sIdxExtend => localF
stepF StepA.s_sTell .sTell => localF
stepF StepA.s_sWriteText .sWriteText => localF
stepF StepA.s_sWriteNl .sWriteNl => localF
stepF StepA.s_sFlush .sFlush => localF
stepF StepA.s_sIdxSet .sIdxSet => localF
stepF StepA.s_sCntRead .sCntRead => localF
stepF StepA.s_sCntWrite .sCntWrite => localF
stepF StepA.s_sWfRead2 .sWfRead2 => localF
stepF StepA.s_sWfWrite1 .sWfWrite1 => localF
stepF StepA.s_sLoopWf .sLoopWf => localF
stepF StepA.s_sLoopWf2 .sLoopWf2 => localF
stepF StepA.s_sLoopWfR .sLoopWfR => localF
stepF StepA.s_sLoopWfW .sLoopWfW => localF
stepF StepA.s_gPathsGet .gPathsGet => localF
stepF StepA.s_gOpenR .gOpenR => localF
stepF StepA.s_gSeek .gSeek => localF
stepF StepA.s_cWf .cWf => localF
stepF StepA.s_sIdxLen1 .sIdxLen1 => split at hs <;> localF
stepF StepA.s_sIdxGet .sIdxGet => split at hs <;> localF
stepF StepA.s_sWfRead1 .sWfRead1 => split at hs <;> localF
stepF StepA.s_sLoopCnt .sLoopCnt => split at hs <;> localF
stepF StepA.s_sLoopIdx .sLoopIdx => split at hs <;> localF
stepF StepA.s_gIdxLen .gIdxLen => split at hs <;> localF
stepF StepA.s_gIdxGet .gIdxGet => split at hs <;> localF
stepF StepA.s_iIdxLen .iIdxLen => split at hs <;> localF
stepF StepA.s_fAcq .fAcq => flushA
stepF StepA.s_fPathsGet .fPathsGet => flushA
stepF StepA.s_fRemove .fRemove => flushA
stepF StepA.s_fPathsClear .fPathsClear => flushA
stepF StepA.s_fIdxClear .fIdxClear => flushA
stepF StepA.s_fCntZero .fCntZero => flushA
stepF StepA.s_fWfZero .fWfZero => flushA
stepF StepA.s_fRel .fRel => flushA

set_option hygiene false in
macro "acqF" : tactic =>
  `(tactic| (
      obtain ⟨d, rfl, hl⟩ := acquire_shape hs
      refine ⟨_, ⟨rfl, ?_, ?_, ?_, ?_, ?_, ?_, ⟨[], by simp, by simp⟩⟩⟩
      · intro j hj; simp only [setProc_lock, Option.some.injEq]
        rcases hl with hl | hl <;> simp [hl] <;> omega
      · simp
      · simp
      · simp
      · simp
      · simp))

stepF StepA.s_oAcq .oAcq => acqF
stepF StepA.s_sAcq .sAcq => acqF
stepF StepA.s_gAcq .gAcq => acqF
stepF StepA.s_iAcq .iAcq => acqF

/-- the shared part of a releasing step -/
theorem StepA.of_release {s : St} {i : Nat} {p p' : Proc} (hlk : s.lock = some i) (l : List Res)
    (hres : p'.results = p.results ++ l) (hok : Res.ok ∈ l → p.pc = .sRel ∨ (p.pc = .xClose ∧ l = [.ok])) :
    StepA s (setProc (release s i p).1 i p') i p p' := by
  refine ⟨by simp, ?_, ?_, ?_, ?_, ?_, ?_, ⟨l, hres, hok⟩⟩
  · intro j hj; simp only [setProc_lock, release_fst_lock]; split <;> simp [hlk]; omega
  · intro _; exact Or.inr hlk
  · intro h; exact absurd hlk h
  · simp
  · simp
  · simp

set_option hygiene false in
macro "relF" : tactic =>
  `(tactic| (
      have hlk : s.lock = some i := hL.lock.1 (by simp [dep, hpc]; try split <;> simp)
      simp only [Option.some.injEq] at hs; subst hs))

stepF StepA.s_oRel .oRel =>
  relF; exact ⟨_, StepA.of_release hlk [] (by simp) (by simp)⟩
stepF StepA.s_sRel .sRel =>
  relF; exact ⟨_, StepA.of_release hlk [.ok] (by simp) (by simp [hpc])⟩
stepF StepA.s_sRelErr .sRelErr =>
  relF; exact ⟨_, StepA.of_release hlk [.valueError] (by simp) (by simp)⟩
stepF StepA.s_iRel .iRel =>
  relF; exact ⟨_, StepA.of_release hlk [.texts p.iterAcc] (by simp) (by simp)⟩
stepF StepA.s_gRel .gRel =>
  have hlk : s.lock = some i := hL.lock.1 (by simp [dep, hpc]; split <;> simp)
  split at hs <;> (simp only [Option.some.injEq] at hs; subst hs
                   exact ⟨_, StepA.of_release hlk [] (by simp) (by simp)⟩)
stepF StepA.s_gRelErr .gRelErr =>
  have hlk : s.lock = some i := hL.lock.1 (by simp [dep, hpc]; split <;> simp)
  split at hs <;> (simp only [Option.some.injEq] at hs; subst hs)
  · exact ⟨_, StepA.of_release hlk [] (by simp) (by simp)⟩
  · exact ⟨_, StepA.of_release hlk [.indexError] (by simp) (by simp)⟩

/-- the shared part of a step that changes nothing shared -/
theorem StepA.of_setProc {s : St} {i : Nat} {p p' : Proc} (l : List Res)
    (hres : p'.results = p.results ++ l) (hok : Res.ok ∈ l → p.pc = .sRel ∨ (p.pc = .xClose ∧ l = [.ok])) :
    StepA s (setProc s i p') i p p' := by
  refine ⟨rfl, ?_, ?_, ?_, ?_, ?_, ?_, ⟨l, hres, hok⟩⟩ <;> simp <;> exact Or.inl

stepF StepA.s_lCnt .lCnt =>
  simp only [Option.some.injEq] at hs; subst hs
  exact ⟨_, StepA.of_setProc [.nat s.cnt] (by simp) (by simp)⟩
stepF StepA.s_cCnt .cCnt =>
  simp only [Option.some.injEq] at hs; subst hs
  exact ⟨_, StepA.of_setProc [.bool (p.tmp == s.cnt)] (by simp) (by simp)⟩
stepF StepA.s_xClose .xClose =>
  simp only [Option.some.injEq] at hs; subst hs
  exact ⟨_, StepA.of_setProc [.ok] (by simp) (by simp [hpc])⟩
stepF StepA.s_gReadline .gReadline =>
  split at hs <;> (simp only [Option.some.injEq] at hs; subst hs)
  · exact ⟨_, StepA.of_setProc [] (by simp) (by simp)⟩
  · exact ⟨_, StepA.of_setProc [.text (readlineAt ((fileOf s p.target).getD []) p.off)] (by simp) (by simp)⟩

/-- every step has the shape `StepA` -/
theorem StepA.of_step {scripts : List (List Op)} {s s' : St} {i : Nat} {p : Proc} (hA : InvA scripts s)
    (hp : s.procs[i]? = some p) (hs : step s i = some s') : ∃ p', StepA s s' i p p' := by
  cases hpc : p.pc with
  | idle => simp [step, hp, hpc] at hs
  | oAcq => exact StepA.s_oAcq hA hp hpc hs
  | oPathsLen => exact StepA.s_oPathsLen hA hp hpc hs
  | oPathsAppend => exact StepA.s_oPathsAppend hA hp hpc hs
  | oRel => exact StepA.s_oRel hA hp hpc hs
  | oOpenW => exact StepA.s_oOpenW hA hp hpc hs
  | oPathsGet => exact StepA.s_oPathsGet hA hp hpc hs
  | oOpenA => exact StepA.s_oOpenA hA hp hpc hs
  | sAcq => exact StepA.s_sAcq hA hp hpc hs
  | sIdxLen1 => exact StepA.s_sIdxLen1 hA hp hpc hs
  | sIdxLen2 => exact StepA.s_sIdxLen2 hA hp hpc hs
  | sIdxExtend => exact StepA.s_sIdxExtend hA hp hpc hs
  | sIdxGet => exact StepA.s_sIdxGet hA hp hpc hs
  | sTell => exact StepA.s_sTell hA hp hpc hs
  | sWriteText => exact StepA.s_sWriteText hA hp hpc hs
  | sWriteNl => exact StepA.s_sWriteNl hA hp hpc hs
  | sFlush => exact StepA.s_sFlush hA hp hpc hs
  | sIdxSet => exact StepA.s_sIdxSet hA hp hpc hs
  | sCntRead => exact StepA.s_sCntRead hA hp hpc hs
  | sCntWrite => exact StepA.s_sCntWrite hA hp hpc hs
  | sWfRead1 => exact StepA.s_sWfRead1 hA hp hpc hs
  | sWfRead2 => exact StepA.s_sWfRead2 hA hp hpc hs
  | sWfWrite1 => exact StepA.s_sWfWrite1 hA hp hpc hs
  | sLoopWf => exact StepA.s_sLoopWf hA hp hpc hs
  | sLoopCnt => exact StepA.s_sLoopCnt hA hp hpc hs
  | sLoopWf2 => exact StepA.s_sLoopWf2 hA hp hpc hs
  | sLoopIdx => exact StepA.s_sLoopIdx hA hp hpc hs
  | sLoopWfR => exact StepA.s_sLoopWfR hA hp hpc hs
  | sLoopWfW => exact StepA.s_sLoopWfW hA hp hpc hs
  | sRelErr => exact StepA.s_sRelErr hA hp hpc hs
  | sRel => exact StepA.s_sRel hA hp hpc hs
  | gAcq => exact StepA.s_gAcq hA hp hpc hs
  | gIdxLen => exact StepA.s_gIdxLen hA hp hpc hs
  | gIdxGet => exact StepA.s_gIdxGet hA hp hpc hs
  | gRelErr => exact StepA.s_gRelErr hA hp hpc hs
  | gRel => exact StepA.s_gRel hA hp hpc hs
  | gPathsGet => exact StepA.s_gPathsGet hA hp hpc hs
  | gOpenR => exact StepA.s_gOpenR hA hp hpc hs
  | gSeek => exact StepA.s_gSeek hA hp hpc hs
  | gReadline => exact StepA.s_gReadline hA hp hpc hs
  | lCnt => exact StepA.s_lCnt hA hp hpc hs
  | cWf => exact StepA.s_cWf hA hp hpc hs
  | cCnt => exact StepA.s_cCnt hA hp hpc hs
  | iAcq => exact StepA.s_iAcq hA hp hpc hs
  | iIdxLen => exact StepA.s_iIdxLen hA hp hpc hs
  | iRel => exact StepA.s_iRel hA hp hpc hs
  | fAcq => exact StepA.s_fAcq hA hp hpc hs
  | fPathsGet => exact StepA.s_fPathsGet hA hp hpc hs
  | fRemove => exact StepA.s_fRemove hA hp hpc hs
  | fPathsClear => exact StepA.s_fPathsClear hA hp hpc hs
  | fIdxClear => exact StepA.s_fIdxClear hA hp hpc hs
  | fCntZero => exact StepA.s_fCntZero hA hp hpc hs
  | fWfZero => exact StepA.s_fWfZero hA hp hpc hs
  | fRel => exact StepA.s_fRel hA hp hpc hs
  | xClose => exact StepA.s_xClose hA hp hpc hs

theorem StepA.of_step' {scripts : List (List Op)} {s s' : St} {i : Nat} {p p'' : Proc} (hA : InvA scripts s)
    (hp : s.procs[i]? = some p) (hs : step s i = some s') (hprocs : s'.procs = s.procs.set i p'') :
    StepA s s' i p p'' := by
  obtain ⟨p', hF⟩ := StepA.of_step hA hp hs
  have hi : i < s.procs.length := by
    rcases Nat.lt_or_ge i s.procs.length with h' | h'
    · exact h'
    · simp [List.getElem?_eq_none h'] at hp
  have h1 : (s.procs.set i p')[i]? = some p' := by simp [hi]
  have h2 : (s.procs.set i p'')[i]? = some p'' := by simp [hi]
  rw [← hF.procs, hprocs, h2] at h1
  cases h1; exact hF

/-! ## pcs at which an operation starts -/

def isEntry : Pc → Bool
  | .idle | .oAcq | .oPathsGet | .sAcq | .gAcq | .lCnt | .cWf | .iAcq | .fAcq | .xClose => true
  | _ => false

theorem fetch_entry (p : Proc) (h : p.pc = .idle) : isEntry (fetch p).pc = true := by
  cases hsc : p.script with
  | nil => simp [fetch, hsc, h, isEntry]
  | cons op rest => cases op <;> simp only [fetch, hsc] <;> (try split) <;> (try split) <;> rfl

theorem finish_entry (p : Proc) (r : Res) : isEntry (finish p r).pc = true := fetch_entry _ rfl

theorem step_proc {s s' : St} {i : Nat} (hs : step s i = some s') : ∃ p, s.procs[i]? = some p := by
  cases hp : s.procs[i]? with
  | none => simp [step, hp] at hs
  | some p => exact ⟨p, rfl⟩

end WindVerif.Storage
