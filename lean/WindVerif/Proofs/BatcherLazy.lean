import WindVerif.Model.BatcherLazy
import WindVerif.Proofs.Generic
/-!
Proofs about the lazy `BatcherIter` machine (`Model/BatcherLazy.lean`): no read-ahead, agreement with the list model
`Generic.batcherIter`, behaviour over a failing source, and the read-ahead variant.
-/
namespace WindVerif.BatcherLazy
open WindVerif.Generic

/-! ### one call -/

/-- enough items left for a full batch: exactly the missing items are pulled -/
theorem nextGo_full (b : Nat) (f : Bool) : ∀ (rem : List Int) (p : Nat) (acc : List Int),
    acc.length < b → b ≤ acc.length + rem.length →
    nextGo b f rem p acc = (⟨p + (b - acc.length), [], false⟩, .batch (acc ++ rem.take (b - acc.length)))
  | [], p, acc, h1, h2 => by simp at h2; omega
  | x :: r, p, acc, h1, h2 => by
    simp only [nextGo, List.length_append, List.length_cons, List.length_nil]
    split
    next h =>
      have : b - acc.length = 1 := by omega
      rw [this]; simp
    next h =>
      have h3 : (acc ++ [x]).length < b := by simp; omega
      have h4 : b ≤ (acc ++ [x]).length + r.length := by simp at h2 ⊢; omega
      rw [nextGo_full b f r (p + 1) (acc ++ [x]) h3 h4]
      have : b - acc.length = (b - (acc ++ [x]).length) + 1 := by simp; omega
      rw [this, List.take_succ_cons]
      simp only [List.append_assoc, List.cons_append, List.nil_append, Nat.add_assoc, Nat.add_comm 1]

/-- not enough items left: the source is used up, then the end of the source decides -/
theorem nextGo_short (b : Nat) (f : Bool) : ∀ (rem : List Int) (p : Nat) (acc : List Int),
    acc.length + rem.length < b →
    nextGo b f rem p acc =
      if f then (⟨p + rem.length, [], true⟩, .raised)
      else if (acc ++ rem).length > 0 then (⟨p + rem.length, [], true⟩, .batch (acc ++ rem))
      else (⟨p + rem.length, [], true⟩, .stop)
  | [], p, acc, h => by simp [nextGo]
  | x :: r, p, acc, h => by
    have h3 : (acc ++ [x]).length + r.length < b := by simp at h ⊢; omega
    have h4 : ¬ (acc ++ [x]).length = b := by simp at h ⊢; omega
    simp only [nextGo, if_neg h4]
    rw [nextGo_short b f r (p + 1) (acc ++ [x]) h3]
    simp only [List.append_assoc, List.cons_append, List.nil_append, List.length_cons, Nat.add_assoc, Nat.add_comm 1]

/-! ### several calls -/

theorem takeFrom_add (step : St → St × Outcome) : ∀ (j k : Nat) (st : St),
    takeFrom step (j + k) st =
      ((takeFrom step j st).1 ++ (takeFrom step k (takeFrom step j st).2).1, (takeFrom step k (takeFrom step j st).2).2)
  | 0, k, st => by simp [takeFrom]
  | j + 1, k, st => by
    rw [Nat.add_right_comm]
    simp only [takeFrom, takeFrom_add step j k, List.cons_append]

theorem takeFrom_succ (step : St → St × Outcome) (k : Nat) (st : St) :
    takeFrom step (k + 1) st = ((step st).2 :: (takeFrom step k (step st).1).1, (takeFrom step k (step st).1).2) := rfl

theorem takeFrom_finished (b : Nat) (src : Src) : ∀ (k : Nat) (st : St), st.finished = true →
    takeFrom (next b src) k st = (List.replicate k .stop, st)
  | 0, st, _ => rfl
  | k + 1, st, h => by
    have h1 : next b src st = (st, .stop) := by simp [next, h]
    rw [takeFrom_succ, h1]
    simp only [takeFrom_finished b src k st h, List.replicate_succ]

theorem takeFromAhead_finished (b : Nat) (src : Src) : ∀ (k : Nat) (st : St), st.finished = true →
    takeFrom (nextAhead b src) k st = (List.replicate k .stop, st)
  | 0, st, _ => rfl
  | k + 1, st, h => by
    have h1 : nextAhead b src st = (st, .stop) := by simp [nextAhead, h]
    rw [takeFrom_succ, h1]
    simp only [takeFromAhead_finished b src k st h, List.replicate_succ]

/-- `j` full batches in a row: the generator is in a "clean" state after each, having pulled exactly `j * b` items -/
theorem take_full (items : List Int) (f : Bool) (b : Nat) (hb : 0 < b) : ∀ j : Nat, j * b ≤ items.length →
    take b ⟨items, f⟩ j = ((List.range j).map (fun i => Outcome.batch (batchAt items b i)), ⟨j * b, [], false⟩)
  | 0, _ => by simp [take, takeFrom, St.init]
  | j + 1, h => by
    have hj : j * b ≤ items.length := by rw [Nat.succ_mul] at h; omega
    have ih := take_full items f b hb j hj
    unfold take at ih ⊢
    rw [takeFrom_add, ih]
    have hlen : b ≤ ([] : List Int).length + (items.drop (j * b)).length := by
      rw [Nat.succ_mul] at h; simp; omega
    have h1 : next b ⟨items, f⟩ ⟨j * b, [], false⟩ =
        (⟨(j + 1) * b, [], false⟩, .batch (batchAt items b j)) := by
      simp only [next, Bool.false_eq_true, if_false]
      rw [nextGo_full b f _ _ [] (by simpa using hb) hlen]
      simp [batchAt, Nat.succ_mul]
    simp only [takeFrom, h1, List.range_succ, List.map_append, List.map_cons, List.map_nil]

/-- the call after the last full batch, and everything after it -/
theorem take_tail (items : List Int) (f : Bool) (b : Nat) (hb : 0 < b) (k : Nat) :
    takeFrom (next b ⟨items, f⟩) (1 + k) ⟨items.length / b * b, [], false⟩ =
      ((if f then Outcome.raised
        else if items.length % b = 0 then Outcome.stop else Outcome.batch (batchAt items b (items.length / b)))
        :: List.replicate k .stop, ⟨items.length, [], true⟩) := by
  have hdm := Nat.div_add_mod items.length b
  have hr := Nat.mod_lt items.length hb
  rw [Nat.mul_comm] at hdm
  have hlen : ([] : List Int).length + (items.drop (items.length / b * b)).length < b := by simp; omega
  have hp : items.length / b * b + (items.length - items.length / b * b) = items.length := by omega
  have h1 : next b ⟨items, f⟩ ⟨items.length / b * b, [], false⟩ =
      (⟨items.length, [], true⟩,
        if f then Outcome.raised
        else if items.length % b = 0 then Outcome.stop else Outcome.batch (batchAt items b (items.length / b))) := by
    simp only [next, Bool.false_eq_true, if_false]
    rw [nextGo_short b f _ _ [] hlen]
    simp only [List.nil_append, List.length_drop, hp]
    cases f
    · by_cases h0 : items.length % b = 0
      · have : ¬ items.length - items.length / b * b > 0 := by omega
        simp [h0, this]
      · have : items.length - items.length / b * b > 0 := by omega
        have ht : (items.drop (items.length / b * b)).take b = items.drop (items.length / b * b) :=
          List.take_of_length_le (by simp; omega)
        simp [h0, this, batchAt, ht]
    · simp
  rw [Nat.add_comm, takeFrom_succ, h1]
  simp only [takeFrom_finished b ⟨items, f⟩ k ⟨items.length, [], true⟩ rfl]

/-! ### the property theorems -/

/-- no read-ahead: after `j` full batches exactly `j * b` items have been pulled -/
theorem lazy_pulled (items : List Int) (fails : Bool) (b j : Nat) (hb : 0 < b) (hj : j * b ≤ items.length) :
    (take b ⟨items, fails⟩ j).2.pulled = j * b ∧
    (take b ⟨items, fails⟩ j).1 = (List.range j).map (fun i => Outcome.batch ((items.drop (i * b)).take b)) := by
  rw [take_full items fails b hb j hj]
  exact ⟨rfl, rfl⟩

/-- between two `next()` calls the generator holds no item back -/
theorem lazy_clean (items : List Int) (fails : Bool) (b j : Nat) (hb : 0 < b) (hj : j * b ≤ items.length) :
    (take b ⟨items, fails⟩ j).2 = ⟨j * b, [], false⟩ := by
  rw [take_full items fails b hb j hj]

theorem batcherLen_div (n b : Nat) (hb : 0 < b) :
    batcherLen n b = if n % b = 0 then n / b else n / b + 1 := by
  rw [batcherLen_ceil n b hb]; split <;> rfl

/-- a source that ends normally: the outcomes are the batches of the list model, then `stop` for ever; the whole source has been
pulled, never more -/
theorem agrees_with_list (items : List Int) (b k : Nat) (hb : 0 < b) :
    (take b ⟨items, false⟩ ((batcherIter items b).length + k)).1 =
      (batcherIter items b).map Outcome.batch ++ List.replicate k Outcome.stop ∧
    (take b ⟨items, false⟩ ((batcherIter items b).length + k)).2.pulled = items.length := by
  have hdm := Nat.div_add_mod items.length b
  rw [Nat.mul_comm] at hdm
  have hq : items.length / b * b ≤ items.length := by omega
  have hfull := take_full items false b hb _ hq
  have htail := take_tail items false b hb
  rw [batcherIter_eq items b hb, List.length_map, List.length_range, batcherLen_div _ _ hb]
  unfold take at hfull ⊢
  by_cases h0 : items.length % b = 0
  · simp only [h0, if_true]
    rw [takeFrom_add, hfull]
    cases k with
    | zero => simp [takeFrom]; omega
    | succ k =>
      have ht := htail k
      rw [Nat.add_comm 1 k] at ht
      rw [ht]
      simp [h0, List.replicate_succ, Function.comp_def]
  · simp only [h0, if_false]
    rw [Nat.add_assoc, takeFrom_add, hfull, htail k]
    simp [h0, List.range_succ]

/-- a source that raises after its items: every complete batch is handed over first, then the exception, then `stop` for ever -/
theorem failing_source_batches (items : List Int) (b k : Nat) (hb : 0 < b) :
    (take b ⟨items, true⟩ (items.length / b + 1 + k)).1 =
      (List.range (items.length / b)).map (fun i => Outcome.batch ((items.drop (i * b)).take b))
        ++ Outcome.raised :: List.replicate k Outcome.stop ∧
    (take b ⟨items, true⟩ (items.length / b + 1 + k)).2.pulled = items.length := by
  have hdm := Nat.div_add_mod items.length b
  rw [Nat.mul_comm] at hdm
  have hq : items.length / b * b ≤ items.length := by omega
  have hfull := take_full items true b hb _ hq
  have htail := take_tail items true b hb k
  unfold take at hfull ⊢
  rw [Nat.add_assoc, takeFrom_add, hfull, htail]
  exact ⟨rfl, rfl⟩

/-! ### the read-ahead variant -/

theorem aheadGo_eq (b : Nat) (hb : 0 < b) : ∀ (rem acc : List Int), acc.length ≤ b →
    aheadGo b acc rem = if acc.length = b then acc :: batcherIterGo b [] rem else batcherIterGo b acc rem
  | [], acc, h => by
    simp only [aheadGo, batcherIterGo, List.length_nil]
    by_cases hl : acc.length = b
    · have : acc.length > 0 := by omega
      simp [hl, hb]
    · simp [hl]
  | x :: r, acc, h => by
    simp only [aheadGo, batcherIterGo, List.nil_append]
    by_cases hl : acc.length = b
    · simp only [hl, if_true]
      rw [aheadGo_eq b hb r [x] (by simp; omega)]
    · simp only [hl, if_false]
      rw [aheadGo_eq b hb r (acc ++ [x]) (by simp; omega)]

theorem aheadGo_batcherIter (items : List Int) (b : Nat) (hb : 0 < b) : aheadGo b [] items = batcherIter items b := by
  rw [aheadGo_eq b hb items [] (by simp)]
  have : ¬ 0 = b := by omega
  simp [this, batcherIter]

theorem takeFrom_congr_fst (step : St → St × Outcome) (st st' : St) (h : step st = step st') : ∀ k,
    (takeFrom step k st).1 = (takeFrom step k st').1
  | 0 => rfl
  | k + 1 => by rw [takeFrom_succ, takeFrom_succ, h]

theorem nextAhead_cons (b : Nat) (src : Src) (p : Nat) (acc : List Int) (x : Int) (r : List Int)
    (h : src.items.drop p = x :: r) :
    nextAhead b src ⟨p, acc, false⟩ =
      if acc.length = b then (⟨p + 1, [x], false⟩, .batch acc) else nextAhead b src ⟨p + 1, acc ++ [x], false⟩ := by
  have h' : src.items.drop (p + 1) = r := by
    rw [← List.drop_drop, h]; rfl
  simp only [nextAhead, Bool.false_eq_true, if_false, h, h', nextAheadGo]

/-- from any live state over a source that ends normally: the batches of the list-level read-ahead function, then `stop` -/
theorem takeAhead_outcomes (b : Nat) (items : List Int) : ∀ (rem : List Int) (p : Nat) (acc : List Int) (k : Nat),
    items.drop p = rem →
    (takeFrom (nextAhead b ⟨items, false⟩) ((aheadGo b acc rem).length + k) ⟨p, acc, false⟩).1 =
      (aheadGo b acc rem).map Outcome.batch ++ List.replicate k Outcome.stop
  | [], p, acc, k, h => by
    have h1 : nextAhead b ⟨items, false⟩ ⟨p, acc, false⟩ =
        if acc.length > 0 then (⟨p, [], true⟩, .batch acc) else (⟨p, [], true⟩, .stop) := by
      simp [nextAhead, h, nextAheadGo]
    simp only [aheadGo]
    by_cases hl : acc.length > 0
    · simp only [hl, if_true] at h1 ⊢
      rw [List.length_singleton, Nat.add_comm, takeFrom_succ, h1, takeFromAhead_finished _ _ _ _ rfl]
      rfl
    · simp only [hl, if_false] at h1 ⊢
      cases k with
      | zero => rfl
      | succ k =>
        rw [List.length_nil, Nat.zero_add, takeFrom_succ, h1, takeFromAhead_finished _ _ _ _ rfl]
        simp [List.replicate_succ]
  | x :: r, p, acc, k, h => by
    have h' : items.drop (p + 1) = r := by
      rw [← List.drop_drop, h]; rfl
    have h1 := nextAhead_cons b ⟨items, false⟩ p acc x r h
    simp only [aheadGo]
    by_cases hl : acc.length = b
    · simp only [hl, if_true] at h1 ⊢
      rw [List.length_cons, Nat.add_right_comm, takeFrom_succ, h1]
      simp only [List.map_cons, List.cons_append]
      rw [takeAhead_outcomes b items r (p + 1) [x] k h']
    · simp only [hl, if_false] at h1 ⊢
      rw [takeFrom_congr_fst _ _ _ h1, takeAhead_outcomes b items r (p + 1) (acc ++ [x]) k h']

/-- reading to the end cannot tell the two apart -/
theorem ahead_same_list (items : List Int) (b k : Nat) (hb : 0 < b) :
    (takeAhead b ⟨items, false⟩ ((batcherIter items b).length + k)).1 =
      (batcherIter items b).map Outcome.batch ++ List.replicate k Outcome.stop ∧
    (takeAhead b ⟨items, false⟩ ((batcherIter items b).length + k)).1 =
      (take b ⟨items, false⟩ ((batcherIter items b).length + k)).1 := by
  have h := takeAhead_outcomes b items items 0 [] k rfl
  rw [aheadGo_batcherIter items b hb] at h
  exact ⟨h, by rw [(agrees_with_list items b k hb).1]; exact h⟩

/-! ### the read-ahead variant: how far it has read, and what it loses over a failing source -/

/-- more than a full batch available: the variant pulls one item beyond the batch and keeps it -/
theorem nextAheadGo_full (b : Nat) (f : Bool) : ∀ (rem : List Int) (p : Nat) (acc : List Int),
    acc.length ≤ b → b < acc.length + rem.length →
    nextAheadGo b f rem p acc =
      (⟨p + (b - acc.length) + 1, (rem.drop (b - acc.length)).take 1, false⟩, .batch (acc ++ rem.take (b - acc.length)))
  | [], p, acc, h1, h2 => by simp at h2; omega
  | x :: r, p, acc, h1, h2 => by
    simp only [nextAheadGo]
    split
    next h =>
      have : b - acc.length = 0 := by omega
      rw [this]; simp
    next h =>
      have h3 : (acc ++ [x]).length ≤ b := by simp; omega
      have h4 : b < (acc ++ [x]).length + r.length := by simp at h2 ⊢; omega
      rw [nextAheadGo_full b f r (p + 1) (acc ++ [x]) h3 h4]
      have : b - acc.length = (b - (acc ++ [x]).length) + 1 := by simp; omega
      rw [this, List.take_succ_cons, List.drop_succ_cons]
      simp only [List.append_assoc, List.cons_append, List.nil_append, Nat.add_assoc, Nat.add_comm 1]

/-- after `j ≥ 1` batches, with an item following them in the source: that item has already been pulled and is held back -/
theorem takeAhead_state (items : List Int) (f : Bool) (b : Nat) (hb : 0 < b) : ∀ j : Nat, j * b + 1 ≤ items.length →
    (takeAhead b ⟨items, f⟩ (j + 1)).2 = ⟨(j + 1) * b + 1, (items.drop ((j + 1) * b)).take 1, false⟩ ∨
      items.length < (j + 1) * b + 1
  | 0, h => by
    by_cases hl : items.length < (0 + 1) * b + 1
    · exact Or.inr hl
    · left
      simp only [Nat.zero_add, Nat.one_mul] at hl ⊢
      simp only [takeAhead, takeFrom, St.init, nextAhead, Bool.false_eq_true, if_false, List.drop_zero]
      rw [nextAheadGo_full b f items 0 [] (by simp) (by simp; omega)]
      simp
  | j + 1, h => by
    by_cases hl : items.length < (j + 1 + 1) * b + 1
    · exact Or.inr hl
    · left
      have hj : j * b + 1 ≤ items.length := by rw [Nat.succ_mul] at h; omega
      have ih := (takeAhead_state items f b hb j hj).resolve_right (by omega)
      have hlen : ((items.drop ((j + 1) * b)).take 1).length = 1 := by simp; omega
      have hE : (j + 1 + 1) * b = (j + 1) * b + b := Nat.succ_mul _ _
      unfold takeAhead at ih ⊢
      rw [takeFrom_add]
      generalize takeFrom (nextAhead b ⟨items, f⟩) (j + 1) St.init = t at ih
      obtain ⟨os, st⟩ := t
      simp only at ih
      subst ih
      simp only [takeFrom, nextAhead, Bool.false_eq_true, if_false]
      rw [nextAheadGo_full b f _ _ _ (by omega) (by simp; omega)]
      simp only [hlen, List.drop_drop, hE]
      have e1 : (j + 1) * b + 1 + (b - 1) + 1 = (j + 1) * b + b + 1 := by omega
      have e2 : (j + 1) * b + 1 + (b - 1) = (j + 1) * b + b := by omega
      rw [e1, e2]

/-- the variant has always read one item ahead when it hands a batch over (unless the source ended with that batch) -/
theorem ahead_pulled (items : List Int) (fails : Bool) (b j : Nat) (hb : 0 < b) (h1 : 1 ≤ j) (hj : j * b + 1 ≤ items.length) :
    (takeAhead b ⟨items, fails⟩ j).2.pulled = j * b + 1 ∧ (take b ⟨items, fails⟩ j).2.pulled = j * b := by
  obtain ⟨i, rfl⟩ : ∃ i, j = i + 1 := ⟨j - 1, by omega⟩
  have hi : i * b + 1 ≤ items.length := by rw [Nat.succ_mul] at hj; omega
  rw [(takeAhead_state items fails b hb i hi).resolve_right (by omega)]
  exact ⟨rfl, (lazy_pulled items fails b (i + 1) hb (by omega)).1⟩

theorem aheadGo_ne_nil (b : Nat) : ∀ (rem acc : List Int), acc ≠ [] → aheadGo b acc rem ≠ []
  | [], acc, h => by
    have : acc.length > 0 := List.length_pos_iff.mpr h
    simp [aheadGo, this]
  | x :: r, acc, h => by
    simp only [aheadGo]
    split
    · simp
    · exact aheadGo_ne_nil b r (acc ++ [x]) (by simp)

/-- over a source that raises, from any live state: all batches of the list-level function but the last, then the exception -/
theorem takeAhead_outcomes_fail (b : Nat) (items : List Int) : ∀ (rem : List Int) (p : Nat) (acc : List Int) (k : Nat),
    items.drop p = rem →
    (takeFrom (nextAhead b ⟨items, true⟩) ((aheadGo b acc rem).dropLast.length + (1 + k)) ⟨p, acc, false⟩).1 =
      (aheadGo b acc rem).dropLast.map Outcome.batch ++ Outcome.raised :: List.replicate k Outcome.stop
  | [], p, acc, k, h => by
    have h1 : nextAhead b ⟨items, true⟩ ⟨p, acc, false⟩ = (⟨p, [], true⟩, .raised) := by
      simp [nextAhead, h, nextAheadGo]
    have h2 : (aheadGo b acc []).dropLast = [] := by
      simp only [aheadGo]; split <;> rfl
    rw [h2, List.length_nil, Nat.zero_add, Nat.add_comm, takeFrom_succ, h1, takeFromAhead_finished _ _ _ _ rfl]
    rfl
  | x :: r, p, acc, k, h => by
    have h' : items.drop (p + 1) = r := by
      rw [← List.drop_drop, h]; rfl
    have h1 := nextAhead_cons b ⟨items, true⟩ p acc x r h
    simp only [aheadGo]
    by_cases hl : acc.length = b
    · simp only [hl, if_true] at h1 ⊢
      rw [List.dropLast_cons_of_ne_nil (aheadGo_ne_nil b r [x] (by simp)), List.length_cons, Nat.add_right_comm,
        takeFrom_succ, h1]
      simp only [List.map_cons, List.cons_append]
      rw [takeAhead_outcomes_fail b items r (p + 1) [x] k h']
    · simp only [hl, if_false] at h1 ⊢
      rw [takeFrom_congr_fst _ _ _ h1, takeAhead_outcomes_fail b items r (p + 1) (acc ++ [x]) k h']

/-- over a source that raises after its items the variant hands over all batches of the list BUT THE LAST — also when the last one
is complete (`failing_source_batches`: the real code loses only an incomplete one) -/
theorem ahead_failing_batches (items : List Int) (b k : Nat) (hb : 0 < b) :
    (takeAhead b ⟨items, true⟩ ((batcherIter items b).dropLast.length + (1 + k))).1 =
      (batcherIter items b).dropLast.map Outcome.batch ++ Outcome.raised :: List.replicate k Outcome.stop := by
  have h := takeAhead_outcomes_fail b items items 0 [] k rfl
  rw [aheadGo_batcherIter items b hb] at h
  exact h

/-- the number of batches lost: with `len % b = 0` and `len > 0` the real code hands over `len / b` batches before the exception,
the variant one less -/
theorem ahead_failing_count (items : List Int) (b : Nat) (hb : 0 < b) (h0 : items.length % b = 0) (hpos : 0 < items.length) :
    (batcherIter items b).dropLast.length + 1 = items.length / b := by
  rw [List.length_dropLast, batcherIter_eq items b hb, List.length_map, List.length_range, batcherLen_div _ _ hb, if_pos h0]
  have : 0 < items.length / b := Nat.div_pos (Nat.le_of_dvd hpos (Nat.dvd_of_mod_eq_zero h0)) hb
  omega

/-! ### concrete witnesses -/

theorem ahead_reads_ahead :
    (takeAhead 2 ⟨[0, 1, 2, 3], false⟩ 1) = ([.batch [0, 1]], ⟨3, [2], false⟩) ∧
    (take 2 ⟨[0, 1, 2, 3], false⟩ 1) = ([.batch [0, 1]], ⟨2, [], false⟩) := by decide

theorem ahead_loses_batch :
    (takeAhead 2 ⟨[0, 1, 2, 3], true⟩ 5).1 = [.batch [0, 1], .raised, .stop, .stop, .stop] ∧
    (take 2 ⟨[0, 1, 2, 3], true⟩ 5).1 = [.batch [0, 1], .batch [2, 3], .raised, .stop, .stop] := by decide

end WindVerif.BatcherLazy
