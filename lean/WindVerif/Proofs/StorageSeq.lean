import WindVerif.Model.StorageSeq
/-! Theorems about the sequential model of `TextFileStorage` (C14): a store whose write raises leaves the identifier free. -/
namespace WindVerif.StorageSeq

/-! ### lists of optional texts -/

/-- number of stored entries -/
def cnt (l : List (Option Nat)) : Nat := l.countP Option.isSome

/-- length of the leading block of stored entries = the smallest id that is not stored -/
def pl (l : List (Option Nat)) : Nat := (l.takeWhile Option.isSome).length

theorem getD_nil (i : Nat) : ([] : List (Option Nat)).getD i none = none := by simp

theorem getD_cons_zero (a : Option Nat) (r : List (Option Nat)) : (a :: r).getD 0 none = a := by simp

theorem getD_cons_succ (a : Option Nat) (r : List (Option Nat)) (i : Nat) :
    (a :: r).getD (i + 1) none = r.getD i none := by simp

theorem getD_of_le (l : List (Option Nat)) (i : Nat) (h : l.length ≤ i) : l.getD i none = none := by
  simp [List.getD_eq_getElem?_getD, List.getElem?_eq_none h]

theorem lt_of_getD_isSome (l : List (Option Nat)) (i : Nat) (h : (l.getD i none).isSome = true) : i < l.length := by
  apply Classical.byContradiction
  intro hn
  rw [getD_of_le l i (by omega)] at h
  simp at h

theorem pl_le_cnt (l : List (Option Nat)) : pl l ≤ cnt l := by
  induction l with
  | nil => simp [pl, cnt]
  | cons a r ih =>
    cases a with
    | none => simp [pl, cnt]
    | some t =>
      simp only [pl, cnt] at ih ⊢
      simp
      exact ih

theorem cnt_le_length (l : List (Option Nat)) : cnt l ≤ l.length := List.countP_le_length

theorem pl_prefix (l : List (Option Nat)) : ∀ i, i < pl l → (l.getD i none).isSome = true := by
  induction l with
  | nil => intro i hi; simp [pl] at hi
  | cons a r ih =>
    intro i hi
    cases a with
    | none => simp [pl] at hi
    | some t =>
      have hpl : pl (some t :: r) = pl r + 1 := by simp [pl]
      cases i with
      | zero => simp
      | succ j =>
        rw [getD_cons_succ]
        exact ih j (by omega)

theorem pl_stop (l : List (Option Nat)) : (l.getD (pl l) none).isSome = false := by
  induction l with
  | nil => simp [pl]
  | cons a r ih =>
    cases a with
    | none => simp [pl]
    | some t =>
      have hpl : pl (some t :: r) = pl r + 1 := by simp [pl]
      rw [hpl, getD_cons_succ]
      exact ih

/-- `pl l` is the only `w` with: everything below `w` stored, `w` not stored -/
theorem pl_unique (l : List (Option Nat)) (w : Nat) (h1 : ∀ i, i < w → (l.getD i none).isSome = true)
    (h2 : (l.getD w none).isSome = false) : pl l = w := by
  rcases Nat.lt_trichotomy (pl l) w with h | h | h
  · have := h1 (pl l) h
    rw [pl_stop] at this
    exact absurd this (by simp)
  · exact h
  · have := pl_prefix l w h
    rw [h2] at this
    exact absurd this (by simp)

theorem le_pl (l : List (Option Nat)) (w : Nat) (h1 : ∀ i, i < w → (l.getD i none).isSome = true) : w ≤ pl l := by
  apply Classical.byContradiction
  intro hn
  have := h1 (pl l) (by omega)
  rw [pl_stop] at this
  exact absurd this (by simp)

theorem getD_none_of_cnt_zero (l : List (Option Nat)) (h : cnt l = 0) (i : Nat) : l.getD i none = none := by
  induction l generalizing i with
  | nil => simp
  | cons a r ih =>
    cases a with
    | some t => simp [cnt] at h
    | none =>
      have hr : cnt r = 0 := by simpa [cnt, List.countP_cons] using h
      cases i with
      | zero => simp
      | succ j => rw [getD_cons_succ]; exact ih hr j

/-- the stored ids are exactly `0 … cnt-1` iff the leading block holds all of them -/
theorem pl_eq_cnt_iff (l : List (Option Nat)) :
    pl l = cnt l ↔ ∀ i, (l.getD i none).isSome = true ↔ i < cnt l := by
  induction l with
  | nil => simp [pl, cnt]
  | cons a r ih =>
    cases a with
    | some t =>
      have hpl : pl (some t :: r) = pl r + 1 := by simp [pl]
      have hcnt : cnt (some t :: r) = cnt r + 1 := by simp [cnt]
      rw [hpl, hcnt]
      constructor
      · intro h i
        have h' := ih.1 (by omega)
        cases i with
        | zero => simp
        | succ j => rw [getD_cons_succ, h' j]; omega
      · intro h
        have : pl r = cnt r := by
          apply ih.2
          intro j
          have := h (j + 1)
          rw [getD_cons_succ] at this
          rw [this]; omega
        omega
    | none =>
      have hpl : pl (none :: r) = 0 := by simp [pl]
      have hcnt : cnt (none :: r) = cnt r := by simp [cnt]
      rw [hpl, hcnt]
      constructor
      · intro h i
        cases i with
        | zero => simp; omega
        | succ j =>
          rw [getD_cons_succ, getD_none_of_cnt_zero r h.symm j]
          simp; omega
      · intro h
        have := h 0
        simp at this
        omega

/-! ### extend / set -/

theorem getD_extend (idx : List (Option Nat)) (g i : Nat) : (extend idx g).getD i none = idx.getD i none := by
  unfold extend
  split
  · by_cases hi : i < idx.length
    · simp [List.getD_eq_getElem?_getD, List.getElem?_append_left hi]
    · rw [getD_of_le idx i (by omega)]
      simp only [List.getD_eq_getElem?_getD]
      rw [List.getElem?_append_right (by omega)]
      simp only [List.getElem?_replicate]
      split <;> rfl
  · rfl

theorem lt_length_extend (idx : List (Option Nat)) (g : Nat) : g < (extend idx g).length := by
  unfold extend
  split
  · simp; omega
  · omega

theorem length_extend_ge (idx : List (Option Nat)) (g : Nat) : idx.length ≤ (extend idx g).length := by
  unfold extend
  split
  · simp
  · omega

theorem extend_of_lt (idx : List (Option Nat)) (g : Nat) (h : g < idx.length) : extend idx g = idx := by
  unfold extend
  rw [if_neg (by omega)]

theorem extend_eq_append (idx : List (Option Nat)) (g : Nat) : ∃ k, extend idx g = idx ++ List.replicate k none := by
  unfold extend
  split
  · exact ⟨_, rfl⟩
  · exact ⟨0, by simp⟩

theorem cnt_extend (idx : List (Option Nat)) (g : Nat) : cnt (extend idx g) = cnt idx := by
  obtain ⟨k, hk⟩ := extend_eq_append idx g
  rw [hk]
  simp [cnt, List.countP_append, List.countP_replicate]

theorem pl_extend (idx : List (Option Nat)) (g : Nat) : pl (extend idx g) = pl idx := by
  apply pl_unique
  · intro i hi
    rw [getD_extend]
    exact pl_prefix idx i hi
  · rw [getD_extend]
    exact pl_stop idx

theorem getD_set (l : List (Option Nat)) (g i : Nat) (v : Option Nat) (hg : g < l.length) :
    (l.set g v).getD i none = if i = g then v else l.getD i none := by
  simp only [List.getD_eq_getElem?_getD, List.getElem?_set]
  by_cases h : g = i
  · subst h; simp [hg]
  · have h' : ¬ i = g := fun e => h e.symm
    simp [h, h']

theorem cnt_set (l : List (Option Nat)) (g t : Nat) (hg : g < l.length) (hfree : (l.getD g none).isSome = false) :
    cnt (l.set g (some t)) = cnt l + 1 := by
  induction l generalizing g with
  | nil => simp at hg
  | cons a r ih =>
    cases g with
    | zero =>
      rw [getD_cons_zero] at hfree
      cases a with
      | some x => simp at hfree
      | none => simp [cnt]
    | succ j =>
      rw [getD_cons_succ] at hfree
      have := ih j (by simpa using hg) hfree
      simp only [cnt, List.set_cons_succ, List.countP_cons] at this ⊢
      omega

/-! ### the `_waiting_for` loop -/

theorem advance_spec (idx : List (Option Nat)) (stored : Nat) :
    ∀ (fuel w : Nat), stored - w ≤ fuel → (∀ i, i < w → (idx.getD i none).isSome = true) →
      (∀ i, i < advance idx stored fuel w → (idx.getD i none).isSome = true) ∧
        (stored ≤ advance idx stored fuel w ∨ (idx.getD (advance idx stored fuel w) none).isSome = false) := by
  intro fuel
  induction fuel with
  | zero =>
    intro w hf hw
    simp only [advance]
    exact ⟨hw, Or.inl (by omega)⟩
  | succ f ih =>
    intro w hf hw
    simp only [advance]
    split
    · rename_i hc
      apply ih (w + 1) (by omega)
      intro i hi
      by_cases h : i < w
      · exact hw i h
      · have : i = w := by omega
        subst this; exact hc.2
    · rename_i hc
      refine ⟨hw, ?_⟩
      by_cases h : w < stored
      · right
        cases hx : (idx.getD w none).isSome with
        | false => rfl
        | true => exact absurd ⟨h, hx⟩ hc
      · left; omega

/-- the fuel `stored - w` suffices: when the loop of the model stops, the condition of the `while` is false -/
theorem advance_fuel (idx : List (Option Nat)) (stored w : Nat) :
    ¬ (advance idx stored (stored - w) w < stored ∧ (idx.getD (advance idx stored (stored - w) w) none).isSome = true) := by
  induction hf : stored - w generalizing w with
  | zero => simp only [advance]; omega
  | succ f ih =>
    simp only [advance]
    split
    · exact ih (w + 1) (by omega)
    · rename_i hc; exact hc

/-! ### the invariant -/

/-- `_stored_cnt` is the number of stored ids, `_waiting_for` the smallest id that is not stored -/
def Inv (s : St) : Prop := s.stored = cnt s.index ∧ s.waiting = pl s.index

theorem inv_empty : Inv St.empty := by simp [Inv, St.empty, cnt, pl]

theorem inv_init (n : Nat) : Inv (St.init n) := by
  refine ⟨?_, ?_⟩
  · simp [St.init, cnt, List.countP_replicate]
  · simp only [St.init]
    symm
    apply pl_unique
    · intro i hi; omega
    · cases n <;> simp [List.getD_eq_getElem?_getD]

theorem store_taken (s : St) (g t : Nat) (ok : Bool) (h : (s.get g).isSome = true) :
    store s g t ok = (s, .valueError) := by
  have hg : g < s.index.length := lt_of_getD_isSome _ _ h
  have he : extend s.index g = s.index := extend_of_lt _ _ hg
  have h' : (s.index.getD g none).isSome = true := h
  simp only [store, he]
  rw [if_pos h']

theorem store_raised (s : St) (g t : Nat) (h : (s.get g).isSome = false) :
    store s g t false = ({ s with index := extend s.index g }, .raised) := by
  have h' : ((extend s.index g).getD g none).isSome = false := by rw [getD_extend]; exact h
  have hc : ¬ (((extend s.index g).getD g none).isSome = true) := by rw [h']; exact Bool.false_ne_true
  simp only [store]
  rw [if_neg hc]
  simp

theorem store_ok (s : St) (g t : Nat) (h : (s.get g).isSome = false) :
    store s g t true =
      (⟨(extend s.index g).set g (some t), s.stored + 1,
        if g = s.waiting then
          advance ((extend s.index g).set g (some t)) (s.stored + 1) (s.stored + 1 - (s.waiting + 1)) (s.waiting + 1)
        else s.waiting⟩, .ok) := by
  have h' : ((extend s.index g).getD g none).isSome = false := by rw [getD_extend]; exact h
  have hc : ¬ (((extend s.index g).getD g none).isSome = true) := by rw [h']; exact Bool.false_ne_true
  simp only [store]
  rw [if_neg hc]
  simp

theorem inv_store (s : St) (g t : Nat) (ok : Bool) (hinv : Inv s) : Inv (store s g t ok).1 := by
  cases hfree : (s.get g).isSome with
  | true => rw [store_taken s g t ok hfree]; exact hinv
  | false =>
    cases ok with
    | false =>
      rw [store_raised s g t hfree]
      exact ⟨by simp only [cnt_extend]; exact hinv.1, by simp only [pl_extend]; exact hinv.2⟩
    | true =>
      rw [store_ok s g t hfree]
      obtain ⟨h1, h2⟩ := hinv
      have hlen := lt_length_extend s.index g
      have hfree' : ((extend s.index g).getD g none).isSome = false := by rw [getD_extend]; exact hfree
      have hcnt : cnt ((extend s.index g).set g (some t)) = s.stored + 1 := by
        rw [cnt_set _ g t hlen hfree', cnt_extend, h1]
      refine ⟨hcnt.symm, ?_⟩
      simp only
      -- below the old `_waiting_for` everything stays stored
      have hbelow : ∀ i, i < s.waiting → (((extend s.index g).set g (some t)).getD i none).isSome = true := by
        intro i hi
        rw [getD_set _ _ _ _ hlen]
        split
        · rfl
        · rw [getD_extend]; exact pl_prefix _ _ (by omega)
      by_cases hg : g = s.waiting
      · rw [if_pos hg]
        have hstart : ∀ i, i < s.waiting + 1 → (((extend s.index g).set g (some t)).getD i none).isSome = true := by
          intro i hi
          by_cases h : i < s.waiting
          · exact hbelow i h
          · have : i = g := by omega
            rw [getD_set _ _ _ _ hlen, if_pos this]; rfl
        obtain ⟨ha, hb⟩ := advance_spec ((extend s.index g).set g (some t)) (s.stored + 1)
          (s.stored + 1 - (s.waiting + 1)) (s.waiting + 1) (Nat.le_refl _) hstart
        rcases hb with hb | hb
        · have hle := le_pl _ _ ha
          have := pl_le_cnt ((extend s.index g).set g (some t))
          omega
        · exact (pl_unique _ _ ha hb).symm
      · rw [if_neg hg]
        symm
        apply pl_unique _ _ hbelow
        rw [getD_set _ _ _ _ hlen, if_neg (fun e => hg e.symm), getD_extend, h2]
        exact pl_stop _

theorem inv_step (s : St) (op : Op) (hinv : Inv s) : Inv (step s op).1 := by
  cases op with
  | store g t ok => exact inv_store s g t ok hinv
  | flush => exact inv_empty
  | _ => exact hinv

theorem inv_run (ops : List Op) : ∀ (s : St), Inv s → Inv (run s ops) := by
  induction ops with
  | nil => intro s h; exact h
  | cons op ops ih => intro s h; exact ih _ (inv_step s op h)

/-- the loop reads `self._index[w]` only inside the index -/
theorem loop_reads_in_range (idx : List (Option Nat)) (w : Nat) (h : w < cnt idx) : w < idx.length := by
  have := cnt_le_length idx
  omega

/-! ### reading and iterating -/

theorem read_eq (s : St) (g : Nat) :
    read s g = match s.get g with | none => .indexError | some t => .text t := by
  unfold read St.get
  split
  · rename_i h
    rw [getD_of_le _ _ h]
  · rfl

theorem iter_eq (s : St) : iter s = s.index.filterMap id := by
  unfold iter
  have h1 : (fun i => (read s i).text?) = (fun i => s.index.getD i none) := by
    funext i
    rw [read_eq]
    unfold St.get
    cases s.index.getD i none <;> rfl
  rw [h1]
  have h2 : (List.range s.index.length).map (fun i => s.index.getD i none) = s.index := by
    apply List.ext_getElem
    · simp
    · intro i hi1 hi2
      simp [List.getD_eq_getElem?_getD, List.getElem?_eq_getElem hi2]
  conv => rhs; rw [← h2]
  rw [List.filterMap_map]
  rfl

/-- the ids holding a text, ascending -/
def storedIds (s : St) : List Nat := (List.range s.index.length).filter (fun i => (s.get i).isSome)

theorem mem_storedIds (s : St) (i : Nat) : i ∈ storedIds s ↔ (s.get i).isSome = true := by
  simp only [storedIds, List.mem_filter, List.mem_range]
  constructor
  · exact fun h => h.2
  · exact fun h => ⟨lt_of_getD_isSome _ _ h, h⟩

theorem storedIds_sorted (s : St) : (storedIds s).Pairwise (· < ·) :=
  List.Pairwise.sublist List.filter_sublist List.pairwise_lt_range

theorem iter_storedIds (s : St) : (iter s).map some = (storedIds s).map s.get := by
  unfold iter storedIds
  have h1 : (fun i => (read s i).text?) = s.get := by
    funext i
    rw [read_eq]
    cases s.get i <;> rfl
  rw [h1]
  generalize List.range s.index.length = ids
  induction ids with
  | nil => rfl
  | cons a r ih =>
    cases h : s.get a with
    | none => simp [h, ih]
    | some t => simp [h, ih]

/-! ### the property theorems -/

/-- a store of a free id whose write raises: result `raised`; the map id → text, `len`, `_waiting_for`, `is_contiguous`, every
read and the iteration are as before — in particular reading `g` raises `IndexError` — and a following store of `g`
succeeds and is read back -/
theorem failed_store_frees_id (s : St) (g t t' : Nat) (hfree : s.get g = none) :
    (store s g t false).2 = .raised ∧
    (∀ i, (store s g t false).1.get i = s.get i) ∧
    read (store s g t false).1 g = .indexError ∧
    (∀ i, read (store s g t false).1 i = read s i) ∧
    len (store s g t false).1 = len s ∧
    (store s g t false).1.waiting = s.waiting ∧
    contiguous (store s g t false).1 = contiguous s ∧
    iter (store s g t false).1 = iter s ∧
    (store (store s g t false).1 g t' true).2 = .ok ∧
    read (store (store s g t false).1 g t' true).1 g = .text t' := by
  have hf : (s.get g).isSome = false := by rw [hfree]; rfl
  rw [store_raised s g t hf]
  have hget : ∀ i, St.get { s with index := extend s.index g } i = s.get i := by
    intro i; simp only [St.get, getD_extend]
  have hread : ∀ i, read { s with index := extend s.index g } i = read s i := by
    intro i; rw [read_eq, read_eq, hget]
  have hf' : (St.get { s with index := extend s.index g } g).isSome = false := by rw [hget]; exact hf
  refine ⟨rfl, hget, ?_, hread, rfl, rfl, rfl, ?_, ?_, ?_⟩
  · rw [hread, read_eq, hfree]
  · rw [iter_eq, iter_eq]
    obtain ⟨k, hk⟩ := extend_eq_append s.index g
    simp only [hk, List.filterMap_append]
    have : (List.replicate k (none : Option Nat)).filterMap id = [] := by
      induction k with
      | zero => rfl
      | succ n _ => simp [List.replicate_succ]
    rw [this, List.append_nil]
  · rw [store_ok _ g t' hf']
  · rw [store_ok _ g t' hf', read_eq]
    simp only [St.get]
    rw [getD_set _ _ _ _ (lt_length_extend _ _), if_pos rfl]

/-- a successful store of `g`; then every further store of `g` (whatever the text, whether or not its write would raise)
raises `ValueError` and changes nothing -/
theorem store_once (s : St) (g t t' : Nat) (ok' : Bool) (hfree : s.get g = none) :
    (store s g t true).2 = .ok ∧ read (store s g t true).1 g = .text t ∧
    store (store s g t true).1 g t' ok' = ((store s g t true).1, .valueError) := by
  have hf : (s.get g).isSome = false := by rw [hfree]; rfl
  have hget : (store s g t true).1.get g = some t := by
    rw [store_ok s g t hf]
    simp only [St.get]
    rw [getD_set _ _ _ _ (lt_length_extend _ _), if_pos rfl]
  refine ⟨by rw [store_ok s g t hf], by rw [read_eq, hget], ?_⟩
  exact store_taken _ g t' ok' (by rw [hget]; rfl)

/-- the other ids are not touched by a store (successful or not) -/
theorem store_other (s : St) (g t i : Nat) (ok : Bool) (hne : i ≠ g) : (store s g t ok).1.get i = s.get i := by
  cases hfree : (s.get g).isSome with
  | true => rw [store_taken s g t ok hfree]
  | false =>
    cases ok with
    | false => rw [store_raised s g t hfree]; simp only [St.get, getD_extend]
    | true =>
      rw [store_ok s g t hfree]
      simp only [St.get]
      rw [getD_set _ _ _ _ (lt_length_extend _ _), if_neg hne, getD_extend]

/-- after any script from the initial state: `len` is the number of ids holding a text = the number of texts iterated -/
theorem len_is_count (n : Nat) (ops : List Op) :
    len (run (St.init n) ops) = (storedIds (run (St.init n) ops)).length ∧
    len (run (St.init n) ops) = (iter (run (St.init n) ops)).length := by
  have hinv := inv_run ops _ (inv_init n)
  generalize run (St.init n) ops = s at hinv
  have h2 : (iter s).length = (storedIds s).length := by
    have := congrArg List.length (iter_storedIds s)
    simpa using this
  refine ⟨?_, ?_⟩
  · rw [← h2, iter_eq]
    unfold len
    rw [hinv.1]
    unfold cnt
    generalize s.index = l
    induction l with
    | nil => rfl
    | cons a r ih => cases a <;> simp [ih]
  · unfold len
    rw [hinv.1, iter_eq]
    unfold cnt
    generalize s.index = l
    induction l with
    | nil => rfl
    | cons a r ih => cases a <;> simp [ih]

/-- after any script from the initial state: `is_contiguous()` is true exactly when the ids holding a text are
`0 … len-1` -/
theorem contiguous_iff (n : Nat) (ops : List Op) :
    contiguous (run (St.init n) ops) = true ↔
      ∀ i, ((run (St.init n) ops).get i).isSome = true ↔ i < len (run (St.init n) ops) := by
  have hinv := inv_run ops _ (inv_init n)
  generalize run (St.init n) ops = s at hinv
  unfold contiguous len St.get
  rw [hinv.1, hinv.2]
  simp only [beq_iff_eq]
  exact pl_eq_cnt_iff s.index

/-- `_waiting_for` is the smallest id that holds no text -/
theorem waiting_is_first_gap (n : Nat) (ops : List Op) :
    (∀ i, i < (run (St.init n) ops).waiting → ((run (St.init n) ops).get i).isSome = true) ∧
    (run (St.init n) ops).get (run (St.init n) ops).waiting = none := by
  have hinv := inv_run ops _ (inv_init n)
  generalize run (St.init n) ops = s at hinv
  unfold St.get
  rw [hinv.2]
  refine ⟨pl_prefix _, ?_⟩
  have := pl_stop s.index
  cases h : s.index.getD (pl s.index) none with
  | none => rfl
  | some t => rw [h] at this; simp at this

/-- iteration yields the texts in the order of their ids: `storedIds` is strictly increasing, holds exactly the ids with a
text, and the iteration is the list of their texts -/
theorem iter_sorted_by_id (s : St) :
    (storedIds s).Pairwise (· < ·) ∧ (∀ i, i ∈ storedIds s ↔ (s.get i).isSome = true) ∧
    (iter s).map some = (storedIds s).map s.get :=
  ⟨storedIds_sorted s, mem_storedIds s, iter_storedIds s⟩

/-- `flush()` gives the initial state: nothing stored, nothing to read or iterate, contiguous, and every id can be stored
again -/
theorem flush_resets (s : St) (g t : Nat) :
    (step s .flush).1 = St.empty ∧ len (step s .flush).1 = 0 ∧ contiguous (step s .flush).1 = true ∧
    iter (step s .flush).1 = [] ∧ read (step s .flush).1 g = .indexError ∧
    (store (step s .flush).1 g t true).2 = .ok ∧ read (store (step s .flush).1 g t true).1 g = .text t := by
  have h : (step s .flush).1 = St.empty := rfl
  rw [h]
  have hfree : St.empty.get g = none := by simp [St.get, St.empty]
  refine ⟨rfl, rfl, rfl, rfl, ?_, (store_once St.empty g t 0 true hfree).1, (store_once St.empty g t 0 true hfree).2.1⟩
  rw [read_eq, hfree]

end WindVerif.StorageSeq
